import PilotaModel.Lemmas.SpecBinChk
import PilotaModel.Lemmas.SpecCmpChk
import PilotaModel.Lemmas.SpecMsg
import PilotaModel.Lemmas.SpecDecCmp
import PilotaModel.Lemmas.OpsRun
/-
  C03 — the wire format conforms to the Apache Thrift binary and compact protocol specifications.

  `Thrift/Spec.lean` is an independent reference written from the spec facts of DESIGN.md section 8/C03:
  `SpecBin.Enc v bs` / `SpecCmp.Enc v bs` say "`bs` is a legal encoding of `v`", admitting every legal
  alternative.  pilota → reference: what pilota writes is in the relation.  reference → pilota: pilota
  reads EVERY member of the relation back to the value.  Runtime level (value trees, envelopes, the
  application-exception struct); emitted encoders/decoders are the generated-code track's.
-/
namespace Pilota.Props.C03
open Pilota Pilota.Thrift Pilota.Thrift.Spec

/-! ### pilota → reference -/

/-- BINARY: the bytes the writer produces for a well-typed value are a legal encoding, and they are the
reference's canonical encoding. -/
theorem pilota_binary_is_spec (v : TVal) (hw : v.wt = true) :
    SpecBin.Enc v (Binary.run .be v.ops) ∧ Binary.run .be v.ops = SpecBin.encode v := by
  rw [Binary.run_ops, SpecBin.enc_eq_encode v hw]
  exact ⟨SpecBin.encode_is_spec v hw, rfl⟩

/-- COMPACT: from any writer state without a deferred bool the writer accepts the value's calls, returns
to that state, and the bytes are a legal encoding — the reference's canonical encoding with short field
headers for deltas 1..14 (pilota writes the long form for delta 15, which is legal too). -/
theorem pilota_compact_is_spec (v : TVal) (hw : v.wt = true) (ws : Compact.CW) (hp : ws.pending = none) :
    ∃ bs, Compact.run ws v.ops = .ok (ws, bs) ∧ SpecCmp.Enc v bs ∧ bs = SpecCmp.encode 14 v := by
  refine ⟨Compact.enc v, Compact.run_ops v hw ws hp, ?_, SpecCmp.enc_eq_encode v hw⟩
  rw [SpecCmp.enc_eq_encode v hw]; exact SpecCmp.encode_is_spec 14 (by decide) v hw

/-- every canonical choice of the reference encoder (short field headers up to any delta ≤ 15) is legal. -/
theorem spec_encode_is_spec (m : Nat) (hm : m ≤ 15) (v : TVal) (hw : v.wt = true) :
    SpecBin.Enc v (SpecBin.encode v) ∧ SpecCmp.Enc v (SpecCmp.encode m v) :=
  ⟨SpecBin.encode_is_spec v hw, SpecCmp.encode_is_spec m hm v hw⟩

/-! ### reference → pilota, every legal alternative -/

/-- BINARY: any legal encoding (any non-zero byte for `true`) followed by anything is read back to
exactly the value, leaving exactly the rest. -/
theorem pilota_reads_any_spec_binary (v : TVal) (bs : Bytes) (h : SpecBin.Enc v bs) (r : Bytes) :
    Binary.read .be v.ttype (bs ++ r) = .ok (v, r) := by
  unfold Binary.read
  apply SpecBin.readVal_of_enc v bs h
  have := SpecBin.enc_size v bs h
  simp only [List.length_append]; omega

/-- COMPACT: any legal encoding — long-form field headers where a delta would fit, short form with delta
15, bool collections announced by nibble 1 or 2, the one-byte empty map — is read back to the value (up to
the key/value types of empty maps, which are not on the wire), the reader returns to its state. -/
theorem pilota_reads_any_spec_compact (v : TVal) (bs : Bytes) (h : SpecCmp.Enc v bs) (rs : Compact.CR)
    (hr : rs.pendingBool = none) (r : Bytes) : Compact.read v.ttype rs (bs ++ r) = .ok (Compact.norm v, rs, r) := by
  unfold Compact.read
  apply SpecCmp.readVal_of_enc v bs h _ _ rs hr
  have := SpecCmp.enc_size v bs h
  simp only [List.length_append]; omega

/-- the reference's own total decoders recover the value from EVERY legal encoding followed by anything … -/
theorem spec_decodes_any_spec (v : TVal) (bs : Bytes) (r : Bytes) :
    (SpecBin.Enc v bs → SpecBin.decodeTop v.ttype (bs ++ r) = .ok (v, r)) ∧
    (SpecCmp.Enc v bs → SpecCmp.decodeTop v.ttype (bs ++ r) = .ok (Compact.norm v, r)) := by
  constructor
  · intro h
    unfold SpecBin.decodeTop
    apply SpecBin.decode_of_enc v bs h
    have := SpecBin.enc_size v bs h
    simp only [List.length_append]; omega
  · intro h
    unfold SpecCmp.decodeTop
    apply SpecCmp.decode_of_enc v bs h
    have := SpecCmp.enc_size v bs h
    simp only [List.length_append]; omega

/-- … in particular from what pilota writes: an independent decoder written from the specification
recovers exactly the value that was written (compact: up to the types of empty maps). -/
theorem spec_decodes_pilota (v : TVal) (hw : v.wt = true) (r : Bytes) :
    SpecBin.decodeTop v.ttype (Binary.run .be v.ops ++ r) = .ok (v, r) ∧
    ∀ (ws : Compact.CW), ws.pending = none → ∃ bs, Compact.run ws v.ops = .ok (ws, bs) ∧
      SpecCmp.decodeTop v.ttype (bs ++ r) = .ok (Compact.norm v, r) := by
  refine ⟨(spec_decodes_any_spec v _ r).1 (pilota_binary_is_spec v hw).1, ?_⟩
  intro ws hp
  obtain ⟨bs, h1, h2, _⟩ := pilota_compact_is_spec v hw ws hp
  exact ⟨bs, h1, (spec_decodes_any_spec v bs r).2 h2⟩

/-- the executable membership tests the driver runs on every alternative encoding fed to the real
readers are sound: whatever they accept is a legal encoding. -/
theorem check_sound (v : TVal) (bs : Bytes) :
    (SpecBin.check v bs = true → SpecBin.Enc v bs) ∧ (SpecCmp.check v bs = true → SpecCmp.Enc v bs) :=
  ⟨SpecBin.check_sound v bs, SpecCmp.check_sound v bs⟩

/-! ### message envelopes, both directions, every (name, type ∈ 1..4, seqid ∈ i32) -/

/-- strict binary: `0x8001_00tt`, name, seqid. -/
theorem msg_envelope_binary (name : Bytes) (mt : Nat) (seq : Int) (hm : 1 ≤ mt ∧ mt ≤ 4) (hn : name.length < 2 ^ 31)
    (hs : inS 4 seq) (r : Bytes) :
    Binary.wOp .be (.msgBegin name mt seq) = SpecBin.message name mt seq ∧
    Msg.readBeginBin .be (SpecBin.message name mt seq ++ r) = .ok ((name, mt, seq), r) :=
  ⟨Msg.write_bin name mt seq hm hn hs, Msg.read_bin name mt seq hm hn hs r⟩

/-- compact: `0x82`, `ttt vvvvv` (version 1), seqid as the unsigned varint of the i32 bit pattern, name. -/
theorem msg_envelope_compact (s : Compact.CW) (name : Bytes) (mt : Nat) (seq : Int) (hm : 1 ≤ mt ∧ mt ≤ 4)
    (hn : name.length < 2 ^ 31) (hs : inS 4 seq) (r : Bytes) :
    Compact.wStep s (.msgBegin name mt seq) = .ok (s, SpecCmp.message name mt seq) ∧
    Msg.readBeginCmp (SpecCmp.message name mt seq ++ r) = .ok ((name, mt, seq), r) :=
  ⟨Msg.write_cmp s name mt seq hm hn hs, Msg.read_cmp name mt seq hm hn hs r⟩

/-- non-strict binary messages (no version word: the first i32 is a positive name length) are rejected. -/
theorem msg_nonstrict_rejected (e : Endian) (bs : Bytes) (size : Int) (r : Bytes) (h : Binary.readI e 4 bs = .ok (size, r))
    (hp : 0 < size) : Msg.readBeginBin e bs = .err .badVersion := by
  simp [Msg.readBeginBin, h, hp]

/-! ### the standard application-exception struct (1: message string, 2: type i32) -/

theorem app_exception_conforms (msg : Bytes) (kind : Int) (hm : msg.length < 2 ^ 31) (hk : inS 4 kind) :
    -- `encode` makes exactly the calls of the struct value {1: message, 2: type} …
    Msg.appOps msg kind = (Msg.appVal msg kind).ops ∧
    -- … whose bytes are legal encodings of that struct under both protocols …
    SpecBin.Enc (Msg.appVal msg kind) (Binary.run .be (Msg.appOps msg kind)) ∧
    (∀ ws : Compact.CW, ws.pending = none → ∃ bs, Compact.run ws (Msg.appOps msg kind) = .ok (ws, bs) ∧ SpecCmp.Enc (Msg.appVal msg kind) bs) ∧
    -- … and `decode` reads EVERY legal encoding of it (compact: either header form) back to (message, type).
    (∀ bs, SpecBin.Enc (Msg.appVal msg kind) bs → ∀ f, 3 ≤ f → ∀ d r, Msg.appDecodeBin .be f d (bs ++ r) = .ok ((msg, kind), r)) ∧
    (∀ bs, SpecCmp.Enc (Msg.appVal msg kind) bs → ∀ f, 3 ≤ f → ∀ (s : Compact.CR), s.pendingBool = none → ∀ r,
        Msg.appDecodeCmp f s (bs ++ r) = .ok ((msg, kind), s, r)) := by
  have hw := Msg.appVal_wt msg kind hm hk
  refine ⟨rfl, ?_, ?_, ?_, ?_⟩
  · exact (pilota_binary_is_spec _ hw).1
  · intro ws hp
    obtain ⟨bs, h1, h2, _⟩ := pilota_compact_is_spec _ hw ws hp
    exact ⟨bs, h1, h2⟩
  · intro bs h f hf d r; exact Msg.appDecode_bin msg kind bs h f hf d r
  · intro bs h f hf s hs r; exact Msg.appDecode_cmp msg kind bs h f hf s hs r

/-! ### type codes -/

/-- `TType::try_from(u8)` accepts exactly the reference's twelve binary codes plus 0 (STOP) and 1 (VOID). -/
theorem ttype_table : ∀ b : Fin 256, TType.ofByte b.val =
    (if b.val = 0 then some .stop else if b.val = 1 then some .void else binTypeOfCode b.val) := by decide +kernel

/-- compact nibbles: exactly the reference's thirteen plus 0 (STOP). -/
theorem ctype_table : ∀ n : Fin 16, Compact.ttypeOfCompact n.val =
    (if n.val = 0 then some .stop else cmpTypeOfNibble n.val) := by decide

/-- the reference's own tables are inverse to each other on the value types. -/
theorem spec_tables : ∀ t ∈ TType.all, t.isValue = true →
    (binCode t).bind binTypeOfCode = some t ∧ (t ≠ .bool → (cmpCode t).bind cmpTypeOfNibble = some t) := by decide

/-- BINARY: a type byte outside {0, 1} ∪ the reference's codes is rejected with an error in every header
position: field type, list/set element type, map key type, map value type. -/
theorem bad_type_rejected_binary (e : Endian) (b : UInt8) (h : TType.ofByte b.toNat = none) (r : Bytes) :
    Binary.readFieldBegin e (b :: r) = .err .invalid ∧ Binary.readListBegin e (b :: r) = .err .invalid ∧
    Binary.readMapBegin e (b :: r) = .err .invalid ∧ ∀ k : UInt8, (Binary.readMapBegin e (k :: b :: r)).isOk = false := by
  refine ⟨?_, ?_, ?_, ?_⟩
  · simp [Binary.readFieldBegin, Binary.readTType, Binary.readByte, h]
  · simp [Binary.readListBegin, Binary.readTType, Binary.readByte, h]
  · simp [Binary.readMapBegin, Binary.readTType, Binary.readByte, h]
  · intro k
    cases hk : TType.ofByte k.toNat <;> simp [Binary.readMapBegin, Binary.readTType, Binary.readByte, h, hk, Out.isOk]

/-- COMPACT: a type nibble outside the reference's (14, 15) is rejected in a field header, a list/set
header and either half of the key/value byte of a non-empty map (here: any one-byte size 1..127). -/
theorem bad_type_rejected_compact (s : Compact.CR) (b : UInt8) (r : Bytes) :
    (Compact.ttypeOfCompact (b.toNat % 16) = none →
      Compact.readFieldBegin s (b :: r) = .err .invalid ∧ Compact.readCollBegin (b :: r) = .err .invalid) ∧
    (Compact.ttypeOfCompact (b.toNat / 16) = none ∨ Compact.ttypeOfCompact (b.toNat % 16) = none →
      ∀ n : UInt8, 1 ≤ n.toNat → n.toNat < 128 → (Compact.readMapBegin (n :: b :: r)).isOk = false) := by
  constructor
  · intro h
    constructor
    · simp [Compact.readFieldBegin, Compact.readByte, Binary.readByte, h]
    · simp [Compact.readCollBegin, Compact.readByte, Binary.readByte, h]
  · intro h n hn1 hn
    have hv : readVarU 4 (n :: b :: r) = .ok (n.toNat, b :: r) := by
      have hg : gatherVar (varMaxSize 4) (n :: b :: r) = .ok ([n], b :: r) := by
        have : varMaxSize 4 = 4 + 1 := by decide
        rw [this]; simp [gatherVar, hn]
      have e1 : n.toNat % 128 = n.toNat := Nat.mod_eq_of_lt hn
      have e2 : n.toNat % 2 ^ 64 % 256 ^ 4 = n.toNat := by
        have : (2:Nat) ^ 64 = 18446744073709551616 := by decide
        have : (256:Nat) ^ 4 = 4294967296 := by decide
        omega
      simp [readVarU, hg, varValue, e1, e2]
    have e31 : (2:Nat) ^ 31 = 2147483648 := by decide
    have hs : toS 4 n.toNat = (n.toNat : Int) := Binary.toS4_eq n.toNat (by omega)
    unfold Compact.readMapBegin
    rw [hv]
    simp only [hs]
    unfold Binary.checkSize
    have hneg : ¬ ((n.toNat : Int) < 0) := by omega
    simp only [hneg, if_false, Int.toNat_natCast]
    by_cases hle : n.toNat ≤ (b :: r).length
    · have h0 : ¬ n.toNat = 0 := by omega
      simp only [hle, if_true, h0, if_false, Compact.readByte, Binary.readByte]
      rcases h with h | h <;> cases hk : Compact.ttypeOfCompact (b.toNat / 16) <;>
        cases hv2 : Compact.ttypeOfCompact (b.toNat % 16) <;> simp_all [Out.isOk]
    · have hle' : ¬ n.toNat ≤ r.length + 1 := by simpa using hle
      simp [hle', Out.isOk]

/-- STOP (0) and VOID (1) pass `TType::try_from` but no value of such a type can be read: … -/
theorem stop_void_unreadable (e : Endian) (f : Nat) (bs : Bytes) (s : Compact.CR) :
    (Binary.readVal e f .stop bs).isOk = false ∧ (Binary.readVal e f .void bs).isOk = false ∧
    (Compact.readVal f .stop s bs).isOk = false ∧ (Compact.readVal f .void s bs).isOk = false := by
  cases f <;> simp [Binary.readVal, Compact.readVal, Out.isOk]

/-- … so a container announcing element type 0 or 1 is rejected as soon as it has an element … -/
theorem stop_void_elements_rejected (e : Endian) (f : Nat) (t : TType) (ht : t = .stop ∨ t = .void) (n : Nat) (bs : Bytes) :
    (Binary.readN e f t (n + 1) bs).isOk = false := by
  cases f with
  | zero => simp [Binary.readN, Out.isOk]
  | succ f =>
    have := stop_void_unreadable e f bs {}
    rcases ht with rfl | rfl
    · cases hx : Binary.readVal e f .stop bs <;> simp_all [Binary.readN, Out.isOk]
    · cases hx : Binary.readVal e f .void bs <;> simp_all [Binary.readN, Out.isOk]

/-- … and the only non-reference type bytes that survive are the element / key / value type of an EMPTY
container, where no byte is ever interpreted under them (D27: recorded as a reading, not a finding —
see DESIGN.md, "Track thrift3"). -/
theorem void_elem_of_empty_container_accepted :
    (match Binary.read .be .list [1, 0, 0, 0, 0] with | .ok (.list .void .nil, []) => true | _ => false) = true ∧
    (match Binary.read .be .map [0, 1, 0, 0, 0, 0] with | .ok (.map .stop .void .nil, []) => true | _ => false) = true ∧
    (match Compact.read .list {} [0x00] with | .ok (.list .stop .nil, _, []) => true | _ => false) = true ∧
    (Binary.read .be .list [1, 0, 0, 0, 1, 0]).isOk = false ∧
    (Binary.read .be .struct [1, 0, 1, 0]).isOk = false := by decide

/-! ### non-vacuity -/

/-- a struct with a bool field, ids 15 apart (pilota: long form; reference canonical: short form), a bool
list, an empty map, a negative id and a uuid. -/
def witness : TVal :=
  .struct (.cons 1 (.bool true)
          (.cons 16 (.list .bool (.cons (.bool false) (.cons (.bool true) .nil)))
          (.cons 17 (.map .i8 .binary .nil)
          (.cons (-5) (.bin [0x68, 0x69])
          (.cons 20000 (.i64 (-9000000000))
          (.cons 20015 (.uuid (List.replicate 16 0xAB)) .nil))))))

example : witness.wt = true := by decide
-- two DIFFERENT legal compact encodings of it (short header for delta 15 vs pilota's long form), both accepted by the checker
example : SpecCmp.encode 15 witness ≠ SpecCmp.encode 14 witness ∧
    SpecCmp.check witness (SpecCmp.encode 15 witness) = true ∧ SpecCmp.check witness (SpecCmp.encode 14 witness) = true := by decide +kernel
-- a legal binary encoding with `true` sent as 0xFF
example : SpecBin.check (.struct (.cons 1 (.bool true) .nil)) [2, 0, 1, 0xFF, 0] = true := by decide
example : (1 : Nat) ≤ 3 ∧ (3 : Nat) ≤ 4 ∧ inS 4 (-1) := by decide

end Pilota.Props.C03
