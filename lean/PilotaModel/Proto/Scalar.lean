import PilotaModel.Proto.Wire
/-
  The scalar codec modules of pilota/src/prost/encoding.rs, one (encode, merge, encoded_len)
  triple per module exactly as the macros define them:
    varint!(bool | int64 | uint32 | uint64 | sint32 | sint64), hand-written `int32`,
    fixed_width!(float | double | fixed32 | fixed64 | sfixed32 | sfixed64),
    `string`, `faststr`, `bytes`;
  with their repeated and packed forms and `merge_repeated` accepting both.
  Floats are bit patterns.  UTF-8 validity is a decidable predicate on bytes.
-/
namespace Pilota.Proto
open Pilota

/-! ### UTF-8 (what `core::str::from_utf8` accepts) -/

def isCont (b : UInt8) : Bool := decide (0x80 ≤ b.toNat ∧ b.toNat ≤ 0xBF)

def validUtf8 : Bytes → Bool
  | [] => true
  | b0 :: rest =>
    let x := b0.toNat
    if x < 0x80 then validUtf8 rest
    else if 0xC2 ≤ x ∧ x ≤ 0xDF then
      match rest with
      | b1 :: r => isCont b1 && validUtf8 r
      | _ => false
    else if 0xE0 ≤ x ∧ x ≤ 0xEF then
      match rest with
      | b1 :: b2 :: r =>
        let y := b1.toNat
        (if x = 0xE0 then decide (0xA0 ≤ y ∧ y ≤ 0xBF)
         else if x = 0xED then decide (0x80 ≤ y ∧ y ≤ 0x9F)
         else isCont b1) && isCont b2 && validUtf8 r
      | _ => false
    else if 0xF0 ≤ x ∧ x ≤ 0xF4 then
      match rest with
      | b1 :: b2 :: b3 :: r =>
        let y := b1.toNat
        (if x = 0xF0 then decide (0x90 ≤ y ∧ y ≤ 0xBF)
         else if x = 0xF4 then decide (0x80 ≤ y ∧ y ≤ 0x8F)
         else isCont b1) && isCont b2 && isCont b3 && validUtf8 r
      | _ => false
    else false

/-! ### scalar values -/

/-- the value held by a scalar Rust field: integers of every width and signedness (and enums),
`bool`, `f32` / `f64` as bit patterns, `String` / `FastStr` / `Bytes` / `Vec<u8>` as bytes. -/
inductive SVal where
  | int (n : Int)
  | bool (b : Bool)
  | f32 (bits : Nat)
  | f64 (bits : Nat)
  | bs (b : Bytes)
  deriving DecidableEq, Repr, Inhabited

namespace SVal
def asInt : SVal → Int
  | .int n => n
  | .bool b => if b then 1 else 0
  | _ => 0
def asBool : SVal → Bool
  | .bool b => b
  | .int n => n != 0
  | _ => false
def asBits : SVal → Nat
  | .f32 b => b
  | .f64 b => b
  | _ => 0
def asBytes : SVal → Bytes
  | .bs b => b
  | _ => []
/-- `value == Default::default()` for the Rust type (IEEE equality on floats: both zeros). -/
def isDefault : SVal → Bool
  | .int n => n == 0
  | .bool b => !b
  | .f32 b => b == 0 || b == 0x80000000
  | .f64 b => b == 0 || b == 0x8000000000000000
  | .bs b => b.isEmpty
end SVal

inductive Codec where
  | bool | int32 | int64 | uint32 | uint64 | sint32 | sint64
  | float | double | fixed32 | fixed64 | sfixed32 | sfixed64
  | string | faststr | bytes
  deriving DecidableEq, Repr, Inhabited

namespace Codec

def all : List Codec := [bool, int32, int64, uint32, uint64, sint32, sint64, float, double, fixed32, fixed64,
  sfixed32, sfixed64, string, faststr, bytes]

def name : Codec → String
  | bool => "bool" | int32 => "int32" | int64 => "int64" | uint32 => "uint32" | uint64 => "uint64"
  | sint32 => "sint32" | sint64 => "sint64" | float => "float" | double => "double"
  | fixed32 => "fixed32" | fixed64 => "fixed64" | sfixed32 => "sfixed32" | sfixed64 => "sfixed64"
  | string => "string" | faststr => "faststr" | bytes => "bytes"

def ofName (s : String) : Option Codec := all.find? (fun c => c.name == s)

inductive Shape where | varint | fixed (w : Nat) | lenDelim
  deriving DecidableEq, Repr

def shape : Codec → Shape
  | bool | int32 | int64 | uint32 | uint64 | sint32 | sint64 => .varint
  | float | fixed32 | sfixed32 => .fixed 4
  | double | fixed64 | sfixed64 => .fixed 8
  | string | faststr | bytes => .lenDelim

/-- the wire type each module writes and checks. -/
def wt (c : Codec) : WireType :=
  match c.shape with
  | .varint => .varint
  | .fixed 4 => .i32
  | .fixed _ => .i64
  | .lenDelim => .len

/-- numeric modules have `encode_packed` and the packed arm of `merge_repeated`. -/
def isNumeric (c : Codec) : Bool := c.shape != .lenDelim

/-- `Default::default()` of the Rust type. -/
def default : Codec → SVal
  | bool => .bool false
  | float => .f32 0
  | double => .f64 0
  | string | faststr | bytes => .bs []
  | _ => .int 0

/-- the values the Rust type can hold. -/
def ok : Codec → SVal → Bool
  | bool, .bool _ => true
  | int32, .int n | sint32, .int n | sfixed32, .int n => decide (inS 4 n)
  | int64, .int n | sint64, .int n | sfixed64, .int n => decide (inS 8 n)
  | uint32, .int n | fixed32, .int n => decide (0 ≤ n ∧ n < 2 ^ 32)
  | uint64, .int n | fixed64, .int n => decide (0 ≤ n ∧ n < 2 ^ 64)
  | float, .f32 b => decide (b < 2 ^ 32)
  | double, .f64 b => decide (b < 2 ^ 64)
  | string, .bs b | faststr, .bs b => validUtf8 b
  | bytes, .bs _ => true
  | _, _ => false

/-- `$to_uint64` of the varint modules. -/
def toU64 : Codec → SVal → Nat
  | bool, v => if v.asBool then 1 else 0                  -- `u64::from(*value)`
  | int32, v => toU 8 v.asInt                             -- `value as u64` (sign extension)
  | int64, v => toU 8 v.asInt
  | uint32, v => toU 4 v.asInt                            -- `*value as u64` (zero extension)
  | uint64, v => toU 8 v.asInt
  | sint32, v => zigzag v.asInt % 2 ^ 32                  -- `((value << 1) ^ (value >> 31)) as u32 as u64`
  | sint64, v => zigzag v.asInt % 2 ^ 64                  -- `((value << 1) ^ (value >> 63)) as u64`
  | _, _ => 0

/-- `$from_uint64` of the varint modules. -/
def fromU64 : Codec → Nat → SVal
  | bool, n => .bool (n != 0)
  | int32, n => .int (toS 4 n)                            -- `from_value as i32`
  | int64, n => .int (toS 8 n)
  | uint32, n => .int (n % 2 ^ 32 : Nat)                  -- `value as u32`
  | uint64, n => .int (n % 2 ^ 64 : Nat)
  | sint32, n => .int (unzigzag (n % 2 ^ 32))             -- on `value as u32`
  | sint64, n => .int (unzigzag (n % 2 ^ 64))
  | _, _ => .int 0

/-- bits written by `put_*_le` of the fixed-width modules. -/
def toFixed : Codec → SVal → Nat
  | float, v | double, v => v.asBits
  | fixed32, v | sfixed32, v => toU 4 v.asInt
  | fixed64, v | sfixed64, v => toU 8 v.asInt
  | _, _ => 0

def fromFixed : Codec → Nat → SVal
  | float, n => .f32 n
  | double, n => .f64 n
  | fixed32, n | fixed64, n => .int (n : Nat)
  | sfixed32, n => .int (toS 4 n)
  | sfixed64, n => .int (toS 8 n)
  | _, _ => .int 0

/-- what follows the key: the varint, the little-endian word, or length + bytes. -/
def encPayload (c : Codec) (v : SVal) : Bytes :=
  match c.shape with
  | .varint => encodeVarint (c.toU64 v)
  | .fixed w => natToLE w (c.toFixed v)
  | .lenDelim => encodeVarint v.asBytes.length ++ v.asBytes

/-- `<module>::encode(tag, value, buf)`. -/
def encode (c : Codec) (tag : Nat) (v : SVal) : Bytes := keyBytes tag c.wt ++ c.encPayload v

/-- the part of `encoded_len` after `key_len(tag)`. -/
def payloadLen (c : Codec) (v : SVal) : Nat :=
  match c.shape with
  | .varint => encodedLenVarint (c.toU64 v)
  | .fixed w => w
  | .lenDelim => encodedLenVarint v.asBytes.length + v.asBytes.length

/-- `<module>::encoded_len(tag, value)`. -/
def encodedLen (c : Codec) (tag : Nat) (v : SVal) : Nat := keyLen tag + c.payloadLen v

/-- `bytes::merge` / `bytes::merge_one_copy` after the wire-type check: length, the
"buffer underflow" check, then the copy. -/
def mergeBytes (bs : Bytes) : Out (Bytes × Bytes) :=
  match decodeVarint bs with
  | .ok (len, r) =>
    if len > r.length then .err .invalid
    else copyToBytes len r
  | .err k => .err k | .panic s => .panic s | .fuel => .fuel

/-- `<module>::merge` after `check_wire_type`. -/
def mergePayload (c : Codec) (bs : Bytes) : Out (SVal × Bytes) :=
  match c.shape with
  | .varint =>
    match decodeVarint bs with
    | .ok (n, r) => .ok (c.fromU64 n, r)
    | .err k => .err k | .panic s => .panic s | .fuel => .fuel
  | .fixed w =>
    if bs.length < w then .err .invalid
    else match copyToBytes w bs with                     -- `buf.get_*_le()`
      | .ok (word, r) => .ok (c.fromFixed (leToNat word), r)
      | .err k => .err k | .panic s => .panic s | .fuel => .fuel
  | .lenDelim =>
    match mergeBytes bs with
    | .ok (b, r) =>
      if c = .string && !validUtf8 b then .err .invalid   -- `str::from_utf8`; `faststr` does not check
      else .ok (.bs b, r)
    | .err k => .err k | .panic s => .panic s | .fuel => .fuel

/-- `<module>::merge(wire_type, value, buf, ctx)`: the new value replaces the old one. -/
def merge (c : Codec) (wt : WireType) (bs : Bytes) : Out (SVal × Bytes) :=
  match checkWireType c.wt wt with
  | .ok _ => c.mergePayload bs
  | .err k => .err k | .panic s => .panic s | .fuel => .fuel

/-! ### repeated and packed -/

/-- `encode_repeated`. -/
def encodeRepeated (c : Codec) (tag : Nat) (vs : List SVal) : Bytes := vs.flatMap (c.encode tag)

def payloadLenSum (c : Codec) (vs : List SVal) : Nat := (vs.map c.payloadLen).sum

/-- `encode_packed` (numeric modules only). -/
def encodePacked (c : Codec) (tag : Nat) (vs : List SVal) : Bytes :=
  if vs.isEmpty then []
  else keyBytes tag .len ++ encodeVarint (c.payloadLenSum vs) ++ vs.flatMap c.encPayload

def encodedLenRepeated (c : Codec) (tag : Nat) (vs : List SVal) : Nat :=
  match c.shape with
  | .fixed w => (keyLen tag + w) * vs.length
  | _ => keyLen tag * vs.length + c.payloadLenSum vs

def encodedLenPacked (c : Codec) (tag : Nat) (vs : List SVal) : Nat :=
  if vs.isEmpty then 0
  else
    let len := match c.shape with
      | .fixed w => w * vs.length
      | _ => c.payloadLenSum vs
    keyLen tag + encodedLenVarint len + len

/-- the closure of the packed arm: `merge($wire_type, &mut value, buf, ctx)?; values.push(value)`. -/
def packedStep (c : Codec) (acc : List SVal) (bs : Bytes) : Out (List SVal × Bytes) :=
  match c.merge c.wt bs with
  | .ok (v, r) => .ok (acc ++ [v], r)
  | .err k => .err k | .panic s => .panic s | .fuel => .fuel

/-- `merge_repeated`: numeric modules accept a packed run (`LengthDelimited`) or one unpacked
element; length-delimited modules accept one element. -/
def mergeRepeated (c : Codec) (wt : WireType) (acc : List SVal) (bs : Bytes) : Out (List SVal × Bytes) :=
  if c.isNumeric && wt = .len then
    mergeLoop c.packedStep acc bs
  else
    match checkWireType c.wt wt with
    | .ok _ =>
      match c.merge wt bs with
      | .ok (v, r) => .ok (acc ++ [v], r)
      | .err k => .err k | .panic s => .panic s | .fuel => .fuel
    | .err k => .err k | .panic s => .panic s | .fuel => .fuel

/-- `while buf.has_remaining() { decode_key; merge_repeated }`: a message whose every field is one
repeated field of this module (the loop of `Message::merge`). -/
def mergeAll (c : Codec) : Nat → List SVal → Bytes → Out (List SVal)
  | 0, _, _ => .fuel
  | f + 1, acc, bs =>
    if bs.isEmpty then .ok acc
    else match decodeKey bs with
      | .ok ((_, wt), r) => match c.mergeRepeated wt acc r with
        | .ok (acc', r') => mergeAll c f acc' r'
        | .err k => .err k | .panic m => .panic m | .fuel => .fuel
      | .err k => .err k | .panic m => .panic m | .fuel => .fuel

end Codec
end Pilota.Proto
