import PilotaModel.Base.Bytes
import PilotaModel.Base.Varint
/-
  Protobuf wire layer of pilota's prost fork (pilota/src/prost/encoding.rs):
  `encode_varint`, `decode_varint` (fast / slice / slow paths), `encoded_len_varint`,
  keys, `DecodeContext`, `check_wire_type`, `merge_loop`, `skip_field`.

  Buffers are contiguous (`Bytes`, `&[u8]`): `buf.chunk()` is all that remains.
  Every prost error is `DecodeError` with a message; the model keeps two classes:
  `.err .depth` for "recursion limit reached", `.err .invalid` for everything else.
  Rust preconditions (`assert!`, `get_unchecked`, `advance`, `copy_to_bytes`, `get_u8`,
  `u32` underflow in `enter_recursion`, `remaining - len`) are explicit `.panic` branches.
-/
namespace Pilota.Proto
open Pilota

inductive WireType where
  | varint | i64 | len | sgroup | egroup | i32
  deriving DecidableEq, Repr, Inhabited

namespace WireType
/-- `WireType as u8`. -/
def code : WireType → Nat
  | varint => 0 | i64 => 1 | len => 2 | sgroup => 3 | egroup => 4 | i32 => 5
/-- `WireType::try_from(u64)`. -/
def ofCode : Nat → Option WireType
  | 0 => some varint | 1 => some i64 | 2 => some len | 3 => some sgroup | 4 => some egroup | 5 => some i32
  | _ => none
def all : List WireType := [varint, i64, len, sgroup, egroup, i32]
def name : WireType → String
  | varint => "varint" | i64 => "i64" | len => "len" | sgroup => "sgroup" | egroup => "egroup" | i32 => "i32"
def ofName (s : String) : Option WireType := all.find? (fun t => t.name == s)
end WireType

def minTag : Nat := 1
def maxTag : Nat := 2 ^ 29 - 1
def recursionLimit : Nat := 100

/-! ### varints -/

/-- `encode_varint(value: u64)`; the argument is a `u64` at every call site. -/
def encodeVarint (n : Nat) : Bytes := encVar n

/-- `encoded_len_varint`: `(((value | 1).leading_zeros() ^ 63) * 9 + 73) / 64`;
`lz ^ 63 = 63 - lz` is the index of the highest set bit. -/
def encodedLenVarint (n : Nat) : Nat := (Nat.log2 (n ||| 1) * 9 + 73) / 64

/-- the unrolled body of `decode_varint_slice`: byte `i` (0-based), value so far `acc`.
Returns the value and the number of bytes read.  Running off the slice is the
`get_unchecked` precondition. -/
def sliceGo : Nat → Nat → Bytes → Out (Nat × Nat)
  | _, _, [] => .panic "decode_varint_slice: get_unchecked out of bounds"
  | i, acc, b :: bs =>
    if i = 9 then
      -- `part2 += b << 7; if b < 0x02 { Ok } else { Err("invalid varint") }`
      if b.toNat < 2 then .ok (acc + b.toNat * 128 ^ 9, 10) else .err .invalid
    else if b.toNat < 128 then .ok (acc + b.toNat * 128 ^ i, i + 1)
    else sliceGo (i + 1) (acc + (b.toNat - 128) * 128 ^ i) bs

def lastLt128 (bs : Bytes) : Bool :=
  match bs.getLast? with
  | some b => decide (b.toNat < 128)
  | none => false

/-- the guard under which `decode_varint` may call `decode_varint_slice` (its two `assert!`s). -/
def slicePre (bs : Bytes) : Bool := !bs.isEmpty && (decide (bs.length > 10) || lastLt128 bs)

/-- `decode_varint_slice`. -/
def varintSlice (bs : Bytes) : Out (Nat × Nat) :=
  if bs.isEmpty then .panic "decode_varint_slice: assert !bytes.is_empty()"
  else if !(decide (bs.length > 10) || lastLt128 bs) then .panic "decode_varint_slice: assert len > 10 || last < 0x80"
  else sliceGo 0 0 bs

/-- loop of `decode_varint_slow`: `left` iterations remain (`min(10, remaining)` at the start). -/
def slowGo : Nat → Nat → Nat → Bytes → Out (Nat × Bytes)
  | _, _, 0, _ => .err .invalid
  | _, _, _+1, [] => .panic "decode_varint_slow: get_u8 on empty buffer"
  | i, acc, l+1, b :: bs =>
    if b.toNat < 128 then
      if i = 9 ∧ b.toNat ≥ 2 then .err .invalid else .ok (acc + b.toNat % 128 * 128 ^ i, bs)
    else slowGo (i + 1) (acc + b.toNat % 128 * 128 ^ i) l bs

/-- `decode_varint_slow`. -/
def varintSlow (bs : Bytes) : Out (Nat × Bytes) := slowGo 0 0 (min 10 bs.length) bs

/-- the slice path as `decode_varint` uses it: `decode_varint_slice(bytes)?` then `buf.advance(advance)`. -/
def varintViaSlice (bs : Bytes) : Out (Nat × Bytes) :=
  match varintSlice bs with
  | .ok (v, adv) => if adv ≤ bs.length then .ok (v, bs.drop adv) else .panic "Buf::advance past the end"
  | .err k => .err k | .panic s => .panic s | .fuel => .fuel

/-- `decode_varint`: one-byte fast path; slice path when more than 10 bytes remain or the
last byte terminates a varint; slow path otherwise. -/
def decodeVarint (bs : Bytes) : Out (Nat × Bytes) :=
  match bs with
  | [] => .err .invalid
  | b :: rest =>
    if b.toNat < 128 then .ok (b.toNat, rest)
    else if decide (bs.length > 10) || lastLt128 bs then varintViaSlice bs
    else varintSlow bs

/-- reference reading of a varint: gather at most ten bytes up to the first one without the
continuation bit; the value must fit 64 bits. -/
def decVarSpec (bs : Bytes) : Out (Nat × Bytes) :=
  match gatherVar 10 bs with
  | .ok (g, r) => if varValue g < 2 ^ 64 then .ok (varValue g, r) else .err .invalid
  | .err _ => .err .invalid
  | .panic s => .panic s
  | .fuel => .fuel

/-! ### keys -/

/-- `encode_key`: `(tag << 3) | wire_type` as a `u32`, then varint.  `debug_assert!` on the tag
range is a panic branch (the harness builds with debug assertions). -/
def encodeKey (tag : Nat) (wt : WireType) : Out Bytes :=
  if minTag ≤ tag ∧ tag ≤ maxTag then .ok (encodeVarint (tag * 8 + wt.code))
  else .panic "encode_key: debug_assert tag in MIN_TAG..=MAX_TAG"

/-- key bytes for a tag known to be in range (what `encode_key` writes). -/
def keyBytes (tag : Nat) (wt : WireType) : Bytes := encodeVarint (tag * 8 + wt.code)

/-- `key_len`: `encoded_len_varint(u64::from(tag << 3))` (`tag << 3` in `u32`). -/
def keyLen (tag : Nat) : Nat := encodedLenVarint (tag * 8 % 2 ^ 32)

/-- `decode_key`. -/
def decodeKey (bs : Bytes) : Out ((Nat × WireType) × Bytes) :=
  match decodeVarint bs with
  | .ok (key, r) =>
    if key > 2 ^ 32 - 1 then .err .invalid
    else match WireType.ofCode (key % 8) with
      | none => .err .invalid
      | some wt =>
        if key / 8 < minTag then .err .invalid else .ok ((key / 8, wt), r)
  | .err k => .err k | .panic s => .panic s | .fuel => .fuel

def checkWireType (expected actual : WireType) : Out Unit :=
  if expected = actual then .ok () else .err .invalid

/-! ### DecodeContext -/

/-- `ctx.limit_reached()`. -/
def limitReached (ctx : Nat) : Out Unit := if ctx = 0 then .err .depth else .ok ()

/-- `ctx.enter_recursion()`: `recurse_count - 1` on a `u32` (overflow-checked build). -/
def enterRecursion (ctx : Nat) : Out Nat :=
  match ctx with
  | 0 => .panic "enter_recursion: recurse_count - 1 underflows"
  | c + 1 => .ok c

/-! ### buffer primitives with preconditions -/

/-- `buf.advance(n)`. -/
def advance (n : Nat) (bs : Bytes) : Out Bytes :=
  if n ≤ bs.length then .ok (bs.drop n) else .panic "Buf::advance past the end"

/-- `buf.copy_to_bytes(n)` / `buf.take(n)` then `replace_with`: the `n` bytes and the rest. -/
def copyToBytes (n : Nat) (bs : Bytes) : Out (Bytes × Bytes) :=
  if n ≤ bs.length then .ok (bs.take n, bs.drop n) else .panic "Buf::copy_to_bytes: len > remaining"

/-! ### merge_loop -/

/-- the `while buf.remaining() > limit { merge(...)? }` loop followed by the
"delimited length exceeded" check.  `fuel` bounds the iterations (each consumes input). -/
def mergeLoopGo {σ : Type} (step : σ → Bytes → Out (σ × Bytes)) : Nat → σ → Bytes → Nat → Out (σ × Bytes)
  | 0, _, _, _ => .fuel
  | f + 1, s, bs, limit =>
    if bs.length > limit then
      match step s bs with
      | .ok (s', r) => mergeLoopGo step f s' r limit
      | .err k => .err k | .panic m => .panic m | .fuel => .fuel
    else if bs.length ≠ limit then .err .invalid
    else .ok (s, bs)

/-- `merge_loop`: length prefix, "buffer underflow" check *before* anything else happens,
then the loop over the delimited region (the callback sees the whole remaining buffer). -/
def mergeLoop {σ : Type} (step : σ → Bytes → Out (σ × Bytes)) (s : σ) (bs : Bytes) : Out (σ × Bytes) :=
  match decodeVarint bs with
  | .ok (len, r) =>
    if len > r.length then .err .invalid
    else mergeLoopGo step (r.length + 1) s r (r.length - len)
  | .err k => .err k | .panic m => .panic m | .fuel => .fuel

/-! ### skip_field -/

/-- the `loop { decode_key; EndGroup => break; _ => skip_field(.., ctx.enter_recursion()) }` of a
group, over the skipper for the entered context.  `fuel` bounds the iterations (each consumes input). -/
def groupLoop (skip : WireType → Nat → Bytes → Out Bytes) (tag : Nat) : Nat → Bytes → Out Bytes
  | 0, _ => .fuel
  | f + 1, bs =>
    match decodeKey bs with
    | .ok ((itag, iwt), r) =>
      if iwt = .egroup then
        if itag ≠ tag then .err .invalid else .ok r
      else match skip iwt itag r with
        | .ok r' => groupLoop skip tag f r'
        | .err k => .err k | .panic m => .panic m | .fuel => .fuel
    | .err k => .err k | .panic m => .panic m | .fuel => .fuel

/-- `skip_field(wire_type, tag, buf, ctx)`; structural on the recursion budget `ctx`
(`ctx.limit_reached()?` first; inside a group the budget is `ctx.enter_recursion()`, which
cannot underflow here because `ctx > 0`). -/
def skipField : Nat → WireType → Nat → Bytes → Out Bytes
  | 0, _, _, _ => .err .depth
  | c + 1, wt, tag, bs =>
    match wt with
    | .varint => match decodeVarint bs with
      | .ok (_, r) => advance 0 r
      | .err k => .err k | .panic m => .panic m | .fuel => .fuel
    | .i32 => if 4 > bs.length then .err .invalid else advance 4 bs
    | .i64 => if 8 > bs.length then .err .invalid else advance 8 bs
    | .len => match decodeVarint bs with
      | .ok (n, r) => if n > r.length then .err .invalid else advance n r
      | .err k => .err k | .panic m => .panic m | .fuel => .fuel
    | .sgroup => match groupLoop (skipField c) tag (bs.length + 1) bs with
      | .ok r => advance 0 r
      | .err k => .err k | .panic m => .panic m | .fuel => .fuel
    | .egroup => .err .invalid


end Pilota.Proto
