import PilotaModel.Proto.Scalar
/-
  Messages: what pilota-build EMITS for a protobuf message (codegen/protobuf/mod.rs:
  `encoded_len`, `encode_raw`, `merge_field`, the oneof enums' `encode / encoded_len / merge`)
  over the runtime functions `message::{encode, merge, merge_repeated}`,
  `hash_map::{encode, encoded_len, merge}` and `skip_field`.

  A schema is a list of messages; a message is a list of field declarations in declaration
  order (the order of the struct fields and of the emitted code).  Field types are the codec
  MODULE the emitted code calls (see `Proto/Spec.lean` for the lowering from declared proto
  types) or a reference to a message of the schema by index.

  What the generator does (and the model mirrors):
    * a singular field that is not `Option` is ALWAYS encoded (no default skipping);
    * `Option` fields are encoded when `Some`;
    * repeated scalars are encoded UNPACKED (`encode_repeated`), decoded by `merge_repeated`
      (packed or unpacked);
    * maps go through `hash_map::{encode, merge}` with key = 1 / value = 2 entries; the entry
      omits a key / value equal to its default unless feature `pb-encode-default-value` is on
      (`flag`); `hash_map::merge` does NOT check the wire type;
    * a oneof is an `Option<enum>`; `merge` keeps the current value when the same variant
      arrives again (message variants merge), otherwise starts from the variant's default;
    * unknown tags go to `skip_field` with the same context.
-/
namespace Pilota.Proto
open Pilota

inductive FTy where
  | scalar (c : Codec)
  | msg (i : Nat)
  deriving DecidableEq, Repr, Inhabited

inductive FieldDecl where
  | single (tag : Nat) (ty : FTy) (opt : Bool)      -- `T` (FieldKind::Required) or `Option<T>`
  | rep (tag : Nat) (ty : FTy)                      -- `Vec<T>`
  | map (tag : Nat) (k : Codec) (v : FTy)           -- `AHashMap<K, V>`
  | oneof (vs : List (Nat × FTy))                   -- `Option<enum { V(T), … }>`
  deriving Repr, Inhabited

abbrev Schema := List (List FieldDecl)

def decls (s : Schema) (i : Nat) : List FieldDecl := s.getD i []

/-- the tags the `match tag` arm of a field covers (`field_tags`). -/
def FieldDecl.tags : FieldDecl → List Nat
  | .single t _ _ => [t]
  | .rep t _ => [t]
  | .map t _ _ => [t]
  | .oneof vs => vs.map (·.1)

/-! ### values -/

mutual
/-- value of a field type: a scalar or a message (its fields' slots in declaration order). -/
inductive EVal where
  | s (v : SVal)
  | msg (fs : Slots)
  deriving DecidableEq
/-- value of a struct field. -/
inductive Slot where
  | req (v : EVal)                       -- `T`
  | none                                 -- `None` (optional field or oneof)
  | some (v : EVal)                      -- `Some(v)`
  | rep (xs : EVals)                     -- `Vec<T>`
  | map (kvs : Pairs)                    -- `AHashMap<K, V>` as an association list
  | one (tag : Nat) (v : EVal)           -- `Some(Enum::Variant(v))`, the variant named by its field number
  deriving DecidableEq
inductive Slots where
  | nil | cons (v : Slot) (r : Slots)
  deriving DecidableEq
inductive EVals where
  | nil | cons (v : EVal) (r : EVals)
  deriving DecidableEq
inductive Pairs where
  | nil | cons (k : SVal) (v : EVal) (r : Pairs)
  deriving DecidableEq
end

instance : Inhabited EVal := ⟨.s (.int 0)⟩
instance : Inhabited Slot := ⟨.none⟩

def EVals.append : EVals → EVals → EVals
  | .nil, ys => ys
  | .cons x xs, ys => .cons x (xs.append ys)
def EVals.ofList : List EVal → EVals
  | [] => .nil | x :: xs => .cons x (EVals.ofList xs)
def EVals.toList : EVals → List EVal
  | .nil => [] | .cons x xs => x :: xs.toList
def EVals.snoc (xs : EVals) (x : EVal) : EVals := xs.append (.cons x .nil)
def Slots.append : Slots → Slots → Slots
  | .nil, ys => ys
  | .cons x xs, ys => .cons x (xs.append ys)
def Slots.length : Slots → Nat
  | .nil => 0 | .cons _ r => r.length + 1
def Slots.ofList : List Slot → Slots
  | [] => .nil | x :: xs => .cons x (Slots.ofList xs)
def Slots.toList : Slots → List Slot
  | .nil => [] | .cons x xs => x :: xs.toList
def Pairs.ofList : List (SVal × EVal) → Pairs
  | [] => .nil | (k, v) :: r => .cons k v (Pairs.ofList r)
def Pairs.toList : Pairs → List (SVal × EVal)
  | .nil => [] | .cons k v r => (k, v) :: r.toList
def Pairs.keys : Pairs → List SVal
  | .nil => [] | .cons k _ r => k :: r.keys

/-- `map.insert(key, val)`: the value of an equal key is replaced, otherwise the entry is new. -/
def Pairs.insert (k : SVal) (v : EVal) : Pairs → Pairs
  | .nil => .cons k v .nil
  | .cons k' v' r => if k' = k then .cons k' v r else .cons k' v' (Pairs.insert k v r)

def EVal.fields : EVal → Slots
  | .msg fs => fs
  | .s _ => .nil

/-! ### defaults (`Default::default()` of the emitted struct) -/

def defaultSlotWith (dty : FTy → EVal) : FieldDecl → Slot
  | .single _ ty false => .req (dty ty)
  | .single _ _ true => .none
  | .rep _ _ => .rep .nil
  | .map _ _ _ => .map .nil
  | .oneof _ => .none

def defaultSlotsWith (dty : FTy → EVal) : List FieldDecl → Slots
  | [] => .nil
  | d :: ds => .cons (defaultSlotWith dty d) (defaultSlotsWith dty ds)

/-- default of a field type; `fuel` bounds the chain of non-optional message fields (a Rust
struct cannot contain itself without indirection, so the chain is shorter than the schema). -/
def defaultTy (s : Schema) : Nat → FTy → EVal
  | _, .scalar c => .s c.default
  | 0, .msg _ => .msg .nil
  | f + 1, .msg i => .msg (defaultSlotsWith (defaultTy s f) (decls s i))

def defaultE (s : Schema) (ty : FTy) : EVal := defaultTy s s.length ty
def defaultSlots (s : Schema) (ds : List FieldDecl) : Slots := defaultSlotsWith (defaultE s) ds
def defaultMsg (s : Schema) (i : Nat) : Slots := (defaultE s (.msg i)).fields

/-! ### `==` with the default (derived `PartialEq`), used by the map codec -/

mutual
def EVal.isDefault : EVal → Bool
  | .s v => v.isDefault
  | .msg fs => fs.allDefault
def Slot.isDefault : Slot → Bool
  | .req v => v.isDefault
  | .none => true
  | .some _ => false
  | .rep .nil => true
  | .rep (.cons _ _) => false
  | .map .nil => true
  | .map (.cons _ _ _) => false
  | .one _ _ => false
def Slots.allDefault : Slots → Bool
  | .nil => true
  | .cons v r => v.isDefault && r.allDefault
end

/-! ### encoded_len and encode_raw -/

def lookupVariant (vs : List (Nat × FTy)) (tag : Nat) : Option FTy :=
  match vs.find? (fun p => p.1 == tag) with
  | some p => some p.2
  | none => none

mutual
/-- `<module>::encoded_len(tag, v)` / `message::encoded_len(tag, v)`. -/
def lenE (s : Schema) (flag : Bool) (tag : Nat) : FTy → EVal → Nat
  | .scalar c, .s x => c.encodedLen tag x
  | .msg i, .msg fs =>
    let len := lenSlots s flag (decls s i) fs
    keyLen tag + encodedLenVarint len + len
  | _, _ => 0
/-- one summand of the emitted `encoded_len`. -/
def lenSlot (s : Schema) (flag : Bool) : FieldDecl → Slot → Nat
  | .single tag ty false, .req v => lenE s flag tag ty v
  | .single tag ty true, .some v => lenE s flag tag ty v
  | .rep tag ty, .rep xs => lenEs s flag tag ty xs
  | .map tag k vty, .map kvs => lenPairs s flag tag k vty kvs
  | .oneof vs, .one t v =>
    match lookupVariant vs t with
    | some ty => lenE s flag t ty v
    | none => 0
  | _, _ => 0
def lenSlots (s : Schema) (flag : Bool) : List FieldDecl → Slots → Nat
  | d :: ds, .cons v r => lenSlot s flag d v + lenSlots s flag ds r
  | _, _ => 0
/-- `encoded_len_repeated`. -/
def lenEs (s : Schema) (flag : Bool) (tag : Nat) (ty : FTy) : EVals → Nat
  | .nil => 0
  | .cons v r => lenE s flag tag ty v + lenEs s flag tag ty r
/-- `hash_map::encoded_len`. -/
def lenPairs (s : Schema) (flag : Bool) (tag : Nat) (kc : Codec) (vty : FTy) : Pairs → Nat
  | .nil => 0
  | .cons k v r =>
    let len := (if !flag && k.isDefault then 0 else kc.encodedLen 1 k) +
               (if !flag && v.isDefault then 0 else lenE s flag 2 vty v)
    keyLen tag + (encodedLenVarint len + len) + lenPairs s flag tag kc vty r
end

mutual
/-- `<module>::encode(tag, v, buf)` / `message::encode(tag, v, buf)`. -/
def encE (s : Schema) (flag : Bool) (tag : Nat) : FTy → EVal → Bytes
  | .scalar c, .s x => c.encode tag x
  | .msg i, .msg fs =>
    keyBytes tag .len ++ encodeVarint (lenSlots s flag (decls s i) fs) ++ encSlots s flag (decls s i) fs
  | _, _ => []
/-- one statement of the emitted `encode_raw`. -/
def encSlot (s : Schema) (flag : Bool) : FieldDecl → Slot → Bytes
  | .single tag ty false, .req v => encE s flag tag ty v
  | .single tag ty true, .some v => encE s flag tag ty v
  | .rep tag ty, .rep xs => encEs s flag tag ty xs
  | .map tag k vty, .map kvs => encPairs s flag tag k vty kvs
  | .oneof vs, .one t v =>
    match lookupVariant vs t with
    | some ty => encE s flag t ty v
    | none => []
  | _, _ => []
def encSlots (s : Schema) (flag : Bool) : List FieldDecl → Slots → Bytes
  | d :: ds, .cons v r => encSlot s flag d v ++ encSlots s flag ds r
  | _, _ => []
/-- `encode_repeated` / `for msg in &v { message::encode(..) }`. -/
def encEs (s : Schema) (flag : Bool) (tag : Nat) (ty : FTy) : EVals → Bytes
  | .nil => []
  | .cons v r => encE s flag tag ty v ++ encEs s flag tag ty r
/-- `hash_map::encode` (entries in the order the map iterates). -/
def encPairs (s : Schema) (flag : Bool) (tag : Nat) (kc : Codec) (vty : FTy) : Pairs → Bytes
  | .nil => []
  | .cons k v r =>
    let skipK := !flag && k.isDefault
    let skipV := !flag && v.isDefault
    let len := (if skipK then 0 else kc.encodedLen 1 k) + (if skipV then 0 else lenE s flag 2 vty v)
    keyBytes tag .len ++ encodeVarint len ++ (if skipK then [] else kc.encode 1 k) ++
      (if skipV then [] else encE s flag 2 vty v) ++ encPairs s flag tag kc vty r
end

/-- the length prefix of a map entry. -/
def entryLen (s : Schema) (flag : Bool) (kc : Codec) (vty : FTy) (k : SVal) (v : EVal) : Nat :=
  (if !flag && k.isDefault then 0 else kc.encodedLen 1 k) + (if !flag && v.isDefault then 0 else lenE s flag 2 vty v)

/-- `Message::encode_to_vec` of message `i`. -/
def encode (s : Schema) (flag : Bool) (i : Nat) (m : Slots) : Bytes := encSlots s flag (decls s i) m
/-- `Message::encoded_len`. -/
def encodedLen (s : Schema) (flag : Bool) (i : Nat) (m : Slots) : Nat := lenSlots s flag (decls s i) m

/-! ### merge_field -/

/-- `merge_field` of the context one level down (`none`: the budget is exhausted). -/
abbrev Recur := Option (List FieldDecl → Slots → Nat → WireType → Bytes → Out (Slots × Bytes))

/-- the closure handed to `merge_loop` by `message::merge` and the map codec:
`decode_key` then `merge_field`. -/
def fieldStep (rec : List FieldDecl → Slots → Nat → WireType → Bytes → Out (Slots × Bytes)) (ds : List FieldDecl)
    (m : Slots) (bs : Bytes) : Out (Slots × Bytes) :=
  match decodeKey bs with
  | .ok ((tag, wt), r) => rec ds m tag wt r
  | .err k => .err k | .panic e => .panic e | .fuel => .fuel

/-- `<module>::merge(wire_type, cur, buf, ctx)` / `message::merge(wire_type, cur, buf, ctx)`:
`check_wire_type`, `ctx.limit_reached()`, `merge_loop(.., ctx.enter_recursion(), ..)`. -/
def mergeE (s : Schema) (recur : Recur) (ty : FTy) (cur : EVal) (wt : WireType) (bs : Bytes) : Out (EVal × Bytes) :=
  match ty with
  | .scalar c =>
    match c.merge wt bs with
    | .ok (x, r) => .ok (.s x, r)
    | .err k => .err k | .panic e => .panic e | .fuel => .fuel
  | .msg i =>
    match checkWireType .len wt with
    | .ok _ =>
      match recur with
      | none => .err .depth
      | some rec =>
        match mergeLoop (fieldStep rec (decls s i)) cur.fields bs with
        | .ok (fs, r) => .ok (.msg fs, r)
        | .err k => .err k | .panic e => .panic e | .fuel => .fuel
    | .err k => .err k | .panic e => .panic e | .fuel => .fuel

def svalsToE : List SVal → EVals
  | [] => .nil
  | x :: xs => .cons (.s x) (svalsToE xs)

def entryDecls (kc : Codec) (vty : FTy) : List FieldDecl := [.single 1 (.scalar kc) false, .single 2 vty false]

/-- `opt.get_or_insert_with(Default::default)`. -/
def optCur (s : Schema) (ty : FTy) : Slot → EVal
  | .some v => v
  | _ => defaultE s ty

/-- the value the oneof `merge` continues from: the current one when the same variant is set,
otherwise the variant type's default. -/
def oneCur (s : Schema) (ty : FTy) (tag : Nat) : Slot → EVal
  | .one t v => if t = tag then v else defaultE s ty
  | _ => defaultE s ty

def entry0 (s : Schema) (kc : Codec) (vty : FTy) : Slots :=
  .cons (.req (.s kc.default)) (.cons (.req (defaultE s vty)) .nil)

/-- the (key, value) pair the entry loop leaves behind. -/
def entryResult : Slots → Option (SVal × EVal)
  | .cons (.req (.s k)) (.cons (.req v) .nil) => some (k, v)
  | _ => none

/-- the `match tag` arm of one field. -/
def mergeSlot (s : Schema) (recur : Recur) (d : FieldDecl) (cur : Slot) (tag : Nat) (wt : WireType) (bs : Bytes) :
    Out (Slot × Bytes) :=
  match d with
  | .single _ ty false =>
    match cur with
    | .req v =>
      match mergeE s recur ty v wt bs with
      | .ok (v', r) => .ok (.req v', r)
      | .err k => .err k | .panic e => .panic e | .fuel => .fuel
    | _ => .err .other                                   -- not a value of this struct (model only)
  | .single _ ty true =>
    match mergeE s recur ty (optCur s ty cur) wt bs with
    | .ok (v', r) => .ok (.some v', r)
    | .err k => .err k | .panic e => .panic e | .fuel => .fuel
  | .rep _ ty =>
    match cur with
    | .rep xs =>
      match ty with
      | .scalar c =>
        match c.mergeRepeated wt [] bs with
        | .ok (new, r) => .ok (.rep (xs.append (svalsToE new)), r)
        | .err k => .err k | .panic e => .panic e | .fuel => .fuel
      | .msg _ =>
        -- `message::merge_repeated`: check, default, merge, push
        match checkWireType .len wt with
        | .ok _ =>
          match mergeE s recur ty (defaultE s ty) .len bs with
          | .ok (v, r) => .ok (.rep (xs.snoc v), r)
          | .err k => .err k | .panic e => .panic e | .fuel => .fuel
        | .err k => .err k | .panic e => .panic e | .fuel => .fuel
    | _ => .err .other
  | .map _ kc vty =>
    match cur with
    | .map kvs =>
      -- `hash_map::merge`: no wire-type check; limit_reached; merge_loop over (key, val); insert
      match recur with
      | none => .err .depth
      | some rec =>
        match mergeLoop (fieldStep rec (entryDecls kc vty)) (entry0 s kc vty) bs with
        | .ok (e, r) =>
          match entryResult e with
          | some (k, v) => .ok (.map (kvs.insert k v), r)     -- `values.insert(key, val)`
          | none => .err .other                               -- (model only)
        | .err k => .err k | .panic e => .panic e | .fuel => .fuel
    | _ => .err .other
  | .oneof vs =>
    -- `<Enum>::merge(field, tag, wire_type, buf, ctx)`
    match lookupVariant vs tag with
    | none => .panic "unreachable!(invalid oneof tag)"
    | some ty =>
      match mergeE s recur ty (oneCur s ty tag cur) wt bs with
      | .ok (v', r) => .ok (.one tag v', r)
      | .err k => .err k | .panic e => .panic e | .fuel => .fuel

/-- the emitted `match tag { … , _ => skip_field(wire_type, tag, buf, ctx) }`: first arm whose
tags contain `tag`. `none`: no arm matched. -/
def mergeSlots (s : Schema) (recur : Recur) (tag : Nat) (wt : WireType) (bs : Bytes) :
    List FieldDecl → Slots → Option (Out (Slots × Bytes))
  | [], _ => none
  | d :: ds, .cons v r =>
    if d.tags.contains tag then
      some (match mergeSlot s recur d v tag wt bs with
        | .ok (v', bs') => .ok (.cons v' r, bs')
        | .err k => .err k | .panic e => .panic e | .fuel => .fuel)
    else
      match mergeSlots s recur tag wt bs ds r with
      | some (.ok (r', bs')) => some (.ok (.cons v r', bs'))
      | some (.err k) => some (.err k)
      | some (.panic e) => some (.panic e)
      | some .fuel => some .fuel
      | none => none
  | _ :: _, .nil => some (.err .other)                   -- not a value of this struct (model only)

def mergeFieldWith (s : Schema) (recur : Recur) (ctx : Nat) (ds : List FieldDecl) (m : Slots) (tag : Nat)
    (wt : WireType) (bs : Bytes) : Out (Slots × Bytes) :=
  match mergeSlots s recur tag wt bs ds m with
  | some o => o
  | none =>
    match skipField ctx wt tag bs with
    | .ok r => .ok (m, r)
    | .err k => .err k | .panic e => .panic e | .fuel => .fuel

/-- the emitted `merge_field(&mut self, tag, wire_type, buf, ctx)` for a struct with fields `ds`,
with `ctx.recurse_count = ctx`.  Structural on the budget. -/
def mergeField (s : Schema) : Nat → List FieldDecl → Slots → Nat → WireType → Bytes → Out (Slots × Bytes)
  | 0 => mergeFieldWith s none 0
  | c + 1 => mergeFieldWith s (some (mergeField s c)) (c + 1)

def recurOf (s : Schema) : Nat → Recur
  | 0 => none
  | c + 1 => some (mergeField s c)

/-- `Message::merge(&mut self, buf)`: `while buf.has_remaining() { decode_key; merge_field(.., ctx) }`
with `ctx = DecodeContext::default()`. -/
def decodeIntoCtx (s : Schema) (ctx : Nat) (i : Nat) (m : Slots) (bs : Bytes) : Out Slots :=
  match mergeLoopGo (fieldStep (mergeField s ctx) (decls s i)) (bs.length + 1) m bs 0 with
  | .ok (m', _) => .ok m'
  | .err k => .err k | .panic e => .panic e | .fuel => .fuel

def decodeInto (s : Schema) (i : Nat) (m : Slots) (bs : Bytes) : Out Slots := decodeIntoCtx s recursionLimit i m bs

/-- `Message::decode(buf)`. -/
def decode (s : Schema) (i : Nat) (bs : Bytes) : Out Slots := decodeInto s i (defaultMsg s i) bs

/-- `Message::decode_length_delimited(buf)`: `message::merge(LengthDelimited, default, buf, ctx)`. -/
def decodeLengthDelimited (s : Schema) (i : Nat) (bs : Bytes) : Out (Slots × Bytes) :=
  match mergeE s (recurOf s recursionLimit) (.msg i) (.msg (defaultMsg s i)) .len bs with
  | .ok (v, r) => .ok (v.fields, r)
  | .err k => .err k | .panic e => .panic e | .fuel => .fuel

end Pilota.Proto
