import PilotaModel.Proto.Schema
/-
  `prost::encoding::group::{encode, merge, encoded_len}`: the runtime's group codec over any
  message (pilota-build does not emit group fields — `TYPE_GROUP` is `todo!()` — but the functions
  are public runtime API).
-/
namespace Pilota.Proto
open Pilota

/-- `group::encode(tag, msg, buf)`: start-group key, the message body, end-group key. -/
def groupEncode (s : Schema) (flag : Bool) (tag i : Nat) (m : Slots) : Bytes :=
  keyBytes tag .sgroup ++ (encSlots s flag (decls s i) m ++ keyBytes tag .egroup)

/-- `group::encoded_len(tag, msg)`. -/
def groupEncodedLen (s : Schema) (flag : Bool) (tag i : Nat) (m : Slots) : Nat :=
  2 * keyLen tag + lenSlots s flag (decls s i) m

/-- the `loop { decode_key; EndGroup => return; _ => merge_field(.., ctx.enter_recursion()) }` of `group::merge`. -/
def groupMergeLoop (rec : List FieldDecl → Slots → Nat → WireType → Bytes → Out (Slots × Bytes)) (ds : List FieldDecl) (tag : Nat) :
    Nat → Slots → Bytes → Out (Slots × Bytes)
  | 0, _, _ => .fuel
  | f + 1, m, bs =>
    match decodeKey bs with
    | .ok ((ftag, fwt), r) =>
      if fwt = .egroup then
        if ftag ≠ tag then .err .invalid else .ok (m, r)
      else match rec ds m ftag fwt r with
        | .ok (m', r') => groupMergeLoop rec ds tag f m' r'
        | .err k => .err k | .panic e => .panic e | .fuel => .fuel
    | .err k => .err k | .panic e => .panic e | .fuel => .fuel

/-- `group::merge(tag, wire_type, msg, buf, ctx)` (the start-group key has been read by the caller). -/
def groupMerge (s : Schema) (ctx : Nat) (tag : Nat) (wt : WireType) (i : Nat) (m : Slots) (bs : Bytes) : Out (Slots × Bytes) :=
  match checkWireType .sgroup wt with
  | .ok _ =>
    match ctx with
    | 0 => .err .depth                                                   -- ctx.limit_reached()
    | c + 1 => groupMergeLoop (mergeField s c) (decls s i) tag (bs.length + 1) m bs
  | .err k => .err k | .panic e => .panic e | .fuel => .fuel

end Pilota.Proto
