import PilotaModel.Proto.Scalar
/-
  The vocabulary of pilota-build's protobuf type lowering, for the T2 tables:
    proto field type  --lower_ty (parser/protobuf/mod.rs)-->      IR kind + ProstType tag
    IR kind           --lower_type (resolve.rs)-->                middle kind
    middle kind + tag --ty_module (codegen/protobuf/mod.rs)-->    codec module (first matching arm)
  `Gen/Tables.lean` (regenerated from the source on every run) holds the three tables in these terms.
-/
namespace Pilota.Proto
open Pilota

/-- the 15 scalar field types of the protobuf language. -/
inductive PType where
  | double | float | int32 | int64 | uint32 | uint64 | sint32 | sint64
  | fixed32 | fixed64 | sfixed32 | sfixed64 | bool | string | bytes
  deriving DecidableEq, Repr, Inhabited

def PType.all : List PType := [.double, .float, .int32, .int64, .uint32, .uint64, .sint32, .sint64,
  .fixed32, .fixed64, .sfixed32, .sfixed64, .bool, .string, .bytes]

def PType.name : PType → String
  | .double => "double" | .float => "float" | .int32 => "int32" | .int64 => "int64" | .uint32 => "uint32"
  | .uint64 => "uint64" | .sint32 => "sint32" | .sint64 => "sint64" | .fixed32 => "fixed32" | .fixed64 => "fixed64"
  | .sfixed32 => "sfixed32" | .sfixed64 => "sfixed64" | .bool => "bool" | .string => "string" | .bytes => "bytes"

def PType.ofName (s : String) : Option PType := PType.all.find? (fun t => t.name == s)

/-- `ir::TyKind` as far as `lower_ty` produces it. -/
inductive IrKind where
  | f64 | f32 | i64 | u64 | i32 | u32 | bool | string | bytes
  deriving DecidableEq, Repr

/-- `ProstType` tags. -/
inductive PTag where
  | fixed32 | fixed64 | sfixed32 | sfixed64 | sint32 | sint64
  deriving DecidableEq, Repr

/-- `ty::TyKind` as far as `ty_module` matches on it; `pathEnum` = `Path` with the
`is_plain_enum` guard, `pathAny` = `Path(_)`. -/
inductive MidKind where
  | faststr | string | bool | bytes | bytesvec | i32 | i64 | u32 | u64 | f32 | f64 | pathEnum | pathAny
  deriving DecidableEq, Repr

/-- the module name `ty_module` returns. -/
inductive ModName where
  | codec (c : Codec)
  | message
  deriving DecidableEq, Repr

def assocFind {α β} [DecidableEq α] (a : α) : List (α × β) → Option β
  | [] => none
  | (k, v) :: r => if k = a then some v else assocFind a r

/-- first arm of `ty_module` that matches: the kind (a `Path(_)` arm matches an enum path too) and
the guard (`prost_type == Some(tag)`), in source order. -/
def firstArm (k : MidKind) (tag : Option PTag) : List (MidKind × Option PTag × ModName) → Option ModName
  | [] => none
  | (k', g, m) :: r =>
    if (k' = k ∨ (k' = .pathAny ∧ k = .pathEnum)) ∧ (g = none ∨ g = tag) then some m else firstArm k tag r

/-- the whole pipeline on one scalar field type, over the three extracted tables. -/
def moduleOfTables (lower : List (PType × IrKind × Option PTag)) (resolve : List (IrKind × MidKind))
    (arms : List (MidKind × Option PTag × ModName)) (t : PType) : Option ModName :=
  match assocFind t lower with
  | some (ik, tag) =>
    match assocFind ik resolve with
    | some mk => firstArm mk tag arms
    | none => none
  | none => none

/-- the model's lowering (what `Proto/Spec.lean: lowerTy` uses): the module the emitted code calls
for a field of each declared type.  Tied to the source by `Props/PbTables.lean`. -/
def PType.codec : PType → Codec
  | .double => .double | .float => .float | .int32 => .int32 | .int64 => .int64 | .uint32 => .uint32
  | .uint64 => .uint64 | .sint32 => .sint32 | .sint64 => .sint64 | .fixed32 => .fixed32 | .fixed64 => .fixed64
  | .sfixed32 => .sfixed32 | .sfixed64 => .sfixed64 | .bool => .bool | .string => .faststr | .bytes => .bytes

end Pilota.Proto
