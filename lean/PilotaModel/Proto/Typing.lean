import PilotaModel.Proto.Schema
/-
  Which values a generated struct can hold (`HasType`), how much recursion budget decoding its
  own encoding needs (`need*`), and which schemas pilota-build can be given (`WFSchema`).
  All decidable.
-/
namespace Pilota.Proto
open Pilota

def tagOk (t : Nat) : Bool := decide (minTag ≤ t ∧ t ≤ maxTag)

def FTy.wfIn (n : Nat) : FTy → Bool
  | .scalar _ => true
  | .msg i => decide (i < n)

/-- codecs a map key can have (integral, bool, string). -/
def Codec.isKey : Codec → Bool
  | .float | .double | .bytes => false
  | _ => true

def FieldDecl.wfIn (n : Nat) : FieldDecl → Bool
  | .single t ty _ => tagOk t && ty.wfIn n
  | .rep t ty => tagOk t && ty.wfIn n
  | .map t k v => tagOk t && k.isKey && v.wfIn n
  | .oneof vs => vs.all (fun p => tagOk p.1 && p.2.wfIn n)

def allTags (ds : List FieldDecl) : List Nat := ds.flatMap FieldDecl.tags

def nodup : List Nat → Bool
  | [] => true
  | x :: xs => !xs.contains x && nodup xs

/-! ### exact (bit-for-bit) default, and the budget a value needs -/

def SVal.exactDefault : SVal → Bool
  | .int n => n == 0
  | .bool b => !b
  | .f32 b => b == 0
  | .f64 b => b == 0
  | .bs b => b.isEmpty

mutual
def EVal.exactDefault : EVal → Bool
  | .s v => v.exactDefault
  | .msg fs => fs.exactDefault
def Slot.exactDefault : Slot → Bool
  | .req v => v.exactDefault
  | .none => true
  | .some _ => false
  | .rep .nil => true
  | .rep (.cons _ _) => false
  | .map .nil => true
  | .map (.cons _ _ _) => false
  | .one _ _ => false
def Slots.exactDefault : Slots → Bool
  | .nil => true
  | .cons v r => v.exactDefault && r.exactDefault
end

mutual
/-- recursion budget `message::merge` / the field arm needs for this value. -/
def needE : EVal → Nat
  | .s _ => 0
  | .msg fs => needSlots fs + 1
def needSlot : Slot → Nat
  | .req v => needE v
  | .none => 0
  | .some v => needE v
  | .rep xs => needEs xs
  | .map kvs => needPairs kvs
  | .one _ v => needE v
def needSlots : Slots → Nat
  | .nil => 0
  | .cons v r => max (needSlot v) (needSlots r)
def needEs : EVals → Nat
  | .nil => 0
  | .cons v r => max (needE v) (needEs r)
def needPairs : Pairs → Nat
  | .nil => 0
  | .cons _ v r => max (needE v + 1) (needPairs r)
end

/-! ### shape: the value is a value of the struct (no range conditions) -/

mutual
def shapeE (s : Schema) : FTy → EVal → Bool
  | .scalar _, .s _ => true
  | .msg i, .msg fs => shapeSlots s (decls s i) fs
  | _, _ => false
def shapeSlot (s : Schema) : FieldDecl → Slot → Bool
  | .single _ ty false, .req v => shapeE s ty v
  | .single _ _ true, .none => true
  | .single _ ty true, .some v => shapeE s ty v
  | .rep _ ty, .rep xs => shapeEs s ty xs
  | .map _ _ vty, .map kvs => shapePairs s vty kvs
  | .oneof _, .none => true
  | .oneof vs, .one t v =>
    match lookupVariant vs t with
    | some ty => shapeE s ty v
    | none => false
  | _, _ => false
def shapeSlots (s : Schema) : List FieldDecl → Slots → Bool
  | [], .nil => true
  | d :: ds, .cons v r => shapeSlot s d v && shapeSlots s ds r
  | _, _ => false
def shapeEs (s : Schema) (ty : FTy) : EVals → Bool
  | .nil => true
  | .cons v r => shapeE s ty v && shapeEs s ty r
def shapePairs (s : Schema) (vty : FTy) : Pairs → Bool
  | .nil => true
  | .cons _ v r => shapeE s vty v && shapePairs s vty r
end

-- the canonical default of a type, structurally (what `Default::default()` builds).
mutual
def isDefE (s : Schema) : FTy → EVal → Bool
  | .scalar c, .s x => decide (x = c.default)
  | .msg i, .msg fs => isDefSlots s (decls s i) fs
  | _, _ => false
def isDefSlot (s : Schema) : FieldDecl → Slot → Bool
  | .single _ ty false, .req v => isDefE s ty v
  | .single _ _ true, .none => true
  | .rep _ _, .rep .nil => true
  | .map _ _ _, .map .nil => true
  | .oneof _, .none => true
  | _, _ => false
def isDefSlots (s : Schema) : List FieldDecl → Slots → Bool
  | [], .nil => true
  | d :: ds, .cons v r => isDefSlot s d v && isDefSlots s ds r
  | _, _ => false
end

/-- a schema pilota-build can be given: field numbers in range and distinct per message,
message references resolve, map keys are key types, and the struct defaults exist (no
struct contains itself through non-optional fields). -/
def WFSchema (s : Schema) : Bool :=
  s.all (fun ds => ds.all (FieldDecl.wfIn s.length) && nodup (allTags ds)) &&
  ((List.range s.length).all (fun i => shapeSlots s (decls s i) (defaultMsg s i)) &&
   (List.range s.length).all (fun i => isDefSlots s (decls s i) (defaultMsg s i)))

/-! ### HasType -/

def SVal.lenOk (v : SVal) : Bool := decide (v.asBytes.length < 2 ^ 64)

def nodupKeys : List SVal → Bool
  | [] => true
  | x :: xs => !xs.contains x && nodupKeys xs

mutual
/-- the value is one the Rust type holds; every nested encoded length is a `usize`; with the
feature off, map values that are `==` their default ARE the default, bit for bit (PB2). -/
def okE (s : Schema) (flag : Bool) : FTy → EVal → Bool
  | .scalar c, .s x => c.ok x && x.lenOk
  | .msg i, .msg fs => okSlots s flag (decls s i) fs && decide (lenSlots s flag (decls s i) fs < 2 ^ 64)
  | _, _ => false
def okSlot (s : Schema) (flag : Bool) : FieldDecl → Slot → Bool
  | .single _ ty false, .req v => okE s flag ty v
  | .single _ _ true, .none => true
  | .single _ ty true, .some v => okE s flag ty v
  | .rep _ ty, .rep xs => okEs s flag ty xs
  | .map _ kc vty, .map kvs => okPairs s flag kc vty kvs && nodupKeys kvs.keys
  | .oneof _, .none => true
  | .oneof vs, .one t v =>
    match lookupVariant vs t with
    | some ty => okE s flag ty v
    | none => false
  | _, _ => false
def okSlots (s : Schema) (flag : Bool) : List FieldDecl → Slots → Bool
  | [], .nil => true
  | d :: ds, .cons v r => okSlot s flag d v && okSlots s flag ds r
  | _, _ => false
def okEs (s : Schema) (flag : Bool) (ty : FTy) : EVals → Bool
  | .nil => true
  | .cons v r => okE s flag ty v && okEs s flag ty r
def okPairs (s : Schema) (flag : Bool) (kc : Codec) (vty : FTy) : Pairs → Bool
  | .nil => true
  | .cons k v r =>
    kc.ok k && k.lenOk && okE s flag vty v && (flag || !v.isDefault || decide (v = defaultE s vty)) &&
    decide (entryLen s flag kc vty k v < 2 ^ 64) &&
    okPairs s flag kc vty r
end

/-- `m` is a value of message `i`: well-typed, and decodable within the recursion limit. -/
def HasType (s : Schema) (flag : Bool) (i : Nat) (m : Slots) : Prop :=
  okSlots s flag (decls s i) m = true ∧ needSlots m ≤ recursionLimit

instance (s flag i m) : Decidable (HasType s flag i m) := by unfold HasType; exact inferInstance

end Pilota.Proto
