import PilotaModel.Proto.Typing
import PilotaModel.Proto.Lowering
/-
  C06 — an independent, schema-directed reference for the protobuf wire format, written from the
  encoding guide (protobuf.dev/programming-guides/encoding), not from pilota:

    * a message is a sequence of records `key payload`, key = varint of `(field_number << 3) | wire_type`;
    * wire types: 0 VARINT (int32 int64 uint32 uint64 sint32 sint64 bool enum), 1 I64 (fixed64 sfixed64 double),
      2 LEN (string bytes embedded messages packed repeated fields), 5 I32 (fixed32 sfixed32 float);
    * varints are little-endian base-128 groups, continuation bit on every byte but the last;
    * int32 / int64 / enum: two's complement, NEGATIVE VALUES SIGN-EXTENDED TO 64 BITS (ten bytes);
    * sint32 / sint64: ZigZag, `(n << 1) ^ (n >> 31)` resp. `>> 63`; bool: 0 / 1;
    * fixed-width values little-endian; float / double IEEE-754 bits;
    * string: UTF-8 bytes after a varint length; bytes likewise; embedded message likewise;
    * repeated scalar numeric fields: one record per element, or packed runs (LEN record holding the
      concatenated payloads), mixed and split arbitrarily; parsers must accept both;
    * map<K,V> field = repeated embedded message { K key = 1; V value = 2; };
    * fields may appear in any order; a field equal to its default may be omitted (implicit presence);
    * every length prefix is a 64-bit quantity (`< 2 ^ 64`).

  `Spec.Enc ps i m bs`: `bs` is a conforming encoding of value `m` of message `i` of the declared
  schema `ps`.  `lowerSchema` is pilota-build's lowering of the declared schema to codec modules.
-/
namespace Pilota.Proto.Spec
open Pilota Pilota.Proto

inductive PFTy where
  | scalar (t : PType)
  | enum
  | msg (i : Nat)
  deriving DecidableEq, Repr, Inhabited

inductive PDecl where
  | single (tag : Nat) (ty : PFTy) (opt : Bool)   -- `opt`: explicit presence (`optional`, proto3 message field)
  | rep (tag : Nat) (ty : PFTy)
  | map (tag : Nat) (k : PType) (v : PFTy)
  | oneof (vs : List (Nat × PFTy))
  deriving Repr, Inhabited

abbrev PSchema := List (List PDecl)

def pdecls (ps : PSchema) (i : Nat) : List PDecl := ps.getD i []

def PDecl.tags : PDecl → List Nat
  | .single t _ _ => [t]
  | .rep t _ => [t]
  | .map t _ _ => [t]
  | .oneof vs => vs.map (·.1)

/-! ### pilota-build's lowering of declared types (tied to the source by T2, `Props/PbTables`) -/

def lowerTy : PFTy → FTy
  | .scalar t => .scalar t.codec
  | .enum => .scalar .int32
  | .msg i => .msg i

def lowerDecl : PDecl → FieldDecl
  | .single t ty opt => .single t (lowerTy ty) opt
  | .rep t ty => .rep t (lowerTy ty)
  | .map t k v => .map t k.codec (lowerTy v)
  | .oneof vs => .oneof (vs.map fun p => (p.1, lowerTy p.2))

def lowerSchema (ps : PSchema) : Schema := ps.map (fun ds => ds.map lowerDecl)

/-! ### scalars, from the encoding guide -/

/-- base-128 varint. -/
def base128 (n : Nat) : Bytes :=
  if h : n < 128 then [UInt8.ofNat n]
  else UInt8.ofNat (n % 128 + 128) :: base128 (n / 128)
termination_by n
decreasing_by omega

/-- two's complement on 64 bits. -/
def twos64 (i : Int) : Nat := (i % (2 ^ 64 : Int)).toNat

/-- ZigZag. -/
def zz (i : Int) : Nat := if 0 ≤ i then (2 * i).toNat else (-2 * i - 1).toNat

def littleEndian : Nat → Nat → Bytes
  | 0, _ => []
  | w + 1, n => UInt8.ofNat (n % 256) :: littleEndian w (n / 256)

def wireOf : PType → WireType
  | .int32 | .int64 | .uint32 | .uint64 | .sint32 | .sint64 | .bool => .varint
  | .fixed64 | .sfixed64 | .double => .i64
  | .string | .bytes => .len
  | .fixed32 | .sfixed32 | .float => .i32

/-- the payload of a scalar field of the declared type. -/
def encScalar : PType → SVal → Bytes
  | .int32, v | .int64, v => base128 (twos64 v.asInt)
  | .uint32, v | .uint64, v => base128 v.asInt.toNat
  | .sint32, v | .sint64, v => base128 (zz v.asInt)
  | .bool, v => base128 (if v.asBool then 1 else 0)
  | .fixed32, v => littleEndian 4 v.asInt.toNat
  | .sfixed32, v => littleEndian 4 (v.asInt % (2 ^ 32 : Int)).toNat
  | .fixed64, v => littleEndian 8 v.asInt.toNat
  | .sfixed64, v => littleEndian 8 (v.asInt % (2 ^ 64 : Int)).toNat
  | .float, v => littleEndian 4 v.asBits
  | .double, v => littleEndian 8 v.asBits
  | .string, v | .bytes, v => base128 v.asBytes.length ++ v.asBytes

/-- numeric types may be packed. -/
def packable : PFTy → Bool
  | .scalar .string | .scalar .bytes | .msg _ => false
  | _ => true

def wireOfTy : PFTy → WireType
  | .scalar t => wireOf t
  | .enum => .varint
  | .msg _ => .len

def scalarTy : PFTy → PType
  | .scalar t => t
  | _ => .int32          -- enum

/-! ### records -/

structure Rec where
  tag : Nat
  wt : WireType
  payload : Bytes
  deriving Repr

def Rec.bytes (r : Rec) : Bytes := base128 (r.tag * 8 + r.wt.code) ++ r.payload

def flat (rs : List Rec) : Bytes := rs.flatMap Rec.bytes

/-- a length-delimited payload. -/
def lenDelim (body : Bytes) : Bytes := base128 body.length ++ body

def svalsOf : EVals → Option (List SVal)
  | .nil => some []
  | .cons (.s x) r => (svalsOf r).map (x :: ·)
  | .cons (.msg _) _ => none

/-- the records of a packable repeated field: each record is one element, or a packed run of any
number of the next elements (runs may be split anywhere). -/
def EncPacked (t : Nat) (ty : PFTy) : List Rec → List SVal → Prop
  | [], vs => vs = []
  | r :: rs, vs =>
    r.tag = t ∧
    ((r.wt = wireOfTy ty ∧ ∃ v vs', vs = v :: vs' ∧ r.payload = encScalar (scalarTy ty) v ∧ EncPacked t ty rs vs') ∨
     (r.wt = .len ∧ ∃ chunk rest, vs = chunk ++ rest ∧ chunk ≠ [] ∧
        r.payload = lenDelim (chunk.flatMap (encScalar (scalarTy ty))) ∧
        (chunk.flatMap (encScalar (scalarTy ty))).length < 2 ^ 64 ∧ EncPacked t ty rs rest))

/-- the zero value of a declared type, bit for bit: what an omitted field means to a parser (a
scalar zero / empty string; for an embedded message, the message with every field at its zero). -/
def zeroOf : PFTy → EVal → Prop
  | .msg _, .msg fs => fs.exactDefault = true
  | .msg _, .s _ => False
  | _, .s x => x.exactDefault = true
  | _, .msg _ => False

def lookupP (vs : List (Nat × PFTy)) (t : Nat) : Option PFTy :=
  match vs.find? (fun p => p.1 == t) with
  | some p => some p.2
  | none => none

mutual
/-- one record holding one value of the declared type. -/
def EncE (ps : PSchema) : PFTy → EVal → Rec → Prop
  | .scalar t, .s x, r => r.wt = wireOf t ∧ r.payload = encScalar t x
  | .enum, .s x, r => r.wt = .varint ∧ r.payload = encScalar .int32 x
  | .msg i, .msg fs, r =>
    r.wt = .len ∧ ∃ rs, r.payload = lenDelim (flat rs) ∧ (flat rs).length < 2 ^ 64 ∧ EncSlots ps (pdecls ps i) fs rs
  | _, _, _ => False
/-- the records of one field, in their relative order. -/
def EncSlot (ps : PSchema) : PDecl → Slot → List Rec → Prop
  | .single t ty false, .req v, rs => (∃ r, rs = [r] ∧ r.tag = t ∧ EncE ps ty v r) ∨ (rs = [] ∧ zeroOf ty v)
  | .single _ _ true, .none, rs => rs = []
  | .single t ty true, .some v, rs => ∃ r, rs = [r] ∧ r.tag = t ∧ EncE ps ty v r
  | .rep t ty, .rep xs, rs =>
    if packable ty then ∃ vs, svalsOf xs = some vs ∧ EncPacked t ty rs vs
    else EncRep ps t ty xs rs
  | .map t k vty, .map kvs, rs => EncMap ps t k vty kvs rs
  | .oneof _, .none, rs => rs = []
  | .oneof vs, .one t v, rs => ∃ ty r, lookupP vs t = some ty ∧ rs = [r] ∧ r.tag = t ∧ EncE ps ty v r
  | _, _, _ => False
/-- a message body: every record belongs to a declared field; the records of each field, picked
out by field number in the order they appear, encode that field's value.  Fields may interleave. -/
def EncSlots (ps : PSchema) : List PDecl → Slots → List Rec → Prop
  | [], .nil, rs => rs = []
  | d :: ds, .cons v fs, rs =>
    EncSlot ps d v (rs.filter (fun r => d.tags.contains r.tag)) ∧
    EncSlots ps ds fs (rs.filter (fun r => !d.tags.contains r.tag))
  | _, _, _ => False
/-- non-packable repeated field: one record per element. -/
def EncRep (ps : PSchema) (t : Nat) (ty : PFTy) : EVals → List Rec → Prop
  | .nil, rs => rs = []
  | .cons x xs, rs => ∃ r rs', rs = r :: rs' ∧ r.tag = t ∧ EncE ps ty x r ∧ EncRep ps t ty xs rs'
/-- map field: one entry record per pair; inside an entry the key is field 1 and the value field 2,
in either order, each omitted when it is the zero value. -/
def EncMap (ps : PSchema) (t : Nat) (k : PType) (vty : PFTy) : Pairs → List Rec → Prop
  | .nil, rs => rs = []
  | .cons kk v r, rs =>
    ∃ e rs', rs = e :: rs' ∧ e.tag = t ∧ e.wt = .len ∧
      (∃ es, e.payload = lenDelim (flat es) ∧ (flat es).length < 2 ^ 64 ∧ (∀ x ∈ es, x.tag = 1 ∨ x.tag = 2) ∧
        ((∃ kr, es.filter (fun x => x.tag == 1) = [kr] ∧ kr.wt = wireOf k ∧ kr.payload = encScalar k kk) ∨
          (es.filter (fun x => x.tag == 1) = [] ∧ kk.exactDefault = true)) ∧
        ((∃ vr, es.filter (fun x => x.tag == 2) = [vr] ∧ EncE ps vty v vr) ∨
          (es.filter (fun x => x.tag == 2) = [] ∧ zeroOf vty v))) ∧
      EncMap ps t k vty r rs'
end

/-- **the specification relation**: `bs` is a conforming encoding of value `m` of message `i`. -/
def Enc (ps : PSchema) (i : Nat) (m : Slots) (bs : Bytes) : Prop :=
  ∃ rs, bs = flat rs ∧ EncSlots ps (pdecls ps i) m rs

end Pilota.Proto.Spec
