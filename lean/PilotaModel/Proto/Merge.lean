import PilotaModel.Proto.Typing
/-
  C18 — the specification of protobuf merge semantics, `mergeVal`, independent of the decoder:
  singular scalars: last wins; repeated: append; map: insert, a later equal key replaces;
  oneof: a later member replaces, the same message member merges; messages: field-wise.
-/
namespace Pilota.Proto
open Pilota

/-- `insert` every entry of the second map, in order. -/
def insertAll : Pairs → Pairs → Pairs
  | xs, .nil => xs
  | xs, .cons k v r => insertAll (xs.insert k v) r

mutual
def mergeValE (s : Schema) : FTy → EVal → EVal → EVal
  | .scalar _, _, y => y
  | .msg i, x, .msg ys => .msg (mergeValSlots s (decls s i) x.fields ys)
  | .msg _, x, .s _ => x
def mergeValSlot (s : Schema) : FieldDecl → Slot → Slot → Slot
  | .single _ ty false, x, .req y =>
    match x with
    | .req xv => .req (mergeValE s ty xv y)
    | _ => x
  | .single _ ty true, x, .some y => .some (mergeValE s ty (optCur s ty x) y)
  | .rep _ _, x, .rep ys =>
    match x with
    | .rep xs => .rep (xs.append ys)
    | _ => x
  | .map _ _ _, x, .map kvs =>
    match x with
    | .map xs => .map (insertAll xs kvs)
    | _ => x
  | .oneof vs, x, .one t y =>
    match lookupVariant vs t with
    | some ty => .one t (mergeValE s ty (oneCur s ty t x) y)
    | none => x
  | _, x, _ => x
def mergeValSlots (s : Schema) : List FieldDecl → Slots → Slots → Slots
  | d :: ds, .cons x xs, .cons y ys => .cons (mergeValSlot s d x y) (mergeValSlots s ds xs ys)
  | _, xs, _ => xs
end

/-- merging value `y` of message `i` into value `x`. -/
def mergeVal (s : Schema) (i : Nat) (x y : Slots) : Slots := mergeValSlots s (decls s i) x y

end Pilota.Proto
