import PilotaModel.Proto.Spec
/-
  Executable side of the reference: a generic wire parser, a checker for `Spec.Enc`, a canonical
  encoder and a schema-directed decoder (last value wins, repeated append, packed or not) —
  none of it uses pilota's readers.
-/
namespace Pilota.Proto.Spec
open Pilota Pilota.Proto

/-- read a base-128 varint of at most ten bytes whose value fits 64 bits. -/
def readVar : Nat → Nat → Nat → Bytes → Option (Nat × Bytes)
  | 0, _, _, _ => none
  | _ + 1, _, _, [] => none
  | k + 1, shift, acc, b :: bs =>
    let acc' := acc + (b.toNat % 128) * 2 ^ shift
    if b.toNat < 128 then (if acc' < 2 ^ 64 then some (acc', bs) else none)
    else readVar k (shift + 7) acc' bs

def readVarint (bs : Bytes) : Option (Nat × Bytes) := readVar 10 0 0 bs

def takeExact (n : Nat) (bs : Bytes) : Option (Bytes × Bytes) :=
  if n ≤ bs.length then some (bs.take n, bs.drop n) else none

/-- one record: key, then the payload its wire type prescribes (groups are not in the grammar). -/
def parseRec (bs : Bytes) : Option (Rec × Bytes) :=
  match readVarint bs with
  | none => none
  | some (key, r) =>
    let tag := key / 8
    if tag < 1 ∨ tag > 2 ^ 29 - 1 then none
    else match key % 8 with
      | 0 => match readVarint r with
        | some (_, r') => some ({ tag := tag, wt := .varint, payload := r.take (r.length - r'.length) }, r')
        | none => none
      | 1 => (takeExact 8 r).map fun (p, r') => ({ tag := tag, wt := .i64, payload := p }, r')
      | 5 => (takeExact 4 r).map fun (p, r') => ({ tag := tag, wt := .i32, payload := p }, r')
      | 2 => match readVarint r with
        | some (n, r') => match takeExact n r' with
          | some (_, r'') => some ({ tag := tag, wt := .len, payload := r.take (r.length - r''.length) }, r'')
          | none => none
        | none => none
      | _ => none

def parseRecs : Nat → Bytes → Option (List Rec)
  | 0, _ => none
  | f + 1, bs =>
    if bs.isEmpty then some []
    else match parseRec bs with
      | some (r, rest) => (parseRecs f rest).map (r :: ·)
      | none => none

/-- body of a length-delimited payload. -/
def unLen (p : Bytes) : Option Bytes :=
  match readVarint p with
  | some (n, r) => if r.length = n then some r else none
  | none => none

/-! ### strict parsing for the checker: keys and length prefixes in their minimal form
(what an encoder writes; `Spec.Enc` is about encoders, the decoder below is lenient) -/

def readCanon (bs : Bytes) : Option (Nat × Bytes) :=
  match readVarint bs with
  | some (n, r) => if bs = base128 n ++ r then some (n, r) else none
  | none => none

def parseRecC (bs : Bytes) : Option (Rec × Bytes) :=
  match readCanon bs with
  | none => none
  | some (key, r) =>
    let tag := key / 8
    if tag < 1 ∨ tag > 2 ^ 29 - 1 then none
    else match key % 8 with
      | 0 => match readVarint r with
        | some (_, r') => if r = r.take (r.length - r'.length) ++ r' then some ({ tag := tag, wt := .varint, payload := r.take (r.length - r'.length) }, r') else none
        | none => none
      | 1 => (takeExact 8 r).map fun (p, r') => ({ tag := tag, wt := .i64, payload := p }, r')
      | 5 => (takeExact 4 r).map fun (p, r') => ({ tag := tag, wt := .i32, payload := p }, r')
      | 2 => match readVarint r with
        | some (n, r') => match takeExact n r' with
          | some (_, r'') => if r = r.take (r.length - r''.length) ++ r'' then some ({ tag := tag, wt := .len, payload := r.take (r.length - r''.length) }, r'') else none
          | none => none
        | none => none
      | _ => none

def parseRecsC : Nat → Bytes → Option (List Rec)
  | 0, _ => none
  | f + 1, bs =>
    if bs.isEmpty then some []
    else match parseRecC bs with
      | some (r, rest) => (parseRecsC f rest).map (r :: ·)
      | none => none

/-- body of a length-delimited payload whose prefix is minimal. -/
def unLenC (p : Bytes) : Option Bytes :=
  match readCanon p with
  | some (n, r) => if r.length = n then some r else none
  | none => none

/-! ### the checker: does `rs` encode the value? (mirrors `EncSlots`, decidably) -/

def beqBytes (a b : Bytes) : Bool := decide (a = b)

/-- the longest prefix of `vs` whose payloads make up `b`; returns what is left of `vs`. -/
def eatRun (pt : PType) : Nat → Bytes → List SVal → Option (List SVal)
  | 0, _, _ => none
  | f + 1, b, vs =>
    if b.isEmpty then some vs
    else match vs with
      | v :: vs' =>
        let e := encScalar pt v
        if e.isPrefixOf b && !e.isEmpty then eatRun pt f (b.drop e.length) vs' else none
      | [] => none

/-- consume the records of a packable repeated field against the expected values. -/
def checkPacked (t : Nat) (ty : PFTy) : List Rec → List SVal → Bool
  | [], vs => vs.isEmpty
  | r :: rs, vs =>
    r.tag == t &&
    (if r.wt == wireOfTy ty && r.wt != .len then
      match vs with
      | v :: vs' => beqBytes r.payload (encScalar (scalarTy ty) v) && checkPacked t ty rs vs'
      | [] => false
    else if r.wt == .len then
      match unLenC r.payload with
      | some body =>
        if body.isEmpty then false
        else match eatRun (scalarTy ty) (body.length + 1) body vs with
          | some rest => checkPacked t ty rs rest
          | none => false
      | none => false
    else false)

def isZero : PFTy → EVal → Bool
  | .msg _, .msg fs => fs.exactDefault
  | .msg _, .s _ => false
  | _, .s x => x.exactDefault
  | _, .msg _ => false

/-- the canonical encoder omits scalar zeros only. -/
def isZeroS : PFTy → EVal → Bool
  | .msg _, _ => false
  | _, .s x => x.exactDefault
  | _, .msg _ => false

mutual
def checkE (ps : PSchema) : PFTy → EVal → Rec → Bool
  | .scalar t, .s x, r => r.wt == wireOf t && beqBytes r.payload (encScalar t x)
  | .enum, .s x, r => r.wt == .varint && beqBytes r.payload (encScalar .int32 x)
  | .msg i, .msg fs, r =>
    r.wt == .len &&
    match unLenC r.payload with
    | some body => match parseRecsC (body.length + 1) body with
      | some rs => checkSlots ps (pdecls ps i) fs rs
      | none => false
    | none => false
  | _, _, _ => false
def checkSlot (ps : PSchema) : PDecl → Slot → List Rec → Bool
  | .single t ty false, .req v, rs =>
    match rs with
    | [r] => r.tag == t && checkE ps ty v r
    | [] => isZero ty v
    | _ => false
  | .single _ _ true, .none, rs => rs.isEmpty
  | .single t ty true, .some v, rs =>
    match rs with
    | [r] => r.tag == t && checkE ps ty v r
    | _ => false
  | .rep t ty, .rep xs, rs =>
    if packable ty then
      match svalsOf xs with
      | some vs => checkPacked t ty rs vs
      | none => false
    else checkRep ps t ty xs rs
  | .map t k vty, .map kvs, rs => checkMap ps t k vty kvs rs
  | .oneof _, .none, rs => rs.isEmpty
  | .oneof vs, .one t v, rs =>
    match lookupP vs t, rs with
    | some ty, [r] => r.tag == t && checkE ps ty v r
    | _, _ => false
  | _, _, _ => false
def checkSlots (ps : PSchema) : List PDecl → Slots → List Rec → Bool
  | [], .nil, rs => rs.isEmpty
  | d :: ds, .cons v fs, rs =>
    checkSlot ps d v (rs.filter (fun r => d.tags.contains r.tag)) &&
    checkSlots ps ds fs (rs.filter (fun r => !d.tags.contains r.tag))
  | _, _, _ => false
def checkRep (ps : PSchema) (t : Nat) (ty : PFTy) : EVals → List Rec → Bool
  | .nil, rs => rs.isEmpty
  | .cons x xs, rs =>
    match rs with
    | r :: rs' => r.tag == t && checkE ps ty x r && checkRep ps t ty xs rs'
    | [] => false
def checkMap (ps : PSchema) (t : Nat) (k : PType) (vty : PFTy) : Pairs → List Rec → Bool
  | .nil, rs => rs.isEmpty
  | .cons kk v r, rs =>
    match rs with
    | e :: rs' =>
      e.tag == t && e.wt == .len &&
      (match unLenC e.payload with
       | some body => match parseRecsC (body.length + 1) body with
         | some es =>
           es.all (fun x => x.tag == 1 || x.tag == 2) &&
           (match es.filter (fun x => x.tag == 1) with
            | [kr] => kr.wt == wireOf k && beqBytes kr.payload (encScalar k kk)
            | [] => kk.exactDefault
            | _ => false) &&
           (match es.filter (fun x => x.tag == 2) with
            | [vr] => checkE ps vty v vr
            | [] => isZero vty v
            | _ => false)
         | none => false
       | none => false) &&
      checkMap ps t k vty r rs'
    | [] => false
end

/-- **the executable checker** for `Spec.Enc`. -/
def check (ps : PSchema) (i : Nat) (m : Slots) (bs : Bytes) : Bool :=
  match parseRecsC (bs.length + 1) bs with
  | some rs => checkSlots ps (pdecls ps i) m rs
  | none => false

/-! ### the canonical encoder: declaration order, packed runs, implicit defaults omitted -/

def keyOf (t : Nat) (wt : WireType) : Bytes := base128 (t * 8 + wt.code)

mutual
def sEncE (ps : PSchema) (t : Nat) : PFTy → EVal → Bytes
  | .scalar ty, .s x => keyOf t (wireOf ty) ++ encScalar ty x
  | .enum, .s x => keyOf t .varint ++ encScalar .int32 x
  | .msg i, .msg fs => keyOf t .len ++ lenDelim (sEncSlots ps (pdecls ps i) fs)
  | _, _ => []
def sEncSlot (ps : PSchema) : PDecl → Slot → Bytes
  | .single t ty false, .req v => if isZeroS ty v then [] else sEncE ps t ty v
  | .single t ty true, .some v => sEncE ps t ty v
  | .rep t ty, .rep xs =>
    if packable ty then
      match svalsOf xs with
      | some [] => []
      | some vs => keyOf t .len ++ lenDelim (vs.flatMap (encScalar (scalarTy ty)))
      | none => []
    else sEncRep ps t ty xs
  | .map t k vty, .map kvs => sEncMap ps t k vty kvs
  | .oneof vs, .one t v =>
    match lookupP vs t with
    | some ty => sEncE ps t ty v
    | none => []
  | _, _ => []
def sEncSlots (ps : PSchema) : List PDecl → Slots → Bytes
  | d :: ds, .cons v fs => sEncSlot ps d v ++ sEncSlots ps ds fs
  | _, _ => []
def sEncRep (ps : PSchema) (t : Nat) (ty : PFTy) : EVals → Bytes
  | .nil => []
  | .cons x xs => sEncE ps t ty x ++ sEncRep ps t ty xs
def sEncMap (ps : PSchema) (t : Nat) (k : PType) (vty : PFTy) : Pairs → Bytes
  | .nil => []
  | .cons kk v r =>
    keyOf t .len ++ lenDelim ((if kk.exactDefault then [] else keyOf 1 (wireOf k) ++ encScalar k kk) ++
      (if isZeroS vty v then [] else sEncE ps 2 vty v)) ++ sEncMap ps t k vty r
end

def encode (ps : PSchema) (i : Nat) (m : Slots) : Bytes := sEncSlots ps (pdecls ps i) m

/-! ### the reference decoder -/

def toSigned (bits : Nat) (n : Nat) : Int :=
  let m := n % 2 ^ bits
  if m < 2 ^ (bits - 1) then (m : Int) else (m : Int) - (2 ^ bits : Nat)

def unzz (n : Nat) : Int := if n % 2 = 0 then ((n / 2 : Nat) : Int) else -((n / 2 : Nat) : Int) - 1

def leNat : Bytes → Nat
  | [] => 0
  | b :: bs => b.toNat + 256 * leNat bs

/-- a scalar of the declared type from a payload of the right wire type. -/
def decScalar : PType → Bytes → Option (SVal × Bytes)
  | .int32, p => (readVarint p).map fun (n, r) => (.int (toSigned 32 n), r)
  | .int64, p => (readVarint p).map fun (n, r) => (.int (toSigned 64 n), r)
  | .uint32, p => (readVarint p).map fun (n, r) => (.int ((n % 2 ^ 32 : Nat) : Int), r)
  | .uint64, p => (readVarint p).map fun (n, r) => (.int (n : Int), r)
  | .sint32, p => (readVarint p).map fun (n, r) => (.int (unzz (n % 2 ^ 32)), r)
  | .sint64, p => (readVarint p).map fun (n, r) => (.int (unzz n), r)
  | .bool, p => (readVarint p).map fun (n, r) => (.bool (n != 0), r)
  | .fixed32, p => (takeExact 4 p).map fun (w, r) => (.int (leNat w : Nat), r)
  | .sfixed32, p => (takeExact 4 p).map fun (w, r) => (.int (toSigned 32 (leNat w)), r)
  | .float, p => (takeExact 4 p).map fun (w, r) => (.f32 (leNat w), r)
  | .fixed64, p => (takeExact 8 p).map fun (w, r) => (.int (leNat w : Nat), r)
  | .sfixed64, p => (takeExact 8 p).map fun (w, r) => (.int (toSigned 64 (leNat w)), r)
  | .double, p => (takeExact 8 p).map fun (w, r) => (.f64 (leNat w), r)
  | .string, p => match unLen p with
    | some b => if validUtf8 b then some (.bs b, []) else none
    | none => none
  | .bytes, p => (unLen p).map fun b => (.bs b, [])

def decOne (t : PType) (r : Rec) : Option SVal :=
  if r.wt != wireOf t then none
  else match decScalar t r.payload with
    | some (v, []) => some v
    | _ => none

/-- all scalars of a packed run. -/
def decRun (t : PType) : Nat → Bytes → Option (List SVal)
  | 0, _ => none
  | f + 1, b =>
    if b.isEmpty then some []
    else match decScalar t b with
      | some (v, r) => if r.length < b.length then (decRun t f r).map (v :: ·) else none
      | none => none

def pairsInsert (k : SVal) (v : EVal) : Pairs → Pairs
  | .nil => .cons k v .nil
  | .cons k' v' r => if k' = k then .cons k' v r else .cons k' v' (pairsInsert k v r)

def zeroVal : PType → SVal
  | .bool => .bool false
  | .float => .f32 0
  | .double => .f64 0
  | .string | .bytes => .bs []
  | _ => .int 0

def defaultOfTy (dm : Nat → Slots) : PFTy → EVal
  | .scalar t => .s (zeroVal t)
  | .enum => .s (.int 0)
  | .msg i => .msg (dm i)

def defaultSlotOf (dm : Nat → Slots) : PDecl → Slot
  | .single _ ty false => .req (defaultOfTy dm ty)
  | .single _ _ true => .none
  | .rep _ _ => .rep .nil
  | .map _ _ _ => .map .nil
  | .oneof _ => .none

def defaultSlotsOf (dm : Nat → Slots) : List PDecl → Slots
  | [] => .nil
  | d :: ds => .cons (defaultSlotOf dm d) (defaultSlotsOf dm ds)

def defaultMsgOf (ps : PSchema) : Nat → Nat → Slots
  | 0, _ => .nil
  | f + 1, i => defaultSlotsOf (defaultMsgOf ps f) (pdecls ps i)

/-- merge one record into the value of a declared type (`depth` bounds message nesting). -/
def decE (ps : PSchema) (rec : Nat → Slots → List Rec → Option Slots) (ty : PFTy) (cur : EVal) (r : Rec) : Option EVal :=
  match ty with
  | .scalar t => (decOne t r).map .s
  | .enum => (decOne .int32 r).map .s
  | .msg i =>
    if r.wt != .len then none
    else match unLen r.payload with
      | some body => match parseRecs (body.length + 1) body with
        | some rs => (rec i cur.fields rs).map .msg
        | none => none
      | none => none

def decSlot (ps : PSchema) (rec : Nat → Slots → List Rec → Option Slots) (dm : Nat → Slots) (d : PDecl) (cur : Slot) (r : Rec) :
    Option Slot :=
  match d, cur with
  | .single _ ty false, .req v => (decE ps rec ty v r).map .req
  | .single _ ty true, cur =>
    let v := match cur with | .some v => v | _ => defaultOfTy dm ty
    (decE ps rec ty v r).map .some
  | .rep _ ty, .rep xs =>
    if packable ty && r.wt == .len then
      match unLen r.payload with
      | some body => (decRun (scalarTy ty) (body.length + 1) body).map fun vs => .rep (xs.append (svalsToE vs))
      | none => none
    else (decE ps rec ty (defaultOfTy dm ty) r).map fun v => .rep (xs.snoc v)
  | .map _ k vty, .map kvs =>
    if r.wt != .len then none
    else match unLen r.payload with
      | some body => match parseRecs (body.length + 1) body with
        | some es =>
          let step (acc : Option (SVal × EVal)) (x : Rec) : Option (SVal × EVal) :=
            match acc with
            | none => none
            | some (kk, vv) =>
              if x.tag == 1 then (decOne k x).map fun k' => (k', vv)
              else if x.tag == 2 then (decE ps rec vty vv x).map fun v' => (kk, v')
              else some (kk, vv)
          (es.foldl step (some (zeroVal k, defaultOfTy dm vty))).map fun (kk, vv) => .map (pairsInsert kk vv kvs)
        | none => none
      | none => none
  | .oneof vs, cur =>
    match lookupP vs r.tag with
    | some ty =>
      let v := match cur with
        | .one t v => if t = r.tag then v else defaultOfTy dm ty
        | _ => defaultOfTy dm ty
      (decE ps rec ty v r).map (.one r.tag)
    | none => none
  | _, _ => none

def decInto (ps : PSchema) (rec : Nat → Slots → List Rec → Option Slots) (dm : Nat → Slots) (r : Rec) :
    List PDecl → Slots → Option Slots
  | [], m => some m                                         -- unknown field: ignored
  | d :: ds, .cons v fs =>
    if d.tags.contains r.tag then (decSlot ps rec dm d v r).map fun v' => .cons v' fs
    else (decInto ps rec dm r ds fs).map fun fs' => .cons v fs'
  | _ :: _, .nil => none

/-- fold the records of a message body into a value of message `i`; `depth` bounds nesting. -/
def decMsg (ps : PSchema) : Nat → Nat → Slots → List Rec → Option Slots
  | 0, _, _, _ => none
  | depth + 1, i, m, rs =>
    rs.foldl (fun acc r => match acc with
      | some m => decInto ps (decMsg ps depth) (defaultMsgOf ps ps.length) r (pdecls ps i) m
      | none => none) (some m)

/-- **the reference decoder**: nesting up to 100 like every protobuf implementation. -/
def decode (ps : PSchema) (i : Nat) (bs : Bytes) : Option Slots :=
  match parseRecs (bs.length + 1) bs with
  | some rs => decMsg ps 101 i (defaultMsgOf ps ps.length i) rs
  | none => none

end Pilota.Proto.Spec
