/-
  The nom-7.1.3 combinators that pilota-thrift-parser uses, over `List Char`
  (nom `complete` flavour on `&str`: there is no `Incomplete`).

  Result classes follow nom:  `ok` = `Ok((rest, value))`, `err` = `Err(Err::Error)`
  (recoverable: `alt`, `opt`, `many0` … backtrack over it), `fail` = `Err(Err::Failure)`
  (never backtracked over; produced only by `Item::parse`'s default arm).
  `panic` is a Rust precondition violation; `fuel` is exhaustion of the model's own
  recursion budget (theorems show when it cannot happen).

  Import-free (core only).
-/
namespace Pilota.Idl

inductive PR (α : Type) where
  | ok (a : α) (rest : List Char)
  | err
  | fail
  | panic (site : String)
  | fuel
  deriving Repr

abbrev P (α : Type) := List Char → PR α

-- `cs!"abc"` is the character list `['a','b','c']`, built at elaboration time (string literals do
-- not reduce in the kernel).
open Lean in
macro:max "cs!" s:str : term => do
  let cs := s.getString.toList
  let elems : Array (TSyntax `term) := cs.toArray.map fun c => ⟨Syntax.mkCharLit c⟩
  `([ $elems,* ])

namespace PR
def isPanic {α} : PR α → Bool
  | .panic _ => true
  | _ => false
def isFuel {α} : PR α → Bool
  | .fuel => true
  | _ => false
def isOk {α} : PR α → Bool
  | .ok _ _ => true
  | _ => false
def isErr {α} : PR α → Bool
  | .err => true
  | _ => false
/-- continue after a success; every other outcome is passed on unchanged. -/
def bind {α β} (x : PR α) (f : α → List Char → PR β) : PR β :=
  match x with
  | .ok a r => f a r
  | .err => .err | .fail => .fail | .panic m => .panic m | .fuel => .fuel
/-- change the value of a success. -/
def map {α β} (f : α → β) (x : PR α) : PR β := x.bind (fun a r => .ok (f a) r)
end PR

/-! ### sequencing -/

/-- `Ok((input, a))` without consuming. -/
def ret {α} (a : α) : P α := fun s => .ok a s

/-- `map(p, f)`. -/
def pmap {α β} (f : α → β) (p : P α) : P β := fun s => (p s).map f

/-- `map_res(p, f)`: a failed conversion is `Err::Error` at the original input. -/
def mapRes {α β} (p : P α) (f : α → Option β) : P β := fun s =>
  (p s).bind fun a r =>
    match f a with
    | some b => .ok b r
    | none => .err

/-- `map(p, f)` where the closure `f` has a Rust precondition (debug-build overflow, `unwrap`):
`.error site` is the panic. -/
def pmapChecked {α β} (f : α → Except String β) (p : P α) : P β := fun s =>
  (p s).bind fun a r =>
    match f a with
    | .ok b => .ok b r
    | .error site => .panic site

/-- one step of a `tuple((p, …))`: run `p`, hand its value and the rest to the continuation. -/
def andThen {α β} (p : P α) (f : α → P β) : P β := fun s => (p s).bind f

/-- `preceded(p, q)` / a tuple component whose value is dropped. -/
def skip {α β} (p : P α) (q : P β) : P β := andThen p (fun _ => q)

/-- `terminated(p, q)`. -/
def terminated {α β} (p : P α) (q : P β) : P α := andThen p (fun a => pmap (fun _ => a) q)

/-- `opt(p)`. -/
def opt {α} (p : P α) : P (Option α) := fun s =>
  match p s with
  | .ok a r => .ok (some a) r
  | .err => .ok none s
  | .fail => .fail | .panic m => .panic m | .fuel => .fuel

/-- `alt((p1, …, pn))`: first arm that does not return `Err::Error`. -/
def alt {α} : List (P α) → P α
  | [] => fun _ => .err
  | p :: ps => fun s =>
    match p s with
    | .err => alt ps s
    | r => r

/-- `peek(p)`. -/
def peek {α} (p : P α) : P α := fun s => (p s).bind fun a _ => .ok a s

/-- `not(p)`. -/
def pnot {α} (p : P α) : P Unit := fun s =>
  match p s with
  | .ok _ _ => .err
  | .err => .ok () s
  | .fail => .fail | .panic m => .panic m | .fuel => .fuel

/-- `recognize(p)`: the consumed slice of the input. -/
def recognize {α} (p : P α) : P (List Char) := fun s =>
  (p s).bind fun _ r => .ok (s.take (s.length - r.length)) r

/-- `eof`. -/
def eof : P Unit := fun s =>
  match s with
  | [] => .ok () []
  | _ :: _ => .err

/-! ### tokens -/

def stripPrefix : List Char → List Char → Option (List Char)
  | [], s => some s
  | _ :: _, [] => none
  | t :: ts, c :: cs => if t = c then stripPrefix ts cs else none

/-- `tag(t)`. -/
def tag (t : List Char) : P (List Char) := fun s =>
  match stripPrefix t s with
  | some r => .ok t r
  | none => .err

/-- nom's `compare_no_case` on `&str` compares `to_lowercase()` char by char.  The parser uses it
only with the tag `"e"`; no non-ASCII character lower-cases to `e` (checked exhaustively against
`char::to_lowercase` by the T1 verb `idl-lower`), so an ASCII fold is exact there. -/
def lowerEq (a b : Char) : Bool := a.toLower == b.toLower

def stripPrefixNoCase : List Char → List Char → Option (List Char × List Char)
  | [], s => some ([], s)
  | _ :: _, [] => none
  | t :: ts, c :: cs =>
    if lowerEq c t then
      match stripPrefixNoCase ts cs with
      | some (m, r) => some (c :: m, r)
      | none => none
    else none

def utf8Len (cs : List Char) : Nat := (cs.map Char.utf8Size).sum

/-- `tag_no_case(t)`: nom splits the input at `t.len()` BYTES (`i.take_split(tag_len)`), which
panics unless the matched text has the same UTF-8 length as the tag. -/
def tagNoCase (t : List Char) : P (List Char) := fun s =>
  match stripPrefixNoCase t s with
  | none => .err
  | some (m, r) =>
    if utf8Len m = utf8Len t then .ok m r else .panic "tag_no_case: take_split inside a char"

/-- `satisfy(f)`. -/
def satisfy (f : Char → Bool) : P Char := fun s =>
  match s with
  | c :: r => if f c then .ok c r else .err
  | [] => .err

/-- `one_of(cs)`. -/
def oneOf (cs : List Char) : P Char := satisfy (fun c => cs.contains c)
/-- `none_of(cs)`. -/
def noneOf (cs : List Char) : P Char := satisfy (fun c => !cs.contains c)

/-- `take_while(f)` (never fails). -/
def takeWhile (f : Char → Bool) : P (List Char) := fun s => .ok (s.takeWhile f) (s.dropWhile f)

/-- `take_while1`-style (`digit1`, `hex_digit1`, `multispace1`): at least one character. -/
def takeWhile1 (f : Char → Bool) : P (List Char) := fun s =>
  match s with
  | c :: _ => if f c then .ok (s.takeWhile f) (s.dropWhile f) else .err
  | [] => .err

/-- `take_till(f)` (never fails). -/
def takeTill (f : Char → Bool) : P (List Char) := takeWhile (fun c => !f c)

def isDecDigit (c : Char) : Bool := c.isDigit
def isHexDigit (c : Char) : Bool :=
  c.isDigit || (c.toNat ≥ 97 && c.toNat ≤ 102) || (c.toNat ≥ 65 && c.toNat ≤ 70)
/-- nom `multispace1`: space, tab, CR, LF. -/
def isMultispace (c : Char) : Bool := c == ' ' || c == '\t' || c == '\r' || c == '\n'

def digit1 : P (List Char) := takeWhile1 isDecDigit
def hexDigit1 : P (List Char) := takeWhile1 isHexDigit
def multispace1 : P (List Char) := takeWhile1 isMultispace

/-- first occurrence of `t`: (text before it, text from it on). -/
def findSub (t : List Char) : List Char → Option (List Char × List Char)
  | [] => if t.isEmpty then some ([], []) else none
  | c :: cs =>
    if (stripPrefix t (c :: cs)).isSome then some ([], c :: cs)
    else match findSub t cs with
      | some (b, r) => some (c :: b, r)
      | none => none

/-- `take_until(t)`. -/
def takeUntil (t : List Char) : P (List Char) := fun s =>
  match findSub t s with
  | some (b, r) => .ok b r
  | none => .err

/-! ### repetition -/

/-- `many0(p)`: nom's infinite-loop guard returns `Err::Error` when `p` succeeds without consuming. -/
def many0F {α} (p : P α) : Nat → P (List α)
  | 0 => fun _ => .fuel
  | f + 1 => fun s =>
    match p s with
    | .ok a r =>
      if r.length = s.length then .err
      else (many0F p f r).map (fun as => a :: as)
    | .err => .ok [] s
    | .fail => .fail | .panic m => .panic m | .fuel => .fuel

def many0 {α} (p : P α) : P (List α) := fun s => many0F p (s.length + 1) s

/-- `many1(p)`: the first application has no length check. -/
def many1 {α} (p : P α) : P (List α) := fun s =>
  (p s).bind fun a r => (many0F p (r.length + 1) r).map (fun as => a :: as)

/-- the loop of `separated_list1(sep, p)` after the first element: `i` is the position after the
last element; a separator that matches but is not followed by an element is given back. -/
def sepLoopF {α β} (sep : P β) (p : P α) : Nat → P (List α)
  | 0 => fun _ => .fuel
  | f + 1 => fun i =>
    match sep i with
    | .ok _ i1 =>
      if i1.length = i.length then .err
      else match p i1 with
        | .ok a i2 => (sepLoopF sep p f i2).map (fun as => a :: as)
        | .err => .ok [] i
        | .fail => .fail | .panic m => .panic m | .fuel => .fuel
    | .err => .ok [] i
    | .fail => .fail | .panic m => .panic m | .fuel => .fuel

/-- `separated_list1(sep, p)`. -/
def separatedList1 {α β} (sep : P β) (p : P α) : P (List α) := fun s =>
  (p s).bind fun a r => (sepLoopF sep p (r.length + 1) r).map (fun as => a :: as)

/-- `many_till(p, g)`: `g` is tried first at every position. -/
def manyTillF {α β} (p : P α) (g : P β) : Nat → P (List α × β)
  | 0 => fun _ => .fuel
  | f + 1 => fun s =>
    match g s with
    | .ok b r => .ok ([], b) r
    | .err =>
      (p s).bind fun a r =>
        if r.length = s.length then .err
        else (manyTillF p g f r).map (fun x => (a :: x.1, x.2))
    | .fail => .fail | .panic m => .panic m | .fuel => .fuel

def manyTill {α β} (p : P α) (g : P β) : P (List α × β) := fun s => manyTillF p g (s.length + 1) s

/-- `escaped(normal, control, escapable)` (bytes::complete).  `input` is the position the
combinator was entered at, `i` the loop variable; the value is the consumed slice. -/
def escapedF {α β} (normal : P α) (ctrl : Char) (escapable : P β) (input : List Char) : Nat → P (List Char)
  | 0 => fun _ => .fuel
  | f + 1 => fun i =>
    if i.length = 0 then .ok input []                       -- `while i.input_len() > 0` falls through
    else match normal i with
      | .ok _ i2 =>
        if i2.length = 0 then .ok input []
        else if i2.length = i.length then .ok (input.take (input.length - i2.length)) i2
        else escapedF normal ctrl escapable input f i2
      | .err =>
        match i with
        | [] => .panic "escaped: iter_elements().next().unwrap()"
        | c :: rest =>
          if c = ctrl then
            if rest.length = 0 then .err                     -- `next >= i.input_len()`
            else (escapable rest).bind fun _ i2 =>
                if i2.length = 0 then .ok input []
                else escapedF normal ctrl escapable input f i2
          else
            if i.length = input.length then .err             -- `index == 0`
            else .ok (input.take (input.length - i.length)) i
      | .fail => .fail | .panic m => .panic m | .fuel => .fuel

def escaped {α β} (normal : P α) (ctrl : Char) (escapable : P β) : P (List Char) :=
  fun s => escapedF normal ctrl escapable s (s.length + 1) s

/-- `permutation((p, q))`, two parsers: nom loops, each round trying the not-yet-successful
parsers in order and restarting after the first success; when all remaining ones return
`Err::Error` the permutation fails.  (The final `_ => unreachable!()` in nom's macro is not
reachable: the loop leaves only when no slot is empty.) -/
def permutation2 {α β} (p : P α) (q : P β) : P (α × β) := fun s =>
  match p s with
  | .ok a s1 => (q s1).map (fun b => (a, b))
  | .err => (q s).bind fun b s1 => (p s1).map (fun a => (a, b))
  | .fail => .fail | .panic m => .panic m | .fuel => .fuel

end Pilota.Idl
