import PilotaModel.Idl.Printer
/-
  `File.wf` — the descriptor values that the text syntax accepted by the real parser can
  represent.  Decidable (a `Bool` function).  Every clause points at the Rust line that makes the
  excluded values unrepresentable; the few clauses that exclude slightly more than necessary say so.
-/
namespace Pilota.Idl

/-- identifier.rs:14-16 `satisfy(is_ascii_alphabetic || '_')`, `take_while(is_ascii_alphanumeric || '_')` -/
def identOk : Ident → Bool
  | [] => false
  | c :: cs => isIdentStart c && cs.all isIdentChar

/-- mod.rs:45 `separated_list1(…, Ident::parse)`: at least one segment -/
def Path.wf (p : Path) : Bool := !p.segments.isEmpty && p.segments.all identOk

/-- literal.rs:14-16: the raw text must be readable between single or between double quotes -/
def literalOk (t : Literal) : Bool := litOk '\'' t || litOk '"' t

/-- annotation.rs:24-27 key = `[A-Za-z_][A-Za-z0-9_.]*` -/
def annKeyOk : Str → Bool
  | [] => false
  | c :: cs => isIdentStart c && cs.all (fun c => isIdentChar c || c == '.')

def Annotations.wf (as : Annotations) : Bool := as.all fun a => annKeyOk a.key && literalOk a.value

/-- ty.rs:41-84: the eleven base-type keywords are tried before `Path`; `list` / `set` / `map`
(ty.rs:85-139) are tried before it too and only fall through when no `<` follows — the printer
never puts `<` there, so excluding them is a simplification, not a limit of the parser. -/
def typeWords : List (List Char) := [
  cs!"string", cs!"void", cs!"byte", cs!"bool", cs!"binary", cs!"i8", cs!"i16", cs!"i32", cs!"i64",
  cs!"double", cs!"uuid", cs!"list", cs!"set", cs!"map"]

def Path.head (p : Path) : List Char := p.segments.headD []

def cppOk : Option CppType → Bool
  | none => true
  | some l => literalOk l

mutual
def Ty.wf : Ty → Bool
  | .list v c => v.wf && cppOk c
  | .set v c => v.wf && cppOk c
  | .map k v c => k.wf && v.wf && cppOk c
  | .path p => p.wf && !typeWords.contains p.head
  | _ => true
def TypeA.wf : TypeA → Bool
  | .mk t as => t.wf && Annotations.wf as
end

/-- constant.rs `FromStr` / `from_str_radix` reject magnitudes above `i64::MAX`, and the sign
is applied by negation: `i64::MIN` has no spelling. -/
def intOk (n : Int) : Bool := decide (-i64Max ≤ n) && decide (n ≤ i64Max)

/-- constant.rs:151-180: the text is exactly what `DoubleConstant::parse` recognises. -/
def doubleOk (t : Str) : Bool :=
  match DoubleConstant.parse t with
  | .ok t' [] => t' = t
  | _ => false

mutual
def ConstValue.wf : ConstValue → Bool
  | .bool _ => true
  /- constant.rs:22-30 `true` / `false` (with word boundary) are tried before `Path` -/
  | .path p => p.wf && p.head != cs!"true" && p.head != cs!"false"
  | .string l => literalOk l
  | .int n => intOk n
  | .double t => doubleOk t
  | .list xs => ConstValue.wfList xs
  | .map kvs => ConstValue.wfPairs kvs
def ConstValue.wfList : List ConstValue → Bool
  | [] => true
  | x :: xs => x.wf && ConstValue.wfList xs
def ConstValue.wfPairs : List (ConstValue × ConstValue) → Bool
  | [] => true
  | (k, v) :: kvs => k.wf && v.wf && ConstValue.wfPairs kvs
end

/-- ty.rs:96 after `list<…>` the parser looks for `blank cpp_type blank literal`; the word
`cpp_type` itself directly after such a type is excluded (a simplification: it is only misread when
a literal follows it, which no definition allows). -/
def TypeA.endsInListGt : TypeA → Bool
  | .mk (.list _ none) [] => true
  | _ => false

def nameAfterTypeOk (t : TypeA) (name : Ident) : Bool := !(t.endsInListGt && name = cs!"cpp_type")

def TypeA.headIs (t : TypeA) (w : List Char) : Bool :=
  match t with
  | .mk (.path p) _ => p.head = w
  | _ => false

/-- field.rs:28-31 `id.parse::<i32>()` on `digit1`; field.rs:34 `opt(Attribute::parse)` reads a
leading `required` / `optional` word as requiredness. -/
def Field.wf (f : Field) : Bool :=
  decide (0 ≤ f.id) && decide (f.id ≤ i32Max) && identOk f.name && f.ty.wf &&
  (match f.dflt with | none => true | some v => v.wf) && Annotations.wf f.annotations &&
  nameAfterTypeOk f.ty f.name &&
  (f.attr != .default || (!f.ty.headIs cs!"required" && !f.ty.headIs cs!"optional"))

def StructLike.wf (s : StructLike) : Bool :=
  identOk s.name && s.fields.all Field.wf && Annotations.wf s.annotations

def EnumValue.wf (v : EnumValue) : Bool :=
  identOk v.name && (match v.value with | none => true | some n => intOk n) && Annotations.wf v.annotations

def Enum.wf (e : Enum) : Bool := identOk e.name && e.values.all EnumValue.wf && Annotations.wf e.annotations

/-- function.rs:19 `opt(tuple((tag("oneway"), blank)))` reads a result type spelled `oneway` as the
flag; function.rs:29-39 `throws` after the argument list belongs to the previous function
(excluded as the first word of a result type: a simplification, the parser would still reject the
mis-reading for lack of `(`); function.rs:44-50 an argument without requiredness becomes `required`,
so a `required` argument may be printed without the keyword — its type must then not be spelled
`required` / `optional` (field.rs:34). -/
def Function.wf (f : Function) : Bool :=
  identOk f.name && f.resultType.wf && nameAfterTypeOk f.resultType f.name &&
  (f.oneway || !f.resultType.headIs cs!"oneway") && !f.resultType.headIs cs!"throws" &&
  f.arguments.all (fun a => a.wf && a.attr != .default &&
    (a.attr != .required || (!a.ty.headIs cs!"required" && !a.ty.headIs cs!"optional"))) && f.throws.all Field.wf &&
  Annotations.wf f.annotations

def Service.wf (s : Service) : Bool :=
  identOk s.name && (match s.ext with | none => true | some p => p.wf) && s.functions.all Function.wf &&
  Annotations.wf s.annotations

def Item.wf : Item → Bool
  | .include p => literalOk p
  | .cppInclude p => literalOk p
  /- namespace.rs:30-52 the scope is one of the eighteen tags; annotation.rs:18 `many1`: `Some([])` has no spelling -/
  | .namespace n => scopeTags.contains n.scope && n.name.wf &&
      (match n.annotations with | none => true | some as => !as.isEmpty && Annotations.wf as)
  | .typedef t => t.ty.wf && identOk t.alias && nameAfterTypeOk t.ty t.alias && Annotations.wf t.annotations
  | .constant c => c.ty.wf && identOk c.name && nameAfterTypeOk c.ty c.name && c.value.wf && Annotations.wf c.annotations
  | .enum e => e.wf
  | .struct s => s.wf
  | .union s => s.wf
  | .exception s => s.wf
  | .service s => s.wf

/-- thrift.rs:60-75 `package` is recomputed from the first `namespace rs`. -/
def File.wf (f : File) : Bool :=
  f.items.all Item.wf && (match f.package, packageOf f.items with
    | none, none => true
    | some a, some b => a = b
    | _, _ => false)

end Pilota.Idl
