import PilotaModel.Idl.Nom
import PilotaModel.Idl.Ast
import PilotaModel.Idl.Parser
/-
  `render : Layout → File → List Char` — every textual rendering of a descriptor AST.

  A `Layout` is a list of choices consumed left to right (the default choice when it runs out).
  One choice is taken at
    * every place the grammar accepts a blank (`opt(blank)` / `blank`): its `pieces` give the blank
      text — whitespace runs and the three comment styles in any order;
    * every optional `list_separator`: `sep % 3` = none / `,` / `;`  (the mandatory separator of
      `map<K,V>`: `sep % 2` = `,` / `;`);
    * every literal: `flag` = prefer double quotes;
    * every `required` function argument: `flag` = leave the keyword out (the parser reads an
      argument without requiredness as `required`).
  Where the grammar has two optional blanks next to each other only one choice is taken (their
  concatenation is again a blank text).  A blank that separates two word-like tokens (identifier,
  keyword, number) is made non-empty (`rB1` / `rGap`): an empty choice becomes one space.

  The harness printer (harness/rt/src/idl.rs `Printer`) mirrors this file; verb `idl-rt` compares
  the two on every C15 request.
-/
namespace Pilota.Idl

inductive Piece where
  | ws (cs : Str)       -- characters other than space, tab, CR, LF are dropped
  | line (cs : Str)     -- `//…\n`   (LF dropped from the text)
  | hash (cs : Str)     -- `#…\n`
  | block (cs : Str)    -- `/*…*/`   (a `/` directly after a `*` is dropped from the text)
  deriving Repr

structure LChoice where
  pieces : List Piece
  sep : Nat
  flag : Bool
  deriving Repr

abbrev Layout := List LChoice

def LChoice.dflt : LChoice := { pieces := [], sep := 0, flag := false }

def Layout.pop (l : Layout) : LChoice × Layout :=
  match l with
  | [] => (LChoice.dflt, [])
  | c :: r => (c, r)

/-! ### blank text -/

def sanBlock : Bool → List Char → List Char
  | _, [] => []
  | prevStar, c :: r => if prevStar && c == '/' then sanBlock true r else c :: sanBlock (c == '*') r

def Piece.text : Piece → List Char
  | .ws cs => cs.filter isMultispace
  | .line cs => '/' :: '/' :: (cs.filter (fun c => c != '\n') ++ ['\n'])
  | .hash cs => '#' :: (cs.filter (fun c => c != '\n') ++ ['\n'])
  | .block cs => '/' :: '*' :: (sanBlock false cs ++ ['*', '/'])

def blankText : List Piece → List Char
  | [] => []
  | p :: ps => p.text ++ blankText ps

def blankText1 (ps : List Piece) : List Char :=
  match blankText ps with
  | [] => [' ']
  | t => t

def sepChar (n : Nat) : List Char := if n % 3 = 1 then [','] else if n % 3 = 2 then [';'] else []

/-! ### rendering monoid: text produced, layout left -/

abbrev R := Layout → List Char × Layout

def rLit (t : List Char) : R := fun l => (t, l)
def rSeq (a b : R) : R := fun l => ((a l).1 ++ (b (a l).2).1, (b (a l).2).2)
infixr:65 " +> " => rSeq
/-- take the next choice. -/
def rWith (f : LChoice → R) : R := fun l => f l.pop.1 l.pop.2

/-- an optional blank -/
def rB0 : R := rWith fun c => rLit (blankText c.pieces)
/-- a blank that must not be empty -/
def rB1 : R := rWith fun c => rLit (blankText1 c.pieces)
def rGap (needed : Bool) : R := if needed then rB1 else rB0

/-- elements of a list; the element renderer is told whether it is the last one. -/
def rSlots {α} (f : α → Bool → R) : List α → R
  | [] => rLit []
  | x :: xs => f x xs.isEmpty +> rSlots f xs

/-- after an element whose parser ends `… opt(blank), opt(list_separator)`:
`[blank] sep blank`  or, without separator, the blank before the next element
(non-empty when the element ends in a word and another element follows). -/
def rTail (endsOpen last : Bool) : R :=
  rWith fun c =>
    if sepChar c.sep = [] then rGap (endsOpen && !last)
    else rB0 +> rLit (sepChar c.sep) +> rB0

/-- after an element whose parser ends `… opt(list_separator)` with no blank before it. -/
def rTailAdj (endsOpen last : Bool) : R :=
  rWith fun c =>
    if sepChar c.sep = [] then rGap (endsOpen && !last)
    else rLit (sepChar c.sep) +> rB0

/-! ### lexical layer -/

def isEscapable (c : Char) : Bool := c == '\'' || c == '"' || c == 'n' || c == '\\'

/-- `t` can stand between two `q` quotes: backslash only in front of `'`, `"`, `n`, `\`; no bare `q`
(literal.rs: `escaped(none_of("\\q"), '\\', one_of("'\"n\\"))`). -/
def litOk (q : Char) : List Char → Bool
  | [] => true
  | c :: r =>
    if c = '\\' then
      match r with
      | e :: r' => isEscapable e && litOk q r'
      | [] => false
    else c != q && litOk q r

/-- the quote used for a literal: the preferred one when the text allows it. -/
def quoteFor (preferDouble : Bool) (t : List Char) : Char :=
  if preferDouble then (if litOk '"' t then '"' else '\'')
  else (if litOk '\'' t then '\'' else '"')

def rLiteral (t : Literal) : R :=
  rWith fun c => rLit (quoteFor c.flag t :: (t ++ [quoteFor c.flag t]))

def digitChar (n : Nat) : Char := Char.ofNat (48 + n % 10)

def decDigitsGo : Nat → Nat → List Char → List Char
  | 0, _, acc => acc
  | f + 1, n, acc => if n < 10 then digitChar n :: acc else decDigitsGo f (n / 10) (digitChar (n % 10) :: acc)

/-- decimal digits of `n`, no leading zeros. -/
def decDigits (n : Nat) : List Char := decDigitsGo (n + 1) n []

def intText (n : Int) : List Char :=
  if n < 0 then '-' :: decDigits (-n).toNat else decDigits n.toNat

def rPath (p : Path) : R :=
  match p.segments with
  | [] => rLit []
  | s :: ss => rLit s +> rSlots (fun seg _ => rB0 +> rLit ['.'] +> rB0 +> rLit seg) ss

/-! ### annotations, types -/

def rAnnotation (a : Annotation) (last : Bool) : R :=
  rLit a.key +> rB0 +> rLit ['='] +> rB0 +> rLiteral a.value +> rTail false last

/-- `( b0 (annotation …)* )`; the empty list renders as nothing. -/
def rAnns (as : Annotations) : R :=
  if as.isEmpty then rLit [] else rLit ['('] +> rB0 +> rSlots rAnnotation as +> rLit [')']

/-- `[blank annotations]` -/
def rOptAnns (as : Annotations) : R :=
  if as.isEmpty then rLit [] else rB0 +> rAnns as

def rCppOpt : Option CppType → R
  | none => rLit []
  | some l => rB1 +> rLit cs!"cpp_type" +> rB1 +> rLiteral l

def Ty.endsOpen : Ty → Bool
  | .list .. | .set .. | .map .. => false
  | _ => true

def TypeA.endsOpen : TypeA → Bool
  | .mk t as => as.isEmpty && t.endsOpen

mutual
def rTy : Ty → R
  | .string => rLit cs!"string" | .void => rLit cs!"void" | .byte => rLit cs!"byte"
  | .bool => rLit cs!"bool" | .binary => rLit cs!"binary" | .i8 => rLit cs!"i8"
  | .i16 => rLit cs!"i16" | .i32 => rLit cs!"i32" | .i64 => rLit cs!"i64"
  | .double => rLit cs!"double" | .uuid => rLit cs!"uuid"
  | .list v cpp =>
    rLit cs!"list" +> rB0 +> rLit ['<'] +> rB0 +> rType v +> rB0 +> rLit ['>'] +> rCppOpt cpp
  | .set v cpp =>
    rLit cs!"set" +> rCppOpt cpp +> rB0 +> rLit ['<'] +> rB0 +> rType v +> rB0 +> rLit ['>']
  | .map k v cpp =>
    rLit cs!"map" +> rCppOpt cpp +> rB0 +> rLit ['<'] +> rB0 +> rType k +> rB0 +>
      (rWith fun c => rLit [if c.sep % 2 = 0 then ',' else ';']) +> rB0 +> rType v +> rB0 +> rLit ['>']
  | .path p => rPath p
def rType : TypeA → R
  | .mk t as => rTy t +> rOptAnns as
end

/-! ### constants -/

def ConstValue.endsOpen : ConstValue → Bool
  | .string _ | .list _ | .map _ => false
  | _ => true

mutual
def rConst : ConstValue → R
  | .bool b => rLit (if b then cs!"true" else cs!"false")
  | .path p => rPath p
  | .string l => rLiteral l
  | .int n => rLit (intText n)
  | .double t => rLit t
  | .list xs => rLit ['['] +> rB0 +> rConstElems xs +> rLit [']']
  | .map kvs => rLit ['{'] +> rB0 +> rConstPairs kvs +> rLit ['}']
def rConstElems : List ConstValue → R
  | [] => rLit []
  | x :: xs => rConst x +> rTail x.endsOpen xs.isEmpty +> rConstElems xs
def rConstPairs : List (ConstValue × ConstValue) → R
  | [] => rLit []
  | (k, v) :: kvs =>
    rConst k +> rB0 +> rLit [':'] +> rB0 +> rConst v +> rTail v.endsOpen kvs.isEmpty +> rConstPairs kvs
end

/-! ### fields, struct-likes, enums -/

def rAttr (argMode : Bool) : Attribute → R
  | .optional => rLit cs!"optional" +> rB1
  | .required =>
    if argMode then rWith fun c => if c.flag then rLit [] else rLit cs!"required" +> rB1
    else rLit cs!"required" +> rB1
  | .default => rLit []

def Field.endsOpen (f : Field) : Bool :=
  f.annotations.isEmpty && (match f.dflt with | none => true | some v => v.endsOpen)

def rField (argMode : Bool) (f : Field) (last : Bool) : R :=
  rLit (decDigits f.id.toNat) +> rB0 +> rLit [':'] +> rB0 +> rAttr argMode f.attr +>
  rType f.ty +> rGap f.ty.endsOpen +> rLit f.name +>
  (match f.dflt with
   | none => rLit []
   | some v => rB0 +> rLit ['='] +> rB0 +> rConst v) +>
  rOptAnns f.annotations +> rTail f.endsOpen last

/-- `[blank] sep`-tail of the definitions whose parser ends
`opt(blank), opt(Annotations), opt(list_separator)`: a blank may precede the separator only when
there are no annotations. -/
def rDefTail (as : Annotations) (endsOpen last : Bool) : R :=
  if as.isEmpty then rTail endsOpen last else rTailAdj false last

def rStructLike (s : StructLike) (last : Bool) : R :=
  rLit s.name +> rB0 +> rLit ['{'] +> rB0 +> rSlots (rField false) s.fields +> rLit ['}'] +>
  rOptAnns s.annotations +> rDefTail s.annotations false last

def rEnumValue (v : EnumValue) (last : Bool) : R :=
  rLit v.name +>
  (match v.value with
   | none => rLit []
   | some n => rB0 +> rLit ['='] +> rB0 +> rLit (intText n)) +>
  rOptAnns v.annotations +> rDefTail v.annotations true last

def rEnum (e : Enum) : R :=
  rLit cs!"enum" +> rB1 +> rLit e.name +> rB0 +> rLit ['{'] +> rB0 +> rSlots rEnumValue e.values +>
  rLit ['}'] +> rOptAnns e.annotations

/-! ### functions, services -/

def rFunction (f : Function) (last : Bool) : R :=
  (if f.oneway then rLit cs!"oneway" +> rB1 else rLit []) +>
  rType f.resultType +> rB1 +> rLit f.name +> rB0 +> rLit ['('] +> rB0 +>
  rSlots (rField true) f.arguments +> rLit [')'] +>
  (if f.throws.isEmpty then rLit []
   else rB0 +> rLit cs!"throws" +> rB0 +> rLit ['('] +> rB0 +> rSlots (rField false) f.throws +> rLit [')']) +>
  rOptAnns f.annotations +> rDefTail f.annotations false last

def rService (s : Service) (last : Bool) : R :=
  rLit cs!"service" +> rB1 +> rLit s.name +>
  (match s.ext with
   | none => rLit []
   | some p => rB1 +> rLit cs!"extends" +> rB1 +> rPath p) +>
  rB0 +> rLit ['{'] +> rB0 +> rSlots rFunction s.functions +> rLit ['}'] +>
  rOptAnns s.annotations +> rDefTail s.annotations false last

/-! ### items, file -/

def rTypedef (t : Typedef) (last : Bool) : R :=
  rLit cs!"typedef" +> rB1 +> rType t.ty +> rB1 +> rLit t.alias +> rOptAnns t.annotations +>
  rDefTail t.annotations true last

def rConstant (c : Constant) (last : Bool) : R :=
  rLit cs!"const" +> rB1 +> rType c.ty +> rB1 +> rLit c.name +> rB0 +> rLit ['='] +> rB0 +> rConst c.value +>
  rOptAnns c.annotations +> rDefTail c.annotations c.value.endsOpen last

def rNamespace (n : Namespace) (last : Bool) : R :=
  rLit cs!"namespace" +> rB1 +> rLit n.scope +> rB1 +> rPath n.name +>
  (match n.annotations with
   | none => rLit []
   | some as => rOptAnns as) +>
  rTail (n.annotations.isNone) last

def rItem (it : Item) (last : Bool) : R :=
  match it with
  | .include p => rLit cs!"include" +> rB1 +> rLiteral p +> rTailAdj false last
  | .cppInclude p => rLit cs!"cpp_include" +> rB1 +> rLiteral p +> rTailAdj false last
  | .namespace n => rNamespace n last
  | .typedef t => rTypedef t last
  | .constant c => rConstant c last
  | .enum e => rEnum e +> rB0
  | .struct s => rLit cs!"struct" +> rB1 +> rStructLike s last
  | .union s => rLit cs!"union" +> rB1 +> rStructLike s last
  | .exception s => rLit cs!"exception" +> rB1 +> rStructLike s last
  | .service s => rService s last

/-- the document: `[blank] (item [separator] blank)*`; for an empty declaration list a blank only. -/
def rFile (f : File) : R := rB0 +> rSlots rItem f.items

def render (l : Layout) (f : File) : List Char := (rFile f l).1

end Pilota.Idl
