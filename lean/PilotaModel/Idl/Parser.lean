import PilotaModel.Idl.Nom
import PilotaModel.Idl.Ast
import PilotaModel.Idl.UnicodeTable
/-
  pilota-thrift-parser/src/parser/*.rs — one definition per `impl Parser`, same combinator
  structure and the same order of `alt` arms as the Rust.  `map(tuple((p1, …, pn)), f)` is written
  as the chain `andThen p1 fun x1 => … andThen pn fun xn => ret (f …)`.

  The budget `d` is the number of nested *recursive* frames still allowed:
  `Ty::parse` (through list / set / map) and `ConstValue::parse` (through list / map literals) take
  one unit per frame; the number parsers do not recurse (fix 4f1981f: at most one sign).
  `File.parse` starts
  with `input.length + 2`, which `Lemmas/IdlTotal.lean` shows is never exhausted.
-/
namespace Pilota.Idl

/-! ### character classes -/

/-- `c.is_ascii_alphabetic() || c == '_'` -/
def isIdentStart (c : Char) : Bool := c.isAlpha || c == '_'
/-- `c.is_ascii_alphanumeric() || c == '_'` -/
def isIdentChar (c : Char) : Bool := c.isAlphanum || c == '_'

/-- binary search in the generated range table. -/
def inRangesGo (tbl : Array (Nat × Nat)) (n : Nat) : Nat → Nat → Nat → Bool
  | 0, _, _ => false
  | f + 1, lo, hi =>
    if lo ≥ hi then false
    else
      let mid := (lo + hi) / 2
      let ab := tbl.getD mid (0, 0)
      if n < ab.1 then inRangesGo tbl n f lo mid
      else if n > ab.2 then inRangesGo tbl n f (mid + 1) hi
      else true

/-- Rust `char::is_alphanumeric` (Unicode `Alphabetic` or `N*`): ASCII directly, the rest from the
table generated from the toolchain (`Idl/UnicodeTable.lean`). -/
def isAlnumU (c : Char) : Bool :=
  if c.toNat < 128 then c.isAlphanum else inRangesGo alnumRanges c.toNat 40 0 alnumRanges.size

/-! ### mod.rs -/

/-- `comment` -/
def comment : P (List Char) := alt [
  skip (tag cs!"//") (takeTill (fun c => c == '\n')),
  skip (tag cs!"/*") (terminated (takeUntil cs!"*/") (tag cs!"*/")),
  skip (tag cs!"#") (takeTill (fun c => c == '\n'))]

/-- `blank` = `map(many1(alt((comment, multispace1))), |_| ())` -/
def blank : P Unit := pmap (fun _ => ()) (many1 (alt [comment, multispace1]))

/-- `list_separator` = `map(tuple((one_of(",;"), opt(blank))), |(sep, _)| sep)` -/
def listSeparator : P Char :=
  andThen (oneOf [',', ';']) fun sep => andThen (opt blank) fun _ => ret sep

/-- `alphanumeric_or_underscore` (Unicode `is_alphanumeric`) -/
def alnumOrUnderscore : P Char := satisfy (fun c => isAlnumU c || c == '_')

/-- `tuple((tag(t), peek(not(alphanumeric_or_underscore))))` mapped to a constant. -/
def keyword {α} (t : List Char) (v : α) : P α :=
  andThen (tag t) fun _ => andThen (peek (pnot alnumOrUnderscore)) fun _ => ret v

/-! ### identifier.rs -/

def Ident.parse : P Ident :=
  recognize (andThen (satisfy isIdentStart) fun _ => takeWhile isIdentChar)

/-- `impl Parser for Path` (mod.rs) -/
def Path.parse : P Path :=
  pmap Path.mk
    (separatedList1 (andThen (opt blank) fun _ => andThen (tag ['.']) fun _ => opt blank) Ident.parse)

/-! ### literal.rs -/

/-- `gen_parse_quote!`: `delimited(tag(q), alt((escaped(none_of("\\q"), '\\', one_of("'\"n\\")), tag(""))), tag(q))` -/
def quoted (q : Char) : P (List Char) :=
  andThen (tag [q]) fun _ =>
    terminated (alt [escaped (noneOf ['\\', q]) '\\' (oneOf ['\'', '"', 'n', '\\']), tag []]) (tag [q])

def Literal.parse : P Literal := alt [quoted '\'', quoted '"']

/-! ### annotation.rs -/

def annKey : P (List Char) :=
  recognize (andThen (satisfy isIdentStart) fun _ => takeWhile (fun c => isIdentChar c || c == '.'))

def annotation : P Annotation :=
  andThen (opt blank) fun _ =>
  andThen annKey fun k =>
  andThen (opt blank) fun _ =>
  andThen (tag ['=']) fun _ =>
  andThen (opt blank) fun _ =>
  andThen Literal.parse fun lit =>
  andThen (opt blank) fun _ =>
  andThen (opt listSeparator) fun _ =>
  ret { key := k, value := lit }

def Annotations.parse : P Annotations :=
  andThen (tag ['(']) fun _ =>
  andThen (many1 annotation) fun anns =>
  andThen (tag [')']) fun _ =>
  ret anns

/-! ### ty.rs -/

/-- `impl Parser for Type`, over the `Ty` parser of the current budget. -/
def typeParse (ty : P Ty) : P TypeA :=
  andThen ty fun t =>
  andThen (opt (pmap (fun x => x.2) (permutation2 (opt blank) Annotations.parse))) fun an =>
  ret (TypeA.mk t (an.getD []))

def CppType.parse : P CppType :=
  andThen (tag cs!"cpp_type") fun _ => andThen blank fun _ => andThen Literal.parse fun l => ret l

def Ty.parse : Nat → P Ty
  | 0 => fun _ => .fuel
  | d + 1 => alt [
      keyword cs!"string" Ty.string,
      keyword cs!"void" Ty.void,
      keyword cs!"byte" Ty.byte,
      keyword cs!"bool" Ty.bool,
      keyword cs!"binary" Ty.binary,
      keyword cs!"i8" Ty.i8,
      keyword cs!"i16" Ty.i16,
      keyword cs!"i32" Ty.i32,
      keyword cs!"i64" Ty.i64,
      keyword cs!"double" Ty.double,
      keyword cs!"uuid" Ty.uuid,
      (andThen (tag cs!"list") fun _ =>
       andThen (opt blank) fun _ =>
       andThen (tag ['<']) fun _ =>
       andThen (opt blank) fun _ =>
       andThen (typeParse (Ty.parse d)) fun inner =>
       andThen (opt blank) fun _ =>
       andThen (tag ['>']) fun _ =>
       andThen (opt (skip blank CppType.parse)) fun cpp =>
       ret (Ty.list inner cpp)),
      (andThen (tag cs!"set") fun _ =>
       andThen (opt (skip blank CppType.parse)) fun cpp =>
       andThen (opt blank) fun _ =>
       andThen (tag ['<']) fun _ =>
       andThen (opt blank) fun _ =>
       andThen (typeParse (Ty.parse d)) fun inner =>
       andThen (opt blank) fun _ =>
       andThen (tag ['>']) fun _ =>
       ret (Ty.set inner cpp)),
      (andThen (tag cs!"map") fun _ =>
       andThen (opt (skip blank CppType.parse)) fun cpp =>
       andThen (opt blank) fun _ =>
       andThen (tag ['<']) fun _ =>
       andThen (opt blank) fun _ =>
       andThen (typeParse (Ty.parse d)) fun k =>
       andThen (opt blank) fun _ =>
       andThen listSeparator fun _ =>
       andThen (opt blank) fun _ =>
       andThen (typeParse (Ty.parse d)) fun v =>
       andThen (opt blank) fun _ =>
       andThen (tag ['>']) fun _ =>
       ret (Ty.map k v cpp)),
      pmap Ty.path Path.parse]

def Type.parse (d : Nat) : P TypeA := typeParse (Ty.parse d)

/-! ### constant.rs -/

def i64Max : Int := 9223372036854775807
def i64Min : Int := -9223372036854775808
def i32Max : Int := 2147483647

def digitVal (c : Char) : Nat := c.toNat - 48
def hexDigitVal (c : Char) : Nat :=
  if c.toNat ≥ 97 then c.toNat - 87 else if c.toNat ≥ 65 then c.toNat - 55 else c.toNat - 48
def decVal (ds : List Char) : Nat := ds.foldl (fun n c => n * 10 + digitVal c) 0
def hexVal (ds : List Char) : Nat := ds.foldl (fun n c => n * 16 + hexDigitVal c) 0

/-- `i64::from_str` on a run of decimal digits -/
def parseI64Dec (ds : List Char) : Option Int :=
  if (decVal ds : Int) ≤ i64Max then some (decVal ds) else none
/-- `i64::from_str_radix(_, 16)` on a run of hex digits -/
def parseI64Hex (ds : List Char) : Option Int :=
  if (hexVal ds : Int) ≤ i64Max then some (hexVal ds) else none
/-- `str::parse::<i32>` on a run of decimal digits (field id) -/
def parseI32Dec (ds : List Char) : Option Int :=
  if (decVal ds : Int) ≤ i32Max then some (decVal ds) else none

/-- `IntConstant(-d.0)`: overflow check of the debug build. -/
def negI64 (v : Int) : Except String Int :=
  if v = i64Min then .error "IntConstant::parse: -d.0 overflows i64" else .ok (-v)

/-- the local `fn unsigned` of `IntConstant::parse`: `0x` hex digits, or decimal digits -/
def IntConstant.unsigned : P Int := alt [
  skip (tag cs!"0x") (mapRes hexDigit1 parseI64Hex),
  mapRes digit1 parseI64Dec]

/-- at most one sign (constant.rs: `alt((preceded(tag("-"), map(unsigned, |d| IntConstant(-d.0))), unsigned))`) -/
def IntConstant.parse : P Int := alt [
  skip (tag ['-']) (pmapChecked negI64 IntConstant.unsigned),
  IntConstant.unsigned]

/-- `tuple((tag_no_case("e"), IntConstant::parse))` -/
def exponent : P Unit :=
  andThen (tagNoCase ['e']) fun _ => andThen IntConstant.parse fun _ => ret ()

def DoubleConstant.parse : P Str :=
  mapRes
    (recognize (
      andThen (opt (tag ['-'])) fun _ =>
      andThen (opt (tag ['+'])) fun _ =>
      alt [
        (andThen digit1 fun _ => andThen (tag ['.']) fun _ =>
         andThen (opt digit1) fun _ => andThen (opt exponent) fun _ => ret ()),
        (andThen (opt digit1) fun _ => andThen (tag ['.']) fun _ =>
         andThen digit1 fun _ => andThen (opt exponent) fun _ => ret ()),
        (andThen digit1 fun _ => andThen (tagNoCase ['e']) fun _ =>
         andThen IntConstant.parse fun _ => ret ())]))
    (fun t => some t)

def ConstValue.parse : Nat → P ConstValue
  | 0 => fun _ => .fuel
  | d + 1 => alt [
      pmap ConstValue.string Literal.parse,
      keyword cs!"true" (ConstValue.bool true),
      keyword cs!"false" (ConstValue.bool false),
      pmap ConstValue.path Path.parse,
      pmap ConstValue.double DoubleConstant.parse,
      pmap ConstValue.int IntConstant.parse,
      (andThen (tag ['[']) fun _ =>
       andThen (many0 (
         andThen (opt blank) fun _ =>
         andThen (ConstValue.parse d) fun e =>
         andThen (opt blank) fun _ =>
         andThen (opt listSeparator) fun _ =>
         ret e)) fun elements =>
       andThen (opt blank) fun _ =>
       andThen (tag [']']) fun _ =>
       ret (ConstValue.list elements)),
      (andThen (tag ['{']) fun _ =>
       andThen (many0 (
         andThen (opt blank) fun _ =>
         andThen (ConstValue.parse d) fun k =>
         andThen (opt blank) fun _ =>
         andThen (tag [':']) fun _ =>
         andThen (opt blank) fun _ =>
         andThen (ConstValue.parse d) fun v =>
         andThen (opt blank) fun _ =>
         andThen (opt listSeparator) fun _ =>
         ret (k, v))) fun kvs =>
       andThen (opt blank) fun _ =>
       andThen (tag ['}']) fun _ =>
       ret (ConstValue.map kvs))]

def Constant.parse (d : Nat) : P Constant :=
  andThen (tag cs!"const") fun _ =>
  andThen (skip blank (Type.parse d)) fun ty =>
  andThen (skip blank Ident.parse) fun name =>
  andThen (skip (opt blank) (tag ['='])) fun _ =>
  andThen (skip (opt blank) (ConstValue.parse d)) fun value =>
  andThen (opt blank) fun _ =>
  andThen (opt Annotations.parse) fun anns =>
  andThen (opt listSeparator) fun _ =>
  ret { name := name, ty := ty, value := value, annotations := anns.getD [] }

/-! ### field.rs -/

def Attribute.parse : P Attribute := alt [
  keyword cs!"required" Attribute.required,
  keyword cs!"optional" Attribute.optional]

def Field.parse (d : Nat) : P Field :=
  andThen (mapRes (andThen digit1 fun id => andThen (opt blank) fun _ => andThen (tag [':']) fun _ => ret id)
            parseI32Dec) fun id =>
  andThen (opt blank) fun _ =>
  andThen (opt Attribute.parse) fun attr =>
  andThen (opt blank) fun _ =>
  andThen (Type.parse d) fun ty =>
  andThen (opt blank) fun _ =>
  andThen Ident.parse fun name =>
  andThen (opt blank) fun _ =>
  andThen (opt (andThen (tag ['=']) fun _ => andThen (opt blank) fun _ => ConstValue.parse d)) fun dflt =>
  andThen (opt blank) fun _ =>
  andThen (opt Annotations.parse) fun anns =>
  andThen (opt blank) fun _ =>
  andThen (opt listSeparator) fun _ =>
  ret { id := id, name := name, attr := attr.getD Attribute.default, ty := ty, dflt := dflt,
        annotations := anns.getD [] }

/-! ### struct_.rs -/

def StructLike.parse (d : Nat) : P StructLike :=
  andThen Ident.parse fun name =>
  andThen (opt blank) fun _ =>
  andThen (tag ['{']) fun _ =>
  andThen (many0 (skip (opt blank) (Field.parse d))) fun fields =>
  andThen (opt blank) fun _ =>
  andThen (tag ['}']) fun _ =>
  andThen (opt blank) fun _ =>
  andThen (opt Annotations.parse) fun anns =>
  andThen (opt listSeparator) fun _ =>
  ret { name := name, fields := fields, annotations := anns.getD [] }

def Struct.parse (d : Nat) : P StructLike :=
  andThen (tag cs!"struct") fun _ => andThen blank fun _ => StructLike.parse d
def Union.parse (d : Nat) : P StructLike :=
  andThen (tag cs!"union") fun _ => andThen blank fun _ => StructLike.parse d
def Exception.parse (d : Nat) : P StructLike :=
  andThen (tag cs!"exception") fun _ => andThen blank fun _ => StructLike.parse d

/-! ### enum_.rs -/

def EnumValue.parse : P EnumValue :=
  andThen Ident.parse fun name =>
  andThen (opt blank) fun _ =>
  andThen (opt (andThen (tag ['=']) fun _ => andThen (opt blank) fun _ => IntConstant.parse)) fun value =>
  andThen (opt blank) fun _ =>
  andThen (opt Annotations.parse) fun anns =>
  andThen (opt listSeparator) fun _ =>
  andThen (opt blank) fun _ =>
  ret { name := name, value := value, annotations := anns.getD [] }

def Enum.parse : P Enum :=
  andThen (tag cs!"enum") fun _ =>
  andThen blank fun _ =>
  andThen Ident.parse fun name =>
  andThen (opt blank) fun _ =>
  andThen (tag ['{']) fun _ =>
  andThen (opt blank) fun _ =>
  andThen (many0 EnumValue.parse) fun values =>
  andThen (opt blank) fun _ =>
  andThen (tag ['}']) fun _ =>
  andThen (opt blank) fun _ =>
  andThen (opt Annotations.parse) fun anns =>
  ret { name := name, values := values, annotations := anns.getD [] }

/-! ### function.rs, service.rs -/

/-- `args.iter_mut().for_each(|f| if f.attribute == Default { f.attribute = Required })` -/
def argRequired (f : Field) : Field :=
  match f.attr with
  | .default => { f with attr := .required }
  | _ => f

def Function.parse (d : Nat) : P Function :=
  andThen (pmap (fun x => x.isSome) (opt (andThen (tag cs!"oneway") fun _ => blank))) fun oneway =>
  andThen (Type.parse d) fun ty =>
  andThen blank fun _ =>
  andThen Ident.parse fun name =>
  andThen (opt blank) fun _ =>
  andThen (tag ['(']) fun _ =>
  andThen (opt (many1 (skip (opt blank) (Field.parse d)))) fun args =>
  andThen (opt blank) fun _ =>
  andThen (tag [')']) fun _ =>
  andThen (opt blank) fun _ =>
  andThen (opt (
    andThen (tag cs!"throws") fun _ =>
    andThen (opt blank) fun _ =>
    andThen (tag ['(']) fun _ =>
    andThen (many1 (skip (opt blank) (Field.parse d))) fun fields =>
    andThen (opt blank) fun _ =>
    andThen (tag [')']) fun _ =>
    ret fields)) fun throws =>
  andThen (opt blank) fun _ =>
  andThen (opt Annotations.parse) fun anns =>
  andThen (opt listSeparator) fun _ =>
  ret { name := name, oneway := oneway, resultType := ty,
        arguments := (args.getD []).map argRequired,
        throws := throws.getD [], annotations := anns.getD [] }

def Service.parse (d : Nat) : P Service :=
  andThen (tag cs!"service") fun _ =>
  andThen blank fun _ =>
  andThen Ident.parse fun name =>
  andThen (opt (
    andThen blank fun _ => andThen (tag cs!"extends") fun _ => andThen blank fun _ => Path.parse)) fun ext =>
  andThen (opt blank) fun _ =>
  andThen (tag ['{']) fun _ =>
  andThen (many0 (skip (opt blank) (Function.parse d))) fun functions =>
  andThen (opt blank) fun _ =>
  andThen (tag ['}']) fun _ =>
  andThen (opt blank) fun _ =>
  andThen (opt Annotations.parse) fun anns =>
  andThen (opt listSeparator) fun _ =>
  ret { name := name, ext := ext, functions := functions, annotations := anns.getD [] }

/-! ### typedef.rs, namespace.rs, include.rs -/

def Typedef.parse (d : Nat) : P Typedef :=
  andThen (tag cs!"typedef") fun _ =>
  andThen blank fun _ =>
  andThen (Type.parse d) fun ty =>
  andThen blank fun _ =>
  andThen Ident.parse fun alias =>
  andThen (opt blank) fun _ =>
  andThen (opt Annotations.parse) fun anns =>
  andThen (opt listSeparator) fun _ =>
  ret { ty := ty, alias := alias, annotations := anns.getD [] }

/-- the `alt` of `impl Parser for Scope`, in source order (`py.twisted` before `py`). -/
def scopeTags : List (List Char) := [
  cs!"*", cs!"c_glib", cs!"cpp", cs!"delphi", cs!"haxe", cs!"go", cs!"java", cs!"js", cs!"lua",
  cs!"netstd", cs!"perl", cs!"php", cs!"py.twisted", cs!"py", cs!"rb", cs!"st", cs!"xsd", cs!"rs"]

def Scope.parse : P Str := alt (scopeTags.map tag)

def Namespace.parse : P Namespace :=
  andThen (tag cs!"namespace") fun _ =>
  andThen (skip blank Scope.parse) fun scope =>
  andThen (skip blank Path.parse) fun name =>
  andThen (opt blank) fun _ =>
  andThen (opt Annotations.parse) fun anns =>
  andThen (opt blank) fun _ =>
  andThen (opt listSeparator) fun _ =>
  ret { scope := scope, name := name, annotations := anns }

def Include.parse : P Literal :=
  andThen (tag cs!"include") fun _ => andThen blank fun _ => andThen Literal.parse fun path =>
  andThen (opt listSeparator) fun _ => ret path

def CppInclude.parse : P Literal :=
  andThen (tag cs!"cpp_include") fun _ => andThen blank fun _ => andThen Literal.parse fun path =>
  andThen (opt listSeparator) fun _ => ret path

/-! ### thrift.rs -/

/-- `peek(recognize(tuple((satisfy(is_ascii_alphabetic), take_while(alnum or '_')))))` -/
def itemKeyword : P (List Char) :=
  peek (recognize (andThen (satisfy (fun c => c.isAlpha)) fun _ => takeWhile isIdentChar))

def Item.parse (d : Nat) : P Item :=
  andThen itemKeyword fun kw =>
    if kw = cs!"include" then pmap Item.include Include.parse
    else if kw = cs!"cpp_include" then pmap Item.cppInclude CppInclude.parse
    else if kw = cs!"namespace" then pmap Item.namespace Namespace.parse
    else if kw = cs!"typedef" then pmap Item.typedef (Typedef.parse d)
    else if kw = cs!"const" then pmap Item.constant (Constant.parse d)
    else if kw = cs!"enum" then pmap Item.enum Enum.parse
    else if kw = cs!"struct" then pmap Item.struct (Struct.parse d)
    else if kw = cs!"union" then pmap Item.union (Union.parse d)
    else if kw = cs!"exception" then pmap Item.exception (Exception.parse d)
    else if kw = cs!"service" then pmap Item.service (Service.parse d)
    else fun _ => .fail

/-- `items.iter().filter_map(namespace).find_map(|n| (n.scope.0 == "rs").then(|| n.name.clone()))` -/
def packageOf : List Item → Option Path
  | [] => none
  | .namespace n :: rest => if n.scope = cs!"rs" then some n.name else packageOf rest
  | _ :: rest => packageOf rest

def File.parseD (d : Nat) : P File :=
  /- `let (input, _) = opt(blank)(input)?;` (fix 00dcdf5: a document may consist of blanks alone) -/
  andThen (opt blank) fun _ =>
  pmap (fun x => { package := packageOf x.1, items := x.1 })
    (manyTill (andThen (opt blank) fun _ => andThen (Item.parse d) fun item => andThen (opt blank) fun _ => ret item) eof)

/-- `File::parse`. -/
def File.parse : P File := fun s => File.parseD (s.length + 2) s

end Pilota.Idl
