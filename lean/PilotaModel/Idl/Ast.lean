/-
  The descriptor AST of pilota-thrift-parser (src/descriptor/*.rs).
  `Arc<str>` / `String` are `List Char`; `i64` / `i32` are `Int` with the range stated where it
  matters.  `File.path` (always `Default` after `File::parse`) is omitted.
-/
namespace Pilota.Idl

abbrev Str := List Char

/-- `Ident(Arc<str>)` -/
abbrev Ident := Str
/-- `Path { segments }` -/
structure Path where
  segments : List Ident
  deriving DecidableEq, Repr

/-- `Literal(String)`: the RAW text between the quotes (escapes are not resolved). -/
abbrev Literal := Str

structure Annotation where
  key : Str
  value : Literal
  deriving DecidableEq, Repr

/-- `Annotations(Vec<Annotation>)` -/
abbrev Annotations := List Annotation

/-- `CppType(Literal)` -/
abbrev CppType := Literal

mutual
/-- `Type(Ty, Annotations)` -/
inductive Ty where
  | string | void | byte | bool | binary | i8 | i16 | i32 | i64 | double | uuid
  | list (value : TypeA) (cpp : Option CppType)
  | set (value : TypeA) (cpp : Option CppType)
  | map (key value : TypeA) (cpp : Option CppType)
  | path (p : Path)
inductive TypeA where
  | mk (ty : Ty) (anns : Annotations)
end

/-- `ConstValue`; `Int(IntConstant(i64))`, `Double(DoubleConstant(Arc<str>))` keeps the source text. -/
inductive ConstValue where
  | bool (b : Bool)
  | path (p : Path)
  | string (l : Literal)
  | int (n : Int)
  | double (text : Str)
  | list (xs : List ConstValue)
  | map (kvs : List (ConstValue × ConstValue))

inductive Attribute where
  | optional | required | default
  deriving DecidableEq, Repr

structure Field where
  id : Int
  name : Ident
  attr : Attribute
  ty : TypeA
  dflt : Option ConstValue
  annotations : Annotations

structure Constant where
  name : Ident
  ty : TypeA
  value : ConstValue
  annotations : Annotations

structure EnumValue where
  name : Ident
  value : Option Int
  annotations : Annotations

structure Enum where
  name : Ident
  values : List EnumValue
  annotations : Annotations

structure StructLike where
  name : Ident
  fields : List Field
  annotations : Annotations

structure Function where
  name : Ident
  oneway : Bool
  resultType : TypeA
  arguments : List Field
  throws : List Field
  annotations : Annotations

structure Service where
  name : Ident
  ext : Option Path
  functions : List Function
  annotations : Annotations

structure Typedef where
  ty : TypeA
  alias : Ident
  annotations : Annotations

/-- `Namespace { scope: Scope(String), name, annotations: Option<Annotations> }` -/
structure Namespace where
  scope : Str
  name : Path
  annotations : Option Annotations

inductive Item where
  | include (path : Literal)
  | cppInclude (path : Literal)
  | namespace (n : Namespace)
  | typedef (t : Typedef)
  | constant (c : Constant)
  | enum (e : Enum)
  | struct (s : StructLike)
  | union (s : StructLike)
  | exception (s : StructLike)
  | service (s : Service)

/-- `File { package, items }` -/
structure File where
  package : Option Path
  items : List Item

end Pilota.Idl
