import PilotaModel.Thrift.Binary
import PilotaModel.Thrift.Compact
import PilotaModel.Thrift.Skip
/-
  The `TInputProtocol` surface an emitted decoder uses, as a record of functions over an
  abstract reader state, and its two instances (binary / LE: the remaining bytes;
  compact: reader state × remaining bytes).  `skip` is the protocol's own skipper (models in Thrift/Skip.lean).
-/
namespace Pilota.TGen
open Pilota Pilota.Thrift

structure Rd (σ : Type) where
  remaining : σ → Nat
  structBegin : σ → σ
  structEnd : σ → Out σ
  fieldBegin : σ → Out ((TType × Int) × σ)
  readBool : σ → Out (Bool × σ)
  readI8 : σ → Out (Int × σ)
  readI16 : σ → Out (Int × σ)
  readI32 : σ → Out (Int × σ)
  readI64 : σ → Out (Int × σ)
  readDouble : σ → Out (Nat × σ)
  readBytes : σ → Out (Bytes × σ)
  readUuid : σ → Out (Bytes × σ)
  listBegin : σ → Out ((TType × Nat) × σ)
  mapBegin : σ → Out ((TType × TType × Nat) × σ)
  /-- `skip(ttype)` with the default depth budget -/
  skip : TType → σ → Out σ

def mapOut {α β} (f : α → β) : Out α → Out β
  | .ok a => .ok (f a) | .err k => .err k | .panic m => .panic m | .fuel => .fuel

def skipDepth : Nat := 64

/-- binary / LE; `depth := none` is the unchecked codec's iterative skipper (no depth limit). -/
def binRd (e : Endian) (depth : Option Nat) : Rd Bytes where
  remaining := List.length
  structBegin := id
  structEnd := .ok
  fieldBegin := Binary.readFieldBegin e
  readBool bs := mapOut (fun x => (x.1 != 0, x.2)) (Binary.readI e 1 bs)
  readI8 := Binary.readI e 1
  readI16 := Binary.readI e 2
  readI32 := Binary.readI e 4
  readI64 := Binary.readI e 8
  readDouble := Binary.readU e 8
  readBytes := Binary.readBytes e
  readUuid := Binary.takeN 16
  listBegin := Binary.readListBegin e
  mapBegin := Binary.readMapBegin e
  skip t bs := match depth with
    | some dpt => mapOut (·.2) (Skip.skip e (dpt : Int) t bs)          -- TInputProtocol::skip_till_depth (thrift/mod.rs)
    | none => mapOut (·.2) (Skip.iterSkip t bs)                         -- the unchecked reader's iterative skipper

def cmpRd : Rd (Compact.CR × Bytes) where
  remaining s := s.2.length
  structBegin s := (Compact.readStructBegin s.1, s.2)
  structEnd s := mapOut (fun c => (c, s.2)) (Compact.readStructEnd s.1)
  fieldBegin s := mapOut (fun x => (x.1, x.2.1, x.2.2)) (Compact.readFieldBegin s.1 s.2)
  readBool s := mapOut (fun x => (x.1, x.2.1, x.2.2)) (Compact.readBool s.1 s.2)
  readI8 s := mapOut (fun x => (x.1, s.1, x.2)) (Binary.readI .be 1 s.2)
  readI16 s := mapOut (fun x => (x.1, s.1, x.2)) (readVarS 2 s.2)
  readI32 s := mapOut (fun x => (x.1, s.1, x.2)) (readVarS 4 s.2)
  readI64 s := mapOut (fun x => (x.1, s.1, x.2)) (readVarS 8 s.2)
  readDouble s := mapOut (fun x => (x.1, s.1, x.2)) (Binary.readU .le 8 s.2)
  readBytes s := mapOut (fun x => (x.1, s.1, x.2)) (Compact.readBytes s.2)
  readUuid s := mapOut (fun x => (x.1, s.1, x.2)) (Binary.takeN 16 s.2)
  listBegin s := mapOut (fun x => (x.1, s.1, x.2)) (Compact.readCollBegin s.2)
  mapBegin s := mapOut (fun x => (x.1, s.1, x.2)) (Compact.readMapBegin s.2)
  skip t s := mapOut (fun x => (x.2.1, x.2.2)) (Skip.cskip (skipDepth : Int) t s.1 s.2)   -- TCompactInputProtocol::skip_till_depth

end Pilota.TGen
