import PilotaModel.Thrift.Binary
import PilotaModel.Thrift.Compact
/-
  The `TInputProtocol` surface an emitted decoder uses, as a record of functions over an
  abstract reader state, and its two instances (binary / LE: the remaining bytes;
  compact: reader state × remaining bytes).  `skip` is the protocol's own skipper.
-/
namespace Pilota.TGen
open Pilota Pilota.Thrift

structure Rd (σ : Type) where
  remaining : σ → Nat
  structBegin : σ → σ
  structEnd : σ → Out σ
  fieldBegin : σ → Out ((TType × Int) × σ)
  readBool : σ → Out (Bool × σ)
  readI8 : σ → Out (Int × σ)
  readI16 : σ → Out (Int × σ)
  readI32 : σ → Out (Int × σ)
  readI64 : σ → Out (Int × σ)
  readDouble : σ → Out (Nat × σ)
  readBytes : σ → Out (Bytes × σ)
  readUuid : σ → Out (Bytes × σ)
  listBegin : σ → Out ((TType × Nat) × σ)
  mapBegin : σ → Out ((TType × TType × Nat) × σ)
  /-- `skip(ttype)` with the default depth budget -/
  skip : TType → σ → Out σ

def mapOut {α β} (f : α → β) : Out α → Out β
  | .ok a => .ok (f a) | .err k => .err k | .panic m => .panic m | .fuel => .fuel

/-! ### the default recursive skipper of `TInputProtocol` (thrift/mod.rs), binary widths -/

mutual
def skipBin (e : Endian) : Nat → Option Nat → TType → Bytes → Out Bytes
  | 0, _, _, _ => .fuel
  | _, some 0, _, _ => .err .depth
  | f+1, d, t, bs =>
    let d' := d.map (· - 1)
    match t with
    | .bool | .i8 => mapOut (·.2) (Binary.takeN 1 bs)
    | .i16 => mapOut (·.2) (Binary.takeN 2 bs)
    | .i32 => mapOut (·.2) (Binary.takeN 4 bs)
    | .i64 | .double => mapOut (·.2) (Binary.takeN 8 bs)
    | .uuid => mapOut (·.2) (Binary.takeN 16 bs)
    | .binary => match Binary.readI e 4 bs with
      | .ok (len, r) => mapOut (·.2) (Binary.takeN (Binary.asUsize len) r)
      | .err k => .err k | .panic m => .panic m | .fuel => .fuel
    | .struct => skipBinFields e f d' bs
    | .list | .set => match Binary.readListBegin e bs with
      | .ok ((et, n), r) => skipBinN e f d' et n r
      | .err k => .err k | .panic m => .panic m | .fuel => .fuel
    | .map => match Binary.readMapBegin e bs with
      | .ok ((kt, vt, n), r) => skipBinPairs e f d' kt vt n r
      | .err k => .err k | .panic m => .panic m | .fuel => .fuel
    | .stop | .void => .err .depth      -- "cannot skip field type" is reported as DepthLimit
def skipBinFields (e : Endian) : Nat → Option Nat → Bytes → Out Bytes
  | 0, _, _ => .fuel
  | f+1, d, bs => match Binary.readFieldBegin e bs with
    | .ok ((t, _), r) =>
      if t = .stop then .ok r
      else match skipBin e f d t r with
        | .ok r => skipBinFields e f d r
        | .err k => .err k | .panic m => .panic m | .fuel => .fuel
    | .err k => .err k | .panic m => .panic m | .fuel => .fuel
def skipBinN (e : Endian) : Nat → Option Nat → TType → Nat → Bytes → Out Bytes
  | 0, _, _, _, _ => .fuel
  | _+1, _, _, 0, bs => .ok bs
  | f+1, d, et, n+1, bs => match skipBin e f d et bs with
    | .ok r => skipBinN e f d et n r
    | .err k => .err k | .panic m => .panic m | .fuel => .fuel
def skipBinPairs (e : Endian) : Nat → Option Nat → TType → TType → Nat → Bytes → Out Bytes
  | 0, _, _, _, _, _ => .fuel
  | _+1, _, _, _, 0, bs => .ok bs
  | f+1, d, kt, vt, n+1, bs => match skipBin e f d kt bs with
    | .ok r => match skipBin e f d vt r with
      | .ok r => skipBinPairs e f d kt vt n r
      | .err k => .err k | .panic m => .panic m | .fuel => .fuel
    | .err k => .err k | .panic m => .panic m | .fuel => .fuel
end

-- compact: `TCompactInputProtocol::skip_till_depth` reads and discards.
mutual
def skipCmp : Nat → Nat → TType → Compact.CR → Bytes → Out (Compact.CR × Bytes)
  | 0, _, _, _, _ => .fuel
  | _, 0, _, _, _ => .err .depth
  | f+1, d+1, t, s, bs =>
    match t with
    | .bool => mapOut (·.2) (Compact.readBool s bs)
    | .i8 => mapOut (fun x => (s, x.2)) (Binary.readI .be 1 bs)
    | .i16 => mapOut (fun x => (s, x.2)) (readVarS 2 bs)
    | .i32 => mapOut (fun x => (s, x.2)) (readVarS 4 bs)
    | .i64 => mapOut (fun x => (s, x.2)) (readVarS 8 bs)
    | .double => mapOut (fun x => (s, x.2)) (Binary.takeN 8 bs)
    | .binary => mapOut (fun x => (s, x.2)) (Compact.readBytes bs)
    | .uuid => mapOut (fun x => (s, x.2)) (Binary.takeN 16 bs)
    | .struct => match skipCmpFields f d (Compact.readStructBegin s) bs with
      | .ok (s, r) => mapOut (fun s => (s, r)) (Compact.readStructEnd s)
      | .err k => .err k | .panic m => .panic m | .fuel => .fuel
    | .list | .set => match Compact.readCollBegin bs with
      | .ok ((et, n), r) => skipCmpN f d et n s r
      | .err k => .err k | .panic m => .panic m | .fuel => .fuel
    | .map => match Compact.readMapBegin bs with
      | .ok ((kt, vt, n), r) => skipCmpPairs f d kt vt n s r
      | .err k => .err k | .panic m => .panic m | .fuel => .fuel
    | .stop | .void => .err .depth
def skipCmpFields : Nat → Nat → Compact.CR → Bytes → Out (Compact.CR × Bytes)
  | 0, _, _, _ => .fuel
  | f+1, d, s, bs => match Compact.readFieldBegin s bs with
    | .ok ((t, _), s, r) =>
      if t = .stop then .ok (s, r)
      else match skipCmp f d t s r with
        | .ok (s, r) => skipCmpFields f d s r
        | .err k => .err k | .panic m => .panic m | .fuel => .fuel
    | .err k => .err k | .panic m => .panic m | .fuel => .fuel
def skipCmpN : Nat → Nat → TType → Nat → Compact.CR → Bytes → Out (Compact.CR × Bytes)
  | 0, _, _, _, _, _ => .fuel
  | _+1, _, _, 0, s, bs => .ok (s, bs)
  | f+1, d, et, n+1, s, bs => match skipCmp f d et s bs with
    | .ok (s, r) => skipCmpN f d et n s r
    | .err k => .err k | .panic m => .panic m | .fuel => .fuel
def skipCmpPairs : Nat → Nat → TType → TType → Nat → Compact.CR → Bytes → Out (Compact.CR × Bytes)
  | 0, _, _, _, _, _, _ => .fuel
  | _+1, _, _, _, 0, s, bs => .ok (s, bs)
  | f+1, d, kt, vt, n+1, s, bs => match skipCmp f d kt s bs with
    | .ok (s, r) => match skipCmp f d vt s r with
      | .ok (s, r) => skipCmpPairs f d kt vt n s r
      | .err k => .err k | .panic m => .panic m | .fuel => .fuel
    | .err k => .err k | .panic m => .panic m | .fuel => .fuel
end

def skipDepth : Nat := 64

/-- binary / LE; `depth := none` is the unchecked codec's iterative skipper (no depth limit). -/
def binRd (e : Endian) (depth : Option Nat) : Rd Bytes where
  remaining := List.length
  structBegin := id
  structEnd := .ok
  fieldBegin := Binary.readFieldBegin e
  readBool bs := mapOut (fun x => (x.1 != 0, x.2)) (Binary.readI e 1 bs)
  readI8 := Binary.readI e 1
  readI16 := Binary.readI e 2
  readI32 := Binary.readI e 4
  readI64 := Binary.readI e 8
  readDouble := Binary.readU e 8
  readBytes := Binary.readBytes e
  readUuid := Binary.takeN 16
  listBegin := Binary.readListBegin e
  mapBegin := Binary.readMapBegin e
  skip t bs := skipBin e (3 * bs.length + 3) depth t bs

def cmpRd : Rd (Compact.CR × Bytes) where
  remaining s := s.2.length
  structBegin s := (Compact.readStructBegin s.1, s.2)
  structEnd s := mapOut (fun c => (c, s.2)) (Compact.readStructEnd s.1)
  fieldBegin s := mapOut (fun x => (x.1, x.2.1, x.2.2)) (Compact.readFieldBegin s.1 s.2)
  readBool s := mapOut (fun x => (x.1, x.2.1, x.2.2)) (Compact.readBool s.1 s.2)
  readI8 s := mapOut (fun x => (x.1, s.1, x.2)) (Binary.readI .be 1 s.2)
  readI16 s := mapOut (fun x => (x.1, s.1, x.2)) (readVarS 2 s.2)
  readI32 s := mapOut (fun x => (x.1, s.1, x.2)) (readVarS 4 s.2)
  readI64 s := mapOut (fun x => (x.1, s.1, x.2)) (readVarS 8 s.2)
  readDouble s := mapOut (fun x => (x.1, s.1, x.2)) (Binary.readU .le 8 s.2)
  readBytes s := mapOut (fun x => (x.1, s.1, x.2)) (Compact.readBytes s.2)
  readUuid s := mapOut (fun x => (x.1, s.1, x.2)) (Binary.takeN 16 s.2)
  listBegin s := mapOut (fun x => (x.1, s.1, x.2)) (Compact.readCollBegin s.2)
  mapBegin s := mapOut (fun x => (x.1, s.1, x.2)) (Compact.readMapBegin s.2)
  skip t s := skipCmp (3 * s.2.length + 3) skipDepth t s.1 s.2

end Pilota.TGen
