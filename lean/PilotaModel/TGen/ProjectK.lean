import PilotaModel.TGen.Keep
import PilotaModel.TGen.Project
/-
  Value-level shadow of the retention decoder `decTyK` (keep_unknown_fields, binary family): as `projTy`,
  but an unknown field of a struct is appended, as the value it encodes, to the retained list, which the
  struct carries after its known fields; a union turns a lone unknown field into its `_UnknownFields`
  variant and rejects one that follows (or is followed by) anything else (known finding D31).
  `none`: outside the domain of the correspondence (as for `projTy`).
-/
namespace Pilota.TGen
open Pilota Pilota.Thrift

section
variable (d : Doc) (dp : Option Nat)

mutual
def projTyK : Nat → STy → TVal → Option (Out TVal)
  | 0, _, _ => some .fuel
  | f+1, .list e, .list _ xs => match projNK f e xs [] with
    | some (.ok ys) => some (.ok (.list (d.ttype e) (TVals.ofList ys)))
    | some (.err k) => some (.err k) | some (.panic m) => some (.panic m) | some .fuel => some .fuel
    | none => none
  | f+1, .set e, .set _ xs => match projNK f e xs [] with
    | some (.ok ys) => some (.ok (.set (d.ttype e) (TVals.ofList (ys.foldl setInsert []))))
    | some (.err k) => some (.err k) | some (.panic m) => some (.panic m) | some .fuel => some .fuel
    | none => none
  | f+1, .map k v, .map _ _ kvs => match projPairsK f k v kvs [] with
    | some (.ok ys) => some (.ok (.map (d.ttype k) (d.ttype v) (TPairs.ofList (ys.foldl (fun a p => mapInsert a p.1 p.2) []))))
    | some (.err k) => some (.err k) | some (.panic m) => some (.panic m) | some .fuel => some .fuel
    | none => none
  | _+1, .list _, _ => none
  | _+1, .set _, _ => none
  | _+1, .map _ _, _ => none
  | f+1, .ref n, w => match d.find n with
    | some (.struct fs) => match w with
      | .struct wfs => match projFieldsK f fs [] [] wfs with
        | some (.ok (slots, unk)) => match finish fs slots with
          | .ok out => some (.ok (.struct (TFields.ofList (out ++ unk))))
          | .err k => some (.err k) | .panic m => some (.panic m) | .fuel => some .fuel
        | some (.err k) => some (.err k) | some (.panic m) => some (.panic m) | some .fuel => some .fuel
        | none => none
      | _ => none
    | some (.union vs) => match w with
      | .struct wfs => match projUnionK f vs none wfs with
        | some (.ok ret) => match ret with
          | some (id, v) => some (.ok (.struct (.cons id v .nil)))
          | none => match vs with
            | (_, .void) :: _ => some (.ok (.struct .nil))
            | _ => some (.err .invalid)
        | some (.err k) => some (.err k) | some (.panic m) => some (.panic m) | some .fuel => some .fuel
        | none => none
      | _ => none
    | some .enum => match w with
      | .i32 n => some (.ok (.i32 n))
      | _ => none
    | some (.typedef t) => projTyK f t w
    | none => some (.panic "unresolved type")
  | f+1, t, w => projTy d dp (f+1) t w          -- base types: as without retention
def projNK : Nat → STy → TVals → List TVal → Option (Out (List TVal))
  | 0, _, _, _ => some .fuel
  | _+1, _, .nil, acc => some (.ok acc.reverse)
  | f+1, e, .cons x xs, acc => match projTyK f e x with
    | some (.ok v) => projNK f e xs (v :: acc)
    | some (.err k) => some (.err k) | some (.panic m) => some (.panic m) | some .fuel => some .fuel
    | none => none
def projPairsK : Nat → STy → STy → TPairs → List (TVal × TVal) → Option (Out (List (TVal × TVal)))
  | 0, _, _, _, _ => some .fuel
  | _+1, _, _, .nil, acc => some (.ok acc.reverse)
  | f+1, k, v, .cons a b r, acc => match projTyK f k a with
    | some (.ok ka) => match projTyK f v b with
      | some (.ok vb) => projPairsK f k v r ((ka, vb) :: acc)
      | some (.err e) => some (.err e) | some (.panic m) => some (.panic m) | some .fuel => some .fuel
      | none => none
    | some (.err e) => some (.err e) | some (.panic m) => some (.panic m) | some .fuel => some .fuel
    | none => none
def projFieldsK : Nat → List Field → List (Int × TVal) → List (Int × TVal) → TFields → Option (Out (List (Int × TVal) × List (Int × TVal)))
  | 0, _, _, _, _ => some .fuel
  | _+1, _, slots, unk, .nil => some (.ok (slots, unk))
  | f+1, fs, slots, unk, .cons id v r =>
    if ¬ inS 2 id then none
    else match fs.find? (fun fl => fl.id == id && d.ttype fl.ty == v.ttype) with
      | some fl => match projTyK f fl.ty v with
        | some (.ok pv) => projFieldsK f fs (slotSet slots id pv) unk r
        | some (.err k) => some (.err k) | some (.panic m) => some (.panic m) | some .fuel => some .fuel
        | none => none
      | none => if admitsB dp v.need then projFieldsK f fs slots (unk ++ [(id, v)]) r else none
def projUnionK : Nat → List (Int × STy) → Option (Int × TVal) → TFields → Option (Out (Option (Int × TVal)))
  | 0, _, _, _ => some .fuel
  | _+1, _, ret, .nil => some (.ok ret)
  | f+1, vs, ret, .cons id v r =>
    if ¬ inS 2 id then none
    else match vs.find? (fun x => x.1 == id && !(x.2 == .void)) with
      | some (_, ty) =>
        if ret.isSome then some (.err .invalid)
        else if d.ttype ty != v.ttype then none
        else match projTyK f ty v with
          | some (.ok pv) => projUnionK f vs (some (id, pv)) r
          | some (.err k) => some (.err k) | some (.panic m) => some (.panic m) | some .fuel => some .fuel
          | none => none
      | none =>
        if admitsB dp v.need then
          (if ret.isSome then some (.err .invalid) else projUnionK f vs (some (id, v)) r)
        else none
end

end
end Pilota.TGen
