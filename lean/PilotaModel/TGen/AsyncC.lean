import PilotaModel.TGen.Decode
import PilotaModel.Thrift.Async
/-
  The emitted `decode_async` on the COMPACT async protocol as a resumable program: the decode template with every protocol
  call an `.await`, the reader's field-id / deferred-bool state threaded explicitly (`Compact.CR`).
-/
namespace Pilota.TGen
open Pilota Pilota.Thrift Pilota.Thrift.Async Pilota.Thrift.Compact

section
variable (d : Doc) (sf : Nat)

mutual
def adecTyC : Nat → STy → CR → Prog (TVal × CR)
  | 0, _, _ => .fuelOut
  | _+1, .bool, s => (ACmp.readBool s).bind fun p => .ret (.bool p.1, p.2)
  | _+1, .i8, s => (ABin.readI .be 1).bind fun n => .ret (.i8 n, s)
  | _+1, .i16, s => (ACmp.readVarS 2).bind fun n => .ret (.i16 n, s)
  | _+1, .i32, s => (ACmp.readVarS 4).bind fun n => .ret (.i32 n, s)
  | _+1, .i64, s => (ACmp.readVarS 8).bind fun n => .ret (.i64 n, s)
  | _+1, .double, s => (ABin.readU .le 8).bind fun n => .ret (.dbl n, s)
  | _+1, .string, s => ACmp.readBytes.bind fun b => .ret (.bin b, s)
  | _+1, .binary, s => ACmp.readBytes.bind fun b => .ret (.bin b, s)
  | _+1, .uuid, s => .need 16 (fun b => .ret (.uuid b, s))
  | f+1, .list el, s => ACmp.readCollBegin.bind fun p => (adecNC f el p.2 [] s).bind fun q =>
      .ret (.list (d.ttype el) (TVals.ofList q.1), q.2)
  | f+1, .set el, s => ACmp.readCollBegin.bind fun p => (adecNC f el p.2 [] s).bind fun q =>
      .ret (.set (d.ttype el) (TVals.ofList (q.1.foldl setInsert [])), q.2)
  | f+1, .map k v, s => ACmp.readMapBegin.bind fun p => (adecPairsC f k v p.2.2 [] s).bind fun q =>
      .ret (.map (d.ttype k) (d.ttype v) (TPairs.ofList (q.1.foldl (fun a p => mapInsert a p.1 p.2) [])), q.2)
  | f+1, .ref n, s => match d.find n with
    | some (.struct fs) => (adecFieldsC f fs [] (readStructBegin s)).bind fun q => (ACmp.readStructEnd q.2).bind fun s' =>
      match finish fs q.1 with
      | .ok out => .ret (.struct (TFields.ofList out), s')
      | _ => .fail .invalid
    | some (.union vs) => (adecUnionC f vs none (readStructBegin s)).bind fun q => (ACmp.readStructEnd q.2).bind fun s' =>
      match q.1 with
      | some (id, v) => .ret (.struct (.cons id v .nil), s')
      | none => match vs with
        | (_, .void) :: _ => .ret (.struct .nil, s')
        | _ => .fail .invalid
    | some .enum => (ACmp.readVarS 4).bind fun n => .ret (.i32 n, s)
    | some (.typedef t) => adecTyC f t s
    | none => .fail .other
  | _+1, .void, _ => .fail .other
def adecNC : Nat → STy → Nat → List TVal → CR → Prog (List TVal × CR)
  | 0, _, _, _, _ => .fuelOut
  | _+1, _, 0, acc, s => .ret (acc.reverse, s)
  | f+1, el, n+1, acc, s => (adecTyC f el s).bind fun q => adecNC f el n (q.1 :: acc) q.2
def adecPairsC : Nat → STy → STy → Nat → List (TVal × TVal) → CR → Prog (List (TVal × TVal) × CR)
  | 0, _, _, _, _, _ => .fuelOut
  | _+1, _, _, 0, acc, s => .ret (acc.reverse, s)
  | f+1, k, v, n+1, acc, s => (adecTyC f k s).bind fun q => (adecTyC f v q.2).bind fun q2 =>
      adecPairsC f k v n ((q.1, q2.1) :: acc) q2.2
def adecFieldsC : Nat → List Field → List (Int × TVal) → CR → Prog (List (Int × TVal) × CR)
  | 0, _, _, _ => .fuelOut
  | f+1, fs, slots, s => (ACmp.readFieldBegin s).bind fun p =>
    if p.1.1 = .stop then .ret (slots, p.2)
    else match fs.find? (fun fl => fl.id == p.1.2 && d.ttype fl.ty == p.1.1) with
      | some fl => (adecTyC f fl.ty p.2).bind fun q => adecFieldsC f fs (slotSet slots p.1.2 q.1) q.2
      | none => (ACmp.skip sf skipDepth p.1.1 p.2).bind fun s' => adecFieldsC f fs slots s'
def adecUnionC : Nat → List (Int × STy) → Option (Int × TVal) → CR → Prog (Option (Int × TVal) × CR)
  | 0, _, _, _ => .fuelOut
  | f+1, vs, ret, s => (ACmp.readFieldBegin s).bind fun p =>
    if p.1.1 = .stop then .ret (ret, p.2)
    else match vs.find? (fun v => v.1 == p.1.2 && !(v.2 == .void)) with
      | some (_, ty) =>
        if ret.isSome then .fail .invalid
        else (adecTyC f ty p.2).bind fun q => adecUnionC f vs (some (p.1.2, q.1)) q.2
      | none => (ACmp.skip sf skipDepth p.1.1 p.2).bind fun s' => adecUnionC f vs ret s'
end

/-- `<T as Message>::decode_async` on the compact async protocol: value and bytes pulled. -/
def adecodeC (n : String) (s : Stream) : Out (TVal × Nat) :=
  pulled s (runS ((adecTyC d (3 * (flat s).length + 3) (3 * (flat s).length + 8) (.ref n) {}).bind fun q => .ret q.1) s)

end
end Pilota.TGen
