import PilotaModel.TGen.Decode
/-
  `keep_unknown_fields`: the retention variant of the emitted decoders (binary protocol, in
  memory).  Unknown fields are not dropped: the bytes of each one — field header and value, taken
  from the input buffer by pointer and offset — are pushed to `_unknown_fields` and written back
  verbatim after the known fields by `encode`.  Here a retained chunk is represented by the field
  it encodes (`Binary.readVal` of the same bytes), so that "byte for byte" is `Binary.enc` of it.
  The argument-type shortcut (`__pilota_fields_num == 0 → get_bytes(None, remaining - 2)`) is NOT
  modelled: requests that reach it are marked hazard=D12 and judged by the oracle only.
-/
namespace Pilota.TGen
open Pilota Pilota.Thrift

/-- skip an unknown field and keep what was skipped: the skipper decides acceptance and consumption,
the dynamic reader names the value those bytes encode. -/
def skipKeep (e : Endian) (dp : Option Nat) (t : TType) (bs : Bytes) : Out (TVal × Bytes) :=
  match (binRd e dp).skip t bs with
  | .ok r => match Binary.read e t bs with
    | .ok (v, _) => .ok (v, r)
    | .err k => .err k | .panic m => .panic m | .fuel => .fuel
  | .err k => .err k | .panic m => .panic m | .fuel => .fuel

section
variable (e : Endian) (dp : Option Nat) (d : Doc)

mutual
def decTyK : Nat → STy → Bytes → Out (TVal × Bytes)
  | 0, _, _ => .fuel
  | f+1, .list el, s => match (binRd e dp).listBegin s with
    | .ok ((_, n), s) => match decNK f el n [] s with
      | .ok (xs, s) => .ok (.list (d.ttype el) (TVals.ofList xs), s)
      | .err k => .err k | .panic m => .panic m | .fuel => .fuel
    | .err k => .err k | .panic m => .panic m | .fuel => .fuel
  | f+1, .set el, s => match (binRd e dp).listBegin s with
    | .ok ((_, n), s) => match decNK f el n [] s with
      | .ok (xs, s) => .ok (.set (d.ttype el) (TVals.ofList (xs.foldl setInsert [])), s)
      | .err k => .err k | .panic m => .panic m | .fuel => .fuel
    | .err k => .err k | .panic m => .panic m | .fuel => .fuel
  | f+1, .map k v, s => match (binRd e dp).mapBegin s with
    | .ok ((_, _, n), s) => match decPairsK f k v n [] s with
      | .ok (kvs, s) => .ok (.map (d.ttype k) (d.ttype v) (TPairs.ofList (kvs.foldl (fun a p => mapInsert a p.1 p.2) [])), s)
      | .err k => .err k | .panic m => .panic m | .fuel => .fuel
    | .err k => .err k | .panic m => .panic m | .fuel => .fuel
  | f+1, .ref n, s => match d.find n with
    | some (.struct fs) => match decFieldsK f fs [] [] s with
      | .ok (slots, unk, s) => match finish fs slots with
        | .ok out => .ok (.struct (TFields.ofList (out ++ unk)), s)      -- known fields, then the retained chunks in wire order
        | .err k => .err k | .panic m => .panic m | .fuel => .fuel
      | .err k => .err k | .panic m => .panic m | .fuel => .fuel
    | some (.union vs) => match decUnionK f vs none s with
      | .ok (ret, s) => match ret with
        | some (id, v) => .ok (.struct (.cons id v .nil), s)
        | none => match vs with
          | (_, .void) :: _ => .ok (.struct .nil, s)
          | _ => .err .invalid
      | .err k => .err k | .panic m => .panic m | .fuel => .fuel
    | some .enum => mapOut (fun x => (.i32 x.1, x.2)) ((binRd e dp).readI32 s)
    | some (.typedef t) => decTyK f t s
    | none => .panic "unresolved type"
  | f+1, t, s => decTy (binRd e dp) d (f+1) t s          -- base types: as without retention
def decNK : Nat → STy → Nat → List TVal → Bytes → Out (List TVal × Bytes)
  | 0, _, _, _, _ => .fuel
  | _+1, _, 0, acc, s => .ok (acc.reverse, s)
  | f+1, el, n+1, acc, s => match decTyK f el s with
    | .ok (v, s) => decNK f el n (v :: acc) s
    | .err k => .err k | .panic m => .panic m | .fuel => .fuel
def decPairsK : Nat → STy → STy → Nat → List (TVal × TVal) → Bytes → Out (List (TVal × TVal) × Bytes)
  | 0, _, _, _, _, _ => .fuel
  | _+1, _, _, 0, acc, s => .ok (acc.reverse, s)
  | f+1, k, v, n+1, acc, s => match decTyK f k s with
    | .ok (kv, s) => match decTyK f v s with
      | .ok (vv, s) => decPairsK f k v n ((kv, vv) :: acc) s
      | .err k => .err k | .panic m => .panic m | .fuel => .fuel
    | .err k => .err k | .panic m => .panic m | .fuel => .fuel
def decFieldsK : Nat → List Field → List (Int × TVal) → List (Int × TVal) → Bytes → Out (List (Int × TVal) × List (Int × TVal) × Bytes)
  | 0, _, _, _, _ => .fuel
  | f+1, fs, slots, unk, s => match (binRd e dp).fieldBegin s with
    | .ok ((t, id), s) =>
      if t = .stop then .ok (slots, unk, s)
      else match fs.find? (fun fl => fl.id == id && d.ttype fl.ty == t) with
        | some fl => match decTyK f fl.ty s with
          | .ok (v, s) => decFieldsK f fs (slotSet slots id v) unk s
          | .err k => .err k | .panic m => .panic m | .fuel => .fuel
        | none => match skipKeep e dp t s with
          | .ok (v, s) => decFieldsK f fs slots (unk ++ [(id, v)]) s
          | .err k => .err k | .panic m => .panic m | .fuel => .fuel
    | .err k => .err k | .panic m => .panic m | .fuel => .fuel
/-- union with retention: an unknown field becomes the `_UnknownFields` variant when nothing was
decoded yet, and is an error ("received multiple fields") otherwise — unlike the plain decoder. -/
def decUnionK : Nat → List (Int × STy) → Option (Int × TVal) → Bytes → Out (Option (Int × TVal) × Bytes)
  | 0, _, _, _ => .fuel
  | f+1, vs, ret, s => match (binRd e dp).fieldBegin s with
    | .ok ((t, id), s) =>
      if t = .stop then .ok (ret, s)
      else match vs.find? (fun v => v.1 == id && !(v.2 == .void)) with
        | some (_, ty) =>
          if ret.isSome then .err .invalid
          else match decTyK f ty s with
            | .ok (v, s) => decUnionK f vs (some (id, v)) s
            | .err k => .err k | .panic m => .panic m | .fuel => .fuel
        | none => match skipKeep e dp t s with
          | .ok (v, s) =>
            if ret.isSome then .err .invalid
            else decUnionK f vs (some (id, v)) s
          | .err k => .err k | .panic m => .panic m | .fuel => .fuel
    | .err k => .err k | .panic m => .panic m | .fuel => .fuel
end

def decodeK (n : String) (s : Bytes) : Out (TVal × Bytes) :=
  decTyK e dp d (3 * s.length + 8) (.ref n) s

end
end Pilota.TGen
