import PilotaModel.TGen.Decode
/-
  Ownership ledger for the emitted decoders (C19).  Rust drops every live local on an early
  return, so whatever a partially decoded value owns is released — except elements that were
  written through a raw pointer into a `Vec`'s spare capacity before `set_len` (the synchronous
  list arm of codegen/thrift/ty.rs): no destructor reaches them.  `decTyL` is `decTy` with one
  extra number on the error path: how many heap allocations / input-buffer references are left
  unreachable.  The asynchronous template pushes (`val.push(..)`), so nothing is ever unreachable.
-/
namespace Pilota.TGen
open Pilota Pilota.Thrift

inductive OutL (α : Type) where
  /-- `tail`: the value just decoded ends with an EMPTY `binary` that was read when nothing was left in the buffer.
  `Bytes::split_to(at)` hands over the whole buffer handle when `at == len` — also for `at = 0` — so that empty
  `Bytes` keeps the input alive although it owns no byte of it (found by T1 at the thorough tier). -/
  | ok (a : α) (tail : Bool := false)
  | err (leaked : Nat)
  | panic
  | fuel
  deriving Repr

def OutL.ofOut {α} : Out α → OutL α
  | .ok a => .ok a false | .err _ => .err 0 | .panic _ => .panic | .fuel => .fuel

def OutL.erase {α} : OutL α → Out α
  | .ok a _ => .ok a | .err _ => .err .invalid | .panic => .panic "" | .fuel => .fuel

/-- `FastStr` inlines up to 24 bytes; longer strings keep a reference to the input buffer. -/
def inlineCap : Nat := 24

/-- heap allocations / buffer references owned by a decoded value of declared type `ty`. -/
def owned (d : Doc) : Nat → STy → TVal → Nat
  | _, .string, .bin bs => if bs.length > inlineCap then 1 else 0
  | _, .binary, .bin bs => if bs.length > 0 then 1 else 0
  | f+1, .list e, .list _ xs => (if xs.length > 0 then 1 else 0) + ((xs.toList.map (owned d f e)).sum)
  | f+1, .set e, .set _ xs => (if xs.length > 0 then 1 else 0) + ((xs.toList.map (owned d f e)).sum)
  | f+1, .map k v, .map _ _ kvs => (if kvs.length > 0 then 1 else 0) + ((kvs.toList.map fun p => owned d f k p.1 + owned d f v p.2).sum)
  | f+1, .ref n, v => match d.find n, v with
    | some (.typedef t), v => owned d f t v
    | some (.struct fs), .struct vs => (vs.toList.map fun p => match fs.find? (·.id == p.1) with
        | some fl => owned d f fl.ty p.2
        | none => 0).sum
    | some (.union us), .struct vs => (vs.toList.map fun p => match us.find? (·.1 == p.1) with
        | some (_, t) => owned d f t p.2
        | none => 0).sum
    | _, _ => 0
  | _, _, _ => 0

section
variable {σ : Type} (R : Rd σ) (d : Doc) (sync : Bool)

mutual
def decTyL : Nat → STy → σ → OutL (TVal × σ)
  | 0, _, _ => .fuel
  | f+1, .list e, s => match R.listBegin s with
    | .ok ((_, n), s) => match decNL f e n [] false s with
      | .ok (xs, s) t => .ok (.list (d.ttype e) (TVals.ofList xs), s) t
      | .err l => .err l | .panic => .panic | .fuel => .fuel
    | o => OutL.ofOut (mapOut (fun x => (TVal.bool false, x.2)) o)
  | f+1, .set e, s => match R.listBegin s with
    | .ok ((_, n), s) => match decNS f e n [] false s with
      | .ok (xs, s) t => .ok (.set (d.ttype e) (TVals.ofList (xs.foldl setInsert [])), s) t
      | .err l => .err l | .panic => .panic | .fuel => .fuel
    | o => OutL.ofOut (mapOut (fun x => (TVal.bool false, x.2)) o)
  | f+1, .map k v, s => match R.mapBegin s with
    | .ok ((_, _, n), s) => match decPairsL f k v n [] false s with
      | .ok (kvs, s) t => .ok (.map (d.ttype k) (d.ttype v) (TPairs.ofList (kvs.foldl (fun a p => mapInsert a p.1 p.2) [])), s) t
      | .err l => .err l | .panic => .panic | .fuel => .fuel
    | o => OutL.ofOut (mapOut (fun x => (TVal.bool false, x.2)) o)
  | f+1, .ref n, s => match d.find n with
    | some (.struct fs) => match decFieldsL f fs [] (R.structBegin s) with
      | .ok (slots, s) _ => match R.structEnd s with
        | .ok s => match finish fs slots with
          | .ok out => .ok (.struct (TFields.ofList out), s)
          | _ => .err 0                       -- required field missing: every local is dropped
        | _ => .err 0
      | .err l => .err l | .panic => .panic | .fuel => .fuel
    | some (.union vs) => match decUnionL f vs none (R.structBegin s) with
      | .ok (ret, s) _ => match R.structEnd s with
        | .ok s => match ret with
          | some (id, v) => .ok (.struct (.cons id v .nil), s)
          | none => match vs with
            | (_, .void) :: _ => .ok (.struct .nil, s)
            | _ => .err 0
        | _ => .err 0
      | .err l => .err l | .panic => .panic | .fuel => .fuel
    | some .enum => OutL.ofOut (mapOut (fun x => (.i32 x.1, x.2)) (R.readI32 s))
    | some (.typedef t) => decTyL f t s
    | none => .panic
  | f+1, .binary, s => match decTy R d (f+1) .binary s with
    | .ok (v, s') => .ok (v, s') (v == .bin [] && R.remaining s' == 0)
    | o => OutL.ofOut o
  | f+1, t, s => OutL.ofOut (decTy R d (f+1) t s)          -- base types allocate nothing before they can fail
/-- the list arm: elements already written are unreachable when a later element fails (sync only). -/
def decNL : Nat → STy → Nat → List TVal → Bool → σ → OutL (List TVal × σ)
  | 0, _, _, _, _, _ => .fuel
  | _+1, _, 0, acc, t, s => .ok (acc.reverse, s) t
  | f+1, e, n+1, acc, t, s => match decTyL f e s with
    | .ok (v, s) t' => decNL f e n (v :: acc) t' s
    | .err l => .err (l + (if sync then ((acc.map (owned d (d.length + 64) e)).sum) + (if t then 1 else 0) else 0))
    | .panic => .panic | .fuel => .fuel
/-- set elements live in the set, which is dropped on error. -/
def decNS : Nat → STy → Nat → List TVal → Bool → σ → OutL (List TVal × σ)
  | 0, _, _, _, _, _ => .fuel
  | _+1, _, 0, acc, t, s => .ok (acc.reverse, s) t
  | f+1, e, n+1, acc, _, s => match decTyL f e s with
    | .ok (v, s) t' => decNS f e n (v :: acc) (t' && !acc.contains v) s     -- `insert` drops an element that is already there
    | .err l => .err l | .panic => .panic | .fuel => .fuel
def decPairsL : Nat → STy → STy → Nat → List (TVal × TVal) → Bool → σ → OutL (List (TVal × TVal) × σ)
  | 0, _, _, _, _, _, _ => .fuel
  | _+1, _, _, 0, acc, t, s => .ok (acc.reverse, s) t
  | f+1, k, v, n+1, acc, _, s => match decTyL f k s with
    | .ok (kv, s) _ => match decTyL f v s with
      | .ok (vv, s) t' => decPairsL f k v n ((kv, vv) :: acc) t' s        -- the value read last is the one the map keeps
      | .err l => .err l | .panic => .panic | .fuel => .fuel
    | .err l => .err l | .panic => .panic | .fuel => .fuel
def decFieldsL : Nat → List Field → List (Int × TVal) → σ → OutL (List (Int × TVal) × σ)
  | 0, _, _, _ => .fuel
  | f+1, fs, slots, s => match R.fieldBegin s with
    | .ok ((t, id), s) =>
      if t = .stop then .ok (slots, s)
      else match fs.find? (fun fl => fl.id == id && d.ttype fl.ty == t) with
        | some fl => match decTyL f fl.ty s with
          | .ok (v, s) _ => decFieldsL f fs (slotSet slots id v) s
          | .err l => .err l | .panic => .panic | .fuel => .fuel
        | none => match R.skip t s with
          | .ok s => decFieldsL f fs slots s
          | o => OutL.ofOut (mapOut (fun x => (slots, x)) o)
    | o => OutL.ofOut (mapOut (fun x => (slots, x.2)) o)
def decUnionL : Nat → List (Int × STy) → Option (Int × TVal) → σ → OutL (Option (Int × TVal) × σ)
  | 0, _, _, _ => .fuel
  | f+1, vs, ret, s => match R.fieldBegin s with
    | .ok ((t, id), s) =>
      if t = .stop then .ok (ret, s)
      else match vs.find? (fun v => v.1 == id && !(v.2 == .void)) with
        | some (_, ty) =>
          if ret.isSome then .err 0
          else match decTyL f ty s with
            | .ok (v, s) _ => decUnionL f vs (some (id, v)) s
            | .err l => .err l | .panic => .panic | .fuel => .fuel
        | none => match R.skip t s with
          | .ok s => decUnionL f vs ret s
          | o => OutL.ofOut (mapOut (fun x => (ret, x)) o)
    | o => OutL.ofOut (mapOut (fun x => (ret, x.2)) o)
end

def decodeL (n : String) (s : σ) : OutL (TVal × σ) :=
  decTyL R d sync (3 * R.remaining s + 8) (.ref n) s

end
end Pilota.TGen
