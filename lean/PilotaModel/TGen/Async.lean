import PilotaModel.TGen.Decode
import PilotaModel.Thrift.Async
/-
  What the `decode_async` emitted by pilota-build computes on the binary / little-endian ASYNC protocol, as a resumable
  program (`Async.Prog`): the same template as `decTy` (codegen_decode with `is_async`), every protocol call an `.await`
  on the stream.  `sf` is the budget handed to the model of the async skipper (the real skipper has none: any budget
  that suffices is the real behaviour).
-/
namespace Pilota.TGen
open Pilota Pilota.Thrift Pilota.Thrift.Async

section
variable (e : Endian) (d : Doc) (sf : Nat)

mutual
def adecTy : Nat → STy → Prog TVal
  | 0, _ => .fuelOut
  | _+1, .bool => (ABin.readI e 1).bind fun n => .ret (.bool (n != 0))
  | _+1, .i8 => (ABin.readI e 1).bind fun n => .ret (.i8 n)
  | _+1, .i16 => (ABin.readI e 2).bind fun n => .ret (.i16 n)
  | _+1, .i32 => (ABin.readI e 4).bind fun n => .ret (.i32 n)
  | _+1, .i64 => (ABin.readI e 8).bind fun n => .ret (.i64 n)
  | _+1, .double => (ABin.readU e 8).bind fun n => .ret (.dbl n)
  | _+1, .string => (ABin.readBytes e).bind fun b => .ret (.bin b)
  | _+1, .binary => (ABin.readBytes e).bind fun b => .ret (.bin b)
  | _+1, .uuid => .need 16 (fun b => .ret (.uuid b))
  | f+1, .list el => (ABin.readListBegin e).bind fun p => (adecN f el p.2 []).bind fun xs =>
      .ret (.list (d.ttype el) (TVals.ofList xs))
  | f+1, .set el => (ABin.readListBegin e).bind fun p => (adecN f el p.2 []).bind fun xs =>
      .ret (.set (d.ttype el) (TVals.ofList (xs.foldl setInsert [])))
  | f+1, .map k v => (ABin.readMapBegin e).bind fun p => (adecPairs f k v p.2.2 []).bind fun kvs =>
      .ret (.map (d.ttype k) (d.ttype v) (TPairs.ofList (kvs.foldl (fun a p => mapInsert a p.1 p.2) [])))
  | f+1, .ref n => match d.find n with
    | some (.struct fs) => (adecFields f fs []).bind fun slots => match finish fs slots with
      | .ok out => .ret (.struct (TFields.ofList out))
      | _ => .fail .invalid
    | some (.union vs) => (adecUnion f vs none).bind fun ret => match ret with
      | some (id, v) => .ret (.struct (.cons id v .nil))
      | none => match vs with
        | (_, .void) :: _ => .ret (.struct .nil)
        | _ => .fail .invalid
    | some .enum => (ABin.readI e 4).bind fun n => .ret (.i32 n)
    | some (.typedef t) => adecTy f t
    | none => .fail .other
  | _+1, .void => .fail .other
def adecN : Nat → STy → Nat → List TVal → Prog (List TVal)
  | 0, _, _, _ => .fuelOut
  | _+1, _, 0, acc => .ret acc.reverse
  | f+1, el, n+1, acc => (adecTy f el).bind fun v => adecN f el n (v :: acc)
def adecPairs : Nat → STy → STy → Nat → List (TVal × TVal) → Prog (List (TVal × TVal))
  | 0, _, _, _, _ => .fuelOut
  | _+1, _, _, 0, acc => .ret acc.reverse
  | f+1, k, v, n+1, acc => (adecTy f k).bind fun kv => (adecTy f v).bind fun vv => adecPairs f k v n ((kv, vv) :: acc)
def adecFields : Nat → List Field → List (Int × TVal) → Prog (List (Int × TVal))
  | 0, _, _ => .fuelOut
  | f+1, fs, slots => (ABin.readFieldBegin e).bind fun p =>
    if p.1 = .stop then .ret slots
    else match fs.find? (fun fl => fl.id == p.2 && d.ttype fl.ty == p.1) with
      | some fl => (adecTy f fl.ty).bind fun v => adecFields f fs (slotSet slots p.2 v)
      | none => (ABin.skip e sf skipDepth p.1).bind fun _ => adecFields f fs slots
def adecUnion : Nat → List (Int × STy) → Option (Int × TVal) → Prog (Option (Int × TVal))
  | 0, _, _ => .fuelOut
  | f+1, vs, ret => (ABin.readFieldBegin e).bind fun p =>
    if p.1 = .stop then .ret ret
    else match vs.find? (fun v => v.1 == p.2 && !(v.2 == .void)) with
      | some (_, ty) =>
        if ret.isSome then .fail .invalid
        else (adecTy f ty).bind fun v => adecUnion f vs (some (p.2, v))
      | none => (ABin.skip e sf skipDepth p.1).bind fun _ => adecUnion f vs ret
end

/-- `<T as Message>::decode_async` for the item named `n` on a stream: value and number of bytes pulled. -/
def adecode (n : String) (s : Stream) : Out (TVal × Nat) :=
  pulled s (runS (adecTy e d (3 * (flat s).length + 3) (3 * (flat s).length + 8) (.ref n)) s)

end
end Pilota.TGen
