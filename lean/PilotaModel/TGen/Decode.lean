import PilotaModel.TGen.Schema
import PilotaModel.TGen.Reader
/-
  What the `Message::decode` emitted by pilota-build computes (codegen/thrift/mod.rs
  `codegen_decode`, `codegen_decode_fields`, the union arm of `codegen_enum_impl`,
  codegen/thrift/ty.rs `codegen_decode_ty`), generic in the protocol reader.
  The result is the value as the emitted `encode` writes it back (fields in
  declaration order, absent optionals omitted, defaults filled in), i.e. decode ∘ encode
  of the emitted type seen on the wire.
-/
namespace Pilota.TGen
open Pilota Pilota.Thrift

mutual
def TVal.beq : TVal → TVal → Bool
  | .bool a, .bool b => a == b
  | .i8 a, .i8 b | .i16 a, .i16 b | .i32 a, .i32 b | .i64 a, .i64 b => a == b
  | .dbl a, .dbl b => a == b
  | .bin a, .bin b | .uuid a, .uuid b => a == b
  | .struct a, .struct b => TFields.beq a b
  | .list t a, .list u b | .set t a, .set u b => t == u && TVals.beq a b
  | .map k v a, .map k' v' b => k == k' && v == v' && TPairs.beq a b
  | _, _ => false
def TVals.beq : TVals → TVals → Bool
  | .nil, .nil => true
  | .cons a r, .cons b s => TVal.beq a b && TVals.beq r s
  | _, _ => false
def TFields.beq : TFields → TFields → Bool
  | .nil, .nil => true
  | .cons i a r, .cons j b s => i == j && TVal.beq a b && TFields.beq r s
  | _, _ => false
def TPairs.beq : TPairs → TPairs → Bool
  | .nil, .nil => true
  | .cons k a r, .cons l b s => TVal.beq k l && TVal.beq a b && TPairs.beq r s
  | _, _ => false
end

/-- `HashSet::insert` over the decoded elements, in wire order. -/
def setInsert (acc : List TVal) (x : TVal) : List TVal :=
  if acc.any (TVal.beq x) then acc else acc ++ [x]

/-- `HashMap::insert`: a later equal key replaces the value. -/
def mapInsert (acc : List (TVal × TVal)) (k v : TVal) : List (TVal × TVal) :=
  if acc.any (fun p => TVal.beq p.1 k) then acc.map (fun p => if TVal.beq p.1 k then (p.1, v) else p)
  else acc ++ [(k, v)]

def slotSet (slots : List (Int × TVal)) (id : Int) (v : TVal) : List (Int × TVal) :=
  (slots.filter (·.1 != id)) ++ [(id, v)]

def slotGet (slots : List (Int × TVal)) (id : Int) : Option TVal := (slots.find? (·.1 == id)).map (·.2)

/-- after the field loop: required check and defaults, in declaration order. -/
def finish : List Field → List (Int × TVal) → Out (List (Int × TVal))
  | [], _ => .ok []
  | f :: fs, slots =>
    match finish fs slots with
    | .ok rest =>
      match slotGet slots f.id, f.dflt with
      | some v, _ => .ok ((f.id, v) :: rest)
      | none, some dv => .ok ((f.id, dv) :: rest)
      | none, none => if f.required then .err .invalid else .ok rest
    | .err k => .err k | .panic m => .panic m | .fuel => .fuel

section
variable {σ : Type} (R : Rd σ) (d : Doc)

mutual
def decTy : Nat → STy → σ → Out (TVal × σ)
  | 0, _, _ => .fuel
  | _+1, .bool, s => mapOut (fun x => (.bool x.1, x.2)) (R.readBool s)
  | _+1, .i8, s => mapOut (fun x => (.i8 x.1, x.2)) (R.readI8 s)
  | _+1, .i16, s => mapOut (fun x => (.i16 x.1, x.2)) (R.readI16 s)
  | _+1, .i32, s => mapOut (fun x => (.i32 x.1, x.2)) (R.readI32 s)
  | _+1, .i64, s => mapOut (fun x => (.i64 x.1, x.2)) (R.readI64 s)
  | _+1, .double, s => mapOut (fun x => (.dbl x.1, x.2)) (R.readDouble s)
  | _+1, .string, s | _+1, .binary, s => mapOut (fun x => (.bin x.1, x.2)) (R.readBytes s)
  | _+1, .uuid, s => mapOut (fun x => (.uuid x.1, x.2)) (R.readUuid s)
  | f+1, .list e, s => match R.listBegin s with
    | .ok ((_, n), s) => match decN f e n [] s with      -- the wire element type is not looked at
      | .ok (xs, s) => .ok (.list (d.ttype e) (TVals.ofList xs), s)
      | .err k => .err k | .panic m => .panic m | .fuel => .fuel
    | .err k => .err k | .panic m => .panic m | .fuel => .fuel
  | f+1, .set e, s => match R.listBegin s with
    | .ok ((_, n), s) => match decN f e n [] s with
      | .ok (xs, s) => .ok (.set (d.ttype e) (TVals.ofList (xs.foldl setInsert [])), s)
      | .err k => .err k | .panic m => .panic m | .fuel => .fuel
    | .err k => .err k | .panic m => .panic m | .fuel => .fuel
  | f+1, .map k v, s => match R.mapBegin s with
    | .ok ((_, _, n), s) => match decPairs f k v n [] s with
      | .ok (kvs, s) => .ok (.map (d.ttype k) (d.ttype v) (TPairs.ofList (kvs.foldl (fun a p => mapInsert a p.1 p.2) [])), s)
      | .err k => .err k | .panic m => .panic m | .fuel => .fuel
    | .err k => .err k | .panic m => .panic m | .fuel => .fuel
  | f+1, .ref n, s => match d.find n with
    | some (.struct fs) => match decFields f fs [] (R.structBegin s) with
      | .ok (slots, s) => match R.structEnd s with
        | .ok s => match finish fs slots with
          | .ok out => .ok (.struct (TFields.ofList out), s)
          | .err k => .err k | .panic m => .panic m | .fuel => .fuel
        | .err k => .err k | .panic m => .panic m | .fuel => .fuel
      | .err k => .err k | .panic m => .panic m | .fuel => .fuel
    | some (.union vs) => match decUnion f vs none (R.structBegin s) with
      | .ok (ret, s) => match R.structEnd s with
        | .ok s => match ret with
          | some (id, v) => .ok (.struct (.cons id v .nil), s)
          | none => match vs with
            | (_, .void) :: _ => .ok (.struct .nil, s)          -- `Ok(())` of a void method
            | _ => .err .invalid                                -- "received empty union"
        | .err k => .err k | .panic m => .panic m | .fuel => .fuel
      | .err k => .err k | .panic m => .panic m | .fuel => .fuel
    | some .enum => mapOut (fun x => (.i32 x.1, x.2)) (R.readI32 s)
    | some (.typedef t) => decTy f t s
    | none => .panic "unresolved type"
  | _+1, .void, _ => .panic "void decoded as a value"
def decN : Nat → STy → Nat → List TVal → σ → Out (List TVal × σ)
  | 0, _, _, _, _ => .fuel
  | _+1, _, 0, acc, s => .ok (acc.reverse, s)
  | f+1, e, n+1, acc, s => match decTy f e s with
    | .ok (v, s) => decN f e n (v :: acc) s
    | .err k => .err k | .panic m => .panic m | .fuel => .fuel
def decPairs : Nat → STy → STy → Nat → List (TVal × TVal) → σ → Out (List (TVal × TVal) × σ)
  | 0, _, _, _, _, _ => .fuel
  | _+1, _, _, 0, acc, s => .ok (acc.reverse, s)
  | f+1, k, v, n+1, acc, s => match decTy f k s with
    | .ok (kv, s) => match decTy f v s with
      | .ok (vv, s) => decPairs f k v n ((kv, vv) :: acc) s
      | .err k => .err k | .panic m => .panic m | .fuel => .fuel
    | .err k => .err k | .panic m => .panic m | .fuel => .fuel
/-- the field loop of a struct: known id with the declared wire type → decode, anything else → skip. -/
def decFields : Nat → List Field → List (Int × TVal) → σ → Out (List (Int × TVal) × σ)
  | 0, _, _, _ => .fuel
  | f+1, fs, slots, s => match R.fieldBegin s with
    | .ok ((t, id), s) =>
      if t = .stop then .ok (slots, s)
      else match fs.find? (fun fl => fl.id == id && d.ttype fl.ty == t) with
        | some fl => match decTy f fl.ty s with
          | .ok (v, s) => decFields f fs (slotSet slots id v) s
          | .err k => .err k | .panic m => .panic m | .fuel => .fuel
        | none => match R.skip t s with
          | .ok s => decFields f fs slots s
          | .err k => .err k | .panic m => .panic m | .fuel => .fuel
    | .err k => .err k | .panic m => .panic m | .fuel => .fuel
/-- the field loop of a union: a known id is decoded by its DECLARED type whatever the wire type says. -/
def decUnion : Nat → List (Int × STy) → Option (Int × TVal) → σ → Out (Option (Int × TVal) × σ)
  | 0, _, _, _ => .fuel
  | f+1, vs, ret, s => match R.fieldBegin s with
    | .ok ((t, id), s) =>
      if t = .stop then .ok (ret, s)
      else match vs.find? (fun v => v.1 == id && !(v.2 == .void)) with
        | some (_, ty) =>
          if ret.isSome then .err .invalid                  -- "received multiple fields for union"
          else match decTy f ty s with
            | .ok (v, s) => decUnion f vs (some (id, v)) s
            | .err k => .err k | .panic m => .panic m | .fuel => .fuel
        | none => match R.skip t s with
          | .ok s => decUnion f vs ret s
          | .err k => .err k | .panic m => .panic m | .fuel => .fuel
    | .err k => .err k | .panic m => .panic m | .fuel => .fuel
end

/-- `<T as Message>::decode` for the item named `n`. -/
def decode (n : String) (s : σ) : Out (TVal × σ) :=
  decTy R d (3 * R.remaining s + 8) (.ref n) s

end

/-- one field of `T::default()`: the declared default, else `Default::default()` of a non-optional field. -/
def dfltEntry (z : STy → TVal) (fl : Field) : Option (Int × TVal) :=
  match fl.dflt with
  | some dv => some (fl.id, dv)
  | none => if fl.required then some (fl.id, z fl.ty) else none

/-- `T::default()` re-encoded (plugin/mod.rs `ImplDefaultPlugin`): declared defaults, `Default::default()`
for the other non-optional fields. -/
def zeroOf (d : Doc) : Nat → STy → TVal
  | _, .bool => .bool false | _, .i8 => .i8 0 | _, .i16 => .i16 0 | _, .i32 => .i32 0 | _, .i64 => .i64 0
  | _, .double => .dbl 0 | _, .string => .bin [] | _, .binary => .bin [] | _, .uuid => .uuid (List.replicate 16 0)
  | _, .list e => .list (d.ttype e) .nil | _, .set e => .set (d.ttype e) .nil
  | _, .map k v => .map (d.ttype k) (d.ttype v) .nil
  | _, .void => .struct .nil
  | 0, .ref _ => .struct .nil
  | f+1, .ref n => match d.find n with
    | some .enum => .i32 0
    | some (.typedef t) => zeroOf d f t
    | some (.union ((id, t) :: _)) => .struct (.cons id (zeroOf d f t) .nil)
    | some (.struct fs) => .struct (TFields.ofList (fs.filterMap (dfltEntry (zeroOf d f))))
    | _ => .struct .nil

def defaultOf (d : Doc) (n : String) : TVal := zeroOf d (d.length + 2) (.ref n)

end Pilota.TGen
