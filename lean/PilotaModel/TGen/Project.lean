import PilotaModel.TGen.Decode
import PilotaModel.Lemmas.SkipBin
/-
  Value-level shadow of the emitted decoder: `projTy d dp f ty w` is what `decTy` returns when it is
  fed the binary encoding of the wire value `w` — computed on the value, without bytes.  It follows
  `decTy`'s recursion (and fuel) step for step.  `none` marks inputs outside the domain of the
  correspondence theorem (Lemmas/Tolerant.lean): a leaf or container whose wire shape is not the one
  the declared type reads (known findings D26 / D29 live there), an unknown field nested deeper
  than the skipper's budget, a field id outside i16.
-/
namespace Pilota.TGen
open Pilota Pilota.Thrift

def admitsB (dp : Option Nat) (n : Nat) : Bool := match dp with | none => true | some d => decide (n ≤ d)

theorem admitsB_iff (dp : Option Nat) (n : Nat) : admitsB dp n = true ↔ admits dp n := by
  cases dp <;> simp [admitsB, admits]

section
variable (d : Doc) (dp : Option Nat)

mutual
def projTy : Nat → STy → TVal → Option (Out TVal)
  | 0, _, _ => some .fuel
  | _+1, .bool, .bool b => some (.ok (.bool b))
  | _+1, .i8, .i8 n => some (.ok (.i8 n))
  | _+1, .i16, .i16 n => some (.ok (.i16 n))
  | _+1, .i32, .i32 n => some (.ok (.i32 n))
  | _+1, .i64, .i64 n => some (.ok (.i64 n))
  | _+1, .double, .dbl b => some (.ok (.dbl b))
  | _+1, .string, .bin b => some (.ok (.bin b))
  | _+1, .binary, .bin b => some (.ok (.bin b))
  | _+1, .uuid, .uuid b => some (.ok (.uuid b))
  | f+1, .list e, .list _ xs => match projN f e xs [] with
    | some (.ok ys) => some (.ok (.list (d.ttype e) (TVals.ofList ys)))
    | some (.err k) => some (.err k) | some (.panic m) => some (.panic m) | some .fuel => some .fuel
    | none => none
  | f+1, .set e, .set _ xs => match projN f e xs [] with
    | some (.ok ys) => some (.ok (.set (d.ttype e) (TVals.ofList (ys.foldl setInsert []))))
    | some (.err k) => some (.err k) | some (.panic m) => some (.panic m) | some .fuel => some .fuel
    | none => none
  | f+1, .map k v, .map _ _ kvs => match projPairs f k v kvs [] with
    | some (.ok ys) => some (.ok (.map (d.ttype k) (d.ttype v) (TPairs.ofList (ys.foldl (fun a p => mapInsert a p.1 p.2) []))))
    | some (.err k) => some (.err k) | some (.panic m) => some (.panic m) | some .fuel => some .fuel
    | none => none
  | f+1, .ref n, w => match d.find n with
    | some (.struct fs) => match w with
      | .struct wfs => match projFields f fs [] wfs with
        | some (.ok slots) => match finish fs slots with
          | .ok out => some (.ok (.struct (TFields.ofList out)))
          | .err k => some (.err k) | .panic m => some (.panic m) | .fuel => some .fuel
        | some (.err k) => some (.err k) | some (.panic m) => some (.panic m) | some .fuel => some .fuel
        | none => none
      | _ => none
    | some (.union vs) => match w with
      | .struct wfs => match projUnion f vs none wfs with
        | some (.ok ret) => match ret with
          | some (id, v) => some (.ok (.struct (.cons id v .nil)))
          | none => match vs with
            | (_, .void) :: _ => some (.ok (.struct .nil))
            | _ => some (.err .invalid)
        | some (.err k) => some (.err k) | some (.panic m) => some (.panic m) | some .fuel => some .fuel
        | none => none
      | _ => none
    | some .enum => match w with
      | .i32 n => some (.ok (.i32 n))
      | _ => none
    | some (.typedef t) => projTy f t w
    | none => some (.panic "unresolved type")
  | _+1, .void, _ => some (.panic "void decoded as a value")
  | _+1, _, _ => none
def projN : Nat → STy → TVals → List TVal → Option (Out (List TVal))
  | 0, _, _, _ => some .fuel
  | _+1, _, .nil, acc => some (.ok acc.reverse)
  | f+1, e, .cons x xs, acc => match projTy f e x with
    | some (.ok v) => projN f e xs (v :: acc)
    | some (.err k) => some (.err k) | some (.panic m) => some (.panic m) | some .fuel => some .fuel
    | none => none
def projPairs : Nat → STy → STy → TPairs → List (TVal × TVal) → Option (Out (List (TVal × TVal)))
  | 0, _, _, _, _ => some .fuel
  | _+1, _, _, .nil, acc => some (.ok acc.reverse)
  | f+1, k, v, .cons a b r, acc => match projTy f k a with
    | some (.ok ka) => match projTy f v b with
      | some (.ok vb) => projPairs f k v r ((ka, vb) :: acc)
      | some (.err e) => some (.err e) | some (.panic m) => some (.panic m) | some .fuel => some .fuel
      | none => none
    | some (.err e) => some (.err e) | some (.panic m) => some (.panic m) | some .fuel => some .fuel
    | none => none
def projFields : Nat → List Field → List (Int × TVal) → TFields → Option (Out (List (Int × TVal)))
  | 0, _, _, _ => some .fuel
  | _+1, _, slots, .nil => some (.ok slots)
  | f+1, fs, slots, .cons id v r =>
    if ¬ inS 2 id then none
    else match fs.find? (fun fl => fl.id == id && d.ttype fl.ty == v.ttype) with
      | some fl => match projTy f fl.ty v with
        | some (.ok pv) => projFields f fs (slotSet slots id pv) r
        | some (.err k) => some (.err k) | some (.panic m) => some (.panic m) | some .fuel => some .fuel
        | none => none
      | none => if admitsB dp v.need then projFields f fs slots r else none
def projUnion : Nat → List (Int × STy) → Option (Int × TVal) → TFields → Option (Out (Option (Int × TVal)))
  | 0, _, _, _ => some .fuel
  | _+1, _, ret, .nil => some (.ok ret)
  | f+1, vs, ret, .cons id v r =>
    if ¬ inS 2 id then none
    else match vs.find? (fun x => x.1 == id && !(x.2 == .void)) with
      | some (_, ty) =>
        if ret.isSome then some (.err .invalid)
        else if d.ttype ty != v.ttype then none            -- D29: the code decodes anyway; outside the domain
        else match projTy f ty v with
          | some (.ok pv) => projUnion f vs (some (id, pv)) r
          | some (.err k) => some (.err k) | some (.panic m) => some (.panic m) | some .fuel => some .fuel
          | none => none
      | none => if admitsB dp v.need then projUnion f vs ret r else none
end

end
end Pilota.TGen
