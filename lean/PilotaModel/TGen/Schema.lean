import PilotaModel.Thrift.Types
/-
  Schema of a Thrift document as pilota-build lowers it: what the emitted
  `Message` impls are a function of.  Defaults are carried as wire values
  (lowered independently by the document generator; C20 checks the emitted
  `Default` against them).
-/
namespace Pilota.TGen
open Pilota Pilota.Thrift

inductive STy where
  | bool | i8 | i16 | i32 | i64 | double | string | binary | uuid
  | list (e : STy) | set (e : STy) | map (k v : STy)
  | ref (name : String)
  | void                      -- only as the `Ok` variant of a void method's result
  deriving Repr, Inhabited, BEq

structure Field where
  id : Int
  ty : STy
  required : Bool             -- `required`; `optional` and default requiredness are both `Option<T>` in the emitted struct
  dflt : Option TVal := none

instance : Inhabited Field := ⟨{ id := 0, ty := .bool, required := false }⟩

inductive Def where
  | struct (fields : List Field)
  | union (vars : List (Int × STy))
  | enum
  | typedef (ty : STy)

abbrev Doc := List (String × Def)

def Doc.find (d : Doc) (n : String) : Option Def := (d.find? (·.1 == n)).map (·.2)

/-- `ThriftBackend::ttype`: typedefs resolve through (bounded by the document length). -/
def ttypeOf (d : Doc) : Nat → STy → TType
  | _, .bool => .bool | _, .i8 => .i8 | _, .i16 => .i16 | _, .i32 => .i32 | _, .i64 => .i64
  | _, .double => .double | _, .string => .binary | _, .binary => .binary | _, .uuid => .uuid
  | _, .list _ => .list | _, .set _ => .set | _, .map _ _ => .map
  | _, .void => .void
  | 0, .ref _ => .struct
  | f+1, .ref n => match d.find n with
    | some .enum => .i32
    | some (.typedef t) => ttypeOf d f t
    | _ => .struct

def Doc.ttype (d : Doc) (t : STy) : TType := ttypeOf d (d.length + 1) t

/-! ### S-expression form (written by bin/idlgen.py) -/

partial def STy.ofSexp : Sexp → Option STy
  | .atom "bool" => some .bool | .atom "i8" => some .i8 | .atom "i16" => some .i16 | .atom "i32" => some .i32
  | .atom "i64" => some .i64 | .atom "double" => some .double | .atom "string" => some .string
  | .atom "binary" => some .binary | .atom "uuid" => some .uuid | .atom "void" => some .void
  | .list [.atom "list", e] => .list <$> STy.ofSexp e
  | .list [.atom "set", e] => .set <$> STy.ofSexp e
  | .list [.atom "map", k, v] => do pure (.map (← STy.ofSexp k) (← STy.ofSexp v))
  | .list [.atom "ref", .atom n] => some (.ref n)
  | _ => none

def Field.ofSexp : Sexp → Option Field
  | .list (.atom "fld" :: id :: ty :: .atom req :: rest) => do
    let id ← id.asInt
    let ty ← STy.ofSexp ty
    let dflt ← match rest with
      | [] => some none
      | [d] => some <$> TVal.ofSexp d
      | _ => none
    pure { id, ty, required := req == "req", dflt }
  | _ => none

def Def.ofSexp : Sexp → Option (String × Def)
  | .list (.atom "struct" :: .atom n :: fs) => do pure (n, .struct (← fs.mapM Field.ofSexp))
  | .list (.atom "union" :: .atom n :: vs) => do
    let vs ← vs.mapM fun v => match v with
      | .list [.atom "var", id, ty] => do pure ((← id.asInt), (← STy.ofSexp ty))
      | _ => none
    pure (n, .union vs)
  | .list [.atom "enum", .atom n] => some (n, .enum)
  | .list [.atom "typedef", .atom n, ty] => do pure (n, .typedef (← STy.ofSexp ty))
  | _ => none

def Doc.ofSexp : Sexp → Option Doc
  | .list (.atom "doc" :: ds) => ds.mapM Def.ofSexp
  | _ => none

end Pilota.TGen
