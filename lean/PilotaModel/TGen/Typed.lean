import PilotaModel.TGen.ProjectK
/-
  Specification side of C13's round trip (nothing here models Rust code; `decTyK` / `decTy` do).

  * `hasTy d f ty w` — `w` is a value of the emitted type `ty` of document `d` as the emitted encoder writes it:
    struct fields in declaration order, each with the declared wire type and a value of the declared type,
    required fields and fields with an IDL default present (the decoder and `Default` produce them that way;
    an absent optional field with a default is the one permitted difference of C02 and is outside this
    predicate), sets without repeated elements, maps without repeated keys, a union with exactly one declared
    variant (or empty when its head is the `Ok(())` of a void method).  `f` bounds the nesting of type
    references (typedef links and value levels); every element of a container is checked with the same `f`.
  * `restrict keep d` — the reader's document: `d` with the struct fields and union variants for which `keep name field`
    is false removed ("a reader that lacks some fields", "new union variants").
-/
namespace Pilota.TGen
open Pilota Pilota.Thrift

def allV (p : TVal → Bool) : TVals → Bool
  | .nil => true
  | .cons x xs => p x && allV p xs

def allP (p q : TVal → Bool) : TPairs → Bool
  | .nil => true
  | .cons k v r => p k && q v && allP p q r

def mapV (g : TVal → TVal) : TVals → TVals
  | .nil => .nil
  | .cons x xs => .cons (g x) (mapV g xs)

def mapP (g h : TVal → TVal) : TPairs → TPairs
  | .nil => .nil
  | .cons k v r => .cons (g k) (h v) (mapP g h r)

/-- no element is `TVal.beq` to an earlier one (what `setInsert` tests) -/
def distinctL : List TVal → Bool
  | [] => true
  | x :: xs => !(xs.any (fun y => TVal.beq y x)) && distinctL xs

section
variable (d : Doc)

/-- a wire struct against the declared field list, walked together in declaration order -/
def hasFields (P : STy → TVal → Bool) : List Field → TFields → Bool
  | [], .nil => true
  | [], .cons .. => false
  | fl :: fs, .nil => !fl.required && fl.dflt.isNone && hasFields P fs .nil
  | fl :: fs, .cons id v r =>
    if fl.id == id then decide (inS 2 id) && d.ttype fl.ty == v.ttype && P fl.ty v && hasFields P fs r
    else !fl.required && fl.dflt.isNone && hasFields P fs (.cons id v r)

def hasTy : Nat → STy → TVal → Bool
  | 0, _, _ => false
  | _+1, .bool, .bool _ => true
  | _+1, .i8, .i8 _ => true
  | _+1, .i16, .i16 _ => true
  | _+1, .i32, .i32 _ => true
  | _+1, .i64, .i64 _ => true
  | _+1, .double, .dbl _ => true
  | _+1, .string, .bin _ => true
  | _+1, .binary, .bin _ => true
  | _+1, .uuid, .uuid _ => true
  | f+1, .list e, .list t xs => t == d.ttype e && allV (hasTy f e) xs
  | f+1, .set e, .set t xs => t == d.ttype e && allV (hasTy f e) xs && distinctL xs.toList
  | f+1, .map k v, .map kt vt kvs =>
    kt == d.ttype k && vt == d.ttype v && allP (hasTy f k) (hasTy f v) kvs && distinctL (kvs.toList.map (·.1))
  | f+1, .ref n, w => match d.find n with
    | some (.struct fs) => match w with
      | .struct wfs => hasFields d (hasTy f) fs wfs
      | _ => false
    | some (.union vs) => match w with
      | .struct (.cons id v .nil) => match vs.find? (fun x => x.1 == id && !(x.2 == .void)) with
        | some (_, ty) => decide (inS 2 id) && d.ttype ty == v.ttype && hasTy f ty v
        | none => false
      | .struct .nil => match vs with
        | (_, .void) :: _ => true
        | _ => false
      | _ => false
    | some .enum => match w with
      | .i32 _ => true
      | _ => false
    | some (.typedef t) => hasTy f t w
    | none => false
  | _+1, _, _ => false

/-! ### the reader's document -/

/-- a union variant seen as a field, so that one predicate selects struct fields and union variants alike -/
def variantField (x : Int × STy) : Field := { id := x.1, ty := x.2, required := false }

def keepVariant (keep : String → Field → Bool) (n : String) (x : Int × STy) : Bool := x.2 == .void || keep n (variantField x)

def restrictDef (keep : String → Field → Bool) (n : String) : Def → Def
  | .struct fs => .struct (fs.filter (keep n))
  | .union vs => .union (vs.filter (keepVariant keep n))        -- the `Ok(())` head of a void method's result is never removed
  | x => x

def restrict (keep : String → Field → Bool) : Doc := d.map (fun p => (p.1, restrictDef keep p.1 p.2))

end

/-- distinct variant ids per union -/
def Doc.variantsOk (d : Doc) : Prop :=
  ∀ n vs, d.find n = some (.union vs) → vs.Pairwise (fun a b => a.1 ≠ b.1)

/-- what `restrict`ing a document needs of it for the round trip: distinct field ids per struct -/
def Doc.fieldsOk (d : Doc) : Prop :=
  ∀ n fs, d.find n = some (.struct fs) → fs.Pairwise (fun a b => a.id ≠ b.id)

end Pilota.TGen
