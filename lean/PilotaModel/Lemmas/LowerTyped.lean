import PilotaModel.Build.Lower
import PilotaModel.Lemmas.KeepRTBase
import PilotaModel.Lemmas.KeepFwd
/-  The value an IDL default literal is lowered to (Build/Lower.lean, model of `lit_into_ty`) is a value of the field's declared
    type (`hasTy`): Lemmas for Props/C20c. -/
namespace Pilota.TGen
open Pilota Pilota.Thrift

/-! ### more budget never hurts `hasTy` -/

theorem allV_imp {p q : TVal → Bool} (h : ∀ x, p x = true → q x = true) (xs : TVals) (hx : allV p xs = true) : allV q xs = true :=
  (allV_iff q xs).mpr fun x hm => h x ((allV_iff p xs).mp hx x hm)

theorem allP_imp {p q p' q' : TVal → Bool} (h : ∀ x, p x = true → p' x = true) (h' : ∀ x, q x = true → q' x = true) (xs : TPairs)
    (hx : allP p q xs = true) : allP p' q' xs = true :=
  (allP_iff p' q' xs).mpr fun x hm => ⟨h _ ((allP_iff p q xs).mp hx x hm).1, h' _ ((allP_iff p q xs).mp hx x hm).2⟩

theorem hasFields_imp (d : Doc) {P Q : STy → TVal → Bool} (h : ∀ t x, P t x = true → Q t x = true) :
    ∀ (fs : List Field) (wfs : TFields), hasFields d P fs wfs = true → hasFields d Q fs wfs = true := by
  intro fs
  induction fs with
  | nil => intro wfs hw; cases wfs <;> simp_all [hasFields]
  | cons fl fs ih =>
    intro wfs hw
    cases wfs with
    | nil => simp only [hasFields, Bool.and_eq_true] at hw ⊢; exact ⟨hw.1, ih _ hw.2⟩
    | cons id v r =>
      simp only [hasFields] at hw ⊢
      split
      · rename_i hid
        simp only [hid, if_true, Bool.and_eq_true] at hw ⊢
        exact ⟨⟨hw.1.1, h _ _ hw.1.2⟩, ih _ hw.2⟩
      · rename_i hid
        simp only [hid, Bool.false_eq_true, if_false, Bool.and_eq_true] at hw ⊢
        exact ⟨hw.1, ih _ hw.2⟩

theorem hasTy_succ (d : Doc) : ∀ (f : Nat) (ty : STy) (w : TVal), hasTy d f ty w = true → hasTy d (f + 1) ty w = true := by
  intro f
  induction f with
  | zero => intro ty w h; simp [hasTy] at h
  | succ f ih =>
    intro ty w h
    cases ty with
    | list e =>
      cases w <;> (try (simp [hasTy] at h; done))
      simp only [hasTy, Bool.and_eq_true] at h ⊢
      exact ⟨h.1, allV_imp (ih e) _ h.2⟩
    | set e =>
      cases w <;> (try (simp [hasTy] at h; done))
      simp only [hasTy, Bool.and_eq_true] at h ⊢
      exact ⟨⟨h.1.1, allV_imp (ih e) _ h.1.2⟩, h.2⟩
    | map k v =>
      cases w <;> (try (simp [hasTy] at h; done))
      simp only [hasTy, Bool.and_eq_true] at h ⊢
      exact ⟨⟨⟨h.1.1.1, h.1.1.2⟩, allP_imp (ih k) (ih v) _ h.1.2⟩, h.2⟩
    | ref n =>
      simp only [hasTy] at h ⊢
      cases hn : d.find n with
      | none => simp [hn] at h
      | some df =>
        cases df with
        | struct fs =>
          simp only [hn] at h ⊢
          cases w <;> (try (simp at h; done))
          simp only at h ⊢
          exact hasFields_imp d (fun t x => ih t x) _ _ h
        | union vs =>
          simp only [hn] at h ⊢
          cases w <;> (try (simp at h; done))
          rename_i wfs
          cases wfs with
          | nil => exact h
          | cons id v r =>
            cases r with
            | cons => simp at h
            | nil =>
              simp only at h ⊢
              cases hfind : vs.find? (fun x => x.1 == id && !(x.2 == .void)) with
              | none => simp [hfind] at h
              | some p =>
                simp only [hfind, Bool.and_eq_true] at h ⊢
                exact ⟨h.1, ih _ _ h.2⟩
        | enum => simp only [hn] at h ⊢; exact h
        | typedef t => simp only [hn] at h ⊢; exact ih t w h
    | void => cases w <;> simp [hasTy] at h
    | _ => cases w <;> simp_all [hasTy]

theorem hasTy_mono (d : Doc) (f g : Nat) (hfg : f ≤ g) (ty : STy) (w : TVal) (h : hasTy d f ty w = true) : hasTy d g ty w = true := by
  induction hfg with
  | refl => exact h
  | step _ ih => exact hasTy_succ d _ ty w ih

/-! ### what `HashSet::from` / `HashMap` construction leaves is duplicate-free -/

theorem foldl_setInsert_nodup_acc : ∀ (ys acc : List TVal), acc.Nodup → (ys.foldl setInsert acc).Nodup := by
  intro ys
  induction ys with
  | nil => intro acc h; exact h
  | cons y ys ih =>
    intro acc h
    simp only [List.foldl_cons]
    apply ih
    rw [setInsert_eq]
    split
    · exact h
    · rename_i hm
      rw [List.nodup_append]
      refine ⟨h, by simp, ?_⟩
      intro a ha b hb
      simp only [List.mem_singleton] at hb
      subst hb
      exact fun heq => hm (heq ▸ ha)

theorem mapInsert_keys (acc : List (TVal × TVal)) (k v : TVal) :
    (mapInsert acc k v).map (·.1) = if k ∈ acc.map (·.1) then acc.map (·.1) else acc.map (·.1) ++ [k] := by
  unfold mapInsert
  have hany : acc.any (fun p => TVal.beq p.1 k) = true ↔ k ∈ acc.map (·.1) := by
    simp only [List.any_eq_true, TVal.beq_iff, List.mem_map]
  by_cases h : k ∈ acc.map (·.1)
  · simp only [hany.mpr h, if_true, h]
    rw [List.map_map]
    apply List.map_congr_left
    intro p _
    simp only [Function.comp]
    split <;> rfl
  · have : acc.any (fun p => TVal.beq p.1 k) = false := by
      cases hc : acc.any (fun p => TVal.beq p.1 k) with
      | false => rfl
      | true => exact absurd (hany.mp hc) h
    simp [this, h]

theorem foldl_mapInsert_keys_nodup : ∀ (ps acc : List (TVal × TVal)), (acc.map (·.1)).Nodup →
    ((ps.foldl (fun a p => mapInsert a p.1 p.2) acc).map (·.1)).Nodup := by
  intro ps
  induction ps with
  | nil => intro acc h; exact h
  | cons p ps ih =>
    intro acc h
    simp only [List.foldl_cons]
    apply ih
    rw [mapInsert_keys]
    split
    · exact h
    · rename_i hm
      rw [List.nodup_append]
      refine ⟨h, by simp, ?_⟩
      intro a ha b hb
      simp only [List.mem_singleton] at hb
      subst hb
      exact fun heq => hm (heq ▸ ha)

end Pilota.TGen

namespace Pilota.Build
open Pilota Pilota.Thrift Pilota.TGen

section
variable (d : Doc)

-- struct literals name every required field and every field that has an IDL default, at every level: then neither
-- `Default::default()` nor `None` for a field with a default occurs in the lowered value
mutual
def fullLit : Nat → STy → Lit → Bool
  | 0, _, _ => false
  | f+1, _, .const cty l => fullLit f cty l
  | f+1, .list e, .list xs => fullLits f e xs
  | f+1, .set e, .list xs => fullLits f e xs
  | f+1, .map k v, .map kvs => fullPairs f k v kvs
  | f+1, .ref n, lit => match d.find n with
    | some (.typedef t) => fullLit f t lit
    | some (.struct fs) => match lit with
      | .strct es => fullRec f fs es
      | _ => true
    | _ => true
  | _+1, _, _ => true
def fullLits : Nat → STy → Lits → Bool
  | 0, _, _ => false
  | _+1, _, .nil => true
  | f+1, e, .cons x xs => fullLit f e x && fullLits f e xs
def fullPairs : Nat → STy → STy → LitPairs → Bool
  | 0, _, _, _ => false
  | _+1, _, _, .nil => true
  | f+1, k, v, .cons a b r => fullLit f k a && fullLit f v b && fullPairs f k v r
def fullRec : Nat → List Field → LitFields → Bool
  | 0, _, _ => false
  | _+1, [], _ => true
  | f+1, fl :: fs, es => (match es.get fl.id with
      | some l => fullLit f fl.ty l
      | none => !fl.required && fl.dflt.isNone) && fullRec f fs es
end

/-- the document's typedef chains resolve within `Doc.ttype`'s own budget (true of every document without a typedef cycle) -/
def typedefsOk : Prop := ∀ n t, d.find n = some (.typedef t) → d.ttype (.ref n) = d.ttype t

theorem ttype_enum (n : String) (h : d.find n = some .enum) : d.ttype (.ref n) = .i32 := by
  simp [Doc.ttype, ttypeOf, h]
theorem ttype_struct (n : String) (fs : List Field) (h : d.find n = some (.struct fs)) : d.ttype (.ref n) = .struct := by
  simp [Doc.ttype, ttypeOf, h]

/-- the lowered value has the wire type of the declared type -/
theorem lower_ttype (ht : typedefsOk d) : ∀ (f : Nat) (ty : STy) (lit : Lit) (v : TVal), lowerLit d f ty lit = some v → v.ttype = d.ttype ty := by
  intro f
  induction f with
  | zero => intro ty lit v h; simp [lowerLit] at h
  | succ f ih =>
    intro ty lit v h
    cases lit with
    | const cty l =>
      simp only [lowerLit] at h
      split at h
      · rename_i heq
        subst heq; exact ih _ _ _ h
      · cases h
    | bool b => cases ty <;> simp [lowerLit] at h <;> (try (subst h; rfl))
                rename_i n; cases hn : d.find n <;> simp [hn] at h
                rename_i df; cases df <;> simp at h
                exact (ht n _ hn) ▸ ih _ _ _ h
    | int n =>
      cases ty <;> simp only [lowerLit] at h <;> (try (split at h <;> simp at h <;> (subst h; rfl))) <;> (try (simp at h; subst h; rfl)) <;> (try (cases h; done))
      rename_i m
      cases hn : d.find m with
      | none => simp [hn] at h
      | some df =>
        cases df with
        | enum => simp only [hn] at h; split at h <;> simp at h; subst h; rw [ttype_enum d m hn]; rfl
        | typedef t => simp only [hn] at h; exact (ht m _ hn) ▸ ih _ _ _ h
        | struct fs => simp [hn] at h
        | union vs => simp [hn] at h
    | dbl b =>
      cases ty <;> simp only [lowerLit] at h <;> (try (split at h <;> simp at h <;> (subst h; rfl))) <;> (try (cases h; done))
      rename_i m
      cases hn : d.find m with
      | none => simp [hn] at h
      | some df => cases df <;> simp [hn] at h; exact (ht m _ hn) ▸ ih _ _ _ h
    | str bs =>
      cases ty <;> simp only [lowerLit] at h <;> (try (simp at h; subst h; rfl)) <;> (try (cases h; done))
      rename_i m
      cases hn : d.find m with
      | none => simp [hn] at h
      | some df => cases df <;> simp [hn] at h; exact (ht m _ hn) ▸ ih _ _ _ h
    | list xs =>
      cases ty <;> simp only [lowerLit] at h <;> (try (cases h; done))
      · rename_i e; cases hx : lowerLitN d f e xs <;> simp [hx] at h; subst h; rfl
      · rename_i e; cases hx : lowerLitN d f e xs <;> simp [hx] at h; subst h; rfl
      · rename_i m
        cases hn : d.find m with
        | none => simp [hn] at h
        | some df => cases df <;> simp [hn] at h; exact (ht m _ hn) ▸ ih _ _ _ h
    | map kvs =>
      cases ty <;> simp only [lowerLit] at h <;> (try (cases h; done))
      · rename_i k v'; cases hx : lowerLitP d f k v' kvs <;> simp [hx] at h; subst h; rfl
      · rename_i m
        cases hn : d.find m with
        | none => simp [hn] at h
        | some df => cases df <;> simp [hn] at h; exact (ht m _ hn) ▸ ih _ _ _ h
    | variant n =>
      cases ty <;> simp only [lowerLit] at h <;> (try (simp at h; subst h; rfl)) <;> (try (cases h; done))
      rename_i m
      cases hn : d.find m with
      | none => simp [hn] at h
      | some df =>
        cases df with
        | enum => simp only [hn] at h; split at h <;> simp at h; subst h; rw [ttype_enum d m hn]; rfl
        | typedef t => simp only [hn] at h; exact (ht m _ hn) ▸ ih _ _ _ h
        | struct fs => simp [hn] at h
        | union vs => simp [hn] at h
    | strct es =>
      cases ty <;> simp only [lowerLit] at h <;> (try (cases h; done))
      rename_i m
      cases hn : d.find m with
      | none => simp [hn] at h
      | some df =>
        cases df with
        | enum => simp [hn] at h
        | typedef t => simp only [hn] at h; exact (ht m _ hn) ▸ ih _ _ _ h
        | struct fs =>
          simp only [hn] at h
          cases hx : lowerLitRec d f fs es <;> simp [hx] at h
          subst h; rw [ttype_struct d m fs hn]; rfl
        | union vs => simp [hn] at h

end
end Pilota.Build

namespace Pilota.TGen
open Pilota Pilota.Thrift
theorem TVals.toList_ofList : ∀ (xs : List TVal), (TVals.ofList xs).toList = xs
  | [] => rfl
  | v :: xs => by simp [TVals.toList, TVals.ofList, TVals.toList_ofList xs]
theorem TPairs.toList_ofList : ∀ (xs : List (TVal × TVal)), (TPairs.ofList xs).toList = xs
  | [] => rfl
  | (k, v) :: xs => by simp [TPairs.toList, TPairs.ofList, TPairs.toList_ofList xs]
end Pilota.TGen

namespace Pilota.Build
open Pilota Pilota.Thrift Pilota.TGen
variable (d : Doc)

/-- the reference arm, for a literal that is not a constant -/
theorem ref_typed (f : Nat)
    (ihT : ∀ ty lit v, lowerLit d f ty lit = some v → fullLit d f ty lit = true → ∃ F, hasTy d F ty v = true)
    (ihR : ∀ n fs es out, d.find n = some (.struct fs) → lowerLitRec d f fs es = some out → fullRec d f fs es = true →
      ∃ F, hasFields d (hasTy d F) fs (TFields.ofList out) = true)
    (n : String) (lit : Lit) (v : TVal) (hnc : ∀ c l, lit ≠ .const c l)
    (h : lowerLit d (f + 1) (.ref n) lit = some v) (hf : fullLit d (f + 1) (.ref n) lit = true) :
    ∃ F, hasTy d F (.ref n) v = true := by
  cases hn : d.find n with
  | none => cases lit <;> simp [lowerLit, hn] at h <;> exact absurd rfl (hnc _ _)
  | some df =>
    cases df with
    | enum =>
      cases lit <;> simp only [lowerLit, hn] at h <;> (try (cases h; done)) <;> (try (exact absurd rfl (hnc _ _)))
      all_goals (split at h <;> simp at h; subst h; exact ⟨1, by simp [hasTy, hn]⟩)
    | typedef t =>
      have h' : lowerLit d f t lit = some v := by
        cases lit <;> simp only [lowerLit, hn] at h <;> first | exact h | exact absurd rfl (hnc _ _)
      have hf' : fullLit d f t lit = true := by
        cases lit <;> simp only [fullLit, hn] at hf <;> first | exact hf | exact absurd rfl (hnc _ _)
      obtain ⟨F, hF⟩ := ihT t lit v h' hf'
      exact ⟨F + 1, by simp [hasTy, hn, hF]⟩
    | struct fs =>
      cases lit <;> simp only [lowerLit, hn] at h <;> (try (cases h; done)) <;> (try (exact absurd rfl (hnc _ _)))
      rename_i es
      simp only [fullLit, hn] at hf
      cases hx : lowerLitRec d f fs es with
      | none => simp [hx] at h
      | some out =>
        simp only [hx, Option.map_some, Option.some.injEq] at h
        subst h
        obtain ⟨F, hF⟩ := ihR n fs es out hn hx hf
        exact ⟨F + 1, by simp [hasTy, hn, hF]⟩
    | union vs => cases lit <;> simp [lowerLit, hn] at h <;> exact absurd rfl (hnc _ _)


theorem hasFields_all_absent (P : STy → TVal → Bool) : ∀ (fs : List Field), (∀ fl ∈ fs, fl.required = false ∧ fl.dflt = none) →
    hasFields d P fs .nil = true := by
  intro fs
  induction fs with
  | nil => intro _; simp [hasFields]
  | cons fl fs ih =>
    intro h
    have := h fl (by simp)
    simp [hasFields, this.1, this.2, ih (fun x hx => h x (by simp [hx]))]

/-- the ids of a lowered struct literal are ids of declared fields -/
theorem lowerLitRec_ids : ∀ (f : Nat) (fs : List Field) (es : LitFields) (out : List (Int × TVal)),
    lowerLitRec d f fs es = some out → ∀ p ∈ out, ∃ fl ∈ fs, fl.id = p.1 := by
  intro f
  induction f with
  | zero => intro fs es out h; simp [lowerLitRec] at h
  | succ f ih =>
    intro fs es out h p hp
    cases fs with
    | nil => simp only [lowerLitRec, Option.some.injEq] at h; subst h; cases hp
    | cons fl fs =>
      simp only [lowerLitRec] at h
      cases hr : lowerLitRec d f fs es with
      | none => simp [hr] at h
      | some rest =>
        simp only [hr] at h
        have lift : p ∈ rest → ∃ fl' ∈ fl :: fs, fl'.id = p.1 := fun hm => by
          obtain ⟨x, hx, hxp⟩ := ih fs es rest hr p hm; exact ⟨x, by simp [hx], hxp⟩
        cases hg : es.get fl.id with
        | some l =>
          simp only [hg] at h
          cases hl : lowerLit d f fl.ty l with
          | none => simp [hl] at h
          | some v =>
            simp only [hl, Option.map_some, Option.some.injEq] at h; subst h
            rcases List.mem_cons.mp hp with rfl | hm
            · exact ⟨fl, by simp, rfl⟩
            · exact lift hm
        | none =>
          simp only [hg] at h
          split at h
          · simp only [Option.some.injEq] at h; subst h
            rcases List.mem_cons.mp hp with rfl | hm
            · exact ⟨fl, by simp, rfl⟩
            · exact lift hm
          · simp only [Option.some.injEq] at h; subst h; exact lift hp

/-- a struct whose first declared field is absent -/
theorem hasFields_skip (P : STy → TVal → Bool) (fl : Field) (fs : List Field) (out : List (Int × TVal))
    (hopt : fl.required = false ∧ fl.dflt = none) (hne : ∀ p ∈ out, p.1 ≠ fl.id)
    (h : hasFields d P fs (TFields.ofList out) = true) : hasFields d P (fl :: fs) (TFields.ofList out) = true := by
  cases out with
  | nil => simp only [TFields.ofList] at h ⊢; simp [hasFields, hopt.1, hopt.2, h]
  | cons p out =>
    obtain ⟨i, v⟩ := p
    simp only [TFields.ofList] at h ⊢
    have : (fl.id == i) = false := by simpa using (hne (i, v) (by simp)).symm
    simp [hasFields, this, hopt.1, hopt.2, h]


def idsOk : Prop := ∀ n fs, d.find n = some (.struct fs) → fs.Pairwise (fun a b => a.id ≠ b.id) ∧ ∀ fl ∈ fs, inS 2 fl.id

theorem lower_typed_all (ht : typedefsOk d) (hi : idsOk d) : ∀ f : Nat,
    (∀ ty lit v, lowerLit d f ty lit = some v → fullLit d f ty lit = true → ∃ F, hasTy d F ty v = true) ∧
    (∀ e xs ys, lowerLitN d f e xs = some ys → fullLits d f e xs = true → ∃ F, ∀ y ∈ ys, hasTy d F e y = true) ∧
    (∀ k v kvs ys, lowerLitP d f k v kvs = some ys → fullPairs d f k v kvs = true →
      ∃ F, ∀ p ∈ ys, hasTy d F k p.1 = true ∧ hasTy d F v p.2 = true) ∧
    (∀ fs es out, fs.Pairwise (fun a b => a.id ≠ b.id) → (∀ fl ∈ fs, inS 2 fl.id) → lowerLitRec d f fs es = some out →
      fullRec d f fs es = true → ∃ F, hasFields d (hasTy d F) fs (TFields.ofList out) = true) := by
  intro f
  induction f with
  | zero => refine ⟨?_, ?_, ?_, ?_⟩ <;> intros <;> simp_all [lowerLit, lowerLitN, lowerLitP, lowerLitRec]
  | succ f ih =>
    obtain ⟨ihT, ihN, ihP, ihR⟩ := ih
    have ihR' : ∀ n fs es out, d.find n = some (.struct fs) → lowerLitRec d f fs es = some out → fullRec d f fs es = true →
        ∃ F, hasFields d (hasTy d F) fs (TFields.ofList out) = true :=
      fun n fs es out hn h1 h2 => ihR fs es out (hi n fs hn).1 (hi n fs hn).2 h1 h2
    refine ⟨?_, ?_, ?_, ?_⟩
    · intro ty lit v h hf
      cases lit with
      | const cty l =>
        simp only [lowerLit] at h
        split at h
        · rename_i heq; subst heq
          simp only [fullLit] at hf
          exact ihT _ _ _ h hf
        · cases h
      | bool b =>
        cases ty <;> (try (simp [lowerLit] at h; done))
        · simp [lowerLit] at h; subst h; exact ⟨1, by simp [hasTy]⟩
        · exact ref_typed d f ihT ihR' _ _ _ (by intro c l hc; cases hc) h hf
      | int n =>
        cases ty <;> (try (simp [lowerLit] at h; done))
        · simp [lowerLit] at h; subst h; exact ⟨1, by simp [hasTy]⟩
        · simp only [lowerLit] at h; split at h <;> simp at h; subst h; exact ⟨1, by simp [hasTy]⟩
        · simp only [lowerLit] at h; split at h <;> simp at h; subst h; exact ⟨1, by simp [hasTy]⟩
        · simp only [lowerLit] at h; split at h <;> simp at h; subst h; exact ⟨1, by simp [hasTy]⟩
        · simp only [lowerLit] at h; split at h <;> simp at h; subst h; exact ⟨1, by simp [hasTy]⟩
        · exact ref_typed d f ihT ihR' _ _ _ (by intro c l hc; cases hc) h hf
      | dbl b =>
        cases ty <;> (try (simp [lowerLit] at h; done))
        · simp only [lowerLit] at h; split at h <;> simp at h; subst h; exact ⟨1, by simp [hasTy]⟩
        · exact ref_typed d f ihT ihR' _ _ _ (by intro c l hc; cases hc) h hf
      | str bs =>
        cases ty <;> (try (simp [lowerLit] at h; done))
        · simp [lowerLit] at h; subst h; exact ⟨1, by simp [hasTy]⟩
        · simp [lowerLit] at h; subst h; exact ⟨1, by simp [hasTy]⟩
        · exact ref_typed d f ihT ihR' _ _ _ (by intro c l hc; cases hc) h hf
      | variant n =>
        cases ty <;> (try (simp [lowerLit] at h; done))
        · simp [lowerLit] at h; subst h; exact ⟨1, by simp [hasTy]⟩
        · simp [lowerLit] at h; subst h; exact ⟨1, by simp [hasTy]⟩
        · simp [lowerLit] at h; subst h; exact ⟨1, by simp [hasTy]⟩
        · simp [lowerLit] at h; subst h; exact ⟨1, by simp [hasTy]⟩
        · exact ref_typed d f ihT ihR' _ _ _ (by intro c l hc; cases hc) h hf
      | strct es =>
        cases ty <;> (try (simp [lowerLit] at h; done))
        exact ref_typed d f ihT ihR' _ _ _ (by intro c l hc; cases hc) h hf
      | list xs =>
        cases ty <;> (try (simp [lowerLit] at h; done))
        · rename_i e
          simp only [lowerLit] at h
          simp only [fullLit] at hf
          cases hx : lowerLitN d f e xs with
          | none => simp [hx] at h
          | some ys =>
            simp only [hx, Option.map_some, Option.some.injEq] at h; subst h
            obtain ⟨F, hF⟩ := ihN e xs ys hx hf
            refine ⟨F + 1, ?_⟩
            simp only [hasTy, beq_self_eq_true, Bool.true_and]
            exact (allV_iff _ _).mpr (by rw [TVals.toList_ofList]; exact hF)
        · rename_i e
          simp only [lowerLit] at h
          simp only [fullLit] at hf
          cases hx : lowerLitN d f e xs with
          | none => simp [hx] at h
          | some ys =>
            simp only [hx, Option.map_some, Option.some.injEq] at h; subst h
            obtain ⟨F, hF⟩ := ihN e xs ys hx hf
            refine ⟨F + 1, ?_⟩
            simp only [hasTy, beq_self_eq_true, Bool.true_and, Bool.and_eq_true]
            obtain ⟨hsub, _⟩ := foldl_setInsert_sub ys []
            refine ⟨(allV_iff _ _).mpr (by
              rw [TVals.toList_ofList]
              intro y hy
              rcases hsub y hy with h0 | h0
              · cases h0
              · exact hF y h0), ?_⟩
            rw [TVals.toList_ofList]
            exact (distinctL_iff _).mpr (foldl_setInsert_nodup_acc ys [] (by simp))
        · exact ref_typed d f ihT ihR' _ _ _ (by intro c l hc; cases hc) h hf
      | map kvs =>
        cases ty <;> (try (simp [lowerLit] at h; done))
        · rename_i k v'
          simp only [lowerLit] at h
          simp only [fullLit] at hf
          cases hx : lowerLitP d f k v' kvs with
          | none => simp [hx] at h
          | some ys =>
            simp only [hx, Option.map_some, Option.some.injEq] at h; subst h
            obtain ⟨F, hF⟩ := ihP k v' kvs ys hx hf
            refine ⟨F + 1, ?_⟩
            simp only [hasTy, beq_self_eq_true, Bool.true_and, Bool.and_eq_true]
            obtain ⟨hsub, _⟩ := foldl_mapInsert_sub ys []
            refine ⟨(allP_iff _ _ _).mpr (by
              rw [TPairs.toList_ofList]
              intro p hp
              obtain ⟨h1, h2⟩ := hsub p hp
              constructor
              · rcases h1 with h0 | h0
                · simp at h0
                · obtain ⟨q, hq, hqp⟩ := List.mem_map.mp h0; rw [← hqp]; exact (hF q hq).1
              · rcases h2 with h0 | h0
                · simp at h0
                · obtain ⟨q, hq, hqp⟩ := List.mem_map.mp h0; rw [← hqp]; exact (hF q hq).2), ?_⟩
            rw [TPairs.toList_ofList]
            exact (distinctL_iff _).mpr (foldl_mapInsert_keys_nodup ys [] (by simp))
        · exact ref_typed d f ihT ihR' _ _ _ (by intro c l hc; cases hc) h hf
    · intro e xs ys h hf
      cases xs with
      | nil => simp only [lowerLitN, Option.some.injEq] at h; subst h; exact ⟨0, fun y hy => by cases hy⟩
      | cons x xs =>
        simp only [lowerLitN] at h
        simp only [fullLits, Bool.and_eq_true] at hf
        cases hx : lowerLit d f e x with
        | none => simp [hx] at h
        | some v =>
          cases hxs : lowerLitN d f e xs with
          | none => simp [hx, hxs] at h
          | some vs =>
            simp only [hx, hxs, Option.some.injEq] at h; subst h
            obtain ⟨F1, h1⟩ := ihT e x v hx hf.1
            obtain ⟨F2, h2⟩ := ihN e xs vs hxs hf.2
            refine ⟨max F1 F2, fun y hy => ?_⟩
            rcases List.mem_cons.mp hy with rfl | hy
            · exact hasTy_mono d F1 _ (Nat.le_max_left _ _) _ _ h1
            · exact hasTy_mono d F2 _ (Nat.le_max_right _ _) _ _ (h2 y hy)
    · intro k v kvs ys h hf
      cases kvs with
      | nil => simp only [lowerLitP, Option.some.injEq] at h; subst h; exact ⟨0, fun y hy => by cases hy⟩
      | cons a b r =>
        simp only [lowerLitP] at h
        simp only [fullPairs, Bool.and_eq_true] at hf
        cases ha : lowerLit d f k a with
        | none => simp [ha] at h
        | some ka =>
          cases hb : lowerLit d f v b with
          | none => simp [ha, hb] at h
          | some vb =>
            cases hr : lowerLitP d f k v r with
            | none => simp [ha, hb, hr] at h
            | some rest =>
              simp only [ha, hb, hr, Option.some.injEq] at h; subst h
              obtain ⟨F1, h1⟩ := ihT k a ka ha hf.1.1
              obtain ⟨F2, h2⟩ := ihT v b vb hb hf.1.2
              obtain ⟨F3, h3⟩ := ihP k v r rest hr hf.2
              refine ⟨max (max F1 F2) F3, fun p hp => ?_⟩
              rcases List.mem_cons.mp hp with rfl | hp
              · exact ⟨hasTy_mono d F1 _ (by omega) _ _ h1, hasTy_mono d F2 _ (by omega) _ _ h2⟩
              · exact ⟨hasTy_mono d F3 _ (by omega) _ _ (h3 p hp).1, hasTy_mono d F3 _ (by omega) _ _ (h3 p hp).2⟩
    · intro fs es out hpw hin h hf
      cases fs with
      | nil => simp only [lowerLitRec, Option.some.injEq] at h; subst h; exact ⟨0, by simp [TFields.ofList, hasFields]⟩
      | cons fl fs =>
        have hp := List.pairwise_cons.mp hpw
        simp only [lowerLitRec] at h
        simp only [fullRec, Bool.and_eq_true] at hf
        cases hr : lowerLitRec d f fs es with
        | none => simp [hr] at h
        | some rest =>
          simp only [hr] at h
          obtain ⟨F2, h2⟩ := ihR fs es rest hp.2 (fun x hx => hin x (by simp [hx])) hr hf.2
          have hne : ∀ p ∈ rest, p.1 ≠ fl.id := by
            intro p hpm heq
            obtain ⟨x, hx, hxp⟩ := lowerLitRec_ids d f fs es rest hr p hpm
            exact hp.1 x hx (by rw [hxp, heq])
          cases hg : es.get fl.id with
          | some l =>
            simp only [hg] at h hf
            cases hl : lowerLit d f fl.ty l with
            | none => simp [hl] at h
            | some v =>
              simp only [hl, Option.map_some, Option.some.injEq] at h; subst h
              obtain ⟨F1, h1⟩ := ihT fl.ty l v hl hf.1
              refine ⟨max F1 F2, ?_⟩
              simp only [TFields.ofList, hasFields, beq_self_eq_true, if_true, Bool.and_eq_true, decide_eq_true_eq, beq_iff_eq]
              refine ⟨⟨⟨hin fl (by simp), (lower_ttype d ht f fl.ty l v hl).symm⟩, hasTy_mono d F1 _ (Nat.le_max_left _ _) _ _ h1⟩, ?_⟩
              exact hasFields_imp d (fun t x hx => hasTy_mono d F2 _ (Nat.le_max_right _ _) t x hx) _ _ h2
          | none =>
            simp only [hg, Bool.and_eq_true, Bool.not_eq_true', Option.isNone_iff_eq_none] at h hf
            have hreq : fl.required = false := hf.1.1
            simp only [hreq, Bool.false_eq_true, if_false, Option.some.injEq] at h; subst h
            exact ⟨F2, hasFields_skip d _ fl fs _ ⟨hreq, hf.1.2⟩ hne h2⟩

end Pilota.Build
