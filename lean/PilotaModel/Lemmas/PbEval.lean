import PilotaModel.Lemmas.PbTop
/-
  Evaluation helpers for concrete witnesses (`encVar` / `varLen` / `Nat.log2` are defined by
  well-founded recursion and do not reduce by `rfl`), and the witnesses of the known findings.
-/
namespace Pilota.Proto
open Pilota

theorem encVar_small (n : Nat) (h : n < 128) : encVar n = [UInt8.ofNat n] := by rw [encVar]; simp [h]

theorem encodedLenVarint_small (n : Nat) (h : n < 128) : encodedLenVarint n = 1 := by
  rw [encodedLenVarint_eq n (Nat.lt_trans h (by decide)), varLen]; simp [h]

/-! ### PB2: a negative-zero map value does not survive encode/decode when the feature is off -/

def negzeroSchema : Schema := [[.map 1 .int32 (.scalar .float)]]
def negzeroMsg : Slots := .cons (.map (.cons (.int 1) (.s (.f32 0x80000000)) .nil)) .nil
def poszeroMsg : Slots := .cons (.map (.cons (.int 1) (.s (.f32 0)) .nil)) .nil

theorem negzero_encode : encode negzeroSchema false 0 negzeroMsg = [0x0a, 0x02, 0x08, 0x01] := by
  simp [encode, negzeroSchema, negzeroMsg, decls, encSlots, encSlot, encPairs, keyBytes, encodeVarint, WireType.code,
    SVal.isDefault, EVal.isDefault, Codec.encodedLen, Codec.encode, Codec.wt, Codec.shape, Codec.payloadLen, Codec.encPayload,
    Codec.toU64, keyLen, SVal.asInt, toU]
  rw [encodedLenVarint_small 8 (by decide), encodedLenVarint_small 1 (by decide), encVar_small 10 (by decide),
    encVar_small 8 (by decide), encVar_small 1 (by decide), encVar_small 2 (by decide)]
  rfl

theorem negzero_decode : decode negzeroSchema 0 [0x0a, 0x02, 0x08, 0x01] = .ok poszeroMsg := by rfl

end Pilota.Proto
