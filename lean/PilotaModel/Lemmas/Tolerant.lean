import PilotaModel.TGen.Project
import PilotaModel.Lemmas.SkipBin
/-
  Correspondence between the emitted decoder run on the binary encoding of a wire value and its
  value-level shadow `projTy` — for every document, declared type, well-typed wire value inside the
  shadow's domain, endianness, depth budget, trailing input and fuel.
-/
namespace Pilota.TGen
open Pilota Pilota.Thrift Pilota.Thrift.Binary

variable (e : Endian) (dp : Option Nat) (d : Doc)

def withRest {α} (rest : Bytes) (o : Out α) : Out (α × Bytes) := mapOut (fun v => (v, rest)) o

theorem fieldBegin_nil (rest : Bytes) :
    (binRd e dp).fieldBegin (encFields e .nil ++ rest) = .ok ((.stop, 0), rest) := by
  simp [binRd, encFields, readFieldBegin, readTType, readByte, TType.ofByte]

theorem fieldBegin_cons (id : Int) (v : TVal) (r : TFields) (hid : inS 2 id) (rest : Bytes) :
    (binRd e dp).fieldBegin (encFields e (.cons id v r) ++ rest) =
      .ok ((v.ttype, id), enc e v ++ (encFields e r ++ rest)) := by
  have hns : v.ttype ≠ .stop := ttype_isValue_ne_stop _ (val_ttype_isValue v)
  simp only [binRd, encFields, readFieldBegin, List.cons_append, List.append_assoc, readTType_cons, hns, if_false]
  rw [readI_i e 2 (by decide) id hid]

theorem skip_enc (hed : EndianOk e dp) (v : TVal) (hw : v.wt = true) (hd : admits dp v.need) (rest : Bytes) :
    (binRd e dp).skip v.ttype (enc e v ++ rest) = .ok rest :=
  binRd_skip_enc e dp hed v hw hd rest

theorem base_dec (v : TVal) (ty : STy) (hw : v.wt = true) (f : Nat) (rest : Bytes)
    (hb : (match ty, v with
      | .bool, .bool _ | .i8, .i8 _ | .i16, .i16 _ | .i32, .i32 _ | .i64, .i64 _ | .double, .dbl _
      | .string, .bin _ | .binary, .bin _ | .uuid, .uuid _ => true
      | _, _ => false) = true) :
    decTy (binRd e dp) d (f + 1) ty (enc e v ++ rest) = .ok (v, rest) := by
  cases v <;> cases ty <;> simp at hb <;> simp [TVal.wt] at hw
  case bool.bool b =>
    rw [decTy]
    cases b <;> simp [binRd, enc, readI, readU, takeN, mapOut, toS] <;> cases e <;> simp [decFixed, beToNat, leToNat] <;> decide
  case i8.i8 n => rw [decTy]; simp [binRd, enc, readI_i e 1 (by decide) n hw, mapOut]
  case i16.i16 n => rw [decTy]; simp [binRd, enc, readI_i e 2 (by decide) n hw, mapOut]
  case i32.i32 n => rw [decTy]; simp [binRd, enc, readI_i e 4 (by decide) n hw, mapOut]
  case i64.i64 n => rw [decTy]; simp [binRd, enc, readI_i e 8 (by decide) n hw, mapOut]
  case dbl.double b =>
    have : b % 256 ^ 8 = b := Nat.mod_eq_of_lt (by have : (256:Nat)^8 = 2^64 := by decide
                                                   omega)
    rw [decTy]; simp [binRd, enc, readU_enc, this, mapOut]
  case bin.string bs => rw [decTy]; simp [binRd, enc, List.append_assoc, readBytes_enc e bs rest hw, mapOut]
  case bin.binary bs => rw [decTy]; simp [binRd, enc, List.append_assoc, readBytes_enc e bs rest hw, mapOut]
  case uuid.uuid bs => rw [decTy]; simp [binRd, enc, takeN_append' 16 bs rest hw, mapOut]

end Pilota.TGen

namespace Pilota.TGen
open Pilota Pilota.Thrift Pilota.Thrift.Binary

variable (e : Endian) (dp : Option Nat) (d : Doc)

/-- the five correspondence statements at fuel `f` -/
def CorrT (f : Nat) : Prop := ∀ ty w rest o, w.wt = true → projTy d dp f ty w = some o →
  decTy (binRd e dp) d f ty (enc e w ++ rest) = withRest rest o
def CorrN (f : Nat) : Prop := ∀ el xs et acc rest o, xs.wt et = true → projN d dp f el xs acc = some o →
  decN (binRd e dp) d f el xs.length acc (encVals e xs ++ rest) = withRest rest o
def CorrP (f : Nat) : Prop := ∀ k v kvs kt vt acc rest o, kvs.wt kt vt = true → projPairs d dp f k v kvs acc = some o →
  decPairs (binRd e dp) d f k v kvs.length acc (encPairs e kvs ++ rest) = withRest rest o
def CorrF (f : Nat) : Prop := ∀ fs slots wfs rest o, wfs.wt = true → projFields d dp f fs slots wfs = some o →
  decFields (binRd e dp) d f fs slots (encFields e wfs ++ rest) = withRest rest o
def CorrU (f : Nat) : Prop := ∀ vs ret wfs rest o, wfs.wt = true → projUnion d dp f vs ret wfs = some o →
  decUnion (binRd e dp) d f vs ret (encFields e wfs ++ rest) = withRest rest o

theorem corrN_succ (f : Nat) (hT : CorrT e dp d f) (hN : CorrN e dp d f) : CorrN e dp d (f + 1) := by
  intro el xs et acc rest o hw h
  cases xs with
  | nil =>
    simp only [projN] at h; cases h
    simp [decN, TVals.length, encVals, withRest, mapOut]
  | cons x xs =>
    simp [TVals.wt] at hw
    obtain ⟨⟨_, hx⟩, hxs⟩ := hw
    simp only [projN] at h
    simp only [TVals.length, encVals, List.append_assoc, decN]
    cases hp : projTy d dp f el x with
    | none => simp [hp] at h
    | some ox =>
      rw [hT el x _ ox hx hp]
      cases ox with
      | ok v =>
        simp only [hp] at h
        simp only [withRest, mapOut]
        exact hN el xs et _ rest o hxs h
      | err k => simp [hp] at h; subst h; rfl
      | panic m => simp [hp] at h; subst h; rfl
      | fuel => simp [hp] at h; subst h; rfl

theorem corrP_succ (f : Nat) (hT : CorrT e dp d f) (hP : CorrP e dp d f) : CorrP e dp d (f + 1) := by
  intro k v kvs kt vt acc rest o hw h
  cases kvs with
  | nil =>
    simp only [projPairs] at h; cases h
    simp [decPairs, TPairs.length, encPairs, withRest, mapOut]
  | cons a b r =>
    simp [TPairs.wt] at hw
    obtain ⟨⟨⟨⟨_, _⟩, ha⟩, hb⟩, hr⟩ := hw
    simp only [projPairs] at h
    simp only [TPairs.length, encPairs, List.append_assoc, decPairs]
    cases hpa : projTy d dp f k a with
    | none => simp [hpa] at h
    | some oa =>
      rw [hT k a _ oa ha hpa]
      cases oa with
      | ok ka =>
        simp only [hpa] at h
        simp only [withRest, mapOut]
        cases hpb : projTy d dp f v b with
        | none => simp [hpb] at h
        | some ob =>
          rw [hT v b _ ob hb hpb]
          cases ob with
          | ok vb =>
            simp only [hpb] at h
            simp only [withRest, mapOut]
            exact hP k v r kt vt _ rest o hr h
          | err x => simp [hpb] at h; subst h; rfl
          | panic m => simp [hpb] at h; subst h; rfl
          | fuel => simp [hpb] at h; subst h; rfl
      | err x => simp [hpa] at h; subst h; rfl
      | panic m => simp [hpa] at h; subst h; rfl
      | fuel => simp [hpa] at h; subst h; rfl

theorem corrF_succ (hed : EndianOk e dp) (f : Nat) (hT : CorrT e dp d f) (hF : CorrF e dp d f) : CorrF e dp d (f + 1) := by
  intro fs slots wfs rest o hw h
  cases wfs with
  | nil =>
    simp only [projFields] at h; cases h
    rw [decFields, fieldBegin_nil]; simp [withRest, mapOut]
  | cons id v r =>
    simp [TFields.wt] at hw
    obtain ⟨⟨hid, hv⟩, hr⟩ := hw
    simp only [projFields, hid, not_true_eq_false, if_false] at h
    have hns : v.ttype ≠ .stop := ttype_isValue_ne_stop _ (val_ttype_isValue v)
    rw [decFields, fieldBegin_cons e dp id v r hid]
    simp only [hns, if_false]
    cases hfind : fs.find? (fun fl => fl.id == id && d.ttype fl.ty == v.ttype) with
    | some fl =>
      simp only [hfind] at h ⊢
      cases hp : projTy d dp f fl.ty v with
      | none => simp [hp] at h
      | some ov =>
        rw [hT fl.ty v _ ov hv hp]
        cases ov with
        | ok pv =>
          simp only [hp] at h
          simp only [withRest, mapOut]
          exact hF fs _ r rest o hr h
        | err x => simp [hp] at h; subst h; rfl
        | panic m => simp [hp] at h; subst h; rfl
        | fuel => simp [hp] at h; subst h; rfl
    | none =>
      simp only [hfind] at h ⊢
      by_cases hadm : admitsB dp v.need = true
      · simp only [hadm, if_true] at h
        rw [skip_enc e dp hed v hv ((admitsB_iff dp _).mp hadm)]
        exact hF fs slots r rest o hr h
      · simp [hadm] at h

theorem corrU_succ (hed : EndianOk e dp) (f : Nat) (hT : CorrT e dp d f) (hU : CorrU e dp d f) : CorrU e dp d (f + 1) := by
  intro vs ret wfs rest o hw h
  cases wfs with
  | nil =>
    simp only [projUnion] at h; cases h
    rw [decUnion, fieldBegin_nil]; simp [withRest, mapOut]
  | cons id v r =>
    simp [TFields.wt] at hw
    obtain ⟨⟨hid, hv⟩, hr⟩ := hw
    simp only [projUnion, hid, not_true_eq_false, if_false] at h
    have hns : v.ttype ≠ .stop := ttype_isValue_ne_stop _ (val_ttype_isValue v)
    rw [decUnion, fieldBegin_cons e dp id v r hid]
    simp only [hns, if_false]
    cases hfind : vs.find? (fun x => x.1 == id && !(x.2 == .void)) with
    | some p =>
      obtain ⟨pid, ty⟩ := p
      simp only [hfind] at h ⊢
      by_cases hret : ret.isSome = true
      · simp only [hret, if_true] at h ⊢
        cases h; rfl
      · simp only [hret, if_false] at h ⊢
        by_cases htt : (d.ttype ty != v.ttype) = true
        · simp [htt] at h
        · simp only [htt, if_false] at h
          cases hp : projTy d dp f ty v with
          | none => simp [hp] at h
          | some ov =>
            rw [hT ty v _ ov hv hp]
            cases ov with
            | ok pv =>
              simp only [hp] at h
              simp only [withRest, mapOut]
              exact hU vs _ r rest o hr h
            | err x => simp [hp] at h; subst h; rfl
            | panic m => simp [hp] at h; subst h; rfl
            | fuel => simp [hp] at h; subst h; rfl
    | none =>
      simp only [hfind] at h ⊢
      by_cases hadm : admitsB dp v.need = true
      · simp only [hadm, if_true] at h
        rw [skip_enc e dp hed v hv ((admitsB_iff dp _).mp hadm)]
        exact hU vs ret r rest o hr h
      · simp [hadm] at h

end Pilota.TGen

namespace Pilota.TGen
open Pilota Pilota.Thrift Pilota.Thrift.Binary

variable (e : Endian) (dp : Option Nat) (d : Doc)

theorem listBegin_enc (et : TType) (xs : TVals) (hx : xs.wt et = true) (hl : xs.length < 2 ^ 31) (rest : Bytes) :
    (binRd e dp).listBegin (UInt8.ofNat et.toByte :: (i e 4 (toS 4 xs.length) ++ (encVals e xs ++ rest))) =
      .ok ((et, xs.length), encVals e xs ++ rest) := by
  show readListBegin e _ = _
  rw [readListBegin_enc e et _ hl _ (by have := vals_length_le e xs et hx; simp only [List.length_append]; omega)]

theorem mapBegin_enc (kt vt : TType) (kvs : TPairs) (hx : kvs.wt kt vt = true) (hl : kvs.length < 2 ^ 31) (rest : Bytes) :
    (binRd e dp).mapBegin (UInt8.ofNat kt.toByte :: UInt8.ofNat vt.toByte :: (i e 4 (toS 4 kvs.length) ++ (encPairs e kvs ++ rest))) =
      .ok ((kt, vt, kvs.length), encPairs e kvs ++ rest) := by
  show readMapBegin e _ = _
  rw [readMapBegin_enc e kt vt _ hl _ (by have := pairs_length_le e kvs kt vt hx; simp only [List.length_append]; omega)]

theorem corrT_succ (f : Nat) (hT : CorrT e dp d f) (hN : CorrN e dp d f) (hP : CorrP e dp d f)
    (hF : CorrF e dp d f) (hU : CorrU e dp d f) : CorrT e dp d (f + 1) := by
  intro ty w rest o hw h
  cases ty with
  | list el =>
    cases w <;> simp only [projTy] at h <;> try (cases h; done)
    rename_i et xs
    simp [TVal.wt] at hw
    obtain ⟨⟨_, hl⟩, hx⟩ := hw
    simp only [enc, List.cons_append, List.append_assoc]
    rw [decTy, listBegin_enc e dp et xs hx hl]
    simp only
    cases hp : projN d dp f el xs [] with
    | none => simp [hp] at h
    | some oy =>
      rw [hN el xs et [] rest oy hx hp]
      cases oy <;> simp [hp] at h <;> subst h <;> rfl
  | set el =>
    cases w <;> simp only [projTy] at h <;> try (cases h; done)
    rename_i et xs
    simp [TVal.wt] at hw
    obtain ⟨⟨_, hl⟩, hx⟩ := hw
    simp only [enc, List.cons_append, List.append_assoc]
    rw [decTy, listBegin_enc e dp et xs hx hl]
    simp only
    cases hp : projN d dp f el xs [] with
    | none => simp [hp] at h
    | some oy =>
      rw [hN el xs et [] rest oy hx hp]
      cases oy <;> simp [hp] at h <;> subst h <;> rfl
  | map k v =>
    cases w <;> simp only [projTy] at h <;> try (cases h; done)
    rename_i kt vt kvs
    simp [TVal.wt] at hw
    obtain ⟨⟨⟨_, _⟩, hl⟩, hx⟩ := hw
    simp only [enc, List.cons_append, List.append_assoc]
    rw [decTy, mapBegin_enc e dp kt vt kvs hx hl]
    simp only
    cases hp : projPairs d dp f k v kvs [] with
    | none => simp [hp] at h
    | some oy =>
      rw [hP k v kvs kt vt [] rest oy hx hp]
      cases oy <;> simp [hp] at h <;> subst h <;> rfl
  | ref n =>
    simp only [projTy] at h
    rw [decTy]
    cases hfind : d.find n with
    | none => simp [hfind] at h ⊢; subst h; rfl
    | some df =>
      cases df with
      | struct fs =>
        simp only [hfind] at h ⊢
        cases w <;> simp only at h <;> try (cases h; done)
        rename_i wfs
        simp [TVal.wt] at hw
        simp only [enc]
        cases hp : projFields d dp f fs [] wfs with
        | none => simp [hp] at h
        | some os =>
          have hb : (binRd e dp).structBegin (encFields e wfs ++ rest) = encFields e wfs ++ rest := rfl
          rw [hb, hF fs [] wfs rest os hw hp]
          cases os with
          | ok slots =>
            simp only [hp] at h
            simp only [withRest, mapOut]
            have hse : (binRd e dp).structEnd rest = .ok rest := rfl
            rw [hse]
            simp only
            cases hfin : finish fs slots <;> simp [hfin] at h ⊢ <;> subst h <;> rfl
          | err x => simp [hp] at h; subst h; rfl
          | panic m => simp [hp] at h; subst h; rfl
          | fuel => simp [hp] at h; subst h; rfl
      | union vs =>
        simp only [hfind] at h ⊢
        cases w <;> simp only at h <;> try (cases h; done)
        rename_i wfs
        simp [TVal.wt] at hw
        simp only [enc]
        cases hp : projUnion d dp f vs none wfs with
        | none => simp [hp] at h
        | some os =>
          have hb : (binRd e dp).structBegin (encFields e wfs ++ rest) = encFields e wfs ++ rest := rfl
          rw [hb, hU vs none wfs rest os hw hp]
          cases os with
          | ok ret =>
            simp only [hp] at h
            simp only [withRest, mapOut]
            have hse : (binRd e dp).structEnd rest = .ok rest := rfl
            rw [hse]
            simp only
            cases ret with
            | some p => obtain ⟨id, v⟩ := p; simp at h; subst h; rfl
            | none =>
              simp only at h ⊢
              split at h <;> (cases h; first | rfl | skip)
              all_goals (split <;> simp_all [withRest, mapOut])
          | err x => simp [hp] at h; subst h; rfl
          | panic m => simp [hp] at h; subst h; rfl
          | fuel => simp [hp] at h; subst h; rfl
      | enum =>
        simp only [hfind] at h ⊢
        cases w <;> simp only at h <;> try (cases h; done)
        rename_i n
        cases h
        have := base_dec e dp d (.i32 n) .i32 hw 0 rest rfl
        rw [decTy] at this
        simp only [withRest, mapOut]
        exact this
      | typedef t =>
        simp only [hfind] at h ⊢
        exact hT t w rest o hw h
  | void => simp only [projTy] at h; cases h; rw [decTy]; rfl
  | bool => cases w <;> simp only [projTy] at h <;> try (cases h; done)
            cases h; exact base_dec e dp d _ .bool hw f rest rfl
  | i8 => cases w <;> simp only [projTy] at h <;> try (cases h; done)
          cases h; exact base_dec e dp d _ .i8 hw f rest rfl
  | i16 => cases w <;> simp only [projTy] at h <;> try (cases h; done)
           cases h; exact base_dec e dp d _ .i16 hw f rest rfl
  | i32 => cases w <;> simp only [projTy] at h <;> try (cases h; done)
           cases h; exact base_dec e dp d _ .i32 hw f rest rfl
  | i64 => cases w <;> simp only [projTy] at h <;> try (cases h; done)
           cases h; exact base_dec e dp d _ .i64 hw f rest rfl
  | double => cases w <;> simp only [projTy] at h <;> try (cases h; done)
              cases h; exact base_dec e dp d _ .double hw f rest rfl
  | string => cases w <;> simp only [projTy] at h <;> try (cases h; done)
              cases h; exact base_dec e dp d _ .string hw f rest rfl
  | binary => cases w <;> simp only [projTy] at h <;> try (cases h; done)
              cases h; exact base_dec e dp d _ .binary hw f rest rfl
  | uuid => cases w <;> simp only [projTy] at h <;> try (cases h; done)
            cases h; exact base_dec e dp d _ .uuid hw f rest rfl

end Pilota.TGen

namespace Pilota.TGen
open Pilota Pilota.Thrift Pilota.Thrift.Binary

variable (e : Endian) (dp : Option Nat) (d : Doc)

theorem corr_all (hed : EndianOk e dp) : ∀ f : Nat, CorrT e dp d f ∧ CorrN e dp d f ∧ CorrP e dp d f ∧ CorrF e dp d f ∧ CorrU e dp d f := by
  intro f
  induction f with
  | zero =>
    refine ⟨?_, ?_, ?_, ?_, ?_⟩
    · intro ty w rest o _ h; simp only [projTy] at h; cases h; rfl
    · intro el xs et acc rest o _ h; simp only [projN] at h; cases h; rfl
    · intro k v kvs kt vt acc rest o _ h; simp only [projPairs] at h; cases h; rfl
    · intro fs slots wfs rest o _ h; simp only [projFields] at h; cases h; rfl
    · intro vs ret wfs rest o _ h; simp only [projUnion] at h; cases h; rfl
  | succ f ih =>
    obtain ⟨hT, hN, hP, hF, hU⟩ := ih
    exact ⟨corrT_succ e dp d f hT hN hP hF hU, corrN_succ e dp d f hT hN, corrP_succ e dp d f hT hP,
      corrF_succ e dp d hed f hT hF, corrU_succ e dp d hed f hT hU⟩

end Pilota.TGen
