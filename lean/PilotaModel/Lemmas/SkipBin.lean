import PilotaModel.Props.C07
import PilotaModel.TGen.Reader
/-  The skipper an emitted decoder calls consumes exactly the encoding of a well-typed value
    (from the C07 theorems about Thrift/Skip.lean). -/
namespace Pilota.TGen
open Pilota Pilota.Thrift Pilota.Thrift.Binary

/-- depth budget `dp` admits nesting `n` (`none` = the unchecked codec's iterative skipper: no limit) -/
def admits (dp : Option Nat) (n : Nat) : Prop := match dp with | none => True | some d => n ≤ d

/-- the iterative skipper exists for the big-endian unchecked reader only -/
def EndianOk (e : Endian) (dp : Option Nat) : Prop := dp = none → e = .be

theorem binRd_skip_enc (e : Endian) (dp : Option Nat) (hed : EndianOk e dp) (v : TVal) (hw : v.wt = true)
    (hd : admits dp v.need) (rest : Bytes) :
    (binRd e dp).skip v.ttype (enc e v ++ rest) = .ok rest := by
  cases dp with
  | some dpt =>
    have := Pilota.Props.C07.skip_exact e v hw (dpt : Int) (by simp [admits] at hd; omega) rest
    rw [Binary.run_ops] at this
    simp [binRd, this, mapOut]
  | none =>
    have he : e = .be := hed rfl
    subst he
    have := Pilota.Props.C07.iter_skip_exact v hw rest
    rw [Binary.run_ops] at this
    simp [binRd, this, mapOut]

end Pilota.TGen
