import PilotaModel.Lemmas.BinaryRT
import PilotaModel.TGen.Reader
/-  The default recursive skipper (binary widths) consumes exactly the encoding of a well-typed value. -/
namespace Pilota.TGen
open Pilota Pilota.Thrift Pilota.Thrift.Binary

/-- depth budget `dp` admits nesting `n` (`none` = the unchecked codec's iterative skipper: no limit) -/
def admits (dp : Option Nat) (n : Nat) : Prop := match dp with | none => True | some d => n ≤ d

theorem admits_pred (dp : Option Nat) (n : Nat) (h : admits dp (n + 1)) : admits (dp.map (· - 1)) n := by
  cases dp with
  | none => trivial
  | some d => simp [admits] at *; omega

theorem admits_mono (dp : Option Nat) (a b : Nat) (hab : a ≤ b) (h : admits dp b) : admits dp a := by
  cases dp with
  | none => trivial
  | some d => simp [admits] at *; omega

theorem not_zero_of_admits (dp : Option Nat) (n : Nat) (h : admits dp (n + 1)) : dp ≠ some 0 := by
  cases dp with
  | none => simp
  | some d => simp [admits] at *; omega

theorem takeN_drop (n : Nat) (a r : Bytes) (h : a.length = n) : mapOut (·.2) (takeN n (a ++ r)) = .ok r := by
  rw [takeN_append' n a r h]; rfl

mutual
theorem skipBin_enc (e : Endian) (v : TVal) (hw : v.wt = true) (f : Nat) (hf : v.size ≤ f) (dp : Option Nat)
    (hd : admits dp v.need) (r : Bytes) :
    skipBin e f dp v.ttype (enc e v ++ r) = .ok r := by
  cases f with
  | zero => cases v <;> simp [TVal.size] at hf
  | succ f =>
    have hnz : dp ≠ some 0 := by
      apply not_zero_of_admits dp (v.need - 1)
      have : 1 ≤ v.need := by cases v <;> simp [TVal.need]
      rwa [Nat.sub_add_cancel this]
    rw [skipBin]
    simp only [hnz, if_false]
    cases v with
    | bool b => simp only [TVal.ttype, enc]; exact takeN_drop 1 _ r (by simp)
    | i8 n => simp only [TVal.ttype, enc]; exact takeN_drop 1 _ r (by simp [i])
    | i16 n => simp only [TVal.ttype, enc]; exact takeN_drop 2 _ r (by simp [i])
    | i32 n => simp only [TVal.ttype, enc]; exact takeN_drop 4 _ r (by simp [i])
    | i64 n => simp only [TVal.ttype, enc]; exact takeN_drop 8 _ r (by simp [i])
    | dbl b => simp only [TVal.ttype, enc]; exact takeN_drop 8 _ r (by simp)
    | uuid bs => simp [TVal.wt] at hw; simp only [TVal.ttype, enc]; exact takeN_drop 16 _ r hw
    | bin bs =>
      simp [TVal.wt] at hw
      simp only [TVal.ttype, enc, List.append_assoc]
      rw [readLen e bs.length hw]
      simp only [asUsize_toS4 _ hw]
      exact takeN_drop _ bs r rfl
    | struct fs =>
      simp [TVal.wt] at hw; simp [TVal.size] at hf
      simp only [TVal.ttype, enc]
      exact skipBinFields_enc e fs hw f hf _ (admits_pred dp _ (by simpa [TVal.need] using hd)) r
    | list et xs =>
      simp [TVal.wt] at hw; simp [TVal.size] at hf
      obtain ⟨⟨_, hl⟩, hx⟩ := hw
      simp only [TVal.ttype, enc, List.cons_append, List.append_assoc]
      rw [readListBegin_enc e et _ hl _ (by have := vals_length_le e xs et hx; simp only [List.length_append]; omega)]
      exact skipBinN_enc e et xs hx f hf _ (admits_pred dp _ (by simpa [TVal.need] using hd)) r
    | set et xs =>
      simp [TVal.wt] at hw; simp [TVal.size] at hf
      obtain ⟨⟨_, hl⟩, hx⟩ := hw
      simp only [TVal.ttype, enc, List.cons_append, List.append_assoc]
      rw [readListBegin_enc e et _ hl _ (by have := vals_length_le e xs et hx; simp only [List.length_append]; omega)]
      exact skipBinN_enc e et xs hx f hf _ (admits_pred dp _ (by simpa [TVal.need] using hd)) r
    | map kt vt kvs =>
      simp [TVal.wt] at hw; simp [TVal.size] at hf
      obtain ⟨⟨⟨_, _⟩, hl⟩, hx⟩ := hw
      simp only [TVal.ttype, enc, List.cons_append, List.append_assoc]
      rw [readMapBegin_enc e kt vt _ hl _ (by have := pairs_length_le e kvs kt vt hx; simp only [List.length_append]; omega)]
      exact skipBinPairs_enc e kt vt kvs hx f hf _ (admits_pred dp _ (by simpa [TVal.need] using hd)) r
theorem skipBinFields_enc (e : Endian) (fs : TFields) (hw : fs.wt = true) (f : Nat) (hf : fs.size ≤ f) (dp : Option Nat)
    (hd : admits dp fs.need) (r : Bytes) :
    skipBinFields e f dp (encFields e fs ++ r) = .ok r := by
  cases f with
  | zero => cases fs <;> simp [TFields.size] at hf
  | succ f =>
    cases fs with
    | nil => simp [encFields, skipBinFields, readFieldBegin, readTType, readByte, TType.ofByte]
    | cons id v rest =>
      simp [TFields.wt] at hw; simp [TFields.size] at hf
      obtain ⟨⟨hid, hv⟩, hr⟩ := hw
      have hns : v.ttype ≠ .stop := ttype_isValue_ne_stop _ (val_ttype_isValue v)
      simp only [encFields, skipBinFields, readFieldBegin, List.cons_append, List.append_assoc, readTType_cons, hns, if_false]
      rw [readI_i e 2 (by decide) id hid]
      simp only [hns, if_false]
      rw [skipBin_enc e v hv f (by omega) dp (admits_mono dp _ _ (by simp [TFields.need]; omega) hd)]
      exact skipBinFields_enc e rest hr f (by omega) dp (admits_mono dp _ _ (by simp [TFields.need]; omega) hd) r
theorem skipBinN_enc (e : Endian) (et : TType) (xs : TVals) (hw : xs.wt et = true) (f : Nat) (hf : xs.size ≤ f) (dp : Option Nat)
    (hd : admits dp xs.need) (r : Bytes) :
    skipBinN e f dp et xs.length (encVals e xs ++ r) = .ok r := by
  cases f with
  | zero => cases xs <;> simp [TVals.size] at hf
  | succ f =>
    cases xs with
    | nil => simp [encVals, skipBinN, TVals.length]
    | cons v vs =>
      simp [TVals.wt] at hw; simp [TVals.size] at hf
      obtain ⟨⟨ht, hv⟩, hr⟩ := hw
      simp only [encVals, TVals.length, skipBinN, List.append_assoc]
      rw [← ht, skipBin_enc e v hv f (by omega) dp (admits_mono dp _ _ (by simp [TVals.need]; omega) hd)]
      rw [ht]
      exact skipBinN_enc e et vs hr f (by omega) dp (admits_mono dp _ _ (by simp [TVals.need]; omega) hd) r
theorem skipBinPairs_enc (e : Endian) (kt vt : TType) (kvs : TPairs) (hw : kvs.wt kt vt = true) (f : Nat) (hf : kvs.size ≤ f)
    (dp : Option Nat) (hd : admits dp kvs.need) (r : Bytes) :
    skipBinPairs e f dp kt vt kvs.length (encPairs e kvs ++ r) = .ok r := by
  cases f with
  | zero => cases kvs <;> simp [TPairs.size] at hf
  | succ f =>
    cases kvs with
    | nil => simp [encPairs, skipBinPairs, TPairs.length]
    | cons k v rest =>
      simp [TPairs.wt] at hw; simp [TPairs.size] at hf
      obtain ⟨⟨⟨⟨hk, hv⟩, hkw⟩, hvw⟩, hr⟩ := hw
      simp only [encPairs, TPairs.length, skipBinPairs, List.append_assoc]
      rw [← hk, skipBin_enc e k hkw f (by omega) dp (admits_mono dp _ _ (by simp [TPairs.need]; omega) hd)]
      simp only
      rw [← hv, skipBin_enc e v hvw f (by omega) dp (admits_mono dp _ _ (by simp [TPairs.need]; omega) hd)]
      simp only
      rw [hk, hv]
      exact skipBinPairs_enc e kt vt rest hr f (by omega) dp (admits_mono dp _ _ (by simp [TPairs.need]; omega) hd) r
end

end Pilota.TGen
