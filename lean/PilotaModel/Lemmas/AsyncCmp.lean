import PilotaModel.Lemmas.AsyncBin
import PilotaModel.Lemmas.Varint
/-  `TAsyncCompactProtocol` primitives on flat bytes vs. the in-memory `TCompactInputProtocol`. -/
namespace Pilota.Thrift.Async
open Pilota Pilota.Thrift Pilota.Thrift.Compact

namespace ACmp
open ABin (runF_ret runF_fail)

/-- reshape `(result, state, rest)` to the async programs' `((result, state), rest)`. -/
def pack {α} : Out (α × CR × Bytes) → Out ((α × CR) × Bytes)
  | .ok (a, s, r) => .ok ((a, s), r)
  | .err k => .err k | .panic m => .panic m | .fuel => .fuel

theorem pack_ok {α} (x : Out (α × CR × Bytes)) (a : α) (s : CR) (r : Bytes) :
    pack x = .ok ((a, s), r) ↔ x = .ok (a, s, r) := by
  cases x with
  | ok p => obtain ⟨a', s', r'⟩ := p; simp [pack, and_assoc]
  | err k => simp [pack]
  | panic m => simp [pack]
  | fuel => simp [pack]

theorem runF_readByte (bs : Bytes) : runF readByte bs = Compact.readByte bs := ABin.runF_readByte bs

theorem ttypeOfCompact_ne_void (n : Nat) : ttypeOfCompact n ≠ some .void := by
  unfold ttypeOfCompact; split <;> simp

theorem runF_gatherVar (m : Nat) (bs : Bytes) : runF (gatherVar m) bs = Pilota.gatherVar m bs := by
  induction m generalizing bs with
  | zero =>
    cases bs with
    | nil => simp [gatherVar, runF, Pilota.gatherVar, Binary.takeN]
    | cons b r => simp [gatherVar, runF, Pilota.gatherVar, Binary.takeN]
  | succ m ih =>
    cases bs with
    | nil => simp [gatherVar, runF, Pilota.gatherVar, Binary.takeN]
    | cons b r =>
      simp only [gatherVar, runF, Pilota.gatherVar, Binary.takeN, List.length_cons, Nat.le_add_left, if_true,
        List.take_succ_cons, List.take_zero, List.drop_succ_cons, List.drop_zero, List.headD_cons]
      by_cases hb : b.toNat < 128
      · simp [hb]
      · simp only [hb, if_false, runF_bind, ih, bindP]
        cases Pilota.gatherVar m r with
        | ok p => rfl
        | err k => rfl
        | panic s => rfl
        | fuel => rfl

theorem runF_readVarU (w : Nat) (bs : Bytes) : runF (readVarU w) bs = Pilota.readVarU w bs := by
  simp only [readVarU, runF_bind, runF_gatherVar, Pilota.readVarU, bindP]
  cases Pilota.gatherVar (varMaxSize w) bs with
  | ok p => rfl
  | err k => rfl
  | panic s => rfl
  | fuel => rfl

theorem runF_readVarS (w : Nat) (bs : Bytes) : runF (readVarS w) bs = Pilota.readVarS w bs := by
  simp only [readVarS, runF_bind, runF_gatherVar, Pilota.readVarS, bindP]
  cases Pilota.gatherVar (varMaxSize w) bs with
  | ok p => rfl
  | err k => rfl
  | panic s => rfl
  | fuel => rfl

theorem runF_readFieldBegin (s : CR) (bs : Bytes) : runF (readFieldBegin s) bs = pack (Compact.readFieldBegin s bs) := by
  simp only [readFieldBegin, runF_bind, runF_readByte, Compact.readFieldBegin, bindP]
  cases Compact.readByte bs with
  | ok p =>
    obtain ⟨b, r⟩ := p
    simp only
    generalize (if b % 16 = 1 then ({ s with pendingBool := some true } : CR)
      else if b % 16 = 2 then { s with pendingBool := some false } else s) = s1
    cases ht : ttypeOfCompact (b % 16) with
    | none => simp [pack]
    | some t =>
      have hnv : t ≠ .void := fun hv => ttypeOfCompact_ne_void _ (hv ▸ ht)
      by_cases hd : b / 16 ≠ 0
      · by_cases hid : s1.last + ((b / 16 : Nat) : Int) ≤ 32767
        · cases t <;> first | (exfalso; exact hnv rfl) | simp [-Int.natCast_ediv, hd, hid, pack]
        · cases t <;> first | (exfalso; exact hnv rfl) | simp [-Int.natCast_ediv, hd, hid, pack]
      · cases t <;> first | (exfalso; exact hnv rfl) | (simp [pack]; done) |
          (simp only [hd, if_false, runF_bind, runF_readVarS, bindP]
           cases Pilota.readVarS 2 r with
           | ok q => rfl
           | err k => rfl
           | panic m => rfl
           | fuel => rfl)
  | err k => rfl
  | panic m => rfl
  | fuel => rfl

theorem runF_readBool (s : CR) (bs : Bytes) : runF (readBool s) bs = pack (Compact.readBool s bs) := by
  simp only [readBool, Compact.readBool]
  cases s.pendingBool with
  | some b => simp [pack]
  | none =>
    simp only [runF_bind, runF_readByte, bindP]
    cases Compact.readByte bs with
    | ok p =>
      obtain ⟨b, r⟩ := p
      simp only
      by_cases h1 : b = 1
      · simp [h1, pack]
      · by_cases h2 : b = 2
        · simp [h2, pack]
        · simp [h1, h2, pack]
    | err k => rfl
    | panic m => rfl
    | fuel => rfl

theorem runF_readBytes (bs : Bytes) : runF readBytes bs = Compact.readBytes bs := by
  simp only [readBytes, runF_bind, runF_readVarU, Compact.readBytes, bindP]
  cases Pilota.readVarU 4 bs with
  | ok p =>
    obtain ⟨n, r⟩ := p
    simp only [runF, Binary.takeN, Binary.splitTo]
    by_cases h : n ≤ r.length <;> simp [h]
  | err k => rfl
  | panic m => rfl
  | fuel => rfl

theorem runF_readStructEnd (s : CR) (bs : Bytes) :
    runF (readStructEnd s) bs = (match Compact.readStructEnd s with
      | .ok s' => .ok (s', bs) | .err k => .err k | .panic m => .panic m | .fuel => .fuel) := by
  simp only [readStructEnd, Compact.readStructEnd]
  cases s.stack <;> rfl

theorem readVarU4_inS (bs : Bytes) (n : Nat) (r : Bytes) (_h : Pilota.readVarU 4 bs = .ok (n, r)) : inS 4 (toS 4 n) :=
  inS_toS 4 (by decide) n

theorem readVarU_le (w : Nat) (bs : Bytes) (n : Nat) (r : Bytes) (h : Pilota.readVarU w bs = .ok (n, r)) :
    r.length ≤ bs.length := runF_le (readVarU w) bs n r (by rw [runF_readVarU]; exact h)

theorem natCast_toNat (n : Nat) : ((n : Int)).toNat = n := by simp

/-! ### collection and map headers: the in-memory reader checks the count against the remaining bytes -/

theorem readCollBegin_of_sync (bs : Bytes) (q : (TType × Nat) × Bytes)
    (h : Compact.readCollBegin bs = .ok q) : runF readCollBegin bs = .ok q := by
  simp only [readCollBegin, runF_bind, runF_readByte, bindP]
  unfold Compact.readCollBegin at h
  cases hx : Compact.readByte bs with
  | ok p =>
    obtain ⟨hd, r⟩ := p
    simp only [hx] at h ⊢
    cases ht : ttypeOfCompact (hd % 16) with
    | none => simp [ht] at h
    | some et =>
      simp only [ht] at h ⊢
      by_cases h15 : hd / 16 ≠ 15
      · rw [if_pos h15] at h ⊢
        cases hc : Binary.checkSize ((hd / 16 : Nat) : Int) r with
        | ok m =>
          simp only [hc] at h
          obtain ⟨_, hm, _⟩ := ABin.checkSize_inv _ r m hc
          rw [natCast_toNat] at hm
          rw [← hm]; simpa using h
        | err k => simp [-Int.natCast_ediv, hc] at h
        | panic m => simp [-Int.natCast_ediv, hc] at h
        | fuel => simp [-Int.natCast_ediv, hc] at h
      · rw [if_neg h15] at h ⊢
        simp only [readSize, runF_bind, runF_readVarU, bindP]
        cases hy : Pilota.readVarU 4 r with
        | ok p2 =>
          obtain ⟨n, r2⟩ := p2
          simp only [hy] at h ⊢
          cases hc : Binary.checkSize (toS 4 n) r2 with
          | ok m =>
            simp only [hc] at h
            obtain ⟨h0, hm, _⟩ := ABin.checkSize_inv _ r2 m hc
            rw [ABin.asUsize_nonneg _ h0 (readVarU4_inS r n r2 hy), ← hm]; simpa using h
          | err k => simp [hc] at h
          | panic m => simp [hc] at h
          | fuel => simp [hc] at h
        | err k => simp [hy] at h
        | panic m => simp [hy] at h
        | fuel => simp [hy] at h
  | err k => simp [hx] at h
  | panic m => simp [hx] at h
  | fuel => simp [hx] at h

theorem sync_of_readCollBegin (bs : Bytes) (hb : bs.length < 2 ^ 63) (et : TType) (m : Nat) (r : Bytes)
    (h : runF readCollBegin bs = .ok ((et, m), r)) (hm : m ≤ r.length) :
    Compact.readCollBegin bs = .ok ((et, m), r) := by
  simp only [readCollBegin, runF_bind, runF_readByte, bindP_ok] at h
  obtain ⟨hd, r1, h1, h2⟩ := h
  unfold Compact.readCollBegin
  simp only [h1]
  cases ht : ttypeOfCompact (hd % 16) with
  | none => simp [ht] at h2
  | some et' =>
    simp only [ht] at h2 ⊢
    by_cases h15 : hd / 16 ≠ 15
    · rw [if_pos h15] at h2 ⊢
      simp only [runF_ret, Out.ok.injEq, Prod.mk.injEq] at h2
      obtain ⟨⟨rfl, rfl⟩, rfl⟩ := h2
      have := ABin.checkSize_of ((hd / 16 : Nat) : Int) r1 (by omega) (by rw [natCast_toNat]; exact hm)
      rw [natCast_toNat] at this
      simp [-Int.natCast_ediv, this]
    · rw [if_neg h15] at h2 ⊢
      simp only [readSize, runF_bind, runF_readVarU, bindP_ok, runF_ret, Out.ok.injEq, Prod.mk.injEq] at h2
      obtain ⟨m', r', ⟨n, r2, hy, rfl, hrr⟩, ⟨rfl, rfl⟩, rfl⟩ := h2
      subst hrr
      have hin := readVarU4_inS r1 n r2 hy
      have hr : r2.length ≤ bs.length := by
        have a := readVarU_le 4 r1 n r2 hy
        have b := runF_le readByte bs hd r1 (by rw [runF_readByte]; exact h1)
        omega
      have h0 : 0 ≤ toS 4 n := by
        by_cases hn : toS 4 n < 0
        · have := ABin.asUsize_neg _ hn hin; omega
        · omega
      have hu := ABin.asUsize_nonneg _ h0 hin
      rw [hu] at hm ⊢
      simp [hy, ABin.checkSize_of _ r2 h0 hm]

theorem readMapBegin_of_sync (bs : Bytes) (q : (TType × TType × Nat) × Bytes)
    (h : Compact.readMapBegin bs = .ok q) : runF readMapBegin bs = .ok q := by
  simp only [readMapBegin, runF_bind, runF_readVarU, bindP]
  unfold Compact.readMapBegin at h
  cases hx : Pilota.readVarU 4 bs with
  | ok p =>
    obtain ⟨n, r⟩ := p
    simp only [hx] at h ⊢
    cases hc : Binary.checkSize (toS 4 n) r with
    | ok cnt =>
      simp only [hc] at h
      obtain ⟨h0, hm, _⟩ := ABin.checkSize_inv _ r cnt hc
      have hu := ABin.asUsize_nonneg _ h0 (readVarU4_inS bs n r hx)
      by_cases hz : cnt = 0
      · have : toS 4 n = 0 := by omega
        simp only [hz, if_true] at h
        simpa [this] using h
      · have : ¬ toS 4 n = 0 := by omega
        simp only [hz, if_false] at h
        simp only [this, if_false, runF_bind, runF_readByte, bindP]
        cases hy : Compact.readByte r with
        | ok p2 =>
          obtain ⟨hd, r2⟩ := p2
          simp only [hy] at h ⊢
          cases hk : ttypeOfCompact (hd / 16) <;> cases hv : ttypeOfCompact (hd % 16) <;> simp [hk, hv] at h ⊢
          rw [hu, ← hm]; exact h
        | err k => simp [hy] at h
        | panic m => simp [hy] at h
        | fuel => simp [hy] at h
    | err k => simp [hc] at h
    | panic m => simp [hc] at h
    | fuel => simp [hc] at h
  | err k => simp [hx] at h
  | panic m => simp [hx] at h
  | fuel => simp [hx] at h

theorem sync_of_readMapBegin (bs : Bytes) (hb : bs.length < 2 ^ 63) (kt vt : TType) (m : Nat) (r : Bytes)
    (h : runF readMapBegin bs = .ok ((kt, vt, m), r)) (hm : m ≤ r.length) :
    Compact.readMapBegin bs = .ok ((kt, vt, m), r) := by
  simp only [readMapBegin, runF_bind, runF_readVarU, bindP_ok] at h
  obtain ⟨n, r1, h1, h2⟩ := h
  have hin := readVarU4_inS bs n r1 h1
  have hr1 := readVarU_le 4 bs n r1 h1
  unfold Compact.readMapBegin
  simp only [h1]
  by_cases hz : toS 4 n = 0
  · simp only [hz, if_true, runF_ret, Out.ok.injEq, Prod.mk.injEq] at h2
    obtain ⟨⟨rfl, rfl, rfl⟩, rfl⟩ := h2
    have := ABin.checkSize_of (toS 4 n) r1 (by omega) (by rw [hz]; simp)
    rw [hz] at this
    simp [hz, this]
  · simp only [hz, if_false, runF_bind, runF_readByte, bindP_ok] at h2
    obtain ⟨hd, r2, h3, h4⟩ := h2
    have hr2 : r2.length ≤ r1.length := runF_le readByte r1 hd r2 (by rw [runF_readByte]; exact h3)
    cases hk : ttypeOfCompact (hd / 16) <;> cases hv : ttypeOfCompact (hd % 16) <;> simp [hk, hv] at h4
    obtain ⟨⟨rfl, rfl, rfl⟩, rfl⟩ := h4
    have h0 : 0 ≤ toS 4 n := by
      by_cases hn : toS 4 n < 0
      · have := ABin.asUsize_neg _ hn hin; omega
      · omega
    have hu := ABin.asUsize_nonneg _ h0 hin
    rw [hu] at hm ⊢
    have hcs := ABin.checkSize_of (toS 4 n) r1 h0 (by omega)
    have hnz : ¬ (toS 4 n).toNat = 0 := by omega
    simp [hcs, hnz, h3, hk, hv]

end ACmp
end Pilota.Thrift.Async
