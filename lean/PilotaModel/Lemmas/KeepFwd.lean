import PilotaModel.Lemmas.KeepRT
/-  C13, the reader-side half made unconditional: the retaining reader of a restricted document ACCEPTS every typed value
    whose nesting is within its skipper's depth budget (`keep_accepts`), for every sufficiently large recursion budget. -/
namespace Pilota.TGen
open Pilota Pilota.Thrift

theorem TVals.need_mem : ∀ (xs : TVals), ∀ x ∈ xs.toList, x.need ≤ xs.need
  | .nil => by intro x hx; cases hx
  | .cons y ys => by
    intro x hx
    simp only [TVals.toList, List.mem_cons] at hx
    simp only [TVals.need]
    rcases hx with rfl | hx
    · omega
    · have := TVals.need_mem ys x hx; omega

theorem TFields.need_mem : ∀ (xs : TFields), ∀ p ∈ xs.toList, p.2.need ≤ xs.need
  | .nil => by intro x hx; cases hx
  | .cons i y ys => by
    intro p hp
    simp only [TFields.toList, List.mem_cons] at hp
    simp only [TFields.need]
    rcases hp with rfl | hp
    · simp only; omega
    · have := TFields.need_mem ys p hp; omega

theorem TPairs.need_mem : ∀ (xs : TPairs), ∀ p ∈ xs.toList, p.1.need ≤ xs.need ∧ p.2.need ≤ xs.need
  | .nil => by intro x hx; cases hx
  | .cons k y ys => by
    intro p hp
    simp only [TPairs.toList, List.mem_cons] at hp
    simp only [TPairs.need]
    rcases hp with rfl | hp
    · simp only; omega
    · have := TPairs.need_mem ys p hp; omega

theorem admitsB_mono (dp : Option Nat) (a b : Nat) (h : a ≤ b) (hb : admitsB dp b = true) : admitsB dp a = true := by
  cases dp with
  | none => rfl
  | some d => simp only [admitsB, decide_eq_true_eq] at hb ⊢; omega

theorem finish_ok_of : ∀ (fs : List Field) (slots : List (Int × TVal)),
    (∀ fl ∈ fs, fl.required = true → fl.dflt = none → (slotGet slots fl.id).isSome = true) → ∃ out, finish fs slots = .ok out := by
  intro fs
  induction fs with
  | nil => intro slots _; exact ⟨[], rfl⟩
  | cons fl fs ih =>
    intro slots h
    obtain ⟨rest, hr⟩ := ih slots (fun x hx => h x (by simp [hx]))
    simp only [finish, hr]
    cases hg : slotGet slots fl.id with
    | some v => exact ⟨_, rfl⟩
    | none =>
      cases hd : fl.dflt with
      | some dv => exact ⟨_, rfl⟩
      | none =>
        by_cases hq : fl.required = true
        · have := h fl (by simp) hq hd; rw [hg] at this; cases this
        · simp only [hq, Bool.false_eq_true, if_false]; exact ⟨_, rfl⟩

theorem TVals.wt_ofList (et : TType) : ∀ (l : List TVal), (TVals.ofList l).wt et = true ↔ ∀ y ∈ l, y.ttype = et ∧ y.wt = true
  | [] => by simp [TVals.ofList, TVals.wt]
  | y :: l => by simp [TVals.ofList, TVals.wt, TVals.wt_ofList et l, and_assoc]
theorem TVals.length_ofList : ∀ (l : List TVal), (TVals.ofList l).length = l.length
  | [] => rfl
  | _ :: l => by simp [TVals.ofList, TVals.length, TVals.length_ofList l]
theorem TPairs.wt_ofList (kt vt : TType) : ∀ (l : List (TVal × TVal)),
    (TPairs.ofList l).wt kt vt = true ↔ ∀ p ∈ l, (p.1.ttype = kt ∧ p.1.wt = true) ∧ (p.2.ttype = vt ∧ p.2.wt = true)
  | [] => by simp [TPairs.ofList, TPairs.wt]
  | (a, b) :: l => by
    simp only [TPairs.ofList, TPairs.wt, TPairs.wt_ofList kt vt l, Bool.and_eq_true, decide_eq_true_eq, List.mem_cons, forall_eq_or_imp]
    constructor
    · rintro ⟨⟨⟨⟨h1, h2⟩, h3⟩, h4⟩, h5⟩; exact ⟨⟨⟨h1, h3⟩, ⟨h2, h4⟩⟩, h5⟩
    · rintro ⟨⟨⟨h1, h3⟩, ⟨h2, h4⟩⟩, h5⟩; exact ⟨⟨⟨⟨h1, h2⟩, h3⟩, h4⟩, h5⟩
theorem TPairs.length_ofList : ∀ (l : List (TVal × TVal)), (TPairs.ofList l).length = l.length
  | [] => rfl
  | (_, _) :: l => by simp [TPairs.ofList, TPairs.length, TPairs.length_ofList l]
theorem TFields.wt_ofList : ∀ (l : List (Int × TVal)), (TFields.ofList l).wt = true ↔ ∀ p ∈ l, inS 2 p.1 ∧ p.2.wt = true
  | [] => by simp [TFields.ofList, TFields.wt]
  | (i, v) :: l => by simp [TFields.ofList, TFields.wt, TFields.wt_ofList l, and_assoc]

theorem foldl_setInsert_sub : ∀ (ys acc : List TVal),
    (∀ z ∈ ys.foldl setInsert acc, z ∈ acc ∨ z ∈ ys) ∧ (ys.foldl setInsert acc).length ≤ acc.length + ys.length := by
  intro ys
  induction ys with
  | nil => intro acc; simp
  | cons y ys ih =>
    intro acc
    simp only [List.foldl_cons]
    obtain ⟨h1, h2⟩ := ih (setInsert acc y)
    have hsub : ∀ z ∈ setInsert acc y, z ∈ acc ∨ z = y := by
      intro z hz; rw [setInsert_eq] at hz
      split at hz
      · exact .inl hz
      · simpa using hz
    have hlen : (setInsert acc y).length ≤ acc.length + 1 := by
      rw [setInsert_eq]; split <;> simp
    constructor
    · intro z hz
      rcases h1 z hz with h | h
      · rcases hsub z h with h | h
        · exact .inl h
        · exact .inr (by simp [h])
      · exact .inr (by simp [h])
    · simp only [List.length_cons]; omega

theorem mapInsert_sub (acc : List (TVal × TVal)) (k v : TVal) :
    (∀ p ∈ mapInsert acc k v, (p.1 ∈ acc.map (·.1) ∨ p.1 = k) ∧ (p.2 ∈ acc.map (·.2) ∨ p.2 = v)) ∧ (mapInsert acc k v).length ≤ acc.length + 1 := by
  unfold mapInsert
  split
  · constructor
    · intro p hp
      obtain ⟨q, hq, hpq⟩ := List.mem_map.mp hp
      split at hpq
      · subst hpq; exact ⟨.inl (List.mem_map.mpr ⟨q, hq, rfl⟩), .inr rfl⟩
      · subst hpq; exact ⟨.inl (List.mem_map.mpr ⟨q, hq, rfl⟩), .inl (List.mem_map.mpr ⟨q, hq, rfl⟩)⟩
    · simp
  · constructor
    · intro p hp
      rcases List.mem_append.mp hp with h | h
      · exact ⟨.inl (List.mem_map.mpr ⟨p, h, rfl⟩), .inl (List.mem_map.mpr ⟨p, h, rfl⟩)⟩
      · simp only [List.mem_singleton] at h; subst h; exact ⟨.inr rfl, .inr rfl⟩
    · simp

theorem foldl_mapInsert_sub : ∀ (ps acc : List (TVal × TVal)),
    (∀ p ∈ ps.foldl (fun a q => mapInsert a q.1 q.2) acc, (p.1 ∈ acc.map (·.1) ∨ p.1 ∈ ps.map (·.1)) ∧ (p.2 ∈ acc.map (·.2) ∨ p.2 ∈ ps.map (·.2))) ∧
      (ps.foldl (fun a q => mapInsert a q.1 q.2) acc).length ≤ acc.length + ps.length := by
  intro ps
  induction ps with
  | nil => intro acc; simp; intro a b h; exact ⟨⟨b, h⟩, ⟨a, h⟩⟩
  | cons q ps ih =>
    intro acc
    simp only [List.foldl_cons]
    obtain ⟨h1, h2⟩ := ih (mapInsert acc q.1 q.2)
    obtain ⟨m1, m2⟩ := mapInsert_sub acc q.1 q.2
    constructor
    · intro p hp
      obtain ⟨a, b⟩ := h1 p hp
      constructor
      · rcases a with a | a
        · obtain ⟨r, hr, hrp⟩ := List.mem_map.mp a
          rcases (m1 r hr).1 with c | c
          · exact .inl (hrp ▸ c)
          · exact .inr (by simp [← hrp, c])
        · exact .inr (by simp only [List.map_cons, List.mem_cons]; exact .inr a)
      · rcases b with b | b
        · obtain ⟨r, hr, hrp⟩ := List.mem_map.mp b
          rcases (m1 r hr).2 with c | c
          · exact .inl (hrp ▸ c)
          · exact .inr (by simp [← hrp, c])
        · exact .inr (by simp only [List.map_cons, List.mem_cons]; exact .inr b)
    · simp only [List.length_cons]; omega

section
variable (dw : Doc) (keep : String → Field → Bool) (dpr : Option Nat)

/-- the retaining reader accepts `x` at type `ty`, with result `y`, for every budget from `B` on -/
def Acc (ty : STy) (x y : TVal) (B : Nat) : Prop := ∀ fK, B ≤ fK → projTyK (restrict dw keep) dpr fK ty x = some (.ok y)

/-- `y` is a Rust value if `x` is, and has its wire type -/
def Shape (x y : TVal) : Prop := (x.wt = true → y.wt = true) ∧ y.ttype = x.ttype

theorem All2.length_eq {α β : Type} {R : α → β → Prop} {as : List α} {bs : List β} (h : All2 R as bs) : bs.length = as.length := by
  induction h with
  | nil => rfl
  | cons _ _ ih => simp [ih]

theorem TVals.length_toList : ∀ (xs : TVals), xs.toList.length = xs.length
  | .nil => rfl
  | .cons _ xs => by simp [TVals.toList, TVals.length, TVals.length_toList xs]
theorem TPairs.length_toList : ∀ (xs : TPairs), xs.toList.length = xs.length
  | .nil => rfl
  | .cons _ _ xs => by simp [TPairs.toList, TPairs.length, TPairs.length_toList xs]

theorem projNK_acc (e : STy) : ∀ (l : List TVal), (∀ x ∈ l, ∃ y B, Shape x y ∧ Acc dw keep dpr e x y B) →
    ∃ ys B, All2 Shape l ys ∧
      ∀ fK, B ≤ fK → ∀ acc, projNK (restrict dw keep) dpr fK e (TVals.ofList l) acc = some (.ok (acc.reverse ++ ys)) := by
  intro l
  induction l with
  | nil => intro _; exact ⟨[], 1, .nil, fun fK hf acc => by obtain ⟨k, rfl⟩ : ∃ k, fK = k + 1 := ⟨fK - 1, by omega⟩; simp [TVals.ofList, projNK]⟩
  | cons x l ih =>
    intro h
    obtain ⟨ys, B2, hs2, h2⟩ := ih (fun y hy => h y (by simp [hy]))
    obtain ⟨y, B1, hs1, h1⟩ := h x (by simp)
    refine ⟨y :: ys, max B1 B2 + 1, .cons hs1 hs2, fun fK hf acc => ?_⟩
    obtain ⟨k, rfl⟩ : ∃ k, fK = k + 1 := ⟨fK - 1, by omega⟩
    simp only [TVals.ofList, projNK]
    rw [h1 k (by omega)]
    simp only
    rw [h2 k (by omega)]
    simp

theorem projPairsK_acc (k v : STy) : ∀ (l : List (TVal × TVal)),
    (∀ x ∈ l, (∃ y B, Shape x.1 y ∧ Acc dw keep dpr k x.1 y B) ∧ (∃ y B, Shape x.2 y ∧ Acc dw keep dpr v x.2 y B)) →
    ∃ ys B, All2 (fun x y => Shape x.1 y.1 ∧ Shape x.2 y.2) l ys ∧
      ∀ fK, B ≤ fK → ∀ acc, projPairsK (restrict dw keep) dpr fK k v (TPairs.ofList l) acc = some (.ok (acc.reverse ++ ys)) := by
  intro l
  induction l with
  | nil => intro _; exact ⟨[], 1, .nil, fun fK hf acc => by obtain ⟨j, rfl⟩ : ∃ j, fK = j + 1 := ⟨fK - 1, by omega⟩; simp [TPairs.ofList, projPairsK]⟩
  | cons x l ih =>
    intro h
    obtain ⟨ys, B2, hs2, h2⟩ := ih (fun y hy => h y (by simp [hy]))
    obtain ⟨⟨yk, Bk, hsk, hk⟩, ⟨yv, Bv, hsv, hv⟩⟩ := h x (by simp)
    obtain ⟨xk, xv⟩ := x
    refine ⟨(yk, yv) :: ys, max (max Bk Bv) B2 + 1, .cons ⟨hsk, hsv⟩ hs2, fun fK hf acc => ?_⟩
    obtain ⟨j, rfl⟩ : ∃ j, fK = j + 1 := ⟨fK - 1, by omega⟩
    simp only [TPairs.ofList, projPairsK]
    rw [hk j (by omega)]
    simp only
    rw [hv j (by omega)]
    simp only
    rw [h2 j (by omega)]
    simp

/-- the retention field loop over typed entries: kept ones are decoded, the others retained -/
theorem projFieldsK_acc (fs0 : List Field) (kp : Field → Bool) (hpw : fs0.Pairwise (fun a b => a.id ≠ b.id)) :
    ∀ (l : List (Int × TVal)),
    (∀ p ∈ l, inS 2 p.1 ∧ ∃ fl ∈ fs0, fl.id = p.1 ∧ dw.ttype fl.ty = p.2.ttype ∧
      (if kp fl then ∃ y B, Shape p.2 y ∧ Acc dw keep dpr fl.ty p.2 y B else admitsB dpr p.2.need = true)) →
    ∃ ks B, (∀ q ∈ l, keptBy dw fs0 kp q = true → ∃ k ∈ ks, k.1 = q.1) ∧
      (∀ k ∈ ks, ∃ q ∈ l, k.1 = q.1 ∧ Shape q.2 k.2) ∧
      ∀ fK, B ≤ fK → ∀ slots unk, projFieldsK (restrict dw keep) dpr fK (fs0.filter kp) slots unk (TFields.ofList l) =
        some (.ok (setAll slots ks, unk ++ l.filter (fun p => !keptBy dw fs0 kp p))) := by
  intro l
  induction l with
  | nil =>
    intro _
    refine ⟨[], 1, (fun q hq => by cases hq), (fun k hk => by cases hk), fun fK hf slots unk => ?_⟩
    obtain ⟨j, rfl⟩ : ∃ j, fK = j + 1 := ⟨fK - 1, by omega⟩
    simp [TFields.ofList, projFieldsK, setAll]
  | cons p l ih =>
    intro h
    obtain ⟨ks, B2, hcov, hsh, h2⟩ := ih (fun q hq => h q (by simp [hq]))
    obtain ⟨hin, fl, hfl, hid, htt, hcase⟩ := h p (by simp)
    obtain ⟨id, v⟩ := p
    simp only at hin hid htt hcase
    have hkb : keptBy dw fs0 kp (id, v) = kp fl := keptBy_eq dw fs0 kp hpw (id, v) fl hfl hid htt
    by_cases hk : kp fl = true
    · simp only [hk, if_true] at hcase
      obtain ⟨y, B1, hs1, h1⟩ := hcase
      have hfr : fs0.find? (fun a => decide (kp a = true ∧ (a.id == id && dw.ttype a.ty == v.ttype) = true)) = some fl := by
        apply find_unique fs0 hpw fl hfl
        · simp only [decide_eq_true_eq, Bool.and_eq_true, beq_iff_eq]; exact ⟨hk, hid, htt⟩
        · intro x hx; simp only [decide_eq_true_eq, Bool.and_eq_true, beq_iff_eq] at hx; rw [hx.2.1, hid]
      refine ⟨(id, y) :: ks, max B1 B2 + 1, ?_, ?_, fun fK hf slots unk => ?_⟩
      · intro q hq hkq
        rcases List.mem_cons.mp hq with rfl | hq
        · exact ⟨(id, y), by simp, rfl⟩
        · obtain ⟨k, hkm, hk1⟩ := hcov q hq hkq; exact ⟨k, by simp [hkm], hk1⟩
      · intro k hkm
        rcases List.mem_cons.mp hkm with rfl | hkm
        · exact ⟨(id, v), by simp, rfl, hs1⟩
        · obtain ⟨q, hq, hq1, hq2⟩ := hsh k hkm; exact ⟨q, by simp [hq], hq1, hq2⟩
      · obtain ⟨j, rfl⟩ : ∃ j, fK = j + 1 := ⟨fK - 1, by omega⟩
        simp only [TFields.ofList, projFieldsK, restrict_ttype, List.find?_filter, hin, not_true_eq_false, if_false, hfr]
        rw [h1 j (by omega)]
        simp only
        rw [h2 j (by omega)]
        simp [setAll, List.filter_cons, hkb, hk]
    · simp only [hk, Bool.false_eq_true, if_false] at hcase
      have hfr : fs0.find? (fun a => decide (kp a = true ∧ (a.id == id && dw.ttype a.ty == v.ttype) = true)) = none := by
        rw [List.find?_eq_none]
        intro x hx hq
        simp only [decide_eq_true_eq, Bool.and_eq_true, beq_iff_eq] at hq
        have : x = fl := same_field fs0 hpw x fl hx hfl (by rw [hq.2.1, hid])
        rw [this] at hq; exact hk hq.1
      refine ⟨ks, B2 + 1, ?_, ?_, fun fK hf slots unk => ?_⟩
      · intro q hq hkq
        rcases List.mem_cons.mp hq with rfl | hq
        · rw [hkb] at hkq; exact absurd hkq hk
        · exact hcov q hq hkq
      · intro k hkm
        obtain ⟨q, hq, hq1, hq2⟩ := hsh k hkm; exact ⟨q, by simp [hq], hq1, hq2⟩
      · obtain ⟨j, rfl⟩ : ∃ j, fK = j + 1 := ⟨fK - 1, by omega⟩
        simp only [TFields.ofList, projFieldsK, restrict_ttype, List.find?_filter, hin, not_true_eq_false, if_false, hfr, hcase, if_true]
        rw [h2 j (by omega)]
        have : keptBy dw fs0 kp (id, v) = false := by rw [hkb]; simpa using hk
        simp [List.filter_cons, this]

/-- **the retaining reader accepts every typed value within its skipper's depth budget**, and what it returns is a Rust
value of the same wire type -/
theorem keep_accepts_all (hd : dw.fieldsOk) (hu : dw.variantsOk) : ∀ (f : Nat) (ty : STy) (w : TVal), hasTy dw f ty w = true → admitsB dpr w.need = true →
    ∃ w' B, Shape w w' ∧ Acc dw keep dpr ty w w' B := by
  intro f
  induction f with
  | zero => intro ty w h; simp [hasTy] at h
  | succ f ih =>
    intro ty w h ha
    have base : ∀ (t : STy) (x : TVal), projTy (restrict dw keep) dpr 1 t x = some (.ok x) →
        (∀ j, projTyK (restrict dw keep) dpr (j + 1) t x = projTy (restrict dw keep) dpr (j + 1) t x) →
        ∃ w' B, Shape x w' ∧ Acc dw keep dpr t x w' B := by
      intro t x h1 hfall
      refine ⟨x, 1, ⟨id, rfl⟩, fun fK hf => ?_⟩
      obtain ⟨j, rfl⟩ : ∃ j, fK = j + 1 := ⟨fK - 1, by omega⟩
      rw [hfall j]
      exact projTy_mono _ dpr 1 (j + 1) (by omega) t x x h1
    cases ty with
    | bool => cases w <;> simp [hasTy] at h; exact base _ _ (by simp [projTy]) (fun j => by simp [projTyK])
    | i8 => cases w <;> simp [hasTy] at h; exact base _ _ (by simp [projTy]) (fun j => by simp [projTyK])
    | i16 => cases w <;> simp [hasTy] at h; exact base _ _ (by simp [projTy]) (fun j => by simp [projTyK])
    | i32 => cases w <;> simp [hasTy] at h; exact base _ _ (by simp [projTy]) (fun j => by simp [projTyK])
    | i64 => cases w <;> simp [hasTy] at h; exact base _ _ (by simp [projTy]) (fun j => by simp [projTyK])
    | double => cases w <;> simp [hasTy] at h; exact base _ _ (by simp [projTy]) (fun j => by simp [projTyK])
    | string => cases w <;> simp [hasTy] at h; exact base _ _ (by simp [projTy]) (fun j => by simp [projTyK])
    | binary => cases w <;> simp [hasTy] at h; exact base _ _ (by simp [projTy]) (fun j => by simp [projTyK])
    | uuid => cases w <;> simp [hasTy] at h; exact base _ _ (by simp [projTy]) (fun j => by simp [projTyK])
    | void => cases w <;> simp [hasTy] at h
    | list e =>
      cases w <;> (try (simp [hasTy] at h; done))
      rename_i t xs
      simp only [hasTy, Bool.and_eq_true, beq_iff_eq] at h
      have hall := (allV_iff _ xs).mp h.2
      simp only [TVal.need] at ha
      obtain ⟨ys, B, hsh, hB⟩ := projNK_acc dw keep dpr e xs.toList (fun x hx =>
        ih e x (hall x hx) (admitsB_mono dpr _ _ (by have := TVals.need_mem xs x hx; omega) ha))
      refine ⟨.list ((restrict dw keep).ttype e) (TVals.ofList ys), B + 1, ⟨fun hw => ?_, rfl⟩, fun fK hf => ?_⟩
      · simp only [TVal.wt, Bool.and_eq_true, decide_eq_true_eq] at hw ⊢
        rw [restrict_ttype, ← h.1, TVals.length_ofList, hsh.length_eq, TVals.length_toList]
        refine ⟨⟨hw.1.1, hw.1.2⟩, (TVals.wt_ofList t ys).mpr fun y hy => ?_⟩
        obtain ⟨x, hx, hxy⟩ := hsh.mem_right y hy
        have hxw := (TVals.wt_ofList t xs.toList).mp (by rw [TVals.ofList_toList]; exact hw.2) x hx
        exact ⟨by rw [hxy.2, hxw.1], hxy.1 hxw.2⟩
      · obtain ⟨j, rfl⟩ : ∃ j, fK = j + 1 := ⟨fK - 1, by omega⟩
        have := hB j (by omega) []
        rw [TVals.ofList_toList] at this
        simp [projTyK, this]
    | set e =>
      cases w <;> (try (simp [hasTy] at h; done))
      rename_i t xs
      simp only [hasTy, Bool.and_eq_true, beq_iff_eq] at h
      have hall := (allV_iff _ xs).mp h.1.2
      simp only [TVal.need] at ha
      obtain ⟨ys, B, hsh, hB⟩ := projNK_acc dw keep dpr e xs.toList (fun x hx =>
        ih e x (hall x hx) (admitsB_mono dpr _ _ (by have := TVals.need_mem xs x hx; omega) ha))
      refine ⟨.set ((restrict dw keep).ttype e) (TVals.ofList (ys.foldl setInsert [])), B + 1, ⟨fun hw => ?_, rfl⟩, fun fK hf => ?_⟩
      · simp only [TVal.wt, Bool.and_eq_true, decide_eq_true_eq] at hw ⊢
        obtain ⟨hsub, hlen⟩ := foldl_setInsert_sub ys []
        rw [restrict_ttype, ← h.1.1, TVals.length_ofList]
        have hl := hsh.length_eq
        rw [TVals.length_toList] at hl
        refine ⟨⟨hw.1.1, by simp only [List.length_nil] at hlen; omega⟩, (TVals.wt_ofList t _).mpr fun y hy => ?_⟩
        have hy' : y ∈ ys := by
          rcases hsub y hy with h0 | h0
          · cases h0
          · exact h0
        obtain ⟨x, hx, hxy⟩ := hsh.mem_right y hy'
        have hxw := (TVals.wt_ofList t xs.toList).mp (by rw [TVals.ofList_toList]; exact hw.2) x hx
        exact ⟨by rw [hxy.2, hxw.1], hxy.1 hxw.2⟩
      · obtain ⟨j, rfl⟩ : ∃ j, fK = j + 1 := ⟨fK - 1, by omega⟩
        have := hB j (by omega) []
        rw [TVals.ofList_toList] at this
        simp [projTyK, this]
    | map k v =>
      cases w <;> (try (simp [hasTy] at h; done))
      rename_i kt vt kvs
      simp only [hasTy, Bool.and_eq_true, beq_iff_eq] at h
      have hall := (allP_iff _ _ kvs).mp h.1.2
      simp only [TVal.need] at ha
      obtain ⟨ys, B, hsh, hB⟩ := projPairsK_acc dw keep dpr k v kvs.toList (fun x hx =>
        ⟨ih k x.1 (hall x hx).1 (admitsB_mono dpr _ _ (by have := (TPairs.need_mem kvs x hx).1; omega) ha),
         ih v x.2 (hall x hx).2 (admitsB_mono dpr _ _ (by have := (TPairs.need_mem kvs x hx).2; omega) ha)⟩)
      refine ⟨.map ((restrict dw keep).ttype k) ((restrict dw keep).ttype v)
        (TPairs.ofList (ys.foldl (fun a p => mapInsert a p.1 p.2) [])), B + 1, ⟨fun hw => ?_, rfl⟩, fun fK hf => ?_⟩
      · simp only [TVal.wt, Bool.and_eq_true, decide_eq_true_eq] at hw ⊢
        obtain ⟨hsub, hlen⟩ := foldl_mapInsert_sub ys []
        rw [restrict_ttype, restrict_ttype, ← h.1.1.1, ← h.1.1.2, TPairs.length_ofList]
        have hl := hsh.length_eq
        rw [TPairs.length_toList] at hl
        have hxs := (TPairs.wt_ofList kt vt kvs.toList).mp (by rw [TPairs.ofList_toList]; exact hw.2)
        refine ⟨⟨⟨hw.1.1.1, hw.1.1.2⟩, by simp only [List.length_nil] at hlen; omega⟩, (TPairs.wt_ofList kt vt _).mpr fun p hp => ?_⟩
        obtain ⟨hk1, hv1⟩ := hsub p hp
        constructor
        · rcases hk1 with h0 | h0
          · simp at h0
          · obtain ⟨q, hq, hqp⟩ := List.mem_map.mp h0
            obtain ⟨x, hx, hxq⟩ := hsh.mem_right q hq
            rw [← hqp]; exact ⟨by rw [hxq.1.2, (hxs x hx).1.1], hxq.1.1 (hxs x hx).1.2⟩
        · rcases hv1 with h0 | h0
          · simp at h0
          · obtain ⟨q, hq, hqp⟩ := List.mem_map.mp h0
            obtain ⟨x, hx, hxq⟩ := hsh.mem_right q hq
            rw [← hqp]; exact ⟨by rw [hxq.2.2, (hxs x hx).2.1], hxq.2.1 (hxs x hx).2.2⟩
      · obtain ⟨j, rfl⟩ : ∃ j, fK = j + 1 := ⟨fK - 1, by omega⟩
        have := hB j (by omega) []
        rw [TPairs.ofList_toList] at this
        simp [projTyK, this]
    | ref n =>
      simp only [hasTy] at h
      cases hn : dw.find n with
      | none => simp [hn] at h
      | some df =>
        cases df with
        | struct fs0 =>
          simp only [hn] at h
          cases w <;> (try (simp at h; done))
          rename_i wfs
          simp only at h
          simp only [TVal.need] at ha
          have hpw := hd n fs0 hn
          have hnr : (restrict dw keep).find n = some (.struct (fs0.filter (keep n))) := by rw [restrict_find, hn]; rfl
          have hmem := hasFields_mem dw (hasTy dw f) fs0 wfs h
          obtain ⟨ks, B, hcov, hsh, hB⟩ := projFieldsK_acc dw keep dpr fs0 (keep n) hpw wfs.toList (by
            intro p hp
            obtain ⟨fl, hfl, hid, hin, htt, hty⟩ := hmem p hp
            have hneed : admitsB dpr p.2.need = true := admitsB_mono dpr _ _ (by have := TFields.need_mem wfs p hp; omega) ha
            refine ⟨hin, fl, hfl, hid, htt, ?_⟩
            by_cases hk : keep n fl = true
            · simp only [hk, if_true]; exact ih fl.ty p.2 hty hneed
            · simp only [hk, Bool.false_eq_true, if_false]; exact hneed)
          have keptSlot : ∀ fl ∈ fs0.filter (keep n), (∃ q ∈ wfs.toList, q.1 = fl.id) → (slotGet (setAll [] ks) fl.id).isSome = true := by
            intro fl hflr ⟨q, hq, hqid⟩
            have hfl0 := List.mem_filter.mp hflr
            obtain ⟨fl', hfl', hid', _, htt', _⟩ := hmem q hq
            have hsame : fl' = fl := same_field fs0 hpw fl' fl hfl' hfl0.1 (by rw [hid', hqid])
            rw [hsame] at htt'
            have hkq : keptBy dw fs0 (keep n) q = true := by rw [keptBy_eq dw fs0 (keep n) hpw q fl hfl0.1 hqid.symm htt']; exact hfl0.2
            obtain ⟨k, hkm, hk1⟩ := hcov q hq hkq
            exact setAll_get_isSome ks [] fl.id (.inl ⟨k, hkm, by rw [hk1, hqid]⟩)
          obtain ⟨out, hout⟩ := finish_ok_of (fs0.filter (keep n)) (setAll [] ks) (by
            intro fl hflr hreq hdf
            rcases hasFields_absent dw _ fs0 wfs h fl (List.mem_filter.mp hflr).1 with hpres | ⟨hnr', _⟩
            · exact keptSlot fl hflr hpres
            · rw [hreq] at hnr'; cases hnr')
          refine ⟨.struct (TFields.ofList (out ++ wfs.toList.filter (fun p => !keptBy dw fs0 (keep n) p))), B + 1, ⟨fun hw => ?_, rfl⟩, fun fK hf => ?_⟩
          · simp only [TVal.wt] at hw ⊢
            have hwl := (TFields.wt_ofList wfs.toList).mp (by rw [TFields.ofList_toList]; exact hw)
            refine (TFields.wt_ofList _).mpr fun p hp => ?_
            rcases List.mem_append.mp hp with hpo | hpu
            · obtain ⟨fl, hflr, hid, hslot⟩ := finish_mem _ _ out hout p hpo
              rcases hslot with hsome | ⟨hnone, hdf⟩
              · rcases setAll_get_some ks [] fl.id p.2 hsome with hin | hbad
                · obtain ⟨q, hq, hq1, hq2⟩ := hsh (fl.id, p.2) hin
                  simp only at hq1 hq2
                  exact ⟨by rw [← hid, hq1]; exact (hwl q hq).1, hq2.1 (hwl q hq).2⟩
                · simp [slotGet] at hbad
              · exfalso
                rcases hasFields_absent dw _ fs0 wfs h fl (List.mem_filter.mp hflr).1 with hpres | ⟨_, hdn⟩
                · have := keptSlot fl hflr hpres
                  rw [hnone] at this; cases this
                · rw [hdn] at hdf; cases hdf
            · exact hwl p (List.mem_filter.mp hpu).1
          · obtain ⟨j, rfl⟩ : ∃ j, fK = j + 1 := ⟨fK - 1, by omega⟩
            have := hB j (by omega) [] []
            rw [TFields.ofList_toList] at this
            simp [projTyK, hnr, this, hout]
        | union vs =>
          simp only [hn] at h
          cases w <;> (try (simp at h; done))
          rename_i wfs
          have hnr : (restrict dw keep).find n = some (.union (vs.filter (keepVariant keep n))) := by rw [restrict_find, hn]; rfl
          cases wfs with
          | nil =>
            cases vs with
            | nil => simp at h
            | cons hd' tl =>
              obtain ⟨i, t⟩ := hd'
              cases t <;> simp at h
              have hvv : (STy.void == STy.void) = true := by decide
              have hvs : ((i, STy.void) :: tl).filter (keepVariant keep n) = (i, STy.void) :: tl.filter (keepVariant keep n) := by
                simp [List.filter_cons, keepVariant, hvv]
              refine ⟨.struct .nil, 2, ⟨id, rfl⟩, fun fK hf => ?_⟩
              obtain ⟨j, rfl⟩ : ∃ j, fK = j + 1 + 1 := ⟨fK - 2, by omega⟩
              simp [projTyK, hnr, hvs, projUnionK]
          | cons id v r =>
            cases r with
            | cons => simp at h
            | nil =>
              simp only at h
              cases hfind : vs.find? (fun x => x.1 == id && !(x.2 == .void)) with
              | none => simp [hfind] at h
              | some p =>
                obtain ⟨pid, ty⟩ := p
                simp only [hfind, Bool.and_eq_true, decide_eq_true_eq, beq_iff_eq] at h
                simp only [TVal.need, TFields.need] at ha
                have hq := List.find?_some hfind
                simp only [Bool.and_eq_true, beq_iff_eq, Bool.not_eq_true'] at hq
                have hmem := List.mem_of_find?_eq_some hfind
                have hpw := hu n vs hn
                have hadm : admitsB dpr v.need = true := admitsB_mono dpr _ _ (by omega) ha
                by_cases hkeep : keepVariant keep n (pid, ty) = true
                · have hfr : (vs.filter (keepVariant keep n)).find? (fun x => x.1 == id && !(x.2 == .void)) = some (pid, ty) := by
                    rw [List.find?_filter]
                    apply find_unique_key (fun x : Int × STy => x.1) vs hpw (pid, ty) hmem
                    · simp only [decide_eq_true_eq, Bool.and_eq_true, beq_iff_eq, Bool.not_eq_true']; exact ⟨hkeep, hq.1, hq.2⟩
                    · intro y hy; simp only [decide_eq_true_eq, Bool.and_eq_true, beq_iff_eq] at hy; rw [hy.2.1, hq.1]
                  obtain ⟨pv, B, hs, hB⟩ := ih ty v h.2 hadm
                  refine ⟨.struct (.cons id pv .nil), B + 3, ⟨fun hw => ?_, rfl⟩, fun fK hf => ?_⟩
                  · simp only [TVal.wt, TFields.wt, Bool.and_eq_true, decide_eq_true_eq, and_true] at hw ⊢
                    exact ⟨hw.1, hs.1 hw.2⟩
                  · obtain ⟨j, rfl⟩ : ∃ j, fK = j + 1 + 1 + 1 := ⟨fK - 3, by omega⟩
                    simp only [projTyK, hnr, projUnionK, h.1.1, not_true_eq_false, if_false, hfr, Option.isSome_none, Bool.false_eq_true,
                      restrict_ttype, h.1.2, bne_self_eq_false, hB (j + 1) (by omega)]
                · have hfr : (vs.filter (keepVariant keep n)).find? (fun x => x.1 == id && !(x.2 == .void)) = none := by
                    rw [List.find?_filter, List.find?_eq_none]
                    intro x hx hpq
                    simp only [decide_eq_true_eq, Bool.and_eq_true, beq_iff_eq] at hpq
                    have : x = (pid, ty) := same_key (fun x : Int × STy => x.1) vs hpw x (pid, ty) hx hmem (by rw [hpq.2.1, hq.1])
                    rw [this] at hpq; exact hkeep hpq.1
                  refine ⟨.struct (.cons id v .nil), 3, ⟨fun hw => hw, rfl⟩, fun fK hf => ?_⟩
                  obtain ⟨j, rfl⟩ : ∃ j, fK = j + 1 + 1 + 1 := ⟨fK - 3, by omega⟩
                  simp only [projTyK, hnr, projUnionK, h.1.1, not_true_eq_false, if_false, hfr, Option.isSome_none, Bool.false_eq_true,
                    hadm, if_true]
        | enum =>
          simp only [hn] at h
          cases w <;> (try (simp at h; done))
          rename_i x
          have hnr : (restrict dw keep).find n = some .enum := by rw [restrict_find, hn]; rfl
          refine ⟨.i32 x, 1, ⟨id, rfl⟩, fun fK hf => ?_⟩
          obtain ⟨j, rfl⟩ : ∃ j, fK = j + 1 := ⟨fK - 1, by omega⟩
          simp only [projTyK, hnr]
        | typedef t =>
          simp only [hn] at h
          have hnr : (restrict dw keep).find n = some (.typedef t) := by rw [restrict_find, hn]; rfl
          obtain ⟨w', B, hs, hB⟩ := ih t w h ha
          refine ⟨w', B + 1, hs, fun fK hf => ?_⟩
          obtain ⟨j, rfl⟩ : ∃ j, fK = j + 1 := ⟨fK - 1, by omega⟩
          simp only [projTyK, hnr]
          exact hB j (by omega)

end
end Pilota.TGen
