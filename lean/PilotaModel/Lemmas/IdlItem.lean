import PilotaModel.Lemmas.IdlTypeRT
/-
  C15: definitions whose parser ends `opt(blank), opt(Annotations), opt(list_separator)`,
  typedef / include / cpp_include / namespace items.
-/
namespace Pilota.Idl

/-- what follows a definition at item level: the end of the text or the keyword of the next item -/
def ItemStart (R : List Char) : Prop := hdP (fun c => c.isAlpha) R = true

theorem alpha_identStart {c : Char} (h : c.isAlpha = true) : isIdentStart c = true := by simp [isIdentStart, h]

theorem ItemStart.nb {R} (h : ItemStart R) : NB R :=
  hdP_mono (fun _ hc => identStart_NB (alpha_identStart hc)) h
theorem ItemStart.noSep {R} (h : ItemStart R) : NoSepStart R :=
  hdP_mono (fun _ hc => identStart_noSep (alpha_identStart hc)) h
theorem ItemStart.ne {R} (x : Char) (hx : x.isAlpha = false) (h : ItemStart R) : hdP (fun c => c != x) R = true :=
  hdP_mono (fun c hc => by simp only [bne_iff_ne, ne_eq]; intro e; subst e; rw [hc] at hx; cases hx) h

/-! ### a name after a type -/

theorem identStart_ne {c x : Char} (hc : isIdentStart c = true) (hx : isIdentStart x = false) : (c != x) = true := by
  simp only [bne_iff_ne, ne_eq]; intro e; subst e; rw [hc] at hx; cases hx

theorem typeFollow_name (t : TypeA) {g name X : List Char} (hg : BT g) (hopen : g ≠ [] ∨ t.endsOpen = false)
    (hn : identOk name = true) (hcpp : nameAfterTypeOk t name = true)
    (hX : hdP (fun c => !isIdentChar c) X = true) : TypeFollow t (g ++ (name ++ X)) := by
  obtain ⟨c, cs, rfl, hc, _⟩ := identOk_cons hn
  have hnb : NB ((c :: cs) ++ X) := identStart_NB hc
  have h2 : AnnsStop (g ++ ((c :: cs) ++ X)) := annsStop_of hg hnb (identStart_ne hc (by decide))
  have h3 : PathStop (g ++ ((c :: cs) ++ X)) := pathStop_of hg hnb (identStart_ne hc (by decide))
  cases t with
  | mk ty as =>
    by_cases has : as = []
    · subst has
      refine Or.inr ⟨?_, h2⟩
      have hsep : ty.endsOpen = true → Sep (g ++ ((c :: cs) ++ X)) := by
        intro ho
        rcases hopen with h | h
        · exact hg.sep_append (Or.inl h)
        · simp [TypeA.endsOpen, ho] at h
      cases ty with
      | path p => exact ⟨(hsep rfl).noIdent, h3⟩
      | list v cpp =>
        cases cpp with
        | some _ => trivial
        | none =>
          have hne : (c :: cs) ≠ cs!"cpp_type" := by
            simp only [nameAfterTypeOk, TypeA.endsInListGt, Bool.true_and, Bool.not_eq_true', decide_eq_false_iff_not] at hcpp
            exact hcpp
          exact noCpp_of hg hnb (cppType_err_word hn hX hne)
      | set v cpp => trivial
      | map k v cpp => trivial
      | _ => exact hsep rfl
    · exact Or.inl has

/-! ### `opt(blank), opt(Annotations), opt(list_separator)` -/

theorem rOptAnns_nil (l : Layout) : (rOptAnns [] l).1 = [] ∧ (rOptAnns [] l).2 = l := ⟨rfl, rfl⟩

/-- the tail of a definition: the annotations are read, a separator is consumed together with the
blanks around it, and without a separator a blank `g` may be left to the enclosing loop. -/
theorem defTail_rt2 {α} (k : Option Annotations → P α) {as : Annotations} (hw : Annotations.wf as = true)
    (endsOpen last : Bool) (l : Layout) {R : List Char} (hR : NB R) (hS : NoSepStart R)
    (hP : hdP (fun c => c != '(') R = true) :
    ∃ g ann, BT g ∧ ann.getD [] = as ∧ g.length ≤ (rDefTail as endsOpen last (rOptAnns as l).2).1.length ∧
      (andThen (opt blank) fun _ => andThen (opt Annotations.parse) fun anns => andThen (opt listSeparator) fun _ => k anns)
        ((rOptAnns as l).1 ++ ((rDefTail as endsOpen last (rOptAnns as l).2).1 ++ R)) = k ann (g ++ R) := by
  by_cases has : as = []
  · subst has
    refine ⟨[], none, BT.nil, rfl, Nat.zero_le _, ?_⟩
    simp only [rOptAnns, rDefTail, List.isEmpty_nil, if_true, rLit_fst, rLit_snd, List.nil_append]
    simp only [rTail, rWith_fst]
    rcases sepChar_cases (l.pop.1.sep) with h | h | h
    · simp only [h, if_true]
      rw [andThen_optBlank (rGap_BT _ _) hR, andThen_of_ok (opt_of_err (annotations_err hP)),
        andThen_of_ok (listSeparator_none hS)]
    · simp only [h, List.cons_ne_nil, if_false, rSeq_fst, rLit_fst, List.append_assoc, List.cons_append, List.nil_append]
      rw [andThen_optBlank (rB0_BT _) (sepChar_BT_false (Or.inl rfl) _),
        andThen_of_ok (opt_of_err (annotations_err (by show (',' != '(') = true; decide))),
        andThen_of_ok (listSeparator_some (Or.inl rfl) (rB0_BT _) hR)]
    · simp only [h, List.cons_ne_nil, if_false, rSeq_fst, rLit_fst, List.append_assoc, List.cons_append, List.nil_append]
      rw [andThen_optBlank (rB0_BT _) (sepChar_BT_false (Or.inr rfl) _),
        andThen_of_ok (opt_of_err (annotations_err (by show (';' != '(') = true; decide))),
        andThen_of_ok (listSeparator_some (Or.inr rfl) (rB0_BT _) hR)]
  · have he : as.isEmpty = false := by cases as; exact absurd rfl has; rfl
    have hnb : ∀ l' x, NB ((rAnns as l').1 ++ x) := by
      intro l' x
      simp only [rAnns, he, Bool.false_eq_true, if_false, rSeq_fst, rLit_fst, List.append_assoc]
      show notBlankStart '(' = true; decide
    simp only [rOptAnns, rDefTail, he, Bool.false_eq_true, if_false, rSeq_fst, rSeq_snd, List.append_assoc]
    simp only [rTailAdj, rWith_fst]
    rcases sepChar_cases ((rAnns as (rB0 l).2).2.pop.1.sep) with h | h | h
    · refine ⟨(rGap (false && !last) (rAnns as (rB0 l).2).2.pop.2).1, some as, rGap_BT (false && !last) _, rfl, ?_, ?_⟩
      · simp only [h, if_true]; exact Nat.le_refl _
      simp only [h, if_true]
      rw [andThen_optBlank (rB0_BT _) (hnb _ _), andThen_of_ok (opt_of_ok (annotations_rt hw has _ _))]
      have : NoSepStart ((rGap (false && !last) (rAnns as (rB0 l).2).2.pop.2).1 ++ R) :=
        (rGap_BT _ _).hdP_append (by intro c hc; rcases blankStart_cases hc with h | h | h | h | h | h <;> subst h <;> decide) hS
      rw [andThen_of_ok (listSeparator_none this)]
    · refine ⟨[], some as, BT.nil, rfl, Nat.zero_le _, ?_⟩
      simp only [h, List.cons_ne_nil, if_false, rSeq_fst, rLit_fst, List.append_assoc, List.cons_append, List.nil_append]
      rw [andThen_optBlank (rB0_BT _) (hnb _ _), andThen_of_ok (opt_of_ok (annotations_rt hw has _ _)),
        andThen_of_ok (listSeparator_some (Or.inl rfl) (rB0_BT _) hR)]
    · refine ⟨[], some as, BT.nil, rfl, Nat.zero_le _, ?_⟩
      simp only [h, List.cons_ne_nil, if_false, rSeq_fst, rLit_fst, List.append_assoc, List.cons_append, List.nil_append]
      rw [andThen_optBlank (rB0_BT _) (hnb _ _), andThen_of_ok (opt_of_ok (annotations_rt hw has _ _)),
        andThen_of_ok (listSeparator_some (Or.inr rfl) (rB0_BT _) hR)]

theorem defTail_rt {α} (k : Option Annotations → P α) {as : Annotations} (hw : Annotations.wf as = true)
    (endsOpen last : Bool) (l : Layout) {R : List Char} (hR : NB R) (hS : NoSepStart R)
    (hP : hdP (fun c => c != '(') R = true) :
    ∃ g ann, BT g ∧ ann.getD [] = as ∧
      (andThen (opt blank) fun _ => andThen (opt Annotations.parse) fun anns => andThen (opt listSeparator) fun _ => k anns)
        ((rOptAnns as l).1 ++ ((rDefTail as endsOpen last (rOptAnns as l).2).1 ++ R)) = k ann (g ++ R) := by
  obtain ⟨g, ann, h1, h2, _, h3⟩ := defTail_rt2 k hw endsOpen last l hR hS hP
  exact ⟨g, ann, h1, h2, h3⟩

/-- …and what the token in front of that tail sees -/
theorem defTail_sep {as : Annotations} (endsOpen last : Bool) (l : Layout) {R : List Char}
    (h : (endsOpen && !last) = true ∨ Sep R) :
    Sep ((rOptAnns as l).1 ++ ((rDefTail as endsOpen last (rOptAnns as l).2).1 ++ R)) := by
  by_cases has : as = []
  · subst has
    simp only [rOptAnns, rDefTail, List.isEmpty_nil, if_true, rLit_fst, rLit_snd, List.nil_append]
    exact tail_sep endsOpen last l h
  · have he : as.isEmpty = false := by cases as; exact absurd rfl has; rfl
    simp only [rOptAnns, rAnns, he, Bool.false_eq_true, if_false, rSeq_fst, rLit_fst, List.append_assoc]
    exact (rB0_BT _).sep_append (Or.inr (by show isSepChar '(' = true; decide))

theorem sep_of_last {last : Bool} {R : List Char} (hlast : last = true → R = []) (b : Bool) :
    (b && !last) = true ∨ Sep R ∨ b = false := by
  cases last with
  | true => rw [hlast rfl]; exact Or.inr (Or.inl rfl)
  | false => cases b <;> simp

/-! ### typedef -/

theorem typedef_rt {t : Typedef} (hw : Item.wf (.typedef t) = true) {d : Nat} (hd : t.ty.depth < d) (last : Bool)
    (l : Layout) {R : List Char} (hlast : last = true → R = []) (hR : ItemStart R) :
    ∃ g, BT g ∧ Typedef.parse d ((rTypedef t last l).1 ++ R) = .ok t (g ++ R) := by
  obtain ⟨ty, alias, anns⟩ := t
  simp only [Item.wf, Bool.and_eq_true] at hw
  obtain ⟨⟨⟨hty, hal⟩, hcpp⟩, han⟩ := hw
  simp only [rTypedef, rSeq_fst, rSeq_snd, rLit_fst, rLit_snd, List.append_assoc]
  have hsep : ∀ l1, Sep ((rOptAnns anns l1).1 ++ ((rDefTail anns true last (rOptAnns anns l1).2).1 ++ R)) := by
    intro l1
    apply defTail_sep
    rcases sep_of_last hlast true with h | h | h
    · exact Or.inl h
    · exact Or.inr h
    · cases h
  obtain ⟨g, ann, hg, hann, htail⟩ := defTail_rt (fun anns' => ret ({ ty := ty, alias := alias, annotations := anns'.getD [] } : Typedef))
    han true last (rB1 (rType ty (rB1 l).2).2).2 hR.nb hR.noSep (hR.ne '(' (by decide))
  refine ⟨g, hg, ?_⟩
  unfold Typedef.parse Type.parse
  rw [andThen_of_ok (tag_append _ _), andThen_blank (rB1_BT _) (rB1_ne _) (rType_NB hty _ _),
    andThen_of_ok (type_rt ty hty d hd _ _ (typeFollow_name ty (rB1_BT _) (Or.inl (rB1_ne _)) hal hcpp (hsep _).noIdent)),
    andThen_blank (rB1_BT _) (rB1_ne _) (ident_NB hal),
    andThen_of_ok (ident_rt hal (hsep _).noIdent), htail, hann]
  rfl

/-! ### include, cpp_include -/

theorem tailAdj_rt {α} (k : P α) (endsOpen last : Bool) (l : Layout) {R : List Char} (hR : NB R) (hS : NoSepStart R) :
    ∃ g, BT g ∧ (andThen (opt listSeparator) fun _ => k) ((rTailAdj endsOpen last l).1 ++ R) = k (g ++ R) := by
  simp only [rTailAdj, rWith_fst]
  rcases sepChar_cases (l.pop.1.sep) with h | h | h
  · refine ⟨(rGap (endsOpen && !last) l.pop.2).1, rGap_BT _ _, ?_⟩
    simp only [h, if_true]
    have : NoSepStart ((rGap (endsOpen && !last) l.pop.2).1 ++ R) :=
      (rGap_BT _ _).hdP_append (by intro c hc; rcases blankStart_cases hc with h | h | h | h | h | h <;> subst h <;> decide) hS
    rw [andThen_of_ok (listSeparator_none this)]
  · refine ⟨[], BT.nil, ?_⟩
    simp only [h, List.cons_ne_nil, if_false, rSeq_fst, rLit_fst, List.append_assoc, List.cons_append, List.nil_append]
    rw [andThen_of_ok (listSeparator_some (Or.inl rfl) (rB0_BT _) hR)]
  · refine ⟨[], BT.nil, ?_⟩
    simp only [h, List.cons_ne_nil, if_false, rSeq_fst, rLit_fst, List.append_assoc, List.cons_append, List.nil_append]
    rw [andThen_of_ok (listSeparator_some (Or.inr rfl) (rB0_BT _) hR)]

theorem include_rt {p : Literal} (hw : literalOk p = true) (last : Bool) (l : Layout) {R : List Char} (hR : ItemStart R) :
    ∃ g, BT g ∧ Include.parse ((rItem (.include p) last l).1 ++ R) = .ok p (g ++ R) := by
  simp only [rItem, rSeq_fst, rSeq_snd, rLit_fst, rLit_snd, List.append_assoc]
  obtain ⟨g, hg, ht⟩ := tailAdj_rt (ret p) false last (rLiteral p (rB1 l).2).2 hR.nb hR.noSep
  refine ⟨g, hg, ?_⟩
  unfold Include.parse
  rw [andThen_of_ok (tag_append _ _), andThen_blank (rB1_BT _) (rB1_ne _) (rLiteral_NB hw _ _),
    andThen_of_ok (rLiteral_rt hw _ _), ht]
  rfl

theorem cppInclude_rt {p : Literal} (hw : literalOk p = true) (last : Bool) (l : Layout) {R : List Char} (hR : ItemStart R) :
    ∃ g, BT g ∧ CppInclude.parse ((rItem (.cppInclude p) last l).1 ++ R) = .ok p (g ++ R) := by
  simp only [rItem, rSeq_fst, rSeq_snd, rLit_fst, rLit_snd, List.append_assoc]
  obtain ⟨g, hg, ht⟩ := tailAdj_rt (ret p) false last (rLiteral p (rB1 l).2).2 hR.nb hR.noSep
  refine ⟨g, hg, ?_⟩
  unfold CppInclude.parse
  rw [andThen_of_ok (tag_append _ _), andThen_blank (rB1_BT _) (rB1_ne _) (rLiteral_NB hw _ _),
    andThen_of_ok (rLiteral_rt hw _ _), ht]
  rfl

/-! ### namespace -/

set_option maxHeartbeats 1000000 in
/-- the scope `alt` returns the scope that was written (`py.twisted` is tried before `py`) -/
theorem scope_rt {sc : Str} (h : scopeTags.contains sc = true) {c : Char} (hc : notBlankStart c = false) (x : List Char) :
    Scope.parse (sc ++ c :: x) = .ok sc (c :: x) := by
  have hm : sc ∈ scopeTags := List.contains_iff_mem.mp h
  simp only [scopeTags, List.mem_cons, List.mem_nil_iff, or_false] at hm
  rcases blankStart_cases hc with e | e | e | e | e | e <;> subst e <;>
    rcases hm with e | e | e | e | e | e | e | e | e | e | e | e | e | e | e | e | e | e <;> subst e <;>
    simp [Scope.parse, scopeTags, alt, tag, stripPrefix]

theorem tail_pathStop (endsOpen last : Bool) (l : Layout) {R : List Char} (hR : NB R)
    (hd : hdP (fun c => c != '.') R = true) : PathStop ((rTail endsOpen last l).1 ++ R) := by
  simp only [rTail, rWith_fst]
  rcases sepChar_cases (l.pop.1.sep) with h | h | h
  · simp only [h, if_true]; exact pathStop_of (rGap_BT _ _) hR hd
  · simp only [h, List.cons_ne_nil, if_false, rSeq_fst, rLit_fst, List.append_assoc, List.cons_append, List.nil_append]
    exact pathStop_of (rB0_BT _) (sepChar_BT_false (Or.inl rfl) _) (by show (',' != '.') = true; decide)
  · simp only [h, List.cons_ne_nil, if_false, rSeq_fst, rLit_fst, List.append_assoc, List.cons_append, List.nil_append]
    exact pathStop_of (rB0_BT _) (sepChar_BT_false (Or.inr rfl) _) (by show (';' != '.') = true; decide)

theorem namespace_rt {n : Namespace} (hw : Item.wf (.namespace n) = true) (last : Bool) (l : Layout) {R : List Char}
    (hlast : last = true → R = []) (hR : ItemStart R) :
    Namespace.parse ((rNamespace n last l).1 ++ R) = .ok n R := by
  obtain ⟨scope, name, anns⟩ := n
  simp only [Item.wf, Bool.and_eq_true] at hw
  obtain ⟨⟨hsc, hname⟩, han⟩ := hw
  simp only [rNamespace, rSeq_fst, rSeq_snd, rLit_fst, rLit_snd, List.append_assoc]
  unfold Namespace.parse
  rw [andThen_of_ok (tag_append _ _)]
  -- scope
  have hb1 := rB1_BT l
  have hne1 := rB1_ne l
  have hscope : ∀ x, skip blank Scope.parse ((rB1 l).1 ++ (scope ++ ((rB1 (rB1 l).2).1 ++ x))) =
      .ok scope ((rB1 (rB1 l).2).1 ++ x) := by
    intro x
    have hnb : NB (scope ++ ((rB1 (rB1 l).2).1 ++ x)) := by
      have hm : scope ∈ scopeTags := List.contains_iff_mem.mp hsc
      simp only [scopeTags, List.mem_cons, List.mem_nil_iff, or_false] at hm
      rcases hm with e | e | e | e | e | e | e | e | e | e | e | e | e | e | e | e | e | e <;> subst e <;>
        (show notBlankStart _ = true) <;> decide
    rw [skip_of_ok (blank_rt hb1 hne1 hnb)]
    cases hb : (rB1 (rB1 l).2).1 with
    | nil => exact absurd hb (rB1_ne _)
    | cons c t =>
      have := rB1_BT (rB1 l).2
      rw [hb] at this
      exact scope_rt hsc this.head_blankStart _
  rw [andThen_of_ok (hscope _)]
  cases anns with
  | none =>
    simp only [rLit_fst, rLit_snd, List.nil_append, Option.isNone_none]
    have hsep : Sep ((rTail true last (rPath name (rB1 (rB1 l).2).2).2).1 ++ R) := by
      apply tail_sep
      rcases sep_of_last hlast true with h | h | h
      · exact Or.inl h
      · exact Or.inr h
      · cases h
    have hps := tail_pathStop true last (rPath name (rB1 (rB1 l).2).2).2 hR.nb (hR.ne '.' (by decide))
    obtain ⟨s, rest, hs, _, e, _⟩ := rPath_cons hname (rB1 (rB1 l).2).2
    have hnbp : NB ((rPath name (rB1 (rB1 l).2).2).1 ++ ((rTail true last (rPath name (rB1 (rB1 l).2).2).2).1 ++ R)) := by
      rw [e, List.append_assoc]; exact ident_NB hs
    rw [andThen_of_ok (skip_of_ok (blank_rt (rB1_BT _) (rB1_ne _) hnbp) |>.trans (path_rt hname _ hsep.noIdent hps))]
    -- tail: opt blank, opt anns (none), opt blank (none), opt sep
    simp only [rTail, rWith_fst]
    rcases sepChar_cases ((rPath name (rB1 (rB1 l).2).2).2.pop.1.sep) with h | h | h
    · simp only [h, if_true]
      rw [andThen_optBlank (rGap_BT _ _) hR.nb, andThen_of_ok (opt_of_err (annotations_err (hR.ne '(' (by decide)))),
        andThen_of_ok (opt_of_err (blank_err hR.nb)), andThen_of_ok (listSeparator_none hR.noSep)]
      rfl
    · simp only [h, List.cons_ne_nil, if_false, rSeq_fst, rLit_fst, List.append_assoc, List.cons_append, List.nil_append]
      rw [andThen_optBlank (rB0_BT _) (sepChar_BT_false (Or.inl rfl) _),
        andThen_of_ok (opt_of_err (annotations_err (by show (',' != '(') = true; decide))),
        andThen_of_ok (opt_of_err (blank_err (sepChar_BT_false (Or.inl rfl) _))),
        andThen_of_ok (listSeparator_some (Or.inl rfl) (rB0_BT _) hR.nb)]
      rfl
    · simp only [h, List.cons_ne_nil, if_false, rSeq_fst, rLit_fst, List.append_assoc, List.cons_append, List.nil_append]
      rw [andThen_optBlank (rB0_BT _) (sepChar_BT_false (Or.inr rfl) _),
        andThen_of_ok (opt_of_err (annotations_err (by show (';' != '(') = true; decide))),
        andThen_of_ok (opt_of_err (blank_err (sepChar_BT_false (Or.inr rfl) _))),
        andThen_of_ok (listSeparator_some (Or.inr rfl) (rB0_BT _) hR.nb)]
      rfl
  | some as =>
    simp only [Bool.and_eq_true, Bool.not_eq_true'] at han
    have has : as ≠ [] := by intro e; subst e; simp at han
    have he : as.isEmpty = false := han.1
    simp only [Option.isNone_some]
    simp only [rOptAnns, he, Bool.false_eq_true, if_false, rSeq_fst, rSeq_snd, List.append_assoc]
    have hpar : ∀ x, (rAnns as (rB0 (rPath name (rB1 (rB1 l).2).2).2).2).1 ++ x =
        '(' :: ((rB0 (rLit ['('] (rB0 (rPath name (rB1 (rB1 l).2).2).2).2).2).1 ++
          ((rSlots rAnnotation as (rB0 (rLit ['('] (rB0 (rPath name (rB1 (rB1 l).2).2).2).2).2).2).1 ++ ([')'] ++ x))) := by
      intro x
      simp only [rAnns, he, Bool.false_eq_true, if_false, rSeq_fst, rSeq_snd, rLit_fst, rLit_snd, List.append_assoc,
        List.cons_append, List.nil_append]
    obtain ⟨h1, h2, _⟩ := follow_paren (b := (rB0 (rPath name (rB1 (rB1 l).2).2).2).1)
      (r := (rB0 (rLit ['('] (rB0 (rPath name (rB1 (rB1 l).2).2).2).2).2).1 ++
          ((rSlots rAnnotation as (rB0 (rLit ['('] (rB0 (rPath name (rB1 (rB1 l).2).2).2).2).2).2).1 ++ ([')'] ++
            ((rTail false last (rAnns as (rB0 (rPath name (rB1 (rB1 l).2).2).2).2).2).1 ++ R)))) (rB0_BT _)
    rw [← hpar] at h1 h2
    obtain ⟨s, rest, hs, _, e, _⟩ := rPath_cons hname (rB1 (rB1 l).2).2
    have hnbp : ∀ x, NB ((rPath name (rB1 (rB1 l).2).2).1 ++ x) := by
      intro x; rw [e, List.append_assoc]; exact ident_NB hs
    rw [andThen_of_ok (skip_of_ok (blank_rt (rB1_BT _) (rB1_ne _) (hnbp _)) |>.trans (path_rt hname _ h1.noIdent h2))]
    have hnba : NB ((rAnns as (rB0 (rPath name (rB1 (rB1 l).2).2).2).2).1 ++
        ((rTail false last (rAnns as (rB0 (rPath name (rB1 (rB1 l).2).2).2).2).2).1 ++ R)) := by
      rw [hpar]; show notBlankStart '(' = true; decide
    rw [andThen_optBlank (rB0_BT _) hnba, andThen_of_ok (opt_of_ok (annotations_rt han.2 has _ _)),
      tail_rt false last _ hR.nb hR.noSep]
    rfl

end Pilota.Idl
