import PilotaModel.Lemmas.KeepRTFields
/-  C13, the writer-side half of the round trip: a typed value (`hasTy`) is a fixpoint of the full reader's projection
    (`canon_of_hasTy`), and whatever a reader that lacks some fields (`restrict`) makes of it with retention is mapped
    back to the original value by the full reader (`keep_back`). -/
namespace Pilota.TGen
open Pilota Pilota.Thrift

section
variable (d : Doc) (dp : Option Nat)

theorem projN_mono (f g : Nat) (hfg : f ≤ g) (el : STy) (xs : TVals) (acc ys : List TVal)
    (h : projN d dp f el xs acc = some (.ok ys)) : projN d dp g el xs acc = some (.ok ys) := by
  induction hfg with
  | refl => exact h
  | step _ ih => exact (proj_mono_all d dp _).2.1 el xs acc ys ih

theorem projPairs_mono (f g : Nat) (hfg : f ≤ g) (k v : STy) (xs : TPairs) (acc ys : List (TVal × TVal))
    (h : projPairs d dp f k v xs acc = some (.ok ys)) : projPairs d dp g k v xs acc = some (.ok ys) := by
  induction hfg with
  | refl => exact h
  | step _ ih => exact (proj_mono_all d dp _).2.2.1 k v xs acc ys ih

/-- `y` is read back as `x` at type `ty` -/
def Back (ty : STy) (x y : TVal) : Prop := ∃ G, projTy d dp G ty y = some (.ok x)

theorem Back.inj {ty : STy} {x x' y : TVal} (h : Back d dp ty x y) (h' : Back d dp ty x' y) : x = x' := by
  obtain ⟨G, hG⟩ := h
  obtain ⟨G', hG'⟩ := h'
  have a := projTy_mono d dp G (max G G') (Nat.le_max_left _ _) ty y x hG
  have b := projTy_mono d dp G' (max G G') (Nat.le_max_right _ _) ty y x' hG'
  rw [a] at b; cases b; rfl

theorem projN_all2 (e : STy) {xs ys : List TVal} (h : All2 (Back d dp e) xs ys) :
    ∃ G, ∀ acc, projN d dp G e (TVals.ofList ys) acc = some (.ok (acc.reverse ++ xs)) := by
  induction h with
  | nil => exact ⟨1, fun acc => by simp [TVals.ofList, projN]⟩
  | @cons a b as bs hr _ ih =>
    obtain ⟨G1, h1⟩ := hr
    obtain ⟨G2, h2⟩ := ih
    refine ⟨max G1 G2 + 1, fun acc => ?_⟩
    simp only [TVals.ofList, projN]
    rw [projTy_mono d dp G1 _ (Nat.le_max_left _ _) e b a h1]
    simp only
    rw [projN_mono d dp G2 _ (Nat.le_max_right _ _) e _ _ _ (h2 (a :: acc))]
    simp

theorem projPairs_all2 (k v : STy) {xs ys : List (TVal × TVal)}
    (h : All2 (fun x y => Back d dp k x.1 y.1 ∧ Back d dp v x.2 y.2) xs ys) :
    ∃ G, ∀ acc, projPairs d dp G k v (TPairs.ofList ys) acc = some (.ok (acc.reverse ++ xs)) := by
  induction h with
  | nil => exact ⟨1, fun acc => by simp [TPairs.ofList, projPairs]⟩
  | @cons a b as bs hr _ ih =>
    obtain ⟨⟨G1, h1⟩, ⟨G1', h1'⟩⟩ := hr
    obtain ⟨G2, h2⟩ := ih
    refine ⟨max (max G1 G1') G2 + 1, fun acc => ?_⟩
    obtain ⟨bk, bv⟩ := b
    simp only [TPairs.ofList, projPairs]
    rw [projTy_mono d dp G1 _ (by omega) k bk a.1 h1]
    simp only
    rw [projTy_mono d dp G1' _ (by omega) v bv a.2 h1']
    simp only
    rw [projPairs_mono d dp G2 _ (by omega) k v _ _ _ (h2 ((a.1, a.2) :: acc))]
    simp

/-- the full reader over a struct whose entries `es` are, up to order, the fields of the typed struct `wfs`, each read
back as the field it stands for: the result is `wfs` -/
theorem struct_back (P : STy → TVal → Bool) (n : String) (fs : List Field) (hn : d.find n = some (.struct fs))
    (hpw : fs.Pairwise (fun a b => a.id ≠ b.id)) (wfs : TFields) (hf : hasFields d P fs wfs = true) (es : List (Int × TVal))
    (hes : ∀ p ∈ es, ∃ v, (p.1, v) ∈ wfs.toList ∧ p.2.ttype = v.ttype ∧ ∃ G, ∀ fl ∈ fs, fl.id = p.1 → projTy d dp G fl.ty p.2 = some (.ok v))
    (hcov : ∀ q ∈ wfs.toList, ∃ p ∈ es, p.1 = q.1) :
    ∃ G, projTy d dp G (.ref n) (.struct (TFields.ofList es)) = some (.ok (.struct wfs)) := by
  have hnd := hasFields_nodup d P fs wfs hpw hf
  let φ : Int → TVal := fun id => (slotGet wfs.toList id).getD (.bool false)
  let Q : (Int × TVal) → Nat → Prop := fun p G => inS 2 p.1 ∧ ∃ fl, fs.find? (fun x => x.id == p.1 && d.ttype x.ty == p.2.ttype) = some fl ∧
      projTy d dp G fl.ty p.2 = some (.ok (φ p.1))
  have hQ : ∀ p ∈ es, ∃ G, Q p G := by
    intro p hp
    obtain ⟨v, hm, htt, G, hG⟩ := hes p hp
    obtain ⟨fl, hfl, hid, hin, hty, _⟩ := hasFields_mem d P fs wfs hf (p.1, v) hm
    refine ⟨G, hin, fl, ?_, ?_⟩
    · apply find_unique fs hpw fl hfl
      · simp only [Bool.and_eq_true, beq_iff_eq]; exact ⟨hid, by rw [hty, htt]⟩
      · intro x hx; simp only [Bool.and_eq_true, beq_iff_eq] at hx; rw [hx.1, hid]
    · have : φ p.1 = v := by
        show (slotGet wfs.toList p.1).getD _ = v
        rw [slotGet_of_mem wfs.toList hnd (p.1, v) hm]; rfl
      rw [this]; exact hG fl hfl hid
  obtain ⟨F, hF⟩ := uniform_fuel Q (by
    intro p f g hfg hq
    obtain ⟨hin, fl, hfind, hproj⟩ := hq
    exact ⟨hin, fl, hfind, projTy_mono d dp f g hfg _ _ _ hproj⟩) es hQ
  obtain ⟨slots', hrun, hget⟩ := projFields_all d dp fs φ F es [] hF
  refine ⟨F + es.length + 1 + 1, ?_⟩
  simp only [projTy, hn, hrun]
  have hfin : finish fs slots' = .ok wfs.toList := by
    apply hasFields_finish d P fs wfs slots' hpw hf
    intro fl _
    rw [hget fl.id]
    by_cases hany : es.any (fun p => p.1 == fl.id) = true
    · simp only [hany, if_true]
      obtain ⟨p, hp, hpid⟩ := List.any_eq_true.mp hany
      obtain ⟨v, hm, _, _⟩ := hes p hp
      have hpid' : p.1 = fl.id := by simpa using hpid
      have := slotGet_of_mem wfs.toList hnd (p.1, v) hm
      simp only at this
      rw [hpid'] at this
      show some ((slotGet wfs.toList fl.id).getD _) = _
      rw [this]; rfl
    · simp only [hany, Bool.false_eq_true, if_false]
      have hnone : slotGet wfs.toList fl.id = none := by
        apply slotGet_none_of_not_mem
        intro q hq heq
        obtain ⟨p, hp, hpid⟩ := hcov q hq
        exact hany (List.any_eq_true.mpr ⟨p, hp, by simp [hpid, heq]⟩)
      rw [hnone]; simp [slotGet]
  rw [hfin]
  simp [TFields.ofList_toList]

/-- **a typed value is a fixpoint of the reader's projection** (so it is `Props/C02.Canon`) -/
theorem canon_of_hasTy (hd : d.fieldsOk) : ∀ (f : Nat) (ty : STy) (w : TVal), hasTy d f ty w = true → Back d dp ty w w := by
  intro f
  induction f with
  | zero => intro ty w h; simp [hasTy] at h
  | succ f ih =>
    intro ty w h
    cases ty with
    | bool => cases w <;> simp [hasTy] at h; exact ⟨1, by simp [projTy]⟩
    | i8 => cases w <;> simp [hasTy] at h; exact ⟨1, by simp [projTy]⟩
    | i16 => cases w <;> simp [hasTy] at h; exact ⟨1, by simp [projTy]⟩
    | i32 => cases w <;> simp [hasTy] at h; exact ⟨1, by simp [projTy]⟩
    | i64 => cases w <;> simp [hasTy] at h; exact ⟨1, by simp [projTy]⟩
    | double => cases w <;> simp [hasTy] at h; exact ⟨1, by simp [projTy]⟩
    | string => cases w <;> simp [hasTy] at h; exact ⟨1, by simp [projTy]⟩
    | binary => cases w <;> simp [hasTy] at h; exact ⟨1, by simp [projTy]⟩
    | uuid => cases w <;> simp [hasTy] at h; exact ⟨1, by simp [projTy]⟩
    | void => cases w <;> simp [hasTy] at h
    | list e =>
      cases w <;> simp only [hasTy] at h <;> try (cases h; done)
      rename_i t xs
      simp only [Bool.and_eq_true, beq_iff_eq] at h
      have hall := (allV_iff _ xs).mp h.2
      obtain ⟨G, hG⟩ := projN_all2 d dp e (All2.refl_of xs.toList (fun x hx => ih e x (hall x hx)))
      refine ⟨G + 1, ?_⟩
      have := hG []
      rw [TVals.ofList_toList] at this
      simp [projTy, this, h.1, TVals.ofList_toList]
    | set e =>
      cases w <;> simp only [hasTy] at h <;> try (cases h; done)
      rename_i t xs
      simp only [Bool.and_eq_true, beq_iff_eq] at h
      have hall := (allV_iff _ xs).mp h.1.2
      have hnd := (distinctL_iff _).mp h.2
      obtain ⟨G, hG⟩ := projN_all2 d dp e (All2.refl_of xs.toList (fun x hx => ih e x (hall x hx)))
      refine ⟨G + 1, ?_⟩
      have := hG []
      rw [TVals.ofList_toList] at this
      simp [projTy, this, h.1.1, foldl_setInsert_nodup xs.toList [] hnd (by simp), TVals.ofList_toList]
    | map k v =>
      cases w <;> simp only [hasTy] at h <;> try (cases h; done)
      rename_i kt vt kvs
      simp only [Bool.and_eq_true, beq_iff_eq] at h
      have hall := (allP_iff _ _ kvs).mp h.1.2
      have hnd := (distinctL_iff _).mp h.2
      obtain ⟨G, hG⟩ := projPairs_all2 d dp k v (All2.refl_of kvs.toList (fun x hx => ⟨ih k x.1 (hall x hx).1, ih v x.2 (hall x hx).2⟩))
      refine ⟨G + 1, ?_⟩
      have := hG []
      rw [TPairs.ofList_toList] at this
      simp [projTy, this, h.1.1.1, h.1.1.2, foldl_mapInsert_nodup kvs.toList [] hnd (by simp), TPairs.ofList_toList]
    | ref n =>
      simp only [hasTy] at h
      cases hn : d.find n with
      | none => simp [hn] at h
      | some df =>
        cases df with
        | struct fs =>
          simp only [hn] at h
          cases w <;> simp only at h <;> try (cases h; done)
          rename_i wfs
          have := struct_back d dp (hasTy d f) n fs hn (hd n fs hn) wfs h wfs.toList (by
            intro p hp
            refine ⟨p.2, hp, rfl, ?_⟩
            obtain ⟨fl, hfl, hid, _, _, hty⟩ := hasFields_mem d _ fs wfs h p hp
            obtain ⟨G, hG⟩ := ih fl.ty p.2 hty
            refine ⟨G, fun fl' hfl' hid' => ?_⟩
            have : fl' = fl := same_field fs (hd n fs hn) fl' fl hfl' hfl (by rw [hid, hid'])
            rw [this]; exact hG) (fun q hq => ⟨q, hq, rfl⟩)
          rw [TFields.ofList_toList] at this
          exact this
        | union vs =>
          simp only [hn] at h
          cases w <;> (try (simp at h; done))
          rename_i wfs
          cases wfs with
          | nil =>
            cases vs with
            | nil => simp at h
            | cons hd tl =>
              obtain ⟨i, t⟩ := hd
              cases t <;> simp at h
              exact ⟨2, by simp [projTy, hn, projUnion]⟩
          | cons id v r =>
            cases r with
            | cons => simp at h
            | nil =>
              simp only at h
              cases hfind : vs.find? (fun x => x.1 == id && !(x.2 == .void)) with
              | none => simp [hfind] at h
              | some p =>
                obtain ⟨pid, ty⟩ := p
                simp only [hfind, Bool.and_eq_true, decide_eq_true_eq, beq_iff_eq] at h
                obtain ⟨G, hG⟩ := ih ty v h.2
                refine ⟨G + 1 + 1 + 1, ?_⟩
                have hG' := projTy_mono d dp G (G + 1) (by omega) ty v v hG
                simp only [projTy, hn, projUnion, h.1.1, not_true_eq_false, if_false, hfind, Option.isSome_none, Bool.false_eq_true,
                  h.1.2, bne_self_eq_false, hG']
        | enum =>
          simp only [hn] at h
          cases w <;> simp only at h <;> try (cases h; done)
          exact ⟨1, by simp [projTy, hn]⟩
        | typedef t =>
          simp only [hn] at h
          obtain ⟨G, hG⟩ := ih t w h
          exact ⟨G + 1, by simp [projTy, hn, hG]⟩

end
end Pilota.TGen

namespace Pilota.TGen
open Pilota Pilota.Thrift

section
variable (dw : Doc) (keep : String → Field → Bool) (dpr dpw : Option Nat)

/-- `y` has the wire type of `x` and the full reader maps it back to `x` -/
def BackT (ty : STy) (x y : TVal) : Prop := y.ttype = x.ttype ∧ Back dw dpw ty x y

theorem projNK_inv (e : STy) (P : TVal → Prop)
    (hIH : ∀ x, P x → ∀ fK y, projTyK (restrict dw keep) dpr fK e x = some (.ok y) → BackT dw dpw e x y) :
    ∀ (fK : Nat) (xs : TVals), (∀ x ∈ xs.toList, P x) → ∀ acc ys, projNK (restrict dw keep) dpr fK e xs acc = some (.ok ys) →
      ∃ ys0, ys = acc.reverse ++ ys0 ∧ All2 (BackT dw dpw e) xs.toList ys0 := by
  intro fK
  induction fK with
  | zero => intro xs _ acc ys h; simp [projNK] at h
  | succ fK ih =>
    intro xs hP acc ys h
    cases xs with
    | nil =>
      simp only [projNK, Option.some.injEq, Out.ok.injEq] at h
      exact ⟨[], by simp [h], .nil⟩
    | cons x xs =>
      simp only [projNK] at h
      cases hx : projTyK (restrict dw keep) dpr fK e x with
      | none => simp [hx] at h
      | some o =>
        cases o with
        | ok v =>
          simp only [hx] at h
          obtain ⟨ys0, hy, hall⟩ := ih xs (fun y hy => hP y (by simp [TVals.toList, hy])) (v :: acc) ys h
          exact ⟨v :: ys0, by simp [hy], .cons (hIH x (hP x (by simp [TVals.toList])) fK v hx) hall⟩
        | err k => simp [hx] at h
        | panic m => simp [hx] at h
        | fuel => simp [hx] at h

theorem projPairsK_inv (k v : STy) (P Q : TVal → Prop)
    (hK : ∀ x, P x → ∀ fK y, projTyK (restrict dw keep) dpr fK k x = some (.ok y) → BackT dw dpw k x y)
    (hV : ∀ x, Q x → ∀ fK y, projTyK (restrict dw keep) dpr fK v x = some (.ok y) → BackT dw dpw v x y) :
    ∀ (fK : Nat) (xs : TPairs), (∀ x ∈ xs.toList, P x.1 ∧ Q x.2) → ∀ acc ys, projPairsK (restrict dw keep) dpr fK k v xs acc = some (.ok ys) →
      ∃ ys0, ys = acc.reverse ++ ys0 ∧ All2 (fun x y => BackT dw dpw k x.1 y.1 ∧ BackT dw dpw v x.2 y.2) xs.toList ys0 := by
  intro fK
  induction fK with
  | zero => intro xs _ acc ys h; simp [projPairsK] at h
  | succ fK ih =>
    intro xs hP acc ys h
    cases xs with
    | nil =>
      simp only [projPairsK, Option.some.injEq, Out.ok.injEq] at h
      exact ⟨[], by simp [h], .nil⟩
    | cons a b xs =>
      simp only [projPairsK] at h
      cases ha : projTyK (restrict dw keep) dpr fK k a with
      | none => simp [ha] at h
      | some o =>
        cases o with
        | ok ka =>
          simp only [ha] at h
          cases hb : projTyK (restrict dw keep) dpr fK v b with
          | none => simp [hb] at h
          | some o2 =>
            cases o2 with
            | ok vb =>
              simp only [hb] at h
              obtain ⟨ys0, hy, hall⟩ := ih xs (fun y hy => hP y (by simp [TPairs.toList, hy])) ((ka, vb) :: acc) ys h
              have hab := hP (a, b) (by simp [TPairs.toList])
              exact ⟨(ka, vb) :: ys0, by simp [hy], .cons ⟨hK a hab.1 fK ka ha, hV b hab.2 fK vb hb⟩ hall⟩
            | err e => simp [hb] at h
            | panic m => simp [hb] at h
            | fuel => simp [hb] at h
        | err e => simp [ha] at h
        | panic m => simp [ha] at h
        | fuel => simp [ha] at h

/-- does the reader (which has the fields of `fs0` that `kp` keeps) know the wire field `p`? -/
def keptBy (fs0 : List Field) (kp : Field → Bool) (p : Int × TVal) : Bool :=
  match fs0.find? (fun x => x.id == p.1 && dw.ttype x.ty == p.2.ttype) with
  | some fl => kp fl
  | none => false

def RelK (fs0 : List Field) (p q : Int × TVal) : Prop :=
  q.1 = p.1 ∧ q.2.ttype = p.2.ttype ∧ ∃ G, ∀ fl ∈ fs0, fl.id = p.1 → projTy dw dpw G fl.ty q.2 = some (.ok p.2)

theorem projFieldsK_inv (fs0 : List Field) (kp : Field → Bool) (hpw : fs0.Pairwise (fun a b => a.id ≠ b.id)) (f : Nat)
    (hIH : ∀ ty x, hasTy dw f ty x = true → ∀ fK y, projTyK (restrict dw keep) dpr fK ty x = some (.ok y) → BackT dw dpw ty x y) :
    ∀ (fK : Nat) (wfs : TFields), (∀ p ∈ wfs.toList, ∃ fl ∈ fs0, fl.id = p.1 ∧ dw.ttype fl.ty = p.2.ttype ∧ hasTy dw f fl.ty p.2 = true) →
    ∀ slots unk slots' unk', projFieldsK (restrict dw keep) dpr fK (fs0.filter kp) slots unk wfs = some (.ok (slots', unk')) →
      ∃ ks, slots' = setAll slots ks ∧ unk' = unk ++ wfs.toList.filter (fun p => !keptBy dw fs0 kp p) ∧
        All2 (RelK dw dpw fs0) (wfs.toList.filter (keptBy dw fs0 kp)) ks := by
  intro fK
  induction fK with
  | zero => intro wfs _ slots unk slots' unk' h; simp [projFieldsK] at h
  | succ fK ih =>
    intro wfs hty slots unk slots' unk' h
    cases wfs with
    | nil =>
      simp only [projFieldsK, Option.some.injEq, Out.ok.injEq, Prod.mk.injEq] at h
      exact ⟨[], by simp [setAll, h.1], by simp [TFields.toList, h.2], by simp [TFields.toList]; exact .nil⟩
    | cons id v r =>
      obtain ⟨fl, hfl, hid, htt, hv⟩ := hty (id, v) (by simp [TFields.toList])
      have hfind0 : fs0.find? (fun x => x.id == id && dw.ttype x.ty == v.ttype) = some fl := by
        apply find_unique fs0 hpw fl hfl
        · simp only [Bool.and_eq_true, beq_iff_eq]; exact ⟨hid, htt⟩
        · intro x hx; simp only [Bool.and_eq_true, beq_iff_eq] at hx; rw [hx.1, hid]
      have hrest : ∀ p ∈ r.toList, ∃ fl ∈ fs0, fl.id = p.1 ∧ dw.ttype fl.ty = p.2.ttype ∧ hasTy dw f fl.ty p.2 = true :=
        fun p hp => hty p (by simp [TFields.toList, hp])
      simp only [projFieldsK, restrict_ttype, List.find?_filter] at h
      split at h
      · cases h
      · by_cases hk : kp fl = true
        · have hfr : fs0.find? (fun a => decide (kp a = true ∧ (a.id == id && dw.ttype a.ty == v.ttype) = true)) = some fl := by
            apply find_unique fs0 hpw fl hfl
            · simp only [decide_eq_true_eq, Bool.and_eq_true, beq_iff_eq]; exact ⟨hk, hid, htt⟩
            · intro x hx; simp only [decide_eq_true_eq, Bool.and_eq_true, beq_iff_eq] at hx; rw [hx.2.1, hid]
          rw [hfr] at h
          simp only at h
          cases hx : projTyK (restrict dw keep) dpr fK fl.ty v with
          | none => simp [hx] at h
          | some o =>
            cases o with
            | ok pv =>
              simp only [hx] at h
              obtain ⟨ks, h1, h2, h3⟩ := ih r hrest _ unk slots' unk' h
              have hkept : keptBy dw fs0 kp (id, v) = true := by simp [keptBy, hfind0, hk]
              refine ⟨(id, pv) :: ks, by simpa [setAll] using h1, ?_, ?_⟩
              · simp [TFields.toList, List.filter_cons, hkept, h2]
              · simp only [TFields.toList, List.filter_cons, hkept, if_true]
                obtain ⟨ht, G, hG⟩ := hIH fl.ty v hv fK pv hx
                refine .cons ⟨rfl, ht, G, fun fl' hfl' hid' => ?_⟩ h3
                have : fl' = fl := same_field fs0 hpw fl' fl hfl' hfl (by rw [hid, hid'])
                rw [this]; exact hG
            | err e => simp [hx] at h
            | panic m => simp [hx] at h
            | fuel => simp [hx] at h
        · have hfr : fs0.find? (fun a => decide (kp a = true ∧ (a.id == id && dw.ttype a.ty == v.ttype) = true)) = none := by
            rw [List.find?_eq_none]
            intro x hx hq
            simp only [decide_eq_true_eq, Bool.and_eq_true, beq_iff_eq] at hq
            have : x = fl := same_field fs0 hpw x fl hx hfl (by rw [hq.2.1, hid])
            rw [this] at hq; exact hk hq.1
          rw [hfr] at h
          simp only at h
          split at h
          · obtain ⟨ks, h1, h2, h3⟩ := ih r hrest slots _ slots' unk' h
            have hkept : keptBy dw fs0 kp (id, v) = false := by simp [keptBy, hfind0, hk]
            refine ⟨ks, h1, ?_, ?_⟩
            · simp [TFields.toList, List.filter_cons, hkept, h2]
            · simpa [TFields.toList, List.filter_cons, hkept] using h3
          · cases h

end
end Pilota.TGen

namespace Pilota.TGen
open Pilota Pilota.Thrift

section
variable (dw : Doc) (keep : String → Field → Bool) (dpr dpw : Option Nat)

theorem keptBy_eq (fs0 : List Field) (kp : Field → Bool) (hpw : fs0.Pairwise (fun a b => a.id ≠ b.id)) (q : Int × TVal) (fl : Field)
    (hfl : fl ∈ fs0) (hid : fl.id = q.1) (htt : dw.ttype fl.ty = q.2.ttype) : keptBy dw fs0 kp q = kp fl := by
  have : fs0.find? (fun x => x.id == q.1 && dw.ttype x.ty == q.2.ttype) = some fl := by
    apply find_unique fs0 hpw fl hfl
    · simp only [Bool.and_eq_true, beq_iff_eq]; exact ⟨hid, htt⟩
    · intro x hx; simp only [Bool.and_eq_true, beq_iff_eq] at hx; rw [hx.1, hid]
  simp [keptBy, this]

theorem BackT.inj {ty : STy} {x x' y : TVal} (h : BackT dw dpw ty x y) (h' : BackT dw dpw ty x' y) : x = x' := Back.inj dw dpw h.2 h'.2

/-- **the full reader undoes the retaining reader**: for a typed value `w`, whatever the reader of the restricted document
returns for it with retention is read back by the full reader as `w` itself. -/
theorem keep_back_all (hd : dw.fieldsOk) (hu : dw.variantsOk) : ∀ (f : Nat) (ty : STy) (w : TVal), hasTy dw f ty w = true →
    ∀ fK w', projTyK (restrict dw keep) dpr fK ty w = some (.ok w') → BackT dw dpw ty w w' := by
  intro f
  induction f with
  | zero => intro ty w h; simp [hasTy] at h
  | succ f ih =>
    intro ty w h fK w' hk
    cases fK with
    | zero => simp [projTyK] at hk
    | succ fK =>
    cases ty with
    | bool => cases w <;> simp [hasTy] at h; simp [projTyK, projTy] at hk; subst hk; exact ⟨rfl, 1, by simp [projTy]⟩
    | i8 => cases w <;> simp [hasTy] at h; simp [projTyK, projTy] at hk; subst hk; exact ⟨rfl, 1, by simp [projTy]⟩
    | i16 => cases w <;> simp [hasTy] at h; simp [projTyK, projTy] at hk; subst hk; exact ⟨rfl, 1, by simp [projTy]⟩
    | i32 => cases w <;> simp [hasTy] at h; simp [projTyK, projTy] at hk; subst hk; exact ⟨rfl, 1, by simp [projTy]⟩
    | i64 => cases w <;> simp [hasTy] at h; simp [projTyK, projTy] at hk; subst hk; exact ⟨rfl, 1, by simp [projTy]⟩
    | double => cases w <;> simp [hasTy] at h; simp [projTyK, projTy] at hk; subst hk; exact ⟨rfl, 1, by simp [projTy]⟩
    | string => cases w <;> simp [hasTy] at h; simp [projTyK, projTy] at hk; subst hk; exact ⟨rfl, 1, by simp [projTy]⟩
    | binary => cases w <;> simp [hasTy] at h; simp [projTyK, projTy] at hk; subst hk; exact ⟨rfl, 1, by simp [projTy]⟩
    | uuid => cases w <;> simp [hasTy] at h; simp [projTyK, projTy] at hk; subst hk; exact ⟨rfl, 1, by simp [projTy]⟩
    | void => cases w <;> simp [hasTy] at h
    | list e =>
      cases w <;> (try (simp [hasTy] at h; done))
      rename_i t xs
      simp only [hasTy, Bool.and_eq_true, beq_iff_eq] at h
      have hall := (allV_iff _ xs).mp h.2
      simp only [projTyK] at hk
      cases hn : projNK (restrict dw keep) dpr fK e xs [] with
      | none => simp [hn] at hk
      | some o =>
        cases o with
        | ok ys =>
          simp only [hn, Option.some.injEq, Out.ok.injEq] at hk
          obtain ⟨ys0, hy, hall2⟩ := projNK_inv dw keep dpr dpw e (fun x => hasTy dw f e x = true) (fun x hx => ih e x hx) fK xs hall [] ys hn
          simp only [List.reverse_nil, List.nil_append] at hy
          subst hy
          obtain ⟨G, hG⟩ := projN_all2 dw dpw e (All2.imp (fun _ _ h => h.2) hall2)
          subst hk
          refine ⟨rfl, G + 1, ?_⟩
          simp [projTy, hG [], h.1, TVals.ofList_toList]
        | err k => simp [hn] at hk
        | panic m => simp [hn] at hk
        | fuel => simp [hn] at hk
    | set e =>
      cases w <;> (try (simp [hasTy] at h; done))
      rename_i t xs
      simp only [hasTy, Bool.and_eq_true, beq_iff_eq] at h
      have hall := (allV_iff _ xs).mp h.1.2
      have hnd := (distinctL_iff _).mp h.2
      simp only [projTyK] at hk
      cases hn : projNK (restrict dw keep) dpr fK e xs [] with
      | none => simp [hn] at hk
      | some o =>
        cases o with
        | ok ys =>
          simp only [hn, Option.some.injEq, Out.ok.injEq] at hk
          obtain ⟨ys0, hy, hall2⟩ := projNK_inv dw keep dpr dpw e (fun x => hasTy dw f e x = true) (fun x hx => ih e x hx) fK xs hall [] ys hn
          simp only [List.reverse_nil, List.nil_append] at hy
          subst hy
          have hnd2 : ys.Nodup := All2.nodup_right (R := BackT dw dpw e) (fun a a' b h1 h2 => BackT.inj dw dpw h1 h2) hall2 hnd
          obtain ⟨G, hG⟩ := projN_all2 dw dpw e (All2.imp (fun _ _ h => h.2) hall2)
          subst hk
          refine ⟨rfl, G + 1, ?_⟩
          rw [foldl_setInsert_nodup ys [] hnd2 (by simp)]
          simp [projTy, hG [], h.1.1, foldl_setInsert_nodup xs.toList [] hnd (by simp), TVals.ofList_toList]
        | err k => simp [hn] at hk
        | panic m => simp [hn] at hk
        | fuel => simp [hn] at hk
    | map k v =>
      cases w <;> (try (simp [hasTy] at h; done))
      rename_i kt vt kvs
      simp only [hasTy, Bool.and_eq_true, beq_iff_eq] at h
      have hall := (allP_iff _ _ kvs).mp h.1.2
      have hnd := (distinctL_iff _).mp h.2
      simp only [projTyK] at hk
      cases hn : projPairsK (restrict dw keep) dpr fK k v kvs [] with
      | none => simp [hn] at hk
      | some o =>
        cases o with
        | ok ys =>
          simp only [hn, Option.some.injEq, Out.ok.injEq] at hk
          obtain ⟨ys0, hy, hall2⟩ := projPairsK_inv dw keep dpr dpw k v (fun x => hasTy dw f k x = true) (fun x => hasTy dw f v x = true)
            (fun x hx => ih k x hx) (fun x hx => ih v x hx) fK kvs hall [] ys hn
          simp only [List.reverse_nil, List.nil_append] at hy
          subst hy
          have hnd2 : (ys.map (·.1)).Nodup :=
            All2.nodup_right (R := BackT dw dpw k) (fun a a' b h1 h2 => BackT.inj dw dpw h1 h2) (All2.map (·.1) (·.1) (fun _ _ h => h.1) hall2) hnd
          obtain ⟨G, hG⟩ := projPairs_all2 dw dpw k v (All2.imp (fun _ _ h => ⟨h.1.2, h.2.2⟩) hall2)
          subst hk
          refine ⟨rfl, G + 1, ?_⟩
          rw [foldl_mapInsert_nodup ys [] hnd2 (by simp)]
          simp [projTy, hG [], h.1.1.1, h.1.1.2, foldl_mapInsert_nodup kvs.toList [] hnd (by simp), TPairs.ofList_toList]
        | err k => simp [hn] at hk
        | panic m => simp [hn] at hk
        | fuel => simp [hn] at hk
    | ref n =>
      simp only [hasTy] at h
      cases hn : dw.find n with
      | none => simp [hn] at h
      | some df =>
        cases df with
        | struct fs0 =>
          simp only [hn] at h
          cases w <;> (try (simp at h; done))
          rename_i wfs
          simp only at h
          have hpw := hd n fs0 hn
          have hnr : (restrict dw keep).find n = some (.struct (fs0.filter (keep n))) := by rw [restrict_find, hn]; rfl
          simp only [projTyK, hnr] at hk
          cases hl : projFieldsK (restrict dw keep) dpr fK (fs0.filter (keep n)) [] [] wfs with
          | none => simp [hl] at hk
          | some o =>
            cases o with
            | ok su =>
              obtain ⟨slots, unk⟩ := su
              simp only [hl] at hk
              cases hfin : finish (fs0.filter (keep n)) slots with
              | ok out =>
                simp only [hfin, Option.some.injEq, Out.ok.injEq] at hk
                subst hk
                have hmem := hasFields_mem dw (hasTy dw f) fs0 wfs h
                obtain ⟨ks, hs, hu, hrel⟩ := projFieldsK_inv dw keep dpr dpw fs0 (keep n) hpw f (fun ty x hx => ih ty x hx) fK wfs
                    (fun p hp => by obtain ⟨fl, a, b, _, c, e⟩ := hmem p hp; exact ⟨fl, a, b, c, e⟩) [] [] slots unk hl
                simp only [List.nil_append] at hu
                have keptSlot : ∀ q ∈ wfs.toList, ∀ fl ∈ fs0, keep n fl = true → fl.id = q.1 → (slotGet slots fl.id).isSome = true := by
                  intro q hq fl hfl hkp hid
                  obtain ⟨fl', hfl', hid', _, htt', _⟩ := hmem q hq
                  have hsame : fl' = fl := same_field fs0 hpw fl' fl hfl' hfl (by rw [hid, hid'])
                  rw [hsame] at htt'
                  have hkq : keptBy dw fs0 (keep n) q = true := by rw [keptBy_eq dw fs0 (keep n) hpw q fl hfl hid htt']; exact hkp
                  obtain ⟨k, hkm, hk1, _⟩ := hrel.mem_left q (List.mem_filter.mpr ⟨hq, hkq⟩)
                  rw [hs]
                  exact setAll_get_isSome ks [] fl.id (.inl ⟨k, hkm, by rw [hk1, hid]⟩)
                refine ⟨rfl, ?_⟩
                apply struct_back dw dpw (hasTy dw f) n fs0 hn hpw wfs h (out ++ unk)
                · intro p hp
                  rcases List.mem_append.mp hp with hpo | hpu
                  · obtain ⟨fl, hflr, hid, hslot⟩ := finish_mem _ slots out hfin p hpo
                    have hfl0 := List.mem_filter.mp hflr
                    rcases hslot with hsome | ⟨hnone, hdf⟩
                    · rw [hs] at hsome
                      rcases setAll_get_some ks [] fl.id p.2 hsome with hin | hbad
                      · obtain ⟨a, ha, ha1, ha2, G, hG⟩ := hrel.mem_right (fl.id, p.2) hin
                        simp only at ha1 ha2 hG
                        have hqw := (List.mem_filter.mp ha).1
                        have hpa : (p.1, a.2) = a := by rw [← hid, ha1]
                        refine ⟨a.2, by rw [hpa]; exact hqw, ha2, G, ?_⟩
                        intro fl' hfl' hid'
                        exact hG fl' hfl' (by rw [hid', ← hid, ha1])
                      · simp [slotGet] at hbad
                    · exfalso
                      rcases hasFields_absent dw _ fs0 wfs h fl hfl0.1 with ⟨q, hq, hqid⟩ | ⟨_, hdn⟩
                      · have := keptSlot q hq fl hfl0.1 hfl0.2 hqid.symm
                        rw [hnone] at this; cases this
                      · rw [hdn] at hdf; cases hdf
                  · rw [hu] at hpu
                    have hpw' := (List.mem_filter.mp hpu).1
                    obtain ⟨fl, hfl, hid, _, htt, hty⟩ := hmem p hpw'
                    obtain ⟨G, hG⟩ := canon_of_hasTy dw dpw hd f fl.ty p.2 hty
                    refine ⟨p.2, hpw', rfl, G, fun fl' hfl' hid' => ?_⟩
                    rw [same_field fs0 hpw fl' fl hfl' hfl (by rw [hid, hid'])]; exact hG
                · intro q hq
                  by_cases hkq : keptBy dw fs0 (keep n) q = true
                  · obtain ⟨fl, hfl, hid, _, htt, _⟩ := hmem q hq
                    have hkp : keep n fl = true := by rw [← keptBy_eq dw fs0 (keep n) hpw q fl hfl hid htt]; exact hkq
                    have hsome := keptSlot q hq fl hfl hkp hid
                    obtain ⟨pv, hpv⟩ := Option.isSome_iff_exists.mp hsome
                    have := finish_has _ slots out hfin fl (List.mem_filter.mpr ⟨hfl, hkp⟩) pv hpv
                    exact ⟨(fl.id, pv), List.mem_append.mpr (.inl this), hid⟩
                  · refine ⟨q, List.mem_append.mpr (.inr ?_), rfl⟩
                    rw [hu]
                    exact List.mem_filter.mpr ⟨hq, by simpa using hkq⟩
              | err k => simp [hfin] at hk
              | panic m => simp [hfin] at hk
              | fuel => simp [hfin] at hk
            | err k => simp [hl] at hk
            | panic m => simp [hl] at hk
            | fuel => simp [hl] at hk
        | union vs =>
          have h0 : hasTy dw (f + 1) (.ref n) w = true := by simp only [hasTy]; exact h
          simp only [hn] at h
          cases w <;> (try (simp at h; done))
          rename_i wfs
          have hnr : (restrict dw keep).find n = some (.union (vs.filter (keepVariant keep n))) := by rw [restrict_find, hn]; rfl
          simp only [projTyK, hnr] at hk
          cases wfs with
          | nil =>
            cases vs with
            | nil => simp at h
            | cons hd' tl =>
              obtain ⟨i, t⟩ := hd'
              cases t <;> simp at h
              have hvv : (STy.void == STy.void) = true := by decide
              have hvs : ((i, STy.void) :: tl).filter (keepVariant keep n) = (i, STy.void) :: tl.filter (keepVariant keep n) := by
                simp [List.filter_cons, keepVariant, hvv]
              rw [hvs] at hk
              cases fK with
              | zero => simp [projUnionK] at hk
              | succ fK =>
                simp [projUnionK] at hk
                subst hk
                exact ⟨rfl, 2, by simp [projTy, hn, projUnion]⟩
          | cons id v r =>
            cases r with
            | cons => simp at h
            | nil =>
              simp only at h
              cases hfind : vs.find? (fun x => x.1 == id && !(x.2 == .void)) with
              | none => simp [hfind] at h
              | some p =>
                obtain ⟨pid, ty⟩ := p
                simp only [hfind, Bool.and_eq_true, decide_eq_true_eq, beq_iff_eq] at h
                have hq := List.find?_some hfind
                simp only [Bool.and_eq_true, beq_iff_eq, Bool.not_eq_true'] at hq
                have hmem := List.mem_of_find?_eq_some hfind
                have hpw := hu n vs hn
                by_cases hkeep : keepVariant keep n (pid, ty) = true
                · -- the reader knows the variant
                  have hfr : (vs.filter (keepVariant keep n)).find? (fun x => x.1 == id && !(x.2 == .void)) = some (pid, ty) := by
                    rw [List.find?_filter]
                    apply find_unique_key (fun x : Int × STy => x.1) vs hpw (pid, ty) hmem
                    · simp only [decide_eq_true_eq, Bool.and_eq_true, beq_iff_eq, Bool.not_eq_true']; exact ⟨hkeep, hq.1, hq.2⟩
                    · intro y hy; simp only [decide_eq_true_eq, Bool.and_eq_true, beq_iff_eq] at hy; rw [hy.2.1, hq.1]
                  cases fK with
                  | zero => simp [projUnionK] at hk
                  | succ fK =>
                    simp only [projUnionK, h.1.1, not_true_eq_false, if_false, hfr, Option.isSome_none, Bool.false_eq_true,
                      restrict_ttype, h.1.2, bne_self_eq_false] at hk
                    cases hx : projTyK (restrict dw keep) dpr fK ty v with
                    | none => simp [hx] at hk
                    | some o =>
                      cases o with
                      | ok pv =>
                        simp only [hx] at hk
                        cases fK with
                        | zero => simp [projTyK] at hx
                        | succ fK =>
                          simp only [projUnionK, Option.some.injEq, Out.ok.injEq] at hk
                          subst hk
                          obtain ⟨ht, G, hG⟩ := ih ty v h.2 (fK + 1) pv hx
                          refine ⟨rfl, G + 1 + 1 + 1, ?_⟩
                          have hG' := projTy_mono dw dpw G (G + 1) (by omega) ty pv v hG
                          simp only [projTy, hn, projUnion, h.1.1, not_true_eq_false, if_false, hfind, Option.isSome_none, Bool.false_eq_true,
                            ht, h.1.2, bne_self_eq_false, hG']
                      | err k => simp [hx] at hk
                      | panic m => simp [hx] at hk
                      | fuel => simp [hx] at hk
                · -- a variant the reader lacks: retained as it is (`_UnknownFields`), so the re-encoding is the original
                  have hfr : (vs.filter (keepVariant keep n)).find? (fun x => x.1 == id && !(x.2 == .void)) = none := by
                    rw [List.find?_filter, List.find?_eq_none]
                    intro x hx hpq
                    simp only [decide_eq_true_eq, Bool.and_eq_true, beq_iff_eq] at hpq
                    have : x = (pid, ty) := same_key (fun x : Int × STy => x.1) vs hpw x (pid, ty) hx hmem (by rw [hpq.2.1, hq.1])
                    rw [this] at hpq; exact hkeep hpq.1
                  cases fK with
                  | zero => simp [projUnionK] at hk
                  | succ fK =>
                    simp only [projUnionK, h.1.1, not_true_eq_false, if_false, hfr, Option.isSome_none, Bool.false_eq_true] at hk
                    by_cases hadm : admitsB dpr v.need = true
                    · simp only [hadm, if_true] at hk
                      cases fK with
                      | zero => simp [projUnionK] at hk
                      | succ fK =>
                        simp only [projUnionK, Option.some.injEq, Out.ok.injEq] at hk
                        subst hk
                        exact ⟨rfl, canon_of_hasTy dw dpw hd (f + 1) (.ref n) _ h0⟩
                    · simp [hadm] at hk
        | enum =>
          simp only [hn] at h
          cases w <;> (try (simp at h; done))
          have hnr : (restrict dw keep).find n = some .enum := by rw [restrict_find, hn]; rfl
          simp only [projTyK, hnr, Option.some.injEq, Out.ok.injEq] at hk
          subst hk
          exact ⟨rfl, 1, by simp [projTy, hn]⟩
        | typedef t =>
          simp only [hn] at h
          have hnr : (restrict dw keep).find n = some (.typedef t) := by rw [restrict_find, hn]; rfl
          simp only [projTyK, hnr] at hk
          obtain ⟨ht, G, hG⟩ := ih t w h fK w' hk
          exact ⟨ht, G + 1, by simp [projTy, hn, hG]⟩

end
end Pilota.TGen
