import PilotaModel.Lemmas.KeepRTFields
/-  C13, the writer-side half of the round trip: a typed value (`hasTy`) is a fixpoint of the full reader's projection
    (`canon_of_hasTy`), and whatever a reader that lacks some fields (`restrict`) makes of it with retention is mapped
    back to the original value by the full reader (`keep_back`). -/
namespace Pilota.TGen
open Pilota Pilota.Thrift

section
variable (d : Doc) (dp : Option Nat)

theorem projN_mono (f g : Nat) (hfg : f ≤ g) (el : STy) (xs : TVals) (acc ys : List TVal)
    (h : projN d dp f el xs acc = some (.ok ys)) : projN d dp g el xs acc = some (.ok ys) := by
  induction hfg with
  | refl => exact h
  | step _ ih => exact (proj_mono_all d dp _).2.1 el xs acc ys ih

theorem projPairs_mono (f g : Nat) (hfg : f ≤ g) (k v : STy) (xs : TPairs) (acc ys : List (TVal × TVal))
    (h : projPairs d dp f k v xs acc = some (.ok ys)) : projPairs d dp g k v xs acc = some (.ok ys) := by
  induction hfg with
  | refl => exact h
  | step _ ih => exact (proj_mono_all d dp _).2.2.1 k v xs acc ys ih

/-- `y` is read back as `x` at type `ty` -/
def Back (ty : STy) (x y : TVal) : Prop := ∃ G, projTy d dp G ty y = some (.ok x)

theorem Back.inj {ty : STy} {x x' y : TVal} (h : Back d dp ty x y) (h' : Back d dp ty x' y) : x = x' := by
  obtain ⟨G, hG⟩ := h
  obtain ⟨G', hG'⟩ := h'
  have a := projTy_mono d dp G (max G G') (Nat.le_max_left _ _) ty y x hG
  have b := projTy_mono d dp G' (max G G') (Nat.le_max_right _ _) ty y x' hG'
  rw [a] at b; cases b; rfl

theorem projN_all2 (e : STy) {xs ys : List TVal} (h : All2 (Back d dp e) xs ys) :
    ∃ G, ∀ acc, projN d dp G e (TVals.ofList ys) acc = some (.ok (acc.reverse ++ xs)) := by
  induction h with
  | nil => exact ⟨1, fun acc => by simp [TVals.ofList, projN]⟩
  | @cons a b as bs hr _ ih =>
    obtain ⟨G1, h1⟩ := hr
    obtain ⟨G2, h2⟩ := ih
    refine ⟨max G1 G2 + 1, fun acc => ?_⟩
    simp only [TVals.ofList, projN]
    rw [projTy_mono d dp G1 _ (Nat.le_max_left _ _) e b a h1]
    simp only
    rw [projN_mono d dp G2 _ (Nat.le_max_right _ _) e _ _ _ (h2 (a :: acc))]
    simp

theorem projPairs_all2 (k v : STy) {xs ys : List (TVal × TVal)}
    (h : All2 (fun x y => Back d dp k x.1 y.1 ∧ Back d dp v x.2 y.2) xs ys) :
    ∃ G, ∀ acc, projPairs d dp G k v (TPairs.ofList ys) acc = some (.ok (acc.reverse ++ xs)) := by
  induction h with
  | nil => exact ⟨1, fun acc => by simp [TPairs.ofList, projPairs]⟩
  | @cons a b as bs hr _ ih =>
    obtain ⟨⟨G1, h1⟩, ⟨G1', h1'⟩⟩ := hr
    obtain ⟨G2, h2⟩ := ih
    refine ⟨max (max G1 G1') G2 + 1, fun acc => ?_⟩
    obtain ⟨bk, bv⟩ := b
    simp only [TPairs.ofList, projPairs]
    rw [projTy_mono d dp G1 _ (by omega) k bk a.1 h1]
    simp only
    rw [projTy_mono d dp G1' _ (by omega) v bv a.2 h1']
    simp only
    rw [projPairs_mono d dp G2 _ (by omega) k v _ _ _ (h2 ((a.1, a.2) :: acc))]
    simp

/-- the full reader over a struct whose entries `es` are, up to order, the fields of the typed struct `wfs`, each read
back as the field it stands for: the result is `wfs` -/
theorem struct_back (P : STy → TVal → Bool) (n : String) (fs : List Field) (hn : d.find n = some (.struct fs))
    (hpw : fs.Pairwise (fun a b => a.id ≠ b.id)) (wfs : TFields) (hf : hasFields d P fs wfs = true) (es : List (Int × TVal))
    (hes : ∀ p ∈ es, ∃ v, (p.1, v) ∈ wfs.toList ∧ p.2.ttype = v.ttype ∧ ∃ G, ∀ fl ∈ fs, fl.id = p.1 → projTy d dp G fl.ty p.2 = some (.ok v))
    (hcov : ∀ q ∈ wfs.toList, ∃ p ∈ es, p.1 = q.1) :
    ∃ G, projTy d dp G (.ref n) (.struct (TFields.ofList es)) = some (.ok (.struct wfs)) := by
  have hnd := hasFields_nodup d P fs wfs hpw hf
  let φ : Int → TVal := fun id => (slotGet wfs.toList id).getD (.bool false)
  let Q : (Int × TVal) → Nat → Prop := fun p G => inS 2 p.1 ∧ ∃ fl, fs.find? (fun x => x.id == p.1 && d.ttype x.ty == p.2.ttype) = some fl ∧
      projTy d dp G fl.ty p.2 = some (.ok (φ p.1))
  have hQ : ∀ p ∈ es, ∃ G, Q p G := by
    intro p hp
    obtain ⟨v, hm, htt, G, hG⟩ := hes p hp
    obtain ⟨fl, hfl, hid, hin, hty, _⟩ := hasFields_mem d P fs wfs hf (p.1, v) hm
    refine ⟨G, hin, fl, ?_, ?_⟩
    · apply find_unique fs hpw fl hfl
      · simp only [Bool.and_eq_true, beq_iff_eq]; exact ⟨hid, by rw [hty, htt]⟩
      · intro x hx; simp only [Bool.and_eq_true, beq_iff_eq] at hx; rw [hx.1, hid]
    · have : φ p.1 = v := by
        show (slotGet wfs.toList p.1).getD _ = v
        rw [slotGet_of_mem wfs.toList hnd (p.1, v) hm]; rfl
      rw [this]; exact hG fl hfl hid
  obtain ⟨F, hF⟩ := uniform_fuel Q (by
    intro p f g hfg hq
    obtain ⟨hin, fl, hfind, hproj⟩ := hq
    exact ⟨hin, fl, hfind, projTy_mono d dp f g hfg _ _ _ hproj⟩) es hQ
  obtain ⟨slots', hrun, hget⟩ := projFields_all d dp fs φ F es [] hF
  refine ⟨F + es.length + 1 + 1, ?_⟩
  simp only [projTy, hn, hrun]
  have hfin : finish fs slots' = .ok wfs.toList := by
    apply hasFields_finish d P fs wfs slots' hpw hf
    intro fl _
    rw [hget fl.id]
    by_cases hany : es.any (fun p => p.1 == fl.id) = true
    · simp only [hany, if_true]
      obtain ⟨p, hp, hpid⟩ := List.any_eq_true.mp hany
      obtain ⟨v, hm, _, _⟩ := hes p hp
      have hpid' : p.1 = fl.id := by simpa using hpid
      have := slotGet_of_mem wfs.toList hnd (p.1, v) hm
      simp only at this
      rw [hpid'] at this
      show some ((slotGet wfs.toList fl.id).getD _) = _
      rw [this]; rfl
    · simp only [hany, Bool.false_eq_true, if_false]
      have hnone : slotGet wfs.toList fl.id = none := by
        apply slotGet_none_of_not_mem
        intro q hq heq
        obtain ⟨p, hp, hpid⟩ := hcov q hq
        exact hany (List.any_eq_true.mpr ⟨p, hp, by simp [hpid, heq]⟩)
      rw [hnone]; simp [slotGet]
  rw [hfin]
  simp [TFields.ofList_toList]

/-- **a typed value is a fixpoint of the reader's projection** (so it is `Props/C02.Canon`) -/
theorem canon_of_hasTy (hd : d.fieldsOk) : ∀ (f : Nat) (ty : STy) (w : TVal), hasTy d f ty w = true → Back d dp ty w w := by
  intro f
  induction f with
  | zero => intro ty w h; simp [hasTy] at h
  | succ f ih =>
    intro ty w h
    cases ty with
    | bool => cases w <;> simp [hasTy] at h; exact ⟨1, by simp [projTy]⟩
    | i8 => cases w <;> simp [hasTy] at h; exact ⟨1, by simp [projTy]⟩
    | i16 => cases w <;> simp [hasTy] at h; exact ⟨1, by simp [projTy]⟩
    | i32 => cases w <;> simp [hasTy] at h; exact ⟨1, by simp [projTy]⟩
    | i64 => cases w <;> simp [hasTy] at h; exact ⟨1, by simp [projTy]⟩
    | double => cases w <;> simp [hasTy] at h; exact ⟨1, by simp [projTy]⟩
    | string => cases w <;> simp [hasTy] at h; exact ⟨1, by simp [projTy]⟩
    | binary => cases w <;> simp [hasTy] at h; exact ⟨1, by simp [projTy]⟩
    | uuid => cases w <;> simp [hasTy] at h; exact ⟨1, by simp [projTy]⟩
    | void => cases w <;> simp [hasTy] at h
    | list e =>
      cases w <;> simp only [hasTy] at h <;> try (cases h; done)
      rename_i t xs
      simp only [Bool.and_eq_true, beq_iff_eq] at h
      have hall := (allV_iff _ xs).mp h.2
      obtain ⟨G, hG⟩ := projN_all2 d dp e (All2.refl_of xs.toList (fun x hx => ih e x (hall x hx)))
      refine ⟨G + 1, ?_⟩
      have := hG []
      rw [TVals.ofList_toList] at this
      simp [projTy, this, h.1, TVals.ofList_toList]
    | set e =>
      cases w <;> simp only [hasTy] at h <;> try (cases h; done)
      rename_i t xs
      simp only [Bool.and_eq_true, beq_iff_eq] at h
      have hall := (allV_iff _ xs).mp h.1.2
      have hnd := (distinctL_iff _).mp h.2
      obtain ⟨G, hG⟩ := projN_all2 d dp e (All2.refl_of xs.toList (fun x hx => ih e x (hall x hx)))
      refine ⟨G + 1, ?_⟩
      have := hG []
      rw [TVals.ofList_toList] at this
      simp [projTy, this, h.1.1, foldl_setInsert_nodup xs.toList [] hnd (by simp), TVals.ofList_toList]
    | map k v =>
      cases w <;> simp only [hasTy] at h <;> try (cases h; done)
      rename_i kt vt kvs
      simp only [Bool.and_eq_true, beq_iff_eq] at h
      have hall := (allP_iff _ _ kvs).mp h.1.2
      have hnd := (distinctL_iff _).mp h.2
      obtain ⟨G, hG⟩ := projPairs_all2 d dp k v (All2.refl_of kvs.toList (fun x hx => ⟨ih k x.1 (hall x hx).1, ih v x.2 (hall x hx).2⟩))
      refine ⟨G + 1, ?_⟩
      have := hG []
      rw [TPairs.ofList_toList] at this
      simp [projTy, this, h.1.1.1, h.1.1.2, foldl_mapInsert_nodup kvs.toList [] hnd (by simp), TPairs.ofList_toList]
    | ref n =>
      simp only [hasTy] at h
      cases hn : d.find n with
      | none => simp [hn] at h
      | some df =>
        cases df with
        | struct fs =>
          simp only [hn] at h
          cases w <;> simp only at h <;> try (cases h; done)
          rename_i wfs
          have := struct_back d dp (hasTy d f) n fs hn (hd n fs hn) wfs h wfs.toList (by
            intro p hp
            refine ⟨p.2, hp, rfl, ?_⟩
            obtain ⟨fl, hfl, hid, _, _, hty⟩ := hasFields_mem d _ fs wfs h p hp
            obtain ⟨G, hG⟩ := ih fl.ty p.2 hty
            refine ⟨G, fun fl' hfl' hid' => ?_⟩
            have : fl' = fl := same_field fs (hd n fs hn) fl' fl hfl' hfl (by rw [hid, hid'])
            rw [this]; exact hG) (fun q hq => ⟨q, hq, rfl⟩)
          rw [TFields.ofList_toList] at this
          exact this
        | union vs =>
          simp only [hn] at h
          cases w <;> (try (simp at h; done))
          rename_i wfs
          cases wfs with
          | nil =>
            cases vs with
            | nil => simp at h
            | cons hd tl =>
              obtain ⟨i, t⟩ := hd
              cases t <;> simp at h
              exact ⟨2, by simp [projTy, hn, projUnion]⟩
          | cons id v r =>
            cases r with
            | cons => simp at h
            | nil =>
              simp only at h
              cases hfind : vs.find? (fun x => x.1 == id && !(x.2 == .void)) with
              | none => simp [hfind] at h
              | some p =>
                obtain ⟨pid, ty⟩ := p
                simp only [hfind, Bool.and_eq_true, decide_eq_true_eq, beq_iff_eq] at h
                obtain ⟨G, hG⟩ := ih ty v h.2
                refine ⟨G + 1 + 1 + 1, ?_⟩
                have hG' := projTy_mono d dp G (G + 1) (by omega) ty v v hG
                simp only [projTy, hn, projUnion, h.1.1, not_true_eq_false, if_false, hfind, Option.isSome_none, Bool.false_eq_true,
                  h.1.2, bne_self_eq_false, hG']
        | enum =>
          simp only [hn] at h
          cases w <;> simp only at h <;> try (cases h; done)
          exact ⟨1, by simp [projTy, hn]⟩
        | typedef t =>
          simp only [hn] at h
          obtain ⟨G, hG⟩ := ih t w h
          exact ⟨G + 1, by simp [projTy, hn, hG]⟩

end
end Pilota.TGen
