import PilotaModel.Lemmas.PbLoop
/-
  Defaults: every default is bit-for-bit default and (for a well-formed schema) a value of the
  struct; merging a value into a default of its type gives the value back.
-/
namespace Pilota.Proto
open Pilota

theorem Codec.default_exact (c : Codec) : c.default.exactDefault = true := by cases c <;> rfl

theorem exactDefault_slotsWith (dty : FTy → EVal) (h : ∀ ty, (dty ty).exactDefault = true) :
    ∀ ds : List FieldDecl, (defaultSlotsWith dty ds).exactDefault = true
  | [] => rfl
  | d :: ds => by
    simp only [defaultSlotsWith, Slots.exactDefault, Bool.and_eq_true]
    refine ⟨?_, exactDefault_slotsWith dty h ds⟩
    cases d with
    | single t ty opt => cases opt <;> simp [defaultSlotWith, Slot.exactDefault, h]
    | rep t ty => rfl
    | map t k v => rfl
    | oneof vs => rfl

theorem exactDefault_defaultTy (s : Schema) : ∀ (f : Nat) (ty : FTy), (defaultTy s f ty).exactDefault = true
  | _, .scalar c => by simp [defaultTy, EVal.exactDefault, Codec.default_exact]
  | 0, .msg _ => rfl
  | f + 1, .msg i => by
    simp only [defaultTy, EVal.exactDefault]
    exact exactDefault_slotsWith _ (exactDefault_defaultTy s f) _

theorem exactDefault_defaultE (s : Schema) (ty : FTy) : (defaultE s ty).exactDefault = true :=
  exactDefault_defaultTy s _ ty

/-- for a well-formed schema the default of every resolvable type is a value of that type. -/
theorem shape_defaultE (s : Schema) (hs : WFSchema s = true) (ty : FTy) (hty : ty.wfIn s.length = true) :
    shapeE s ty (defaultE s ty) = true := by
  cases ty with
  | scalar c => simp [defaultE, defaultTy, shapeE]
  | msg i =>
    simp only [FTy.wfIn, decide_eq_true_eq] at hty
    unfold WFSchema at hs
    simp only [Bool.and_eq_true, List.all_eq_true, List.mem_range] at hs
    have := hs.2.1 i hty
    unfold defaultMsg at this
    unfold defaultE at this ⊢
    cases hl : s.length with
    | zero => omega
    | succ n =>
      rw [hl] at this
      simp only [defaultTy, EVal.fields, shapeE] at this ⊢
      exact this

/-- a map key equal to its default is the default value of its codec. -/
theorem key_default (kc : Codec) (k : SVal) (hk : kc.isKey = true) (hok : kc.ok k = true) (hd : k.isDefault = true) :
    k = kc.default := by
  cases kc <;> simp [Codec.isKey] at hk <;> cases k <;> simp [Codec.ok] at hok <;>
    simp [SVal.isDefault] at hd <;> simp [Codec.default, hd]

/-! ### typing implies shape -/

mutual
theorem okE_shape (s : Schema) (flag : Bool) : ∀ (ty : FTy) (v : EVal), okE s flag ty v = true → shapeE s ty v = true
  | .scalar _, .s _, _ => rfl
  | .scalar _, .msg _, h => by simp [okE] at h
  | .msg _, .s _, h => by simp [okE] at h
  | .msg i, .msg fs, h => by
    simp only [okE, Bool.and_eq_true] at h
    simp only [shapeE]
    exact okSlots_shape s flag (decls s i) fs h.1
theorem okSlot_shape (s : Schema) (flag : Bool) : ∀ (d : FieldDecl) (v : Slot), okSlot s flag d v = true → shapeSlot s d v = true
  | .single _ ty false, .req v, h => by simp only [okSlot] at h; simp only [shapeSlot]; exact okE_shape s flag ty v h
  | .single _ _ true, .none, _ => rfl
  | .single _ ty true, .some v, h => by simp only [okSlot] at h; simp only [shapeSlot]; exact okE_shape s flag ty v h
  | .rep _ ty, .rep xs, h => by simp only [okSlot] at h; simp only [shapeSlot]; exact okEs_shape s flag ty xs h
  | .map _ kc vty, .map kvs, h => by
    simp only [okSlot, Bool.and_eq_true] at h; simp only [shapeSlot]; exact okPairs_shape s flag kc vty kvs h.1
  | .oneof _, .none, _ => rfl
  | .oneof vs, .one t v, h => by
    simp only [okSlot] at h
    simp only [shapeSlot]
    cases hl : lookupVariant vs t with
    | none => simp [hl] at h
    | some ty => simp only [hl] at h ⊢; exact okE_shape s flag ty v h
  | .single _ _ false, .none, h => by simp [okSlot] at h
  | .single _ _ false, .some _, h => by simp [okSlot] at h
  | .single _ _ false, .rep _, h => by simp [okSlot] at h
  | .single _ _ false, .map _, h => by simp [okSlot] at h
  | .single _ _ false, .one _ _, h => by simp [okSlot] at h
  | .single _ _ true, .req _, h => by simp [okSlot] at h
  | .single _ _ true, .rep _, h => by simp [okSlot] at h
  | .single _ _ true, .map _, h => by simp [okSlot] at h
  | .single _ _ true, .one _ _, h => by simp [okSlot] at h
  | .rep _ _, .req _, h => by simp [okSlot] at h
  | .rep _ _, .none, h => by simp [okSlot] at h
  | .rep _ _, .some _, h => by simp [okSlot] at h
  | .rep _ _, .map _, h => by simp [okSlot] at h
  | .rep _ _, .one _ _, h => by simp [okSlot] at h
  | .map _ _ _, .req _, h => by simp [okSlot] at h
  | .map _ _ _, .none, h => by simp [okSlot] at h
  | .map _ _ _, .some _, h => by simp [okSlot] at h
  | .map _ _ _, .rep _, h => by simp [okSlot] at h
  | .map _ _ _, .one _ _, h => by simp [okSlot] at h
  | .oneof _, .req _, h => by simp [okSlot] at h
  | .oneof _, .some _, h => by simp [okSlot] at h
  | .oneof _, .rep _, h => by simp [okSlot] at h
  | .oneof _, .map _, h => by simp [okSlot] at h
theorem okSlots_shape (s : Schema) (flag : Bool) : ∀ (ds : List FieldDecl) (vs : Slots), okSlots s flag ds vs = true → shapeSlots s ds vs = true
  | [], .nil, _ => rfl
  | d :: ds, .cons v r, h => by
    simp only [okSlots, Bool.and_eq_true] at h
    simp only [shapeSlots, Bool.and_eq_true]
    exact ⟨okSlot_shape s flag d v h.1, okSlots_shape s flag ds r h.2⟩
  | [], .cons _ _, h => by simp [okSlots] at h
  | _ :: _, .nil, h => by simp [okSlots] at h
theorem okEs_shape (s : Schema) (flag : Bool) (ty : FTy) : ∀ (xs : EVals), okEs s flag ty xs = true → shapeEs s ty xs = true
  | .nil, _ => rfl
  | .cons v r, h => by
    simp only [okEs, Bool.and_eq_true] at h
    simp only [shapeEs, Bool.and_eq_true]
    exact ⟨okE_shape s flag ty v h.1, okEs_shape s flag ty r h.2⟩
theorem okPairs_shape (s : Schema) (flag : Bool) (kc : Codec) (vty : FTy) : ∀ (kvs : Pairs), okPairs s flag kc vty kvs = true → shapePairs s vty kvs = true
  | .nil, _ => rfl
  | .cons k v r, h => by
    simp only [okPairs, Bool.and_eq_true] at h
    simp only [shapePairs, Bool.and_eq_true]
    exact ⟨okE_shape s flag vty v h.1.1.1.2, okPairs_shape s flag kc vty r h.2⟩
end

/-! ### merging into a default -/

def Pairs.append : Pairs → Pairs → Pairs
  | .nil, ys => ys
  | .cons k v r, ys => .cons k v (r.append ys)

theorem Pairs.insert_fresh : ∀ (xs : Pairs) (k : SVal) (v : EVal), xs.keys.contains k = false →
    xs.insert k v = xs.append (.cons k v .nil)
  | .nil, _, _, _ => rfl
  | .cons k' v' r, k, v, h => by
    simp only [Pairs.keys, List.contains_cons, Bool.or_eq_false_iff, beq_eq_false_iff_ne] at h
    have hne : ¬ k' = k := fun e => h.1 e.symm
    simp only [Pairs.insert, hne, if_false, Pairs.append]
    rw [Pairs.insert_fresh r k v h.2]

theorem Pairs.keys_append : ∀ (xs ys : Pairs), (xs.append ys).keys = xs.keys ++ ys.keys
  | .nil, _ => rfl
  | .cons k v r, ys => by simp [Pairs.append, Pairs.keys, Pairs.keys_append r ys]

theorem Pairs.append_assoc : ∀ (a b c : Pairs), (a.append b).append c = a.append (b.append c)
  | .nil, _, _ => rfl
  | .cons k v r, b, c => by simp [Pairs.append, Pairs.append_assoc r b c]

/-- inserting entries with fresh, pairwise distinct keys appends them. -/
theorem insertAll_fresh : ∀ (kvs xs : Pairs), nodupKeys kvs.keys = true → (∀ k ∈ kvs.keys, xs.keys.contains k = false) →
    insertAll xs kvs = xs.append kvs
  | .nil, xs, _, _ => by
    simp only [insertAll]
    exact (append_nil xs).symm
  | .cons k v r, xs, hn, hf => by
    simp only [Pairs.keys, nodupKeys, Bool.and_eq_true, Bool.not_eq_true'] at hn
    simp only [insertAll]
    rw [Pairs.insert_fresh xs k v (hf k (by simp [Pairs.keys]))]
    rw [insertAll_fresh r _ hn.2]
    · rw [Pairs.append_assoc]; rfl
    · intro k' hk'
      rw [Pairs.keys_append]
      simp only [Pairs.keys, List.contains_append, List.contains_cons, List.contains_nil, Bool.or_false,
        Bool.or_eq_false_iff, beq_eq_false_iff_ne]
      refine ⟨hf k' (by simp [Pairs.keys, hk']), ?_⟩
      intro e
      subst e
      have := hn.1
      simp only [List.contains_eq_mem, decide_eq_false_iff_not] at this
      exact this hk'
where
  append_nil : ∀ (xs : Pairs), xs.append .nil = xs
    | .nil => rfl
    | .cons k v r => by simp [Pairs.append, append_nil r]

theorem EVals.nil_append (ys : EVals) : EVals.nil.append ys = ys := rfl

mutual
theorem mergeValE_default (s : Schema) (flag : Bool) (hs : WFSchema s = true) (ty : FTy) (x y : EVal)
    (hx : x.exactDefault = true) (hsx : shapeE s ty x = true) (hy : okE s flag ty y = true) : mergeValE s ty x y = y := by
  cases y with
  | s yv =>
    cases ty with
    | scalar c => rfl
    | msg i => simp [okE] at hy
  | msg ys =>
    cases ty with
    | scalar c => simp [okE] at hy
    | msg i =>
      cases x with
      | s xv => simp [shapeE] at hsx
      | msg xs =>
        simp only [okE, Bool.and_eq_true] at hy
        simp only [shapeE] at hsx
        simp only [EVal.exactDefault] at hx
        simp only [mergeValE, EVal.fields]
        rw [mergeValSlots_default s flag hs (decls s i) (decls_wf s hs i).1 xs ys hx hsx hy.1]
theorem mergeValSlot_default (s : Schema) (flag : Bool) (hs : WFSchema s = true) (d : FieldDecl) (hd : d.wfIn s.length = true)
    (x y : Slot) (hx : x.exactDefault = true) (hsx : shapeSlot s d x = true) (hy : okSlot s flag d y = true) :
    mergeValSlot s d x y = y := by
  cases y with
  | req yv =>
    cases d with
    | single t ty opt =>
      cases opt with
      | false =>
        cases x with
        | req xv =>
          simp only [Slot.exactDefault] at hx
          simp only [shapeSlot] at hsx
          simp only [okSlot] at hy
          simp only [mergeValSlot]
          rw [mergeValE_default s flag hs ty xv yv hx hsx hy]
        | _ => simp [shapeSlot] at hsx
      | true => simp [okSlot] at hy
    | _ => simp [okSlot] at hy
  | none =>
    cases d with
    | single t ty opt =>
      cases opt with
      | true => cases x <;> simp [shapeSlot] at hsx <;> first | rfl | (simp [Slot.exactDefault] at hx)
      | false => simp [okSlot] at hy
    | oneof vs => cases x <;> simp [shapeSlot] at hsx <;> first | rfl | (simp [Slot.exactDefault] at hx)
    | _ => simp [okSlot] at hy
  | some yv =>
    cases d with
    | single t ty opt =>
      cases opt with
      | true =>
        simp only [FieldDecl.wfIn, Bool.and_eq_true] at hd
        simp only [okSlot] at hy
        cases x with
        | none =>
          simp only [mergeValSlot, optCur]
          rw [mergeValE_default s flag hs ty _ yv (exactDefault_defaultE s ty) (shape_defaultE s hs ty hd.2) hy]
        | some xv => simp [Slot.exactDefault] at hx
        | _ => simp [shapeSlot] at hsx
      | false => simp [okSlot] at hy
    | _ => simp [okSlot] at hy
  | rep ys =>
    cases d with
    | rep t ty =>
      cases x with
      | rep xs =>
        cases xs with
        | nil => rfl
        | cons a b => simp [Slot.exactDefault] at hx
      | _ => simp [shapeSlot] at hsx
    | single t ty opt => cases opt <;> simp [okSlot] at hy
    | _ => simp [okSlot] at hy
  | map kvs =>
    cases d with
    | map t kc vty =>
      cases x with
      | map xs =>
        cases xs with
        | nil =>
          simp only [okSlot, Bool.and_eq_true] at hy
          simp only [mergeValSlot]
          rw [insertAll_fresh kvs .nil hy.2 (by intro k _; rfl)]
          rfl
        | cons a b c => simp [Slot.exactDefault] at hx
      | _ => simp [shapeSlot] at hsx
    | single t ty opt => cases opt <;> simp [okSlot] at hy
    | _ => simp [okSlot] at hy
  | one t yv =>
    cases d with
    | oneof vs =>
      simp only [okSlot] at hy
      cases hl : lookupVariant vs t with
      | none => simp [hl] at hy
      | some ty =>
        simp only [hl] at hy
        cases x with
        | none =>
          simp only [mergeValSlot, hl, oneCur]
          rw [mergeValE_default s flag hs ty _ yv (exactDefault_defaultE s ty) (shape_defaultE s hs ty (variant_tagOk vs _ hd t ty hl).2) hy]
        | one t' xv => simp [Slot.exactDefault] at hx
        | _ => simp [shapeSlot] at hsx
    | single t ty opt => cases opt <;> simp [okSlot] at hy
    | _ => simp [okSlot] at hy
theorem mergeValSlots_default (s : Schema) (flag : Bool) (hs : WFSchema s = true) (ds : List FieldDecl)
    (hds : ds.all (FieldDecl.wfIn s.length) = true) (xs ys : Slots) (hx : xs.exactDefault = true)
    (hsx : shapeSlots s ds xs = true) (hy : okSlots s flag ds ys = true) : mergeValSlots s ds xs ys = ys := by
  cases ys with
  | nil =>
    cases ds with
    | nil => cases xs with
      | nil => rfl
      | cons a b => simp [shapeSlots] at hsx
    | cons d ds => simp [okSlots] at hy
  | cons y ys =>
    cases ds with
    | nil => simp [okSlots] at hy
    | cons d ds =>
      cases xs with
      | nil => simp [shapeSlots] at hsx
      | cons x xs =>
        simp only [Slots.exactDefault, Bool.and_eq_true] at hx
        simp only [shapeSlots, Bool.and_eq_true] at hsx
        simp only [okSlots, Bool.and_eq_true] at hy
        simp only [List.all_cons, Bool.and_eq_true] at hds
        simp only [mergeValSlots]
        rw [mergeValSlot_default s flag hs d hds.1 x y hx.1 hsx.1 hy.1,
          mergeValSlots_default s flag hs ds hds.2 xs ys hx.2 hsx.2 hy.2]
end

end Pilota.Proto
