import PilotaModel.Lemmas.IdlLex
/-
  C15, rendering infrastructure: what the `R` combinators produce, the two tail shapes
  (`[blank] sep blank` / `sep blank`), and the generic lemma for a loop over rendered elements
  whose parsers absorb (all or part of) the blank that follows them.
-/
namespace Pilota.Idl

@[simp] theorem rLit_fst (t : List Char) (l : Layout) : (rLit t l).1 = t := rfl
@[simp] theorem rLit_snd (t : List Char) (l : Layout) : (rLit t l).2 = l := rfl
@[simp] theorem rSeq_fst (a b : R) (l : Layout) : (rSeq a b l).1 = (a l).1 ++ (b (a l).2).1 := rfl
@[simp] theorem rSeq_snd (a b : R) (l : Layout) : (rSeq a b l).2 = (b (a l).2).2 := rfl
@[simp] theorem rWith_fst (f : LChoice → R) (l : Layout) : (rWith f l).1 = (f l.pop.1 l.pop.2).1 := rfl
@[simp] theorem rWith_snd (f : LChoice → R) (l : Layout) : (rWith f l).2 = (f l.pop.1 l.pop.2).2 := rfl

theorem rB0_BT (l : Layout) : BT (rB0 l).1 := BT.of_blankText _
theorem rB1_BT (l : Layout) : BT (rB1 l).1 := (BT.of_blankText1 _).1
theorem rB1_ne (l : Layout) : (rB1 l).1 ≠ [] := (BT.of_blankText1 _).2
theorem rGap_BT (needed : Bool) (l : Layout) : BT (rGap needed l).1 := by
  unfold rGap; split; exact rB1_BT l; exact rB0_BT l
theorem rGap_ne {needed : Bool} (h : needed = true) (l : Layout) : (rGap needed l).1 ≠ [] := by
  unfold rGap; simp [h]; exact rB1_ne l

/-- ident start is neither a blank starter nor punctuation -/
theorem identStart_NB {c : Char} (h : isIdentStart c = true) : notBlankStart c = true := by
  cases hb : notBlankStart c with
  | true => rfl
  | false =>
    have hb' : ¬c = ' ' → ¬c = '\t' → ¬c = '\r' → ¬c = '\n' → ¬c = '/' → c = '#' := by
      simpa [notBlankStart, isMultispace, or_assoc] using hb
    by_cases h1 : c = ' '; · subst h1; revert h; decide
    by_cases h2 : c = '\t'; · subst h2; revert h; decide
    by_cases h3 : c = '\r'; · subst h3; revert h; decide
    by_cases h4 : c = '\n'; · subst h4; revert h; decide
    by_cases h5 : c = '/'; · subst h5; revert h; decide
    have := hb' h1 h2 h3 h4 h5; subst this; revert h; decide

theorem ident_NB {i r : List Char} (h : identOk i = true) : NB (i ++ r) := by
  obtain ⟨c, cs, rfl, h1, _⟩ := identOk_cons h
  exact identStart_NB h1

/-! ### list separator, tails -/

theorem sepChar_cases (n : Nat) : sepChar n = [] ∨ sepChar n = [','] ∨ sepChar n = [';'] := by
  unfold sepChar; split; · right; left; rfl
  split; · right; right; rfl
  left; rfl

/-- does not start with `,` or `;` -/
abbrev NoSepStart (r : List Char) : Prop := hdP (fun c => !(c == ',' || c == ';')) r = true

theorem listSeparator_err {r : List Char} (h : NoSepStart r) : listSeparator r = .err := by
  cases r with
  | nil => rfl
  | cons c r =>
    simp only [NoSepStart, hdP_cons, Bool.not_eq_true', Bool.or_eq_false_iff, beq_eq_false_iff_ne, ne_eq] at h
    have : oneOf [',', ';'] (c :: r) = .err := by simp [oneOf, satisfy, h.1, h.2]
    exact andThen_of_err this

theorem listSeparator_none {r : List Char} (h : NoSepStart r) : opt listSeparator r = .ok none r :=
  opt_of_err (listSeparator_err h)

theorem listSeparator_ok {s : Char} (hs : s = ',' ∨ s = ';') {b r : List Char} (hb : BT b) (hr : NB r) :
    listSeparator (s :: (b ++ r)) = .ok s r := by
  have h1 : oneOf [',', ';'] (s :: (b ++ r)) = .ok s (b ++ r) := by
    rcases hs with h | h <;> subst h <;> simp [oneOf, satisfy]
  unfold listSeparator
  rw [andThen_of_ok h1, andThen_optBlank hb hr]; rfl

theorem listSeparator_some {s : Char} (hs : s = ',' ∨ s = ';') {b r : List Char} (hb : BT b) (hr : NB r) :
    opt listSeparator (s :: (b ++ r)) = .ok (some s) r := opt_of_ok (listSeparator_ok hs hb hr)

theorem sepChar_BT_false {s : Char} (hs : s = ',' ∨ s = ';') (r : List Char) : NB (s :: r) := by
  rcases hs with h | h <;> subst h <;> (show notBlankStart _ = true) <;> decide

/-- tail of an element whose parser ends `opt(blank), opt(list_separator)`: both are absorbed. -/
theorem tail_rt {α} {k : P α} (endsOpen last : Bool) (l : Layout) {R : List Char} (hR : NB R) (hS : NoSepStart R) :
    (andThen (opt blank) fun _ => andThen (opt listSeparator) fun _ => k) ((rTail endsOpen last l).1 ++ R) = k R := by
  simp only [rTail, rWith_fst]
  rcases sepChar_cases (l.pop.1.sep) with h | h | h
  · simp only [h, if_true]
    rw [andThen_optBlank (rGap_BT _ _) hR, andThen_of_ok (listSeparator_none hS)]
  · simp only [h, List.cons_ne_nil, if_false, rSeq_fst, rLit_fst, List.append_assoc, List.cons_append, List.nil_append]
    rw [andThen_optBlank (rB0_BT _) (sepChar_BT_false (Or.inl rfl) _),
      andThen_of_ok (listSeparator_some (Or.inl rfl) (rB0_BT _) hR)]
  · simp only [h, List.cons_ne_nil, if_false, rSeq_fst, rLit_fst, List.append_assoc, List.cons_append, List.nil_append]
    rw [andThen_optBlank (rB0_BT _) (sepChar_BT_false (Or.inr rfl) _),
      andThen_of_ok (listSeparator_some (Or.inr rfl) (rB0_BT _) hR)]

/-- what precedes the tail sees: a blank (non-empty when required), or the separator -/
theorem tail_sep (endsOpen last : Bool) (l : Layout) {R : List Char} (h : (endsOpen && !last) = true ∨ Sep R) :
    Sep ((rTail endsOpen last l).1 ++ R) := by
  simp only [rTail, rWith_fst]
  rcases sepChar_cases (l.pop.1.sep) with hs | hs | hs
  · simp only [hs, if_true]
    rcases h with h | h
    · exact (rGap_BT _ _).sep_append (Or.inl (rGap_ne h _))
    · exact (rGap_BT _ _).sep_append (Or.inr h)
  all_goals
    simp only [hs, List.cons_ne_nil, if_false, rSeq_fst, rLit_fst, List.append_assoc, List.cons_append, List.nil_append]
    exact (rB0_BT _).sep_append (Or.inr (by show isSepChar _ = true; decide))

/-! ### loops over rendered elements -/

theorem foldl_max_le (xs : List Nat) (a : Nat) : a ≤ xs.foldl max a ∧ ∀ x ∈ xs, x ≤ xs.foldl max a := by
  induction xs generalizing a with
  | nil => simp
  | cons y ys ih =>
    simp only [List.foldl_cons, List.mem_cons]
    have := ih (max a y)
    refine ⟨Nat.le_trans (Nat.le_max_left a y) this.1, ?_⟩
    intro x hx
    rcases hx with rfl | hx
    · exact Nat.le_trans (Nat.le_max_right a x) this.1
    · exact this.2 x hx



@[simp] theorem rSlots_nil {α} (f : α → Bool → R) (l : Layout) : (rSlots f [] l).1 = [] := rfl
theorem rSlots_cons {α} (f : α → Bool → R) (x : α) (xs : List α) (l : Layout) :
    (rSlots f (x :: xs) l).1 = (f x xs.isEmpty l).1 ++ (rSlots f xs (f x xs.isEmpty l).2).1 := rfl

inductive All2 {α β} (Rel : α → β → Prop) : List α → List β → Prop
  | nil : All2 Rel [] []
  | cons {x y xs ys} : Rel x y → All2 Rel xs ys → All2 Rel (x :: xs) (y :: ys)

/-- A `many0` loop over the rendering of a list.  Each element parser may leave part of the blank
that follows its element (`bl'`) to the next round, which accepts it as a leading blank (`bl`);
`L` says which left-overs can occur.  The last element is followed by the closing character, the
others by the next element (`Start`). -/
theorem many0F_slots {α β : Type} (p : P β) (f : α → Bool → R) (Rel : α → β → Prop) (okx : α → Prop)
    (L : List Char → Prop) (Start : List Char → Prop) (close : Char)
    (Hstep : ∀ x last l bl R, okx x → L bl → (last = true → ∃ R', R = close :: R') → (last = false → Start R) →
      ∃ y bl', Rel x y ∧ L bl' ∧ bl'.length < (bl ++ (f x last l).1).length ∧
        p (bl ++ ((f x last l).1 ++ R)) = .ok y (bl' ++ R))
    (Hstart : ∀ y last l R, okx y → Start ((f y last l).1 ++ R))
    (Hend : ∀ bl R, L bl → p (bl ++ close :: R) = .err) :
    ∀ (xs : List α) (l : Layout) (bl : List Char) (n : Nat) (R' : List Char), (∀ x ∈ xs, okx x) → L bl →
      (bl ++ ((rSlots f xs l).1 ++ close :: R')).length < n →
      ∃ ys bl', All2 Rel xs ys ∧ L bl' ∧
        many0F p n (bl ++ ((rSlots f xs l).1 ++ close :: R')) = .ok ys (bl' ++ close :: R') := by
  intro xs
  induction xs with
  | nil =>
    intro l bl n R' _ hL hn
    cases n with
    | zero => omega
    | succ n =>
      refine ⟨[], bl, All2.nil, hL, ?_⟩
      simp only [rSlots_nil, List.nil_append, many0F, Hend bl R' hL]
  | cons x xs ih =>
    intro l bl n R' hok hL hn
    cases n with
    | zero => omega
    | succ n =>
      have hx := hok x (by simp)
      have hxs : ∀ y ∈ xs, okx y := fun y hy => hok y (by simp [hy])
      have hR : (xs.isEmpty = true → ∃ R'', (rSlots f xs (f x xs.isEmpty l).2).1 ++ close :: R' = close :: R'') := by
        intro h; cases xs with
        | nil => exact ⟨R', rfl⟩
        | cons _ _ => simp at h
      have hS : (xs.isEmpty = false → Start ((rSlots f xs (f x xs.isEmpty l).2).1 ++ close :: R')) := by
        intro h; cases xs with
        | nil => simp at h
        | cons y ys =>
          rw [rSlots_cons, List.append_assoc]
          exact Hstart y _ _ _ (hxs y (by simp))
      obtain ⟨y, bl', hrel, hL', hlen, hp⟩ := Hstep x xs.isEmpty l bl _ hx hL hR hS
      have hn' : (bl' ++ ((rSlots f xs (f x xs.isEmpty l).2).1 ++ close :: R')).length < n := by
        simp only [rSlots_cons, List.length_append, List.length_cons] at hn hlen ⊢; omega
      obtain ⟨ys, bl'', hall, hL'', hm⟩ := ih (f x xs.isEmpty l).2 bl' n R' hxs hL' hn'
      refine ⟨y :: ys, bl'', All2.cons hrel hall, hL'', ?_⟩
      rw [rSlots_cons, List.append_assoc]
      simp only [many0F, hp]
      have hne : ¬ (bl' ++ ((rSlots f xs (f x xs.isEmpty l).2).1 ++ close :: R')).length =
          (bl ++ ((f x xs.isEmpty l).1 ++ ((rSlots f xs (f x xs.isEmpty l).2).1 ++ close :: R'))).length := by
        simp only [List.length_append, List.length_cons] at hlen ⊢; omega
      rw [if_neg hne, hm]; rfl

/-- `many_till(slot, eof)` over the rendering of a non-empty list whose slot parser absorbs every
blank around its element. -/
theorem manyTillF_slots {α : Type} (p : P α) (f : α → Bool → R) (okx : α → Prop) (Start : List Char → Prop)
    (Hstep : ∀ x last l bl R, okx x → BT bl → (last = true → R = []) → (last = false → Start R) →
      (f x last l).1 ≠ [] ∧ p (bl ++ ((f x last l).1 ++ R)) = .ok x R)
    (Hstart : ∀ y last l R, okx y → Start ((f y last l).1 ++ R)) :
    ∀ (xs : List α) (l : Layout) (bl : List Char) (n : Nat), xs ≠ [] → (∀ x ∈ xs, okx x) → BT bl →
      (bl ++ (rSlots f xs l).1).length < n →
      manyTillF p eof n (bl ++ (rSlots f xs l).1) = .ok (xs, ()) [] := by
  intro xs
  induction xs with
  | nil => intro _ _ _ h; exact absurd rfl h
  | cons x xs ih =>
    intro l bl n _ hok hbl hn
    cases n with
    | zero => omega
    | succ n =>
      have hx := hok x (by simp)
      have hxs : ∀ y ∈ xs, okx y := fun y hy => hok y (by simp [hy])
      have hR : xs.isEmpty = true → (rSlots f xs (f x xs.isEmpty l).2).1 = [] := by
        intro h; cases xs with
        | nil => rfl
        | cons _ _ => simp at h
      have hS : xs.isEmpty = false → Start (rSlots f xs (f x xs.isEmpty l).2).1 := by
        intro h; cases xs with
        | nil => simp at h
        | cons y ys =>
          rw [rSlots_cons]
          exact Hstart y _ _ _ (hxs y (by simp))
      obtain ⟨hne, hp⟩ := Hstep x xs.isEmpty l bl _ hx hbl hR hS
      rw [rSlots_cons]
      have heof : eof (bl ++ ((f x xs.isEmpty l).1 ++ (rSlots f xs (f x xs.isEmpty l).2).1)) = .err := by
        cases h : bl ++ ((f x xs.isEmpty l).1 ++ (rSlots f xs (f x xs.isEmpty l).2).1) with
        | nil => simp at h; exact absurd h.2.1 hne
        | cons _ _ => rfl
      simp only [manyTillF, heof, hp, PR.bind]
      have hlt : ¬ (rSlots f xs (f x xs.isEmpty l).2).1.length =
          (bl ++ ((f x xs.isEmpty l).1 ++ (rSlots f xs (f x xs.isEmpty l).2).1)).length := by
        have : 0 < (f x xs.isEmpty l).1.length := List.length_pos_iff.mpr hne
        simp only [List.length_append]; omega
      rw [if_neg hlt]
      cases xs with
      | nil =>
        cases n with
        | zero =>
          exfalso
          rw [rSlots_cons] at hn
          simp only [List.length_append, List.isEmpty_nil] at hn
          have : 0 < (f x true l).1.length := List.length_pos_iff.mpr hne
          omega
        | succ n => simp [manyTillF, eof, PR.map, PR.bind]
      | cons y ys =>
        have := ih (f x false l).2 [] n (by simp) hxs BT.nil (by
          simp only [rSlots_cons, List.length_append, List.nil_append] at hn ⊢
          have : 0 < (f x false l).1.length := List.length_pos_iff.mpr hne
          simp at hn ⊢; omega)
        simp only [List.nil_append] at this
        simp only [List.isEmpty_cons] at this ⊢
        rw [this]; rfl

end Pilota.Idl
