import PilotaModel.Lemmas.PbStable
import PilotaModel.Proto.Merge
/-
  `encoded_len` = bytes written, for every message value of every well-formed schema.
-/
namespace Pilota.Proto
open Pilota

theorem tagOk_iff (t : Nat) : tagOk t = true ↔ minTag ≤ t ∧ t ≤ maxTag := by simp [tagOk]

theorem lookupVariant_mem (vs : List (Nat × FTy)) (t : Nat) (ty : FTy) (h : lookupVariant vs t = some ty) : (t, ty) ∈ vs := by
  unfold lookupVariant at h
  cases hf : vs.find? (fun p => p.1 == t) with
  | none => simp [hf] at h
  | some p =>
    simp only [hf, Option.some.injEq] at h
    have h1 := List.find?_some hf
    have h2 := List.mem_of_find?_eq_some hf
    simp only [beq_iff_eq] at h1
    obtain ⟨a, b⟩ := p
    simp only at h1 h
    subst h1; subst h
    exact h2

theorem decls_wf (s : Schema) (hs : WFSchema s = true) (i : Nat) :
    (decls s i).all (FieldDecl.wfIn s.length) = true ∧ nodup (allTags (decls s i)) = true := by
  unfold decls
  by_cases hi : i < s.length
  · have hm : s.getD i [] ∈ s := by
      rw [List.getD_eq_getElem?_getD, List.getElem?_eq_getElem hi]; simp
    unfold WFSchema at hs
    simp only [Bool.and_eq_true, List.all_eq_true] at hs
    have := hs.1 _ hm
    exact ⟨List.all_eq_true.mpr this.1, this.2⟩
  · rw [List.getD_eq_getElem?_getD, List.getElem?_eq_none (by omega)]
    simp [allTags, nodup]

theorem lenOk_iff (v : SVal) : v.lenOk = true ↔ Codec.lenOk v := by simp [SVal.lenOk, Codec.lenOk]

theorem variant_tagOk (vs : List (Nat × FTy)) (n : Nat) (h : (FieldDecl.oneof vs).wfIn n = true) (t : Nat) (ty : FTy)
    (hl : lookupVariant vs t = some ty) : tagOk t = true ∧ ty.wfIn n = true := by
  have hm := lookupVariant_mem vs t ty hl
  simp only [FieldDecl.wfIn, List.all_eq_true, Bool.and_eq_true] at h
  exact h _ hm

mutual
theorem lenE_eq (s : Schema) (flag : Bool) (hs : WFSchema s = true) (tag : Nat) (ht : tagOk tag = true) (ty : FTy) (v : EVal)
    (hv : okE s flag ty v = true) : lenE s flag tag ty v = (encE s flag tag ty v).length := by
  have htag := (tagOk_iff tag).mp ht
  cases v with
  | s x =>
    cases ty with
    | scalar c =>
      simp only [okE, Bool.and_eq_true] at hv
      simp only [lenE, encE]
      exact Codec.encodedLen_eq c tag htag.1 htag.2 x ((lenOk_iff x).mp hv.2)
    | msg i => simp [okE] at hv
  | msg fs =>
    cases ty with
    | scalar c => simp [okE] at hv
    | msg i =>
      simp only [okE, Bool.and_eq_true, decide_eq_true_eq] at hv
      have ih := lenSlots_eq s flag hs (decls s i) (decls_wf s hs i).1 fs hv.1
      have h2 := encodedLenVarint_eq _ hv.2
      simp only [lenE, encE, List.length_append, keyLen_eq tag .len htag.1 htag.2, encodeVarint, encVar_length, h2]
      rw [ih]
theorem lenSlot_eq (s : Schema) (flag : Bool) (hs : WFSchema s = true) (d : FieldDecl) (hd : d.wfIn s.length = true) (v : Slot)
    (hv : okSlot s flag d v = true) : lenSlot s flag d v = (encSlot s flag d v).length := by
  cases v with
  | req x =>
    cases d with
    | single t ty opt =>
      cases opt with
      | false =>
        simp only [FieldDecl.wfIn, Bool.and_eq_true] at hd
        simp only [okSlot] at hv
        simp only [lenSlot, encSlot]
        exact lenE_eq s flag hs t hd.1 ty x hv
      | true => simp [okSlot] at hv
    | _ => simp [okSlot] at hv
  | none =>
    cases d with
    | single t ty opt => cases opt <;> rfl
    | rep t ty => rfl
    | map t kc vty => rfl
    | oneof vs => rfl
  | some x =>
    cases d with
    | single t ty opt =>
      cases opt with
      | true =>
        simp only [FieldDecl.wfIn, Bool.and_eq_true] at hd
        simp only [okSlot] at hv
        simp only [lenSlot, encSlot]
        exact lenE_eq s flag hs t hd.1 ty x hv
      | false => simp [okSlot] at hv
    | _ => simp [okSlot] at hv
  | rep xs =>
    cases d with
    | rep t ty =>
      simp only [FieldDecl.wfIn, Bool.and_eq_true] at hd
      simp only [okSlot] at hv
      simp only [lenSlot, encSlot]
      exact lenEs_eq s flag hs t hd.1 ty xs hv
    | single t ty opt => cases opt <;> simp [okSlot] at hv
    | _ => simp [okSlot] at hv
  | map kvs =>
    cases d with
    | map t kc vty =>
      simp only [FieldDecl.wfIn, Bool.and_eq_true] at hd
      simp only [okSlot, Bool.and_eq_true] at hv
      simp only [lenSlot, encSlot]
      exact lenPairs_eq s flag hs t hd.1.1 kc vty kvs hv.1
    | single t ty opt => cases opt <;> simp [okSlot] at hv
    | _ => simp [okSlot] at hv
  | one t x =>
    cases d with
    | oneof vs =>
      simp only [okSlot] at hv
      simp only [lenSlot, encSlot]
      cases hl : lookupVariant vs t with
      | none => simp [hl] at hv
      | some ty =>
        simp only [hl] at hv ⊢
        exact lenE_eq s flag hs t (variant_tagOk vs _ hd t ty hl).1 ty x hv
    | single t ty opt => cases opt <;> simp [okSlot] at hv
    | _ => simp [okSlot] at hv
theorem lenSlots_eq (s : Schema) (flag : Bool) (hs : WFSchema s = true) (ds : List FieldDecl)
    (hds : ds.all (FieldDecl.wfIn s.length) = true) (vs : Slots) (hv : okSlots s flag ds vs = true) :
    lenSlots s flag ds vs = (encSlots s flag ds vs).length := by
  cases vs with
  | nil => cases ds <;> simp [lenSlots, encSlots]
  | cons v r =>
    cases ds with
    | nil => simp [okSlots] at hv
    | cons d ds =>
      simp only [okSlots, Bool.and_eq_true] at hv
      simp only [List.all_cons, Bool.and_eq_true] at hds
      simp only [lenSlots, encSlots, List.length_append]
      rw [lenSlot_eq s flag hs d hds.1 v hv.1, lenSlots_eq s flag hs ds hds.2 r hv.2]
theorem lenEs_eq (s : Schema) (flag : Bool) (hs : WFSchema s = true) (tag : Nat) (ht : tagOk tag = true) (ty : FTy) (xs : EVals)
    (hv : okEs s flag ty xs = true) : lenEs s flag tag ty xs = (encEs s flag tag ty xs).length := by
  cases xs with
  | nil => simp [lenEs, encEs]
  | cons v r =>
    simp only [okEs, Bool.and_eq_true] at hv
    simp only [lenEs, encEs, List.length_append]
    rw [lenE_eq s flag hs tag ht ty v hv.1, lenEs_eq s flag hs tag ht ty r hv.2]
theorem lenPairs_eq (s : Schema) (flag : Bool) (hs : WFSchema s = true) (tag : Nat) (ht : tagOk tag = true) (kc : Codec) (vty : FTy)
    (kvs : Pairs) (hv : okPairs s flag kc vty kvs = true) :
    lenPairs s flag tag kc vty kvs = (encPairs s flag tag kc vty kvs).length := by
  cases kvs with
  | nil => simp [lenPairs, encPairs]
  | cons k v r =>
    have htag := (tagOk_iff tag).mp ht
    unfold okPairs at hv
    unfold lenPairs encPairs
    cases hsk : (!flag && k.isDefault) <;> cases hsv : (!flag && v.isDefault) <;>
      simp only [hsk, hsv, Bool.false_eq_true, if_false, if_true, Bool.and_eq_true, decide_eq_true_eq] at hv ⊢ <;>
      obtain ⟨⟨⟨⟨⟨hk, hkl⟩, hve⟩, _⟩, hlen⟩, hr⟩ := hv <;>
      have e1 := Codec.encodedLen_eq kc 1 (by decide) (by decide) k ((lenOk_iff k).mp hkl) <;>
      have e2 := lenE_eq s flag hs 2 (by decide) vty v hve <;>
      have e3 := lenPairs_eq s flag hs tag ht kc vty r hr <;>
      (unfold entryLen at hlen; simp only [hsk, hsv, Bool.false_eq_true, if_false, if_true] at hlen) <;>
      have h4 := encodedLenVarint_eq _ hlen <;>
      simp only [List.length_append, keyLen_eq tag .len htag.1 htag.2, encodeVarint, encVar_length, h4, e3, List.length_nil] <;>
      omega
end

end Pilota.Proto
