import PilotaModel.Lemmas.LenSim
import PilotaModel.Lemmas.CompactRT
namespace Pilota.Thrift
open Pilota Pilota.Thrift

/-! ### every op of a well-typed value is well-formed -/
mutual
theorem TVal.ops_wf (v : TVal) (hw : v.wt = true) : ∀ o ∈ v.ops, o.wf = true := by
  cases v <;> simp only [TVal.ops, TVal.wt, List.mem_cons, List.mem_append, List.mem_singleton, List.not_mem_nil, or_false,
    Bool.and_eq_true, decide_eq_true_eq] at hw ⊢
  case uuid bs => intro o ho; subst ho; simpa [Op.wf] using hw
  case struct fs =>
    intro o ho; rcases ho with rfl | ho | rfl | rfl
    · rfl
    · exact TFields.ops_wf fs hw o ho
    · rfl
    · rfl
  case list et xs =>
    intro o ho; rcases ho with rfl | ho | rfl
    · rfl
    · exact TVals.ops_wf xs et hw.2 o ho
    · rfl
  case set et xs =>
    intro o ho; rcases ho with rfl | ho | rfl
    · rfl
    · exact TVals.ops_wf xs et hw.2 o ho
    · rfl
  case map kt vt kvs =>
    intro o ho; rcases ho with rfl | ho | rfl
    · rfl
    · exact TPairs.ops_wf kvs kt vt hw.2 o ho
    · rfl
  all_goals (intro o ho; subst ho; rfl)
theorem TVals.ops_wf (xs : TVals) (et : TType) (hw : xs.wt et = true) : ∀ o ∈ xs.ops, o.wf = true := by
  cases xs with
  | nil => simp [TVals.ops]
  | cons v vs =>
    simp [TVals.wt] at hw
    simp only [TVals.ops, List.mem_append]
    intro o ho; rcases ho with ho | ho
    · exact TVal.ops_wf v hw.1.2 o ho
    · exact TVals.ops_wf vs et hw.2 o ho
theorem TFields.ops_wf (fs : TFields) (hw : fs.wt = true) : ∀ o ∈ fs.ops, o.wf = true := by
  cases fs with
  | nil => simp [TFields.ops]
  | cons id v r =>
    simp [TFields.wt] at hw
    simp only [TFields.ops, List.mem_cons, List.mem_append]
    intro o ho; rcases ho with rfl | ho | rfl | ho
    · rfl
    · exact TVal.ops_wf v hw.1.2 o ho
    · rfl
    · exact TFields.ops_wf r hw.2 o ho
theorem TPairs.ops_wf (kvs : TPairs) (kt vt : TType) (hw : kvs.wt kt vt = true) : ∀ o ∈ kvs.ops, o.wf = true := by
  cases kvs with
  | nil => simp [TPairs.ops]
  | cons k v r =>
    simp [TPairs.wt] at hw
    simp only [TPairs.ops, List.mem_append]
    intro o ho; rcases ho with (ho | ho) | ho
    · exact TVal.ops_wf k hw.1.1.2 o ho
    · exact TVal.ops_wf v hw.1.2 o ho
    · exact TPairs.ops_wf r kt vt hw.2 o ho
end

namespace Binary

theorem run_append (e : Endian) (a b : List Op) : run e (a ++ b) = run e a ++ run e b := by
  simp [run, List.flatMap_append]

mutual
theorem run_ops (e : Endian) (v : TVal) : run e v.ops = enc e v := by
  cases v <;> simp only [TVal.ops, enc]
  all_goals first
    | (simp [run, wOp]; done)
    | skip
  case struct fs =>
    have := run_fieldOps e fs
    simp [run, List.flatMap_append, wOp] at this ⊢
    exact this
  case list et xs =>
    have := run_valsOps e xs
    simp [run, List.flatMap_append, wOp] at this ⊢
    exact this
  case set et xs =>
    have := run_valsOps e xs
    simp [run, List.flatMap_append, wOp] at this ⊢
    exact this
  case map kt vt kvs =>
    have := run_pairsOps e kvs
    simp [run, List.flatMap_append, wOp] at this ⊢
    exact this
theorem run_valsOps (e : Endian) (xs : TVals) : run e xs.ops = encVals e xs := by
  cases xs with
  | nil => rfl
  | cons v vs => simp only [TVals.ops, encVals, run_append, run_ops e v, run_valsOps e vs]
theorem run_fieldOps (e : Endian) (fs : TFields) : run e fs.ops ++ [0] = encFields e fs := by
  cases fs with
  | nil => rfl
  | cons id v r =>
    have h1 := run_ops e v
    have h2 := run_fieldOps e r
    simp only [TFields.ops, encFields]
    rw [show (Op.fieldBegin v.ttype id :: (v.ops ++ Op.fieldEnd :: r.ops)) = [Op.fieldBegin v.ttype id] ++ v.ops ++ [Op.fieldEnd] ++ r.ops by simp]
    simp only [run_append, h1]
    simp [run, wOp, ← h2]
theorem run_pairsOps (e : Endian) (kvs : TPairs) : run e kvs.ops = encPairs e kvs := by
  cases kvs with
  | nil => rfl
  | cons k v r => simp only [TPairs.ops, encPairs, run_append, run_ops e k, run_ops e v, run_pairsOps e r, List.append_assoc]
end

end Binary
end Pilota.Thrift

namespace Pilota.Thrift.Compact
open Pilota Pilota.Thrift

/-- sequential composition of two `run`s. -/
def seq2 (s : CW) (a b : List Op) : Out (CW × Bytes) :=
  match run s a with
  | .ok (s', x) => match run s' b with
    | .ok (s'', y) => .ok (s'', x ++ y)
    | .err k => .err k | .panic m => .panic m | .fuel => .fuel
  | .err k => .err k | .panic m => .panic m | .fuel => .fuel

theorem run_append (s : CW) (a b : List Op) : run s (a ++ b) = seq2 s a b := by
  induction a generalizing s with
  | nil => simp only [List.nil_append, seq2, run]; cases run s b <;> simp
  | cons o os ih =>
    simp only [List.cons_append, run, seq2]
    cases h : wStep s o with
    | ok p =>
      obtain ⟨s', x⟩ := p
      simp only [ih s', seq2]
      cases h2 : run s' os with
      | ok q =>
        obtain ⟨s'', y⟩ := q
        simp only
        cases run s'' b <;> simp [List.append_assoc]
      | _ => simp
    | _ => simp

theorem run_ok_append (s s' s'' : CW) (a b : List Op) (x y : Bytes) (h1 : run s a = .ok (s', x)) (h2 : run s' b = .ok (s'', y)) :
    run s (a ++ b) = .ok (s'', x ++ y) := by
  simp [run_append, seq2, h1, h2]

theorem run_single (s : CW) (o : Op) (s' : CW) (x : Bytes) (h : wStep s o = .ok (s', x)) : run s [o] = .ok (s', x) := by
  simp [run, h]

mutual
theorem run_ops (v : TVal) (hw : v.wt = true) (s : CW) (hp : s.pending = none) : run s v.ops = .ok (s, enc v) := by
  cases v with
  | bool b => simp [TVal.ops, run, wStep, hp, enc]
  | i8 n => simp [TVal.ops, run, wStep, enc]
  | i16 n => simp [TVal.ops, run, wStep, enc]
  | i32 n => simp [TVal.ops, run, wStep, enc]
  | i64 n => simp [TVal.ops, run, wStep, enc]
  | dbl b => simp [TVal.ops, run, wStep, enc]
  | bin bs => simp [TVal.ops, run, wStep, enc]
  | uuid bs => simp [TVal.ops, run, wStep, enc]
  | struct fs =>
    simp [TVal.wt] at hw
    simp only [TVal.ops, enc]
    have h1 : run s [Op.structBegin] = .ok ({ s with stack := s.last :: s.stack, last := 0 }, []) := by simp [run, wStep]
    have h2 := run_fieldOps fs hw { s with stack := s.last :: s.stack, last := 0 } hp
    have h3 : run { s with stack := s.last :: s.stack, last := lastOf 0 fs } [Op.structEnd] = .ok (s, []) := by
      cases s; simp_all [run, wStep]
    have := run_ok_append _ _ _ _ _ _ _ h1 (run_ok_append _ _ _ _ _ _ _ h2 h3)
    simpa using this
  | list et xs =>
    simp [TVal.wt] at hw
    obtain ⟨⟨he, _⟩, hx⟩ := hw
    obtain ⟨ct, c1, _⟩ := compactOf_value et he
    simp only [TVal.ops, enc]
    have h1 : run s [Op.listBegin et xs.length] = .ok (s, collHeader ct xs.length) := by simp [run, wStep, c1]
    have h2 := run_valsOps xs et hx s hp
    have h3 : run s [Op.listEnd] = .ok (s, []) := by simp [run, wStep]
    have := run_ok_append _ _ _ _ _ _ _ h1 (run_ok_append _ _ _ _ _ _ _ h2 h3)
    simpa [c1] using this
  | set et xs =>
    simp [TVal.wt] at hw
    obtain ⟨⟨he, _⟩, hx⟩ := hw
    obtain ⟨ct, c1, _⟩ := compactOf_value et he
    simp only [TVal.ops, enc]
    have h1 : run s [Op.setBegin et xs.length] = .ok (s, collHeader ct xs.length) := by simp [run, wStep, c1]
    have h2 := run_valsOps xs et hx s hp
    have h3 : run s [Op.setEnd] = .ok (s, []) := by simp [run, wStep]
    have := run_ok_append _ _ _ _ _ _ _ h1 (run_ok_append _ _ _ _ _ _ _ h2 h3)
    simpa [c1] using this
  | map kt vt kvs =>
    simp [TVal.wt] at hw
    obtain ⟨⟨⟨hk, hv⟩, _⟩, hx⟩ := hw
    obtain ⟨ck, k1, _⟩ := compactOf_value kt hk
    obtain ⟨cv, v1, _⟩ := compactOf_value vt hv
    simp only [TVal.ops, enc]
    have h2 := run_pairsOps kvs kt vt hx s hp
    have h3 : run s [Op.mapEnd] = .ok (s, []) := by simp [run, wStep]
    by_cases hn : kvs.length = 0
    · have h1 : run s [Op.mapBegin kt vt kvs.length] = .ok (s, [0]) := by simp [run, wStep, hn]
      have := run_ok_append _ _ _ _ _ _ _ h1 (run_ok_append _ _ _ _ _ _ _ h2 h3)
      cases kvs with
      | nil => simpa [hn, encPairs, TPairs.length] using this
      | cons _ _ _ => simp [TPairs.length] at hn
    · have h1 : run s [Op.mapBegin kt vt kvs.length] = .ok (s, encVar (kvs.length % 2 ^ 32) ++ [UInt8.ofNat (ck * 16 + cv)]) := by
        simp [run, wStep, hn, k1, v1]
      have := run_ok_append _ _ _ _ _ _ _ h1 (run_ok_append _ _ _ _ _ _ _ h2 h3)
      simpa [hn, k1, v1] using this
theorem run_valsOps (xs : TVals) (et : TType) (hw : xs.wt et = true) (s : CW) (hp : s.pending = none) :
    run s xs.ops = .ok (s, encVals xs) := by
  cases xs with
  | nil => simp [TVals.ops, run, encVals]
  | cons v vs =>
    simp [TVals.wt] at hw
    simp only [TVals.ops, encVals]
    exact run_ok_append _ _ _ _ _ _ _ (run_ops v hw.1.2 s hp) (run_valsOps vs et hw.2 s hp)
theorem run_fieldOps (fs : TFields) (hw : fs.wt = true) (s : CW) (hp : s.pending = none) :
    run s (fs.ops ++ [Op.fieldStop]) = .ok ({ s with last := lastOf s.last fs }, encFields s.last fs) := by
  cases fs with
  | nil => cases s; simp_all [TFields.ops, run, wStep, encFields, lastOf]
  | cons id v r =>
    simp [TFields.wt] at hw
    obtain ⟨⟨_, hv⟩, hr⟩ := hw
    simp only [TFields.ops, lastOf]
    rw [show (Op.fieldBegin v.ttype id :: (v.ops ++ Op.fieldEnd :: r.ops) ++ [Op.fieldStop]) =
      [Op.fieldBegin v.ttype id] ++ (v.ops ++ ([Op.fieldEnd] ++ (r.ops ++ [Op.fieldStop]))) by simp]
    have hrest := run_fieldOps r hr { s with last := id } hp
    by_cases hb : ∃ b, v = .bool b
    · obtain ⟨b, rfl⟩ := hb
      have h1 : run s [Op.fieldBegin TType.bool id] = .ok ({ s with pending := some id }, []) := by simp [run, wStep, hp]
      have h2 : run { s with pending := some id } (TVal.bool b).ops = .ok ({ s with last := id }, fieldHeader s.last (boolByte b) id) := by
        cases s; simp_all [TVal.ops, run, wStep]
      have h3 : run { s with last := id } [Op.fieldEnd] = .ok ({ s with last := id }, []) := by simp [run, wStep, hp]
      have := run_ok_append _ _ _ _ _ _ _ h1 (run_ok_append _ _ _ _ _ _ _ h2 (run_ok_append _ _ _ _ _ _ _ h3 hrest))
      simpa [encFields, TVal.ttype] using this
    · have hnb : v.ttype ≠ .bool := by
        intro h; apply hb; cases v <;> simp [TVal.ttype] at h; exact ⟨_, rfl⟩
      obtain ⟨ct, c1, _⟩ := compactOf_value v.ttype (Binary.val_ttype_isValue v)
      have h1 : run s [Op.fieldBegin v.ttype id] = .ok ({ s with last := id }, fieldHeader s.last ct id) := by
        simp [run, wStep, hnb, c1]
      have h2 := run_ops v hv { s with last := id } hp
      have h3 : run { s with last := id } [Op.fieldEnd] = .ok ({ s with last := id }, []) := by simp [run, wStep, hp]
      have := run_ok_append _ _ _ _ _ _ _ h1 (run_ok_append _ _ _ _ _ _ _ h2 (run_ok_append _ _ _ _ _ _ _ h3 hrest))
      have henc : encFields s.last (.cons id v r) = fieldHeader s.last ct id ++ (enc v ++ encFields id r) := by
        cases v <;> first | (exfalso; exact hb ⟨_, rfl⟩) | simp [encFields, c1] <;> (simp [TVal.ttype] at c1; simp [c1])
      rw [henc]
      simpa using this
theorem run_pairsOps (kvs : TPairs) (kt vt : TType) (hw : kvs.wt kt vt = true) (s : CW) (hp : s.pending = none) :
    run s kvs.ops = .ok (s, encPairs kvs) := by
  cases kvs with
  | nil => simp [TPairs.ops, run, encPairs]
  | cons k v r =>
    simp [TPairs.wt] at hw
    simp only [TPairs.ops, encPairs, List.append_assoc]
    exact run_ok_append _ _ _ _ _ _ _ (run_ops k hw.1.1.2 s hp)
      (run_ok_append _ _ _ _ _ _ _ (run_ops v hw.1.2 s hp) (run_pairsOps r kt vt hw.2 s hp))
end

end Pilota.Thrift.Compact
