import PilotaModel.TGen.ProjectK
import PilotaModel.Lemmas.Tolerant
import PilotaModel.Props.C01
/-
  Retention build (keep_unknown_fields), binary family: the retention decoder run on the binary encoding of a
  wire value equals its value-level shadow `projTyK` — for every document, declared type, well-typed wire value
  inside the shadow's domain, endianness, depth budget, trailing input and fuel.
-/
namespace Pilota.TGen
open Pilota Pilota.Thrift Pilota.Thrift.Binary

variable (e : Endian) (dp : Option Nat) (d : Doc)

theorem skipKeep_enc (hed : EndianOk e dp) (v : TVal) (hw : v.wt = true) (hd : admits dp v.need) (r : Bytes) :
    skipKeep e dp v.ttype (enc e v ++ r) = .ok (v, r) := by
  unfold skipKeep
  rw [binRd_skip_enc e dp hed v hw hd r]
  have hr := Pilota.Props.C01.binary_roundtrip e v hw r
  rw [run_ops] at hr
  rw [hr]

def CorrTK (f : Nat) : Prop := ∀ ty w rest o, w.wt = true → projTyK d dp f ty w = some o →
  decTyK e dp d f ty (enc e w ++ rest) = withRest rest o
def CorrNK (f : Nat) : Prop := ∀ el xs et acc rest o, xs.wt et = true → projNK d dp f el xs acc = some o →
  decNK e dp d f el xs.length acc (encVals e xs ++ rest) = withRest rest o
def CorrPK (f : Nat) : Prop := ∀ k v kvs kt vt acc rest o, kvs.wt kt vt = true → projPairsK d dp f k v kvs acc = some o →
  decPairsK e dp d f k v kvs.length acc (encPairs e kvs ++ rest) = withRest rest o
def CorrFK (f : Nat) : Prop := ∀ fs slots unk wfs rest o, wfs.wt = true → projFieldsK d dp f fs slots unk wfs = some o →
  decFieldsK e dp d f fs slots unk (encFields e wfs ++ rest) = mapOut (fun (x : List (Int × TVal) × List (Int × TVal)) => (x.1, x.2, rest)) o
def CorrUK (f : Nat) : Prop := ∀ vs ret wfs rest o, wfs.wt = true → projUnionK d dp f vs ret wfs = some o →
  decUnionK e dp d f vs ret (encFields e wfs ++ rest) = withRest rest o

theorem corrNK_succ (f : Nat) (hT : CorrTK e dp d f) (hN : CorrNK e dp d f) : CorrNK e dp d (f + 1) := by
  intro el xs et acc rest o hw h
  cases xs with
  | nil =>
    simp only [projNK] at h; cases h
    simp [decNK, TVals.length, encVals, withRest, mapOut]
  | cons x xs =>
    simp [TVals.wt] at hw
    obtain ⟨⟨_, hx⟩, hxs⟩ := hw
    simp only [projNK] at h
    simp only [TVals.length, encVals, List.append_assoc, decNK]
    cases hp : projTyK d dp f el x with
    | none => simp [hp] at h
    | some ox =>
      rw [hT el x _ ox hx hp]
      cases ox with
      | ok v =>
        simp only [hp] at h
        simp only [withRest, mapOut]
        exact hN el xs et _ rest o hxs h
      | err k => simp [hp] at h; subst h; rfl
      | panic m => simp [hp] at h; subst h; rfl
      | fuel => simp [hp] at h; subst h; rfl

theorem corrPK_succ (f : Nat) (hT : CorrTK e dp d f) (hP : CorrPK e dp d f) : CorrPK e dp d (f + 1) := by
  intro k v kvs kt vt acc rest o hw h
  cases kvs with
  | nil =>
    simp only [projPairsK] at h; cases h
    simp [decPairsK, TPairs.length, encPairs, withRest, mapOut]
  | cons a b r =>
    simp [TPairs.wt] at hw
    obtain ⟨⟨⟨⟨_, _⟩, ha⟩, hb⟩, hr⟩ := hw
    simp only [projPairsK] at h
    simp only [TPairs.length, encPairs, List.append_assoc, decPairsK]
    cases hpa : projTyK d dp f k a with
    | none => simp [hpa] at h
    | some oa =>
      rw [hT k a _ oa ha hpa]
      cases oa with
      | ok ka =>
        simp only [hpa] at h
        simp only [withRest, mapOut]
        cases hpb : projTyK d dp f v b with
        | none => simp [hpb] at h
        | some ob =>
          rw [hT v b _ ob hb hpb]
          cases ob with
          | ok vb =>
            simp only [hpb] at h
            simp only [withRest, mapOut]
            exact hP k v r kt vt _ rest o hr h
          | err x => simp [hpb] at h; subst h; rfl
          | panic m => simp [hpb] at h; subst h; rfl
          | fuel => simp [hpb] at h; subst h; rfl
      | err x => simp [hpa] at h; subst h; rfl
      | panic m => simp [hpa] at h; subst h; rfl
      | fuel => simp [hpa] at h; subst h; rfl

theorem corrFK_succ (hed : EndianOk e dp) (f : Nat) (hT : CorrTK e dp d f) (hF : CorrFK e dp d f) : CorrFK e dp d (f + 1) := by
  intro fs slots unk wfs rest o hw h
  cases wfs with
  | nil =>
    simp only [projFieldsK] at h; cases h
    rw [decFieldsK, fieldBegin_nil]; simp [mapOut]
  | cons id v r =>
    simp [TFields.wt] at hw
    obtain ⟨⟨hid, hv⟩, hr⟩ := hw
    simp only [projFieldsK, hid, not_true_eq_false, if_false] at h
    have hns : v.ttype ≠ .stop := ttype_isValue_ne_stop _ (val_ttype_isValue v)
    rw [decFieldsK, fieldBegin_cons e dp id v r hid]
    simp only [hns, if_false]
    cases hfind : fs.find? (fun fl => fl.id == id && d.ttype fl.ty == v.ttype) with
    | some fl =>
      simp only [hfind] at h ⊢
      cases hp : projTyK d dp f fl.ty v with
      | none => simp [hp] at h
      | some ov =>
        rw [hT fl.ty v _ ov hv hp]
        cases ov with
        | ok pv =>
          simp only [hp] at h
          simp only [withRest, mapOut]
          exact hF fs _ unk r rest o hr h
        | err x => simp [hp] at h; subst h; rfl
        | panic m => simp [hp] at h; subst h; rfl
        | fuel => simp [hp] at h; subst h; rfl
    | none =>
      simp only [hfind] at h ⊢
      by_cases hadm : admitsB dp v.need = true
      · simp only [hadm, if_true] at h
        rw [skipKeep_enc e dp hed v hv ((admitsB_iff dp _).mp hadm)]
        exact hF fs slots _ r rest o hr h
      · simp [hadm] at h

theorem corrUK_succ (hed : EndianOk e dp) (f : Nat) (hT : CorrTK e dp d f) (hU : CorrUK e dp d f) : CorrUK e dp d (f + 1) := by
  intro vs ret wfs rest o hw h
  cases wfs with
  | nil =>
    simp only [projUnionK] at h; cases h
    rw [decUnionK, fieldBegin_nil]; simp [withRest, mapOut]
  | cons id v r =>
    simp [TFields.wt] at hw
    obtain ⟨⟨hid, hv⟩, hr⟩ := hw
    simp only [projUnionK, hid, not_true_eq_false, if_false] at h
    have hns : v.ttype ≠ .stop := ttype_isValue_ne_stop _ (val_ttype_isValue v)
    rw [decUnionK, fieldBegin_cons e dp id v r hid]
    simp only [hns, if_false]
    cases hfind : vs.find? (fun x => x.1 == id && !(x.2 == .void)) with
    | some p =>
      obtain ⟨pid, ty⟩ := p
      simp only [hfind] at h ⊢
      by_cases hret : ret.isSome = true
      · simp only [hret, if_true] at h ⊢
        cases h; rfl
      · simp only [hret, if_false] at h ⊢
        by_cases htt : (d.ttype ty != v.ttype) = true
        · simp [htt] at h
        · simp only [htt, if_false] at h
          cases hp : projTyK d dp f ty v with
          | none => simp [hp] at h
          | some ov =>
            rw [hT ty v _ ov hv hp]
            cases ov with
            | ok pv =>
              simp only [hp] at h
              simp only [withRest, mapOut]
              exact hU vs _ r rest o hr h
            | err x => simp [hp] at h; subst h; rfl
            | panic m => simp [hp] at h; subst h; rfl
            | fuel => simp [hp] at h; subst h; rfl
    | none =>
      simp only [hfind] at h ⊢
      by_cases hadm : admitsB dp v.need = true
      · simp only [hadm, if_true] at h
        rw [skipKeep_enc e dp hed v hv ((admitsB_iff dp _).mp hadm)]
        simp only
        by_cases hret : ret.isSome = true
        · simp only [hret, if_true] at h ⊢
          cases h; rfl
        · simp only [hret, if_false] at h ⊢
          exact hU vs _ r rest o hr h
      · simp [hadm] at h

end Pilota.TGen

namespace Pilota.TGen
open Pilota Pilota.Thrift Pilota.Thrift.Binary

variable (e : Endian) (dp : Option Nat) (d : Doc)

theorem corrTK_succ (hed : EndianOk e dp) (f : Nat) (hT : CorrTK e dp d f) (hN : CorrNK e dp d f) (hP : CorrPK e dp d f)
    (hF : CorrFK e dp d f) (hU : CorrUK e dp d f) : CorrTK e dp d (f + 1) := by
  have hbase : ∀ ty w rest o, w.wt = true → projTy d dp (f + 1) ty w = some o →
      decTy (binRd e dp) d (f + 1) ty (enc e w ++ rest) = withRest rest o :=
    fun ty w rest o hw h => (corr_all e dp d hed (f + 1)).1 ty w rest o hw h
  intro ty w rest o hw h
  cases ty with
  | list el =>
    cases w <;> simp only [projTyK] at h <;> try (cases h; done)
    rename_i et xs
    simp [TVal.wt] at hw
    obtain ⟨⟨_, hl⟩, hx⟩ := hw
    simp only [enc, List.cons_append, List.append_assoc]
    rw [decTyK, listBegin_enc e dp et xs hx hl]
    simp only
    cases hp : projNK d dp f el xs [] with
    | none => simp [hp] at h
    | some oy =>
      rw [hN el xs et [] rest oy hx hp]
      cases oy <;> simp [hp] at h <;> subst h <;> rfl
  | set el =>
    cases w <;> simp only [projTyK] at h <;> try (cases h; done)
    rename_i et xs
    simp [TVal.wt] at hw
    obtain ⟨⟨_, hl⟩, hx⟩ := hw
    simp only [enc, List.cons_append, List.append_assoc]
    rw [decTyK, listBegin_enc e dp et xs hx hl]
    simp only
    cases hp : projNK d dp f el xs [] with
    | none => simp [hp] at h
    | some oy =>
      rw [hN el xs et [] rest oy hx hp]
      cases oy <;> simp [hp] at h <;> subst h <;> rfl
  | map k v =>
    cases w <;> simp only [projTyK] at h <;> try (cases h; done)
    rename_i kt vt kvs
    simp [TVal.wt] at hw
    obtain ⟨⟨⟨_, _⟩, hl⟩, hx⟩ := hw
    simp only [enc, List.cons_append, List.append_assoc]
    rw [decTyK, mapBegin_enc e dp kt vt kvs hx hl]
    simp only
    cases hp : projPairsK d dp f k v kvs [] with
    | none => simp [hp] at h
    | some oy =>
      rw [hP k v kvs kt vt [] rest oy hx hp]
      cases oy <;> simp [hp] at h <;> subst h <;> rfl
  | ref n =>
    simp only [projTyK] at h
    rw [decTyK]
    cases hfind : d.find n with
    | none => simp [hfind] at h ⊢; subst h; rfl
    | some df =>
      cases df with
      | struct fs =>
        simp only [hfind] at h ⊢
        cases w <;> simp only at h <;> try (cases h; done)
        rename_i wfs
        simp [TVal.wt] at hw
        simp only [enc]
        cases hp : projFieldsK d dp f fs [] [] wfs with
        | none => simp [hp] at h
        | some os =>
          rw [hF fs [] [] wfs rest os hw hp]
          cases os with
          | ok su =>
            obtain ⟨slots, unk⟩ := su
            simp only [hp] at h
            simp only [mapOut]
            cases hfin : finish fs slots <;> simp [hfin] at h ⊢ <;> subst h <;> rfl
          | err x => simp [hp] at h; subst h; rfl
          | panic m => simp [hp] at h; subst h; rfl
          | fuel => simp [hp] at h; subst h; rfl
      | union vs =>
        simp only [hfind] at h ⊢
        cases w <;> simp only at h <;> try (cases h; done)
        rename_i wfs
        simp [TVal.wt] at hw
        simp only [enc]
        cases hp : projUnionK d dp f vs none wfs with
        | none => simp [hp] at h
        | some os =>
          rw [hU vs none wfs rest os hw hp]
          cases os with
          | ok ret =>
            simp only [hp] at h
            simp only [withRest, mapOut]
            cases ret with
            | some p => obtain ⟨id, v⟩ := p; simp at h; subst h; rfl
            | none =>
              simp only at h ⊢
              split at h <;> (cases h; first | rfl | skip)
              all_goals (split <;> simp_all [withRest, mapOut])
          | err x => simp [hp] at h; subst h; rfl
          | panic m => simp [hp] at h; subst h; rfl
          | fuel => simp [hp] at h; subst h; rfl
      | enum =>
        simp only [hfind] at h ⊢
        cases w <;> simp only at h <;> try (cases h; done)
        rename_i n
        cases h
        have := base_dec e dp d (.i32 n) .i32 hw 0 rest rfl
        rw [decTy] at this
        simp only [withRest, mapOut]
        exact this
      | typedef t =>
        simp only [hfind] at h ⊢
        exact hT t w rest o hw h
  | void => simp only [projTyK] at h; simp only [decTyK]; exact hbase _ w rest o hw h
  | bool => simp only [projTyK] at h; simp only [decTyK]; exact hbase _ w rest o hw h
  | i8 => simp only [projTyK] at h; simp only [decTyK]; exact hbase _ w rest o hw h
  | i16 => simp only [projTyK] at h; simp only [decTyK]; exact hbase _ w rest o hw h
  | i32 => simp only [projTyK] at h; simp only [decTyK]; exact hbase _ w rest o hw h
  | i64 => simp only [projTyK] at h; simp only [decTyK]; exact hbase _ w rest o hw h
  | double => simp only [projTyK] at h; simp only [decTyK]; exact hbase _ w rest o hw h
  | string => simp only [projTyK] at h; simp only [decTyK]; exact hbase _ w rest o hw h
  | binary => simp only [projTyK] at h; simp only [decTyK]; exact hbase _ w rest o hw h
  | uuid => simp only [projTyK] at h; simp only [decTyK]; exact hbase _ w rest o hw h

theorem corrK_all (hed : EndianOk e dp) : ∀ f : Nat, CorrTK e dp d f ∧ CorrNK e dp d f ∧ CorrPK e dp d f ∧ CorrFK e dp d f ∧ CorrUK e dp d f := by
  intro f
  induction f with
  | zero =>
    refine ⟨?_, ?_, ?_, ?_, ?_⟩
    · intro ty w rest o _ h; simp only [projTyK] at h; cases h; rfl
    · intro el xs et acc rest o _ h; simp only [projNK] at h; cases h; rfl
    · intro k v kvs kt vt acc rest o _ h; simp only [projPairsK] at h; cases h; rfl
    · intro fs slots unk wfs rest o _ h; simp only [projFieldsK] at h; cases h; rfl
    · intro vs ret wfs rest o _ h; simp only [projUnionK] at h; cases h; rfl
  | succ f ih =>
    obtain ⟨hT, hN, hP, hF, hU⟩ := ih
    exact ⟨corrTK_succ e dp d hed f hT hN hP hF hU, corrNK_succ e dp d f hT hN, corrPK_succ e dp d f hT hP,
      corrFK_succ e dp d hed f hT hF, corrUK_succ e dp d hed f hT hU⟩

end Pilota.TGen

namespace Pilota.TGen
open Pilota Pilota.Thrift

variable (d : Doc) (dp : Option Nat)

/-- the fields of a wire struct that the reader's struct does not declare (by id and wire type), in wire order -/
def unknownsOf (fs : List Field) : TFields → List (Int × TVal)
  | .nil => []
  | .cons id v r =>
    if (fs.find? (fun fl => fl.id == id && d.ttype fl.ty == v.ttype)).isSome then unknownsOf fs r
    else (id, v) :: unknownsOf fs r

/-- whenever the retention field loop succeeds, what it retained is EVERY undeclared field of the wire struct, each as
the very value it had on the wire, in wire order, after whatever was retained before. -/
theorem projFieldsK_retains : ∀ (f : Nat) (fs : List Field) (slots unk : List (Int × TVal)) (wfs : TFields) (slots' unk' : List (Int × TVal)),
    projFieldsK d dp f fs slots unk wfs = some (.ok (slots', unk')) → unk' = unk ++ unknownsOf d fs wfs := by
  intro f
  induction f with
  | zero => intro fs slots unk wfs slots' unk' h; simp [projFieldsK] at h
  | succ f ih =>
    intro fs slots unk wfs slots' unk' h
    cases wfs with
    | nil => simp only [projFieldsK] at h; cases h; simp [unknownsOf]
    | cons id v r =>
      simp only [projFieldsK] at h
      split at h
      · cases h
      · cases hfind : fs.find? (fun fl => fl.id == id && d.ttype fl.ty == v.ttype) with
        | some fl =>
          simp only [hfind] at h
          simp only [unknownsOf, hfind, Option.isSome_some, if_true]
          cases hp : projTyK d dp f fl.ty v with
          | none => simp [hp] at h
          | some ov =>
            cases ov with
            | ok pv => simp only [hp] at h; exact ih fs _ unk r slots' unk' h
            | err k => simp [hp] at h
            | panic m => simp [hp] at h
            | fuel => simp [hp] at h
        | none =>
          simp only [hfind] at h
          simp only [unknownsOf, hfind, Option.isSome_none, Bool.false_eq_true, if_false]
          split at h
          · have := ih fs slots _ r slots' unk' h
            rw [this]; simp
          · cases h

end Pilota.TGen
