import PilotaModel.Lemmas.PbSpecScalar
/-
  C06, first direction: what pilota writes is a conforming encoding (`Spec.Enc`) of the value.
  The records of pilota's encoder, as a view on `encSlots`.
-/
namespace Pilota.Proto
open Pilota Spec

def recE (s : Schema) (flag : Bool) (tag : Nat) (ty : FTy) (v : EVal) : Rec := ⟨tag, wtOf ty, payE s flag ty v⟩

def recsEs (s : Schema) (flag : Bool) (tag : Nat) (ty : FTy) : EVals → List Rec
  | .nil => []
  | .cons v r => recE s flag tag ty v :: recsEs s flag tag ty r

/-- the records inside a map entry. -/
def entryRecs (s : Schema) (flag : Bool) (kc : Codec) (vty : FTy) (k : SVal) (v : EVal) : List Rec :=
  (if !flag && k.isDefault then [] else [⟨1, kc.wt, kc.encPayload k⟩]) ++
  (if !flag && v.isDefault then [] else [recE s flag 2 vty v])

def recsPairs (s : Schema) (flag : Bool) (tag : Nat) (kc : Codec) (vty : FTy) : Pairs → List Rec
  | .nil => []
  | .cons k v r => ⟨tag, .len, lenDelim (flat (entryRecs s flag kc vty k v))⟩ :: recsPairs s flag tag kc vty r

def recsSlot (s : Schema) (flag : Bool) : FieldDecl → Slot → List Rec
  | .single tag ty false, .req v => [recE s flag tag ty v]
  | .single tag ty true, .some v => [recE s flag tag ty v]
  | .rep tag ty, .rep xs => recsEs s flag tag ty xs
  | .map tag k vty, .map kvs => recsPairs s flag tag k vty kvs
  | .oneof vs, .one t v =>
    match lookupVariant vs t with
    | some ty => [recE s flag t ty v]
    | none => []
  | _, _ => []

def recsSlots (s : Schema) (flag : Bool) : List FieldDecl → Slots → List Rec
  | d :: ds, .cons v r => recsSlot s flag d v ++ recsSlots s flag ds r
  | _, _ => []

theorem rec_bytes (tag : Nat) (wt : WireType) (p : Bytes) : Rec.bytes ⟨tag, wt, p⟩ = keyBytes tag wt ++ p := by
  simp [Rec.bytes, keyBytes, encodeVarint, base128_eq]

theorem flat_cons (r : Rec) (rs : List Rec) : flat (r :: rs) = r.bytes ++ flat rs := by simp [flat]
theorem flat_append (a b : List Rec) : flat (a ++ b) = flat a ++ flat b := by simp [flat]
theorem flat_nil : flat [] = [] := rfl

theorem flat_recE (s : Schema) (flag : Bool) (tag : Nat) (ty : FTy) (v : EVal) (h : okE s flag ty v = true) :
    flat [recE s flag tag ty v] = encE s flag tag ty v := by
  simp [flat, recE, rec_bytes, encE_split s flag tag ty v h]

theorem flat_recsEs (s : Schema) (flag : Bool) (tag : Nat) (ty : FTy) : ∀ (xs : EVals), okEs s flag ty xs = true →
    flat (recsEs s flag tag ty xs) = encEs s flag tag ty xs
  | .nil, _ => rfl
  | .cons v r, h => by
    simp only [okEs, Bool.and_eq_true] at h
    simp only [recsEs, flat_cons, encEs, flat_recsEs s flag tag ty r h.2]
    rw [← flat_recE s flag tag ty v h.1]; simp [flat]

theorem lenDelim_eq (b : Bytes) : lenDelim b = encodeVarint b.length ++ b := by
  simp [lenDelim, encodeVarint, base128_eq]

theorem flat_entryRecs (s : Schema) (flag : Bool) (kc : Codec) (vty : FTy) (k : SVal) (v : EVal) (hv : okE s flag vty v = true) :
    flat (entryRecs s flag kc vty k v) =
      (if (!flag && k.isDefault) = true then [] else kc.encode 1 k) ++ (if (!flag && v.isDefault) = true then [] else encE s flag 2 vty v) := by
  unfold entryRecs
  rw [flat_append]
  congr 1
  · split
    · rfl
    · simp [flat, rec_bytes, Codec.encode]
  · split
    · rfl
    · exact flat_recE s flag 2 vty v hv

theorem entry_len (s : Schema) (flag : Bool) (hs : WFSchema s = true) (kc : Codec) (vty : FTy) (k : SVal) (v : EVal)
    (hkl : Codec.lenOk k) (hv : okE s flag vty v = true) :
    (flat (entryRecs s flag kc vty k v)).length = entryLen s flag kc vty k v := by
  rw [flat_entryRecs s flag kc vty k v hv]
  have e1 := Codec.encodedLen_eq kc 1 (by decide) (by decide) k hkl
  have e2 := lenE_eq s flag hs 2 tagOk_2 vty v hv
  unfold entryLen
  simp only [List.length_append]
  congr 1
  · split <;> simp [e1]
  · split <;> simp [e2]

theorem flat_recsPairs (s : Schema) (flag : Bool) (hs : WFSchema s = true) (tag : Nat) (kc : Codec) (vty : FTy) :
    ∀ (kvs : Pairs), okPairs s flag kc vty kvs = true → flat (recsPairs s flag tag kc vty kvs) = encPairs s flag tag kc vty kvs
  | .nil, _ => rfl
  | .cons k v r, h => by
    simp only [okPairs, Bool.and_eq_true] at h
    obtain ⟨⟨⟨⟨⟨_, hkl⟩, hve⟩, _⟩, _⟩, hr⟩ := h
    have hkl' := (lenOk_iff k).mp hkl
    have hl := entry_len s flag hs kc vty k v hkl' hve
    rw [flat_entryRecs s flag kc vty k v hve] at hl
    simp only [recsPairs, flat_cons, rec_bytes, flat_recsPairs s flag hs tag kc vty r hr, encPairs, lenDelim_eq,
      flat_entryRecs s flag kc vty k v hve]
    rw [hl]
    unfold entryLen
    simp only [List.append_assoc]

theorem flat_recsSlot (s : Schema) (flag : Bool) (hs : WFSchema s = true) (d : FieldDecl) (v : Slot) (h : okSlot s flag d v = true) :
    flat (recsSlot s flag d v) = encSlot s flag d v := by
  cases d with
  | single t ty opt =>
    cases opt <;> cases v <;> simp [okSlot] at h <;> simp only [recsSlot, encSlot, flat_nil]
    · exact flat_recE s flag t ty _ h
    · exact flat_recE s flag t ty _ h
  | rep t ty =>
    cases v <;> simp [okSlot] at h <;> simp only [recsSlot, encSlot, flat_nil]
    exact flat_recsEs s flag t ty _ h
  | map t kc vty =>
    cases v <;> simp [okSlot] at h <;> simp only [recsSlot, encSlot, flat_nil]
    exact flat_recsPairs s flag hs t kc vty _ h.1
  | oneof vs =>
    cases v <;> simp [okSlot] at h <;> simp only [recsSlot, encSlot, flat_nil]
    rename_i t x
    cases hl : lookupVariant vs t with
    | none => simp [hl] at h
    | some ty => simp only [hl] at h ⊢; exact flat_recE s flag t ty x h

theorem flat_recsSlots (s : Schema) (flag : Bool) (hs : WFSchema s = true) : ∀ (ds : List FieldDecl) (vs : Slots),
    okSlots s flag ds vs = true → flat (recsSlots s flag ds vs) = encSlots s flag ds vs
  | [], .nil, _ => rfl
  | d :: ds, .cons v r, h => by
    simp only [okSlots, Bool.and_eq_true] at h
    simp only [recsSlots, flat_append, encSlots, flat_recsSlot s flag hs d v h.1, flat_recsSlots s flag hs ds r h.2]
  | [], .cons _ _, h => by simp [okSlots] at h
  | _ :: _, .nil, h => by simp [okSlots] at h

/-! ### lowering -/

theorem codec_wireClass (t : PType) : t.codec.wireClass = t := by cases t <;> rfl

theorem lower_tags (d : PDecl) : (lowerDecl d).tags = d.tags := by
  cases d <;> simp [lowerDecl, FieldDecl.tags, PDecl.tags, List.map_map, Function.comp_def]

theorem decls_lower (ps : PSchema) (i : Nat) : decls (lowerSchema ps) i = (pdecls ps i).map lowerDecl := by
  unfold decls pdecls lowerSchema
  rw [List.getD_eq_getElem?_getD, List.getD_eq_getElem?_getD, List.getElem?_map]
  cases ps[i]? <;> simp

theorem lookup_lower (vs : List (Nat × PFTy)) (t : Nat) :
    lookupVariant (vs.map fun p => (p.1, lowerTy p.2)) t = (lookupP vs t).map lowerTy := by
  unfold lookupVariant lookupP
  induction vs with
  | nil => rfl
  | cons p ps ih =>
    simp only [List.map_cons, List.find?_cons]
    by_cases hp : p.1 = t
    · simp [hp]
    · have : (p.1 == t) = false := by simp [hp]
      simp only [this]
      exact ih

/-! ### every record of a field carries one of its field numbers -/

theorem recsEs_tags (s : Schema) (flag : Bool) (tag : Nat) (ty : FTy) : ∀ (xs : EVals), ∀ r ∈ recsEs s flag tag ty xs, r.tag = tag
  | .nil, _, h => by simp [recsEs] at h
  | .cons v rest, r, h => by
    simp only [recsEs, List.mem_cons] at h
    rcases h with rfl | h
    · rfl
    · exact recsEs_tags s flag tag ty rest r h

theorem recsPairs_tags (s : Schema) (flag : Bool) (tag : Nat) (kc : Codec) (vty : FTy) : ∀ (kvs : Pairs),
    ∀ r ∈ recsPairs s flag tag kc vty kvs, r.tag = tag
  | .nil, _, h => by simp [recsPairs] at h
  | .cons k v rest, r, h => by
    simp only [recsPairs, List.mem_cons] at h
    rcases h with rfl | h
    · rfl
    · exact recsPairs_tags s flag tag kc vty rest r h

theorem recsSlot_tags (s : Schema) (flag : Bool) (d : FieldDecl) (v : Slot) : ∀ r ∈ recsSlot s flag d v, d.tags.contains r.tag = true := by
  intro r h
  cases d with
  | single t ty opt =>
    cases opt <;> cases v <;> simp [recsSlot] at h <;> subst h <;> simp [recE, FieldDecl.tags]
  | rep t ty =>
    cases v <;> simp [recsSlot] at h
    simp [FieldDecl.tags, recsEs_tags s flag t ty _ r h]
  | map t kc vty =>
    cases v <;> simp [recsSlot] at h
    simp [FieldDecl.tags, recsPairs_tags s flag t kc vty _ r h]
  | oneof vs =>
    cases v <;> simp [recsSlot] at h
    rename_i t x
    cases hl : lookupVariant vs t with
    | none => simp [hl] at h
    | some ty =>
      simp only [hl, List.mem_singleton] at h
      subst h
      have := lookupVariant_mem vs t ty hl
      simp only [FieldDecl.tags, recE, List.contains_eq_mem, List.mem_map, decide_eq_true_eq]
      exact ⟨(t, ty), this, rfl⟩

theorem recsSlots_tags (s : Schema) (flag : Bool) : ∀ (ds : List FieldDecl) (vs : Slots), ∀ r ∈ recsSlots s flag ds vs, r.tag ∈ allTags ds
  | [], _, r, h => by simp [recsSlots] at h
  | _ :: _, .nil, r, h => by simp [recsSlots] at h
  | d :: ds, .cons v rest, r, h => by
    simp only [recsSlots, List.mem_append] at h
    rw [allTags_cons, List.mem_append]
    rcases h with h | h
    · left; simpa using recsSlot_tags s flag d v r h
    · right; exact recsSlots_tags s flag ds rest r h

/-- with distinct field numbers, picking a field's records out of the whole body gives that field's
records, and the rest is the rest. -/
theorem filter_slot (s : Schema) (flag : Bool) (d : FieldDecl) (ds : List FieldDecl) (v : Slot) (rest : Slots)
    (hnd : nodup (allTags (d :: ds)) = true) :
    (recsSlots s flag (d :: ds) (.cons v rest)).filter (fun r => d.tags.contains r.tag) = recsSlot s flag d v ∧
    (recsSlots s flag (d :: ds) (.cons v rest)).filter (fun r => !d.tags.contains r.tag) = recsSlots s flag ds rest := by
  rw [nodup_iff, allTags_cons, List.nodup_append] at hnd
  obtain ⟨_, _, hdis⟩ := hnd
  have h1 : ∀ r ∈ recsSlot s flag d v, d.tags.contains r.tag = true := recsSlot_tags s flag d v
  have h2 : ∀ r ∈ recsSlots s flag ds rest, d.tags.contains r.tag = false := by
    intro r hr
    have := recsSlots_tags s flag ds rest r hr
    cases hc : d.tags.contains r.tag with
    | false => rfl
    | true => exact absurd rfl (hdis r.tag (by simpa using hc) r.tag this)
  simp only [recsSlots, List.filter_append]
  constructor
  · rw [List.filter_eq_self.mpr h1, List.filter_eq_nil_iff.mpr (by intro r hr; rw [h2 r hr]; simp)]; simp
  · rw [List.filter_eq_nil_iff.mpr (by intro r hr; rw [h1 r hr]; simp), List.filter_eq_self.mpr (by intro r hr; rw [h2 r hr]; simp)]; simp

end Pilota.Proto

namespace Pilota.Proto
open Pilota Spec

theorem svalsOf_ok (s : Schema) (flag : Bool) (c : Codec) : ∀ (xs : EVals), okEs s flag (.scalar c) xs = true →
    ∃ vs, svalsOf xs = some vs ∧ ∀ v ∈ vs, c.ok v = true
  | .nil, _ => ⟨[], rfl, by simp⟩
  | .cons (.s x) r, h => by
    simp only [okEs, okE, Bool.and_eq_true] at h
    obtain ⟨vs, h1, h2⟩ := svalsOf_ok s flag c r h.2
    exact ⟨x :: vs, by simp [svalsOf, h1], by intro v hv; simp at hv; rcases hv with rfl | hv; exact h.1.1; exact h2 v hv⟩
  | .cons (.msg _) _, h => by simp [okEs, okE] at h

/-- pilota's unpacked repeated scalars are an admissible record sequence of a packable field. -/
theorem encPacked_unpacked (s : Schema) (flag : Bool) (t : Nat) (pty : PFTy) (c : Codec) (hl : lowerTy pty = .scalar c)
    (hc : c.wireClass = scalarTy pty) (hw : c.wt = wireOfTy pty) :
    ∀ (xs : EVals) (vs : List SVal), svalsOf xs = some vs → (∀ v ∈ vs, c.ok v = true) →
      EncPacked t pty (recsEs s flag t (.scalar c) xs) vs
  | .nil, vs, h, _ => by simp [svalsOf] at h; subst h; simp [recsEs, EncPacked]
  | .cons (.s x) r, vs, h, hok => by
    simp only [svalsOf] at h
    cases hr : svalsOf r with
    | none => simp [hr] at h
    | some vs' =>
      simp only [hr, Option.map_some, Option.some.injEq] at h
      subst h
      simp only [recsEs, EncPacked]
      refine ⟨rfl, Or.inl ⟨?_, x, vs', rfl, ?_, ?_⟩⟩
      · simp [recE, wtOf, hw]
      · have := (module_conforms c x (hok x (by simp))).2
        simp [recE, payE, this, hc]
      · exact encPacked_unpacked s flag t pty c hl hc hw r vs' hr (fun v hv => hok v (by simp [hv]))
  | .cons (.msg _) _, vs, h, _ => by simp [svalsOf] at h

theorem packable_lower (pty : PFTy) (hp : packable pty = true) :
    ∃ c, lowerTy pty = .scalar c ∧ c.wireClass = scalarTy pty ∧ c.wt = wireOfTy pty := by
  cases pty with
  | scalar t => exact ⟨t.codec, rfl, codec_wireClass t, by cases t <;> rfl⟩
  | enum => exact ⟨.int32, rfl, rfl, rfl⟩
  | msg i => simp [packable] at hp

theorem key_exact (kc : Codec) (k : SVal) (hk : kc.isKey = true) (hok : kc.ok k = true) (hd : k.isDefault = true) :
    k.exactDefault = true := by
  rw [key_default kc k hk hok hd]; exact Codec.default_exact kc

theorem zeroOf_default (s : Schema) (flag : Bool) (pty : PFTy) (v : EVal) (hv : okE s flag (lowerTy pty) v = true)
    (he : v = defaultE s (lowerTy pty)) : zeroOf pty v := by
  have hx := exactDefault_defaultE s (lowerTy pty)
  rw [← he] at hx
  cases pty with
  | scalar t => cases v with
    | s x => simpa [zeroOf, EVal.exactDefault] using hx
    | msg fs => simp [lowerTy, okE] at hv
  | enum => cases v with
    | s x => simpa [zeroOf, EVal.exactDefault] using hx
    | msg fs => simp [lowerTy, okE] at hv
  | msg i => cases v with
    | s x => simp [lowerTy, okE] at hv
    | msg fs => simpa [zeroOf, EVal.exactDefault] using hx

mutual
theorem isSpecE (ps : PSchema) (flag : Bool) (hs : WFSchema (lowerSchema ps) = true) (pty : PFTy) (v : EVal) (tag : Nat)
    (hy : okE (lowerSchema ps) flag (lowerTy pty) v = true) :
    EncE ps pty v (recE (lowerSchema ps) flag tag (lowerTy pty) v) := by
  cases v with
  | s x =>
    cases pty with
    | scalar t =>
      simp only [lowerTy, okE, Bool.and_eq_true] at hy
      have hm := module_conforms t.codec x hy.1
      rw [codec_wireClass] at hm
      simp only [EncE, recE, lowerTy, wtOf, payE]
      exact ⟨hm.1, hm.2⟩
    | enum =>
      simp only [lowerTy, okE, Bool.and_eq_true] at hy
      have hm := module_conforms .int32 x hy.1
      simp only [EncE, recE, lowerTy, wtOf, payE]
      exact ⟨rfl, hm.2⟩
    | msg i => simp [lowerTy, okE] at hy
  | msg fs =>
    cases pty with
    | scalar t => simp [lowerTy, okE] at hy
    | enum => simp [lowerTy, okE] at hy
    | msg i =>
      simp only [lowerTy, okE, Bool.and_eq_true, decide_eq_true_eq] at hy
      have hdw := decls_wf _ hs i
      simp only [EncE, recE, lowerTy, wtOf, payE]
      refine ⟨by first | rfl | trivial, recsSlots (lowerSchema ps) flag (decls (lowerSchema ps) i) fs, ?_, ?_, ?_⟩
      · rw [flat_recsSlots _ flag hs _ fs hy.1, lenDelim_eq, ← lenSlots_eq _ flag hs _ hdw.1 fs hy.1]
      · rw [flat_recsSlots _ flag hs _ fs hy.1, ← lenSlots_eq _ flag hs _ hdw.1 fs hy.1]; exact hy.2
      · have := isSpecSlots ps flag hs (pdecls ps i) fs (by rw [← decls_lower]; exact hdw.1) (by rw [← decls_lower]; exact hdw.2)
          (by rw [← decls_lower]; exact hy.1)
        rw [← decls_lower] at this
        exact this
termination_by structural v
theorem isSpecSlot (ps : PSchema) (flag : Bool) (hs : WFSchema (lowerSchema ps) = true) (pd : PDecl) (v : Slot)
    (hd : (lowerDecl pd).wfIn (lowerSchema ps).length = true) (hy : okSlot (lowerSchema ps) flag (lowerDecl pd) v = true) :
    EncSlot ps pd v (recsSlot (lowerSchema ps) flag (lowerDecl pd) v) := by
  cases v with
  | req x =>
    cases pd with
    | single t ty opt =>
      cases opt with
      | false =>
        simp only [lowerDecl, okSlot] at hy
        simp only [lowerDecl, recsSlot]
        rw [EncSlot]
        exact Or.inl ⟨_, rfl, rfl, isSpecE ps flag hs ty x t hy⟩
      | true => simp [lowerDecl, okSlot] at hy
    | _ => simp [lowerDecl, okSlot] at hy
  | none =>
    cases pd with
    | single t ty opt =>
      cases opt with
      | true => simp [EncSlot, lowerDecl, recsSlot]
      | false => simp [lowerDecl, okSlot] at hy
    | oneof vs => simp [EncSlot, lowerDecl, recsSlot]
    | _ => simp [lowerDecl, okSlot] at hy
  | some x =>
    cases pd with
    | single t ty opt =>
      cases opt with
      | true =>
        simp only [lowerDecl, okSlot] at hy
        simp only [lowerDecl, recsSlot]
        rw [EncSlot]
        exact ⟨_, rfl, rfl, isSpecE ps flag hs ty x t hy⟩
      | false => simp [lowerDecl, okSlot] at hy
    | _ => simp [lowerDecl, okSlot] at hy
  | rep xs =>
    cases pd with
    | rep t ty =>
      simp only [lowerDecl, okSlot] at hy
      simp only [EncSlot, lowerDecl, recsSlot]
      by_cases hp : packable ty = true
      · simp only [hp, if_true]
        obtain ⟨c, hl, hc, hw⟩ := packable_lower ty hp
        rw [hl] at hy ⊢
        obtain ⟨vs, h1, h2⟩ := svalsOf_ok _ flag c xs hy
        exact ⟨vs, h1, encPacked_unpacked _ flag t ty c hl hc hw xs vs h1 h2⟩
      · simp only [hp, if_false]
        exact isSpecRep ps flag hs t ty xs hy
    | single t ty opt => cases opt <;> simp [lowerDecl, okSlot] at hy
    | _ => simp [lowerDecl, okSlot] at hy
  | map kvs =>
    cases pd with
    | map t k vty =>
      simp only [lowerDecl, okSlot, Bool.and_eq_true] at hy
      simp only [lowerDecl, FieldDecl.wfIn, Bool.and_eq_true] at hd
      simp only [EncSlot, lowerDecl, recsSlot]
      exact isSpecMap ps flag hs t k hd.1.2 vty kvs hy.1
    | single t ty opt => cases opt <;> simp [lowerDecl, okSlot] at hy
    | _ => simp [lowerDecl, okSlot] at hy
  | one t x =>
    cases pd with
    | oneof vs =>
      simp only [lowerDecl, okSlot, lookup_lower] at hy
      simp only [EncSlot, lowerDecl, recsSlot, lookup_lower]
      cases hl : lookupP vs t with
      | none => simp [hl] at hy
      | some pty =>
        simp only [hl, Option.map_some] at hy ⊢
        exact ⟨pty, _, rfl, rfl, rfl, isSpecE ps flag hs pty x t hy⟩
    | single t ty opt => cases opt <;> simp [lowerDecl, okSlot] at hy
    | _ => simp [lowerDecl, okSlot] at hy
termination_by structural v
theorem isSpecSlots (ps : PSchema) (flag : Bool) (hs : WFSchema (lowerSchema ps) = true) (pds : List PDecl) (fs : Slots)
    (hwf : (pds.map lowerDecl).all (FieldDecl.wfIn (lowerSchema ps).length) = true)
    (hnd : nodup (allTags (pds.map lowerDecl)) = true)
    (hy : okSlots (lowerSchema ps) flag (pds.map lowerDecl) fs = true) :
    EncSlots ps pds fs (recsSlots (lowerSchema ps) flag (pds.map lowerDecl) fs) := by
  cases fs with
  | nil =>
    cases pds with
    | nil => simp [EncSlots, recsSlots]
    | cons d ds => simp [okSlots] at hy
  | cons v rest =>
    cases pds with
    | nil => simp [okSlots] at hy
    | cons d ds =>
      simp only [List.map_cons, okSlots, Bool.and_eq_true] at hy
      simp only [List.map_cons, List.all_cons, Bool.and_eq_true] at hwf
      simp only [List.map_cons] at hnd
      have hf := filter_slot (lowerSchema ps) flag (lowerDecl d) (ds.map lowerDecl) v rest hnd
      simp only [lower_tags] at hf
      simp only [EncSlots, List.map_cons, hf.1, hf.2]
      refine ⟨isSpecSlot ps flag hs d v hwf.1 hy.1, isSpecSlots ps flag hs ds rest hwf.2 ?_ hy.2⟩
      rw [nodup_iff, allTags_cons, List.nodup_append] at hnd
      rw [nodup_iff]; exact hnd.2.1
termination_by structural fs
theorem isSpecRep (ps : PSchema) (flag : Bool) (hs : WFSchema (lowerSchema ps) = true) (t : Nat) (pty : PFTy) (xs : EVals)
    (hy : okEs (lowerSchema ps) flag (lowerTy pty) xs = true) :
    EncRep ps t pty xs (recsEs (lowerSchema ps) flag t (lowerTy pty) xs) := by
  cases xs with
  | nil => simp [EncRep, recsEs]
  | cons x r =>
    simp only [okEs, Bool.and_eq_true] at hy
    simp only [EncRep, recsEs]
    exact ⟨_, _, rfl, rfl, isSpecE ps flag hs pty x t hy.1, isSpecRep ps flag hs t pty r hy.2⟩
termination_by structural xs
theorem isSpecMap (ps : PSchema) (flag : Bool) (hs : WFSchema (lowerSchema ps) = true) (t : Nat) (k : PType)
    (hk : k.codec.isKey = true) (vty : PFTy) (kvs : Pairs)
    (hy : okPairs (lowerSchema ps) flag k.codec (lowerTy vty) kvs = true) :
    EncMap ps t k vty kvs (recsPairs (lowerSchema ps) flag t k.codec (lowerTy vty) kvs) := by
  cases kvs with
  | nil => simp [EncMap, recsPairs]
  | cons kk v r =>
    simp only [okPairs, Bool.and_eq_true] at hy
    obtain ⟨⟨⟨⟨⟨hkok, hkl⟩, hve⟩, hdef⟩, hlen⟩, hr⟩ := hy
    simp only [EncMap, recsPairs]
    refine ⟨_, _, rfl, rfl, rfl, ⟨entryRecs (lowerSchema ps) flag k.codec (lowerTy vty) kk v, rfl, ?_, ?_, ?_, ?_⟩,
      isSpecMap ps flag hs t k hk vty r hr⟩
    · rw [entry_len _ flag hs k.codec (lowerTy vty) kk v ((lenOk_iff kk).mp hkl) hve]
      simpa using hlen
    · intro x hx
      unfold entryRecs at hx
      simp only [List.mem_append] at hx
      rcases hx with hx | hx
      · split at hx
        · simp at hx
        · simp only [List.mem_singleton] at hx; subst hx; left; rfl
      · split at hx
        · simp at hx
        · simp only [List.mem_singleton] at hx; subst hx; right; rfl
    · unfold entryRecs
      have hm := module_conforms k.codec kk hkok
      rw [codec_wireClass] at hm
      by_cases hsk : (!flag && kk.isDefault) = true
      · right
        simp only [hsk, if_true, List.nil_append]
        refine ⟨?_, ?_⟩
        · cases hsv : (!flag && v.isDefault) <;> simp [recE]
        · simp only [Bool.and_eq_true] at hsk
          exact key_exact k.codec kk hk hkok hsk.2
      · left
        simp only [hsk, if_false]
        refine ⟨⟨1, k.codec.wt, k.codec.encPayload kk⟩, ?_, hm.1, hm.2⟩
        cases hsv : (!flag && v.isDefault) <;> simp [recE]
    · unfold entryRecs
      by_cases hsv : (!flag && v.isDefault) = true
      · right
        simp only [hsv, if_true, List.append_nil]
        refine ⟨?_, ?_⟩
        · cases hsk : (!flag && kk.isDefault) <;> simp
        · simp only [Bool.and_eq_true, Bool.not_eq_true'] at hsv
          simp only [Bool.or_eq_true, Bool.not_eq_true', decide_eq_true_eq, hsv.1, hsv.2] at hdef
          simp at hdef
          exact zeroOf_default _ flag vty v hve hdef
      · left
        simp only [hsv, if_false]
        refine ⟨recE (lowerSchema ps) flag 2 (lowerTy vty) v, ?_, isSpecE ps flag hs vty v 2 hve⟩
        cases hsk : (!flag && kk.isDefault) <;> simp [recE]
termination_by structural kvs
end

/-- **what pilota's emitted encoder writes is a conforming encoding of the value.** -/
theorem encode_is_spec (ps : PSchema) (flag : Bool) (hs : WFSchema (lowerSchema ps) = true) (i : Nat) (m : Slots)
    (hm : okSlots (lowerSchema ps) flag (decls (lowerSchema ps) i) m = true) :
    Spec.Enc ps i m (encode (lowerSchema ps) flag i m) := by
  have hdw := decls_wf _ hs i
  refine ⟨recsSlots (lowerSchema ps) flag (decls (lowerSchema ps) i) m, ?_, ?_⟩
  · unfold encode; rw [flat_recsSlots _ flag hs _ m hm]
  · have := isSpecSlots ps flag hs (pdecls ps i) m (by rw [← decls_lower]; exact hdw.1) (by rw [← decls_lower]; exact hdw.2)
      (by rw [← decls_lower]; exact hm)
    rw [← decls_lower] at this
    exact this

end Pilota.Proto
