import PilotaModel.TGen.Async
import PilotaModel.Lemmas.AsyncSkipSim
/-
  Emitted `decode_async` (binary / LE async protocol) returns what the emitted in-memory `decode` returns and stops
  where it stops, whenever the latter succeeds — on arbitrary bytes, for every document and type.
-/
namespace Pilota.TGen
open Pilota Pilota.Thrift Pilota.Thrift.Async Pilota.Thrift.Async.ABin

variable (e : Endian) (d : Doc) (sf : Nat)

abbrev sR (e : Endian) : Rd Bytes := binRd e (some skipDepth)

theorem mapOut_ok {α β} (g : α → β) (o : Out α) (b : β) (h : mapOut g o = .ok b) : ∃ a, o = .ok a ∧ g a = b := by
  cases o <;> simp [mapOut] at h; exact ⟨_, rfl, h⟩

theorem leafI (w : Nat) (c : Int → TVal) (bs : Bytes) (v : TVal) (r : Bytes)
    (h : mapOut (fun x : Int × Bytes => (c x.1, x.2)) (Binary.readI e w bs) = .ok (v, r)) :
    runF ((readI e w).bind fun n => Prog.ret (c n)) bs = .ok (v, r) := by
  obtain ⟨⟨n, r'⟩, h1, h2⟩ := mapOut_ok _ _ _ h
  simp only [Prod.mk.injEq] at h2
  obtain ⟨rfl, rfl⟩ := h2
  simp [runF_bind, runF_readI, h1, bindP]

theorem skip_of_binRd (t : TType) (bs r : Bytes) (hb : bs.length < 2 ^ 63) (hsf : 3 * bs.length + 3 ≤ sf)
    (h : (sR e).skip t bs = .ok r) : runF (skip e sf skipDepth t) bs = .ok ((), r) := by
  have hq : (sR e).skip t bs = mapOut (·.2) (Skip.skip e (skipDepth : Int) t bs) := rfl
  rw [hq] at h
  obtain ⟨⟨k, r'⟩, h1, h2⟩ := mapOut_ok _ _ _ h
  simp only at h2; subst h2
  exact (askip_sim e _).1 sf skipDepth t bs k _ hsf hb h1

theorem adec_sim : ∀ f : Nat,
    (∀ ty bs v r, bs.length < 2 ^ 63 → 3 * bs.length + 3 ≤ sf → decTy (sR e) d f ty bs = .ok (v, r) →
      runF (adecTy e d sf f ty) bs = .ok (v, r)) ∧
    (∀ el n acc bs xs r, bs.length < 2 ^ 63 → 3 * bs.length + 3 ≤ sf → decN (sR e) d f el n acc bs = .ok (xs, r) →
      runF (adecN e d sf f el n acc) bs = .ok (xs, r)) ∧
    (∀ k v n acc bs xs r, bs.length < 2 ^ 63 → 3 * bs.length + 3 ≤ sf → decPairs (sR e) d f k v n acc bs = .ok (xs, r) →
      runF (adecPairs e d sf f k v n acc) bs = .ok (xs, r)) ∧
    (∀ fs slots bs out r, bs.length < 2 ^ 63 → 3 * bs.length + 3 ≤ sf → decFields (sR e) d f fs slots bs = .ok (out, r) →
      runF (adecFields e d sf f fs slots) bs = .ok (out, r)) ∧
    (∀ vs ret bs out r, bs.length < 2 ^ 63 → 3 * bs.length + 3 ≤ sf → decUnion (sR e) d f vs ret bs = .ok (out, r) →
      runF (adecUnion e d sf f vs ret) bs = .ok (out, r)) := by
  intro f
  induction f with
  | zero =>
    refine ⟨?_, ?_, ?_, ?_, ?_⟩ <;> intros <;> simp_all [decTy, decN, decPairs, decFields, decUnion]
  | succ f ih =>
    obtain ⟨ihT, ihN, ihP, ihF, ihU⟩ := ih
    refine ⟨?_, ?_, ?_, ?_, ?_⟩
    · intro ty bs v r hb hsf h
      cases ty with
      | bool =>
        simp only [decTy] at h
        have hq : (sR e).readBool bs = mapOut (fun x => (x.1 != 0, x.2)) (Binary.readI e 1 bs) := rfl
        rw [hq] at h
        simp only [adecTy]
        obtain ⟨⟨b, r'⟩, h1, h2⟩ := mapOut_ok _ _ _ h
        obtain ⟨⟨n, r''⟩, h3, h4⟩ := mapOut_ok _ _ _ h1
        simp only [Prod.mk.injEq] at h2 h4
        obtain ⟨rfl, rfl⟩ := h2
        obtain ⟨rfl, rfl⟩ := h4
        simp [runF_bind, runF_readI, h3, bindP]
      | i8 =>
        simp only [decTy] at h
        have hq : (sR e).readI8 bs = Binary.readI e 1 bs := rfl
        rw [hq] at h
        simp only [adecTy]; exact leafI e 1 _ bs v r h
      | i16 =>
        simp only [decTy] at h
        have hq : (sR e).readI16 bs = Binary.readI e 2 bs := rfl
        rw [hq] at h
        simp only [adecTy]; exact leafI e 2 _ bs v r h
      | i32 =>
        simp only [decTy] at h
        have hq : (sR e).readI32 bs = Binary.readI e 4 bs := rfl
        rw [hq] at h
        simp only [adecTy]; exact leafI e 4 _ bs v r h
      | i64 =>
        simp only [decTy] at h
        have hq : (sR e).readI64 bs = Binary.readI e 8 bs := rfl
        rw [hq] at h
        simp only [adecTy]; exact leafI e 8 _ bs v r h
      | double =>
        simp only [decTy] at h
        have hq : (sR e).readDouble bs = Binary.readU e 8 bs := rfl
        rw [hq] at h
        simp only [adecTy]
        obtain ⟨⟨n, r'⟩, h1, h2⟩ := mapOut_ok _ _ _ h
        simp only [Prod.mk.injEq] at h2
        obtain ⟨rfl, rfl⟩ := h2
        simp [runF_bind, runF_readU, h1, bindP]
      | string =>
        simp only [decTy] at h
        have hq : (sR e).readBytes bs = Binary.readBytes e bs := rfl
        rw [hq] at h
        simp only [adecTy]
        obtain ⟨⟨b, r'⟩, h1, h2⟩ := mapOut_ok _ _ _ h
        simp only [Prod.mk.injEq] at h2
        obtain ⟨rfl, rfl⟩ := h2
        simp [runF_bind, (readBytes_iff e bs hb _).mpr h1, bindP]
      | binary =>
        simp only [decTy] at h
        have hq : (sR e).readBytes bs = Binary.readBytes e bs := rfl
        rw [hq] at h
        simp only [adecTy]
        obtain ⟨⟨b, r'⟩, h1, h2⟩ := mapOut_ok _ _ _ h
        simp only [Prod.mk.injEq] at h2
        obtain ⟨rfl, rfl⟩ := h2
        simp [runF_bind, (readBytes_iff e bs hb _).mpr h1, bindP]
      | uuid =>
        simp only [decTy] at h
        have hq : (sR e).readUuid bs = Binary.takeN 16 bs := rfl
        rw [hq] at h
        simp only [adecTy]
        obtain ⟨⟨b, r'⟩, h1, h2⟩ := mapOut_ok _ _ _ h
        simp only [Prod.mk.injEq] at h2
        obtain ⟨rfl, rfl⟩ := h2
        simp [runF, h1]
      | void => simp [decTy] at h
      | list el =>
        simp only [decTy] at h
        have hq : (sR e).listBegin bs = Binary.readListBegin e bs := rfl
        rw [hq] at h
        simp only [adecTy]
        cases hx : Binary.readListBegin e bs with
        | ok p =>
          obtain ⟨⟨et, n⟩, r0⟩ := p
          rw [hx] at h
          simp only at h
          have ha := readListBegin_of_sync e bs _ hx
          have hle := runF_le _ bs _ r0 ha
          cases hy : decN (sR e) d f el n [] r0 with
          | ok q =>
            obtain ⟨xs, r1⟩ := q
            rw [hy] at h
            simp only [Out.ok.injEq, Prod.mk.injEq] at h
            obtain ⟨rfl, rfl⟩ := h
            rw [runF_bind, ha]
            simp only [bindP]
            rw [runF_bind, ihN el n [] r0 xs r1 (by omega) (by omega) hy]
            rfl
          | err x => rw [hy] at h; cases h
          | panic m => rw [hy] at h; cases h
          | fuel => rw [hy] at h; cases h
        | err x => rw [hx] at h; cases h
        | panic m => rw [hx] at h; cases h
        | fuel => rw [hx] at h; cases h
      | set el =>
        simp only [decTy] at h
        have hq : (sR e).listBegin bs = Binary.readListBegin e bs := rfl
        rw [hq] at h
        simp only [adecTy]
        cases hx : Binary.readListBegin e bs with
        | ok p =>
          obtain ⟨⟨et, n⟩, r0⟩ := p
          rw [hx] at h
          simp only at h
          have ha := readListBegin_of_sync e bs _ hx
          have hle := runF_le _ bs _ r0 ha
          cases hy : decN (sR e) d f el n [] r0 with
          | ok q =>
            obtain ⟨xs, r1⟩ := q
            rw [hy] at h
            simp only [Out.ok.injEq, Prod.mk.injEq] at h
            obtain ⟨rfl, rfl⟩ := h
            rw [runF_bind, ha]
            simp only [bindP]
            rw [runF_bind, ihN el n [] r0 xs r1 (by omega) (by omega) hy]
            rfl
          | err x => rw [hy] at h; cases h
          | panic m => rw [hy] at h; cases h
          | fuel => rw [hy] at h; cases h
        | err x => rw [hx] at h; cases h
        | panic m => rw [hx] at h; cases h
        | fuel => rw [hx] at h; cases h
      | map k v' =>
        simp only [decTy] at h
        have hq : (sR e).mapBegin bs = Binary.readMapBegin e bs := rfl
        rw [hq] at h
        simp only [adecTy]
        cases hx : Binary.readMapBegin e bs with
        | ok p =>
          obtain ⟨⟨kt, vt, n⟩, r0⟩ := p
          rw [hx] at h
          simp only at h
          have ha := readMapBegin_of_sync e bs _ hx
          have hle := runF_le _ bs _ r0 ha
          cases hy : decPairs (sR e) d f k v' n [] r0 with
          | ok q =>
            obtain ⟨xs, r1⟩ := q
            rw [hy] at h
            simp only [Out.ok.injEq, Prod.mk.injEq] at h
            obtain ⟨rfl, rfl⟩ := h
            rw [runF_bind, ha]
            simp only [bindP]
            rw [runF_bind, ihP k v' n [] r0 xs r1 (by omega) (by omega) hy]
            rfl
          | err x => rw [hy] at h; cases h
          | panic m => rw [hy] at h; cases h
          | fuel => rw [hy] at h; cases h
        | err x => rw [hx] at h; cases h
        | panic m => rw [hx] at h; cases h
        | fuel => rw [hx] at h; cases h
      | ref n =>
        simp only [decTy] at h
        simp only [adecTy]
        cases hfind : d.find n with
        | none => simp [hfind] at h
        | some df =>
          cases df with
          | struct fs =>
            simp only [hfind] at h ⊢
            have hsb : (sR e).structBegin bs = bs := rfl
            rw [hsb] at h
            cases hy : decFields (sR e) d f fs [] bs with
            | ok q =>
              obtain ⟨slots, r1⟩ := q
              rw [hy] at h
              simp only at h
              have hse : (sR e).structEnd r1 = .ok r1 := rfl
              rw [hse] at h
              simp only at h
              rw [runF_bind, ihF fs [] bs slots r1 hb hsf hy]
              simp only [bindP]
              cases hfin : finish fs slots with
              | ok out => rw [hfin] at h; simp only [Out.ok.injEq, Prod.mk.injEq] at h; obtain ⟨rfl, rfl⟩ := h; rfl
              | err x => rw [hfin] at h; cases h
              | panic m => rw [hfin] at h; cases h
              | fuel => rw [hfin] at h; cases h
            | err x => rw [hy] at h; cases h
            | panic m => rw [hy] at h; cases h
            | fuel => rw [hy] at h; cases h
          | union vs =>
            simp only [hfind] at h ⊢
            have hsb : (sR e).structBegin bs = bs := rfl
            rw [hsb] at h
            cases hy : decUnion (sR e) d f vs none bs with
            | ok q =>
              obtain ⟨ret, r1⟩ := q
              rw [hy] at h
              simp only at h
              have hse : (sR e).structEnd r1 = .ok r1 := rfl
              rw [hse] at h
              simp only at h
              rw [runF_bind, ihU vs none bs ret r1 hb hsf hy]
              simp only [bindP]
              cases ret with
              | some p => obtain ⟨id, pv⟩ := p; simp only [Out.ok.injEq, Prod.mk.injEq] at h; obtain ⟨rfl, rfl⟩ := h; rfl
              | none =>
                simp only at h ⊢
                split at h
                · simp only [Out.ok.injEq, Prod.mk.injEq] at h; obtain ⟨rfl, rfl⟩ := h; rfl
                · cases h
            | err x => rw [hy] at h; cases h
            | panic m => rw [hy] at h; cases h
            | fuel => rw [hy] at h; cases h
          | enum =>
            simp only [hfind] at h ⊢
            have hq : (sR e).readI32 bs = Binary.readI e 4 bs := rfl
            rw [hq] at h
            exact leafI e 4 _ bs v r h
          | typedef t =>
            simp only [hfind] at h ⊢
            exact ihT t bs v r hb hsf h
    · intro el n acc bs xs r hb hsf h
      cases n with
      | zero => simp only [decN] at h; simp only [Out.ok.injEq, Prod.mk.injEq] at h; obtain ⟨rfl, rfl⟩ := h; simp [adecN]
      | succ n =>
        simp only [decN] at h
        simp only [adecN]
        cases hy : decTy (sR e) d f el bs with
        | ok q =>
          obtain ⟨v, r1⟩ := q
          rw [hy] at h
          simp only at h
          have h1 := ihT el bs v r1 hb hsf hy
          have hle := runF_le _ bs _ r1 h1
          rw [runF_bind, h1]
          exact ihN el n _ r1 xs r (by omega) (by omega) h
        | err x => rw [hy] at h; cases h
        | panic m => rw [hy] at h; cases h
        | fuel => rw [hy] at h; cases h
    · intro k v n acc bs xs r hb hsf h
      cases n with
      | zero => simp only [decPairs] at h; simp only [Out.ok.injEq, Prod.mk.injEq] at h; obtain ⟨rfl, rfl⟩ := h; simp [adecPairs]
      | succ n =>
        simp only [decPairs] at h
        simp only [adecPairs]
        cases hy : decTy (sR e) d f k bs with
        | ok q =>
          obtain ⟨kv, r1⟩ := q
          rw [hy] at h
          simp only at h
          have h1 := ihT k bs kv r1 hb hsf hy
          have hle := runF_le _ bs _ r1 h1
          cases hz : decTy (sR e) d f v r1 with
          | ok q2 =>
            obtain ⟨vv, r2⟩ := q2
            rw [hz] at h
            simp only at h
            have h2 := ihT v r1 vv r2 (by omega) (by omega) hz
            have hle2 := runF_le _ r1 _ r2 h2
            rw [runF_bind, h1]
            simp only [bindP]
            rw [runF_bind, h2]
            exact ihP k v n _ r2 xs r (by omega) (by omega) h
          | err x => rw [hz] at h; cases h
          | panic m => rw [hz] at h; cases h
          | fuel => rw [hz] at h; cases h
        | err x => rw [hy] at h; cases h
        | panic m => rw [hy] at h; cases h
        | fuel => rw [hy] at h; cases h
    · intro fs slots bs out r hb hsf h
      simp only [decFields] at h
      simp only [adecFields, runF_bind, runF_readFieldBegin]
      have hfb : (sR e).fieldBegin bs = Binary.readFieldBegin e bs := rfl
      rw [hfb] at h
      cases hx : Binary.readFieldBegin e bs with
      | ok p =>
        obtain ⟨⟨t, id⟩, r0⟩ := p
        rw [hx] at h
        simp only at h
        have hle := fieldBegin_le e bs _ r0 hx
        simp only [bindP]
        by_cases hs : t = .stop
        · simp only [hs, if_true] at h ⊢; simp only [Out.ok.injEq, Prod.mk.injEq] at h; obtain ⟨rfl, rfl⟩ := h; rfl
        · simp only [hs, if_false] at h ⊢
          cases hfind : fs.find? (fun fl => fl.id == id && d.ttype fl.ty == t) with
          | some fl =>
            simp only [hfind] at h ⊢
            cases hy : decTy (sR e) d f fl.ty r0 with
            | ok q =>
              obtain ⟨v, r1⟩ := q
              rw [hy] at h
              simp only at h
              have h1 := ihT fl.ty r0 v r1 (by omega) (by omega) hy
              have hle1 := runF_le _ r0 _ r1 h1
              rw [runF_bind, h1]
              exact ihF fs _ r1 out r (by omega) (by omega) h
            | err x => rw [hy] at h; cases h
            | panic m => rw [hy] at h; cases h
            | fuel => rw [hy] at h; cases h
          | none =>
            simp only [hfind] at h ⊢
            cases hy : (sR e).skip t r0 with
            | ok r1 =>
              rw [hy] at h
              simp only at h
              have h1 := skip_of_binRd e sf t r0 r1 (by omega) (by omega) hy
              have hle1 := runF_le _ r0 _ r1 h1
              rw [runF_bind, h1]
              exact ihF fs slots r1 out r (by omega) (by omega) h
            | err x => rw [hy] at h; cases h
            | panic m => rw [hy] at h; cases h
            | fuel => rw [hy] at h; cases h
      | err x => rw [hx] at h; cases h
      | panic m => rw [hx] at h; cases h
      | fuel => rw [hx] at h; cases h
    · intro vs ret bs out r hb hsf h
      simp only [decUnion] at h
      simp only [adecUnion, runF_bind, runF_readFieldBegin]
      have hfb : (sR e).fieldBegin bs = Binary.readFieldBegin e bs := rfl
      rw [hfb] at h
      cases hx : Binary.readFieldBegin e bs with
      | ok p =>
        obtain ⟨⟨t, id⟩, r0⟩ := p
        rw [hx] at h
        simp only at h
        have hle := fieldBegin_le e bs _ r0 hx
        simp only [bindP]
        by_cases hs : t = .stop
        · simp only [hs, if_true] at h ⊢; simp only [Out.ok.injEq, Prod.mk.injEq] at h; obtain ⟨rfl, rfl⟩ := h; rfl
        · simp only [hs, if_false] at h ⊢
          cases hfind : vs.find? (fun x => x.1 == id && !(x.2 == .void)) with
          | some pr =>
            obtain ⟨pid, ty⟩ := pr
            simp only [hfind] at h ⊢
            by_cases hret : ret.isSome = true
            · simp [hret] at h
            · simp only [hret, if_false] at h ⊢
              cases hy : decTy (sR e) d f ty r0 with
              | ok q =>
                obtain ⟨v, r1⟩ := q
                rw [hy] at h
                simp only at h
                have h1 := ihT ty r0 v r1 (by omega) (by omega) hy
                have hle1 := runF_le _ r0 _ r1 h1
                simp only [Bool.false_eq_true, if_false]
                rw [runF_bind, h1]
                exact ihU vs _ r1 out r (by omega) (by omega) h
              | err x => rw [hy] at h; cases h
              | panic m => rw [hy] at h; cases h
              | fuel => rw [hy] at h; cases h
          | none =>
            simp only [hfind] at h ⊢
            cases hy : (sR e).skip t r0 with
            | ok r1 =>
              rw [hy] at h
              simp only at h
              have h1 := skip_of_binRd e sf t r0 r1 (by omega) (by omega) hy
              have hle1 := runF_le _ r0 _ r1 h1
              rw [runF_bind, h1]
              exact ihU vs ret r1 out r (by omega) (by omega) h
            | err x => rw [hy] at h; cases h
            | panic m => rw [hy] at h; cases h
            | fuel => rw [hy] at h; cases h
      | err x => rw [hx] at h; cases h
      | panic m => rw [hx] at h; cases h
      | fuel => rw [hx] at h; cases h

end Pilota.TGen
