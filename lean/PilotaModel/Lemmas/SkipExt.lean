import PilotaModel.Lemmas.SkipRead
/-  A successful skip does not depend on the bytes after those it consumed, nor on spare fuel. -/
namespace Pilota.Thrift.Skip
open Pilota Pilota.Thrift

theorem advance_ext {w p k r} (q : Bytes) (h : advance w p = .ok (k, r)) : advance w (p ++ q) = .ok (k, r ++ q) := by
  obtain ⟨rfl, h1, rfl⟩ := advance_ok h
  have : k ≤ p.length + q.length := by omega
  simp [advance, this, List.drop_append_of_le_length h1]

theorem skipBinary_ext {e p k r} (q : Bytes) (h : skipBinary e p = .ok (k, r)) : skipBinary e (p ++ q) = .ok (k, r ++ q) := by
  unfold skipBinary at h ⊢
  cases h1 : Binary.readI e 4 p with
  | ok x =>
    obtain ⟨len, r0⟩ := x
    simp only [h1] at h
    simp only [Binary.readI_ext q h1]
    by_cases hl : Binary.asUsize len ≤ r0.length
    · simp [hl] at h
      have : Binary.asUsize len ≤ r0.length + q.length := by omega
      simp [this, List.drop_append_of_le_length hl, h]
    · simp [hl] at h
  | err k => simp [h1] at h
  | panic m => simp [h1] at h
  | fuel => simp [h1] at h

grind_pattern advance_ext => advance w (p ++ q), advance w p, Out.ok (k, r)
grind_pattern skipBinary_ext => skipBinary e (p ++ q), skipBinary e p, Out.ok (k, r)

theorem skipVal_ext (e : Endian) (q : Bytes) : ∀ f,
    (∀ d t p k r f', f ≤ f' → skipVal e f d t p = .ok (k, r) → skipVal e f' d t (p ++ q) = .ok (k, r ++ q)) ∧
    (∀ d p k r f', f ≤ f' → skipFields e f d p = .ok (k, r) → skipFields e f' d (p ++ q) = .ok (k, r ++ q)) ∧
    (∀ d et n p k r f', f ≤ f' → skipN e f d et n p = .ok (k, r) → skipN e f' d et n (p ++ q) = .ok (k, r ++ q)) ∧
    (∀ d kt vt n p k r f', f ≤ f' → skipPairs e f d kt vt n p = .ok (k, r) → skipPairs e f' d kt vt n (p ++ q) = .ok (k, r ++ q)) := by
  intro f
  induction f with
  | zero => simp [skipVal, skipFields, skipN, skipPairs]
  | succ f ih =>
    obtain ⟨ih1, ih2, ih3, ih4⟩ := ih
    refine ⟨?_, ?_, ?_, ?_⟩
    · intro d t p k r f' hf h
      obtain ⟨g, rfl⟩ : ∃ g, f' = g + 1 := ⟨f' - 1, by omega⟩
      cases t <;> simp only [skipVal] at h ⊢ <;> osplit_at h <;> first | (simp_all; done) | grind
    · intro d p k r f' hf h
      obtain ⟨g, rfl⟩ : ∃ g, f' = g + 1 := ⟨f' - 1, by omega⟩
      simp only [skipFields] at h ⊢; osplit_at h <;> first | (simp_all; done) | grind
    · intro d et n p k r f' hf h
      obtain ⟨g, rfl⟩ : ∃ g, f' = g + 1 := ⟨f' - 1, by omega⟩
      cases n <;> simp only [skipN] at h ⊢ <;> osplit_at h <;> first | (simp_all; done) | grind
    · intro d kt vt n p k r f' hf h
      obtain ⟨g, rfl⟩ : ∃ g, f' = g + 1 := ⟨f' - 1, by omega⟩
      cases n <;> simp only [skipPairs] at h ⊢ <;> osplit_at h <;> first | (simp_all; done) | grind

/-! generic read-and-discard skippers -/

structure Prims.Ext {σ : Type} (P : Prims σ) : Prop where
  leaf : ∀ t s p s' r q, P.leaf t s p = .ok (s', r) → P.leaf t s (p ++ q) = .ok (s', r ++ q)
  fb : ∀ s p x s' r q, P.fieldBegin s p = .ok (x, s', r) → P.fieldBegin s (p ++ q) = .ok (x, s', r ++ q)
  lb : ∀ p x r q, P.listBegin p = .ok (x, r) → P.listBegin (p ++ q) = .ok (x, r ++ q)
  mb : ∀ p x r q, P.mapBegin p = .ok (x, r) → P.mapBegin (p ++ q) = .ok (x, r ++ q)

theorem rdSkip_ext {σ : Type} (P : Prims σ) (hP : P.Ext) (q : Bytes) : ∀ f,
    (∀ d t s p s' r f', f ≤ f' → rdSkip P f d t s p = .ok (s', r) → rdSkip P f' d t s (p ++ q) = .ok (s', r ++ q)) ∧
    (∀ d s p s' r f', f ≤ f' → rdFields P f d s p = .ok (s', r) → rdFields P f' d s (p ++ q) = .ok (s', r ++ q)) ∧
    (∀ d et n s p s' r f', f ≤ f' → rdN P f d et n s p = .ok (s', r) → rdN P f' d et n s (p ++ q) = .ok (s', r ++ q)) ∧
    (∀ d kt vt n s p s' r f', f ≤ f' → rdPairs P f d kt vt n s p = .ok (s', r) → rdPairs P f' d kt vt n s (p ++ q) = .ok (s', r ++ q)) := by
  obtain ⟨hleaf, hfb, hlb, hmb⟩ := hP
  intro f
  induction f with
  | zero => simp [rdSkip, rdFields, rdN, rdPairs]
  | succ f ih =>
    obtain ⟨ih1, ih2, ih3, ih4⟩ := ih
    refine ⟨?_, ?_, ?_, ?_⟩
    · intro d t s p s' r f' hf h
      obtain ⟨g, rfl⟩ : ∃ g, f' = g + 1 := ⟨f' - 1, by omega⟩
      cases t <;> simp only [rdSkip] at h ⊢ <;> osplit_at h <;> grind
    · intro d s p s' r f' hf h
      obtain ⟨g, rfl⟩ : ∃ g, f' = g + 1 := ⟨f' - 1, by omega⟩
      simp only [rdFields] at h ⊢; osplit_at h <;> grind
    · intro d et n s p s' r f' hf h
      obtain ⟨g, rfl⟩ : ∃ g, f' = g + 1 := ⟨f' - 1, by omega⟩
      cases n <;> simp only [rdN] at h ⊢ <;> osplit_at h <;> grind
    · intro d kt vt n s p s' r f' hf h
      obtain ⟨g, rfl⟩ : ∃ g, f' = g + 1 := ⟨f' - 1, by omega⟩
      cases n <;> simp only [rdPairs] at h ⊢ <;> osplit_at h <;> grind

theorem dropS_ext {α} {s : Compact.CR} {x y : Out (α × Bytes)} {s' r} (q : Bytes)
    (hxy : ∀ a r, x = .ok (a, r) → y = .ok (a, r ++ q)) (h : dropS s x = .ok (s', r)) : dropS s y = .ok (s', r ++ q) := by
  obtain ⟨rfl, a, ha⟩ := dropS_ok h
  simp [dropS, hxy a r ha]

theorem compactLeaf_ext (t s p s' r q) (h : compactLeaf t s p = .ok (s', r)) : compactLeaf t s (p ++ q) = .ok (s', r ++ q) := by
  cases t <;> simp only [compactLeaf] at h ⊢
  case bool => osplit_at h; grind
  all_goals first
    | (simp at h; done)
    | exact dropS_ext q (fun a r ha => by first
        | exact Binary.readI_ext q ha | exact Binary.readU_ext q ha | exact Binary.takeN_ext q ha
        | exact readVarS_ext q ha | exact Compact.readBytes_ext q ha) h

theorem compactPrims_ext : compactPrims.Ext where
  leaf := compactLeaf_ext
  fb := fun _ _ _ _ _ q h => Compact.readFieldBegin_ext q h
  lb := fun _ _ _ q h => Compact.readCollBegin_ext q h
  mb := fun _ _ _ q h => Compact.readMapBegin_ext q h

end Pilota.Thrift.Skip
