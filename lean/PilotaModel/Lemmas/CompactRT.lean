import PilotaModel.Lemmas.Varint
import PilotaModel.Lemmas.BinaryRT
import PilotaModel.Thrift.Compact
namespace Pilota.Thrift.Compact
open Pilota Pilota.Thrift

theorem compactOf_value (t : TType) (h : t.isValue = true) :
    ∃ ct, compactOf t = some ct ∧ 1 ≤ ct ∧ ct ≤ 13 ∧ ttypeOfCompact ct = some t ∧ (t ≠ .bool → ct ≠ 1 ∧ ct ≠ 2) := by
  cases t <;> simp [TType.isValue] at h <;> simp [compactOf, ttypeOfCompact]

theorem readByte_cons (n : Nat) (h : n < 256) (r : Bytes) : readByte (UInt8.ofNat n :: r) = .ok (n, r) := by
  simp [readByte, Binary.readByte, u8_toNat_ofNat_lt n h]

/-- reading back a field header written against the same `last`. -/
theorem readFieldBegin_hdr (s : CR) (ct : Nat) (t : TType) (hct : 1 ≤ ct ∧ ct ≤ 13)
    (ht : ttypeOfCompact ct = some t) (id : Int) (hid : inS 2 id) (r : Bytes) :
    readFieldBegin s (fieldHeader s.last ct id ++ r) =
      .ok ((t, id), { s with last := id, pendingBool := if ct = 1 then some true else if ct = 2 then some false else s.pendingBool }, r) := by
  have hcases : ct = 1 ∨ ct = 2 ∨ ct = 3 ∨ ct = 4 ∨ ct = 5 ∨ ct = 6 ∨ ct = 7 ∨ ct = 8 ∨ ct = 9 ∨ ct = 10 ∨ ct = 11 ∨ ct = 12 ∨ ct = 13 := by omega
  unfold fieldHeader
  by_cases hd : 0 < id - s.last ∧ id - s.last < 15
  · simp only [hd, and_self, if_true, List.cons_append, List.nil_append]
    obtain ⟨d, hdd⟩ : ∃ d : Nat, id - s.last = d := ⟨(id - s.last).toNat, by omega⟩
    have hd1 : 0 < d ∧ d < 15 := by omega
    have hidv : id = s.last + d := by omega
    have hle : s.last + (d : Int) ≤ 32767 := by
      have := hid.2
      have e : (256 ^ 2 / 2 : Nat) = 32768 := by decide
      rw [e] at this; omega
    rw [hdd]
    simp only [Int.toNat_natCast]
    unfold readFieldBegin
    rw [readByte_cons (d * 16 + ct) (by omega)]
    have h1 : (d * 16 + ct) / 16 = d := by omega
    have h2 : (d * 16 + ct) % 16 = ct := by omega
    simp only [h1, h2]
    have hdne : d ≠ 0 := by omega
    rcases hcases with rfl | rfl | rfl | rfl | rfl | rfl | rfl | rfl | rfl | rfl | rfl | rfl | rfl <;>
      simp [ttypeOfCompact] at ht <;> subst ht <;> simp [ttypeOfCompact, hdne, hle, hidv]
  · simp only [hd, if_false, List.cons_append]
    unfold readFieldBegin
    rw [readByte_cons ct (by omega)]
    have h1 : ct / 16 = 0 := by omega
    have h2 : ct % 16 = ct := by omega
    simp only [h1, h2]
    rcases hcases with rfl | rfl | rfl | rfl | rfl | rfl | rfl | rfl | rfl | rfl | rfl | rfl | rfl <;>
      simp [ttypeOfCompact] at ht <;> subst ht <;>
      simp [ttypeOfCompact, readVarS_zigzag 2 (Or.inl rfl) id hid]

theorem readFieldBegin_stop (s : CR) (r : Bytes) : readFieldBegin s ((0 : UInt8) :: r) = .ok ((.stop, 0), s, r) := by
  simp [readFieldBegin, readByte, Binary.readByte, ttypeOfCompact]

theorem readCollBegin_hdr (t : TType) (ht : t.isValue = true) (n : Nat) (hn : n < 2 ^ 31) (r : Bytes) (hr : n ≤ r.length) :
    readCollBegin (collHeader ((compactOf t).getD 0) n ++ r) = .ok ((t, n), r) := by
  obtain ⟨ct, h1, h2, h3, h4, _⟩ := compactOf_value t ht
  simp only [h1, Option.getD_some]
  unfold collHeader
  by_cases hs : n ≤ 14
  · simp only [hs, if_true, List.cons_append, List.nil_append]
    unfold readCollBegin
    rw [readByte_cons (n * 16 + ct) (by omega)]
    have e1 : (n * 16 + ct) / 16 = n := by omega
    have e2 : (n * 16 + ct) % 16 = ct := by omega
    have e3 : n ≠ 15 := by omega
    simp [e1, e2, h4, e3, Binary.checkSize_ok n r hr]
  · simp only [hs, if_false, List.cons_append]
    unfold readCollBegin
    rw [readByte_cons (0xF0 + ct) (by omega)]
    have e1 : (0xF0 + ct) / 16 = 15 := by omega
    have e2 : (0xF0 + ct) % 16 = ct := by omega
    have e31 : (2:Nat)^31 = 2147483648 := by decide
    have e32 : (2:Nat)^32 = 4294967296 := by decide
    have hm : n % 2 ^ 32 = n := by rw [e32]; rw [e31] at hn; omega
    simp only [e1, e2, h4, hm]
    simp only [readVarU4_encVar n (by rw [e32]; rw [e31] at hn; omega), Binary.toS4_eq n hn, Binary.checkSize_ok n r hr]
    simp

end Pilota.Thrift.Compact

namespace Pilota.Thrift.Compact
open Pilota Pilota.Thrift

theorem readMapBegin_hdr (kt vt : TType) (hk : kt.isValue = true) (hv : vt.isValue = true) (n : Nat) (hn0 : n ≠ 0)
    (hn : n < 2 ^ 31) (r : Bytes) (hr : n ≤ r.length) :
    readMapBegin (encVar (n % 2 ^ 32) ++ (UInt8.ofNat ((compactOf kt).getD 0 * 16 + (compactOf vt).getD 0) :: r))
      = .ok ((kt, vt, n), r) := by
  obtain ⟨ck, k1, k2, k3, k4, _⟩ := compactOf_value kt hk
  obtain ⟨cv, v1, v2, v3, v4, _⟩ := compactOf_value vt hv
  have e31 : (2:Nat)^31 = 2147483648 := by decide
  have e32 : (2:Nat)^32 = 4294967296 := by decide
  have hm : n % 2 ^ 32 = n := by rw [e32]; rw [e31] at hn; omega
  simp only [k1, v1, Option.getD_some, hm]
  unfold readMapBegin
  rw [readVarU4_encVar n (by rw [e32]; rw [e31] at hn; omega)]
  simp only [Binary.toS4_eq n hn]
  have hr' : n ≤ (UInt8.ofNat (ck * 16 + cv) :: r).length := by simp; omega
  simp only [Binary.checkSize_ok n _ hr', hn0, if_false]
  rw [readByte_cons (ck * 16 + cv) (by omega)]
  have e1 : (ck * 16 + cv) / 16 = ck := by omega
  have e2 : (ck * 16 + cv) % 16 = cv := by omega
  simp [e1, e2, k4, v4]

theorem readMapBegin_empty (r : Bytes) : readMapBegin ((0 : UInt8) :: r) = .ok ((.stop, .stop, 0), r) := by
  have : readVarU 4 ((0 : UInt8) :: r) = .ok (0, r) := by
    have := readVarU4_encVar 0 (by decide) r
    rw [encVar] at this
    simpa using this
  simp [readMapBegin, this, toS, Binary.checkSize]

/-- the id the reader's `last` holds after the fields of a struct. -/
def lastOf (last : Int) : TFields → Int
  | .nil => last
  | .cons id _ r => lastOf id r

theorem readBytes_enc (bs r : Bytes) (h : bs.length < 2 ^ 31) :
    readBytes (encVar (bs.length % 2 ^ 32) ++ (bs ++ r)) = .ok (bs, r) := by
  have e31 : (2:Nat)^31 = 2147483648 := by decide
  have e32 : (2:Nat)^32 = 4294967296 := by decide
  have hm : bs.length % 2 ^ 32 = bs.length := by rw [e32]; rw [e31] at h; omega
  rw [hm]
  simp [readBytes, readVarU4_encVar bs.length (by rw [e32]; rw [e31] at h; omega), Binary.splitTo]

mutual
theorem readVal_enc (v : TVal) (hw : v.wt = true) (f : Nat) (hf : v.size ≤ f) (s : CR) (hs : s.pendingBool = none) (r : Bytes) :
    readVal f v.ttype s (enc v ++ r) = .ok (norm v, s, r) := by
  cases f with
  | zero => cases v <;> simp [TVal.size] at hf
  | succ f =>
    cases v with
    | bool b => cases b <;> simp [enc, TVal.ttype, readVal, readBool, hs, boolByte, readByte, Binary.readByte, norm]
    | i8 n => simp [TVal.wt] at hw; simp [enc, TVal.ttype, readVal, Binary.readI_i .be 1 (by decide) n hw, norm]
    | i16 n => simp [TVal.wt] at hw; simp [enc, TVal.ttype, readVal, readVarS_zigzag 2 (Or.inl rfl) n hw, norm]
    | i32 n => simp [TVal.wt] at hw; simp [enc, TVal.ttype, readVal, readVarS_zigzag 4 (Or.inr (Or.inl rfl)) n hw, norm]
    | i64 n => simp [TVal.wt] at hw; simp [enc, TVal.ttype, readVal, readVarS_zigzag 8 (Or.inr (Or.inr rfl)) n hw, norm]
    | dbl b =>
      simp [TVal.wt] at hw
      have : b % 256 ^ 8 = b := Nat.mod_eq_of_lt (by have : (256:Nat)^8 = 2^64 := by decide
                                                     omega)
      simp [enc, TVal.ttype, readVal, Binary.readU_enc, this, norm]
    | bin bs =>
      simp [TVal.wt] at hw
      simp [enc, TVal.ttype, readVal, readBytes_enc bs r hw, List.append_assoc, norm]
    | uuid bs =>
      simp [TVal.wt] at hw
      simp [enc, TVal.ttype, readVal, Binary.takeN_append' 16 bs r hw, norm]
    | struct fs =>
      simp [TVal.wt] at hw; simp [TVal.size] at hf
      simp only [enc, TVal.ttype, readVal, norm]
      have h := readFields_enc fs hw f hf (readStructBegin s) (by simp [readStructBegin, hs]) r
      simp only [readStructBegin] at h ⊢
      rw [h]
      cases s; simp [readStructEnd]
    | list et xs =>
      simp [TVal.wt] at hw; simp [TVal.size] at hf
      obtain ⟨⟨he, hl⟩, hx⟩ := hw
      simp only [enc, TVal.ttype, readVal, List.append_assoc, norm]
      rw [readCollBegin_hdr et he _ hl _ (by have := vals_length_le xs et hx; simp only [List.length_append]; omega)]
      simp [readN_enc et xs hx f hf s hs r]
    | set et xs =>
      simp [TVal.wt] at hw; simp [TVal.size] at hf
      obtain ⟨⟨he, hl⟩, hx⟩ := hw
      simp only [enc, TVal.ttype, readVal, List.append_assoc, norm]
      rw [readCollBegin_hdr et he _ hl _ (by have := vals_length_le xs et hx; simp only [List.length_append]; omega)]
      simp [readN_enc et xs hx f hf s hs r]
    | map kt vt kvs =>
      simp [TVal.wt] at hw; simp [TVal.size] at hf
      obtain ⟨⟨⟨hk, hv⟩, hl⟩, hx⟩ := hw
      cases kvs with
      | nil =>
        simp only [enc, TVal.ttype, readVal, TPairs.length, if_true, List.cons_append, List.nil_append, norm]
        rw [readMapBegin_empty]
        cases f <;> simp [readPairs, TPairs.size] at hf ⊢
      | cons k0 v0 rest =>
        have hne : (TPairs.cons k0 v0 rest).length ≠ 0 := by simp [TPairs.length]
        simp only [enc, TVal.ttype, readVal, hne, if_false, List.append_assoc, List.cons_append, norm]
        rw [readMapBegin_hdr kt vt hk hv _ hne hl _ (by have := pairs_length_le (TPairs.cons k0 v0 rest) kt vt hx; simp only [List.length_append]; omega)]
        simp [readPairs_enc kt vt _ hx f hf s hs r]
theorem readFields_enc (fs : TFields) (hw : fs.wt = true) (f : Nat) (hf : fs.size ≤ f) (s : CR) (hs : s.pendingBool = none) (r : Bytes) :
    readFields f s (encFields s.last fs ++ r) = .ok (normFields fs, { s with last := lastOf s.last fs }, r) := by
  cases f with
  | zero => cases fs <;> simp [TFields.size] at hf
  | succ f =>
    cases fs with
    | nil =>
      simp only [encFields, List.cons_append, List.nil_append, readFields, readFieldBegin_stop, normFields, lastOf]
      simp
    | cons id v rest =>
      simp [TFields.wt] at hw; simp [TFields.size] at hf
      obtain ⟨⟨hid, hv⟩, hr⟩ := hw
      by_cases hb : ∃ b, v = .bool b
      · obtain ⟨b, rfl⟩ := hb
        simp only [encFields, List.append_assoc, readFields]
        have hct : ttypeOfCompact (boolByte b) = some .bool := by cases b <;> rfl
        rw [readFieldBegin_hdr s (boolByte b) .bool (by cases b <;> decide) hct id hid]
        simp only [show (TType.bool = TType.stop) = False by simp, if_false]
        cases f with
        | zero => simp [TVal.size] at hf
        | succ f =>
          have hpb : (if boolByte b = 1 then some true else if boolByte b = 2 then some false else s.pendingBool) = some b := by
            cases b <;> simp [boolByte]
          simp only [readVal, readBool, hpb]
          have := readFields_enc rest hr (f+1) (by simp [TVal.size] at hf; omega)
            { s with last := id, pendingBool := none } rfl r
          simp only at this
          rw [this]
          simp [normFields, norm, lastOf, hs]
      · have hnb : v.ttype ≠ .bool := by
          intro h; apply hb; cases v <;> simp [TVal.ttype] at h; exact ⟨_, rfl⟩
        obtain ⟨ct, c1, c2, c3, c4, c5⟩ := compactOf_value v.ttype (Binary.val_ttype_isValue v)
        obtain ⟨n1, n2⟩ := c5 hnb
        have henc : encFields s.last (.cons id v rest) = fieldHeader s.last ct id ++ (enc v ++ encFields id rest) := by
          cases v <;> first | (exfalso; exact hb ⟨_, rfl⟩) | simp [encFields, c1] <;> (simp [TVal.ttype] at c1; simp [c1])
        rw [henc]
        simp only [List.append_assoc, readFields]
        rw [readFieldBegin_hdr s ct v.ttype ⟨c2, c3⟩ c4 id hid]
        have hns : v.ttype ≠ .stop := Binary.ttype_isValue_ne_stop _ (Binary.val_ttype_isValue v)
        simp only [hns, if_false, n1, n2]
        rw [readVal_enc v hv f (by omega) _ (by simpa using hs)]
        dsimp only
        have := readFields_enc rest hr f (by omega) { s with last := id } (by simpa using hs) r
        simp only at this
        rw [this]
        simp [normFields, lastOf]
theorem readN_enc (et : TType) (xs : TVals) (hw : xs.wt et = true) (f : Nat) (hf : xs.size ≤ f) (s : CR) (hs : s.pendingBool = none) (r : Bytes) :
    readN f et xs.length s (encVals xs ++ r) = .ok (normVals xs, s, r) := by
  cases f with
  | zero => cases xs <;> simp [TVals.size] at hf
  | succ f =>
    cases xs with
    | nil => simp [encVals, readN, TVals.length, normVals]
    | cons v vs =>
      simp [TVals.wt] at hw; simp [TVals.size] at hf
      obtain ⟨⟨ht, hv⟩, hr⟩ := hw
      simp only [encVals, TVals.length, readN, List.append_assoc, normVals]
      rw [← ht, readVal_enc v hv f (by omega) s hs]; dsimp only
      rw [ht, readN_enc et vs hr f (by omega) s hs]
theorem readPairs_enc (kt vt : TType) (kvs : TPairs) (hw : kvs.wt kt vt = true) (f : Nat) (hf : kvs.size ≤ f) (s : CR) (hs : s.pendingBool = none) (r : Bytes) :
    readPairs f kt vt kvs.length s (encPairs kvs ++ r) = .ok (normPairs kvs, s, r) := by
  cases f with
  | zero => cases kvs <;> simp [TPairs.size] at hf
  | succ f =>
    cases kvs with
    | nil => simp [encPairs, readPairs, TPairs.length, normPairs]
    | cons k v rest =>
      simp [TPairs.wt] at hw; simp [TPairs.size] at hf
      obtain ⟨⟨⟨⟨hk, hv⟩, hkw⟩, hvw⟩, hr⟩ := hw
      simp only [encPairs, TPairs.length, readPairs, List.append_assoc, normPairs]
      rw [← hk, readVal_enc k hkw f (by omega) s hs]; dsimp only
      rw [← hv, readVal_enc v hvw f (by omega) s hs]; dsimp only
      rw [hk, hv, readPairs_enc kt vt rest hr f (by omega) s hs]
end

end Pilota.Thrift.Compact
