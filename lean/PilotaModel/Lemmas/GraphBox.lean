import PilotaModel.Build.Graph
/-  Facts about the boxing decision (Build/Graph.lean). -/
namespace Pilota.Build

theorem mem_directPaths (fs : List GTy) (p : Nat) : p ∈ directPaths fs ↔ ∃ i : Nat, fs[i]? = some (GTy.path p) := by
  simp only [directPaths, List.mem_filterMap]
  constructor
  · rintro ⟨t, ht, h⟩
    cases t with
    | path n => simp at h; subst h; exact List.mem_iff_getElem?.mp ht
    | other => simp at h
  · rintro ⟨i, hi⟩
    exact ⟨.path p, List.mem_iff_getElem?.mpr ⟨i, hi⟩, rfl⟩

/-- by-value edges are edges -/
theorem inlineSucc_sub (g : GDoc) (boxed : Nat → Nat → Bool) (a b : Nat) (h : b ∈ inlineSucc g boxed a) : b ∈ succ g a := by
  unfold inlineSucc at h
  unfold succ
  cases hg : g[a]? with
  | none => simp [hg] at h
  | some it =>
    simp only [hg] at h ⊢
    cases hk : it.kind with
    | message =>
      simp only [hk, List.mem_filterMap] at h
      obtain ⟨i, _, hi⟩ := h
      rw [mem_directPaths]
      cases hf : it.fields[i]? with
      | none => simp [hf] at hi
      | some t =>
        cases t with
        | other => simp [hf] at hi
        | path p =>
          simp only [hf] at hi
          split at hi
          · cases hi
          · cases hi; exact ⟨i, hf⟩
    | union => simpa [hk] using h
    | newtype => simpa [hk] using h

/-- an unboxed direct-path field of a message is a by-value edge -/
theorem mem_inlineSucc_message (g : GDoc) (boxed : Nat → Nat → Bool) (s i p : Nat) (it : GItem)
    (hg : g[s]? = some it) (hk : it.kind = .message) (hf : it.fields[i]? = some (GTy.path p)) (hb : boxed s i = false) :
    p ∈ inlineSucc g boxed s := by
  unfold inlineSucc
  simp only [hg, hk, List.mem_filterMap, List.mem_range]
  have hi : i < it.fields.length := by
    rcases Nat.lt_or_ge i it.fields.length with h | h
    · exact h
    · rw [List.getElem?_eq_none h] at hf; cases hf
  exact ⟨i, hi, by simp [hf, hb]⟩

/-- the by-value edges out of a message are its unboxed direct-path fields -/
theorem inlineSucc_message (g : GDoc) (boxed : Nat → Nat → Bool) (s p : Nat) (it : GItem)
    (hg : g[s]? = some it) (hk : it.kind = .message) (h : p ∈ inlineSucc g boxed s) :
    ∃ i, it.fields[i]? = some (GTy.path p) ∧ boxed s i = false := by
  unfold inlineSucc at h
  simp only [hg, hk, List.mem_filterMap] at h
  obtain ⟨i, _, hi⟩ := h
  cases hf : it.fields[i]? with
  | none => simp [hf] at hi
  | some t =>
    cases t with
    | other => simp [hf] at hi
    | path q =>
      simp only [hf] at hi
      split at hi
      · cases hi
      · cases hi; rename_i hb; exact ⟨i, hf, by simpa using hb⟩

/-- **Boxing breaks every cycle through a struct field**: with a decision that covers the plugin's rule, no struct is
reachable BY VALUE from the target of one of its own by-value fields. -/
theorem boxed_breaks_cycles (g : GDoc) (boxed : Nat → Nat → Bool) (hc : CoversRule g boxed) (s p : Nat) (it : GItem)
    (hg : g[s]? = some it) (hk : it.kind = .message) (hp : p ∈ inlineSucc g boxed s) : ¬ Reach (inlineSucc g boxed) p s := by
  intro hr
  obtain ⟨i, hf, hb⟩ := inlineSucc_message g boxed s p it hg hk hp
  have := hc s i it p hg hk hf (hr.mono (inlineSucc_sub g boxed))
  rw [hb] at this
  cases this

/-- walks that leave union / newtype items only -/
def unionSucc (g : GDoc) (a : Nat) : List Nat :=
  match g[a]? with
  | some it => if it.kind = .message then [] else directPaths it.fields
  | none => []

theorem inlineSucc_cases (g : GDoc) (boxed : Nat → Nat → Bool) (a b : Nat) (h : b ∈ inlineSucc g boxed a) :
    b ∈ unionSucc g a ∨ ∃ it, g[a]? = some it ∧ it.kind = .message := by
  unfold inlineSucc at h
  unfold unionSucc
  cases hg : g[a]? with
  | none => simp [hg] at h
  | some it =>
    simp only [hg] at h ⊢
    cases hk : it.kind with
    | message => exact .inr ⟨it, rfl, hk⟩
    | union => left; simpa [hk] using h
    | newtype => left; simpa [hk] using h

/-- a by-value walk either never leaves a struct, or passes through a struct's by-value field -/
theorem reach_split (g : GDoc) (boxed : Nat → Nat → Bool) {a b : Nat} (h : Reach (inlineSucc g boxed) a b) :
    Reach (unionSucc g) a b ∨
      ∃ s p it, g[s]? = some it ∧ it.kind = .message ∧ Reach (inlineSucc g boxed) a s ∧ p ∈ inlineSucc g boxed s ∧ Reach (inlineSucc g boxed) p b := by
  induction h with
  | refl a => exact .inl (.refl a)
  | @step a m c hm hr ih =>
    rcases inlineSucc_cases g boxed a m hm with hu | ⟨it, hg, hk⟩
    · rcases ih with ih | ⟨s, p, it, hg, hk, h1, h2, h3⟩
      · exact .inl (.step hu ih)
      · exact .inr ⟨s, p, it, hg, hk, .step hm h1, h2, h3⟩
    · exact .inr ⟨a, m, it, hg, hk, .refl a, hm, hr⟩

/-- **Finite size**: if no cycle of the type graph runs through unions and typedefs only (the shape of known finding
D32, which pilota-build does not box), then after boxing there is no by-value cycle at all: every emitted type has a
finite size (what rustc's E0072 demands). -/
theorem inline_acyclic (g : GDoc) (boxed : Nat → Nat → Bool) (hc : CoversRule g boxed)
    (hu : ∀ a b, b ∈ unionSucc g a → ¬ Reach (unionSucc g) b a) (a b : Nat) (hab : b ∈ inlineSucc g boxed a) :
    ¬ Reach (inlineSucc g boxed) b a := by
  intro hr
  rcases inlineSucc_cases g boxed a b hab with hua | ⟨it, hg, hk⟩
  · rcases reach_split g boxed hr with h | ⟨s, p, it, hg, hk, h1, h2, h3⟩
    · exact hu a b hua h
    · -- p →* a → b →* s
      exact boxed_breaks_cycles g boxed hc s p it hg hk h2 (h3.trans (.step hab h1))
  · exact boxed_breaks_cycles g boxed hc a b it hg hk hab hr

end Pilota.Build

namespace Pilota.Build

theorem mem_positions (g : GDoc) (s i : Nat) (it : GItem) (hg : g[s]? = some it) (hi : i < it.fields.length) : (s, i) ∈ positions g := by
  simp only [positions, List.mem_flatMap, List.mem_range]
  have hs : s < g.length := by
    rcases Nat.lt_or_ge s g.length with h | h
    · exact h
    · rw [List.getElem?_eq_none h] at hg; cases hg
  exact ⟨s, hs, by simp [hg, hi]⟩

/-- the executable decision is the plugin's rule (when every search reached its fixpoint) -/
theorem decision_iff (g : GDoc) (hs : saturated g = true) (s i p : Nat) (it : GItem)
    (hg : g[s]? = some it) (hk : it.kind = .message) (hf : it.fields[i]? = some (GTy.path p)) :
    decision g s i = true ↔ Reach (succ g) p s := by
  have hi : i < it.fields.length := by
    rcases Nat.lt_or_ge i it.fields.length with h | h
    · exact h
    · rw [List.getElem?_eq_none h] at hf; cases hf
  have hsat : (boxedB g s i).isSome = true := by
    simp only [saturated, List.all_eq_true] at hs
    exact hs (s, i) (mem_positions g s i it hg hi)
  have hb : boxedB g s i = isNested g p s := by simp [boxedB, hg, hk, hf]
  rw [hb] at hsat
  unfold decision
  rw [hb]
  unfold isNested at hsat ⊢
  cases hr : reachSet (succ g) (g.length + 1) p with
  | none => simp [hr] at hsat
  | some c =>
    have := reachSet_iff (succ g) _ p c hr s
    simp only [Option.map_some]
    rw [← this]
    simp

theorem decision_covers (g : GDoc) (hs : saturated g = true) : CoversRule g (decision g) := by
  intro s i it p hg hk hf hr
  exact (decision_iff g hs s i p it hg hk hf).mpr hr

end Pilota.Build
