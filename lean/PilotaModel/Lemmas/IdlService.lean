import PilotaModel.Lemmas.IdlEnum
/-
  C15: functions and services.
-/
namespace Pilota.Idl

/-! ### the first word of a rendered type -/

theorem wordArm_err' {β} {kw : List Char} {k : P β} {s r : List Char} (hk : ∀ c ∈ kw, isIdentChar c = true)
    (hs : ∀ c ∈ s, isIdentChar c = true) (hr : hdP (fun c => !isIdentChar c) r = true) (hne : s ≠ kw)
    (hfail : ∀ c x, isIdentChar c = true → k (c :: x) = .err) :
    andThen (tag kw) (fun _ => k) (s ++ r) = .err := by
  rcases tag_word (kw := kw) (i := s) hk hr with h | ⟨m, e, h⟩
  · exact andThen_of_err h
  · rw [andThen_of_ok h]
    cases m with
    | nil => simp at e; exact absurd e hne
    | cons c m => exact hfail c _ (hs c (by simp [e]))

/-- a rendered type begins with a word: a base type name, `list` / `set` / `map`, or the first
segment of its name -/
theorem rType_firstWord {t : TypeA} (hw : t.wf = true) (l : Layout) (x : List Char)
    (hx : t.endsOpen = true → hdP (fun c => !isIdentChar c) x = true) :
    ∃ w rest, (rType t l).1 ++ x = w ++ rest ∧ (∀ c ∈ w, isIdentChar c = true) ∧
      hdP (fun c => !isIdentChar c) rest = true ∧ (w ∈ typeWords ∨ t.headIs w = true) ∧ w ≠ [] := by
  obtain ⟨ty, as⟩ := t
  simp only [TypeA.wf, Bool.and_eq_true] at hw
  simp only [rType, rSeq_fst, List.append_assoc]
  have hafter : ty.endsOpen = true → hdP (fun c => !isIdentChar c) ((rOptAnns as (rTy ty l).2).1 ++ x) = true := by
    intro ho
    by_cases has : as = []
    · subst has
      simp only [rOptAnns, List.isEmpty_nil, if_true, rLit_fst, List.nil_append]
      exact hx (by simp [TypeA.endsOpen, ho])
    · have he : as.isEmpty = false := by cases as; exact absurd rfl has; rfl
      simp only [rOptAnns, rAnns, he, Bool.false_eq_true, if_false, rSeq_fst, rLit_fst, List.append_assoc]
      exact ((rB0_BT _).sep_append (Or.inr (by show isSepChar '(' = true; decide))).noIdent
  cases ty with
  | path p =>
    simp only [Ty.wf, Bool.and_eq_true] at hw
    obtain ⟨s, rest, hs, hhead, e, hrest⟩ := rPath_cons hw.1.1 l
    refine ⟨s, rest ++ ((rOptAnns as (rTy (.path p) l).2).1 ++ x), ?_, identOk_all hs, hrest _ (hafter rfl), Or.inr ?_, ident_ne_nil hs⟩
    · simp only [rTy]; rw [e, List.append_assoc]
    · simp [TypeA.headIs, hhead]
  | list v c =>
    simp only [rTy, rSeq_fst, rSeq_snd, rLit_fst, rLit_snd, List.append_assoc]
    refine ⟨cs!"list", _, rfl, by decide, ?_, Or.inl (by decide), by simp⟩
    · exact ((rB0_BT _).sep_append (Or.inr (by show isSepChar '<' = true; decide))).noIdent
  | set v c =>
    simp only [rTy, rSeq_fst, rSeq_snd, rLit_fst, rLit_snd, List.append_assoc]
    refine ⟨cs!"set", _, rfl, by decide, ?_, Or.inl (by decide), by simp⟩
    · cases c with
      | none =>
        simp only [rCppOpt, rLit_fst, rLit_snd, List.nil_append]
        exact ((rB0_BT _).sep_append (Or.inr (by show isSepChar '<' = true; decide))).noIdent
      | some lit =>
        simp only [rCppOpt, rSeq_fst, rLit_fst, List.append_assoc]
        exact ((rB1_BT _).sep_append (Or.inl (rB1_ne _))).noIdent
  | map k v c =>
    simp only [rTy, rSeq_fst, rSeq_snd, rLit_fst, rLit_snd, List.append_assoc]
    refine ⟨cs!"map", _, rfl, by decide, ?_, Or.inl (by decide), by simp⟩
    · cases c with
      | none =>
        simp only [rCppOpt, rLit_fst, rLit_snd, List.nil_append]
        exact ((rB0_BT _).sep_append (Or.inr (by show isSepChar '<' = true; decide))).noIdent
      | some lit =>
        simp only [rCppOpt, rSeq_fst, rLit_fst, List.append_assoc]
        exact ((rB1_BT _).sep_append (Or.inl (rB1_ne _))).noIdent
  | string => simp only [rTy, rLit_fst]; exact ⟨cs!"string", _, rfl, by decide, hafter rfl, Or.inl (by decide), by simp⟩
  | void => simp only [rTy, rLit_fst]; exact ⟨cs!"void", _, rfl, by decide, hafter rfl, Or.inl (by decide), by simp⟩
  | byte => simp only [rTy, rLit_fst]; exact ⟨cs!"byte", _, rfl, by decide, hafter rfl, Or.inl (by decide), by simp⟩
  | bool => simp only [rTy, rLit_fst]; exact ⟨cs!"bool", _, rfl, by decide, hafter rfl, Or.inl (by decide), by simp⟩
  | binary => simp only [rTy, rLit_fst]; exact ⟨cs!"binary", _, rfl, by decide, hafter rfl, Or.inl (by decide), by simp⟩
  | i8 => simp only [rTy, rLit_fst]; exact ⟨cs!"i8", _, rfl, by decide, hafter rfl, Or.inl (by decide), by simp⟩
  | i16 => simp only [rTy, rLit_fst]; exact ⟨cs!"i16", _, rfl, by decide, hafter rfl, Or.inl (by decide), by simp⟩
  | i32 => simp only [rTy, rLit_fst]; exact ⟨cs!"i32", _, rfl, by decide, hafter rfl, Or.inl (by decide), by simp⟩
  | i64 => simp only [rTy, rLit_fst]; exact ⟨cs!"i64", _, rfl, by decide, hafter rfl, Or.inl (by decide), by simp⟩
  | double => simp only [rTy, rLit_fst]; exact ⟨cs!"double", _, rfl, by decide, hafter rfl, Or.inl (by decide), by simp⟩
  | uuid => simp only [rTy, rLit_fst]; exact ⟨cs!"uuid", _, rfl, by decide, hafter rfl, Or.inl (by decide), by simp⟩

/-- a keyword that is neither a type word nor the head of the type's name is not read at the
start of a rendered type, provided its continuation fails on a word character -/
theorem kwArm_type_err {β} {kw : List Char} {k : P β} {t : TypeA} (hw : t.wf = true) (l : Layout) (x : List Char)
    (hx : t.endsOpen = true → hdP (fun c => !isIdentChar c) x = true)
    (hk : ∀ c ∈ kw, isIdentChar c = true) (h1 : kw ∉ typeWords) (h2 : t.headIs kw = false)
    (hfail : ∀ c y, isIdentChar c = true → k (c :: y) = .err) :
    andThen (tag kw) (fun _ => k) ((rType t l).1 ++ x) = .err := by
  obtain ⟨w, rest, e, hw', hrest, hor, _⟩ := rType_firstWord hw l x hx
  rw [e]
  apply wordArm_err' hk hw' hrest ?_ hfail
  intro heq; subst heq
  rcases hor with h | h
  · exact h1 h
  · rw [h] at h2; cases h2

/-! ### non-empty field lists (`many1`), argument lists -/

theorem fields_many1 {d : Nat} (argMode : Bool) {close : Char} (hc : close = '}' ∨ close = ')') (a : Field) (as : List Field)
    (hall : ∀ f ∈ a :: as, FieldOk d argMode f) (l : Layout) {bl : List Char} (hbl : BT bl) (R' : List Char) :
    ∃ ys bl', All2 (FieldRel argMode) (a :: as) ys ∧ BT bl' ∧
      many1 (skip (opt blank) (Field.parse d)) (bl ++ ((rSlots (rField argMode) (a :: as) l).1 ++ close :: R')) =
        .ok ys (bl' ++ close :: R') := by
  have ha := hall a (by simp)
  rw [rSlots_cons, List.append_assoc]
  have hR1 : FieldFollow ((rSlots (rField argMode) as (rField argMode a as.isEmpty l).2).1 ++ close :: R') ∧
      (as.isEmpty = true → Sep ((rSlots (rField argMode) as (rField argMode a as.isEmpty l).2).1 ++ close :: R')) := by
    cases as with
    | nil => exact ⟨(fieldFollow_close hc R').1, fun _ => (fieldFollow_close hc R').2⟩
    | cons b bs =>
      refine ⟨?_, fun h => by simp at h⟩
      rw [rSlots_cons, List.append_assoc]
      exact fieldFollow_of_digit (rField_start argMode b _ _ _).1
  have h1 := field_step ha.1 ha.2.1 ha.2.2.1 argMode as.isEmpty l (fun hn => ha.2.2.2 (attrOpt_none hn)) hbl hR1.1 hR1.2
  obtain ⟨ys, bl', hys, hbl', hm⟩ := fields_loop argMode hc as (fun f hf => hall f (by simp [hf]))
    (rField argMode a as.isEmpty l).2 BT.nil R' _ (Nat.lt_succ_self _)
  refine ⟨fieldRead argMode a l :: ys, bl', All2.cons (fieldRead_rel argMode a l) hys, hbl', ?_⟩
  simp only [List.nil_append] at hm
  unfold many1
  rw [h1]
  simp only [PR.bind, hm, PR.map]

theorem fieldsOpt_rt {d : Nat} (argMode : Bool) (fs : List Field) (hall : ∀ f ∈ fs, FieldOk d argMode f) (l : Layout)
    {bl : List Char} (hbl : BT bl) (R' : List Char) :
    ∃ yo bl', All2 (FieldRel argMode) fs (yo.getD []) ∧ BT bl' ∧
      opt (many1 (skip (opt blank) (Field.parse d))) (bl ++ ((rSlots (rField argMode) fs l).1 ++ ')' :: R')) =
        .ok yo (bl' ++ ')' :: R') := by
  cases fs with
  | nil =>
    refine ⟨none, bl, All2.nil, hbl, ?_⟩
    rw [rSlots_nil, List.nil_append]
    apply opt_of_err
    unfold many1
    rw [field_close_err d (Or.inr rfl) hbl]; rfl
  | cons a as =>
    obtain ⟨ys, bl', hys, hbl', hm⟩ := fields_many1 argMode (Or.inr rfl) a as hall l hbl R'
    exact ⟨some ys, bl', hys, hbl', opt_of_ok hm⟩

theorem argRequired_of_rel : ∀ {xs ys : List Field}, All2 (FieldRel true) xs ys → (∀ x ∈ xs, x.attr ≠ .default) →
    ys.map argRequired = xs
  | _, _, .nil, _ => rfl
  | x :: xs, y :: ys, .cons h t, hne => by
    have hx := hne x (by simp)
    have ih := argRequired_of_rel t (fun z hz => hne z (by simp [hz]))
    simp only [List.map_cons, ih]
    congr 1
    rcases h with h | ⟨_, hreq, h⟩
    · subst h
      obtain ⟨id, name, attr, ty, dflt, anns⟩ := y
      cases attr <;> simp [argRequired] at hx ⊢
    · subst h
      obtain ⟨id, name, attr, ty, dflt, anns⟩ := x
      simp only at hreq
      subst hreq
      rfl

/-! ### functions -/

/-- the `throws` clause of function.rs:29-39 -/
def throwsP (d : Nat) : P (List Field) :=
  andThen (tag cs!"throws") fun _ => andThen (opt blank) fun _ => andThen (tag ['(']) fun _ =>
  andThen (many1 (skip (opt blank) (Field.parse d))) fun fields => andThen (opt blank) fun _ =>
  andThen (tag [')']) fun _ => ret fields

def Function.depth (f : Function) : Nat :=
  max f.resultType.depth (max ((f.arguments.map Field.depth).foldl max 0) ((f.throws.map Field.depth).foldl max 0))
def Function.supported (f : Function) : Bool := f.arguments.all Field.supported && f.throws.all Field.supported

/-- what a function needs of the text after its tail: the next function or the closing brace -/
def FnFollow (d : Nat) (R : List Char) : Prop :=
  NB R ∧ NoSepStart R ∧ hdP (fun c => c != '(') R = true ∧ throwsP d R = .err

theorem throwsP_err_hd (d : Nat) {R : List Char} (h : hdP (fun c => c != 't') R = true) : throwsP d R = .err :=
  andThen_of_err (tag_hd h)

theorem fnFollow_close (d : Nat) (R : List Char) : FnFollow d ('}' :: R) :=
  ⟨by rw [NB, hdP_cons]; decide, by rw [NoSepStart, hdP_cons]; decide, by rw [hdP_cons]; decide,
   throwsP_err_hd d (by rw [hdP_cons]; decide)⟩

theorem throws_cont_fail (d : Nat) {c : Char} {y : List Char} (hc : isIdentChar c = true) :
    (andThen (opt blank) fun _ => andThen (tag ['(']) fun _ =>
      andThen (many1 (skip (opt blank) (Field.parse d))) fun fields => andThen (opt blank) fun _ =>
      andThen (tag [')']) fun _ => ret fields) (c :: y) = .err := by
  have hnb : NB (c :: y) := identChar_NB hc
  rw [andThen_of_ok (opt_of_err (blank_err hnb))]
  exact andThen_of_err (tag_cons_ne (identChar_ne hc (by decide)))

/-- the tail of a function after its `)`, without a `throws` clause -/
theorem fnTail_nothrows {α} (d : Nat) (K : Option (List Field) → Option Annotations → P α) {as : Annotations}
    (hw : Annotations.wf as = true) (last : Bool) (l : Layout) {R : List Char} (hR : FnFollow d R) :
    ∃ g ann, BT g ∧ ann.getD [] = as ∧ g.length ≤ (rDefTail as false last (rOptAnns as l).2).1.length ∧
      (andThen (opt blank) fun _ => andThen (opt (throwsP d)) fun throws => andThen (opt blank) fun _ =>
        andThen (opt Annotations.parse) fun anns => andThen (opt listSeparator) fun _ => K throws anns)
        ((rOptAnns as l).1 ++ ((rDefTail as false last (rOptAnns as l).2).1 ++ R)) = K none ann (g ++ R) := by
  obtain ⟨g, ann, hg, hann, hlen, htail⟩ := defTail_rt2 (K none) hw false last l hR.1 hR.2.1 hR.2.2.1
  refine ⟨g, ann, hg, hann, hlen, ?_⟩
  -- split the text into its leading blank and the rest, on which `throws` fails
  have hsplit : ∃ B T0, (rOptAnns as l).1 ++ ((rDefTail as false last (rOptAnns as l).2).1 ++ R) = B ++ T0 ∧ BT B ∧ NB T0 ∧
      throwsP d T0 = .err := by
    by_cases has : as = []
    · subst has
      simp only [rOptAnns, rDefTail, List.isEmpty_nil, if_true, rLit_fst, rLit_snd, List.nil_append, rTail, rWith_fst]
      rcases sepChar_cases (l.pop.1.sep) with h | h | h
      · simp only [h, if_true]; exact ⟨_, R, rfl, rGap_BT _ _, hR.1, hR.2.2.2⟩
      · simp only [h, List.cons_ne_nil, if_false, rSeq_fst, rLit_fst, List.append_assoc, List.cons_append, List.nil_append]
        exact ⟨_, _, rfl, rB0_BT _, sepChar_BT_false (Or.inl rfl) _, throwsP_err_hd d (by rw [hdP_cons]; decide)⟩
      · simp only [h, List.cons_ne_nil, if_false, rSeq_fst, rLit_fst, List.append_assoc, List.cons_append, List.nil_append]
        exact ⟨_, _, rfl, rB0_BT _, sepChar_BT_false (Or.inr rfl) _, throwsP_err_hd d (by rw [hdP_cons]; decide)⟩
    · have he : as.isEmpty = false := by cases as; exact absurd rfl has; rfl
      simp only [rOptAnns, rAnns, he, Bool.false_eq_true, if_false, rSeq_fst, rLit_fst, List.append_assoc, List.cons_append,
        List.nil_append]
      exact ⟨_, _, rfl, rB0_BT _, by rw [NB, hdP_cons]; decide, throwsP_err_hd d (by rw [hdP_cons]; decide)⟩
  obtain ⟨B, T0, hT, hB, hT0, hthr⟩ := hsplit
  rw [hT, optFail_collapse hB hT0 hthr, ← hT, htail]

/-- the tail of a function after its `)`, with a `throws` clause -/
theorem fnTail_throws {α} (d : Nat) (K : Option (List Field) → Option Annotations → P α) (t : Field) (ts : List Field)
    (hall : ∀ f ∈ t :: ts, FieldOk d false f) {as : Annotations}
    (hw : Annotations.wf as = true) (last : Bool) (l : Layout) {R : List Char} (hR : FnFollow d R) :
    ∃ g ann, BT g ∧ ann.getD [] = as ∧
      g.length ≤ (rDefTail as false last (rOptAnns as (rSlots (rField false) (t :: ts) (rB0 (rB0 (rB0 l).2).2).2).2).2).1.length ∧
      (andThen (opt blank) fun _ => andThen (opt (throwsP d)) fun throws => andThen (opt blank) fun _ =>
        andThen (opt Annotations.parse) fun anns => andThen (opt listSeparator) fun _ => K throws anns)
        ((rB0 l).1 ++ (cs!"throws" ++ ((rB0 (rB0 l).2).1 ++ (['('] ++ ((rB0 (rB0 (rB0 l).2).2).1 ++
          ((rSlots (rField false) (t :: ts) (rB0 (rB0 (rB0 l).2).2).2).1 ++ ([')'] ++
            ((rOptAnns as (rSlots (rField false) (t :: ts) (rB0 (rB0 (rB0 l).2).2).2).2).1 ++
              ((rDefTail as false last (rOptAnns as (rSlots (rField false) (t :: ts) (rB0 (rB0 (rB0 l).2).2).2).2).2).1 ++ R)))))))))
        = K (some (t :: ts)) ann (g ++ R) := by
  obtain ⟨g, ann, hg, hann, hlen, htail⟩ := defTail_rt2 (K (some (t :: ts))) hw false last
    (rSlots (rField false) (t :: ts) (rB0 (rB0 (rB0 l).2).2).2).2 hR.1 hR.2.1 hR.2.2.1
  refine ⟨g, ann, hg, hann, hlen, ?_⟩
  obtain ⟨ys, bl', hys, hbl', hm⟩ := fields_many1 false (Or.inr rfl) t ts hall (rB0 (rB0 (rB0 l).2).2).2
    (rB0_BT (rB0 (rB0 l).2).2)
    ((rOptAnns as (rSlots (rField false) (t :: ts) (rB0 (rB0 (rB0 l).2).2).2).2).1 ++
      ((rDefTail as false last (rOptAnns as (rSlots (rField false) (t :: ts) (rB0 (rB0 (rB0 l).2).2).2).2).2).1 ++ R))
  have hys' := all2_fieldRel_false hys
  subst hys'
  have hthr : throwsP d (cs!"throws" ++ ((rB0 (rB0 l).2).1 ++ (['('] ++ ((rB0 (rB0 (rB0 l).2).2).1 ++
      ((rSlots (rField false) (t :: ts) (rB0 (rB0 (rB0 l).2).2).2).1 ++ ([')'] ++
        ((rOptAnns as (rSlots (rField false) (t :: ts) (rB0 (rB0 (rB0 l).2).2).2).2).1 ++
          ((rDefTail as false last (rOptAnns as (rSlots (rField false) (t :: ts) (rB0 (rB0 (rB0 l).2).2).2).2).2).1 ++ R)))))))) =
      .ok (t :: ts) ((rOptAnns as (rSlots (rField false) (t :: ts) (rB0 (rB0 (rB0 l).2).2).2).2).1 ++
          ((rDefTail as false last (rOptAnns as (rSlots (rField false) (t :: ts) (rB0 (rB0 (rB0 l).2).2).2).2).2).1 ++ R)) := by
    unfold throwsP
    rw [andThen_of_ok (tag_append _ _), andThen_optBlank (rB0_BT _) (by rw [NB]; rfl), andThen_of_ok (tag_append _ _),
      List.singleton_append, andThen_of_ok hm, andThen_optBlank hbl' (by rw [NB, hdP_cons]; decide), andThen_of_ok (tag1 ')' _)]
    rfl
  rw [andThen_optBlank (rB0_BT _) (by rw [NB]; rfl), andThen_of_ok (opt_of_ok hthr), htail]

/-- `oneway` is not read in front of a result type that is not spelled `oneway` -/
theorem oneway_none {t : TypeA} (hw : t.wf = true) (h : t.headIs cs!"oneway" = false) (l : Layout) (x : List Char)
    (hx : t.endsOpen = true → hdP (fun c => !isIdentChar c) x = true) :
    pmap (fun (o : Option Unit) => o.isSome) (opt (andThen (tag cs!"oneway") fun _ => blank)) ((rType t l).1 ++ x) =
      .ok false ((rType t l).1 ++ x) := by
  have : (andThen (tag cs!"oneway") fun _ => blank) ((rType t l).1 ++ x) = .err :=
    kwArm_type_err hw l x hx (by decide) (by decide) h
      (fun c y hc => blank_err (show NB (c :: y) from identChar_NB hc))
  exact pmap_of_ok (opt_of_err this)

/-- the core of a function: result type, name, argument list -/
theorem fnCore_rt {α} {d : Nat} (K : TypeA → Ident → Option (List Field) → P α) {rt : TypeA} {name : Ident}
    {args : List Field} (hrt : rt.wf = true) (hdrt : rt.depth < d) (hname : identOk name = true)
    (hcpp : nameAfterTypeOk rt name = true) (hargs : ∀ f ∈ args, FieldOk d true f) (l : Layout) (Y : List Char) :
    ∃ yo bl', All2 (FieldRel true) args (yo.getD []) ∧ BT bl' ∧
      (andThen (Type.parse d) fun ty => andThen blank fun _ => andThen Ident.parse fun name =>
        andThen (opt blank) fun _ => andThen (tag ['(']) fun _ =>
        andThen (opt (many1 (skip (opt blank) (Field.parse d)))) fun args => K ty name args)
        ((rType rt l).1 ++ ((rB1 (rType rt l).2).1 ++ (name ++ ((rB0 (rB1 (rType rt l).2).2).1 ++ (['('] ++
          ((rB0 (rB0 (rB1 (rType rt l).2).2).2).1 ++ ((rSlots (rField true) args (rB0 (rB0 (rB1 (rType rt l).2).2).2).2).1 ++
            (')' :: Y))))))))
        = K rt name yo (bl' ++ ')' :: Y) := by
  obtain ⟨yo, bl', hys, hbl', hm⟩ := fieldsOpt_rt true args hargs (rB0 (rB0 (rB1 (rType rt l).2).2).2).2
    (rB0_BT (rB0 (rB1 (rType rt l).2).2).2) Y
  refine ⟨yo, bl', hys, hbl', ?_⟩
  have hfn : ∀ x, hdP (fun c => !isIdentChar c) ((rB0 (rB1 (rType rt l).2).2).1 ++ (['('] ++ x)) = true :=
    fun x => ((rB0_BT _).sep_append (Or.inr (by rw [Sep]; rfl))).noIdent
  unfold Type.parse
  rw [andThen_of_ok (type_rt rt hrt d hdrt _ _ (typeFollow_name rt (rB1_BT _) (Or.inl (rB1_ne _)) hname hcpp (hfn _))),
    andThen_blank (rB1_BT _) (rB1_ne _) (ident_NB hname), andThen_of_ok (ident_rt hname (hfn _)),
    andThen_optBlank (rB0_BT _) (by rw [NB]; rfl), andThen_of_ok (tag_append _ _), andThen_of_ok hm]

/-- the optional `throws` clause as `rFunction` renders it -/
def rThrows (ts : List Field) : R :=
  if ts.isEmpty then rLit []
  else rB0 +> rLit cs!"throws" +> rB0 +> rLit ['('] +> rB0 +> rSlots (rField false) ts +> rLit [')']

/-- the tail of a function after its `)`: optional `throws`, annotations, separator -/
theorem fnTail_rt {α} (d : Nat) (K : Option (List Field) → Option Annotations → P α) (ts : List Field)
    (hall : ∀ f ∈ ts, FieldOk d false f) {as : Annotations}
    (hw : Annotations.wf as = true) (last : Bool) (l : Layout) {R : List Char} (hR : FnFollow d R) :
    ∃ g thr ann, BT g ∧ thr.getD [] = ts ∧ ann.getD [] = as ∧
      g.length ≤ (rDefTail as false last (rOptAnns as (rThrows ts l).2).2).1.length ∧
      (andThen (opt blank) fun _ => andThen (opt (throwsP d)) fun throws => andThen (opt blank) fun _ =>
        andThen (opt Annotations.parse) fun anns => andThen (opt listSeparator) fun _ => K throws anns)
        ((rThrows ts l).1 ++ ((rOptAnns as (rThrows ts l).2).1 ++
          ((rDefTail as false last (rOptAnns as (rThrows ts l).2).2).1 ++ R))) = K thr ann (g ++ R) := by
  cases ts with
  | nil =>
    obtain ⟨g, ann, hg, hann, hlen, h⟩ := fnTail_nothrows d K hw last l hR
    refine ⟨g, none, ann, hg, rfl, hann, ?_, ?_⟩
    · simpa [rThrows] using hlen
    · simpa [rThrows] using h
  | cons t ts =>
    obtain ⟨g, ann, hg, hann, hlen, h⟩ := fnTail_throws d K t ts hall hw last l hR
    refine ⟨g, some (t :: ts), ann, hg, rfl, hann, ?_, ?_⟩
    · simpa [rThrows] using hlen
    · simpa [rThrows] using h

def FnOk (d : Nat) (f : Function) : Prop := f.wf = true ∧ f.supported = true ∧ f.depth < d

theorem rFunction_throws (f : Function) (last : Bool) (l : Layout) :
    rFunction f last l = ((if f.oneway then rLit cs!"oneway" +> rB1 else rLit []) +>
      rType f.resultType +> rB1 +> rLit f.name +> rB0 +> rLit ['('] +> rB0 +>
      rSlots (rField true) f.arguments +> rLit [')'] +> rThrows f.throws +>
      rOptAnns f.annotations +> rDefTail f.annotations false last) l := rfl

theorem fnOk_fields {d : Nat} {f : Function} (h : FnOk d f) :
    (∀ a ∈ f.arguments, FieldOk d true a) ∧ (∀ t ∈ f.throws, FieldOk d false t) ∧
    (∀ a ∈ f.arguments, a.attr ≠ .default) := by
  obtain ⟨hw, hs, hd⟩ := h
  simp only [Function.wf, Bool.and_eq_true, List.all_eq_true, Bool.or_eq_true, bne_iff_ne, ne_eq, Bool.not_eq_true'] at hw
  simp only [Function.supported, Bool.and_eq_true, List.all_eq_true] at hs
  simp only [Function.depth] at hd
  refine ⟨?_, ?_, ?_⟩
  · intro a ha
    have := hw.1.1.2 a ha
    refine ⟨this.1.1, hs.1 a ha, ?_, ?_⟩
    · have := (foldl_max_le (f.arguments.map Field.depth) 0).2 _ (List.mem_map_of_mem ha); omega
    · intro h
      rcases h with h | ⟨_, h⟩
      · exact absurd h this.1.2
      · rcases this.2 with h' | h'
        · exact absurd h h'
        · exact h'
  · intro t ht
    exact fieldOk_of_wf (hw.1.2 t ht) (hs.2 t ht)
      (by have := (foldl_max_le (f.throws.map Field.depth) 0).2 _ (List.mem_map_of_mem ht); omega)
  · intro a ha; exact (hw.1.1.2 a ha).1.2

set_option maxHeartbeats 1000000 in
/-- `function_rt` -/
theorem function_step {d : Nat} {f : Function} (hok : FnOk d f) (last : Bool) (l : Layout) {bl R : List Char}
    (hbl : BT bl) (hR : FnFollow d R) :
    ∃ g, BT g ∧ g.length < (bl ++ (rFunction f last l).1).length ∧
      skip (opt blank) (Function.parse d) (bl ++ ((rFunction f last l).1 ++ R)) = .ok f (g ++ R) := by
  obtain ⟨hargs, hthrows, hnd⟩ := fnOk_fields hok
  obtain ⟨hw, hs, hd⟩ := hok
  obtain ⟨name, oneway, rt, args, throws, anns⟩ := f
  simp only [Function.wf, Bool.and_eq_true, Bool.or_eq_true, Bool.not_eq_true'] at hw
  obtain ⟨⟨⟨⟨⟨⟨⟨hname, hrt⟩, hcpp⟩, how⟩, hth⟩, _⟩, _⟩, han⟩ := hw
  simp only [Function.depth] at hd
  simp only at hargs hthrows hnd
  rw [rFunction_throws]
  simp only [rSeq_fst, rSeq_snd, rLit_fst, rLit_snd, List.append_assoc]
  -- the pieces, for the layout `l0` that is left after the optional `oneway`
  have main : ∀ (l0 : Layout) (bl0 : List Char), BT bl0 →
      ∃ g, BT g ∧ g.length ≤ (rDefTail anns false last (rOptAnns anns (rThrows throws
          (rSlots (rField true) args (rB0 (rB0 (rB1 (rType rt l0).2).2).2).2).2).2).2).1.length ∧
        (andThen (Type.parse d) fun ty => andThen blank fun _ => andThen Ident.parse fun name =>
          andThen (opt blank) fun _ => andThen (tag ['(']) fun _ =>
          andThen (opt (many1 (skip (opt blank) (Field.parse d)))) fun args =>
          andThen (opt blank) fun _ => andThen (tag [')']) fun _ => andThen (opt blank) fun _ =>
          andThen (opt (andThen (tag cs!"throws") fun _ => andThen (opt blank) fun _ => andThen (tag ['(']) fun _ =>
            andThen (many1 (skip (opt blank) (Field.parse d))) fun fields => andThen (opt blank) fun _ =>
            andThen (tag [')']) fun _ => ret fields)) fun throws =>
          andThen (opt blank) fun _ => andThen (opt Annotations.parse) fun anns =>
          andThen (opt listSeparator) fun _ =>
          ret ({ name := name, oneway := oneway, resultType := ty, arguments := (args.getD []).map argRequired,
                 throws := throws.getD [], annotations := anns.getD [] } : Function))
          ((rType rt l0).1 ++ ((rB1 (rType rt l0).2).1 ++ (name ++ ((rB0 (rB1 (rType rt l0).2).2).1 ++ (['('] ++
            ((rB0 (rB0 (rB1 (rType rt l0).2).2).2).1 ++ ((rSlots (rField true) args (rB0 (rB0 (rB1 (rType rt l0).2).2).2).2).1 ++
              ([')'] ++ ((rThrows throws (rSlots (rField true) args (rB0 (rB0 (rB1 (rType rt l0).2).2).2).2).2).1 ++
                ((rOptAnns anns (rThrows throws (rSlots (rField true) args (rB0 (rB0 (rB1 (rType rt l0).2).2).2).2).2).2).1 ++
                  ((rDefTail anns false last (rOptAnns anns (rThrows throws
                    (rSlots (rField true) args (rB0 (rB0 (rB1 (rType rt l0).2).2).2).2).2).2).2).1 ++ R)))))))))))
        = .ok ⟨name, oneway, rt, args, throws, anns⟩ (g ++ R) := by
    intro l0 bl0 _
    rw [show ∀ x : List Char, [')'] ++ x = ')' :: x from fun _ => rfl]
    obtain ⟨g, thr, ann, hg, hthr, hann, hlen, htail⟩ := fnTail_rt d
      (fun throws' anns' => ret (Function.mk name oneway rt args (throws'.getD []) (anns'.getD [])))
      throws hthrows han last (rSlots (rField true) args (rB0 (rB0 (rB1 (rType rt l0).2).2).2).2).2 hR
    refine ⟨g, hg, hlen, ?_⟩
    obtain ⟨yo, bl', hys, hbl', hcore⟩ := fnCore_rt
      (fun ty name' args' => andThen (opt blank) fun _ => andThen (tag [')']) fun _ => andThen (opt blank) fun _ =>
        andThen (opt (throwsP d)) fun throws' => andThen (opt blank) fun _ => andThen (opt Annotations.parse) fun anns' =>
        andThen (opt listSeparator) fun _ =>
        ret (Function.mk name' oneway ty ((args'.getD []).map argRequired) (throws'.getD []) (anns'.getD [])))
      hrt (by omega) hname hcpp hargs l0
      ((rThrows throws (rSlots (rField true) args (rB0 (rB0 (rB1 (rType rt l0).2).2).2).2).2).1 ++
        ((rOptAnns anns (rThrows throws (rSlots (rField true) args (rB0 (rB0 (rB1 (rType rt l0).2).2).2).2).2).2).1 ++
          ((rDefTail anns false last (rOptAnns anns (rThrows throws
            (rSlots (rField true) args (rB0 (rB0 (rB1 (rType rt l0).2).2).2).2).2).2).2).1 ++ R)))
    have hargs' : (yo.getD []).map argRequired = args := argRequired_of_rel hys hnd
    have hcore' := hcore
    unfold throwsP at hcore'
    rw [hcore', andThen_optBlank hbl' (by rw [NB, hdP_cons]; decide), andThen_of_ok (tag1 ')' _)]
    have htail' := htail
    unfold throwsP at htail'
    rw [hargs']
    rw [htail', hthr, hann]
    rfl
  have hnbT : ∀ l0 x, NB ((rType rt l0).1 ++ x) := fun l0 x => rType_NB hrt l0 x
  have hxT : ∀ l0 x, rt.endsOpen = true → hdP (fun c => !isIdentChar c) ((rB1 (rType rt l0).2).1 ++ x) = true :=
    fun l0 x _ => ((rB1_BT _).sep_append (Or.inl (rB1_ne _))).noIdent
  cases oneway with
  | false =>
    simp only [Bool.false_eq_true, if_false, rLit_fst, rLit_snd, List.nil_append]
    obtain ⟨g, hg, hlen, hm⟩ := main l bl hbl
    refine ⟨g, hg, ?_, ?_⟩
    · have : 0 < (rType rt l).1.length := by
        obtain ⟨w, rest, e, _, _, _, hwne⟩ := rType_firstWord hrt l [] (fun _ => rfl)
        cases h : (rType rt l).1 with
        | nil =>
          rw [h] at e
          cases w with
          | nil => exact absurd rfl hwne
          | cons c cs => simp at e
        | cons _ _ => simp
      simp only [List.length_append] at hlen ⊢
      omega
    · have how' : rt.headIs cs!"oneway" = false := by
        rcases how with h | h
        · cases h
        · exact h
      rw [skip_of_ok (optBlank_rt hbl (hnbT _ _))]
      unfold Function.parse
      rw [andThen_of_ok (oneway_none hrt how' l _ (hxT l _))]
      exact hm
  | true =>
    simp only [if_true, rSeq_fst, rSeq_snd, rLit_fst, rLit_snd, List.append_assoc]
    obtain ⟨g, hg, hlen, hm⟩ := main (rB1 l).2 bl hbl
    refine ⟨g, hg, ?_, ?_⟩
    · simp only [List.length_append, List.length_cons] at hlen ⊢
      omega
    · have hnbO : ∀ x, NB (cs!"oneway" ++ x) := fun x => by rw [NB]; rfl
      have hone : ∀ X, NB X → pmap (fun (o : Option Unit) => o.isSome) (opt (andThen (tag cs!"oneway") fun _ => blank))
          (cs!"oneway" ++ ((rB1 l).1 ++ X)) = .ok true X := by
        intro X hX
        apply pmap_of_ok (a := some ())
        apply opt_of_ok
        rw [andThen_of_ok (tag_append _ _)]
        exact blank_rt (rB1_BT l) (rB1_ne l) hX
      rw [skip_of_ok (optBlank_rt hbl (hnbO _))]
      unfold Function.parse
      rw [andThen_of_ok (hone _ (hnbT _ _))]
      exact hm

/-! ### services -/

def Service.depth (s : Service) : Nat := (s.functions.map Function.depth).foldl max 0 + 1
def Service.supported (s : Service) : Bool := s.functions.all Function.supported

theorem identChar_props {c : Char} (h : isIdentChar c = true) :
    (!(c == ',' || c == ';')) = true ∧ (c != '(') = true := by
  have h1 := identChar_ne h (x := ',') (by decide)
  have h2 := identChar_ne h (x := ';') (by decide)
  have h3 := identChar_ne h (x := '(') (by decide)
  refine ⟨?_, ?_⟩
  · simp [Ne.symm h1, Ne.symm h2]
  · simp [Ne.symm h3]

theorem fnFollow_function {d : Nat} {f : Function} (hok : FnOk d f) (last : Bool) (l : Layout) (x : List Char) :
    FnFollow d ((rFunction f last l).1 ++ x) := by
  obtain ⟨hw, _, _⟩ := hok
  obtain ⟨name, oneway, rt, args, throws, anns⟩ := f
  simp only [Function.wf, Bool.and_eq_true, Bool.or_eq_true, Bool.not_eq_true'] at hw
  obtain ⟨⟨⟨⟨⟨⟨⟨hname, hrt⟩, hcpp⟩, how⟩, hth⟩, _⟩, _⟩, han⟩ := hw
  rw [rFunction_throws]
  simp only [rSeq_fst, rSeq_snd, rLit_fst, rLit_snd, List.append_assoc]
  cases oneway with
  | true =>
    simp only [if_true, rSeq_fst, rLit_fst, List.append_assoc]
    exact ⟨by rw [NB]; rfl, by rw [NoSepStart]; rfl, by rfl, throwsP_err_hd d (by rfl)⟩
  | false =>
    simp only [Bool.false_eq_true, if_false, rLit_fst, rLit_snd, List.nil_append]
    have hx : rt.endsOpen = true → hdP (fun c => !isIdentChar c) ((rB1 (rType rt l).2).1 ++ (name ++ ((rB0 (rB1 (rType rt l).2).2).1 ++
        (['('] ++ ((rB0 (rB0 (rB1 (rType rt l).2).2).2).1 ++ ((rSlots (rField true) args (rB0 (rB0 (rB1 (rType rt l).2).2).2).2).1 ++
          ([')'] ++ ((rThrows throws (rSlots (rField true) args (rB0 (rB0 (rB1 (rType rt l).2).2).2).2).2).1 ++
            ((rOptAnns anns (rThrows throws (rSlots (rField true) args (rB0 (rB0 (rB1 (rType rt l).2).2).2).2).2).2).1 ++
              ((rDefTail anns false last (rOptAnns anns (rThrows throws (rSlots (rField true) args
                (rB0 (rB0 (rB1 (rType rt l).2).2).2).2).2).2).2).1 ++ x)))))))))) = true :=
      fun _ => ((rB1_BT _).sep_append (Or.inl (rB1_ne _))).noIdent
    have hthr := kwArm_type_err (kw := cs!"throws") (k := andThen (opt blank) fun _ => andThen (tag ['(']) fun _ =>
        andThen (many1 (skip (opt blank) (Field.parse d))) fun fields => andThen (opt blank) fun _ =>
        andThen (tag [')']) fun _ => ret fields) hrt l _ hx (by decide) (by decide) hth
      (fun c y hc => throws_cont_fail d hc)
    obtain ⟨w, rest, e, hw', _, _, hwne⟩ := rType_firstWord hrt l _ hx
    rw [e] at hthr ⊢
    cases w with
    | nil => exact absurd rfl hwne
    | cons c cs =>
      have hc := hw' c (by simp)
      exact ⟨identChar_NB hc, (identChar_props hc).1, (identChar_props hc).2, hthr⟩

theorem ty_close_err (d : Nat) (R : List Char) : typeParse (Ty.parse (d + 1)) ('}' :: R) = .err := by
  unfold typeParse
  apply andThen_of_err
  unfold Ty.parse
  rw [alt_cons_of_err (kw_err_of (by simp [stripPrefix])), alt_cons_of_err (kw_err_of (by simp [stripPrefix])),
    alt_cons_of_err (kw_err_of (by simp [stripPrefix])), alt_cons_of_err (kw_err_of (by simp [stripPrefix])),
    alt_cons_of_err (kw_err_of (by simp [stripPrefix])), alt_cons_of_err (kw_err_of (by simp [stripPrefix])),
    alt_cons_of_err (kw_err_of (by simp [stripPrefix])), alt_cons_of_err (kw_err_of (by simp [stripPrefix])),
    alt_cons_of_err (kw_err_of (by simp [stripPrefix])), alt_cons_of_err (kw_err_of (by simp [stripPrefix])),
    alt_cons_of_err (kw_err_of (by simp [stripPrefix])),
    alt_cons_of_err (andThen_of_err (tag_err_of (by simp [stripPrefix]))),
    alt_cons_of_err (andThen_of_err (tag_err_of (by simp [stripPrefix]))),
    alt_cons_of_err (andThen_of_err (tag_err_of (by simp [stripPrefix]))),
    alt_cons_of_err (pmap_of_err (path_err_hd (by rw [hdP_cons]; decide) (by simp)))]
  rfl

theorem function_close_err (d : Nat) {bl R : List Char} (hbl : BT bl) :
    skip (opt blank) (Function.parse (d + 1)) (bl ++ '}' :: R) = .err := by
  rw [skip_of_ok (optBlank_rt hbl (by rw [NB, hdP_cons]; decide))]
  unfold Function.parse Type.parse
  have h1 : pmap (fun (o : Option Unit) => o.isSome) (opt (andThen (tag cs!"oneway") fun _ => blank)) ('}' :: R) =
      .ok false ('}' :: R) := pmap_of_ok (opt_of_err (andThen_of_err (tag_cons_ne (by decide))))
  rw [andThen_of_ok h1]
  exact andThen_of_err (ty_close_err d R)

/-- `opt(tuple((blank, tag("extends"), blank, Path::parse)))` as rendered -/
def rExt : Option Path → R
  | none => rLit []
  | some p => rB1 +> rLit cs!"extends" +> rB1 +> rPath p

theorem ext_rt {α} (K : Option Path → P α) {ext : Option Path} (hw : (match ext with | none => true | some p => p.wf) = true)
    (l : Layout) {b X : List Char} (hb : BT b) :
    (andThen (opt (andThen blank fun _ => andThen (tag cs!"extends") fun _ => andThen blank fun _ => Path.parse)) fun e =>
      andThen (opt blank) fun _ => andThen (tag ['{']) fun _ => K e) ((rExt ext l).1 ++ (b ++ (['{'] ++ X))) = K ext X := by
  cases ext with
  | none =>
    simp only [rExt, rLit_fst, List.nil_append]
    have hnone : (andThen blank fun _ => andThen (tag cs!"extends") fun _ => andThen blank fun _ => Path.parse)
        (b ++ (['{'] ++ X)) = .err := by
      by_cases hne : b = []
      · subst hne; exact andThen_of_err (blank_err (by rw [List.nil_append, NB]; rfl))
      · rw [andThen_blank hb hne (by rw [NB]; rfl)]; exact andThen_of_err (tag_cons_ne (by decide))
    rw [andThen_of_ok (opt_of_err hnone), andThen_optBlank hb (by rw [NB]; rfl), andThen_of_ok (tag_append _ _)]
  | some p =>
    simp only [rExt, rSeq_fst, rSeq_snd, rLit_fst, rLit_snd, List.append_assoc]
    obtain ⟨s, rest, hs, _, e, _⟩ := rPath_cons hw (rB1 (rB1 l).2).2
    have hnbp : ∀ x, NB ((rPath p (rB1 (rB1 l).2).2).1 ++ x) := by
      intro x; rw [e, List.append_assoc]; exact ident_NB hs
    have hsome : (andThen blank fun _ => andThen (tag cs!"extends") fun _ => andThen blank fun _ => Path.parse)
        ((rB1 l).1 ++ (cs!"extends" ++ ((rB1 (rB1 l).2).1 ++ ((rPath p (rB1 (rB1 l).2).2).1 ++ (b ++ (['{'] ++ X)))))) =
        .ok p (b ++ (['{'] ++ X)) := by
      rw [andThen_blank (rB1_BT _) (rB1_ne _) (by rw [NB]; rfl), andThen_of_ok (tag_append _ _),
        andThen_blank (rB1_BT _) (rB1_ne _) (hnbp _)]
      exact path_rt hw _ (hb.sep_append (Or.inr (by rw [Sep]; rfl))).noIdent
        (pathStop_of hb (by rw [NB]; rfl) (by rfl))
    rw [andThen_of_ok (opt_of_ok hsome), andThen_optBlank hb (by rw [NB]; rfl), andThen_of_ok (tag_append _ _)]

theorem rService_ext (s : Service) (last : Bool) (l : Layout) :
    rService s last l = (rLit cs!"service" +> rB1 +> rLit s.name +> rExt s.ext +>
      rB0 +> rLit ['{'] +> rB0 +> rSlots rFunction s.functions +> rLit ['}'] +>
      rOptAnns s.annotations +> rDefTail s.annotations false last) l := by
  cases h : s.ext <;> simp [rService, rExt, h]

/-- `service_rt` -/
theorem service_rt {s : Service} (hw : s.wf = true) (hsup : s.supported = true) {d : Nat} (hd : s.depth < d)
    (last : Bool) (l : Layout) {R : List Char} (hR : ItemStart R) :
    ∃ g, BT g ∧ Service.parse d ((rService s last l).1 ++ R) = .ok s (g ++ R) := by
  obtain ⟨name, ext, fns, anns⟩ := s
  simp only [Service.wf, Bool.and_eq_true, List.all_eq_true] at hw
  obtain ⟨⟨⟨hname, hext⟩, hfns⟩, han⟩ := hw
  simp only [Service.supported, List.all_eq_true] at hsup
  simp only [Service.depth] at hd
  obtain ⟨d', rfl⟩ : ∃ d', d = d' + 1 := ⟨d - 1, by omega⟩
  have hall : ∀ f ∈ fns, FnOk (d' + 1) f := fun f hf =>
    ⟨hfns f hf, hsup f hf, by have := (foldl_max_le (fns.map Function.depth) 0).2 _ (List.mem_map_of_mem hf); omega⟩
  rw [rService_ext]
  simp only [rSeq_fst, rSeq_snd, rLit_fst, rLit_snd, List.append_assoc]
  have hloop := many0F_slots (skip (opt blank) (Function.parse (d' + 1))) rFunction Eq (FnOk (d' + 1)) BT
    (fun R => FnFollow (d' + 1) R) '}'
    (by
      intro x last l bl R hx hbl hlast hmid
      have hR : FnFollow (d' + 1) R := by
        cases last with
        | true => obtain ⟨R'', rfl⟩ := hlast rfl; exact fnFollow_close _ R''
        | false => exact hmid rfl
      obtain ⟨g, hg, hlen, h⟩ := function_step hx last l hbl hR
      exact ⟨x, g, rfl, hg, hlen, h⟩)
    (by intro y last l R hy; exact fnFollow_function hy last l R)
    (by intro bl R hbl; exact function_close_err d' hbl)
  obtain ⟨ys, bl', hys, hbl', hm⟩ := hloop fns (rB0 (rB0 (rExt ext (rB1 l).2).2).2).2 (rB0 (rB0 (rExt ext (rB1 l).2).2).2).1 _
    ((rOptAnns anns (rSlots rFunction fns (rB0 (rB0 (rExt ext (rB1 l).2).2).2).2).2).1 ++
      ((rDefTail anns false last (rOptAnns anns (rSlots rFunction fns (rB0 (rB0 (rExt ext (rB1 l).2).2).2).2).2).2).1 ++ R))
    hall (rB0_BT _) (Nat.lt_succ_self _)
  have hys' := forall2_eq' hys
  subst hys'
  obtain ⟨g, ann, hg, hann, htail⟩ := defTail_rt (fun anns' => ret (Service.mk name ext fns (anns'.getD [])))
    han false last (rSlots rFunction fns (rB0 (rB0 (rExt ext (rB1 l).2).2).2).2).2 hR.nb hR.noSep (hR.ne '(' (by decide))
  refine ⟨g, hg, ?_⟩
  have hm' : many0 (skip (opt blank) (Function.parse (d' + 1))) ((rB0 (rB0 (rExt ext (rB1 l).2).2).2).1 ++
      ((rSlots rFunction fns (rB0 (rB0 (rExt ext (rB1 l).2).2).2).2).1 ++ (['}'] ++
        ((rOptAnns anns (rSlots rFunction fns (rB0 (rB0 (rExt ext (rB1 l).2).2).2).2).2).1 ++
          ((rDefTail anns false last (rOptAnns anns (rSlots rFunction fns (rB0 (rB0 (rExt ext (rB1 l).2).2).2).2).2).2).1 ++ R))))) =
      .ok fns (bl' ++ (['}'] ++ ((rOptAnns anns (rSlots rFunction fns (rB0 (rB0 (rExt ext (rB1 l).2).2).2).2).2).1 ++
          ((rDefTail anns false last (rOptAnns anns (rSlots rFunction fns (rB0 (rB0 (rExt ext (rB1 l).2).2).2).2).2).2).1 ++ R)))) := hm
  have hnameFollow : ∀ x, hdP (fun c => !isIdentChar c) ((rExt ext (rB1 l).2).1 ++ ((rB0 (rExt ext (rB1 l).2).2).1 ++ (['{'] ++ x))) = true := by
    intro x
    cases ext with
    | none =>
      simp only [rExt, rLit_fst, rLit_snd, List.nil_append]
      exact ((rB0_BT _).sep_append (Or.inr (by rw [Sep]; rfl))).noIdent
    | some p =>
      simp only [rExt, rSeq_fst, List.append_assoc]
      exact ((rB1_BT _).sep_append (Or.inl (rB1_ne _))).noIdent
  unfold Service.parse
  rw [andThen_of_ok (tag_append _ _), andThen_blank (rB1_BT _) (rB1_ne _) (ident_NB hname),
    andThen_of_ok (ident_rt hname (hnameFollow _)), ext_rt _ hext _ (rB0_BT _), andThen_of_ok hm',
    andThen_optBlank hbl' (by rw [NB]; rfl), andThen_of_ok (tag_append _ _), htail, hann]
  rfl

end Pilota.Idl
