import PilotaModel.TGen.Project
/-  More fuel never changes a successful projection. -/
namespace Pilota.TGen
open Pilota Pilota.Thrift

variable (d : Doc) (dp : Option Nat)

theorem proj_mono_all : ∀ f : Nat,
    (∀ ty w v, projTy d dp f ty w = some (.ok v) → projTy d dp (f + 1) ty w = some (.ok v)) ∧
    (∀ el xs acc ys, projN d dp f el xs acc = some (.ok ys) → projN d dp (f + 1) el xs acc = some (.ok ys)) ∧
    (∀ k v kvs acc ys, projPairs d dp f k v kvs acc = some (.ok ys) → projPairs d dp (f + 1) k v kvs acc = some (.ok ys)) ∧
    (∀ fs slots wfs s, projFields d dp f fs slots wfs = some (.ok s) → projFields d dp (f + 1) fs slots wfs = some (.ok s)) ∧
    (∀ vs ret wfs r, projUnion d dp f vs ret wfs = some (.ok r) → projUnion d dp (f + 1) vs ret wfs = some (.ok r)) := by
  intro f
  induction f with
  | zero =>
    refine ⟨?_, ?_, ?_, ?_, ?_⟩ <;> intros <;> simp_all [projTy, projN, projPairs, projFields, projUnion]
  | succ f ih =>
    obtain ⟨ihT, ihN, ihP, ihF, ihU⟩ := ih
    refine ⟨?_, ?_, ?_, ?_, ?_⟩
    · intro ty w v h
      cases ty with
      | list el =>
        cases w <;> simp only [projTy] at h ⊢ <;> try (cases h; done)
        rename_i et xs
        cases hp : projN d dp f el xs [] with
        | none => simp [hp] at h
        | some oy =>
          cases oy <;> simp [hp] at h
          rename_i ys
          rw [ihN el xs [] ys hp]; simp [h]
      | set el =>
        cases w <;> simp only [projTy] at h ⊢ <;> try (cases h; done)
        rename_i et xs
        cases hp : projN d dp f el xs [] with
        | none => simp [hp] at h
        | some oy =>
          cases oy <;> simp [hp] at h
          rename_i ys
          rw [ihN el xs [] ys hp]; simp [h]
      | map k v' =>
        cases w <;> simp only [projTy] at h ⊢ <;> try (cases h; done)
        rename_i kt vt kvs
        cases hp : projPairs d dp f k v' kvs [] with
        | none => simp [hp] at h
        | some oy =>
          cases oy <;> simp [hp] at h
          rename_i ys
          rw [ihP k v' kvs [] ys hp]; simp [h]
      | ref n =>
        simp only [projTy] at h ⊢
        cases hfind : d.find n with
        | none => simp [hfind] at h
        | some df =>
          cases df with
          | struct fs =>
            simp only [hfind] at h ⊢
            cases w <;> simp only at h ⊢ <;> try (cases h; done)
            rename_i wfs
            cases hp : projFields d dp f fs [] wfs with
            | none => simp [hp] at h
            | some os =>
              cases os <;> simp [hp] at h
              rename_i slots
              rw [ihF fs [] wfs slots hp]
              simpa using h
          | union vs =>
            simp only [hfind] at h ⊢
            cases w <;> simp only at h ⊢ <;> try (cases h; done)
            rename_i wfs
            cases hp : projUnion d dp f vs none wfs with
            | none => simp [hp] at h
            | some os =>
              cases os <;> simp [hp] at h
              rename_i ret
              rw [ihU vs none wfs ret hp]
              simpa using h
          | enum => simp only [hfind] at h ⊢; exact h
          | typedef t => simp only [hfind] at h ⊢; exact ihT t w v h
      | void => simp only [projTy] at h; cases h
      | _ => cases w <;> simp only [projTy] at h ⊢ <;> first | (cases h; done) | exact h
    · intro el xs acc ys h
      cases xs with
      | nil => simp only [projN] at h ⊢; exact h
      | cons x xs =>
        simp only [projN] at h ⊢
        cases hp : projTy d dp f el x with
        | none => simp [hp] at h
        | some ox =>
          cases ox <;> simp [hp] at h
          rename_i v
          rw [ihT el x v hp]
          exact ihN el xs _ ys h
    · intro k v kvs acc ys h
      cases kvs with
      | nil => simp only [projPairs] at h ⊢; exact h
      | cons a b r =>
        simp only [projPairs] at h ⊢
        cases hpa : projTy d dp f k a with
        | none => simp [hpa] at h
        | some oa =>
          cases oa <;> simp [hpa] at h
          rename_i ka
          rw [ihT k a ka hpa]
          simp only
          cases hpb : projTy d dp f v b with
          | none => simp [hpb] at h
          | some ob =>
            cases ob <;> simp [hpb] at h
            rename_i vb
            rw [ihT v b vb hpb]
            exact ihP k v r _ ys h
    · intro fs slots wfs s h
      cases wfs with
      | nil => simp only [projFields] at h ⊢; exact h
      | cons id v r =>
        simp only [projFields] at h ⊢
        split at h
        · cases h
        · rename_i hid
          simp only [hid, if_false]
          cases hfind : fs.find? (fun fl => fl.id == id && d.ttype fl.ty == v.ttype) with
          | some fl =>
            simp only [hfind] at h ⊢
            cases hp : projTy d dp f fl.ty v with
            | none => simp [hp] at h
            | some ov =>
              cases ov <;> simp [hp] at h
              rename_i pv
              rw [ihT fl.ty v pv hp]
              exact ihF fs _ r s h
          | none =>
            simp only [hfind] at h ⊢
            split at h
            · rename_i ha; simp only [ha, if_true]; exact ihF fs slots r s h
            · cases h
    · intro vs ret wfs r' h
      cases wfs with
      | nil => simp only [projUnion] at h ⊢; exact h
      | cons id v r =>
        simp only [projUnion] at h ⊢
        split at h
        · cases h
        · rename_i hid
          simp only [hid, if_false]
          cases hfind : vs.find? (fun x => x.1 == id && !(x.2 == .void)) with
          | some p =>
            obtain ⟨pid, ty⟩ := p
            simp only [hfind] at h ⊢
            split at h
            · cases h
            · rename_i hret
              simp only [hret, if_false]
              split at h
              · cases h
              · rename_i htt
                simp only [htt, if_false]
                cases hp : projTy d dp f ty v with
                | none => simp [hp] at h
                | some ov =>
                  cases ov <;> simp [hp] at h
                  rename_i pv
                  rw [ihT ty v pv hp]
                  exact ihU vs _ r r' h
          | none =>
            simp only [hfind] at h ⊢
            split at h
            · rename_i ha; simp only [ha, if_true]; exact ihU vs ret r r' h
            · cases h

theorem projTy_mono (f g : Nat) (hfg : f ≤ g) (ty : STy) (w v : TVal) (h : projTy d dp f ty w = some (.ok v)) :
    projTy d dp g ty w = some (.ok v) := by
  induction hfg with
  | refl => exact h
  | step _ ih => exact (proj_mono_all d dp _).1 ty w v ih

end Pilota.TGen
