import PilotaModel.Thrift.Skip
import PilotaModel.Lemmas.AsyncCmp
import PilotaModel.Lemmas.AsyncFlat
/-
  Compact: the asynchronous skipper accepts whatever the in-memory skipper accepts and stops in the same reader state at
  the same place — on arbitrary bytes, for every fuel at least as large.
-/
namespace Pilota.Thrift.Async.ACmp
open Pilota Pilota.Thrift Pilota.Thrift.Skip Pilota.Thrift.Compact

theorem dropS_ok {α} (s : CR) (x : Out (α × Bytes)) (s' : CR) (r : Bytes) (h : dropS s x = .ok (s', r)) :
    s' = s ∧ ∃ a, x = .ok (a, r) := by
  cases x with
  | ok p => obtain ⟨a, r'⟩ := p; simp only [dropS, Out.ok.injEq, Prod.mk.injEq] at h; obtain ⟨rfl, rfl⟩ := h; exact ⟨rfl, a, rfl⟩
  | err k => cases h
  | panic m => cases h
  | fuel => cases h

theorem cp_leaf (t s bs) : compactPrims.leaf t s bs = compactLeaf t s bs := rfl
theorem cp_sb (s) : compactPrims.structBegin s = Compact.readStructBegin s := rfl
theorem cp_se (s) : compactPrims.structEnd s = Compact.readStructEnd s := rfl
theorem cp_fb (s bs) : compactPrims.fieldBegin s bs = Compact.readFieldBegin s bs := rfl
theorem cp_lb (bs) : compactPrims.listBegin bs = Compact.readCollBegin bs := rfl
theorem cp_mb (bs) : compactPrims.mapBegin bs = Compact.readMapBegin bs := rfl

theorem acskip_sim : ∀ f : Nat,
    (∀ f' (d : Nat) t s bs s' r, f ≤ f' → rdSkip compactPrims f (d : Int) t s bs = .ok (s', r) →
      runF (skip f' d t s) bs = .ok (s', r)) ∧
    (∀ f' (d : Nat) s bs s' r, f ≤ f' → rdFields compactPrims f ((d + 1 : Nat) : Int) s bs = .ok (s', r) →
      runF (skipFields f' d s) bs = .ok (s', r)) ∧
    (∀ f' (d : Nat) et n s bs s' r, f ≤ f' → rdN compactPrims f ((d + 1 : Nat) : Int) et n s bs = .ok (s', r) →
      runF (skipN f' d et n s) bs = .ok (s', r)) ∧
    (∀ f' (d : Nat) kt vt n s bs s' r, f ≤ f' → rdPairs compactPrims f ((d + 1 : Nat) : Int) kt vt n s bs = .ok (s', r) →
      runF (skipPairs f' d kt vt n s) bs = .ok (s', r)) := by
  intro f
  induction f with
  | zero =>
    refine ⟨?_, ?_, ?_, ?_⟩ <;> intros <;> simp_all [rdSkip, rdFields, rdN, rdPairs]
  | succ f ih =>
    obtain ⟨ihV, ihF, ihN, ihP⟩ := ih
    have cast1 : ∀ d : Nat, ((d + 1 : Nat) : Int) - 1 = (d : Int) := by intro d; omega
    have ne128 : ∀ d : Nat, ¬ (((d + 1 : Nat) : Int) = -128) := by intro d; omega
    refine ⟨?_, ?_, ?_, ?_⟩
    · intro f' d t s bs s' r hf h
      obtain ⟨f'', rfl⟩ : ∃ f'', f' = f'' + 1 := ⟨f' - 1, by omega⟩
      have hf2 : f ≤ f'' := by omega
      simp only [rdSkip] at h
      cases d with
      | zero => simp at h
      | succ d =>
        have hd0 : ¬ (((d + 1 : Nat) : Int) = 0) := by omega
        simp only [hd0, if_false] at h
        cases t with
        | stop => cases h
        | void => cases h
        | bool =>
          simp only [cp_leaf, compactLeaf] at h
          simp only [skip, runF_bind, runF_readBool]
          cases hx : Compact.readBool s bs with
          | ok p => obtain ⟨b, s1, r1⟩ := p; rw [hx] at h; simp only [Out.ok.injEq, Prod.mk.injEq] at h; obtain ⟨rfl, rfl⟩ := h; simp [pack, bindP]
          | err k => rw [hx] at h; cases h
          | panic m => rw [hx] at h; cases h
          | fuel => rw [hx] at h; cases h
        | i8 =>
          simp only [cp_leaf, compactLeaf] at h
          obtain ⟨rfl, a, ha⟩ := dropS_ok _ _ _ _ h
          simp [skip, runF_bind, ABin.runF_readI, ha, bindP]
        | i16 =>
          simp only [cp_leaf, compactLeaf] at h
          obtain ⟨rfl, a, ha⟩ := dropS_ok _ _ _ _ h
          simp [skip, runF_bind, runF_readVarS, ha, bindP]
        | i32 =>
          simp only [cp_leaf, compactLeaf] at h
          obtain ⟨rfl, a, ha⟩ := dropS_ok _ _ _ _ h
          simp [skip, runF_bind, runF_readVarS, ha, bindP]
        | i64 =>
          simp only [cp_leaf, compactLeaf] at h
          obtain ⟨rfl, a, ha⟩ := dropS_ok _ _ _ _ h
          simp [skip, runF_bind, runF_readVarS, ha, bindP]
        | double =>
          simp only [cp_leaf, compactLeaf] at h
          obtain ⟨rfl, a, ha⟩ := dropS_ok _ _ _ _ h
          simp [skip, runF_bind, ABin.runF_readU, ha, bindP]
        | binary =>
          simp only [cp_leaf, compactLeaf] at h
          obtain ⟨rfl, a, ha⟩ := dropS_ok _ _ _ _ h
          simp [skip, runF_bind, runF_readBytes, ha, bindP]
        | uuid =>
          simp only [cp_leaf, compactLeaf] at h
          obtain ⟨rfl, a, ha⟩ := dropS_ok _ _ _ _ h
          simp [skip, runF, ha]
        | struct =>
          simp only [cp_sb, cp_se] at h
          simp only [skip, runF_bind]
          cases hx : rdFields compactPrims f ((d + 1 : Nat) : Int) (Compact.readStructBegin s) bs with
          | ok p =>
            obtain ⟨s1, r1⟩ := p
            rw [hx] at h
            simp only at h
            rw [ihF f'' d _ bs s1 r1 hf2 hx]
            simp only [bindP, runF_readStructEnd]
            cases hy : Compact.readStructEnd s1 with
            | ok s2 => rw [hy] at h; simp only [Out.ok.injEq, Prod.mk.injEq] at h; obtain ⟨rfl, rfl⟩ := h; rfl
            | err k => rw [hy] at h; cases h
            | panic m => rw [hy] at h; cases h
            | fuel => rw [hy] at h; cases h
          | err k => rw [hx] at h; cases h
          | panic m => rw [hx] at h; cases h
          | fuel => rw [hx] at h; cases h
        | list =>
          simp only [cp_lb] at h
          simp only [skip, runF_bind]
          cases hx : Compact.readCollBegin bs with
          | ok p =>
            obtain ⟨⟨et, n⟩, r0⟩ := p
            rw [hx] at h
            simp only at h
            rw [readCollBegin_of_sync bs _ hx]
            exact ihN f'' d et n s r0 s' r hf2 h
          | err k => rw [hx] at h; cases h
          | panic m => rw [hx] at h; cases h
          | fuel => rw [hx] at h; cases h
        | set =>
          simp only [cp_lb] at h
          simp only [skip, runF_bind]
          cases hx : Compact.readCollBegin bs with
          | ok p =>
            obtain ⟨⟨et, n⟩, r0⟩ := p
            rw [hx] at h
            simp only at h
            rw [readCollBegin_of_sync bs _ hx]
            exact ihN f'' d et n s r0 s' r hf2 h
          | err k => rw [hx] at h; cases h
          | panic m => rw [hx] at h; cases h
          | fuel => rw [hx] at h; cases h
        | map =>
          simp only [cp_mb] at h
          simp only [skip, runF_bind]
          cases hx : Compact.readMapBegin bs with
          | ok p =>
            obtain ⟨⟨kt, vt, n⟩, r0⟩ := p
            rw [hx] at h
            simp only at h
            rw [readMapBegin_of_sync bs _ hx]
            exact ihP f'' d kt vt n s r0 s' r hf2 h
          | err k => rw [hx] at h; cases h
          | panic m => rw [hx] at h; cases h
          | fuel => rw [hx] at h; cases h
    · intro f' d s bs s' r hf h
      obtain ⟨f'', rfl⟩ : ∃ f'', f' = f'' + 1 := ⟨f' - 1, by omega⟩
      have hf2 : f ≤ f'' := by omega
      simp only [rdFields, cp_fb] at h
      simp only [skipFields, runF_bind, runF_readFieldBegin]
      cases hx : Compact.readFieldBegin s bs with
      | ok p =>
        obtain ⟨⟨t, id⟩, s0, r0⟩ := p
        rw [hx] at h
        simp only at h
        simp only [pack, bindP]
        by_cases hs : t = .stop
        · simp only [hs, if_true] at h ⊢; simp only [Out.ok.injEq, Prod.mk.injEq] at h; obtain ⟨rfl, rfl⟩ := h; rfl
        · simp only [hs, if_false, ne128 d, cast1 d] at h ⊢
          cases hy : rdSkip compactPrims f (d : Int) t s0 r0 with
          | ok q =>
            obtain ⟨s1, r1⟩ := q
            rw [hy] at h
            simp only at h
            rw [runF_bind, ihV f'' d t s0 r0 s1 r1 hf2 hy]
            exact ihF f'' d s1 r1 s' r hf2 h
          | err k => rw [hy] at h; cases h
          | panic m => rw [hy] at h; cases h
          | fuel => rw [hy] at h; cases h
      | err k => rw [hx] at h; cases h
      | panic m => rw [hx] at h; cases h
      | fuel => rw [hx] at h; cases h
    · intro f' d et n s bs s' r hf h
      obtain ⟨f'', rfl⟩ : ∃ f'', f' = f'' + 1 := ⟨f' - 1, by omega⟩
      have hf2 : f ≤ f'' := by omega
      cases n with
      | zero => simp only [rdN, Out.ok.injEq, Prod.mk.injEq] at h; obtain ⟨rfl, rfl⟩ := h; simp [skipN]
      | succ n =>
        simp only [rdN, ne128 d, if_false, cast1 d] at h
        simp only [skipN]
        cases hy : rdSkip compactPrims f (d : Int) et s bs with
        | ok q =>
          obtain ⟨s1, r1⟩ := q
          rw [hy] at h
          simp only at h
          rw [runF_bind, ihV f'' d et s bs s1 r1 hf2 hy]
          exact ihN f'' d et n s1 r1 s' r hf2 h
        | err k => rw [hy] at h; cases h
        | panic m => rw [hy] at h; cases h
        | fuel => rw [hy] at h; cases h
    · intro f' d kt vt n s bs s' r hf h
      obtain ⟨f'', rfl⟩ : ∃ f'', f' = f'' + 1 := ⟨f' - 1, by omega⟩
      have hf2 : f ≤ f'' := by omega
      cases n with
      | zero => simp only [rdPairs, Out.ok.injEq, Prod.mk.injEq] at h; obtain ⟨rfl, rfl⟩ := h; simp [skipPairs]
      | succ n =>
        simp only [rdPairs, ne128 d, if_false, cast1 d] at h
        simp only [skipPairs]
        cases hy : rdSkip compactPrims f (d : Int) kt s bs with
        | ok q =>
          obtain ⟨s1, r1⟩ := q
          rw [hy] at h
          simp only at h
          cases hy2 : rdSkip compactPrims f (d : Int) vt s1 r1 with
          | ok q2 =>
            obtain ⟨s2, r2⟩ := q2
            rw [hy2] at h
            simp only at h
            rw [runF_bind, ihV f'' d kt s bs s1 r1 hf2 hy]
            simp only [bindP]
            rw [runF_bind, ihV f'' d vt s1 r1 s2 r2 hf2 hy2]
            exact ihP f'' d kt vt n s2 r2 s' r hf2 h
          | err k => rw [hy2] at h; cases h
          | panic m => rw [hy2] at h; cases h
          | fuel => rw [hy2] at h; cases h
        | err k => rw [hy] at h; cases h
        | panic m => rw [hy] at h; cases h
        | fuel => rw [hy] at h; cases h

end Pilota.Thrift.Async.ACmp
