import PilotaModel.Lemmas.PbTotal
/-
  A successful read is unaffected by input appended behind it (and by extra loop budget):
  every reader of the protobuf model, up to the emitted `merge_field`.
-/
namespace Pilota.Proto
open Pilota

theorem decodeKey_append (bs : Bytes) (p : Nat × WireType) (r x : Bytes) (h : decodeKey bs = .ok (p, r)) :
    decodeKey (bs ++ x) = .ok (p, r ++ x) := by
  unfold decodeKey at h ⊢
  cases hd : decodeVarint bs with
  | ok q =>
    obtain ⟨key, r'⟩ := q
    rw [hd] at h
    rw [decodeVarint_append bs key r' x hd]
    simp only at h ⊢
    split at h
    · cases h
    · rename_i hk
      simp only [hk, if_false]
      cases hw : WireType.ofCode (key % 8) with
      | none => simp [hw] at h
      | some wt =>
        simp only [hw] at h ⊢
        split at h
        · cases h
        · rename_i ht; simp only [ht, if_false]; cases h; rfl
  | err k => simp [hd] at h
  | panic e => simp [hd] at h
  | fuel => simp [hd] at h

theorem advance_append (n : Nat) (bs r x : Bytes) (h : advance n bs = .ok r) : advance n (bs ++ x) = .ok (r ++ x) := by
  unfold advance at h ⊢
  split at h
  · rename_i hn
    cases h
    have : n ≤ (bs ++ x).length := by simp; omega
    simp only [this, if_true, List.drop_append_of_le_length hn]
  · cases h

theorem copyToBytes_append2 (n : Nat) (bs a r x : Bytes) (h : copyToBytes n bs = .ok (a, r)) :
    copyToBytes n (bs ++ x) = .ok (a, r ++ x) := by
  unfold copyToBytes at h ⊢
  split at h
  · rename_i hn
    cases h
    have : n ≤ (bs ++ x).length := by simp; omega
    simp only [this, if_true, List.drop_append_of_le_length hn, List.take_append_of_le_length hn]
  · cases h

/-! ### loops -/

def StableStep {σ : Type} (step : σ → Bytes → Out (σ × Bytes)) : Prop :=
  ∀ s bs s' r x, step s bs = .ok (s', r) → step s (bs ++ x) = .ok (s', r ++ x)

theorem mergeLoopGo_fuel_mono {σ : Type} (step : σ → Bytes → Out (σ × Bytes)) (limit : Nat) :
    ∀ (f : Nat) (s : σ) (bs : Bytes) (p : σ × Bytes), mergeLoopGo step f s bs limit = .ok p →
      ∀ k, mergeLoopGo step (f + k) s bs limit = .ok p := by
  intro f
  induction f with
  | zero => intro s bs p h; simp [mergeLoopGo] at h
  | succ f ih =>
    intro s bs p h k
    rw [show f + 1 + k = (f + k) + 1 by omega]
    unfold mergeLoopGo at h ⊢
    split
    · rename_i hgt
      simp only [hgt, if_true] at h
      cases hs : step s bs with
      | ok q =>
        obtain ⟨s', r⟩ := q
        rw [hs] at h
        exact ih s' r p h k
      | err e => simp [hs] at h
      | panic e => simp [hs] at h
      | fuel => simp [hs] at h
    · rename_i hgt
      simp only [hgt, if_false] at h
      exact h

theorem mergeLoopGo_append {σ : Type} (step : σ → Bytes → Out (σ × Bytes)) (hst : StableStep step) (limit : Nat) (x : Bytes) :
    ∀ (f : Nat) (s : σ) (bs : Bytes) (s' : σ) (r : Bytes), mergeLoopGo step f s bs limit = .ok (s', r) →
      mergeLoopGo step f s (bs ++ x) (limit + x.length) = .ok (s', r ++ x) := by
  intro f
  induction f with
  | zero => intro s bs s' r h; simp [mergeLoopGo] at h
  | succ f ih =>
    intro s bs s' r h
    unfold mergeLoopGo at h ⊢
    by_cases hgt : bs.length > limit
    · have hgt' : (bs ++ x).length > limit + x.length := by simp; omega
      simp only [hgt, hgt', if_true] at h ⊢
      cases hs : step s bs with
      | ok q =>
        obtain ⟨s1, r1⟩ := q
        rw [hs] at h
        rw [hst s bs s1 r1 x hs]
        exact ih s1 r1 s' r h
      | err e => simp [hs] at h
      | panic e => simp [hs] at h
      | fuel => simp [hs] at h
    · have hgt' : ¬ (bs ++ x).length > limit + x.length := by simp; omega
      simp only [hgt, hgt', if_false] at h ⊢
      split at h
      · cases h
      · rename_i hne
        have : ¬ (bs ++ x).length ≠ limit + x.length := by simp; omega
        simp only [this, if_false]
        cases h; rfl

theorem mergeLoop_append {σ : Type} (step : σ → Bytes → Out (σ × Bytes)) (hst : StableStep step) (s : σ) (bs : Bytes)
    (s' : σ) (r x : Bytes) (h : mergeLoop step s bs = .ok (s', r)) : mergeLoop step s (bs ++ x) = .ok (s', r ++ x) := by
  unfold mergeLoop at h ⊢
  cases hd : decodeVarint bs with
  | ok q =>
    obtain ⟨len, r0⟩ := q
    rw [hd] at h
    rw [decodeVarint_append bs len r0 x hd]
    simp only at h ⊢
    split at h
    · cases h
    · rename_i hle
      have hle' : ¬ len > (r0 ++ x).length := by simp; omega
      simp only [hle', if_false]
      have h1 := mergeLoopGo_append step hst (r0.length - len) x (r0.length + 1) s r0 s' r h
      have h2 := mergeLoopGo_fuel_mono step _ _ s (r0 ++ x) _ h1 x.length
      have e1 : (r0 ++ x).length + 1 = r0.length + 1 + x.length := by simp; omega
      have e2 : (r0 ++ x).length - len = r0.length - len + x.length := by simp; omega
      rw [e1, e2]; exact h2
  | err e => simp [hd] at h
  | panic e => simp [hd] at h
  | fuel => simp [hd] at h

/-! ### skip_field -/

def StableSkip (skip : WireType → Nat → Bytes → Out Bytes) : Prop :=
  ∀ wt tag bs r x, skip wt tag bs = .ok r → skip wt tag (bs ++ x) = .ok (r ++ x)

theorem groupLoop_fuel_mono (skip : WireType → Nat → Bytes → Out Bytes) (tag : Nat) :
    ∀ (f : Nat) (bs r : Bytes), groupLoop skip tag f bs = .ok r → ∀ k, groupLoop skip tag (f + k) bs = .ok r := by
  intro f
  induction f with
  | zero => intro bs r h; simp [groupLoop] at h
  | succ f ih =>
    intro bs r h k
    rw [show f + 1 + k = (f + k) + 1 by omega]
    unfold groupLoop at h ⊢
    cases hk : decodeKey bs with
    | ok q =>
      obtain ⟨⟨itag, iwt⟩, r0⟩ := q
      rw [hk] at h
      simp only at h ⊢
      split
      · rename_i he; simp only [he, if_true] at h; exact h
      · rename_i he
        simp only [he, if_false] at h
        cases hs : skip iwt itag r0 with
        | ok r1 => rw [hs] at h; exact ih r1 r h k
        | err e => simp [hs] at h
        | panic e => simp [hs] at h
        | fuel => simp [hs] at h
    | err e => simp [hk] at h
    | panic e => simp [hk] at h
    | fuel => simp [hk] at h

theorem groupLoop_append (skip : WireType → Nat → Bytes → Out Bytes) (hs : StableSkip skip) (tag : Nat) (x : Bytes) :
    ∀ (f : Nat) (bs r : Bytes), groupLoop skip tag f bs = .ok r → groupLoop skip tag f (bs ++ x) = .ok (r ++ x) := by
  intro f
  induction f with
  | zero => intro bs r h; simp [groupLoop] at h
  | succ f ih =>
    intro bs r h
    unfold groupLoop at h ⊢
    cases hk : decodeKey bs with
    | ok q =>
      obtain ⟨⟨itag, iwt⟩, r0⟩ := q
      rw [hk] at h
      rw [decodeKey_append bs _ r0 x hk]
      simp only at h ⊢
      split
      · rename_i he
        simp only [he, if_true] at h
        by_cases hne : itag ≠ tag
        · simp [hne] at h
        · simp only [hne, if_false] at h ⊢
          cases h; rfl
      · rename_i he
        simp only [he, if_false] at h
        cases hsk : skip iwt itag r0 with
        | ok r1 =>
          rw [hsk] at h
          rw [hs iwt itag r0 r1 x hsk]
          exact ih r1 r h
        | err e => simp [hsk] at h
        | panic e => simp [hsk] at h
        | fuel => simp [hsk] at h
    | err e => simp [hk] at h
    | panic e => simp [hk] at h
    | fuel => simp [hk] at h

theorem skipField_append (ctx : Nat) : StableSkip (skipField ctx) := by
  induction ctx with
  | zero => intro wt tag bs r x h; simp [skipField] at h
  | succ c ih =>
    intro wt tag bs r x h
    unfold skipField at h ⊢
    cases wt with
    | varint =>
      simp only at h ⊢
      cases hd : decodeVarint bs with
      | ok q =>
        obtain ⟨v, r0⟩ := q
        rw [hd] at h; rw [decodeVarint_append bs v r0 x hd]
        exact advance_append 0 r0 r x h
      | err e => simp [hd] at h
      | panic e => simp [hd] at h
      | fuel => simp [hd] at h
    | i32 =>
      simp only at h ⊢
      split at h
      · cases h
      · rename_i hl
        have : ¬ 4 > (bs ++ x).length := by simp; omega
        simp only [this, if_false]
        exact advance_append 4 bs r x h
    | i64 =>
      simp only at h ⊢
      split at h
      · cases h
      · rename_i hl
        have : ¬ 8 > (bs ++ x).length := by simp; omega
        simp only [this, if_false]
        exact advance_append 8 bs r x h
    | len =>
      simp only at h ⊢
      cases hd : decodeVarint bs with
      | ok q =>
        obtain ⟨n, r0⟩ := q
        rw [hd] at h; rw [decodeVarint_append bs n r0 x hd]
        simp only at h ⊢
        split at h
        · cases h
        · rename_i hl
          have : ¬ n > (r0 ++ x).length := by simp; omega
          simp only [this, if_false]
          exact advance_append n r0 r x h
      | err e => simp [hd] at h
      | panic e => simp [hd] at h
      | fuel => simp [hd] at h
    | sgroup =>
      simp only at h ⊢
      cases hg : groupLoop (skipField c) tag (bs.length + 1) bs with
      | ok r0 =>
        rw [hg] at h
        have h1 := groupLoop_append (skipField c) ih tag x _ bs r0 hg
        have h2 := groupLoop_fuel_mono (skipField c) tag _ _ _ h1 x.length
        have e : (bs ++ x).length + 1 = bs.length + 1 + x.length := by simp; omega
        rw [e, h2]
        exact advance_append 0 r0 r x h
      | err e => simp [hg] at h
      | panic e => simp [hg] at h
      | fuel => simp [hg] at h
    | egroup => simp at h

/-! ### scalar modules -/

namespace Codec

theorem mergeBytes_append (bs a r x : Bytes) (h : mergeBytes bs = .ok (a, r)) : mergeBytes (bs ++ x) = .ok (a, r ++ x) := by
  unfold mergeBytes at h ⊢
  cases hd : decodeVarint bs with
  | ok q =>
    obtain ⟨n, r0⟩ := q
    rw [hd] at h; rw [decodeVarint_append bs n r0 x hd]
    simp only at h ⊢
    split at h
    · cases h
    · rename_i hl
      have : ¬ n > (r0 ++ x).length := by simp; omega
      simp only [this, if_false]
      exact copyToBytes_append2 n r0 a r x h
  | err e => simp [hd] at h
  | panic e => simp [hd] at h
  | fuel => simp [hd] at h

theorem mergePayload_append (c : Codec) (bs : Bytes) (v : SVal) (r x : Bytes) (h : c.mergePayload bs = .ok (v, r)) :
    c.mergePayload (bs ++ x) = .ok (v, r ++ x) := by
  unfold mergePayload at h ⊢
  cases hs : c.shape with
  | varint =>
    simp only [hs] at h ⊢
    cases hd : decodeVarint bs with
    | ok q =>
      obtain ⟨n, r0⟩ := q
      rw [hd] at h; rw [decodeVarint_append bs n r0 x hd]
      cases h; rfl
    | err e => simp [hd] at h
    | panic e => simp [hd] at h
    | fuel => simp [hd] at h
  | fixed w =>
    simp only [hs] at h ⊢
    split at h
    · cases h
    · rename_i hl
      have : ¬ (bs ++ x).length < w := by simp; omega
      simp only [this, if_false]
      cases hc : copyToBytes w bs with
      | ok q =>
        obtain ⟨a, r0⟩ := q
        rw [hc] at h; rw [copyToBytes_append2 w bs a r0 x hc]
        cases h; rfl
      | err e => simp [hc] at h
      | panic e => simp [hc] at h
      | fuel => simp [hc] at h
  | lenDelim =>
    simp only [hs] at h ⊢
    cases hm : mergeBytes bs with
    | ok q =>
      obtain ⟨a, r0⟩ := q
      rw [hm] at h; rw [mergeBytes_append bs a r0 x hm]
      simp only at h ⊢
      split at h
      · cases h
      · rename_i hu; simp only [hu]; cases h; rfl
    | err e => simp [hm] at h
    | panic e => simp [hm] at h
    | fuel => simp [hm] at h

theorem merge_append (c : Codec) (wt : WireType) (bs : Bytes) (v : SVal) (r x : Bytes) (h : c.merge wt bs = .ok (v, r)) :
    c.merge wt (bs ++ x) = .ok (v, r ++ x) := by
  unfold merge at h ⊢
  cases hc : checkWireType c.wt wt with
  | ok u => rw [hc] at h; exact mergePayload_append c bs v r x h
  | err e => simp [hc] at h
  | panic e => simp [hc] at h
  | fuel => simp [hc] at h

theorem packedStep_stable (c : Codec) : StableStep c.packedStep := by
  intro acc bs acc' r x h
  unfold packedStep at h ⊢
  cases hm : c.merge c.wt bs with
  | ok q =>
    obtain ⟨v, r0⟩ := q
    rw [hm] at h; rw [merge_append c c.wt bs v r0 x hm]
    cases h; rfl
  | err e => simp [hm] at h
  | panic e => simp [hm] at h
  | fuel => simp [hm] at h

theorem mergeRepeated_append (c : Codec) (wt : WireType) (acc : List SVal) (bs : Bytes) (acc' : List SVal) (r x : Bytes)
    (h : c.mergeRepeated wt acc bs = .ok (acc', r)) : c.mergeRepeated wt acc (bs ++ x) = .ok (acc', r ++ x) := by
  unfold mergeRepeated at h ⊢
  split
  · rename_i hp
    simp only [hp, if_true] at h
    exact mergeLoop_append _ (packedStep_stable c) acc bs acc' r x h
  · rename_i hp
    simp only [hp, if_false] at h
    cases hc : checkWireType c.wt wt with
    | ok u =>
      rw [hc] at h
      simp only at h ⊢
      cases hm : c.merge wt bs with
      | ok q =>
        obtain ⟨v, r0⟩ := q
        rw [hm] at h; rw [merge_append c wt bs v r0 x hm]
        cases h; rfl
      | err e => simp [hm] at h
      | panic e => simp [hm] at h
      | fuel => simp [hm] at h
    | err e => simp [hc] at h
    | panic e => simp [hc] at h
    | fuel => simp [hc] at h

end Codec

/-! ### emitted merge_field -/

def StableField (rec : List FieldDecl → Slots → Nat → WireType → Bytes → Out (Slots × Bytes)) : Prop :=
  ∀ ds m tag wt bs m' r x, rec ds m tag wt bs = .ok (m', r) → rec ds m tag wt (bs ++ x) = .ok (m', r ++ x)

def RecurStable : Recur → Prop
  | none => True
  | some rec => StableField rec

theorem fieldStep_stable (rec) (h : StableField rec) (ds : List FieldDecl) : StableStep (fieldStep rec ds) := by
  intro m bs m' r x hs
  unfold fieldStep at hs ⊢
  cases hk : decodeKey bs with
  | ok q =>
    obtain ⟨⟨t, wt⟩, r0⟩ := q
    rw [hk] at hs; rw [decodeKey_append bs _ r0 x hk]
    exact h ds m t wt r0 m' r x hs
  | err e => simp [hk] at hs
  | panic e => simp [hk] at hs
  | fuel => simp [hk] at hs

theorem mergeE_append (s : Schema) (recur : Recur) (hr : RecurStable recur) (ty : FTy) (cur : EVal) (wt : WireType)
    (bs : Bytes) (v : EVal) (r x : Bytes) (h : mergeE s recur ty cur wt bs = .ok (v, r)) :
    mergeE s recur ty cur wt (bs ++ x) = .ok (v, r ++ x) := by
  unfold mergeE at h ⊢
  cases ty with
  | scalar c =>
    simp only at h ⊢
    cases hm : c.merge wt bs with
    | ok q =>
      obtain ⟨y, r0⟩ := q
      rw [hm] at h; rw [Codec.merge_append c wt bs y r0 x hm]
      cases h; rfl
    | err e => simp [hm] at h
    | panic e => simp [hm] at h
    | fuel => simp [hm] at h
  | msg i =>
    simp only at h ⊢
    cases hc : checkWireType .len wt with
    | ok u =>
      rw [hc] at h
      simp only at h ⊢
      cases recur with
      | none => simp at h
      | some rec =>
        simp only at h ⊢
        cases hm : mergeLoop (fieldStep rec (decls s i)) cur.fields bs with
        | ok q =>
          obtain ⟨fs, r0⟩ := q
          rw [hm] at h
          rw [mergeLoop_append _ (fieldStep_stable rec hr _) _ bs fs r0 x hm]
          cases h; rfl
        | err e => simp [hm] at h
        | panic e => simp [hm] at h
        | fuel => simp [hm] at h
    | err e => simp [hc] at h
    | panic e => simp [hc] at h
    | fuel => simp [hc] at h

theorem mergeSlot_append (s : Schema) (recur : Recur) (hr : RecurStable recur) (d : FieldDecl) (cur : Slot) (tag : Nat)
    (wt : WireType) (bs : Bytes) (v : Slot) (r x : Bytes) (h : mergeSlot s recur d cur tag wt bs = .ok (v, r)) :
    mergeSlot s recur d cur tag wt (bs ++ x) = .ok (v, r ++ x) := by
  unfold mergeSlot at h ⊢
  cases d with
  | single t ty opt =>
    cases opt with
    | false =>
      simp only at h ⊢
      cases cur with
      | req cv =>
        simp only at h ⊢
        cases hm : mergeE s recur ty cv wt bs with
        | ok q =>
          obtain ⟨y, r0⟩ := q
          rw [hm] at h; rw [mergeE_append s recur hr ty cv wt bs y r0 x hm]
          cases h; rfl
        | err e => simp [hm] at h
        | panic e => simp [hm] at h
        | fuel => simp [hm] at h
      | _ => simp at h
    | true =>
      simp only at h ⊢
      cases hm : mergeE s recur ty (optCur s ty cur) wt bs with
      | ok q =>
        obtain ⟨y, r0⟩ := q
        rw [hm] at h; rw [mergeE_append s recur hr ty _ wt bs y r0 x hm]
        cases h; rfl
      | err e => simp [hm] at h
      | panic e => simp [hm] at h
      | fuel => simp [hm] at h
  | rep t ty =>
    simp only at h ⊢
    cases cur with
    | rep xs =>
      simp only at h ⊢
      cases ty with
      | scalar c =>
        simp only at h ⊢
        cases hm : c.mergeRepeated wt [] bs with
        | ok q =>
          obtain ⟨new, r0⟩ := q
          rw [hm] at h; rw [Codec.mergeRepeated_append c wt [] bs new r0 x hm]
          cases h; rfl
        | err e => simp [hm] at h
        | panic e => simp [hm] at h
        | fuel => simp [hm] at h
      | msg i =>
        simp only at h ⊢
        cases hc : checkWireType .len wt with
        | ok u =>
          rw [hc] at h
          simp only at h ⊢
          cases hm : mergeE s recur (.msg i) (defaultE s (.msg i)) .len bs with
          | ok q =>
            obtain ⟨y, r0⟩ := q
            rw [hm] at h; rw [mergeE_append s recur hr _ _ _ bs y r0 x hm]
            cases h; rfl
          | err e => simp [hm] at h
          | panic e => simp [hm] at h
          | fuel => simp [hm] at h
        | err e => simp [hc] at h
        | panic e => simp [hc] at h
        | fuel => simp [hc] at h
    | _ => simp at h
  | map t kc vty =>
    simp only at h ⊢
    cases cur with
    | map kvs =>
      simp only at h ⊢
      cases recur with
      | none => simp at h
      | some rec =>
        simp only at h ⊢
        cases hm : mergeLoop (fieldStep rec (entryDecls kc vty)) (entry0 s kc vty) bs with
        | ok q =>
          obtain ⟨e, r0⟩ := q
          rw [hm] at h
          rw [mergeLoop_append _ (fieldStep_stable rec hr _) _ bs e r0 x hm]
          simp only at h ⊢
          cases he : entryResult e with
          | some kv => rw [he] at h; simp only at h ⊢; cases h; rfl
          | none => rw [he] at h; simp at h
        | err e => simp [hm] at h
        | panic e => simp [hm] at h
        | fuel => simp [hm] at h
    | _ => simp at h
  | oneof vs =>
    simp only at h ⊢
    cases hl : lookupVariant vs tag with
    | none => simp [hl] at h
    | some ty =>
      simp only [hl] at h ⊢
      cases hm : mergeE s recur ty (oneCur s ty tag cur) wt bs with
      | ok q =>
        obtain ⟨y, r0⟩ := q
        rw [hm] at h; rw [mergeE_append s recur hr ty _ wt bs y r0 x hm]
        cases h; rfl
      | err e => simp [hm] at h
      | panic e => simp [hm] at h
      | fuel => simp [hm] at h

theorem mergeSlots_append (s : Schema) (recur : Recur) (hr : RecurStable recur) (tag : Nat) (wt : WireType) (bs x : Bytes) :
    ∀ (ds : List FieldDecl) (m m' : Slots) (r : Bytes), mergeSlots s recur tag wt bs ds m = some (.ok (m', r)) →
      mergeSlots s recur tag wt (bs ++ x) ds m = some (.ok (m', r ++ x)) := by
  intro ds
  induction ds with
  | nil => intro m m' r h; simp [mergeSlots] at h
  | cons d ds ih =>
    intro m m' r h
    cases m with
    | nil => simp [mergeSlots] at h
    | cons v rest =>
      unfold mergeSlots at h ⊢
      by_cases ht : d.tags.contains tag = true
      · simp only [ht, if_true] at h ⊢
        cases hm : mergeSlot s recur d v tag wt bs with
        | ok q =>
          obtain ⟨v', r0⟩ := q
          rw [hm] at h; rw [mergeSlot_append s recur hr d v tag wt bs v' r0 x hm]
          simp only [Option.some.injEq, Out.ok.injEq, Prod.mk.injEq] at h
          obtain ⟨rfl, rfl⟩ := h
          rfl
        | err e => simp [hm] at h
        | panic e => simp [hm] at h
        | fuel => simp [hm] at h
      · simp only [ht, if_false] at h ⊢
        cases hm : mergeSlots s recur tag wt bs ds rest with
        | none => simp [hm] at h
        | some o =>
          rw [hm] at h
          cases o with
          | ok q =>
            obtain ⟨r', b'⟩ := q
            rw [ih rest r' b' hm]
            simp only [Option.some.injEq, Out.ok.injEq, Prod.mk.injEq] at h
            obtain ⟨rfl, rfl⟩ := h
            rfl
          | err e => simp at h
          | panic e => simp at h
          | fuel => simp at h

theorem mergeSlots_none_append (s : Schema) (recur : Recur) (tag : Nat) (wt : WireType) (bs x : Bytes) :
    ∀ (ds : List FieldDecl) (m : Slots), mergeSlots s recur tag wt bs ds m = none →
      mergeSlots s recur tag wt (bs ++ x) ds m = none := by
  intro ds
  induction ds with
  | nil => intro m h; simp [mergeSlots]
  | cons d ds ih =>
    intro m h
    cases m with
    | nil => simp [mergeSlots] at h
    | cons v rest =>
      unfold mergeSlots at h ⊢
      by_cases ht : d.tags.contains tag = true
      · simp only [ht, if_true] at h
        cases h
      · simp only [ht, if_false] at h ⊢
        cases hm : mergeSlots s recur tag wt bs ds rest with
        | none =>
          have hne : ¬ (false = true) := by simp
          simp only [ih rest hm]
          simp
        | some o => rw [hm] at h; cases o <;> simp at h

theorem mergeFieldWith_stable (s : Schema) (recur : Recur) (hr : RecurStable recur) (ctx : Nat) :
    StableField (mergeFieldWith s recur ctx) := by
  intro ds m tag wt bs m' r x h
  unfold mergeFieldWith at h ⊢
  cases hm : mergeSlots s recur tag wt bs ds m with
  | some o =>
    rw [hm] at h
    simp only at h
    subst h
    rw [mergeSlots_append s recur hr tag wt bs x ds m m' r hm]
  | none =>
    rw [hm] at h
    rw [mergeSlots_none_append s recur tag wt bs x ds m hm]
    simp only at h ⊢
    cases hsk : skipField ctx wt tag bs with
    | ok r0 =>
      rw [hsk] at h; rw [skipField_append ctx wt tag bs r0 x hsk]
      cases h; rfl
    | err e => simp [hsk] at h
    | panic e => simp [hsk] at h
    | fuel => simp [hsk] at h

theorem mergeField_stable (s : Schema) (ctx : Nat) : StableField (mergeField s ctx) := by
  induction ctx with
  | zero => unfold mergeField; exact mergeFieldWith_stable s none trivial 0
  | succ c ih => unfold mergeField; exact mergeFieldWith_stable s (some (mergeField s c)) ih (c + 1)

theorem recurOf_stable (s : Schema) (ctx : Nat) : RecurStable (recurOf s ctx) := by
  cases ctx with
  | zero => trivial
  | succ c => exact mergeField_stable s c

end Pilota.Proto
