import PilotaModel.Lemmas.AsyncBin
/-  The async binary reading interpreter and skipper on flat bytes vs. the in-memory reader. -/
namespace Pilota.Thrift.Async
open Pilota Pilota.Thrift

namespace ABin

/-! ### (A) in-memory reader accepts → async reader returns the same value and rest -/
mutual
theorem readVal_of_sync (e : Endian) (f : Nat) (t : TType) (bs : Bytes) (hb : bs.length < 2 ^ 63) (v : TVal) (r : Bytes)
    (h : Binary.readVal e f t bs = .ok (v, r)) : runF (readVal e f t) bs = .ok (v, r) := by
  cases f with
  | zero => simp [Binary.readVal] at h
  | succ f =>
    cases t with
    | stop => simp [Binary.readVal] at h
    | void => simp [Binary.readVal] at h
    | bool =>
      simp only [Binary.readVal] at h
      simp only [readVal, runF_bind, runF_readI, bindP]
      cases hx : Binary.readI e 1 bs <;> simp_all
    | i8 =>
      simp only [Binary.readVal] at h
      simp only [readVal, runF_bind, runF_readI, bindP]
      cases hx : Binary.readI e 1 bs <;> simp_all
    | i16 =>
      simp only [Binary.readVal] at h
      simp only [readVal, runF_bind, runF_readI, bindP]
      cases hx : Binary.readI e 2 bs <;> simp_all
    | i32 =>
      simp only [Binary.readVal] at h
      simp only [readVal, runF_bind, runF_readI, bindP]
      cases hx : Binary.readI e 4 bs <;> simp_all
    | i64 =>
      simp only [Binary.readVal] at h
      simp only [readVal, runF_bind, runF_readI, bindP]
      cases hx : Binary.readI e 8 bs <;> simp_all
    | double =>
      simp only [Binary.readVal] at h
      simp only [readVal, runF_bind, runF_readU, bindP]
      cases hx : Binary.readU e 8 bs <;> simp_all
    | binary =>
      simp only [Binary.readVal] at h
      simp only [readVal, runF_bind]
      cases hx : Binary.readBytes e bs with
      | ok p =>
        obtain ⟨b, r1⟩ := p
        simp only [hx, Out.ok.injEq, Prod.mk.injEq] at h
        obtain ⟨rfl, rfl⟩ := h
        simp [(readBytes_iff e bs hb (b, r1)).mpr hx, bindP]
      | err k => simp [hx] at h
      | panic m => simp [hx] at h
      | fuel => simp [hx] at h
    | uuid =>
      simp only [Binary.readVal] at h
      simp only [readVal, runF]
      cases hx : Binary.takeN 16 bs <;> simp_all
    | struct =>
      simp only [Binary.readVal] at h
      simp only [readVal, runF_bind]
      cases hx : Binary.readFields e f bs with
      | ok p =>
        obtain ⟨fs, r1⟩ := p
        simp only [hx, Out.ok.injEq, Prod.mk.injEq] at h
        obtain ⟨rfl, rfl⟩ := h
        simp [readFields_of_sync e f bs hb fs r1 hx, bindP]
      | err k => simp [hx] at h
      | panic m => simp [hx] at h
      | fuel => simp [hx] at h
    | list =>
      simp only [Binary.readVal] at h
      simp only [readVal, runF_bind]
      cases hx : Binary.readListBegin e bs with
      | ok p =>
        obtain ⟨⟨et, n⟩, r1⟩ := p
        simp only [hx] at h
        have hr1 : r1.length ≤ bs.length := runF_le _ _ _ _ (readListBegin_of_sync e bs _ hx)
        cases hy : Binary.readN e f et n r1 with
        | ok q =>
          obtain ⟨xs, r2⟩ := q
          simp only [hy, Out.ok.injEq, Prod.mk.injEq] at h
          obtain ⟨rfl, rfl⟩ := h
          simp [readListBegin_of_sync e bs _ hx, readN_of_sync e f et n r1 (by omega) xs r2 hy, bindP]
        | err k => simp [hy] at h
        | panic m => simp [hy] at h
        | fuel => simp [hy] at h
      | err k => simp [hx] at h
      | panic m => simp [hx] at h
      | fuel => simp [hx] at h
    | set =>
      simp only [Binary.readVal] at h
      simp only [readVal, runF_bind]
      cases hx : Binary.readListBegin e bs with
      | ok p =>
        obtain ⟨⟨et, n⟩, r1⟩ := p
        simp only [hx] at h
        have hr1 : r1.length ≤ bs.length := runF_le _ _ _ _ (readListBegin_of_sync e bs _ hx)
        cases hy : Binary.readN e f et n r1 with
        | ok q =>
          obtain ⟨xs, r2⟩ := q
          simp only [hy, Out.ok.injEq, Prod.mk.injEq] at h
          obtain ⟨rfl, rfl⟩ := h
          simp [readListBegin_of_sync e bs _ hx, readN_of_sync e f et n r1 (by omega) xs r2 hy, bindP]
        | err k => simp [hy] at h
        | panic m => simp [hy] at h
        | fuel => simp [hy] at h
      | err k => simp [hx] at h
      | panic m => simp [hx] at h
      | fuel => simp [hx] at h
    | map =>
      simp only [Binary.readVal] at h
      simp only [readVal, runF_bind]
      cases hx : Binary.readMapBegin e bs with
      | ok p =>
        obtain ⟨⟨kt, vt, n⟩, r1⟩ := p
        simp only [hx] at h
        have hr1 : r1.length ≤ bs.length := runF_le _ _ _ _ (readMapBegin_of_sync e bs _ hx)
        cases hy : Binary.readPairs e f kt vt n r1 with
        | ok q =>
          obtain ⟨xs, r2⟩ := q
          simp only [hy, Out.ok.injEq, Prod.mk.injEq] at h
          obtain ⟨rfl, rfl⟩ := h
          simp [readMapBegin_of_sync e bs _ hx, readPairs_of_sync e f kt vt n r1 (by omega) xs r2 hy, bindP]
        | err k => simp [hy] at h
        | panic m => simp [hy] at h
        | fuel => simp [hy] at h
      | err k => simp [hx] at h
      | panic m => simp [hx] at h
      | fuel => simp [hx] at h
theorem readFields_of_sync (e : Endian) (f : Nat) (bs : Bytes) (hb : bs.length < 2 ^ 63) (fs : TFields) (r : Bytes)
    (h : Binary.readFields e f bs = .ok (fs, r)) : runF (readFields e f) bs = .ok (fs, r) := by
  cases f with
  | zero => simp [Binary.readFields] at h
  | succ f =>
    simp only [Binary.readFields] at h
    simp only [readFields, runF_bind, runF_readFieldBegin]
    cases hx : Binary.readFieldBegin e bs with
    | ok p =>
      obtain ⟨⟨t, id⟩, r1⟩ := p
      simp only [hx] at h
      have hr1 : r1.length ≤ bs.length := runF_le (readFieldBegin e) bs _ r1 (by rw [runF_readFieldBegin]; exact hx)
      by_cases hs : t = .stop
      · simp only [hs, if_true, Out.ok.injEq, Prod.mk.injEq] at h
        obtain ⟨rfl, rfl⟩ := h
        simp [bindP, hs]
      · simp only [hs, if_false] at h
        cases hy : Binary.readVal e f t r1 with
        | ok q =>
          obtain ⟨v, r2⟩ := q
          simp only [hy] at h
          have hv := readVal_of_sync e f t r1 (by omega) v r2 hy
          have hr2 : r2.length ≤ r1.length := runF_le _ _ _ _ hv
          cases hz : Binary.readFields e f r2 with
          | ok q2 =>
            obtain ⟨rest, r3⟩ := q2
            simp only [hz, Out.ok.injEq, Prod.mk.injEq] at h
            obtain ⟨rfl, rfl⟩ := h
            simp [bindP, hs, runF_bind, hv, readFields_of_sync e f r2 (by omega) rest r3 hz]
          | err k => simp [hz] at h
          | panic m => simp [hz] at h
          | fuel => simp [hz] at h
        | err k => simp [hy] at h
        | panic m => simp [hy] at h
        | fuel => simp [hy] at h
    | err k => simp [hx] at h
    | panic m => simp [hx] at h
    | fuel => simp [hx] at h
theorem readN_of_sync (e : Endian) (f : Nat) (et : TType) (n : Nat) (bs : Bytes) (hb : bs.length < 2 ^ 63) (xs : TVals) (r : Bytes)
    (h : Binary.readN e f et n bs = .ok (xs, r)) : runF (readN e f et n) bs = .ok (xs, r) := by
  cases f with
  | zero => simp [Binary.readN] at h
  | succ f =>
    cases n with
    | zero =>
      simp only [Binary.readN, Out.ok.injEq, Prod.mk.injEq] at h
      obtain ⟨rfl, rfl⟩ := h
      simp [readN]
    | succ n =>
      simp only [Binary.readN] at h
      simp only [readN, runF_bind]
      cases hy : Binary.readVal e f et bs with
      | ok q =>
        obtain ⟨v, r2⟩ := q
        simp only [hy] at h
        have hv := readVal_of_sync e f et bs hb v r2 hy
        have hr2 : r2.length ≤ bs.length := runF_le _ _ _ _ hv
        cases hz : Binary.readN e f et n r2 with
        | ok q2 =>
          obtain ⟨rest, r3⟩ := q2
          simp only [hz, Out.ok.injEq, Prod.mk.injEq] at h
          obtain ⟨rfl, rfl⟩ := h
          simp [bindP, hv, readN_of_sync e f et n r2 (by omega) rest r3 hz]
        | err k => simp [hz] at h
        | panic m => simp [hz] at h
        | fuel => simp [hz] at h
      | err k => simp [hy] at h
      | panic m => simp [hy] at h
      | fuel => simp [hy] at h
theorem readPairs_of_sync (e : Endian) (f : Nat) (kt vt : TType) (n : Nat) (bs : Bytes) (hb : bs.length < 2 ^ 63) (xs : TPairs) (r : Bytes)
    (h : Binary.readPairs e f kt vt n bs = .ok (xs, r)) : runF (readPairs e f kt vt n) bs = .ok (xs, r) := by
  cases f with
  | zero => simp [Binary.readPairs] at h
  | succ f =>
    cases n with
    | zero =>
      simp only [Binary.readPairs, Out.ok.injEq, Prod.mk.injEq] at h
      obtain ⟨rfl, rfl⟩ := h
      simp [readPairs]
    | succ n =>
      simp only [Binary.readPairs] at h
      simp only [readPairs, runF_bind]
      cases hy : Binary.readVal e f kt bs with
      | ok q =>
        obtain ⟨k, r2⟩ := q
        simp only [hy] at h
        have hk := readVal_of_sync e f kt bs hb k r2 hy
        have hr2 : r2.length ≤ bs.length := runF_le _ _ _ _ hk
        cases hy' : Binary.readVal e f vt r2 with
        | ok q' =>
          obtain ⟨v, r2'⟩ := q'
          simp only [hy'] at h
          have hv := readVal_of_sync e f vt r2 (by omega) v r2' hy'
          have hr2' : r2'.length ≤ r2.length := runF_le _ _ _ _ hv
          cases hz : Binary.readPairs e f kt vt n r2' with
          | ok q2 =>
            obtain ⟨rest, r3⟩ := q2
            simp only [hz, Out.ok.injEq, Prod.mk.injEq] at h
            obtain ⟨rfl, rfl⟩ := h
            simp [bindP, hk, hv, readPairs_of_sync e f kt vt n r2' (by omega) rest r3 hz]
          | err k => simp [hz] at h
          | panic m => simp [hz] at h
          | fuel => simp [hz] at h
        | err k => simp [hy'] at h
        | panic m => simp [hy'] at h
        | fuel => simp [hy'] at h
      | err k => simp [hy] at h
      | panic m => simp [hy] at h
      | fuel => simp [hy] at h
end


/-! ### every value takes at least one byte; `n` elements take at least `n` -/

theorem bind_lt {α β} (p : Prog α) (f : α → Prog β)
    (hp : ∀ bs a r, runF p bs = .ok (a, r) → r.length < bs.length)
    (bs : Bytes) (b : β) (r : Bytes) (h : runF (p.bind f) bs = .ok (b, r)) : r.length < bs.length := by
  rw [runF_bind, bindP_ok] at h
  obtain ⟨a, r1, h1, h2⟩ := h
  have := hp bs a r1 h1
  have := runF_le _ _ _ _ h2
  omega

theorem readI_lt (e : Endian) (w : Nat) (hw : 0 < w) (bs : Bytes) (a : Int) (r : Bytes)
    (h : runF (readI e w) bs = .ok (a, r)) : r.length < bs.length := runF_need_lt w hw _ bs a r h

theorem readU_lt (e : Endian) (w : Nat) (hw : 0 < w) (bs : Bytes) (a : Nat) (r : Bytes)
    (h : runF (readU e w) bs = .ok (a, r)) : r.length < bs.length := runF_need_lt w hw _ bs a r h

theorem readTType_lt (bs : Bytes) (a : TType) (r : Bytes) (h : runF readTType bs = .ok (a, r)) : r.length < bs.length :=
  bind_lt readByte _ (fun bs a r h => runF_need_lt 1 (by decide) _ bs a r h) bs a r h

theorem readVal_lt (e : Endian) (f : Nat) (t : TType) (bs : Bytes) (v : TVal) (r : Bytes)
    (h : runF (readVal e f t) bs = .ok (v, r)) : r.length < bs.length := by
  cases f with
  | zero => simp [readVal, runF] at h
  | succ f =>
    cases t with
    | stop => simp [readVal] at h
    | void => simp [readVal] at h
    | bool => exact bind_lt _ _ (readI_lt e 1 (by decide)) bs v r h
    | i8 => exact bind_lt _ _ (readI_lt e 1 (by decide)) bs v r h
    | i16 => exact bind_lt _ _ (readI_lt e 2 (by decide)) bs v r h
    | i32 => exact bind_lt _ _ (readI_lt e 4 (by decide)) bs v r h
    | i64 => exact bind_lt _ _ (readI_lt e 8 (by decide)) bs v r h
    | double => exact bind_lt _ _ (readU_lt e 8 (by decide)) bs v r h
    | binary =>
      exact bind_lt _ _ (fun bs a r h => bind_lt _ _ (readI_lt e 4 (by decide)) bs a r h) bs v r h
    | uuid => exact runF_need_lt 16 (by decide) _ bs v r h
    | struct =>
      refine bind_lt _ _ (fun bs a r h => ?_) bs v r h
      cases f with
      | zero => simp [readFields, runF] at h
      | succ f => exact bind_lt _ _ (fun bs a r h => bind_lt _ _ readTType_lt bs a r h) bs a r h
    | list => exact bind_lt _ _ (fun bs a r h => bind_lt _ _ readTType_lt bs a r h) bs v r h
    | set => exact bind_lt _ _ (fun bs a r h => bind_lt _ _ readTType_lt bs a r h) bs v r h
    | map => exact bind_lt _ _ (fun bs a r h => bind_lt _ _ readTType_lt bs a r h) bs v r h

theorem readN_consumes (e : Endian) (f : Nat) (et : TType) (n : Nat) (bs : Bytes) (xs : TVals) (r : Bytes)
    (h : runF (readN e f et n) bs = .ok (xs, r)) : n + r.length ≤ bs.length := by
  induction n generalizing f bs xs with
  | zero =>
    cases f with
    | zero => simp [readN, runF] at h
    | succ f => simp only [readN, runF_ret, Out.ok.injEq, Prod.mk.injEq] at h; rw [h.2]; omega
  | succ n ih =>
    cases f with
    | zero => simp [readN, runF] at h
    | succ f =>
      simp only [readN, runF_bind, bindP_ok, runF_ret, Out.ok.injEq, Prod.mk.injEq] at h
      obtain ⟨v, r1, h1, vs, r2, h2, _, rfl⟩ := h
      have := readVal_lt e f et bs v r1 h1
      have := ih f r1 vs h2
      omega

theorem readPairs_consumes (e : Endian) (f : Nat) (kt vt : TType) (n : Nat) (bs : Bytes) (xs : TPairs) (r : Bytes)
    (h : runF (readPairs e f kt vt n) bs = .ok (xs, r)) : n + r.length ≤ bs.length := by
  induction n generalizing f bs xs with
  | zero =>
    cases f with
    | zero => simp [readPairs, runF] at h
    | succ f => simp only [readPairs, runF_ret, Out.ok.injEq, Prod.mk.injEq] at h; rw [h.2]; omega
  | succ n ih =>
    cases f with
    | zero => simp [readPairs, runF] at h
    | succ f =>
      simp only [readPairs, runF_bind, bindP_ok, runF_ret, Out.ok.injEq, Prod.mk.injEq] at h
      obtain ⟨k, r1, h1, v, r1', h1', vs, r2, h2, _, rfl⟩ := h
      have := readVal_lt e f kt bs k r1 h1
      have := runF_le _ _ _ _ h1'
      have := ih f r1' vs h2
      omega

/-! ### (B) async reader accepts → in-memory reader returns the same value and rest -/
mutual
theorem sync_of_readVal (e : Endian) (f : Nat) (t : TType) (bs : Bytes) (hb : bs.length < 2 ^ 63) (v : TVal) (r : Bytes)
    (h : runF (readVal e f t) bs = .ok (v, r)) : Binary.readVal e f t bs = .ok (v, r) := by
  cases f with
  | zero => simp [readVal, runF] at h
  | succ f =>
    cases t with
    | stop => simp [readVal] at h
    | void => simp [readVal] at h
    | bool =>
      simp only [readVal, runF_bind, runF_readI, bindP_ok, runF_ret, Out.ok.injEq, Prod.mk.injEq] at h
      obtain ⟨n, r1, h1, rfl, rfl⟩ := h
      simp [Binary.readVal, h1]
    | i8 =>
      simp only [readVal, runF_bind, runF_readI, bindP_ok, runF_ret, Out.ok.injEq, Prod.mk.injEq] at h
      obtain ⟨n, r1, h1, rfl, rfl⟩ := h
      simp [Binary.readVal, h1]
    | i16 =>
      simp only [readVal, runF_bind, runF_readI, bindP_ok, runF_ret, Out.ok.injEq, Prod.mk.injEq] at h
      obtain ⟨n, r1, h1, rfl, rfl⟩ := h
      simp [Binary.readVal, h1]
    | i32 =>
      simp only [readVal, runF_bind, runF_readI, bindP_ok, runF_ret, Out.ok.injEq, Prod.mk.injEq] at h
      obtain ⟨n, r1, h1, rfl, rfl⟩ := h
      simp [Binary.readVal, h1]
    | i64 =>
      simp only [readVal, runF_bind, runF_readI, bindP_ok, runF_ret, Out.ok.injEq, Prod.mk.injEq] at h
      obtain ⟨n, r1, h1, rfl, rfl⟩ := h
      simp [Binary.readVal, h1]
    | double =>
      simp only [readVal, runF_bind, runF_readU, bindP_ok, runF_ret, Out.ok.injEq, Prod.mk.injEq] at h
      obtain ⟨n, r1, h1, rfl, rfl⟩ := h
      simp [Binary.readVal, h1]
    | binary =>
      simp only [readVal, runF_bind, bindP_ok, runF_ret, Out.ok.injEq, Prod.mk.injEq] at h
      obtain ⟨b, r1, h1, rfl, rfl⟩ := h
      simp [Binary.readVal, (readBytes_iff e bs hb (b, r1)).mp h1]
    | uuid =>
      simp only [readVal, runF] at h
      cases hx : Binary.takeN 16 bs <;> simp_all [Binary.readVal]
    | struct =>
      simp only [readVal, runF_bind, bindP_ok, runF_ret, Out.ok.injEq, Prod.mk.injEq] at h
      obtain ⟨fs, r1, h1, rfl, rfl⟩ := h
      simp [Binary.readVal, sync_of_readFields e f bs hb fs r1 h1]
    | list =>
      simp only [readVal, runF_bind, bindP_ok, runF_ret, Out.ok.injEq, Prod.mk.injEq] at h
      obtain ⟨⟨et, n⟩, r1, h1, xs, r2, h2, rfl, rfl⟩ := h
      have hr1 := runF_le _ _ _ _ h1
      have hc := readN_consumes e f et n r1 xs r2 h2
      simp [Binary.readVal, sync_of_readListBegin e bs hb et n r1 h1 (by omega), sync_of_readN e f et n r1 (by omega) xs r2 h2]
    | set =>
      simp only [readVal, runF_bind, bindP_ok, runF_ret, Out.ok.injEq, Prod.mk.injEq] at h
      obtain ⟨⟨et, n⟩, r1, h1, xs, r2, h2, rfl, rfl⟩ := h
      have hr1 := runF_le _ _ _ _ h1
      have hc := readN_consumes e f et n r1 xs r2 h2
      simp [Binary.readVal, sync_of_readListBegin e bs hb et n r1 h1 (by omega), sync_of_readN e f et n r1 (by omega) xs r2 h2]
    | map =>
      simp only [readVal, runF_bind, bindP_ok, runF_ret, Out.ok.injEq, Prod.mk.injEq] at h
      obtain ⟨⟨kt, vt, n⟩, r1, h1, xs, r2, h2, rfl, rfl⟩ := h
      have hr1 := runF_le _ _ _ _ h1
      have hc := readPairs_consumes e f kt vt n r1 xs r2 h2
      simp [Binary.readVal, sync_of_readMapBegin e bs hb kt vt n r1 h1 (by omega), sync_of_readPairs e f kt vt n r1 (by omega) xs r2 h2]
theorem sync_of_readFields (e : Endian) (f : Nat) (bs : Bytes) (hb : bs.length < 2 ^ 63) (fs : TFields) (r : Bytes)
    (h : runF (readFields e f) bs = .ok (fs, r)) : Binary.readFields e f bs = .ok (fs, r) := by
  cases f with
  | zero => simp [readFields, runF] at h
  | succ f =>
    simp only [readFields, runF_bind, runF_readFieldBegin, bindP_ok] at h
    obtain ⟨⟨t, id⟩, r1, h1, h2⟩ := h
    have hr1 : r1.length ≤ bs.length := runF_le (readFieldBegin e) bs _ r1 (by rw [runF_readFieldBegin]; exact h1)
    by_cases hs : t = .stop
    · simp only [hs, if_true, runF_ret, Out.ok.injEq, Prod.mk.injEq] at h2
      obtain ⟨rfl, rfl⟩ := h2
      simp [Binary.readFields, h1, hs]
    · simp only [hs, if_false, runF_bind, bindP_ok, runF_ret, Out.ok.injEq, Prod.mk.injEq] at h2
      obtain ⟨v, r2, h3, rest, r3, h4, rfl, rfl⟩ := h2
      have hr2 := runF_le _ _ _ _ h3
      simp [Binary.readFields, h1, hs, sync_of_readVal e f t r1 (by omega) v r2 h3, sync_of_readFields e f r2 (by omega) rest r3 h4]
theorem sync_of_readN (e : Endian) (f : Nat) (et : TType) (n : Nat) (bs : Bytes) (hb : bs.length < 2 ^ 63) (xs : TVals) (r : Bytes)
    (h : runF (readN e f et n) bs = .ok (xs, r)) : Binary.readN e f et n bs = .ok (xs, r) := by
  cases f with
  | zero => simp [readN, runF] at h
  | succ f =>
    cases n with
    | zero =>
      simp only [readN, runF_ret, Out.ok.injEq, Prod.mk.injEq] at h
      obtain ⟨rfl, rfl⟩ := h
      simp [Binary.readN]
    | succ n =>
      simp only [readN, runF_bind, bindP_ok, runF_ret, Out.ok.injEq, Prod.mk.injEq] at h
      obtain ⟨v, r1, h1, vs, r2, h2, rfl, rfl⟩ := h
      have hr1 := runF_le _ _ _ _ h1
      simp [Binary.readN, sync_of_readVal e f et bs hb v r1 h1, sync_of_readN e f et n r1 (by omega) vs r2 h2]
theorem sync_of_readPairs (e : Endian) (f : Nat) (kt vt : TType) (n : Nat) (bs : Bytes) (hb : bs.length < 2 ^ 63) (xs : TPairs) (r : Bytes)
    (h : runF (readPairs e f kt vt n) bs = .ok (xs, r)) : Binary.readPairs e f kt vt n bs = .ok (xs, r) := by
  cases f with
  | zero => simp [readPairs, runF] at h
  | succ f =>
    cases n with
    | zero =>
      simp only [readPairs, runF_ret, Out.ok.injEq, Prod.mk.injEq] at h
      obtain ⟨rfl, rfl⟩ := h
      simp [Binary.readPairs]
    | succ n =>
      simp only [readPairs, runF_bind, bindP_ok, runF_ret, Out.ok.injEq, Prod.mk.injEq] at h
      obtain ⟨k, r1, h1, v, r1', h1', vs, r2, h2, rfl, rfl⟩ := h
      have hr1 := runF_le _ _ _ _ h1
      have hr1' := runF_le _ _ _ _ h1'
      simp [Binary.readPairs, sync_of_readVal e f kt bs hb k r1 h1, sync_of_readVal e f vt r1 (by omega) v r1' h1',
        sync_of_readPairs e f kt vt n r1' (by omega) vs r2 h2]
end


/-! ### the async skipper consumes exactly what the reading interpreter consumes -/
mutual
theorem skip_of_sync (e : Endian) (f : Nat) (t : TType) (bs : Bytes) (hb : bs.length < 2 ^ 63) (v : TVal) (r : Bytes)
    (h : Binary.readVal e f t bs = .ok (v, r)) (d : Nat) (hd : v.need ≤ d) : runF (skip e f d t) bs = .ok ((), r) := by
  cases f with
  | zero => simp [Binary.readVal] at h
  | succ f =>
    cases t with
    | stop => simp [Binary.readVal] at h
    | void => simp [Binary.readVal] at h
    | bool =>
      simp only [Binary.readVal] at h
      cases hx : Binary.readI e 1 bs with
      | ok p =>
        obtain ⟨n, r1⟩ := p
        simp only [hx, Out.ok.injEq, Prod.mk.injEq] at h
        obtain ⟨rfl, rfl⟩ := h
        cases d with
        | zero => simp [TVal.need] at hd
        | succ d => simp [skip, runF_bind, runF_readI, hx, bindP]
      | err k => simp [hx] at h
      | panic m => simp [hx] at h
      | fuel => simp [hx] at h
    | i8 =>
      simp only [Binary.readVal] at h
      cases hx : Binary.readI e 1 bs with
      | ok p =>
        obtain ⟨n, r1⟩ := p
        simp only [hx, Out.ok.injEq, Prod.mk.injEq] at h
        obtain ⟨rfl, rfl⟩ := h
        cases d with
        | zero => simp [TVal.need] at hd
        | succ d => simp [skip, runF_bind, runF_readI, hx, bindP]
      | err k => simp [hx] at h
      | panic m => simp [hx] at h
      | fuel => simp [hx] at h
    | i16 =>
      simp only [Binary.readVal] at h
      cases hx : Binary.readI e 2 bs with
      | ok p =>
        obtain ⟨n, r1⟩ := p
        simp only [hx, Out.ok.injEq, Prod.mk.injEq] at h
        obtain ⟨rfl, rfl⟩ := h
        cases d with
        | zero => simp [TVal.need] at hd
        | succ d => simp [skip, runF_bind, runF_readI, hx, bindP]
      | err k => simp [hx] at h
      | panic m => simp [hx] at h
      | fuel => simp [hx] at h
    | i32 =>
      simp only [Binary.readVal] at h
      cases hx : Binary.readI e 4 bs with
      | ok p =>
        obtain ⟨n, r1⟩ := p
        simp only [hx, Out.ok.injEq, Prod.mk.injEq] at h
        obtain ⟨rfl, rfl⟩ := h
        cases d with
        | zero => simp [TVal.need] at hd
        | succ d => simp [skip, runF_bind, runF_readI, hx, bindP]
      | err k => simp [hx] at h
      | panic m => simp [hx] at h
      | fuel => simp [hx] at h
    | i64 =>
      simp only [Binary.readVal] at h
      cases hx : Binary.readI e 8 bs with
      | ok p =>
        obtain ⟨n, r1⟩ := p
        simp only [hx, Out.ok.injEq, Prod.mk.injEq] at h
        obtain ⟨rfl, rfl⟩ := h
        cases d with
        | zero => simp [TVal.need] at hd
        | succ d => simp [skip, runF_bind, runF_readI, hx, bindP]
      | err k => simp [hx] at h
      | panic m => simp [hx] at h
      | fuel => simp [hx] at h
    | double =>
      simp only [Binary.readVal] at h
      cases hx : Binary.readU e 8 bs with
      | ok p =>
        obtain ⟨n, r1⟩ := p
        simp only [hx, Out.ok.injEq, Prod.mk.injEq] at h
        obtain ⟨rfl, rfl⟩ := h
        cases d with
        | zero => simp [TVal.need] at hd
        | succ d => simp [skip, runF_bind, runF_readU, hx, bindP]
      | err k => simp [hx] at h
      | panic m => simp [hx] at h
      | fuel => simp [hx] at h
    | binary =>
      simp only [Binary.readVal] at h
      cases hx : Binary.readBytes e bs with
      | ok p =>
        obtain ⟨b, r1⟩ := p
        simp only [hx, Out.ok.injEq, Prod.mk.injEq] at h
        obtain ⟨rfl, rfl⟩ := h
        cases d with
        | zero => simp [TVal.need] at hd
        | succ d => simp [skip, runF_bind, (readBytes_iff e bs hb (b, r1)).mpr hx, bindP]
      | err k => simp [hx] at h
      | panic m => simp [hx] at h
      | fuel => simp [hx] at h
    | uuid =>
      simp only [Binary.readVal] at h
      cases hx : Binary.takeN 16 bs with
      | ok p =>
        obtain ⟨b, r1⟩ := p
        simp only [hx, Out.ok.injEq, Prod.mk.injEq] at h
        obtain ⟨rfl, rfl⟩ := h
        cases d with
        | zero => simp [TVal.need] at hd
        | succ d => simp [skip, runF, hx]
      | err k => simp [hx] at h
      | panic m => simp [hx] at h
      | fuel => simp [hx] at h
    | struct =>
      simp only [Binary.readVal] at h
      cases hx : Binary.readFields e f bs with
      | ok p =>
        obtain ⟨fs, r1⟩ := p
        simp only [hx, Out.ok.injEq, Prod.mk.injEq] at h
        obtain ⟨rfl, rfl⟩ := h
        cases d with
        | zero => simp [TVal.need] at hd
        | succ d =>
          simp only [TVal.need] at hd
          simpa [skip] using skipFields_of_sync e f bs hb fs r1 hx d (by omega)
      | err k => simp [hx] at h
      | panic m => simp [hx] at h
      | fuel => simp [hx] at h
    | list =>
      simp only [Binary.readVal] at h
      cases hx : Binary.readListBegin e bs with
      | ok p =>
        obtain ⟨⟨et, n⟩, r1⟩ := p
        simp only [hx] at h
        have hr1 : r1.length ≤ bs.length := runF_le _ _ _ _ (readListBegin_of_sync e bs _ hx)
        cases hy : Binary.readN e f et n r1 with
        | ok q =>
          obtain ⟨xs, r2⟩ := q
          simp only [hy, Out.ok.injEq, Prod.mk.injEq] at h
          obtain ⟨rfl, rfl⟩ := h
          cases d with
          | zero => simp [TVal.need] at hd
          | succ d =>
            simp only [TVal.need] at hd
            simp [skip, runF_bind, readListBegin_of_sync e bs _ hx, bindP, skipN_of_sync e f et n r1 (by omega) xs r2 hy d (by omega)]
        | err k => simp [hy] at h
        | panic m => simp [hy] at h
        | fuel => simp [hy] at h
      | err k => simp [hx] at h
      | panic m => simp [hx] at h
      | fuel => simp [hx] at h
    | set =>
      simp only [Binary.readVal] at h
      cases hx : Binary.readListBegin e bs with
      | ok p =>
        obtain ⟨⟨et, n⟩, r1⟩ := p
        simp only [hx] at h
        have hr1 : r1.length ≤ bs.length := runF_le _ _ _ _ (readListBegin_of_sync e bs _ hx)
        cases hy : Binary.readN e f et n r1 with
        | ok q =>
          obtain ⟨xs, r2⟩ := q
          simp only [hy, Out.ok.injEq, Prod.mk.injEq] at h
          obtain ⟨rfl, rfl⟩ := h
          cases d with
          | zero => simp [TVal.need] at hd
          | succ d =>
            simp only [TVal.need] at hd
            simp [skip, runF_bind, readListBegin_of_sync e bs _ hx, bindP, skipN_of_sync e f et n r1 (by omega) xs r2 hy d (by omega)]
        | err k => simp [hy] at h
        | panic m => simp [hy] at h
        | fuel => simp [hy] at h
      | err k => simp [hx] at h
      | panic m => simp [hx] at h
      | fuel => simp [hx] at h
    | map =>
      simp only [Binary.readVal] at h
      cases hx : Binary.readMapBegin e bs with
      | ok p =>
        obtain ⟨⟨kt, vt, n⟩, r1⟩ := p
        simp only [hx] at h
        have hr1 : r1.length ≤ bs.length := runF_le _ _ _ _ (readMapBegin_of_sync e bs _ hx)
        cases hy : Binary.readPairs e f kt vt n r1 with
        | ok q =>
          obtain ⟨xs, r2⟩ := q
          simp only [hy, Out.ok.injEq, Prod.mk.injEq] at h
          obtain ⟨rfl, rfl⟩ := h
          cases d with
          | zero => simp [TVal.need] at hd
          | succ d =>
            simp only [TVal.need] at hd
            simp [skip, runF_bind, readMapBegin_of_sync e bs _ hx, bindP, skipPairs_of_sync e f kt vt n r1 (by omega) xs r2 hy d (by omega)]
        | err k => simp [hy] at h
        | panic m => simp [hy] at h
        | fuel => simp [hy] at h
      | err k => simp [hx] at h
      | panic m => simp [hx] at h
      | fuel => simp [hx] at h
theorem skipFields_of_sync (e : Endian) (f : Nat) (bs : Bytes) (hb : bs.length < 2 ^ 63) (fs : TFields) (r : Bytes)
    (h : Binary.readFields e f bs = .ok (fs, r)) (d : Nat) (hd : fs.need ≤ d) : runF (skipFields e f d) bs = .ok ((), r) := by
  cases f with
  | zero => simp [Binary.readFields] at h
  | succ f =>
    simp only [Binary.readFields] at h
    simp only [skipFields, runF_bind, runF_readFieldBegin]
    cases hx : Binary.readFieldBegin e bs with
    | ok p =>
      obtain ⟨⟨t, id⟩, r1⟩ := p
      simp only [hx] at h
      have hr1 : r1.length ≤ bs.length := runF_le (readFieldBegin e) bs _ r1 (by rw [runF_readFieldBegin]; exact hx)
      by_cases hs : t = .stop
      · simp only [hs, if_true, Out.ok.injEq, Prod.mk.injEq] at h
        obtain ⟨rfl, rfl⟩ := h
        simp [bindP, hs]
      · simp only [hs, if_false] at h
        cases hy : Binary.readVal e f t r1 with
        | ok q =>
          obtain ⟨v, r2⟩ := q
          simp only [hy] at h
          have hr2 : r2.length ≤ r1.length := runF_le _ _ _ _ (readVal_of_sync e f t r1 (by omega) v r2 hy)
          cases hz : Binary.readFields e f r2 with
          | ok q2 =>
            obtain ⟨rest, r3⟩ := q2
            simp only [hz, Out.ok.injEq, Prod.mk.injEq] at h
            obtain ⟨rfl, rfl⟩ := h
            simp only [TFields.need] at hd
            simp [bindP, hs, runF_bind, skip_of_sync e f t r1 (by omega) v r2 hy d (by omega),
              skipFields_of_sync e f r2 (by omega) rest r3 hz d (by omega)]
          | err k => simp [hz] at h
          | panic m => simp [hz] at h
          | fuel => simp [hz] at h
        | err k => simp [hy] at h
        | panic m => simp [hy] at h
        | fuel => simp [hy] at h
    | err k => simp [hx] at h
    | panic m => simp [hx] at h
    | fuel => simp [hx] at h
theorem skipN_of_sync (e : Endian) (f : Nat) (et : TType) (n : Nat) (bs : Bytes) (hb : bs.length < 2 ^ 63) (xs : TVals) (r : Bytes)
    (h : Binary.readN e f et n bs = .ok (xs, r)) (d : Nat) (hd : xs.need ≤ d) : runF (skipN e f d et n) bs = .ok ((), r) := by
  cases f with
  | zero => simp [Binary.readN] at h
  | succ f =>
    cases n with
    | zero =>
      simp only [Binary.readN, Out.ok.injEq, Prod.mk.injEq] at h
      obtain ⟨rfl, rfl⟩ := h
      simp [skipN]
    | succ n =>
      simp only [Binary.readN] at h
      simp only [skipN, runF_bind]
      cases hy : Binary.readVal e f et bs with
      | ok q =>
        obtain ⟨v, r2⟩ := q
        simp only [hy] at h
        have hr2 : r2.length ≤ bs.length := runF_le _ _ _ _ (readVal_of_sync e f et bs hb v r2 hy)
        cases hz : Binary.readN e f et n r2 with
        | ok q2 =>
          obtain ⟨rest, r3⟩ := q2
          simp only [hz, Out.ok.injEq, Prod.mk.injEq] at h
          obtain ⟨rfl, rfl⟩ := h
          simp only [TVals.need] at hd
          simp [bindP, skip_of_sync e f et bs hb v r2 hy d (by omega), skipN_of_sync e f et n r2 (by omega) rest r3 hz d (by omega)]
        | err k => simp [hz] at h
        | panic m => simp [hz] at h
        | fuel => simp [hz] at h
      | err k => simp [hy] at h
      | panic m => simp [hy] at h
      | fuel => simp [hy] at h
theorem skipPairs_of_sync (e : Endian) (f : Nat) (kt vt : TType) (n : Nat) (bs : Bytes) (hb : bs.length < 2 ^ 63) (xs : TPairs) (r : Bytes)
    (h : Binary.readPairs e f kt vt n bs = .ok (xs, r)) (d : Nat) (hd : xs.need ≤ d) : runF (skipPairs e f d kt vt n) bs = .ok ((), r) := by
  cases f with
  | zero => simp [Binary.readPairs] at h
  | succ f =>
    cases n with
    | zero =>
      simp only [Binary.readPairs, Out.ok.injEq, Prod.mk.injEq] at h
      obtain ⟨rfl, rfl⟩ := h
      simp [skipPairs]
    | succ n =>
      simp only [Binary.readPairs] at h
      simp only [skipPairs, runF_bind]
      cases hy : Binary.readVal e f kt bs with
      | ok q =>
        obtain ⟨k, r2⟩ := q
        simp only [hy] at h
        have hr2 : r2.length ≤ bs.length := runF_le _ _ _ _ (readVal_of_sync e f kt bs hb k r2 hy)
        cases hy' : Binary.readVal e f vt r2 with
        | ok q' =>
          obtain ⟨v, r2'⟩ := q'
          simp only [hy'] at h
          have hr2' : r2'.length ≤ r2.length := runF_le _ _ _ _ (readVal_of_sync e f vt r2 (by omega) v r2' hy')
          cases hz : Binary.readPairs e f kt vt n r2' with
          | ok q2 =>
            obtain ⟨rest, r3⟩ := q2
            simp only [hz, Out.ok.injEq, Prod.mk.injEq] at h
            obtain ⟨rfl, rfl⟩ := h
            simp only [TPairs.need] at hd
            simp [bindP, skip_of_sync e f kt bs hb k r2 hy d (by omega), skip_of_sync e f vt r2 (by omega) v r2' hy' d (by omega),
              skipPairs_of_sync e f kt vt n r2' (by omega) rest r3 hz d (by omega)]
          | err k => simp [hz] at h
          | panic m => simp [hz] at h
          | fuel => simp [hz] at h
        | err k => simp [hy'] at h
        | panic m => simp [hy'] at h
        | fuel => simp [hy'] at h
      | err k => simp [hy] at h
      | panic m => simp [hy] at h
      | fuel => simp [hy] at h
end

end ABin
end Pilota.Thrift.Async
