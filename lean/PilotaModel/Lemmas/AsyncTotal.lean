import PilotaModel.Lemmas.AsyncCmpRV
/-  The async interpreters' recursion budget `3·len + 3` is never the reason they stop: every value
    consumes at least one byte (compact: a bool only when none is pending), so the budget outlasts the input. -/
namespace Pilota.Thrift.Async
open Pilota Pilota.Thrift

theorem bindP_fuel {α β} (x : Out (α × Bytes)) (F : α → Bytes → Out (β × Bytes)) :
    bindP x F = .fuel ↔ x = .fuel ∨ ∃ a r, x = .ok (a, r) ∧ F a r = .fuel := by
  cases x with
  | ok p =>
    obtain ⟨a, r⟩ := p
    simp only [bindP, Out.ok.injEq, Prod.mk.injEq, false_or, reduceCtorEq]
    constructor
    · intro h; exact ⟨a, r, ⟨rfl, rfl⟩, h⟩
    · rintro ⟨a1, r1, ⟨rfl, rfl⟩, h⟩; exact h
  | err k => simp [bindP]
  | panic m => simp [bindP]
  | fuel => simp [bindP]

/-- programs that never run out of budget, whatever the input. -/
def NoFuel {α} (p : Prog α) : Prop := ∀ bs, runF p bs ≠ .fuel

theorem NoFuel.ret {α} (a : α) : NoFuel (Prog.ret a) := by intro bs h; cases h
theorem NoFuel.fail {α} (k : ErrKind) : NoFuel (Prog.fail k : Prog α) := by intro bs h; cases h
theorem NoFuel.need {α} (n : Nat) (k : Bytes → Prog α) (h : ∀ b, NoFuel (k b)) : NoFuel (Prog.need n k) := by
  intro bs hf
  simp only [runF] at hf
  cases hx : Binary.takeN n bs with
  | ok q => obtain ⟨b, r⟩ := q; simp only [hx] at hf; exact h b r hf
  | err e => simp [hx] at hf
  | panic m => unfold Binary.takeN at hx; split at hx <;> cases hx
  | fuel => unfold Binary.takeN at hx; split at hx <;> cases hx
theorem NoFuel.bind {α β} (p : Prog α) (f : α → Prog β) (hp : NoFuel p) (hf : ∀ a, NoFuel (f a)) : NoFuel (p.bind f) := by
  intro bs h
  rw [runF_bind, bindP_fuel] at h
  rcases h with h | ⟨a, r, _, h⟩
  · exact hp bs h
  · exact hf a r h

namespace ABin

theorem nf_readU (e : Endian) (w : Nat) : NoFuel (readU e w) := NoFuel.need _ _ (fun _ => NoFuel.ret _)
theorem nf_readI (e : Endian) (w : Nat) : NoFuel (readI e w) := NoFuel.need _ _ (fun _ => NoFuel.ret _)
theorem nf_readByte : NoFuel readByte := NoFuel.need _ _ (fun _ => NoFuel.ret _)
theorem nf_readTType : NoFuel readTType :=
  NoFuel.bind _ _ nf_readByte (fun b => by cases h : TType.ofByte b <;> simp only <;> first | exact NoFuel.ret _ | exact NoFuel.fail _)
theorem nf_readBytes (e : Endian) : NoFuel (readBytes e) :=
  NoFuel.bind _ _ (nf_readI e 4) (fun len => by
    by_cases h : len < 0
    · simp only [h, if_true]; exact NoFuel.fail _
    · simp only [h, if_false]; exact NoFuel.need _ _ (fun _ => NoFuel.ret _))
theorem nf_readFieldBegin (e : Endian) : NoFuel (readFieldBegin e) :=
  NoFuel.bind _ _ nf_readTType (fun t => by
    by_cases h : t = .stop
    · simp only [h, if_true]; exact NoFuel.ret _
    · simp only [h, if_false]; exact NoFuel.bind _ _ (nf_readI e 2) (fun _ => NoFuel.ret _))
theorem nf_readListBegin (e : Endian) : NoFuel (readListBegin e) :=
  NoFuel.bind _ _ nf_readTType (fun _ => NoFuel.bind _ _ (nf_readI e 4) (fun _ => NoFuel.ret _))
theorem nf_readMapBegin (e : Endian) : NoFuel (readMapBegin e) :=
  NoFuel.bind _ _ nf_readTType (fun _ => NoFuel.bind _ _ nf_readTType (fun _ => NoFuel.bind _ _ (nf_readI e 4) (fun _ => NoFuel.ret _)))

mutual
theorem readVal_total (e : Endian) (f : Nat) (t : TType) (bs : Bytes) (hf : 3 * bs.length + 3 ≤ f) :
    runF (readVal e f t) bs ≠ .fuel := by
  cases f with
  | zero => omega
  | succ f =>
    cases t with
    | stop => simp [readVal]
    | void => simp [readVal]
    | bool => exact NoFuel.bind _ _ (nf_readI e 1) (fun _ => NoFuel.ret _) bs
    | i8 => exact NoFuel.bind _ _ (nf_readI e 1) (fun _ => NoFuel.ret _) bs
    | i16 => exact NoFuel.bind _ _ (nf_readI e 2) (fun _ => NoFuel.ret _) bs
    | i32 => exact NoFuel.bind _ _ (nf_readI e 4) (fun _ => NoFuel.ret _) bs
    | i64 => exact NoFuel.bind _ _ (nf_readI e 8) (fun _ => NoFuel.ret _) bs
    | double => exact NoFuel.bind _ _ (nf_readU e 8) (fun _ => NoFuel.ret _) bs
    | binary => exact NoFuel.bind _ _ (nf_readBytes e) (fun _ => NoFuel.ret _) bs
    | uuid => exact NoFuel.need _ _ (fun _ => NoFuel.ret _) bs
    | struct =>
      intro h
      simp only [readVal, runF_bind, bindP_fuel, runF_ret] at h
      rcases h with h | ⟨a, r, _, h⟩
      · exact readFields_total e f bs (by omega) h
      · cases h
    | list =>
      intro h
      simp only [readVal, runF_bind, bindP_fuel, runF_ret] at h
      rcases h with h | ⟨⟨et, n⟩, r1, h1, h2⟩
      · exact nf_readListBegin e bs h
      · have hl := bind_lt _ _ readTType_lt bs _ r1 h1
        rcases h2 with h2 | ⟨_, _, _, h2⟩
        · exact readN_total e f et n r1 (by omega) h2
        · cases h2
    | set =>
      intro h
      simp only [readVal, runF_bind, bindP_fuel, runF_ret] at h
      rcases h with h | ⟨⟨et, n⟩, r1, h1, h2⟩
      · exact nf_readListBegin e bs h
      · have hl := bind_lt _ _ readTType_lt bs _ r1 h1
        rcases h2 with h2 | ⟨_, _, _, h2⟩
        · exact readN_total e f et n r1 (by omega) h2
        · cases h2
    | map =>
      intro h
      simp only [readVal, runF_bind, bindP_fuel, runF_ret] at h
      rcases h with h | ⟨⟨kt, vt, n⟩, r1, h1, h2⟩
      · exact nf_readMapBegin e bs h
      · have hl := bind_lt _ _ readTType_lt bs _ r1 h1
        rcases h2 with h2 | ⟨_, _, _, h2⟩
        · exact readPairs_total e f kt vt n r1 (by omega) h2
        · cases h2
theorem readFields_total (e : Endian) (f : Nat) (bs : Bytes) (hf : 3 * bs.length + 2 ≤ f) : runF (readFields e f) bs ≠ .fuel := by
  cases f with
  | zero => omega
  | succ f =>
    intro h
    simp only [readFields, runF_bind, bindP_fuel] at h
    rcases h with h | ⟨⟨t, id⟩, r1, h1, h2⟩
    · exact nf_readFieldBegin e bs h
    · have hl := bind_lt _ _ readTType_lt bs _ r1 h1
      by_cases hs : t = .stop
      · simp [hs] at h2
      · simp only [hs, if_false, runF_bind, bindP_fuel, runF_ret] at h2
        rcases h2 with h2 | ⟨v, r2, h3, h4⟩
        · exact readVal_total e f t r1 (by omega) h2
        · have hl2 := readVal_lt e f t r1 v r2 h3
          rcases h4 with h4 | ⟨_, _, _, h4⟩
          · exact readFields_total e f r2 (by omega) h4
          · cases h4
theorem readN_total (e : Endian) (f : Nat) (et : TType) (n : Nat) (bs : Bytes) (hf : 3 * bs.length + 4 ≤ f) :
    runF (readN e f et n) bs ≠ .fuel := by
  cases f with
  | zero => omega
  | succ f =>
    cases n with
    | zero => simp [readN]
    | succ n =>
      intro h
      simp only [readN, runF_bind, bindP_fuel, runF_ret] at h
      rcases h with h | ⟨v, r1, h1, h2⟩
      · exact readVal_total e f et bs (by omega) h
      · have hl := readVal_lt e f et bs v r1 h1
        rcases h2 with h2 | ⟨_, _, _, h2⟩
        · exact readN_total e f et n r1 (by omega) h2
        · cases h2
theorem readPairs_total (e : Endian) (f : Nat) (kt vt : TType) (n : Nat) (bs : Bytes) (hf : 3 * bs.length + 4 ≤ f) :
    runF (readPairs e f kt vt n) bs ≠ .fuel := by
  cases f with
  | zero => omega
  | succ f =>
    cases n with
    | zero => simp [readPairs]
    | succ n =>
      intro h
      simp only [readPairs, runF_bind, bindP_fuel, runF_ret] at h
      rcases h with h | ⟨k, r1, h1, h2⟩
      · exact readVal_total e f kt bs (by omega) h
      · have hl := readVal_lt e f kt bs k r1 h1
        rcases h2 with h2 | ⟨v, r2, h3, h4⟩
        · exact readVal_total e f vt r1 (by omega) h2
        · have hl2 := readVal_lt e f vt r1 v r2 h3
          rcases h4 with h4 | ⟨_, _, _, h4⟩
          · exact readPairs_total e f kt vt n r2 (by omega) h4
          · cases h4
end

end ABin

namespace ACmp
open Compact
open ABin (runF_ret runF_fail)

theorem nf_readByte : NoFuel readByte := ABin.nf_readByte
theorem nf_gatherVar (m : Nat) : NoFuel (gatherVar m) := by
  induction m with
  | zero => exact NoFuel.need _ _ (fun _ => NoFuel.fail _)
  | succ m ih =>
    refine NoFuel.need _ _ (fun b => ?_)
    by_cases h : (b.headD 0).toNat < 128
    · simp only [h, if_true]; exact NoFuel.ret _
    · simp only [h, if_false]; exact NoFuel.bind _ _ ih (fun _ => NoFuel.ret _)
theorem nf_readVarU (w : Nat) : NoFuel (readVarU w) := NoFuel.bind _ _ (nf_gatherVar _) (fun _ => NoFuel.ret _)
theorem nf_readVarS (w : Nat) : NoFuel (readVarS w) := NoFuel.bind _ _ (nf_gatherVar _) (fun _ => NoFuel.ret _)
theorem nf_readBytes : NoFuel readBytes := NoFuel.bind _ _ (nf_readVarU 4) (fun _ => NoFuel.need _ _ (fun _ => NoFuel.ret _))
theorem nf_readSize : NoFuel readSize := NoFuel.bind _ _ (nf_readVarU 4) (fun _ => NoFuel.ret _)
theorem nf_readBool (s : CR) : NoFuel (readBool s) := by
  unfold readBool
  cases s.pendingBool with
  | some b => exact NoFuel.ret _
  | none =>
    refine NoFuel.bind _ _ nf_readByte (fun b => ?_)
    by_cases h1 : b = 1
    · simp only [h1, if_true]; exact NoFuel.ret _
    · by_cases h2 : b = 2
      · simp only [h1, h2, if_true, if_false]; exact NoFuel.ret _
      · simp only [h1, h2, if_false]; exact NoFuel.fail _
theorem nf_readStructEnd (s : CR) : NoFuel (readStructEnd s) := by
  unfold readStructEnd
  cases s.stack with
  | nil => exact NoFuel.fail _
  | cons l st => exact NoFuel.ret _
theorem nf_readCollBegin : NoFuel readCollBegin :=
  NoFuel.bind _ _ nf_readByte (fun h => by
    cases ht : ttypeOfCompact (h % 16) with
    | none => simp only; exact NoFuel.fail _
    | some et =>
      simp only
      by_cases h15 : h / 16 ≠ 15
      · rw [if_pos h15]; exact NoFuel.ret _
      · rw [if_neg h15]; exact NoFuel.bind _ _ nf_readSize (fun _ => NoFuel.ret _))
theorem nf_readMapBegin : NoFuel readMapBegin :=
  NoFuel.bind _ _ (nf_readVarU 4) (fun n => by
    by_cases hz : toS 4 n = 0
    · rw [if_pos hz]; exact NoFuel.ret _
    · rw [if_neg hz]
      refine NoFuel.bind _ _ nf_readByte (fun h => ?_)
      cases ttypeOfCompact (h / 16) <;> cases ttypeOfCompact (h % 16) <;> simp only <;> first | exact NoFuel.ret _ | exact NoFuel.fail _)
theorem nf_readFieldBegin (s : CR) : NoFuel (readFieldBegin s) := by
  intro bs h
  rw [runF_readFieldBegin] at h
  cases hx : Compact.readFieldBegin s bs with
  | ok p => simp [hx, pack] at h
  | err k => simp [hx, pack] at h
  | panic m => simp [hx, pack] at h
  | fuel =>
    -- the in-memory `read_field_begin` has no budget at all
    unfold Compact.readFieldBegin at hx
    cases hb : Compact.readByte bs with
    | ok q =>
      obtain ⟨b, r⟩ := q
      simp only [hb] at hx
      generalize (if b % 16 = 1 then ({ s with pendingBool := some true } : CR)
        else if b % 16 = 2 then { s with pendingBool := some false } else s) = s1 at hx
      cases ht : ttypeOfCompact (b % 16) with
      | none => simp [ht] at hx
      | some t =>
        simp only [ht] at hx
        cases t <;> simp only [] at hx <;>
          first
          | cases hx
          | (split at hx
             · split at hx <;> cases hx
             · have hv := nf_readVarS 2 r
               rw [runF_readVarS] at hv
               cases hy : Pilota.readVarS 2 r <;> simp_all)
    | err k => simp [hb] at hx
    | panic m => simp [hb] at hx
    | fuel => cases bs <;> simp [Compact.readByte, Binary.readByte] at hb

mutual
theorem readVal_total (f : Nat) (t : TType) (s : CR) (bs : Bytes) (hp : s.pendingBool = none ∨ t = .bool)
    (hf : 3 * bs.length + 3 ≤ f) : runF (readVal f t s) bs ≠ .fuel := by
  cases f with
  | zero => omega
  | succ f =>
    cases t with
    | stop => simp [readVal]
    | void => simp [readVal]
    | bool => exact NoFuel.bind _ _ (nf_readBool s) (fun _ => NoFuel.ret _) bs
    | i8 => exact NoFuel.bind _ _ (ABin.nf_readI .be 1) (fun _ => NoFuel.ret _) bs
    | i16 => exact NoFuel.bind _ _ (nf_readVarS 2) (fun _ => NoFuel.ret _) bs
    | i32 => exact NoFuel.bind _ _ (nf_readVarS 4) (fun _ => NoFuel.ret _) bs
    | i64 => exact NoFuel.bind _ _ (nf_readVarS 8) (fun _ => NoFuel.ret _) bs
    | double => exact NoFuel.bind _ _ (ABin.nf_readU .le 8) (fun _ => NoFuel.ret _) bs
    | binary => exact NoFuel.bind _ _ (nf_readBytes) (fun _ => NoFuel.ret _) bs
    | uuid => exact NoFuel.need _ _ (fun _ => NoFuel.ret _) bs
    | struct =>
      intro h
      simp only [readVal, runF_bind, bindP_fuel] at h
      rcases h with h | ⟨⟨fs, s1⟩, r1, _, h⟩
      · exact readFields_total f (readStructBegin s) bs (by simpa [readStructBegin] using hp.resolve_right (by decide)) (by omega) h
      · rcases h with h | ⟨_, _, _, h⟩
        · exact nf_readStructEnd s1 r1 h
        · cases h
    | list =>
      intro h
      simp only [readVal, runF_bind, bindP_fuel, runF_ret] at h
      rcases h with h | ⟨⟨et, n⟩, r1, h1, h2⟩
      · exact nf_readCollBegin bs h
      · have hl := ABin.bind_lt _ _ readByte_lt bs _ r1 h1
        rcases h2 with h2 | ⟨_, _, _, h2⟩
        · exact readN_total f et n s r1 (hp.resolve_right (by decide)) (by omega) h2
        · cases h2
    | set =>
      intro h
      simp only [readVal, runF_bind, bindP_fuel, runF_ret] at h
      rcases h with h | ⟨⟨et, n⟩, r1, h1, h2⟩
      · exact nf_readCollBegin bs h
      · have hl := ABin.bind_lt _ _ readByte_lt bs _ r1 h1
        rcases h2 with h2 | ⟨_, _, _, h2⟩
        · exact readN_total f et n s r1 (hp.resolve_right (by decide)) (by omega) h2
        · cases h2
    | map =>
      intro h
      simp only [readVal, runF_bind, bindP_fuel, runF_ret] at h
      rcases h with h | ⟨⟨kt, vt, n⟩, r1, h1, h2⟩
      · exact nf_readMapBegin bs h
      · have hl := ABin.bind_lt _ _ (readVarU_lt 4 (by decide)) bs _ r1 h1
        rcases h2 with h2 | ⟨_, _, _, h2⟩
        · exact readPairs_total f kt vt n s r1 (hp.resolve_right (by decide)) (by omega) h2
        · cases h2
theorem readFields_total (f : Nat) (s : CR) (bs : Bytes) (hp : s.pendingBool = none) (hf : 3 * bs.length + 2 ≤ f) :
    runF (readFields f s) bs ≠ .fuel := by
  cases f with
  | zero => omega
  | succ f =>
    intro h
    simp only [readFields, runF_bind, bindP_fuel] at h
    rcases h with h | ⟨⟨⟨t, id⟩, s1⟩, r1, h1, h2⟩
    · exact nf_readFieldBegin s bs h
    · have hl := ABin.bind_lt _ _ readByte_lt bs _ r1 h1
      have hp1 := readFieldBegin_pending s hp bs t id s1 r1 ((pack_ok _ _ _ _).mp (by rw [← runF_readFieldBegin]; exact h1))
      by_cases hs : t = .stop
      · simp [hs] at h2
      · simp only [hs, if_false, runF_bind, bindP_fuel, runF_ret] at h2
        rcases h2 with h2 | ⟨⟨v, s2⟩, r2, h3, h4⟩
        · exact readVal_total f t s1 r1 hp1 (by omega) h2
        · have hl2 := runF_le _ _ _ _ h3
          have hp2 := readVal_pending f t s1 r1 v s2 r2 h3 hp1
          rcases h4 with h4 | ⟨_, _, _, h4⟩
          · exact readFields_total f s2 r2 hp2 (by omega) h4
          · cases h4
theorem readN_total (f : Nat) (et : TType) (n : Nat) (s : CR) (bs : Bytes) (hp : s.pendingBool = none) (hf : 3 * bs.length + 4 ≤ f) :
    runF (readN f et n s) bs ≠ .fuel := by
  cases f with
  | zero => omega
  | succ f =>
    cases n with
    | zero => simp [readN]
    | succ n =>
      intro h
      simp only [readN, runF_bind, bindP_fuel, runF_ret] at h
      rcases h with h | ⟨⟨v, s1⟩, r1, h1, h2⟩
      · exact readVal_total f et s bs (Or.inl hp) (by omega) h
      · have hl := readVal_lt f et s hp bs _ r1 h1
        have hp1 := readVal_pending f et s bs v s1 r1 h1 (Or.inl hp)
        rcases h2 with h2 | ⟨_, _, _, h2⟩
        · exact readN_total f et n s1 r1 hp1 (by omega) h2
        · cases h2
theorem readPairs_total (f : Nat) (kt vt : TType) (n : Nat) (s : CR) (bs : Bytes) (hp : s.pendingBool = none)
    (hf : 3 * bs.length + 4 ≤ f) : runF (readPairs f kt vt n s) bs ≠ .fuel := by
  cases f with
  | zero => omega
  | succ f =>
    cases n with
    | zero => simp [readPairs]
    | succ n =>
      intro h
      simp only [readPairs, runF_bind, bindP_fuel, runF_ret] at h
      rcases h with h | ⟨⟨k, s1⟩, r1, h1, h2⟩
      · exact readVal_total f kt s bs (Or.inl hp) (by omega) h
      · have hl := readVal_lt f kt s hp bs _ r1 h1
        have hp1 := readVal_pending f kt s bs k s1 r1 h1 (Or.inl hp)
        rcases h2 with h2 | ⟨⟨v, s2⟩, r2, h3, h4⟩
        · exact readVal_total f vt s1 r1 (Or.inl hp1) (by omega) h2
        · have hl2 := readVal_lt f vt s1 hp1 r1 _ r2 h3
          have hp2 := readVal_pending f vt s1 r1 v s2 r2 h3 (Or.inl hp1)
          rcases h4 with h4 | ⟨_, _, _, h4⟩
          · exact readPairs_total f kt vt n s2 r2 hp2 (by omega) h4
          · cases h4
end

end ACmp
end Pilota.Thrift.Async
