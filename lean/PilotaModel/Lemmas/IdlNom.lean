import PilotaModel.Idl.Parser
/-
  Invariant tower for C16.

  `Good w p` bundles, for every input `s`:
    * a successful `p` returns a SUFFIX of its input (so nothing grows, loops terminate);
    * `p` never takes a panic branch;
    * `p` runs out of recursion budget only when `s` contains at least `w` nesting characters
      (`<`, `[`, `{`: the characters that open a recursive frame of `Ty::parse`, `ConstValue::parse`).
  Every combinator preserves `Good w`; consuming a tag that contains a nesting character pays
  for one more level (`Good.andThen_tag_nest`).
-/
namespace Pilota.Idl

def isNestChar (c : Char) : Bool := c == '<' || c == '[' || c == '{'

/-- number of characters that can open a recursive parser frame -/
def nest (s : List Char) : Nat := s.countP isNestChar

theorem nest_append (a b : List Char) : nest (a ++ b) = nest a + nest b := List.countP_append

theorem nest_suffix {r s : List Char} (h : r <:+ s) : nest r ≤ nest s :=
  List.Sublist.countP_le h.sublist

theorem nest_le_length (s : List Char) : nest s ≤ s.length := List.countP_le_length

/-- the invariant on one result, relative to the input `s` it was computed from -/
def PR.Inv {α} (w : Nat) (s : List Char) : PR α → Prop
  | .ok _ r => r <:+ s
  | .panic _ => False
  | .fuel => ¬ nest s < w
  | _ => True

@[simp] theorem PR.Inv_ok {α} (w s) (a : α) (r) : (PR.ok a r).Inv w s = (r <:+ s) := rfl
@[simp] theorem PR.Inv_err {α} (w s) : (PR.err : PR α).Inv w s = True := rfl
@[simp] theorem PR.Inv_fail {α} (w s) : (PR.fail : PR α).Inv w s = True := rfl
@[simp] theorem PR.Inv_panic {α} (w s m) : (PR.panic m : PR α).Inv w s = False := rfl
@[simp] theorem PR.Inv_fuel {α} (w s) : (PR.fuel : PR α).Inv w s = (¬ nest s < w) := rfl

def Good {α} (w : Nat) (p : P α) : Prop := ∀ s, (p s).Inv w s

namespace PR.Inv
variable {α β : Type} {w : Nat}

theorem weaken {x : PR α} {r s : List Char} (h : r <:+ s) (hx : x.Inv w r) : x.Inv w s := by
  cases x with
  | ok a r' => exact List.IsSuffix.trans hx h
  | err => trivial
  | fail => trivial
  | panic m => exact hx
  | fuel => intro hh; exact hx (Nat.lt_of_le_of_lt (nest_suffix h) hh)

theorem bind {x : PR α} {f : α → List Char → PR β} {s : List Char} (hx : x.Inv w s)
    (hf : ∀ a r, x = .ok a r → (f a r).Inv w r) : (x.bind f).Inv w s := by
  cases x with
  | ok a r => exact weaken hx (hf _ _ rfl)
  | err => trivial
  | fail => trivial
  | panic m => exact hx
  | fuel => exact hx

theorem map {x : PR α} (f : α → β) {s : List Char} (hx : x.Inv w s) : (x.map f).Inv w s :=
  bind hx (fun _ r _ => List.suffix_refl r)

/-- `bind` where the continuation's result is already known relative to an outer input `s`. -/
theorem bind_to {x : PR α} {f : α → List Char → PR β} {s0 s : List Char} (h0 : s0 <:+ s) (hx : x.Inv w s0)
    (hf : ∀ a r, x = .ok a r → (f a r).Inv w s) : (x.bind f).Inv w s := by
  cases x with
  | ok a r => exact hf _ _ rfl
  | err => trivial
  | fail => trivial
  | panic m => exact hx
  | fuel => exact weaken (x := (PR.fuel : PR β)) h0 hx

end PR.Inv

namespace Good
variable {α β : Type} {w : Nat}

theorem suffix {p : P α} (h : Good w p) {s a r} (e : p s = .ok a r) : r <:+ s := by
  have := h s; rw [e] at this; exact this

theorem length_le {p : P α} (h : Good w p) {s a r} (e : p s = .ok a r) : r.length ≤ s.length :=
  (h.suffix e).length_le

theorem no_panic {p : P α} (h : Good w p) (s m) : p s ≠ .panic m := by
  intro e; have := h s; rw [e] at this; exact this

theorem no_fuel {p : P α} (h : Good w p) {s} (hs : nest s < w) : p s ≠ .fuel := by
  intro e; have := h s; rw [e] at this; exact this hs

theorem mono {p : P α} {w' : Nat} (h : Good w p) (hw : w' ≤ w) : Good w' p := by
  intro s; have := h s
  cases hp : p s with
  | ok a r => rw [hp] at this; exact this
  | err => trivial
  | fail => trivial
  | panic m => rw [hp] at this; exact this
  | fuel => rw [hp] at this; intro hh; exact this (Nat.lt_of_lt_of_le hh hw)

theorem ret (a : α) : Good w (ret a) := fun s => List.suffix_refl s

theorem pmap (f : α → β) {p : P α} (h : Good w p) : Good w (pmap f p) := fun s => (h s).map f

theorem mapRes {p : P α} (f : α → Option β) (h : Good w p) : Good w (mapRes p f) := by
  intro s; refine (h s).bind ?_
  intro a r _; cases f a <;> simp

theorem pmapChecked {p : P α} (f : α → Except String β) (h : Good w p)
    (hv : ∀ s a r, p s = .ok a r → ∃ b, f a = .ok b) : Good w (pmapChecked f p) := by
  intro s; refine (h s).bind ?_
  intro a r e; obtain ⟨b, hb⟩ := hv _ _ _ e; simp [hb]

theorem andThen {p : P α} {f : α → P β} (hp : Good w p) (hf : ∀ a, Good w (f a)) : Good w (andThen p f) :=
  fun s => (hp s).bind (fun a r _ => hf a r)

theorem skip {p : P α} {q : P β} (hp : Good w p) (hq : Good w q) : Good w (skip p q) :=
  andThen hp (fun _ => hq)

theorem terminated {p : P α} {q : P β} (hp : Good w p) (hq : Good w q) : Good w (terminated p q) :=
  andThen hp (fun _ => pmap _ hq)

theorem opt {p : P α} (h : Good w p) : Good w (opt p) := by
  intro s; have := h s; unfold Idl.opt
  cases hp : p s with
  | ok a r => rw [hp] at this; exact this
  | err => exact List.suffix_refl s
  | fail => trivial
  | panic m => rw [hp] at this; exact this
  | fuel => rw [hp] at this; exact this

theorem alt_nil : Good w (alt ([] : List (P α))) := fun _ => trivial

theorem alt_cons {p : P α} {ps : List (P α)} (hp : Good w p) (hps : Good w (alt ps)) : Good w (alt (p :: ps)) := by
  intro s; have h1 := hp s; have h2 := hps s
  simp only [Idl.alt]
  cases e : p s with
  | err => exact h2
  | ok a r => rw [e] at h1; exact h1
  | fail => trivial
  | panic m => rw [e] at h1; exact h1
  | fuel => rw [e] at h1; exact h1

theorem alt_of_forall {ps : List (P α)} (h : ∀ p ∈ ps, Good w p) : Good w (alt ps) := by
  induction ps with
  | nil => exact alt_nil
  | cons p ps ih => exact alt_cons (h p (by simp)) (ih (fun q hq => h q (by simp [hq])))

theorem peek {p : P α} (h : Good w p) : Good w (peek p) := by
  intro s; have := h s; unfold Idl.peek
  cases hp : p s with
  | ok a r => exact List.suffix_refl s
  | err => trivial
  | fail => trivial
  | panic m => rw [hp] at this; exact this
  | fuel => rw [hp] at this; exact this

theorem pnot {p : P α} (h : Good w p) : Good w (pnot p) := by
  intro s; have := h s; unfold Idl.pnot
  cases hp : p s with
  | ok a r => trivial
  | err => exact List.suffix_refl s
  | fail => trivial
  | panic m => rw [hp] at this; exact this
  | fuel => rw [hp] at this; exact this

theorem recognize {p : P α} (h : Good w p) : Good w (recognize p) :=
  fun s => (h s).bind (fun _ r _ => List.suffix_refl r)

theorem eof : Good w eof := by
  intro s; unfold Idl.eof; cases s <;> simp

end Good

theorem stripPrefix_eq {t s r : List Char} (h : stripPrefix t s = some r) : s = t ++ r := by
  induction t generalizing s with
  | nil => simp [stripPrefix] at h; simp [h]
  | cons c t ih =>
    cases s with
    | nil => simp [stripPrefix] at h
    | cons d s =>
      simp only [stripPrefix] at h
      split at h
      · rename_i hcd; subst hcd; rw [ih h]; rfl
      · cases h

theorem stripPrefix_append (t r : List Char) : stripPrefix t (t ++ r) = some r := by
  induction t with
  | nil => rfl
  | cons c t ih => simp [stripPrefix, ih]

namespace Good
variable {α β : Type} {w : Nat}

theorem tag (t : List Char) : Good w (tag t) := by
  intro s; unfold Idl.tag
  cases h : stripPrefix t s with
  | none => trivial
  | some r => show r <:+ s; rw [stripPrefix_eq h]; exact List.suffix_append _ _

/-- a tag that contains a nesting character pays for one level of budget -/
theorem andThen_tag_nest {t : List Char} {f : List Char → P β} (ht : 1 ≤ nest t) (hf : ∀ a, Good w (f a)) :
    Good (w + 1) (Idl.andThen (Idl.tag t) f) := by
  intro s; unfold Idl.andThen Idl.tag
  cases h : stripPrefix t s with
  | none => trivial
  | some r =>
    have hs := stripPrefix_eq h
    have h2 := hf t r
    show (f t r).Inv (w + 1) s
    cases e2 : f t r with
    | ok b r' => rw [e2] at h2; show r' <:+ s; rw [hs]; exact List.IsSuffix.trans h2 (List.suffix_append _ _)
    | err => trivial
    | fail => trivial
    | panic m => rw [e2] at h2; exact h2
    | fuel =>
      rw [e2] at h2
      intro hh; apply h2; rw [hs, nest_append] at hh; omega

end Good

theorem stripPrefixNoCase_eq {t s m r : List Char} (h : stripPrefixNoCase t s = some (m, r)) :
    s = m ++ r ∧ m.length = t.length ∧ ∀ i (hi : i < m.length) (hj : i < t.length), lowerEq m[i] t[i] = true := by
  induction t generalizing s m r with
  | nil => simp [stripPrefixNoCase] at h; obtain ⟨rfl, rfl⟩ := h; simp
  | cons c t ih =>
    cases s with
    | nil => simp [stripPrefixNoCase] at h
    | cons d s =>
      simp only [stripPrefixNoCase] at h
      split at h
      · rename_i hl
        cases h2 : stripPrefixNoCase t s with
        | none => simp [h2] at h
        | some mr =>
          obtain ⟨m', r'⟩ := mr
          simp only [h2, Option.some.injEq, Prod.mk.injEq] at h
          obtain ⟨rfl, rfl⟩ := h
          obtain ⟨e1, e2, e3⟩ := ih h2
          refine ⟨by rw [e1]; rfl, by simp [e2], ?_⟩
          intro i hi hj
          cases i with
          | zero => exact hl
          | succ i => simp only [List.getElem_cons_succ]; exact e3 i (by simpa using hi) (by simpa using hj)
      · cases h

/-- the only characters whose ASCII lower-case form is `e` are `e` and `E`: one byte each, so
`tag_no_case("e")` never splits inside a character. -/
theorem lowerEq_e_utf8 (c : Char) (h : lowerEq c 'e' = true) : c.utf8Size = 1 := by
  unfold lowerEq at h
  have h' : c.toLower = 'e' := by simpa using h
  unfold Char.toLower at h'
  split at h'
  · rename_i hr
    unfold Char.utf8Size
    have : c.val ≤ 127 := UInt32.le_trans hr.2 (by decide)
    simp [this]
  · subst h'; decide

namespace Good
variable {α β : Type} {w : Nat}

theorem tagNoCase_e : Good w (tagNoCase ['e']) := by
  intro s; unfold Idl.tagNoCase
  cases h : stripPrefixNoCase ['e'] s with
  | none => trivial
  | some mr =>
    obtain ⟨m, r⟩ := mr
    obtain ⟨e1, e2, e3⟩ := stripPrefixNoCase_eq h
    simp only
    match m, e2 with
    | [c], _ =>
      have hc := e3 0 (by simp) (by simp)
      simp only [List.getElem_cons_zero] at hc
      have : utf8Len [c] = utf8Len ['e'] := by
        simp only [utf8Len, List.map, List.sum_cons, List.sum_nil, lowerEq_e_utf8 c hc]; decide
      simp only [this, if_true]
      show r <:+ s
      rw [e1]; exact List.suffix_append _ _

theorem satisfy (f : Char → Bool) : Good w (satisfy f) := by
  intro s; unfold Idl.satisfy
  cases s with
  | nil => trivial
  | cons c r =>
    by_cases h : f c
    · simp only [h, if_true]; exact List.suffix_cons c r
    · simp only [h]; trivial

theorem oneOf (cs : List Char) : Good w (oneOf cs) := satisfy _
theorem noneOf (cs : List Char) : Good w (noneOf cs) := satisfy _

theorem takeWhile (f : Char → Bool) : Good w (takeWhile f) := fun _ => List.dropWhile_suffix f

theorem takeWhile1 (f : Char → Bool) : Good w (takeWhile1 f) := by
  intro s; unfold Idl.takeWhile1
  cases s with
  | nil => trivial
  | cons c r =>
    by_cases h : f c
    · simp only [h, if_true]; exact List.dropWhile_suffix f
    · simp only [h]; trivial

theorem takeTill (f : Char → Bool) : Good w (takeTill f) := takeWhile _
theorem digit1 : Good w digit1 := takeWhile1 _
theorem hexDigit1 : Good w hexDigit1 := takeWhile1 _
theorem multispace1 : Good w multispace1 := takeWhile1 _

end Good

theorem findSub_eq {t s b r : List Char} (h : findSub t s = some (b, r)) : s = b ++ r := by
  induction s generalizing b r with
  | nil =>
    simp only [findSub] at h
    split at h
    · simp at h; obtain ⟨rfl, rfl⟩ := h; rfl
    · cases h
  | cons c s ih =>
    simp only [findSub] at h
    split at h
    · simp at h; obtain ⟨rfl, rfl⟩ := h; rfl
    · cases h2 : findSub t s with
      | none => simp [h2] at h
      | some br =>
        obtain ⟨b', r'⟩ := br
        simp only [h2, Option.some.injEq, Prod.mk.injEq] at h
        obtain ⟨rfl, rfl⟩ := h
        rw [ih h2]; rfl

namespace Good
variable {α β : Type} {w : Nat}

theorem takeUntil (t : List Char) : Good w (takeUntil t) := by
  intro s; unfold Idl.takeUntil
  cases h : findSub t s with
  | none => trivial
  | some br =>
    obtain ⟨b, r⟩ := br
    show r <:+ s; rw [findSub_eq h]; exact List.suffix_append _ _

/-- the loop of `many0`: with fuel above the input length the budget is never the reason to stop. -/
theorem many0F {p : P α} (hp : Good w p) : ∀ (n : Nat) (s : List Char), s.length < n →
    (Idl.many0F p n s).Inv w s := by
  intro n
  induction n with
  | zero => intro s h; omega
  | succ n ih =>
    intro s hn
    have h1 := hp s
    simp only [Idl.many0F]
    cases e : p s with
    | ok a r =>
      rw [e] at h1
      simp only
      split
      · trivial
      · rename_i hne
        have hlt : r.length < s.length := Nat.lt_of_le_of_ne (List.IsSuffix.length_le h1) hne
        exact PR.Inv.weaken h1 ((ih r (by omega)).map _)
    | err => exact List.suffix_refl s
    | fail => trivial
    | panic m => rw [e] at h1; exact h1
    | fuel => rw [e] at h1; exact h1

theorem many0 {p : P α} (hp : Good w p) : Good w (many0 p) :=
  fun s => many0F hp (s.length + 1) s (by omega)

theorem many1 {p : P α} (hp : Good w p) : Good w (many1 p) := by
  intro s; unfold Idl.many1
  exact (hp s).bind (fun a r _ => (many0F hp (r.length + 1) r (by omega)).map _)

theorem sepLoopF {sep : P β} {p : P α} (hs : Good w sep) (hp : Good w p) : ∀ (n : Nat) (i : List Char), i.length < n →
    (Idl.sepLoopF sep p n i).Inv w i := by
  intro n
  induction n with
  | zero => intro s h; omega
  | succ n ih =>
    intro i hn
    have h1 := hs i
    simp only [Idl.sepLoopF]
    cases e : sep i with
    | ok b i1 =>
      rw [e] at h1
      simp only
      split
      · trivial
      · rename_i hne
        have hlt : i1.length < i.length := Nat.lt_of_le_of_ne (List.IsSuffix.length_le h1) hne
        have h2 := hp i1
        cases e2 : p i1 with
        | ok a i2 =>
          rw [e2] at h2
          have h3 := ih i2 (by have := List.IsSuffix.length_le h2; omega)
          exact PR.Inv.weaken (List.IsSuffix.trans h2 h1) (h3.map _)
        | err => exact List.suffix_refl i
        | fail => trivial
        | panic m => rw [e2] at h2; exact h2
        | fuel => rw [e2] at h2; exact PR.Inv.weaken (x := (PR.fuel : PR (List α))) h1 h2
    | err => exact List.suffix_refl i
    | fail => trivial
    | panic m => rw [e] at h1; exact h1
    | fuel => rw [e] at h1; exact h1

theorem separatedList1 {sep : P β} {p : P α} (hs : Good w sep) (hp : Good w p) : Good w (separatedList1 sep p) := by
  intro s; unfold Idl.separatedList1
  exact (hp s).bind (fun a r _ => (sepLoopF hs hp (r.length + 1) r (by omega)).map _)

theorem manyTillF {p : P α} {g : P β} (hp : Good w p) (hg : Good w g) : ∀ (n : Nat) (s : List Char), s.length < n →
    (Idl.manyTillF p g n s).Inv w s := by
  intro n
  induction n with
  | zero => intro s h; omega
  | succ n ih =>
    intro s hn
    have h0 := hg s
    simp only [Idl.manyTillF]
    cases e0 : g s with
    | ok b r => rw [e0] at h0; exact h0
    | err =>
      refine (hp s).bind ?_
      intro a r e
      have h1 : r <:+ s := hp.suffix e
      split
      · trivial
      · rename_i hne
        have hlt : r.length < s.length := Nat.lt_of_le_of_ne (List.IsSuffix.length_le h1) hne
        exact (ih r (by omega)).map _
    | fail => trivial
    | panic m => rw [e0] at h0; exact h0
    | fuel => rw [e0] at h0; exact h0

theorem manyTill {p : P α} {g : P β} (hp : Good w p) (hg : Good w g) : Good w (manyTill p g) :=
  fun s => manyTillF hp hg (s.length + 1) s (by omega)

/-- `escaped`: `i` is always a suffix of `input`; the `unwrap()` is guarded by the loop condition. -/
theorem escapedF {normal : P α} {esc : P β} (ctrl : Char) (hn : Good w normal) (he : Good w esc) (input : List Char) :
    ∀ (n : Nat) (i : List Char), i.length < n → i <:+ input →
    (Idl.escapedF normal ctrl esc input n i).Inv w input := by
  intro n
  induction n with
  | zero => intro s h; omega
  | succ n ih =>
    intro i hlen hi
    simp only [Idl.escapedF]
    split
    · exact List.nil_suffix
    · rename_i hne
      have h1 := hn i
      cases e : normal i with
      | ok a i2 =>
        rw [e] at h1
        simp only
        split
        · exact List.nil_suffix
        · split
          · exact List.IsSuffix.trans h1 hi
          · rename_i hne2
            have hlt : i2.length < i.length := Nat.lt_of_le_of_ne (List.IsSuffix.length_le h1) hne2
            exact ih i2 (by omega) (List.IsSuffix.trans h1 hi)
      | err =>
        cases i with
        | nil => simp at hne
        | cons c rest =>
          simp only
          split
          · split
            · trivial
            · have hrest : rest <:+ input := List.IsSuffix.trans (List.suffix_cons c rest) hi
              refine PR.Inv.bind_to hrest (he rest) ?_
              intro b i2 e2
              have h2 : i2 <:+ rest := he.suffix e2
              split
              · exact List.nil_suffix
              · exact ih i2 (by have := List.IsSuffix.length_le h2; simp at hlen; omega) (List.IsSuffix.trans h2 hrest)
          · split
            · trivial
            · exact hi
      | fail => trivial
      | panic m => rw [e] at h1; exact h1
      | fuel => rw [e] at h1; exact PR.Inv.weaken (x := (PR.fuel : PR (List Char))) hi h1

theorem escaped {normal : P α} {esc : P β} (ctrl : Char) (hn : Good w normal) (he : Good w esc) :
    Good w (escaped normal ctrl esc) :=
  fun s => escapedF ctrl hn he s (s.length + 1) s (by omega) (List.suffix_refl s)

theorem permutation2 {p : P α} {q : P β} (hp : Good w p) (hq : Good w q) : Good w (permutation2 p q) := by
  intro s; unfold Idl.permutation2
  have h1 := hp s
  cases e : p s with
  | ok a s1 => rw [e] at h1; exact PR.Inv.weaken h1 ((hq s1).map _)
  | err => exact (hq s).bind (fun b s1 _ => (hp s1).map _)
  | fail => trivial
  | panic m => rw [e] at h1; exact h1
  | fuel => rw [e] at h1; exact h1

end Good
end Pilota.Idl
