/-  Small tactic macros shared by the totality / skip lemmas. -/
namespace Pilota

/-- split every `match` / `if` of the goal (recursively), closing what `simp_all` closes. -/
macro "osplit" : tactic => `(tactic| ((repeat' (split <;> try simp_all)) <;> try simp_all))

/-- the same on a hypothesis; the equations produced by `split` stay in the context. -/
macro "osplit_at" h:ident : tactic => `(tactic| ((repeat' (split at $h:ident <;> try (simp at $h:ident))) <;> try (simp at $h:ident)))

end Pilota
