import PilotaModel.TGen.Typed
import PilotaModel.Lemmas.ProjMono
/-  Helper lemmas for the C13 round trip (Lemmas/KeepRT.lean): the restricted document, lawfulness of `TVal.beq`,
    hash-container inserts over distinct elements, shape lemmas for `shuf`. -/
namespace Pilota.TGen
open Pilota Pilota.Thrift

/-! ### `restrict` -/

theorem restrict_find (d : Doc) (keep : String → Field → Bool) (n : String) :
    (restrict d keep).find n = (d.find n).map (restrictDef keep n) := by
  unfold restrict Doc.find
  induction d with
  | nil => rfl
  | cons p d ih =>
    simp only [List.map_cons, List.find?_cons]
    by_cases h : (p.1 == n) = true
    · simp only [h, Option.map_some]
      have : p.1 = n := by simpa using h
      rw [this]
    · simp only [h]
      exact ih

theorem restrict_length (d : Doc) (keep : String → Field → Bool) : (restrict d keep).length = d.length := by
  simp [restrict]

theorem restrict_ttypeOf (d : Doc) (keep : String → Field → Bool) : ∀ (f : Nat) (t : STy),
    ttypeOf (restrict d keep) f t = ttypeOf d f t := by
  intro f
  induction f with
  | zero => intro t; cases t <;> simp [ttypeOf]
  | succ f ih =>
    intro t
    cases t <;> simp only [ttypeOf]
    rename_i n
    rw [restrict_find]
    cases hd : d.find n with
    | none => simp
    | some df => cases df <;> simp [restrictDef, ih]

theorem restrict_ttype (d : Doc) (keep : String → Field → Bool) (t : STy) : (restrict d keep).ttype t = d.ttype t := by
  unfold Doc.ttype
  rw [restrict_length, restrict_ttypeOf]

/-! ### `TVal.beq` is equality -/

mutual
theorem TVal.beq_iff : ∀ (a b : TVal), TVal.beq a b = true ↔ a = b
  | .bool _, b => by cases b <;> simp [TVal.beq]
  | .i8 _, b => by cases b <;> simp [TVal.beq]
  | .i16 _, b => by cases b <;> simp [TVal.beq]
  | .i32 _, b => by cases b <;> simp [TVal.beq]
  | .i64 _, b => by cases b <;> simp [TVal.beq]
  | .dbl _, b => by cases b <;> simp [TVal.beq]
  | .bin _, b => by cases b <;> simp [TVal.beq]
  | .uuid _, b => by cases b <;> simp [TVal.beq]
  | .struct x, b => by cases b <;> simp [TVal.beq, TFields.beq_iff x]
  | .list t x, b => by cases b <;> simp [TVal.beq, TVals.beq_iff x]
  | .set t x, b => by cases b <;> simp [TVal.beq, TVals.beq_iff x]
  | .map k v x, b => by cases b <;> simp [TVal.beq, TPairs.beq_iff x, and_assoc]
theorem TVals.beq_iff : ∀ (a b : TVals), TVals.beq a b = true ↔ a = b
  | .nil, b => by cases b <;> simp [TVals.beq]
  | .cons x xs, b => by cases b <;> simp [TVals.beq, TVal.beq_iff x, TVals.beq_iff xs]
theorem TFields.beq_iff : ∀ (a b : TFields), TFields.beq a b = true ↔ a = b
  | .nil, b => by cases b <;> simp [TFields.beq]
  | .cons i x xs, b => by cases b <;> simp [TFields.beq, TVal.beq_iff x, TFields.beq_iff xs, and_assoc]
theorem TPairs.beq_iff : ∀ (a b : TPairs), TPairs.beq a b = true ↔ a = b
  | .nil, b => by cases b <;> simp [TPairs.beq]
  | .cons k v xs, b => by cases b <;> simp [TPairs.beq, TVal.beq_iff k, TVal.beq_iff v, TPairs.beq_iff xs, and_assoc]
end

end Pilota.TGen

namespace Pilota.TGen
open Pilota Pilota.Thrift

/-! ### hash-container inserts over distinct elements -/

theorem setInsert_eq (acc : List TVal) (x : TVal) : setInsert acc x = if x ∈ acc then acc else acc ++ [x] := by
  unfold setInsert
  have : acc.any (TVal.beq x) = true ↔ x ∈ acc := by
    simp only [List.any_eq_true, TVal.beq_iff]
    constructor
    · rintro ⟨y, hy, rfl⟩; exact hy
    · intro h; exact ⟨x, h, rfl⟩
  by_cases h : x ∈ acc
  · simp [h, this.mpr h]
  · have h' : acc.any (TVal.beq x) = false := by
      cases hc : acc.any (TVal.beq x) with
      | false => rfl
      | true => exact absurd (this.mp hc) h
    simp [h, h']

theorem distinctL_iff (xs : List TVal) : distinctL xs = true ↔ xs.Nodup := by
  induction xs with
  | nil => simp [distinctL]
  | cons x xs ih =>
    simp only [distinctL, Bool.and_eq_true, Bool.not_eq_true', List.nodup_cons, ih]
    constructor
    · rintro ⟨h1, h2⟩
      refine ⟨?_, h2⟩
      intro hm
      have : xs.any (fun y => TVal.beq y x) = true := List.any_eq_true.mpr ⟨x, hm, (TVal.beq_iff x x).mpr rfl⟩
      rw [this] at h1; cases h1
    · rintro ⟨h1, h2⟩
      refine ⟨?_, h2⟩
      cases hc : xs.any (fun y => TVal.beq y x) with
      | false => rfl
      | true =>
        obtain ⟨y, hy, hb⟩ := List.any_eq_true.mp hc
        rw [(TVal.beq_iff y x).mp hb] at hy
        exact absurd hy h1

theorem foldl_setInsert_nodup : ∀ (xs acc : List TVal), xs.Nodup → (∀ x ∈ xs, x ∉ acc) → xs.foldl setInsert acc = acc ++ xs := by
  intro xs
  induction xs with
  | nil => intro acc _ _; simp
  | cons x xs ih =>
    intro acc hn hd
    have hn' := List.nodup_cons.mp hn
    simp only [List.foldl_cons]
    rw [setInsert_eq, if_neg (hd x (by simp))]
    rw [ih (acc ++ [x]) hn'.2]
    · simp
    · intro y hy hm
      simp only [List.mem_append, List.mem_singleton] at hm
      rcases hm with hm | hm
      · exact hd y (by simp [hy]) hm
      · subst hm; exact hn'.1 hy

theorem mapInsert_fresh (acc : List (TVal × TVal)) (k v : TVal) (h : k ∉ acc.map (·.1)) : mapInsert acc k v = acc ++ [(k, v)] := by
  unfold mapInsert
  have : acc.any (fun p => TVal.beq p.1 k) = false := by
    cases hc : acc.any (fun p => TVal.beq p.1 k) with
    | false => rfl
    | true =>
      obtain ⟨p, hp, hb⟩ := List.any_eq_true.mp hc
      exact absurd (List.mem_map.mpr ⟨p, hp, (TVal.beq_iff _ _).mp hb⟩) h
  simp [this]

theorem foldl_mapInsert_nodup : ∀ (ps acc : List (TVal × TVal)), (ps.map (·.1)).Nodup → (∀ p ∈ ps, p.1 ∉ acc.map (·.1)) →
    ps.foldl (fun a p => mapInsert a p.1 p.2) acc = acc ++ ps := by
  intro ps
  induction ps with
  | nil => intro acc _ _; simp
  | cons p ps ih =>
    intro acc hn hd
    simp only [List.map_cons, List.nodup_cons] at hn
    simp only [List.foldl_cons]
    rw [mapInsert_fresh acc p.1 p.2 (hd p (by simp))]
    rw [ih (acc ++ [(p.1, p.2)]) hn.2]
    · simp
    · intro q hq hm
      simp only [List.map_append, List.map_cons, List.map_nil, List.mem_append, List.mem_singleton] at hm
      rcases hm with hm | hm
      · exact hd q (by simp [hq]) hm
      · exact hn.1 (hm ▸ List.mem_map.mpr ⟨q, hq, rfl⟩)

/-! ### element-wise relation between two lists -/

inductive All2 {α β : Type} (R : α → β → Prop) : List α → List β → Prop
  | nil : All2 R [] []
  | cons {a b as bs} : R a b → All2 R as bs → All2 R (a :: as) (b :: bs)

theorem All2.mem_right {α β : Type} {R : α → β → Prop} {as : List α} {bs : List β} (h : All2 R as bs) :
    ∀ b ∈ bs, ∃ a ∈ as, R a b := by
  induction h with
  | nil => intro b hb; cases hb
  | cons hr _ ih =>
    intro b hb
    rcases List.mem_cons.mp hb with rfl | hb
    · exact ⟨_, by simp, hr⟩
    · obtain ⟨a, ha, hab⟩ := ih b hb; exact ⟨a, by simp [ha], hab⟩

theorem All2.mem_left {α β : Type} {R : α → β → Prop} {as : List α} {bs : List β} (h : All2 R as bs) :
    ∀ a ∈ as, ∃ b ∈ bs, R a b := by
  induction h with
  | nil => intro a ha; cases ha
  | cons hr _ ih =>
    intro a ha
    rcases List.mem_cons.mp ha with rfl | ha
    · exact ⟨_, by simp, hr⟩
    · obtain ⟨b, hb, hab⟩ := ih a ha; exact ⟨b, by simp [hb], hab⟩

theorem All2.append {α β : Type} {R : α → β → Prop} {as as' : List α} {bs bs' : List β} (h : All2 R as bs) (h' : All2 R as' bs') :
    All2 R (as ++ as') (bs ++ bs') := by
  induction h with
  | nil => simpa using h'
  | cons hr _ ih => exact .cons hr ih

theorem All2.imp {α β : Type} {R S : α → β → Prop} (hrs : ∀ a b, R a b → S a b) {as : List α} {bs : List β} (h : All2 R as bs) :
    All2 S as bs := by
  induction h with
  | nil => exact .nil
  | cons hr _ ih => exact .cons (hrs _ _ hr) ih

theorem All2.map {α β γ δ : Type} {R : α → β → Prop} {S : γ → δ → Prop} (f : α → γ) (g : β → δ) (hrs : ∀ a b, R a b → S (f a) (g b))
    {as : List α} {bs : List β} (h : All2 R as bs) : All2 S (as.map f) (bs.map g) := by
  induction h with
  | nil => exact .nil
  | cons hr _ ih => exact .cons (hrs _ _ hr) ih

theorem All2.refl_of {α : Type} {R : α → α → Prop} : ∀ (as : List α), (∀ a ∈ as, R a a) → All2 R as as
  | [], _ => .nil
  | a :: as, h => .cons (h a (by simp)) (All2.refl_of as (fun x hx => h x (by simp [hx])))

/-- a relation whose right component determines the left one transports `Nodup` from left to right -/
theorem All2.nodup_right {α β : Type} {R : α → β → Prop} (hinj : ∀ a a' b, R a b → R a' b → a = a')
    {as : List α} {bs : List β} (h : All2 R as bs) (hn : as.Nodup) : bs.Nodup := by
  induction h with
  | nil => simp
  | cons hr hrest ih =>
    rename_i a b as bs
    have hn' := List.nodup_cons.mp hn
    refine List.nodup_cons.mpr ⟨?_, ih hn'.2⟩
    intro hb
    obtain ⟨a', ha', hab'⟩ := hrest.mem_right b hb
    have := hinj a a' b hr hab'
    subst this
    exact hn'.1 ha'

/-! ### conversions -/

theorem TVals.ofList_toList : ∀ (xs : TVals), TVals.ofList xs.toList = xs
  | .nil => rfl
  | .cons x xs => by simp [TVals.toList, TVals.ofList, TVals.ofList_toList xs]
theorem TFields.ofList_toList : ∀ (xs : TFields), TFields.ofList xs.toList = xs
  | .nil => rfl
  | .cons i x xs => by simp [TFields.toList, TFields.ofList, TFields.ofList_toList xs]
theorem TPairs.ofList_toList : ∀ (xs : TPairs), TPairs.ofList xs.toList = xs
  | .nil => rfl
  | .cons k x xs => by simp [TPairs.toList, TPairs.ofList, TPairs.ofList_toList xs]
theorem TFields.toList_ofList : ∀ (xs : List (Int × TVal)), (TFields.ofList xs).toList = xs
  | [] => rfl
  | (i, v) :: xs => by simp [TFields.toList, TFields.ofList, TFields.toList_ofList xs]

theorem allV_iff (p : TVal → Bool) : ∀ (xs : TVals), allV p xs = true ↔ ∀ x ∈ xs.toList, p x = true
  | .nil => by simp [allV, TVals.toList]
  | .cons x xs => by simp [allV, TVals.toList, allV_iff p xs]

theorem allP_iff (p q : TVal → Bool) : ∀ (xs : TPairs), allP p q xs = true ↔ ∀ x ∈ xs.toList, p x.1 = true ∧ q x.2 = true
  | .nil => by simp [allP, TPairs.toList]
  | .cons k v xs => by simp [allP, TPairs.toList, allP_iff p q xs, and_assoc]

/-! ### slots -/

theorem slotGet_slotSet (s : List (Int × TVal)) (i j : Int) (v : TVal) :
    slotGet (slotSet s i v) j = if i = j then some v else slotGet s j := by
  unfold slotGet slotSet
  by_cases h : i = j
  · subst h
    rw [List.find?_append]
    have : (s.filter (fun x => x.1 != i)).find? (fun x => x.1 == i) = none := by
      rw [List.find?_eq_none]; intro x hx; simp at hx; simpa using hx.2
    simp [this]
  · simp only [h, if_false]
    rw [List.find?_append]
    have hij : ((i, v).1 == j) = false := by simpa using h
    have : (s.filter (fun x => x.1 != i)).find? (fun x => x.1 == j) = s.find? (fun x => x.1 == j) := by
      rw [List.find?_filter]
      congr 1; funext x
      by_cases hx : x.1 = j
      · have : x.1 ≠ i := fun hh => h (hh ▸ hx)
        simp [hx, this]; exact fun hh => h (hh ▸ rfl)
      · simp [hx]
    rw [this]
    cases s.find? (fun x => x.1 == j) with
    | some p => simp
    | none => simp [List.find?, hij]

end Pilota.TGen
