import PilotaModel.Lemmas.PbSpecSound
/-
  C18 `interleave`: any interleaving of the records of `encode x` and `encode y` that keeps, for
  every struct field, its records in their order (x's before y's) decodes to `mergeVal x y`.
-/
namespace Pilota.Proto
open Pilota Spec

/-! ### merging preserves the shape of the struct -/

theorem shapeEs_append (s : Schema) (ty : FTy) : ∀ (a b : EVals), shapeEs s ty a = true → shapeEs s ty b = true → shapeEs s ty (a.append b) = true
  | .nil, _, _, hb => hb
  | .cons v r, b, ha, hb => by
    simp only [shapeEs, Bool.and_eq_true] at ha
    simp only [EVals.append, shapeEs, Bool.and_eq_true]
    exact ⟨ha.1, shapeEs_append s ty r b ha.2 hb⟩

theorem shapePairs_insert (s : Schema) (vty : FTy) (k : SVal) (v : EVal) (hv : shapeE s vty v = true) :
    ∀ (xs : Pairs), shapePairs s vty xs = true → shapePairs s vty (xs.insert k v) = true
  | .nil, _ => by simp [Pairs.insert, shapePairs, hv]
  | .cons k' v' r, h => by
    simp only [shapePairs, Bool.and_eq_true] at h
    simp only [Pairs.insert]
    split
    · simp [shapePairs, hv, h.2]
    · simp [shapePairs, h.1, shapePairs_insert s vty k v hv r h.2]

theorem shapePairs_insertAll (s : Schema) (vty : FTy) : ∀ (kvs xs : Pairs), shapePairs s vty kvs = true → shapePairs s vty xs = true →
    shapePairs s vty (insertAll xs kvs) = true
  | .nil, xs, _, hx => hx
  | .cons k v r, xs, hk, hx => by
    simp only [shapePairs, Bool.and_eq_true] at hk
    simp only [insertAll]
    exact shapePairs_insertAll s vty r _ hk.2 (shapePairs_insert s vty k v hk.1 xs hx)

mutual
theorem shape_mergeE (s : Schema) (flag : Bool) (hs : WFSchema s = true) (ty : FTy) (x y : EVal) (hx : shapeE s ty x = true)
    (hy : okE s flag ty y = true) : shapeE s ty (mergeValE s ty x y) = true := by
  cases y with
  | s yv =>
    cases ty with
    | scalar c => simp [mergeValE, shapeE]
    | msg i => simp [okE] at hy
  | msg ys =>
    cases ty with
    | scalar c => simp [okE] at hy
    | msg i =>
      cases x with
      | s xv => simp [shapeE] at hx
      | msg xs =>
        simp only [okE, Bool.and_eq_true] at hy
        simp only [shapeE] at hx
        simp only [mergeValE, EVal.fields, shapeE]
        exact shape_mergeSlots s flag hs (decls s i) (decls_wf s hs i).1 xs ys hx hy.1
termination_by structural y
theorem shape_mergeSlot (s : Schema) (flag : Bool) (hs : WFSchema s = true) (d : FieldDecl) (hd : d.wfIn s.length = true) (m y : Slot)
    (hm : shapeSlot s d m = true) (hy : okSlot s flag d y = true) : shapeSlot s d (mergeValSlot s d m y) = true := by
  cases y with
  | req yv =>
    cases d with
    | single t ty opt =>
      cases opt with
      | false =>
        cases m with
        | req xv =>
          simp only [shapeSlot] at hm
          simp only [okSlot] at hy
          simp only [mergeValSlot, shapeSlot]
          exact shape_mergeE s flag hs ty xv yv hm hy
        | _ => simp [shapeSlot] at hm
      | true => simp [okSlot] at hy
    | _ => simp [okSlot] at hy
  | none =>
    cases d with
    | single t ty opt => cases opt <;> simp [okSlot] at hy <;> cases m <;> simpa [mergeValSlot] using hm
    | oneof vs => cases m <;> simpa [mergeValSlot] using hm
    | _ => simp [okSlot] at hy
  | some yv =>
    cases d with
    | single t ty opt =>
      cases opt with
      | true =>
        simp only [FieldDecl.wfIn, Bool.and_eq_true] at hd
        simp only [okSlot] at hy
        simp only [mergeValSlot, shapeSlot]
        apply shape_mergeE s flag hs ty _ yv _ hy
        cases m with
        | some xv => simpa [shapeSlot, optCur] using hm
        | _ => simp only [optCur]; exact shape_defaultE s hs ty hd.2
      | false => simp [okSlot] at hy
    | _ => simp [okSlot] at hy
  | rep ys =>
    cases d with
    | rep t ty =>
      cases m with
      | rep xs =>
        simp only [shapeSlot] at hm
        simp only [okSlot] at hy
        simp only [mergeValSlot, shapeSlot]
        exact shapeEs_append s ty xs ys hm (okEs_shape s flag ty ys hy)
      | _ => simp [shapeSlot] at hm
    | single t ty opt => cases opt <;> simp [okSlot] at hy
    | _ => simp [okSlot] at hy
  | map kvs =>
    cases d with
    | map t kc vty =>
      cases m with
      | map xs =>
        simp only [shapeSlot] at hm
        simp only [okSlot, Bool.and_eq_true] at hy
        simp only [mergeValSlot, shapeSlot]
        exact shapePairs_insertAll s vty kvs xs (okPairs_shape s flag kc vty kvs hy.1) hm
      | _ => simp [shapeSlot] at hm
    | single t ty opt => cases opt <;> simp [okSlot] at hy
    | _ => simp [okSlot] at hy
  | one t yv =>
    cases d with
    | oneof vs =>
      simp only [okSlot] at hy
      cases hl : lookupVariant vs t with
      | none => simp [hl] at hy
      | some ty =>
        simp only [hl] at hy
        have hv := variant_tagOk vs _ hd t ty hl
        simp only [mergeValSlot, hl, shapeSlot]
        apply shape_mergeE s flag hs ty _ yv _ hy
        cases m with
        | one t' xv =>
          simp only [oneCur]
          split
          · rename_i he; subst he; simpa [shapeSlot, hl] using hm
          · exact shape_defaultE s hs ty hv.2
        | _ => simp only [oneCur]; exact shape_defaultE s hs ty hv.2
    | single t ty opt => cases opt <;> simp [okSlot] at hy
    | _ => simp [okSlot] at hy
termination_by structural y
theorem shape_mergeSlots (s : Schema) (flag : Bool) (hs : WFSchema s = true) (ds : List FieldDecl)
    (hds : ds.all (FieldDecl.wfIn s.length) = true) (xs ys : Slots) (hx : shapeSlots s ds xs = true)
    (hy : okSlots s flag ds ys = true) : shapeSlots s ds (mergeValSlots s ds xs ys) = true := by
  cases ys with
  | nil =>
    cases ds with
    | nil => cases xs <;> simpa [mergeValSlots] using hx
    | cons d ds => simp [okSlots] at hy
  | cons y ys =>
    cases ds with
    | nil => simp [okSlots] at hy
    | cons d ds =>
      cases xs with
      | nil => simp [shapeSlots] at hx
      | cons x xs =>
        simp only [shapeSlots, Bool.and_eq_true] at hx
        simp only [okSlots, Bool.and_eq_true] at hy
        simp only [List.all_cons, Bool.and_eq_true] at hds
        simp only [mergeValSlots, shapeSlots, Bool.and_eq_true]
        exact ⟨shape_mergeSlot s flag hs d hds.1 x y hx.1 hy.1, shape_mergeSlots s flag hs ds hds.2 xs ys hx.2 hy.2⟩
termination_by structural ys
end

/-! ### the records of one field, from any starting value -/

theorem foldSlot_append (s : Schema) (recur : Recur) (d : FieldDecl) : ∀ (a b : List Rec) (m m1 : Slot),
    foldSlot s recur d m a = .ok m1 → foldSlot s recur d m (a ++ b) = foldSlot s recur d m1 b
  | [], b, m, m1, h => by simp only [foldSlot, Out.ok.injEq] at h; subst h; rfl
  | r :: a, b, m, m1, h => by
    simp only [foldSlot, List.cons_append] at h ⊢
    cases ha : applySlot s recur d m r with
    | ok m' => rw [ha] at h; simp only; exact foldSlot_append s recur d a b m' m1 h
    | err k => rw [ha] at h; simp at h
    | panic e => rw [ha] at h; simp at h
    | fuel => rw [ha] at h; simp at h

theorem foldSlot_recsEs (s : Schema) (flag : Bool) (hs : WFSchema s = true) (t : Nat) (ty : FTy) (hty : ty.wfIn s.length = true) (ctx : Nat) :
    ∀ (ys xs : EVals), okEs s flag ty ys = true → needEs ys ≤ ctx →
      foldSlot s (recurOf s ctx) (.rep t ty) (.rep xs) (recsEs s flag t ty ys) = .ok (.rep (xs.append ys))
  | .nil, xs, _, _ => by simp [recsEs, foldSlot, evals_append_nil]
  | .cons y ys, xs, hy, hn => by
    simp only [okEs, Bool.and_eq_true] at hy
    simp only [needEs] at hn
    have hm : mergeSlot s (recurOf s ctx) (.rep t ty) (.rep xs) t (wtOf ty) (payE s flag ty y) = .ok (.rep (xs.append (.cons y .nil)), []) := by
      cases ty with
      | scalar c =>
        cases y with
        | s yv =>
          simp only [okE, Bool.and_eq_true] at hy
          have := Codec.mergeRepeated_one c yv hy.1.1 ((lenOk_iff yv).mp hy.1.2) [] []
          simp only [List.append_nil, List.nil_append] at this
          simp only [mergeSlot, wtOf, payE, this, svalsToE]
        | msg fs => simp [okE] at hy
      | msg i =>
        have h1 := mergeE_pay s flag hs (.msg i) hty (defaultE s (.msg i)) y ctx hy.1 (by omega) (shape_defaultE s hs _ hty) []
        simp only [wtOf, List.append_nil] at h1
        simp only [mergeSlot, wtOf, checkWireType, if_true, h1]
        rw [mergeValE_default s flag hs (.msg i) _ y (exactDefault_defaultE s _) (shape_defaultE s hs _ hty) hy.1]
        rfl
    simp only [recsEs, foldSlot, applySlot, recE, hm]
    rw [foldSlot_recsEs s flag hs t ty hty ctx ys _ hy.2 (by omega), EVals.append_assoc]
    rfl

theorem foldSlot_recsPairs (s : Schema) (flag : Bool) (hs : WFSchema s = true) (t : Nat) (kc : Codec) (hkc : kc.isKey = true) (vty : FTy)
    (hvty : vty.wfIn s.length = true) (ctx : Nat) :
    ∀ (kvs xs : Pairs), okPairs s flag kc vty kvs = true → needPairs kvs ≤ ctx →
      foldSlot s (recurOf s ctx) (.map t kc vty) (.map xs) (recsPairs s flag t kc vty kvs) = .ok (.map (insertAll xs kvs))
  | .nil, xs, _, _ => by simp [recsPairs, foldSlot, insertAll]
  | .cons k v r, xs, hy, hn => by
    simp only [okPairs, Bool.and_eq_true, decide_eq_true_eq] at hy
    obtain ⟨⟨⟨⟨⟨hk, hkl⟩, hve⟩, hdef⟩, hlen⟩, hr⟩ := hy
    simp only [needPairs] at hn
    obtain ⟨c, rfl⟩ : ∃ c, ctx = c + 1 := ⟨ctx - 1, by omega⟩
    have hkl' := (lenOk_iff k).mp hkl
    have hE : ∀ R, mergeE s (recurOf s c) vty (defaultE s vty) (wtOf vty) (payE s flag vty v ++ R) = .ok (v, R) := by
      intro R
      rw [mergeE_pay s flag hs vty hvty (defaultE s vty) v c hve (by omega) (shape_defaultE s hs vty hvty) R,
        mergeValE_default s flag hs vty _ v (exactDefault_defaultE s vty) (shape_defaultE s hs vty hvty) hve]
    have hk' : (if (!flag && k.isDefault) = true then kc.default else k) = k := by
      split
      · rename_i h; simp only [Bool.and_eq_true] at h; exact (key_default kc k hkc hk h.2).symm
      · rfl
    have hv' : (if (!flag && v.isDefault) = true then defaultE s vty else v) = v := by
      cases hfl : flag <;> cases hvd : v.isDefault <;> simp [hfl, hvd] at hdef ⊢
      exact hdef.symm
    have hflat := flat_entryRecs s flag kc vty k v hve
    have hel := entry_len s flag hs kc vty k v hkl' hve
    have hloop := entry_loop s flag c kc vty k v (!flag && k.isDefault) (!flag && v.isDefault) hk hkl' hve hE []
      ((flat (entryRecs s flag kc vty k v)).length + 1) (by rw [hflat]; simp)
    simp only [List.append_nil, List.length_nil] at hloop
    rw [← hflat] at hloop
    have hm : mergeSlot s (recurOf s (c + 1)) (.map t kc vty) (.map xs) t .len (lenDelim (flat (entryRecs s flag kc vty k v)))
        = .ok (.map (xs.insert k v), []) := by
      have hlt : (flat (entryRecs s flag kc vty k v)).length < 2 ^ 64 := by rw [hel]; exact hlen
      simp only [mergeSlot, recurOf, mergeLoop, lenDelim_eq, decodeVarint_encode _ hlt]
      have hle : ¬ (flat (entryRecs s flag kc vty k v)).length > (flat (entryRecs s flag kc vty k v)).length := by omega
      simp only [hle, if_false, Nat.sub_self, hloop, hk', hv', entryResult]
    simp only [recsPairs, foldSlot, applySlot, hm]
    rw [foldSlot_recsPairs s flag hs t kc hkc vty hvty (c + 1) r _ hr (by omega)]
    rfl

/-- the records pilota writes for one field, applied to any value of that field. -/
theorem foldSlot_recs (s : Schema) (flag : Bool) (hs : WFSchema s = true) (d : FieldDecl) (hd : d.wfIn s.length = true) (m y : Slot)
    (ctx : Nat) (hy : okSlot s flag d y = true) (hn : needSlot y ≤ ctx) (hsm : shapeSlot s d m = true) :
    foldSlot s (recurOf s ctx) d m (recsSlot s flag d y) = .ok (mergeValSlot s d m y) := by
  cases y with
  | req yv =>
    cases d with
    | single t ty opt =>
      cases opt with
      | false =>
        cases m with
        | req xv =>
          simp only [FieldDecl.wfIn, Bool.and_eq_true] at hd
          simp only [okSlot] at hy
          simp only [shapeSlot] at hsm
          simp only [needSlot] at hn
          have := mergeE_pay s flag hs ty hd.2 xv yv ctx hy hn hsm []
          simp only [List.append_nil] at this
          simp only [recsSlot, foldSlot, applySlot, recE, mergeSlot, this, mergeValSlot]
        | _ => simp [shapeSlot] at hsm
      | true => simp [okSlot] at hy
    | _ => simp [okSlot] at hy
  | none =>
    cases d with
    | single t ty opt => cases opt <;> simp [okSlot] at hy <;> cases m <;> rfl
    | oneof vs => cases m <;> rfl
    | _ => simp [okSlot] at hy
  | some yv =>
    cases d with
    | single t ty opt =>
      cases opt with
      | true =>
        simp only [FieldDecl.wfIn, Bool.and_eq_true] at hd
        simp only [okSlot] at hy
        simp only [needSlot] at hn
        have hsc : shapeE s ty (optCur s ty m) = true := by
          cases m with
          | some xv => simpa [shapeSlot, optCur] using hsm
          | _ => simp only [optCur]; exact shape_defaultE s hs ty hd.2
        have := mergeE_pay s flag hs ty hd.2 (optCur s ty m) yv ctx hy hn hsc []
        simp only [List.append_nil] at this
        simp only [recsSlot, foldSlot, applySlot, recE, mergeSlot, this, mergeValSlot]
      | false => simp [okSlot] at hy
    | _ => simp [okSlot] at hy
  | rep ys =>
    cases d with
    | rep t ty =>
      cases m with
      | rep xs =>
        simp only [FieldDecl.wfIn, Bool.and_eq_true] at hd
        simp only [okSlot] at hy
        simp only [needSlot] at hn
        simp only [recsSlot, mergeValSlot]
        exact foldSlot_recsEs s flag hs t ty hd.2 ctx ys xs hy hn
      | _ => simp [shapeSlot] at hsm
    | single t ty opt => cases opt <;> simp [okSlot] at hy
    | _ => simp [okSlot] at hy
  | map kvs =>
    cases d with
    | map t kc vty =>
      cases m with
      | map xs =>
        simp only [FieldDecl.wfIn, Bool.and_eq_true] at hd
        simp only [okSlot, Bool.and_eq_true] at hy
        simp only [needSlot] at hn
        simp only [recsSlot, mergeValSlot]
        exact foldSlot_recsPairs s flag hs t kc hd.1.2 vty hd.2 ctx kvs xs hy.1 hn
      | _ => simp [shapeSlot] at hsm
    | single t ty opt => cases opt <;> simp [okSlot] at hy
    | _ => simp [okSlot] at hy
  | one t yv =>
    cases d with
    | oneof vs =>
      simp only [okSlot] at hy
      simp only [needSlot] at hn
      cases hl : lookupVariant vs t with
      | none => simp [hl] at hy
      | some ty =>
        simp only [hl] at hy
        have hv := variant_tagOk vs _ hd t ty hl
        have hsc : shapeE s ty (oneCur s ty t m) = true := by
          cases m with
          | one t' xv =>
            simp only [oneCur]
            split
            · rename_i he; subst he; simpa [shapeSlot, hl] using hsm
            · exact shape_defaultE s hs ty hv.2
          | _ => simp only [oneCur]; exact shape_defaultE s hs ty hv.2
        have := mergeE_pay s flag hs ty hv.2 (oneCur s ty t m) yv ctx hy hn hsc []
        simp only [List.append_nil] at this
        simp only [recsSlot, hl, foldSlot, applySlot, recE, mergeSlot, this, mergeValSlot]
    | single t ty opt => cases opt <;> simp [okSlot] at hy
    | _ => simp [okSlot] at hy

/-! ### interleavings -/

/-- `rs` is an interleaving of the records of `x` and of `y` in which every field's records keep
their order: picked out by field, they are x's records followed by y's. -/
def Interleaved (s : Schema) (flag : Bool) : List FieldDecl → Slots → Slots → List Rec → Prop
  | [], .nil, .nil, rs => rs = []
  | d :: ds, .cons xv xs, .cons yv ys, rs =>
    rs.filter (fun r => d.tags.contains r.tag) = recsSlot s flag d xv ++ recsSlot s flag d yv ∧
    Interleaved s flag ds xs ys (rs.filter (fun r => !d.tags.contains r.tag))
  | _, _, _, _ => False

theorem interleaved_fold (s : Schema) (flag : Bool) (hs : WFSchema s = true) (ctx : Nat) :
    ∀ (ds : List FieldDecl) (xs ys : Slots) (rs : List Rec) (M : Slots), Interleaved s flag ds xs ys rs →
      ds.all (FieldDecl.wfIn s.length) = true → okSlots s flag ds xs = true → okSlots s flag ds ys = true →
      needSlots xs ≤ ctx → needSlots ys ≤ ctx → shapeSlots s ds M = true →
      foldRecs s (recurOf s ctx) ctx ds M rs = .ok (mergeValSlots s ds (mergeValSlots s ds M xs) ys)
  | [], .nil, .nil, rs, M, h, _, _, _, _, _, hM => by
    simp only [Interleaved] at h; subst h
    cases M with
    | nil => rfl
    | cons a b => simp [shapeSlots] at hM
  | d :: ds, .cons xv xs, .cons yv ys, rs, M, h, hwf, hx, hy, hnx, hny, hM => by
    cases M with
    | nil => simp [shapeSlots] at hM
    | cons m M' =>
      simp only [Interleaved] at h
      simp only [List.all_cons, Bool.and_eq_true] at hwf
      simp only [okSlots, Bool.and_eq_true] at hx hy
      simp only [needSlots] at hnx hny
      simp only [shapeSlots, Bool.and_eq_true] at hM
      simp only [mergeValSlots]
      apply foldRecs_split
      · rw [h.1]
        have h1 := foldSlot_recs s flag hs d hwf.1 m xv ctx hx.1 (by omega) hM.1
        rw [foldSlot_append s _ d _ _ m _ h1]
        exact foldSlot_recs s flag hs d hwf.1 _ yv ctx hy.1 (by omega) (shape_mergeSlot s flag hs d hwf.1 m xv hM.1 hx.1)
      · exact interleaved_fold s flag hs ctx ds xs ys _ M' h.2 hwf.2 hx.2 hy.2 (by omega) (by omega) hM.2
  | [], .nil, .cons _ _, _, _, h, _, _, _, _, _, _ => by simp [Interleaved] at h
  | [], .cons _ _, _, _, _, h, _, _, _, _, _, _ => by simp [Interleaved] at h
  | _ :: _, .nil, _, _, _, h, _, _, _, _, _, _ => by simp [Interleaved] at h
  | _ :: _, .cons _ _, .nil, _, _, h, _, _, _, _, _, _ => by simp [Interleaved] at h

theorem interleaved_tags (s : Schema) (flag : Bool) : ∀ (ds : List FieldDecl) (xs ys : Slots) (rs : List Rec),
    Interleaved s flag ds xs ys rs → ∀ r ∈ rs, r.tag ∈ allTags ds
  | [], .nil, .nil, rs, h, r, hr => by simp only [Interleaved] at h; subst h; simp at hr
  | d :: ds, .cons xv xs, .cons yv ys, rs, h, r, hr => by
    simp only [Interleaved] at h
    rw [allTags_cons, List.mem_append]
    by_cases ht : d.tags.contains r.tag = true
    · left; simpa using ht
    · right
      have ht' : d.tags.contains r.tag = false := by simpa using ht
      exact interleaved_tags s flag ds xs ys _ h.2 r (by rw [List.mem_filter]; exact ⟨hr, by rw [ht']; rfl⟩)
  | [], .nil, .cons _ _, _, h, _, _ => by simp [Interleaved] at h
  | [], .cons _ _, _, _, h, _, _ => by simp [Interleaved] at h
  | _ :: _, .nil, _, _, h, _, _ => by simp [Interleaved] at h
  | _ :: _, .cons _ _, .nil, _, h, _, _ => by simp [Interleaved] at h

/-- **interleave**: decoding any field-order-preserving interleaving of the records of the two
encodings gives `mergeVal x y`. -/
theorem decode_interleaved (s : Schema) (flag : Bool) (hs : WFSchema s = true) (i : Nat) (x y : Slots) (rs : List Rec)
    (hx : HasType s flag i x) (hy : HasType s flag i y) (hi : Interleaved s flag (decls s i) x y rs) :
    decode s i (flat rs) = .ok (mergeVal s i x y) := by
  have hdw := decls_wf s hs i
  have hfold := interleaved_fold s flag hs recursionLimit (decls s i) x y rs (defaultMsg s i) hi hdw.1 hx.1 hy.1 hx.2 hy.2
    (shape_defaultMsg s hs i)
  have htags : ∀ q ∈ rs, tagOk q.tag = true := fun q hq => wf_tags_ok _ _ hdw.1 _ (interleaved_tags s flag _ _ _ _ hi q hq)
  have hloop := foldRecs_loop s recursionLimit _ rs _ _ htags hfold [] ((flat rs).length + 1) (by simp)
  simp only [List.append_nil, List.length_nil] at hloop
  unfold decode decodeInto decodeIntoCtx
  rw [hloop]
  have := mergeVal_default s flag hs i x hx.1
  unfold mergeVal at this ⊢
  rw [this]

/-- the concatenation of the two encodings is one such interleaving. -/
theorem concat_interleaved (s : Schema) (flag : Bool) : ∀ (ds : List FieldDecl) (xs ys : Slots), nodup (allTags ds) = true →
    shapeSlots s ds xs = true → shapeSlots s ds ys = true →
    Interleaved s flag ds xs ys (recsSlots s flag ds xs ++ recsSlots s flag ds ys)
  | [], .nil, .nil, _, _, _ => by simp [Interleaved, recsSlots]
  | d :: ds, .cons xv xs, .cons yv ys, hnd, hx, hy => by
    simp only [shapeSlots, Bool.and_eq_true] at hx hy
    have fx := filter_slot s flag d ds xv xs hnd
    have fy := filter_slot s flag d ds yv ys hnd
    simp only [Interleaved, List.filter_append, fx.1, fx.2, fy.1, fy.2, true_and]
    apply concat_interleaved s flag ds xs ys _ hx.2 hy.2
    rw [nodup_iff, allTags_cons, List.nodup_append] at hnd
    rw [nodup_iff]; exact hnd.2.1
  | [], .nil, .cons _ _, _, _, h => by simp [shapeSlots] at h
  | [], .cons _ _, _, _, h, _ => by simp [shapeSlots] at h
  | _ :: _, .nil, _, _, h, _ => by simp [shapeSlots] at h
  | _ :: _, .cons _ _, .nil, _, _, h => by simp [shapeSlots] at h

end Pilota.Proto
