import PilotaModel.Lemmas.PbDefault
import PilotaModel.Lemmas.PbLimit
/-
  The heart of C05 / C18: decoding the encoding of `y` into any value `x` of the struct gives
  `mergeVal x y` and consumes exactly the encoding — for every well-formed schema, every
  well-typed `y` within the recursion budget, both settings of `pb-encode-default-value`.
-/
namespace Pilota.Proto
open Pilota

def wtOf : FTy → WireType
  | .scalar c => c.wt
  | .msg _ => .len

/-- what `encode` writes after the key. -/
def payE (s : Schema) (flag : Bool) : FTy → EVal → Bytes
  | .scalar c, .s x => c.encPayload x
  | .msg i, .msg fs => encodeVarint (lenSlots s flag (decls s i) fs) ++ encSlots s flag (decls s i) fs
  | _, _ => []

theorem encE_split (s : Schema) (flag : Bool) (tag : Nat) (ty : FTy) (v : EVal) (h : okE s flag ty v = true) :
    encE s flag tag ty v = keyBytes tag (wtOf ty) ++ payE s flag ty v := by
  cases ty with
  | scalar c => cases v with
    | s x => rfl
    | msg fs => simp [okE] at h
  | msg i => cases v with
    | s x => simp [okE] at h
    | msg fs => simp [encE, payE, wtOf, List.append_assoc]

/-! ### nodup -/

theorem nodup_iff : ∀ (l : List Nat), nodup l = true ↔ l.Nodup
  | [] => by simp [nodup]
  | x :: xs => by
    simp only [nodup, Bool.and_eq_true, Bool.not_eq_true', List.nodup_cons, nodup_iff xs]
    simp

theorem allTags_append (a b : List FieldDecl) : allTags (a ++ b) = allTags a ++ allTags b := by
  simp [allTags]

theorem allTags_cons (d : FieldDecl) (b : List FieldDecl) : allTags (d :: b) = d.tags ++ allTags b := by
  simp [allTags]

/-- tags of `d` do not occur in the fields before it. -/
theorem tags_disjoint (preD : List FieldDecl) (d : FieldDecl) (D : List FieldDecl)
    (h : nodup (allTags (preD ++ d :: D)) = true) :
    ∀ t, d.tags.contains t = true → ∀ p ∈ preD, p.tags.contains t = false := by
  intro t ht p hp
  rw [nodup_iff, allTags_append, allTags_cons, List.nodup_append] at h
  obtain ⟨_, _, hdis⟩ := h
  have h1 : t ∈ d.tags := by simpa using ht
  cases hc : p.tags.contains t with
  | false => rfl
  | true =>
    exfalso
    have h2 : t ∈ allTags preD := by
      simp only [allTags, List.mem_flatMap]
      exact ⟨p, hp, by simpa using hc⟩
    exact hdis t h2 t (by simp [h1]) rfl

/-! ### one record through the arm of its field -/

theorem loop_done {σ : Type} (step : σ → Bytes → Out (σ × Bytes)) (f : Nat) (m : σ) (B : Bytes) :
    mergeLoopGo step (f + 1) m B B.length = .ok (m, B) := by
  simp [mergeLoopGo]

theorem loop_step (s : Schema) (recur : Recur) (d : FieldDecl) (m m' : Slot) (tag : Nat) (wt : WireType) (pay B : Bytes)
    (limit f : Nat) (hlim : limit ≤ B.length) (h1 : minTag ≤ tag) (h2 : tag ≤ maxTag) (ht : d.tags.contains tag = true)
    (hm : mergeSlot s recur d m tag wt (pay ++ B) = .ok (m', B)) :
    mergeLoopGo (slotStep s recur d) (f + 1) m (keyBytes tag wt ++ (pay ++ B)) limit
      = mergeLoopGo (slotStep s recur d) f m' B limit := by
  have hp := keyBytes_pos tag wt
  have hgt : (keyBytes tag wt ++ (pay ++ B)).length > limit := by simp only [List.length_append]; omega
  conv => lhs; unfold mergeLoopGo
  simp only [hgt, if_true, slotStep, decodeKey_keyBytes tag wt h1 h2, ht, hm]

theorem EVals.append_assoc : ∀ (a b c : EVals), (a.append b).append c = a.append (b.append c)
  | .nil, _, _ => rfl
  | .cons v r, b, c => by simp [EVals.append, EVals.append_assoc r b c]

theorem tagOk_1 : tagOk 1 = true := by decide
theorem tagOk_2 : tagOk 2 = true := by decide

theorem slots_len_append : ∀ (a b : Slots), (a.append b).length = a.length + b.length
  | .nil, b => by simp [Slots.append, Slots.length]
  | .cons v r, b => by simp [Slots.append, Slots.length, slots_len_append r b]; omega

theorem evals_append_nil : ∀ (a : EVals), a.append .nil = a
  | .nil => rfl
  | .cons v r => by simp [EVals.append, evals_append_nil r]

/-- one record of field `d`, seen from the struct's own field loop. -/
theorem one_record_global (s : Schema) (recur : Recur) (ctx : Nat) (preD : List FieldDecl) (preM : Slots) (d : FieldDecl)
    (postD : List FieldDecl) (postM : Slots) (hl : preM.length = preD.length)
    (hdisj : ∀ t, d.tags.contains t = true → ∀ p ∈ preD, p.tags.contains t = false)
    (m m' : Slot) (tag : Nat) (wt : WireType) (pay R : Bytes) (f : Nat) (hf : (keyBytes tag wt ++ (pay ++ R)).length < f)
    (h1 : minTag ≤ tag) (h2 : tag ≤ maxTag) (ht : d.tags.contains tag = true)
    (hm : mergeSlot s recur d m tag wt (pay ++ R) = .ok (m', R)) :
    mergeLoopGo (fieldStep (mergeFieldWith s recur ctx) (preD ++ d :: postD)) f (preM.append (.cons m postM))
      (keyBytes tag wt ++ (pay ++ R)) R.length = .ok (preM.append (.cons m' postM), R) := by
  apply sim_slot s recur ctx preD preM d postD postM hl hdisj
  obtain ⟨f, rfl⟩ : ∃ g, f = g + 2 := ⟨f - 2, by
    have := keyBytes_pos tag wt; simp only [List.length_append] at hf; omega⟩
  rw [loop_step s recur d m m' tag wt pay R R.length (f + 1) (Nat.le_refl _) h1 h2 ht hm, loop_done]

/-- the loop of `hash_map::merge` over one entry: key and value records, each present or omitted. -/
theorem entry_loop (s : Schema) (flag : Bool) (c : Nat) (kc : Codec) (vty : FTy) (k : SVal) (v : EVal) (skipK skipV : Bool)
    (hk : kc.ok k = true) (hkl : Codec.lenOk k) (hv : okE s flag vty v = true)
    (hE : ∀ R, mergeE s (recurOf s c) vty (defaultE s vty) (wtOf vty) (payE s flag vty v ++ R) = .ok (v, R))
    (B : Bytes) (f : Nat)
    (hf : ((if skipK then [] else kc.encode 1 k) ++ ((if skipV then [] else encE s flag 2 vty v) ++ B)).length < f) :
    mergeLoopGo (fieldStep (mergeField s c) (entryDecls kc vty)) f (entry0 s kc vty)
      ((if skipK then [] else kc.encode 1 k) ++ ((if skipV then [] else encE s flag 2 vty v) ++ B)) B.length
      = .ok (.cons (.req (.s (if skipK then kc.default else k)))
               (.cons (.req (if skipV then defaultE s vty else v)) .nil), B) := by
  rw [mergeField_eq]
  unfold entryDecls entry0
  have hstep : StepOK (fieldStep (mergeFieldWith s (recurOf s c) c) [.single 1 (.scalar kc) false, .single 2 vty false]) := by
    rw [← mergeField_eq]; exact fieldStep_ok _ (mergeField_ok s c) _
  -- the two records, as facts about the arms
  have hmK : ∀ R, mergeSlot s (recurOf s c) (.single 1 (.scalar kc) false) (.req (.s kc.default)) 1 kc.wt (kc.encPayload k ++ R)
      = .ok (.req (.s k), R) := by
    intro R; simp only [mergeSlot, mergeE, Codec.merge_enc kc k hk hkl R]
  have hmV : ∀ R, mergeSlot s (recurOf s c) (.single 2 vty false) (.req (defaultE s vty)) 2 (wtOf vty) (payE s flag vty v ++ R)
      = .ok (.req v, R) := by
    intro R; simp only [mergeSlot, hE R]
  have hd1 : ∀ t, (FieldDecl.single 2 vty false).tags.contains t = true →
      ∀ p ∈ [FieldDecl.single 1 (.scalar kc) false], p.tags.contains t = false := by
    intro t ht p hp
    simp only [List.mem_singleton] at hp
    subst hp
    simp only [FieldDecl.tags, List.contains_cons, List.contains_nil, Bool.or_false, beq_iff_eq] at ht ⊢
    subst ht; decide
  cases skipK <;> cases skipV <;> simp only [Bool.false_eq_true, if_false, if_true, List.nil_append] at hf ⊢
  · -- key and value present
    simp only [Codec.encode, encE_split s flag 2 vty v hv, List.append_assoc] at hf ⊢
    have g1 := one_record_global s (recurOf s c) c [] .nil (.single 1 (.scalar kc) false) [.single 2 vty false]
      (.cons (.req (defaultE s vty)) .nil) rfl (by intro t _ p hp; simp at hp) _ _ 1 kc.wt (kc.encPayload k)
      (keyBytes 2 (wtOf vty) ++ (payE s flag vty v ++ B)) f hf (by decide) (by decide) (by simp [FieldDecl.tags]) (hmK _)
    simp only [List.nil_append, Slots.append] at g1
    rw [mergeLoopGo_split _ hstep _ B.length (by simp only [List.length_append]; omega) f _ _ _ _ hf g1]
    have g2 := one_record_global s (recurOf s c) c [.single 1 (.scalar kc) false] (.cons (.req (.s k)) .nil)
      (.single 2 vty false) [] .nil rfl hd1 _ _ 2 (wtOf vty) (payE s flag vty v) B f
      (by simp only [List.length_append] at hf ⊢; omega) (by decide) (by decide) (by simp [FieldDecl.tags]) (hmV _)
    simp only [List.cons_append, List.nil_append, Slots.append] at g2
    exact g2
  · -- key present, value omitted
    simp only [Codec.encode, List.append_assoc] at hf ⊢
    have g1 := one_record_global s (recurOf s c) c [] .nil (.single 1 (.scalar kc) false) [.single 2 vty false]
      (.cons (.req (defaultE s vty)) .nil) rfl (by intro t _ p hp; simp at hp) _ _ 1 kc.wt (kc.encPayload k)
      B f hf (by decide) (by decide) (by simp [FieldDecl.tags]) (hmK _)
    simp only [List.nil_append, Slots.append] at g1
    exact g1
  · -- key omitted, value present
    simp only [encE_split s flag 2 vty v hv, List.append_assoc] at hf ⊢
    have g2 := one_record_global s (recurOf s c) c [.single 1 (.scalar kc) false] (.cons (.req (.s kc.default)) .nil)
      (.single 2 vty false) [] .nil rfl hd1 _ _ 2 (wtOf vty) (payE s flag vty v) B f hf (by decide) (by decide)
      (by simp [FieldDecl.tags]) (hmV _)
    simp only [List.cons_append, List.nil_append, Slots.append] at g2
    exact g2
  · -- both omitted
    obtain ⟨f, rfl⟩ : ∃ g, f = g + 1 := ⟨f - 1, by omega⟩
    rw [loop_done]

/-! ### the main induction -/

mutual
theorem mergeE_pay (s : Schema) (flag : Bool) (hs : WFSchema s = true) (ty : FTy) (hty : ty.wfIn s.length = true) (x y : EVal)
    (ctx : Nat) (hy : okE s flag ty y = true) (hn : needE y ≤ ctx) (hsx : shapeE s ty x = true) (rest : Bytes) :
    mergeE s (recurOf s ctx) ty x (wtOf ty) (payE s flag ty y ++ rest) = .ok (mergeValE s ty x y, rest) := by
  cases y with
  | s yv =>
    cases ty with
    | scalar c =>
      simp only [okE, Bool.and_eq_true] at hy
      simp only [mergeE, wtOf, payE, Codec.merge_enc c yv hy.1 ((lenOk_iff yv).mp hy.2) rest, mergeValE]
    | msg i => simp [okE] at hy
  | msg ys =>
    cases ty with
    | scalar c => simp [okE] at hy
    | msg i =>
      cases x with
      | s xv => simp [shapeE] at hsx
      | msg xs =>
        simp only [okE, Bool.and_eq_true, decide_eq_true_eq] at hy
        simp only [shapeE] at hsx
        simp only [needE] at hn
        obtain ⟨c, rfl⟩ : ∃ c, ctx = c + 1 := ⟨ctx - 1, by omega⟩
        have hlen := lenSlots_eq s flag hs (decls s i) (decls_wf s hs i).1 ys hy.1
        have hdw := decls_wf s hs i
        simp only [mergeE, wtOf, payE, checkWireType, if_true, recurOf, mergeLoop, EVal.fields, List.append_assoc,
          decodeVarint_encode _ hy.2]
        have hle : ¬ lenSlots s flag (decls s i) ys > (encSlots s flag (decls s i) ys ++ rest).length := by
          simp only [List.length_append]; omega
        simp only [hle, if_false]
        have hlim : (encSlots s flag (decls s i) ys ++ rest).length - lenSlots s flag (decls s i) ys = rest.length := by
          simp only [List.length_append]; omega
        rw [hlim]
        have := loop_slots s flag hs [] .nil (decls s i) xs ys c rfl hdw.1 (by simpa using hdw.2) hy.1 (by omega) hsx rest
          ((encSlots s flag (decls s i) ys ++ rest).length + 1) (by omega)
        simp only [List.nil_append, Slots.append] at this
        rw [this]
        simp [mergeValE, EVal.fields]
termination_by structural y
theorem loop_slot (s : Schema) (flag : Bool) (hs : WFSchema s = true) (d : FieldDecl) (hd : d.wfIn s.length = true) (m y : Slot)
    (ctx : Nat) (hy : okSlot s flag d y = true) (hn : needSlot y ≤ ctx) (hsm : shapeSlot s d m = true) (B : Bytes) (f : Nat)
    (hf : (encSlot s flag d y ++ B).length < f) :
    mergeLoopGo (slotStep s (recurOf s ctx) d) f m (encSlot s flag d y ++ B) B.length = .ok (mergeValSlot s d m y, B) := by
  cases y with
  | req yv =>
    cases d with
    | single t ty opt =>
      cases opt with
      | false =>
        cases m with
        | req xv =>
          simp only [FieldDecl.wfIn, Bool.and_eq_true] at hd
          have htag := (tagOk_iff t).mp hd.1
          simp only [okSlot] at hy
          simp only [shapeSlot] at hsm
          simp only [needSlot] at hn
          simp only [encSlot, encE_split s flag t ty yv hy, List.append_assoc] at hf ⊢
          obtain ⟨f, rfl⟩ : ∃ g, f = g + 2 := ⟨f - 2, by
            have := keyBytes_pos t (wtOf ty); simp only [List.length_append] at hf; omega⟩
          have hm : mergeSlot s (recurOf s ctx) (.single t ty false) (.req xv) t (wtOf ty) (payE s flag ty yv ++ B)
              = .ok (.req (mergeValE s ty xv yv), B) := by
            simp only [mergeSlot, mergeE_pay s flag hs ty hd.2 xv yv ctx hy hn hsm B]
          rw [loop_step s _ _ _ _ t (wtOf ty) _ B B.length (f + 1) (Nat.le_refl _) htag.1 htag.2 (by simp [FieldDecl.tags]) hm]
          rw [loop_done]
          simp [mergeValSlot]
        | _ => simp [shapeSlot] at hsm
      | true => simp [okSlot] at hy
    | _ => simp [okSlot] at hy
  | none =>
    obtain ⟨f, rfl⟩ : ∃ g, f = g + 1 := ⟨f - 1, by omega⟩
    cases d with
    | single t ty opt =>
      cases opt with
      | true => simp only [encSlot, List.nil_append, loop_done]; cases m <;> rfl
      | false => simp [okSlot] at hy
    | oneof vs => simp only [encSlot, List.nil_append, loop_done]; cases m <;> rfl
    | _ => simp [okSlot] at hy
  | some yv =>
    cases d with
    | single t ty opt =>
      cases opt with
      | true =>
        simp only [FieldDecl.wfIn, Bool.and_eq_true] at hd
        have htag := (tagOk_iff t).mp hd.1
        simp only [okSlot] at hy
        simp only [needSlot] at hn
        simp only [encSlot, encE_split s flag t ty yv hy, List.append_assoc] at hf ⊢
        obtain ⟨f, rfl⟩ : ∃ g, f = g + 2 := ⟨f - 2, by
          have := keyBytes_pos t (wtOf ty); simp only [List.length_append] at hf; omega⟩
        have hsc : shapeE s ty (optCur s ty m) = true := by
          cases m with
          | some xv => simpa [shapeSlot, optCur] using hsm
          | _ => simp only [optCur]; exact shape_defaultE s hs ty hd.2
        have hm : mergeSlot s (recurOf s ctx) (.single t ty true) m t (wtOf ty) (payE s flag ty yv ++ B)
            = .ok (.some (mergeValE s ty (optCur s ty m) yv), B) := by
          simp only [mergeSlot, mergeE_pay s flag hs ty hd.2 (optCur s ty m) yv ctx hy hn hsc B]
        rw [loop_step s _ _ _ _ t (wtOf ty) _ B B.length (f + 1) (Nat.le_refl _) htag.1 htag.2 (by simp [FieldDecl.tags]) hm]
        rw [loop_done]
        simp [mergeValSlot]
      | false => simp [okSlot] at hy
    | _ => simp [okSlot] at hy
  | rep ys =>
    cases d with
    | rep t ty =>
      cases m with
      | rep xs =>
        simp only [FieldDecl.wfIn, Bool.and_eq_true] at hd
        simp only [okSlot] at hy
        simp only [needSlot] at hn
        simp only [encSlot] at hf ⊢
        rw [loop_rep s flag hs t hd.1 ty hd.2 xs ys ctx hy hn B f hf]
        simp [mergeValSlot]
      | _ => simp [shapeSlot] at hsm
    | single t ty opt => cases opt <;> simp [okSlot] at hy
    | _ => simp [okSlot] at hy
  | map kvs =>
    cases d with
    | map t kc vty =>
      cases m with
      | map xs =>
        simp only [FieldDecl.wfIn, Bool.and_eq_true] at hd
        simp only [okSlot, Bool.and_eq_true] at hy
        simp only [needSlot] at hn
        simp only [encSlot] at hf ⊢
        rw [loop_map s flag hs t hd.1.1 kc hd.1.2 vty hd.2 xs kvs ctx hy.1 hn B f hf]
        simp [mergeValSlot]
      | _ => simp [shapeSlot] at hsm
    | single t ty opt => cases opt <;> simp [okSlot] at hy
    | _ => simp [okSlot] at hy
  | one t yv =>
    cases d with
    | oneof vs =>
      simp only [okSlot] at hy
      simp only [needSlot] at hn
      cases hl : lookupVariant vs t with
      | none => simp [hl] at hy
      | some ty =>
        simp only [hl] at hy
        have hv := variant_tagOk vs _ hd t ty hl
        have htag := (tagOk_iff t).mp hv.1
        simp only [encSlot, hl, encE_split s flag t ty yv hy, List.append_assoc] at hf ⊢
        obtain ⟨f, rfl⟩ : ∃ g, f = g + 2 := ⟨f - 2, by
          have := keyBytes_pos t (wtOf ty); simp only [List.length_append] at hf; omega⟩
        have hsc : shapeE s ty (oneCur s ty t m) = true := by
          cases m with
          | one t' xv =>
            simp only [oneCur]
            split
            · rename_i he
              subst he
              simpa [shapeSlot, hl] using hsm
            · exact shape_defaultE s hs ty hv.2
          | _ => simp only [oneCur]; exact shape_defaultE s hs ty hv.2
        have hcont : (FieldDecl.oneof vs).tags.contains t = true := by
          have := lookupVariant_mem vs t ty hl
          simp only [FieldDecl.tags, List.contains_eq_mem, List.mem_map, decide_eq_true_eq]
          exact ⟨(t, ty), this, rfl⟩
        have hm : mergeSlot s (recurOf s ctx) (.oneof vs) m t (wtOf ty) (payE s flag ty yv ++ B)
            = .ok (.one t (mergeValE s ty (oneCur s ty t m) yv), B) := by
          simp only [mergeSlot, hl, mergeE_pay s flag hs ty hv.2 (oneCur s ty t m) yv ctx hy hn hsc B]
        rw [loop_step s _ _ _ _ t (wtOf ty) _ B B.length (f + 1) (Nat.le_refl _) htag.1 htag.2 hcont hm]
        rw [loop_done]
        simp [mergeValSlot, hl]
    | single t ty opt => cases opt <;> simp [okSlot] at hy
    | _ => simp [okSlot] at hy
termination_by structural y
theorem loop_slots (s : Schema) (flag : Bool) (hs : WFSchema s = true) (preD : List FieldDecl) (preM : Slots) (D : List FieldDecl)
    (M ys : Slots) (ctx : Nat) (hl : preM.length = preD.length) (hwf : D.all (FieldDecl.wfIn s.length) = true)
    (hnd : nodup (allTags (preD ++ D)) = true) (hy : okSlots s flag D ys = true) (hn : needSlots ys ≤ ctx)
    (hsm : shapeSlots s D M = true) (rest : Bytes) (f : Nat) (hf : (encSlots s flag D ys ++ rest).length < f) :
    mergeLoopGo (fieldStep (mergeField s ctx) (preD ++ D)) f (preM.append M) (encSlots s flag D ys ++ rest) rest.length
      = .ok (preM.append (mergeValSlots s D M ys), rest) := by
  cases ys with
  | nil =>
    cases D with
    | nil =>
      cases M with
      | nil =>
        obtain ⟨f, rfl⟩ : ∃ g, f = g + 1 := ⟨f - 1, by omega⟩
        simp only [encSlots, List.nil_append, loop_done, mergeValSlots]
      | cons a b => simp [shapeSlots] at hsm
    | cons d D => simp [okSlots] at hy
  | cons y ys =>
    cases D with
    | nil => simp [okSlots] at hy
    | cons d D =>
      cases M with
      | nil => simp [shapeSlots] at hsm
      | cons m M =>
        simp only [okSlots, Bool.and_eq_true] at hy
        simp only [shapeSlots, Bool.and_eq_true] at hsm
        simp only [List.all_cons, Bool.and_eq_true] at hwf
        simp only [needSlots] at hn
        simp only [encSlots, List.append_assoc] at hf ⊢
        -- the records of field `d`, by its own arm
        have hloc := loop_slot s flag hs d hwf.1 m y ctx hy.1 (by omega) hsm.1 (encSlots s flag D ys ++ rest) f hf
        have hdisj := tags_disjoint preD d D hnd
        have hglob := sim_slot s (recurOf s ctx) ctx preD preM d D M hl hdisj _ f m _ _ _ hloc
        rw [← mergeField_eq] at hglob
        -- continue with the rest of the input
        have hstep : StepOK (fieldStep (mergeField s ctx) (preD ++ d :: D)) := fieldStep_ok _ (mergeField_ok s ctx) _
        rw [mergeLoopGo_split _ hstep _ rest.length (by simp) f _ _ _ _ hf hglob]
        have e1 : preD ++ d :: D = (preD ++ [d]) ++ D := by simp
        have e2 : ∀ (z : Slot) (Z : Slots), preM.append (.cons z Z) = (preM.append (.cons z .nil)).append Z := by
          intro z Z; rw [Slots.append_assoc]; rfl
        rw [e1, e2]
        have hl' : (preM.append (.cons (mergeValSlot s d m y) .nil)).length = (preD ++ [d]).length := by
          rw [slots_len_append]; simp [Slots.length, hl]
        have := loop_slots s flag hs (preD ++ [d]) (preM.append (.cons (mergeValSlot s d m y) .nil)) D M ys ctx hl' hwf.2
          (by rw [← e1]; exact hnd) hy.2 (by omega) hsm.2 rest f (by simp only [List.length_append] at hf ⊢; omega)
        rw [this]
        simp only [mergeValSlots, Slots.append_assoc, Slots.append]
termination_by structural ys
theorem loop_rep (s : Schema) (flag : Bool) (hs : WFSchema s = true) (t : Nat) (ht : tagOk t = true) (ty : FTy)
    (hty : ty.wfIn s.length = true) (xs ys : EVals) (ctx : Nat) (hy : okEs s flag ty ys = true) (hn : needEs ys ≤ ctx)
    (B : Bytes) (f : Nat) (hf : (encEs s flag t ty ys ++ B).length < f) :
    mergeLoopGo (slotStep s (recurOf s ctx) (.rep t ty)) f (.rep xs) (encEs s flag t ty ys ++ B) B.length
      = .ok (.rep (xs.append ys), B) := by
  cases ys with
  | nil =>
    obtain ⟨f, rfl⟩ : ∃ g, f = g + 1 := ⟨f - 1, by omega⟩
    simp only [encEs, List.nil_append, loop_done, evals_append_nil]
  | cons y ys =>
    have htag := (tagOk_iff t).mp ht
    simp only [okEs, Bool.and_eq_true] at hy
    simp only [needEs] at hn
    simp only [encEs, encE_split s flag t ty y hy.1, List.append_assoc] at hf ⊢
    obtain ⟨f, rfl⟩ : ∃ g, f = g + 1 := ⟨f - 1, by omega⟩
    have hm : mergeSlot s (recurOf s ctx) (.rep t ty) (.rep xs) t (wtOf ty) (payE s flag ty y ++ (encEs s flag t ty ys ++ B))
        = .ok (.rep (xs.append (.cons y .nil)), encEs s flag t ty ys ++ B) := by
      cases ty with
      | scalar c =>
        cases y with
        | s yv =>
          simp only [okE, Bool.and_eq_true] at hy
          simp only [mergeSlot, wtOf, payE, Codec.mergeRepeated_one c yv hy.1.1 ((lenOk_iff yv).mp hy.1.2), List.nil_append, svalsToE]
        | msg fs => simp [okE] at hy
      | msg i =>
        have h1 := mergeE_pay s flag hs (.msg i) hty (defaultE s (.msg i)) y ctx hy.1 (by omega)
          (shape_defaultE s hs _ hty) (encEs s flag t (.msg i) ys ++ B)
        simp only [wtOf] at h1
        simp only [mergeSlot, wtOf, checkWireType, if_true, h1]
        rw [mergeValE_default s flag hs (.msg i) _ y (exactDefault_defaultE s _) (shape_defaultE s hs _ hty) hy.1]
        rfl
    rw [loop_step s _ _ _ _ t (wtOf ty) _ _ B.length f (by simp only [List.length_append]; omega) htag.1 htag.2 (by simp [FieldDecl.tags]) hm]
    have hkp := keyBytes_pos t (wtOf ty)
    rw [loop_rep s flag hs t ht ty hty _ ys ctx hy.2 (by omega) B f (by simp only [List.length_append] at hf ⊢; omega)]
    rw [EVals.append_assoc]; rfl
termination_by structural ys
theorem loop_map (s : Schema) (flag : Bool) (hs : WFSchema s = true) (t : Nat) (ht : tagOk t = true) (kc : Codec)
    (hkc : kc.isKey = true) (vty : FTy) (hvty : vty.wfIn s.length = true) (xs kvs : Pairs) (ctx : Nat)
    (hy : okPairs s flag kc vty kvs = true) (hn : needPairs kvs ≤ ctx) (B : Bytes) (f : Nat)
    (hf : (encPairs s flag t kc vty kvs ++ B).length < f) :
    mergeLoopGo (slotStep s (recurOf s ctx) (.map t kc vty)) f (.map xs) (encPairs s flag t kc vty kvs ++ B) B.length
      = .ok (.map (insertAll xs kvs), B) := by
  cases kvs with
  | nil =>
    obtain ⟨f, rfl⟩ : ∃ g, f = g + 1 := ⟨f - 1, by omega⟩
    simp only [encPairs, List.nil_append, loop_done, insertAll]
  | cons k v r =>
    have htag := (tagOk_iff t).mp ht
    unfold okPairs at hy
    simp only [needPairs] at hn
    obtain ⟨c, rfl⟩ : ∃ c, ctx = c + 1 := ⟨ctx - 1, by omega⟩
    simp only [Bool.and_eq_true, decide_eq_true_eq] at hy
    obtain ⟨⟨⟨⟨⟨hk, hkl⟩, hve⟩, hdef⟩, hlen⟩, hr⟩ := hy
    have hkl' := (lenOk_iff k).mp hkl
    -- the value record through `message::merge` / the scalar module, one level down
    have hE : ∀ R, mergeE s (recurOf s c) vty (defaultE s vty) (wtOf vty) (payE s flag vty v ++ R) = .ok (v, R) := by
      intro R
      rw [mergeE_pay s flag hs vty hvty (defaultE s vty) v c hve (by omega) (shape_defaultE s hs vty hvty) R,
        mergeValE_default s flag hs vty _ v (exactDefault_defaultE s vty) (shape_defaultE s hs vty hvty) hve]
    have e1 := Codec.encodedLen_eq kc 1 (by decide) (by decide) k hkl'
    have e2 := lenE_eq s flag hs 2 tagOk_2 vty v hve
    -- what the entry loop leaves behind is (k, v)
    have hk' : (if (!flag && k.isDefault) = true then kc.default else k) = k := by
      split
      · rename_i h; simp only [Bool.and_eq_true] at h; exact (key_default kc k hkc hk h.2).symm
      · rfl
    have hv' : (if (!flag && v.isDefault) = true then defaultE s vty else v) = v := by
      cases hfl : flag <;> cases hvd : v.isDefault <;> simp [hfl, hvd] at hdef ⊢
      exact hdef.symm
    have hlen' : (if (!flag && k.isDefault) = true then 0 else kc.encodedLen 1 k) +
        (if (!flag && v.isDefault) = true then 0 else lenE s flag 2 vty v) < 2 ^ 64 := hlen
    unfold encPairs at hf ⊢
    simp only [List.append_assoc] at hf ⊢
    obtain ⟨f, rfl⟩ : ∃ g, f = g + 1 := ⟨f - 1, by omega⟩
    have hlenEq : (if (!flag && k.isDefault) = true then 0 else kc.encodedLen 1 k) +
        (if (!flag && v.isDefault) = true then 0 else lenE s flag 2 vty v)
        = ((if (!flag && k.isDefault) = true then ([] : Bytes) else kc.encode 1 k) ++
           (if (!flag && v.isDefault) = true then ([] : Bytes) else encE s flag 2 vty v)).length := by
      simp only [List.length_append]
      congr 1
      · split <;> simp [e1]
      · split <;> simp [e2]
    have hm : mergeSlot s (recurOf s (c + 1)) (.map t kc vty) (.map xs) t .len
        ((encodeVarint ((if (!flag && k.isDefault) = true then 0 else kc.encodedLen 1 k) +
            (if (!flag && v.isDefault) = true then 0 else lenE s flag 2 vty v)) ++
          ((if (!flag && k.isDefault) = true then [] else kc.encode 1 k) ++
            (if (!flag && v.isDefault) = true then [] else encE s flag 2 vty v))) ++ (encPairs s flag t kc vty r ++ B))
        = .ok (.map (xs.insert k v), encPairs s flag t kc vty r ++ B) := by
      simp only [mergeSlot, recurOf, mergeLoop, List.append_assoc, decodeVarint_encode _ hlen']
      have hle : ¬ ((if (!flag && k.isDefault) = true then 0 else kc.encodedLen 1 k) +
          (if (!flag && v.isDefault) = true then 0 else lenE s flag 2 vty v)) >
          ((if (!flag && k.isDefault) = true then ([] : Bytes) else kc.encode 1 k) ++
            ((if (!flag && v.isDefault) = true then [] else encE s flag 2 vty v) ++ (encPairs s flag t kc vty r ++ B))).length := by
        rw [hlenEq]; simp only [List.length_append]; omega
      simp only [hle, if_false]
      have hlim : ((if (!flag && k.isDefault) = true then ([] : Bytes) else kc.encode 1 k) ++
            ((if (!flag && v.isDefault) = true then [] else encE s flag 2 vty v) ++ (encPairs s flag t kc vty r ++ B))).length -
          ((if (!flag && k.isDefault) = true then 0 else kc.encodedLen 1 k) +
            (if (!flag && v.isDefault) = true then 0 else lenE s flag 2 vty v)) = (encPairs s flag t kc vty r ++ B).length := by
        rw [hlenEq]; simp only [List.length_append]; omega
      rw [hlim]
      rw [entry_loop s flag c kc vty k v (!flag && k.isDefault) (!flag && v.isDefault) hk hkl' hve hE _ _ (by omega)]
      simp only [hk', hv', entryResult]
    have hkp := keyBytes_pos t .len
    have eb : keyBytes t .len ++ (encodeVarint ((if (!flag && k.isDefault) = true then 0 else kc.encodedLen 1 k) + (if (!flag && v.isDefault) = true then 0 else lenE s flag 2 vty v)) ++ ((if (!flag && k.isDefault) = true then ([] : Bytes) else kc.encode 1 k) ++ ((if (!flag && v.isDefault) = true then ([] : Bytes) else encE s flag 2 vty v) ++ (encPairs s flag t kc vty r ++ B))))
        = keyBytes t .len ++ ((encodeVarint ((if (!flag && k.isDefault) = true then 0 else kc.encodedLen 1 k) + (if (!flag && v.isDefault) = true then 0 else lenE s flag 2 vty v)) ++ ((if (!flag && k.isDefault) = true then ([] : Bytes) else kc.encode 1 k) ++ (if (!flag && v.isDefault) = true then ([] : Bytes) else encE s flag 2 vty v))) ++ (encPairs s flag t kc vty r ++ B)) := by
      simp only [List.append_assoc]
    rw [eb, loop_step s _ _ _ _ t .len (encodeVarint ((if (!flag && k.isDefault) = true then 0 else kc.encodedLen 1 k) + (if (!flag && v.isDefault) = true then 0 else lenE s flag 2 vty v)) ++ ((if (!flag && k.isDefault) = true then ([] : Bytes) else kc.encode 1 k) ++ (if (!flag && v.isDefault) = true then ([] : Bytes) else encE s flag 2 vty v))) (encPairs s flag t kc vty r ++ B) B.length f
      (by simp only [List.length_append]; omega) htag.1 htag.2 (by simp [FieldDecl.tags]) hm]
    rw [loop_map s flag hs t ht kc hkc vty hvty _ r (c + 1) hr (by omega) B f (by simp only [List.length_append] at hf ⊢; omega)]
    simp only [insertAll]
termination_by structural kvs
end

end Pilota.Proto
