import PilotaModel.Lemmas.IdlConstRT
/-
  C15: `const` definitions, fields.
-/
namespace Pilota.Idl

/-- an absent optional part between two optional blanks: the two blanks collapse into one -/
theorem optFail_collapse {α β} {Q : P β} {K : Option β → P α} {B T0 : List Char} (hB : BT B) (hT0 : NB T0)
    (hQ : Q T0 = .err) :
    (andThen (opt blank) fun _ => andThen (opt Q) fun q => andThen (opt blank) fun _ => K q) (B ++ T0) =
      (andThen (opt blank) fun _ => K none) (B ++ T0) := by
  rw [andThen_optBlank hB hT0, andThen_optBlank hB hT0, andThen_of_ok (opt_of_err hQ),
    andThen_of_ok (opt_of_err (blank_err hT0))]

/-- a text is a blank followed by something that is not `c` and does not start a blank -/
def SplitNot (c : Char) (T : List Char) : Prop :=
  ∃ B T0, T = B ++ T0 ∧ BT B ∧ NB T0 ∧ hdP (fun x => x != c) T0 = true

theorem splitNot_blank {c : Char} {b T : List Char} (hb : BT b) (h : SplitNot c T) : SplitNot c (b ++ T) := by
  obtain ⟨B, T0, rfl, hB, h1, h2⟩ := h
  exact ⟨b ++ B, T0, by simp, hb.append hB, h1, h2⟩

theorem splitNot_of {c : Char} {T : List Char} (h1 : NB T) (h2 : hdP (fun x => x != c) T = true) : SplitNot c T :=
  ⟨[], T, rfl, BT.nil, h1, h2⟩

theorem tail_splitNot {c : Char} (hc : c ≠ ',' ∧ c ≠ ';') (endsOpen last : Bool) (l : Layout) {R : List Char}
    (hR : NB R) (hd : hdP (fun x => x != c) R = true) : SplitNot c ((rTail endsOpen last l).1 ++ R) := by
  simp only [rTail, rWith_fst]
  rcases sepChar_cases (l.pop.1.sep) with h | h | h
  · simp only [h, if_true]; exact splitNot_blank (rGap_BT _ _) (splitNot_of hR hd)
  · simp only [h, List.cons_ne_nil, if_false, rSeq_fst, rLit_fst, List.append_assoc, List.cons_append, List.nil_append]
    exact splitNot_blank (rB0_BT _) (splitNot_of (sepChar_BT_false (Or.inl rfl) _) (by rw [hdP_cons]; simp; exact fun e => hc.1 e.symm))
  · simp only [h, List.cons_ne_nil, if_false, rSeq_fst, rLit_fst, List.append_assoc, List.cons_append, List.nil_append]
    exact splitNot_blank (rB0_BT _) (splitNot_of (sepChar_BT_false (Or.inr rfl) _) (by rw [hdP_cons]; simp; exact fun e => hc.2 e.symm))

theorem tailAdj_splitNot {c : Char} (hc : c ≠ ',' ∧ c ≠ ';') (endsOpen last : Bool) (l : Layout) {R : List Char}
    (hR : NB R) (hd : hdP (fun x => x != c) R = true) : SplitNot c ((rTailAdj endsOpen last l).1 ++ R) := by
  simp only [rTailAdj, rWith_fst]
  rcases sepChar_cases (l.pop.1.sep) with h | h | h
  · simp only [h, if_true]; exact splitNot_blank (rGap_BT _ _) (splitNot_of hR hd)
  · simp only [h, List.cons_ne_nil, if_false, rSeq_fst, rLit_fst, List.append_assoc, List.cons_append, List.nil_append]
    exact splitNot_of (sepChar_BT_false (Or.inl rfl) _) (by rw [hdP_cons]; simp; exact fun e => hc.1 e.symm)
  · simp only [h, List.cons_ne_nil, if_false, rSeq_fst, rLit_fst, List.append_assoc, List.cons_append, List.nil_append]
    exact splitNot_of (sepChar_BT_false (Or.inr rfl) _) (by rw [hdP_cons]; simp; exact fun e => hc.2 e.symm)

theorem rOptAnns_splitNot {c : Char} (hc : c ≠ '(') {as : Annotations} (has : as ≠ []) (l : Layout) (x : List Char) :
    SplitNot c ((rOptAnns as l).1 ++ x) := by
  have he : as.isEmpty = false := by cases as; exact absurd rfl has; rfl
  simp only [rOptAnns, rAnns, he, Bool.false_eq_true, if_false, rSeq_fst, rLit_fst, List.append_assoc, List.cons_append,
    List.nil_append]
  exact splitNot_blank (rB0_BT _) (splitNot_of (by rw [NB, hdP_cons]; decide) (by rw [hdP_cons]; simp; exact fun e => hc e.symm))

/-- the text after a definition body, up to the next element: a blank, then not `c` -/
theorem defTail_splitNot {c : Char} (hc : c ≠ ',' ∧ c ≠ ';' ∧ c ≠ '(') {as : Annotations} (endsOpen last : Bool) (l : Layout)
    {R : List Char} (hR : NB R) (hd : hdP (fun x => x != c) R = true) :
    SplitNot c ((rOptAnns as l).1 ++ ((rDefTail as endsOpen last (rOptAnns as l).2).1 ++ R)) := by
  by_cases has : as = []
  · subst has
    simp only [rOptAnns, rDefTail, List.isEmpty_nil, if_true, rLit_fst, rLit_snd, List.nil_append]
    exact tail_splitNot ⟨hc.1, hc.2.1⟩ _ _ _ hR hd
  · exact rOptAnns_splitNot hc.2.2 has l _

theorem fieldTail_splitNot {c : Char} (hc : c ≠ ',' ∧ c ≠ ';' ∧ c ≠ '(') {as : Annotations} (endsOpen last : Bool) (l : Layout)
    {R : List Char} (hR : NB R) (hd : hdP (fun x => x != c) R = true) :
    SplitNot c ((rOptAnns as l).1 ++ ((rTail endsOpen last (rOptAnns as l).2).1 ++ R)) := by
  by_cases has : as = []
  · subst has
    simp only [rOptAnns, List.isEmpty_nil, if_true, rLit_fst, rLit_snd, List.nil_append]
    exact tail_splitNot ⟨hc.1, hc.2.1⟩ _ _ _ hR hd
  · exact rOptAnns_splitNot hc.2.2 has l _

theorem pathStop_of_split {T : List Char} (h : SplitNot '.' T) : PathStop T := by
  obtain ⟨B, T0, rfl, hB, h1, h2⟩ := h
  exact pathStop_of hB h1 h2

/-! ### `const` -/

def Constant.depth (c : Constant) : Nat := max c.ty.depth c.value.depth

theorem constant_rt {c : Constant} (hw : Item.wf (.constant c) = true) (hs : c.value.supported = true) {d : Nat}
    (hd : c.depth < d) (last : Bool) (l : Layout) {R : List Char} (hlast : last = true → R = []) (hR : ItemStart R) :
    ∃ g, BT g ∧ Constant.parse d ((rConstant c last l).1 ++ R) = .ok c (g ++ R) := by
  obtain ⟨name, ty, value, anns⟩ := c
  simp only [Item.wf, Bool.and_eq_true] at hw
  obtain ⟨⟨⟨⟨hty, hname⟩, hcpp⟩, hval⟩, han⟩ := hw
  simp only [Constant.depth] at hd
  simp only [rConstant, rSeq_fst, rSeq_snd, rLit_fst, rLit_snd, List.append_assoc]
  have hsepT : ∀ l1, (value.endsOpen = true → Sep ((rOptAnns anns l1).1 ++ ((rDefTail anns value.endsOpen last (rOptAnns anns l1).2).1 ++ R))) := by
    intro l1 ho
    apply defTail_sep
    rcases sep_of_last hlast value.endsOpen with h | h | h
    · exact Or.inl h
    · exact Or.inr h
    · rw [ho] at h; cases h
  have hps : ∀ l1, PathStop ((rOptAnns anns l1).1 ++ ((rDefTail anns value.endsOpen last (rOptAnns anns l1).2).1 ++ R)) :=
    fun l1 => pathStop_of_split (defTail_splitNot (by decide) _ _ _ hR.nb (hR.ne '.' (by decide)))
  obtain ⟨g, ann, hg, hann, htail⟩ := defTail_rt (fun anns' => ret ({ name := name, ty := ty, value := value, annotations := anns'.getD [] } : Constant))
    han value.endsOpen last
    (rConst value (rB0 (rB0 (rB1 (rType ty (rB1 l).2).2).2).2).2).2
    hR.nb hR.noSep (hR.ne '(' (by decide))
  refine ⟨g, hg, ?_⟩
  have hfn : hdP (fun c => !isIdentChar c) ((rB0 (rB1 (rType ty (rB1 l).2).2).2).1 ++ (['='] ++
      ((rB0 (rB0 (rB1 (rType ty (rB1 l).2).2).2).2).1 ++ ((rConst value (rB0 (rB0 (rB1 (rType ty (rB1 l).2).2).2).2).2).1 ++
        ((rOptAnns anns (rConst value (rB0 (rB0 (rB1 (rType ty (rB1 l).2).2).2).2).2).2).1 ++
          ((rDefTail anns value.endsOpen last (rOptAnns anns (rConst value (rB0 (rB0 (rB1 (rType ty (rB1 l).2).2).2).2).2).2).2).1 ++ R)))))) = true :=
    ((rB0_BT _).sep_append (Or.inr (by show isSepChar '=' = true; decide))).noIdent
  unfold Constant.parse Type.parse
  rw [andThen_of_ok (tag_append _ _),
    andThen_of_ok (skip_of_ok (blank_rt (rB1_BT _) (rB1_ne _) (rType_NB hty _ _)) |>.trans
      (type_rt ty hty d (by omega) _ _ (typeFollow_name ty (rB1_BT _) (Or.inl (rB1_ne _)) hname hcpp hfn))),
    andThen_of_ok (skip_of_ok (blank_rt (rB1_BT _) (rB1_ne _) (ident_NB hname)) |>.trans (ident_rt hname hfn)),
    andThen_of_ok (skip_of_ok (optBlank_rt (rB0_BT _) (by show notBlankStart '=' = true; decide)) |>.trans (tag_append _ _)),
    andThen_of_ok (skip_of_ok (optBlank_rt (rB0_BT _)
        (hdP_mono (fun _ hc => (constStart_props hc).1) (rConst_start hval hs _ _).1)) |>.trans
      (const_rt value hval hs d (by omega) _ _ (constFollow_general (hsepT _) (hps _)))),
    htail, hann]
  rfl

end Pilota.Idl
