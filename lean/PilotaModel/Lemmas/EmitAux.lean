import PilotaModel.Build.Emit
/-  helper lemmas for Props/C17 -/
namespace Pilota.Props.C17
open Pilota.Build

theorem flatMap_congr_left {α β} (l : List α) (f g : α → List β) (h : ∀ x ∈ l, f x = g x) : l.flatMap f = l.flatMap g := by
  induction l with
  | nil => rfl
  | cons a as ih =>
    simp only [List.flatMap_cons]
    rw [h a (by simp), ih (fun x hx => h x (by simp [hx]))]

theorem natLe_trans (a b c : Nat) (h1 : natLe a b = true) (h2 : natLe b c = true) : natLe a c = true := by
  simp [natLe] at *; omega

theorem natLe_total (a b : Nat) : (natLe a b || natLe b a) = true := by
  simp [natLe]; omega

theorem lookup_filter_ne (acc : List (Path × List Nat)) (p q : Path) (h : p ≠ q) :
    Build.lookup (acc.filter (·.1 != q)) p = Build.lookup acc p := by
  unfold Build.lookup
  rw [List.find?_filter]
  have : (fun (a : Path × List Nat) => decide ((a.1 != q) = true ∧ (a.1 == p) = true)) = fun a => a.1 == p := by
    funext a
    by_cases hap : a.1 = p
    · have : a.1 ≠ q := by rw [hap]; exact h
      simp [hap, h]
    · simp [hap]
  rw [this]

theorem lookup_filter_self (acc : List (Path × List Nat)) (p : Path) :
    (acc.filter (·.1 != p)).find? (·.1 == p) = none := by
  rw [List.find?_eq_none]
  intro x hx
  simp only [List.mem_filter] at hx
  simpa using hx.2

end Pilota.Props.C17
