import PilotaModel.Lemmas.IdlTotal
/-
  The recursion budget never changes an answer: `Ext p q` says that wherever `p` does not run out
  of budget, `q` returns the same result.  Every combinator is monotone for `Ext`, hence
  `X.parse d` is extended by `X.parse d'` for every `d ≤ d'`.
-/
namespace Pilota.Idl

def Ext {α} (p q : P α) : Prop := ∀ s, p s ≠ .fuel → q s = p s

namespace Ext
variable {α β : Type}

theorem refl (p : P α) : Ext p p := fun _ _ => rfl

theorem trans {p q r : P α} (h1 : Ext p q) (h2 : Ext q r) : Ext p r := by
  intro s hs; have e1 := h1 s hs; rw [h2 s (by rw [e1]; exact hs), e1]

theorem bindR {x : PR α} {f g : α → List Char → PR β} (h : ∀ a r, f a r ≠ .fuel → g a r = f a r)
    (hx : x.bind f ≠ .fuel) : x.bind g = x.bind f := by
  cases x with
  | ok a r => exact h a r hx
  | _ => rfl

theorem bind_ne {x : PR α} {f : α → List Char → PR β} (hx : x.bind f ≠ .fuel) : x ≠ .fuel := by
  intro e; subst e; exact hx rfl

theorem andThen {p p' : P α} {f f' : α → P β} (hp : Ext p p') (hf : ∀ a, Ext (f a) (f' a)) :
    Ext (andThen p f) (andThen p' f') := by
  intro s hs
  unfold Idl.andThen at *
  rw [hp s (bind_ne hs)]
  exact bindR (fun a r h => hf a r h) hs

theorem skip {p p' : P α} {q q' : P β} (hp : Ext p p') (hq : Ext q q') : Ext (skip p q) (skip p' q') :=
  andThen hp (fun _ => hq)

theorem pmap (f : α → β) {p p' : P α} (hp : Ext p p') : Ext (pmap f p) (pmap f p') := by
  intro s hs; unfold Idl.pmap PR.map at *; rw [hp s (bind_ne hs)]

theorem terminated {p p' : P α} {q q' : P β} (hp : Ext p p') (hq : Ext q q') :
    Ext (terminated p q) (terminated p' q') := andThen hp (fun _ => pmap _ hq)

theorem mapRes (f : α → Option β) {p p' : P α} (hp : Ext p p') : Ext (mapRes p f) (mapRes p' f) := by
  intro s hs; unfold Idl.mapRes at *; rw [hp s (bind_ne hs)]

theorem pmapChecked (f : α → Except String β) {p p' : P α} (hp : Ext p p') :
    Ext (pmapChecked f p) (pmapChecked f p') := by
  intro s hs; unfold Idl.pmapChecked at *; rw [hp s (bind_ne hs)]

theorem peek {p p' : P α} (hp : Ext p p') : Ext (peek p) (peek p') := by
  intro s hs; unfold Idl.peek at *; rw [hp s (bind_ne hs)]

theorem recognize {p p' : P α} (hp : Ext p p') : Ext (recognize p) (recognize p') := by
  intro s hs; unfold Idl.recognize at *; rw [hp s (bind_ne hs)]

theorem opt {p p' : P α} (hp : Ext p p') : Ext (opt p) (opt p') := by
  intro s hs; unfold Idl.opt at *
  have : p s ≠ .fuel := by intro e; rw [e] at hs; exact hs rfl
  rw [hp s this]

theorem pnot {p p' : P α} (hp : Ext p p') : Ext (pnot p) (pnot p') := by
  intro s hs; unfold Idl.pnot at *
  have : p s ≠ .fuel := by intro e; rw [e] at hs; exact hs rfl
  rw [hp s this]

theorem alt_cons {p p' : P α} {ps ps' : List (P α)} (hp : Ext p p') (hps : Ext (alt ps) (alt ps')) :
    Ext (alt (p :: ps)) (alt (p' :: ps')) := by
  intro s hs
  simp only [Idl.alt] at *
  have : p s ≠ .fuel := by intro e; rw [e] at hs; exact hs rfl
  rw [hp s this]
  cases e : p s with
  | err => rw [e] at hs; exact hps s hs
  | _ => rfl

theorem many0F {p p' : P α} (hp : Ext p p') : ∀ n, Ext (Idl.many0F p n) (Idl.many0F p' n)
  | 0 => fun s hs => absurd rfl hs
  | n + 1 => by
    intro s hs
    simp only [Idl.many0F] at *
    have : p s ≠ .fuel := by intro e; rw [e] at hs; exact hs rfl
    rw [hp s this]
    cases e : p s with
    | ok a r =>
      rw [e] at hs; simp only at hs ⊢
      split
      · rfl
      · rename_i hne
        simp only [hne, if_false] at hs
        unfold PR.map at *
        rw [many0F hp n r (bind_ne hs)]
    | _ => rfl

theorem many0 {p p' : P α} (hp : Ext p p') : Ext (many0 p) (many0 p') := fun s => many0F hp _ s

theorem many1 {p p' : P α} (hp : Ext p p') : Ext (many1 p) (many1 p') := by
  intro s hs; unfold Idl.many1 at *
  rw [hp s (bind_ne hs)]
  refine bindR (fun a r h => ?_) hs
  unfold PR.map at *
  rw [many0F hp _ r (bind_ne h)]

theorem sepLoopF {sep sep' : P β} {p p' : P α} (hs : Ext sep sep') (hp : Ext p p') :
    ∀ n, Ext (Idl.sepLoopF sep p n) (Idl.sepLoopF sep' p' n)
  | 0 => fun s hs => absurd rfl hs
  | n + 1 => by
    intro i hi
    simp only [Idl.sepLoopF] at *
    have : sep i ≠ .fuel := by intro e; rw [e] at hi; exact hi rfl
    rw [hs i this]
    cases e : sep i with
    | ok b i1 =>
      rw [e] at hi; simp only at hi ⊢
      split
      · rfl
      · rename_i hne
        simp only [hne, if_false] at hi
        have : p i1 ≠ .fuel := by intro e; rw [e] at hi; exact hi rfl
        rw [hp i1 this]
        cases e2 : p i1 with
        | ok a i2 =>
          rw [e2] at hi; simp only at hi ⊢
          unfold PR.map at *
          rw [sepLoopF hs hp n i2 (bind_ne hi)]
        | _ => rfl
    | _ => rfl

theorem separatedList1 {sep sep' : P β} {p p' : P α} (hs : Ext sep sep') (hp : Ext p p') :
    Ext (separatedList1 sep p) (separatedList1 sep' p') := by
  intro s h; unfold Idl.separatedList1 at *
  rw [hp s (bind_ne h)]
  refine bindR (fun a r h => ?_) h
  unfold PR.map at *
  rw [sepLoopF hs hp _ r (bind_ne h)]

theorem manyTillF {p p' : P α} {g g' : P β} (hp : Ext p p') (hg : Ext g g') :
    ∀ n, Ext (Idl.manyTillF p g n) (Idl.manyTillF p' g' n)
  | 0 => fun s hs => absurd rfl hs
  | n + 1 => by
    intro s hs
    simp only [Idl.manyTillF] at *
    have : g s ≠ .fuel := by intro e; rw [e] at hs; exact hs rfl
    rw [hg s this]
    cases e : g s with
    | err =>
      rw [e] at hs; simp only at hs ⊢
      rw [hp s (bind_ne hs)]
      refine bindR (fun a r h => ?_) hs
      split
      · rfl
      · rename_i hne
        simp only [hne, if_false] at h
        unfold PR.map at *
        rw [manyTillF hp hg n r (bind_ne h)]
    | _ => rfl

theorem manyTill {p p' : P α} {g g' : P β} (hp : Ext p p') (hg : Ext g g') : Ext (manyTill p g) (manyTill p' g') :=
  fun s => manyTillF hp hg _ s

theorem permutation2 {p p' : P α} {q q' : P β} (hp : Ext p p') (hq : Ext q q') :
    Ext (permutation2 p q) (permutation2 p' q') := by
  intro s hs
  unfold Idl.permutation2 at *
  have : p s ≠ .fuel := by intro e; rw [e] at hs; exact hs rfl
  rw [hp s this]
  cases e : p s with
  | ok a s1 =>
    rw [e] at hs; simp only at hs ⊢
    unfold PR.map at *
    rw [hq s1 (bind_ne hs)]
  | err =>
    rw [e] at hs; simp only at hs ⊢
    rw [hq s (bind_ne hs)]
    refine bindR (fun b s1 h => ?_) hs
    unfold PR.map at *
    rw [hp s1 (bind_ne h)]
  | _ => rfl

theorem ite {c : Prop} [Decidable c] {p p' q q' : P α} (hp : Ext p p') (hq : Ext q q') :
    Ext (if c then p else q) (if c then p' else q') := by split <;> assumption

end Ext

syntax "ext_step" : tactic
macro_rules | `(tactic| ext_step) => `(tactic| assumption)
macro_rules | `(tactic| ext_step) => `(tactic| with_reducible intro _)
macro_rules | `(tactic| ext_step) => `(tactic| with_reducible apply Ext.ite)
macro_rules | `(tactic| ext_step) => `(tactic| with_reducible apply Ext.alt_cons)
macro_rules | `(tactic| ext_step) => `(tactic| with_reducible apply Ext.pmap)
macro_rules | `(tactic| ext_step) => `(tactic| with_reducible apply Ext.mapRes)
macro_rules | `(tactic| ext_step) => `(tactic| with_reducible apply Ext.pmapChecked)
macro_rules | `(tactic| ext_step) => `(tactic| with_reducible apply Ext.opt)
macro_rules | `(tactic| ext_step) => `(tactic| with_reducible apply Ext.peek)
macro_rules | `(tactic| ext_step) => `(tactic| with_reducible apply Ext.pnot)
macro_rules | `(tactic| ext_step) => `(tactic| with_reducible apply Ext.recognize)
macro_rules | `(tactic| ext_step) => `(tactic| with_reducible apply Ext.many0)
macro_rules | `(tactic| ext_step) => `(tactic| with_reducible apply Ext.many1)
macro_rules | `(tactic| ext_step) => `(tactic| with_reducible apply Ext.separatedList1)
macro_rules | `(tactic| ext_step) => `(tactic| with_reducible apply Ext.manyTill)
macro_rules | `(tactic| ext_step) => `(tactic| with_reducible apply Ext.permutation2)
macro_rules | `(tactic| ext_step) => `(tactic| with_reducible apply Ext.terminated)
macro_rules | `(tactic| ext_step) => `(tactic| with_reducible apply Ext.skip)
macro_rules | `(tactic| ext_step) => `(tactic| with_reducible apply Ext.andThen)
macro_rules | `(tactic| ext_step) => `(tactic| with_reducible exact Ext.refl _)
macro "ext_tac" : tactic => `(tactic| repeat ext_step)

theorem ext_typeParse {ty ty' : P Ty} (h : Ext ty ty') : Ext (typeParse ty) (typeParse ty') := by
  unfold typeParse; ext_tac

theorem ext_ty_succ : ∀ d, Ext (Ty.parse d) (Ty.parse (d + 1))
  | 0 => fun s hs => absurd rfl hs
  | d + 1 => by
    have ih := ext_typeParse (ext_ty_succ d)
    unfold Ty.parse
    ext_tac

theorem ext_constValue_succ : ∀ d, Ext (ConstValue.parse d) (ConstValue.parse (d + 1))
  | 0 => fun s hs => absurd rfl hs
  | d + 1 => by
    have ih := ext_constValue_succ d
    unfold ConstValue.parse
    ext_tac

theorem ext_type_succ (d : Nat) : Ext (Type.parse d) (Type.parse (d + 1)) := ext_typeParse (ext_ty_succ d)

theorem ext_field_succ (d : Nat) : Ext (Field.parse d) (Field.parse (d + 1)) := by
  have := ext_type_succ d; have := ext_constValue_succ d; unfold Field.parse; ext_tac

theorem ext_structLike_succ (d : Nat) : Ext (StructLike.parse d) (StructLike.parse (d + 1)) := by
  have := ext_field_succ d; unfold StructLike.parse; ext_tac

theorem ext_function_succ (d : Nat) : Ext (Function.parse d) (Function.parse (d + 1)) := by
  have := ext_type_succ d; have := ext_field_succ d; unfold Function.parse; ext_tac

theorem ext_item_succ (d : Nat) : Ext (Item.parse d) (Item.parse (d + 1)) := by
  have := ext_type_succ d; have := ext_constValue_succ d
  have := ext_structLike_succ d; have := ext_function_succ d
  have h1 : Ext (Typedef.parse d) (Typedef.parse (d + 1)) := by unfold Typedef.parse; ext_tac
  have h2 : Ext (Constant.parse d) (Constant.parse (d + 1)) := by unfold Constant.parse; ext_tac
  have h5 : Ext (Struct.parse d) (Struct.parse (d + 1)) := by unfold Struct.parse; ext_tac
  have h6 : Ext (Union.parse d) (Union.parse (d + 1)) := by unfold Union.parse; ext_tac
  have h7 : Ext (Exception.parse d) (Exception.parse (d + 1)) := by unfold Exception.parse; ext_tac
  have h8 : Ext (Service.parse d) (Service.parse (d + 1)) := by unfold Service.parse; ext_tac
  unfold Item.parse
  ext_tac

theorem ext_fileD_succ (d : Nat) : Ext (File.parseD d) (File.parseD (d + 1)) := by
  have := ext_item_succ d; unfold File.parseD; ext_tac

theorem ext_of_succ {α} (f : Nat → P α) (h : ∀ d, Ext (f d) (f (d + 1))) : ∀ {d d'}, d ≤ d' → Ext (f d) (f d') := by
  intro d d' hle
  induction hle with
  | refl => exact Ext.refl _
  | step _ ih => exact Ext.trans ih (h _)

theorem ext_ty {d d'} (h : d ≤ d') : Ext (Ty.parse d) (Ty.parse d') := ext_of_succ _ ext_ty_succ h
theorem ext_type {d d'} (h : d ≤ d') : Ext (Type.parse d) (Type.parse d') := ext_of_succ _ ext_type_succ h
theorem ext_constValue {d d'} (h : d ≤ d') : Ext (ConstValue.parse d) (ConstValue.parse d') := ext_of_succ _ ext_constValue_succ h
theorem ext_fileD {d d'} (h : d ≤ d') : Ext (File.parseD d) (File.parseD d') := ext_of_succ _ ext_fileD_succ h

end Pilota.Idl
