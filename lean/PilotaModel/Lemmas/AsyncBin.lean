import PilotaModel.Lemmas.AsyncFlat
/-  `TAsyncBinaryProtocol` (both byte orders) on flat bytes vs. the in-memory `TBinaryProtocol` reader. -/
namespace Pilota.Thrift.Async
open Pilota Pilota.Thrift

namespace ABin

@[simp] theorem runF_ret {α} (a : α) (bs : Bytes) : runF (Prog.ret a) bs = .ok (a, bs) := rfl
@[simp] theorem runF_fail {α} (k : ErrKind) (bs : Bytes) : runF (Prog.fail k : Prog α) bs = .err k := rfl

theorem runF_readU (e : Endian) (w : Nat) (bs : Bytes) : runF (readU e w) bs = Binary.readU e w bs := by
  simp only [readU, runF, Binary.readU]
  cases Binary.takeN w bs with
  | ok p => rfl
  | err k => rfl
  | panic m => rfl
  | fuel => rfl

theorem runF_readI (e : Endian) (w : Nat) (bs : Bytes) : runF (readI e w) bs = Binary.readI e w bs := by
  simp only [readI, runF, Binary.readI, Binary.readU]
  cases Binary.takeN w bs with
  | ok p => rfl
  | err k => rfl
  | panic m => rfl
  | fuel => rfl

theorem runF_readByte (bs : Bytes) : runF readByte bs = Binary.readByte bs := by
  cases bs with
  | nil => simp [readByte, runF, Binary.readByte, Binary.takeN]
  | cons b r => simp [readByte, runF, Binary.readByte, Binary.takeN, decFixed, beToNat, leToNat]

theorem runF_readTType (bs : Bytes) : runF readTType bs = Binary.readTType bs := by
  simp only [readTType, runF_bind, runF_readByte, Binary.readTType, bindP]
  cases Binary.readByte bs with
  | ok p => obtain ⟨b, r⟩ := p; simp only; cases TType.ofByte b <;> rfl
  | err k => rfl
  | panic m => rfl
  | fuel => rfl

theorem runF_readFieldBegin (e : Endian) (bs : Bytes) : runF (readFieldBegin e) bs = Binary.readFieldBegin e bs := by
  simp only [readFieldBegin, runF_bind, runF_readTType, Binary.readFieldBegin, bindP]
  cases Binary.readTType bs with
  | ok p =>
    obtain ⟨t, r⟩ := p
    simp only
    by_cases hs : t = .stop
    · simp [hs]
    · simp only [hs, if_false, runF_bind, runF_readI, bindP]
      cases Binary.readI e 2 r with
      | ok q => rfl
      | err k => rfl
      | panic m => rfl
      | fuel => rfl
  | err k => rfl
  | panic m => rfl
  | fuel => rfl

theorem inS4_bound (n : Int) (h : inS 4 n) : -2147483648 ≤ n ∧ n < 2147483648 := by
  unfold inS at h
  have e4 : (256:Nat) ^ 4 = 4294967296 := by decide
  rw [e4] at h; omega

theorem readI_inS (e : Endian) (w : Nat) (hw : 0 < w) (bs : Bytes) (n : Int) (r : Bytes)
    (h : Binary.readI e w bs = .ok (n, r)) : inS w n := by
  unfold Binary.readI at h
  cases hx : Binary.readU e w bs with
  | ok p =>
    simp only [hx, Out.ok.injEq, Prod.mk.injEq] at h
    rw [← h.1]; exact inS_toS w hw _
  | err k => simp [hx] at h
  | panic m => simp [hx] at h
  | fuel => simp [hx] at h

theorem asUsize_nonneg (n : Int) (h0 : 0 ≤ n) (h : inS 4 n) : Binary.asUsize n = n.toNat := by
  unfold Binary.asUsize toU
  have := inS4_bound n h
  have e8 : (256:Nat) ^ 8 = 18446744073709551616 := by decide
  rw [e8]
  have : n % ((18446744073709551616 : Nat) : Int) = n := Int.emod_eq_of_lt h0 (by omega)
  rw [this]

theorem asUsize_neg (n : Int) (h0 : n < 0) (h : inS 4 n) : 2 ^ 63 ≤ Binary.asUsize n := by
  unfold Binary.asUsize toU
  have := inS4_bound n h
  have e8 : (256:Nat) ^ 8 = 18446744073709551616 := by decide
  have e63 : (2:Nat) ^ 63 = 9223372036854775808 := by decide
  rw [e8, e63]
  have h2 : (n + 18446744073709551616) % ((18446744073709551616 : Nat) : Int) = n % ((18446744073709551616 : Nat) : Int) := by simp
  have h3 : (n + 18446744073709551616) % ((18446744073709551616 : Nat) : Int) = n + 18446744073709551616 :=
    Int.emod_eq_of_lt (by omega) (by omega)
  rw [← h2, h3]; omega

theorem readI_le (e : Endian) (w : Nat) (bs : Bytes) (n : Int) (r : Bytes) (h : Binary.readI e w bs = .ok (n, r)) :
    r.length ≤ bs.length := runF_le (readI e w) bs n r (by rw [runF_readI]; exact h)

/-- payload read: on an input a slice can hold (`len ≤ isize::MAX`) the two readers accept the same
inputs with the same result. -/
theorem readBytes_iff (e : Endian) (bs : Bytes) (hb : bs.length < 2 ^ 63) (q : Bytes × Bytes) :
    runF (readBytes e) bs = .ok q ↔ Binary.readBytes e bs = .ok q := by
  simp only [readBytes, runF_bind, runF_readI, Binary.readBytes, bindP]
  cases hx : Binary.readI e 4 bs with
  | ok p =>
    obtain ⟨len, r⟩ := p
    simp only
    have hin := readI_inS e 4 (by decide) bs len r hx
    have hr := readI_le e 4 bs len r hx
    by_cases hneg : len < 0
    · have hbig := asUsize_neg len hneg hin
      have hle : ¬ (Binary.asUsize len ≤ r.length) := by omega
      simp [hneg, hle]
    · have hu := asUsize_nonneg len (by omega) hin
      simp only [hneg, if_false, runF, hu, Binary.takeN, Binary.splitTo]
      by_cases hle : len.toNat ≤ r.length <;> simp [hle]
  | err k => simp
  | panic m => simp
  | fuel => simp


theorem checkSize_inv (n : Int) (r : Bytes) (m : Nat) (h : Binary.checkSize n r = .ok m) :
    0 ≤ n ∧ m = n.toNat ∧ m ≤ r.length := by
  unfold Binary.checkSize at h
  split at h
  · cases h
  · split at h
    · simp only [Out.ok.injEq] at h; subst h; exact ⟨by omega, rfl, by assumption⟩
    · cases h

theorem checkSize_of (n : Int) (r : Bytes) (h0 : 0 ≤ n) (hle : n.toNat ≤ r.length) : Binary.checkSize n r = .ok n.toNat := by
  unfold Binary.checkSize
  have : ¬ n < 0 := by omega
  simp [this, hle]

theorem readListBegin_of_sync (e : Endian) (bs : Bytes) (q : (TType × Nat) × Bytes)
    (h : Binary.readListBegin e bs = .ok q) : runF (readListBegin e) bs = .ok q := by
  simp only [readListBegin, runF_bind, runF_readTType, runF_readI, bindP, runF_ret]
  unfold Binary.readListBegin at h
  cases hx : Binary.readTType bs with
  | ok p =>
    obtain ⟨t, r1⟩ := p
    simp only [hx] at h ⊢
    cases hy : Binary.readI e 4 r1 with
    | ok p2 =>
      obtain ⟨n, r⟩ := p2
      simp only [hy] at h ⊢
      cases hc : Binary.checkSize n r with
      | ok m =>
        simp only [hc] at h
        obtain ⟨h0, hm, _⟩ := checkSize_inv n r m hc
        rw [asUsize_nonneg n h0 (readI_inS e 4 (by decide) r1 n r hy), ← hm]; exact h
      | err k => simp [hc] at h
      | panic m => simp [hc] at h
      | fuel => simp [hc] at h
    | err k => simp [hy] at h
    | panic m => simp [hy] at h
    | fuel => simp [hy] at h
  | err k => simp [hx] at h
  | panic m => simp [hx] at h
  | fuel => simp [hx] at h

theorem sync_of_readListBegin (e : Endian) (bs : Bytes) (hb : bs.length < 2 ^ 63) (t : TType) (m : Nat) (r : Bytes)
    (h : runF (readListBegin e) bs = .ok ((t, m), r)) (hm : m ≤ r.length) :
    Binary.readListBegin e bs = .ok ((t, m), r) := by
  simp only [readListBegin, runF_bind, runF_readTType, runF_readI, bindP_ok, runF_ret, Out.ok.injEq, Prod.mk.injEq] at h
  obtain ⟨t', r1, h1, n, r', h2, ⟨rfl, rfl⟩, rfl⟩ := h
  have hin := readI_inS e 4 (by decide) r1 n r' h2
  have hr : r'.length ≤ bs.length := by
    have a := readI_le e 4 r1 n r' h2
    have b := runF_le readTType bs t' r1 (by rw [runF_readTType]; exact h1)
    omega
  have h0 : 0 ≤ n := by
    by_cases hn : n < 0
    · have := asUsize_neg n hn hin; omega
    · omega
  have hu := asUsize_nonneg n h0 hin
  rw [hu] at hm ⊢
  simp [Binary.readListBegin, h1, h2, checkSize_of n r' h0 hm]

theorem readMapBegin_of_sync (e : Endian) (bs : Bytes) (q : (TType × TType × Nat) × Bytes)
    (h : Binary.readMapBegin e bs = .ok q) : runF (readMapBegin e) bs = .ok q := by
  simp only [readMapBegin, runF_bind, runF_readTType, runF_readI, bindP, runF_ret]
  unfold Binary.readMapBegin at h
  cases hx : Binary.readTType bs with
  | ok p =>
    obtain ⟨kt, r0⟩ := p
    simp only [hx] at h ⊢
    cases hx2 : Binary.readTType r0 with
    | ok p1 =>
      obtain ⟨vt, r1⟩ := p1
      simp only [hx2] at h ⊢
      cases hy : Binary.readI e 4 r1 with
      | ok p2 =>
        obtain ⟨n, r⟩ := p2
        simp only [hy] at h ⊢
        cases hc : Binary.checkSize n r with
        | ok m =>
          simp only [hc] at h
          obtain ⟨h0, hm, _⟩ := checkSize_inv n r m hc
          rw [asUsize_nonneg n h0 (readI_inS e 4 (by decide) r1 n r hy), ← hm]; exact h
        | err k => simp [hc] at h
        | panic m => simp [hc] at h
        | fuel => simp [hc] at h
      | err k => simp [hy] at h
      | panic m => simp [hy] at h
      | fuel => simp [hy] at h
    | err k => simp [hx2] at h
    | panic m => simp [hx2] at h
    | fuel => simp [hx2] at h
  | err k => simp [hx] at h
  | panic m => simp [hx] at h
  | fuel => simp [hx] at h

theorem sync_of_readMapBegin (e : Endian) (bs : Bytes) (hb : bs.length < 2 ^ 63) (kt vt : TType) (m : Nat) (r : Bytes)
    (h : runF (readMapBegin e) bs = .ok ((kt, vt, m), r)) (hm : m ≤ r.length) :
    Binary.readMapBegin e bs = .ok ((kt, vt, m), r) := by
  simp only [readMapBegin, runF_bind, runF_readTType, runF_readI, bindP_ok, runF_ret, Out.ok.injEq, Prod.mk.injEq] at h
  obtain ⟨kt', r0, h0', vt', r1, h1, n, r', h2, ⟨rfl, rfl, rfl⟩, rfl⟩ := h
  have hin := readI_inS e 4 (by decide) r1 n r' h2
  have hr : r'.length ≤ bs.length := by
    have a := readI_le e 4 r1 n r' h2
    have b := runF_le readTType bs kt' r0 (by rw [runF_readTType]; exact h0')
    have c := runF_le readTType r0 vt' r1 (by rw [runF_readTType]; exact h1)
    omega
  have h0 : 0 ≤ n := by
    by_cases hn : n < 0
    · have := asUsize_neg n hn hin; omega
    · omega
  have hu := asUsize_nonneg n h0 hin
  rw [hu] at hm ⊢
  simp [Binary.readMapBegin, h0', h1, h2, checkSize_of n r' h0 hm]

end ABin
end Pilota.Thrift.Async
