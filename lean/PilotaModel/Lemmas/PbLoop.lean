import PilotaModel.Lemmas.PbLen
/-
  Loop algebra for the emitted decoder: budgets do not matter once sufficient, a loop over
  `A ++ B` that lands exactly on `B` continues as the loop over `B`, fields in front of the one
  a record belongs to are passed over, and a run of records of one field is the loop of that
  field's arm (simulation).
-/
namespace Pilota.Proto
open Pilota

/-! ### Slots as lists -/

theorem Slots.append_nil : ∀ (a : Slots), a.append .nil = a
  | .nil => rfl
  | .cons v r => by simp [Slots.append, Slots.append_nil r]

theorem Slots.append_assoc : ∀ (a b c : Slots), (a.append b).append c = a.append (b.append c)
  | .nil, _, _ => rfl
  | .cons v r, b, c => by simp [Slots.append, Slots.append_assoc r b c]

/-! ### budgets -/

theorem mergeLoopGo_fuel_indep {σ : Type} (step : σ → Bytes → Out (σ × Bytes)) (hs : StepOK step) (limit : Nat) :
    ∀ (f f' : Nat) (s : σ) (bs : Bytes), bs.length < f → bs.length < f' →
      mergeLoopGo step f s bs limit = mergeLoopGo step f' s bs limit := by
  intro f
  induction f with
  | zero => intro f' s bs h; omega
  | succ f ih =>
    intro f' s bs h1 h2
    cases f' with
    | zero => omega
    | succ f' =>
      unfold mergeLoopGo
      split
      · have hst := hs s bs
        cases h : step s bs with
        | ok p =>
          obtain ⟨s1, r1⟩ := p
          rw [h] at hst; simp only [Out.good] at hst
          exact ih f' s1 r1 (by omega) (by omega)
        | err k => rfl
        | panic e => rfl
        | fuel => rfl
      · rfl

/-- a loop that stops exactly at `r` (limit `l1 = r.length`) is a prefix of the loop with a
smaller limit. -/
theorem mergeLoopGo_split {σ : Type} (step : σ → Bytes → Out (σ × Bytes)) (hs : StepOK step) (l1 l2 : Nat) (h12 : l2 ≤ l1) :
    ∀ (f : Nat) (s : σ) (bs : Bytes) (s' : σ) (r : Bytes), bs.length < f → mergeLoopGo step f s bs l1 = .ok (s', r) →
      mergeLoopGo step f s bs l2 = mergeLoopGo step f s' r l2 := by
  intro f
  induction f with
  | zero => intro s bs s' r h; omega
  | succ f ih =>
    intro s bs s' r hf h
    unfold mergeLoopGo at h
    by_cases hgt : bs.length > l1
    · simp only [hgt, if_true] at h
      have hst := hs s bs
      cases hstep : step s bs with
      | ok p =>
        obtain ⟨s1, r1⟩ := p
        rw [hstep] at hst; simp only [Out.good] at hst
        simp only [hstep] at h
        have := ih s1 r1 s' r (by omega) h
        have hgt2 : bs.length > l2 := by omega
        conv => lhs; unfold mergeLoopGo
        simp only [hgt2, if_true, hstep]
        rw [this]
        have hr : r.length ≤ r1.length := by
          have g := mergeLoopGo_good step hs l1 f s1 r1 (by omega)
          rw [h] at g; simp only [Out.good] at g; exact g.1
        exact mergeLoopGo_fuel_indep step hs l2 f (f + 1) s' r (by omega) (by omega)
      | err k => simp [hstep] at h
      | panic e => simp [hstep] at h
      | fuel => simp [hstep] at h
    · simp only [hgt, if_false] at h
      split at h
      · cases h
      · cases h; rfl

/-! ### passing over the fields in front -/

def liftPre (pre : Slots) : Out (Slots × Bytes) → Out (Slots × Bytes)
  | .ok (m, r) => .ok (pre.append m, r)
  | .err k => .err k
  | .panic e => .panic e
  | .fuel => .fuel

theorem mergeSlots_pre (s : Schema) (recur : Recur) (tag : Nat) (wt : WireType) (bs : Bytes) (D : List FieldDecl) (M : Slots) :
    ∀ (preD : List FieldDecl) (preM : Slots), preM.length = preD.length →
      (∀ d ∈ preD, d.tags.contains tag = false) →
      mergeSlots s recur tag wt bs (preD ++ D) (preM.append M) = (mergeSlots s recur tag wt bs D M).map (liftPre preM) := by
  intro preD
  induction preD with
  | nil =>
    intro preM hl _
    cases preM with
    | nil =>
      simp only [List.nil_append, Slots.append]
      cases mergeSlots s recur tag wt bs D M with
      | none => rfl
      | some o => cases o with
        | ok p => obtain ⟨a, b⟩ := p; rfl
        | err k => rfl
        | panic e => rfl
        | fuel => rfl
    | cons v r => simp [Slots.length] at hl
  | cons d ds ih =>
    intro preM hl hd
    cases preM with
    | nil => simp [Slots.length] at hl
    | cons v r =>
      have hdt : d.tags.contains tag = false := hd d (by simp)
      simp only [List.cons_append, Slots.append]
      conv => lhs; rw [mergeSlots]
      simp only [hdt, Bool.false_eq_true, if_false]
      rw [ih r (by simp [Slots.length] at hl; exact hl) (fun x hx => hd x (by simp [hx]))]
      cases mergeSlots s recur tag wt bs D M with
      | none => rfl
      | some o => cases o with
        | ok p => obtain ⟨a, b⟩ := p; rfl
        | err k => rfl
        | panic e => rfl
        | fuel => rfl

theorem mergeFieldWith_pre (s : Schema) (recur : Recur) (ctx : Nat) (tag : Nat) (wt : WireType) (bs : Bytes)
    (D : List FieldDecl) (M : Slots) (preD : List FieldDecl) (preM : Slots) (hl : preM.length = preD.length)
    (hd : ∀ d ∈ preD, d.tags.contains tag = false) :
    mergeFieldWith s recur ctx (preD ++ D) (preM.append M) tag wt bs = liftPre preM (mergeFieldWith s recur ctx D M tag wt bs) := by
  unfold mergeFieldWith
  rw [mergeSlots_pre s recur tag wt bs D M preD preM hl hd]
  cases mergeSlots s recur tag wt bs D M with
  | some o => rfl
  | none =>
    simp only [Option.map]
    cases skipField ctx wt tag bs <;> rfl

theorem mergeFieldWith_hit (s : Schema) (recur : Recur) (ctx : Nat) (tag : Nat) (wt : WireType) (bs : Bytes)
    (d : FieldDecl) (D : List FieldDecl) (m : Slot) (M : Slots) (ht : d.tags.contains tag = true) :
    mergeFieldWith s recur ctx (d :: D) (.cons m M) tag wt bs =
      match mergeSlot s recur d m tag wt bs with
      | .ok (m', r) => .ok (.cons m' M, r)
      | .err k => .err k | .panic e => .panic e | .fuel => .fuel := by
  unfold mergeFieldWith mergeSlots
  simp only [ht, if_true]
  cases mergeSlot s recur d m tag wt bs with
  | ok p => obtain ⟨a, b⟩ := p; rfl
  | err k => rfl
  | panic e => rfl
  | fuel => rfl

theorem mergeField_eq (s : Schema) (ctx : Nat) : mergeField s ctx = mergeFieldWith s (recurOf s ctx) ctx := by
  cases ctx <;> rfl

/-! ### the arm of one field as a loop of its own -/

/-- `decode_key` then the arm of field `d` (records of other fields do not belong here). -/
def slotStep (s : Schema) (recur : Recur) (d : FieldDecl) (m : Slot) (bs : Bytes) : Out (Slot × Bytes) :=
  match decodeKey bs with
  | .ok ((tag, wt), r) => if d.tags.contains tag then mergeSlot s recur d m tag wt r else .err .other
  | .err k => .err k | .panic e => .panic e | .fuel => .fuel

theorem slotStep_ok (s : Schema) (recur : Recur) (hr : RecurOK recur) (d : FieldDecl) : StepOK (slotStep s recur d) := by
  intro m bs
  unfold slotStep
  have h1 := decodeKey_good bs
  cases hk : decodeKey bs with
  | ok p =>
    obtain ⟨⟨t, wt⟩, r⟩ := p
    rw [hk] at h1; simp only [Out.good] at h1
    simp only
    split
    · rename_i ht
      exact Out.good_imp (fun a ha => by omega) _ (mergeSlot_good s recur hr d m t ht wt r)
    · trivial
  | err k => trivial
  | panic e => rw [hk] at h1; exact h1.elim
  | fuel => rw [hk] at h1; exact h1.elim

/-- simulation: a run of records of field `d` inside the struct is the loop of `d`'s arm. -/
theorem sim_slot (s : Schema) (recur : Recur) (ctx : Nat) (preD : List FieldDecl) (preM : Slots) (d : FieldDecl)
    (postD : List FieldDecl) (postM : Slots) (hl : preM.length = preD.length)
    (hdisj : ∀ t, d.tags.contains t = true → ∀ p ∈ preD, p.tags.contains t = false) (limit : Nat) :
    ∀ (f : Nat) (m : Slot) (bs : Bytes) (m' : Slot) (r : Bytes),
      mergeLoopGo (slotStep s recur d) f m bs limit = .ok (m', r) →
      mergeLoopGo (fieldStep (mergeFieldWith s recur ctx) (preD ++ d :: postD)) f (preM.append (.cons m postM)) bs limit
        = .ok (preM.append (.cons m' postM), r) := by
  intro f
  induction f with
  | zero => intro m bs m' r h; simp [mergeLoopGo] at h
  | succ f ih =>
    intro m bs m' r h
    unfold mergeLoopGo at h ⊢
    by_cases hgt : bs.length > limit
    · simp only [hgt, if_true] at h ⊢
      cases hst : slotStep s recur d m bs with
      | ok p =>
        obtain ⟨m1, r1⟩ := p
        rw [hst] at h
        simp only at h
        unfold slotStep at hst
        unfold fieldStep
        cases hk : decodeKey bs with
        | ok q =>
          obtain ⟨⟨tag, wt⟩, r0⟩ := q
          rw [hk] at hst
          simp only at hst ⊢
          by_cases ht : d.tags.contains tag = true
          · simp only [ht, if_true] at hst
            rw [mergeFieldWith_pre s recur ctx tag wt r0 (d :: postD) (.cons m postM) preD preM hl (hdisj tag ht),
              mergeFieldWith_hit s recur ctx tag wt r0 d postD m postM ht, hst]
            simp only [liftPre]
            exact ih m1 r1 m' r h
          · simp only [ht] at hst
            cases hst
        | err k => simp [hk] at hst
        | panic e => simp [hk] at hst
        | fuel => simp [hk] at hst
      | err k => simp [hst] at h
      | panic e => simp [hst] at h
      | fuel => simp [hst] at h
    · simp only [hgt, if_false] at h ⊢
      split at h
      · cases h
      · rename_i hne
        simp only [hne, if_false]
        cases h; rfl

end Pilota.Proto
