import PilotaModel.Lemmas.PbIsSpec
/-
  C06, second direction: pilota decodes EVERY conforming encoding (`Spec.Enc`: any field order,
  packed / unpacked / split runs, defaults present or omitted, map entries in either order) to
  the value.  Part 1: records, folds, and the order-independence of fields.
-/
namespace Pilota.Proto
open Pilota Spec

/-! ### canonical defaults -/

mutual
theorem isDefE_exact (s : Schema) : ∀ (ty : FTy) (v : EVal), isDefE s ty v = true → v.exactDefault = true ∧ shapeE s ty v = true
  | .scalar c, .s x, h => by
    simp only [isDefE, decide_eq_true_eq] at h
    subst h
    exact ⟨by simp [EVal.exactDefault, Codec.default_exact], rfl⟩
  | .scalar _, .msg _, h => by simp [isDefE] at h
  | .msg _, .s _, h => by simp [isDefE] at h
  | .msg i, .msg fs, h => by
    simp only [isDefE] at h
    have := isDefSlots_exact s (decls s i) fs h
    exact ⟨by simpa [EVal.exactDefault] using this.1, by simpa [shapeE] using this.2⟩
theorem isDefSlot_exact (s : Schema) : ∀ (d : FieldDecl) (v : Slot), isDefSlot s d v = true → v.exactDefault = true ∧ shapeSlot s d v = true
  | .single _ ty false, .req v, h => by
    simp only [isDefSlot] at h
    have := isDefE_exact s ty v h
    exact ⟨by simpa [Slot.exactDefault] using this.1, by simpa [shapeSlot] using this.2⟩
  | .single _ _ true, .none, _ => ⟨rfl, rfl⟩
  | .rep _ _, .rep .nil, _ => ⟨rfl, rfl⟩
  | .map _ _ _, .map .nil, _ => ⟨rfl, rfl⟩
  | .oneof _, .none, _ => ⟨rfl, rfl⟩
  | .single _ _ false, .none, h => by simp [isDefSlot] at h
  | .single _ _ false, .some _, h => by simp [isDefSlot] at h
  | .single _ _ false, .rep _, h => by simp [isDefSlot] at h
  | .single _ _ false, .map _, h => by simp [isDefSlot] at h
  | .single _ _ false, .one _ _, h => by simp [isDefSlot] at h
  | .single _ _ true, .req _, h => by simp [isDefSlot] at h
  | .single _ _ true, .some _, h => by simp [isDefSlot] at h
  | .single _ _ true, .rep _, h => by simp [isDefSlot] at h
  | .single _ _ true, .map _, h => by simp [isDefSlot] at h
  | .single _ _ true, .one _ _, h => by simp [isDefSlot] at h
  | .rep _ _, .req _, h => by simp [isDefSlot] at h
  | .rep _ _, .none, h => by simp [isDefSlot] at h
  | .rep _ _, .some _, h => by simp [isDefSlot] at h
  | .rep _ _, .rep (.cons _ _), h => by simp [isDefSlot] at h
  | .rep _ _, .map _, h => by simp [isDefSlot] at h
  | .rep _ _, .one _ _, h => by simp [isDefSlot] at h
  | .map _ _ _, .req _, h => by simp [isDefSlot] at h
  | .map _ _ _, .none, h => by simp [isDefSlot] at h
  | .map _ _ _, .some _, h => by simp [isDefSlot] at h
  | .map _ _ _, .rep _, h => by simp [isDefSlot] at h
  | .map _ _ _, .map (.cons _ _ _), h => by simp [isDefSlot] at h
  | .map _ _ _, .one _ _, h => by simp [isDefSlot] at h
  | .oneof _, .req _, h => by simp [isDefSlot] at h
  | .oneof _, .some _, h => by simp [isDefSlot] at h
  | .oneof _, .rep _, h => by simp [isDefSlot] at h
  | .oneof _, .map _, h => by simp [isDefSlot] at h
  | .oneof _, .one _ _, h => by simp [isDefSlot] at h
theorem isDefSlots_exact (s : Schema) : ∀ (ds : List FieldDecl) (vs : Slots), isDefSlots s ds vs = true → vs.exactDefault = true ∧ shapeSlots s ds vs = true
  | [], .nil, _ => ⟨rfl, rfl⟩
  | d :: ds, .cons v r, h => by
    simp only [isDefSlots, Bool.and_eq_true] at h
    have h1 := isDefSlot_exact s d v h.1
    have h2 := isDefSlots_exact s ds r h.2
    exact ⟨by simp [Slots.exactDefault, h1.1, h2.1], by simp [shapeSlots, h1.2, h2.2]⟩
  | [], .cons _ _, h => by simp [isDefSlots] at h
  | _ :: _, .nil, h => by simp [isDefSlots] at h
end

theorem isDefSlot_req_eq (s : Schema) (t : Nat) (ty : FTy) (v : Slot) (h : isDefSlot s (.single t ty false) v = true) :
    ∃ a, v = .req a ∧ isDefE s ty a = true := by
  cases v with
  | req a => exact ⟨a, rfl, by simpa [isDefSlot] using h⟩
  | none => simp [isDefSlot] at h
  | some a => simp [isDefSlot] at h
  | rep xs => simp [isDefSlot] at h
  | map kvs => simp [isDefSlot] at h
  | one t a => simp [isDefSlot] at h

theorem isDefSlot_opt_eq (s : Schema) (t : Nat) (ty : FTy) (v : Slot) (h : isDefSlot s (.single t ty true) v = true) : v = .none := by
  cases v with
  | none => rfl
  | req a => simp [isDefSlot] at h
  | some a => simp [isDefSlot] at h
  | rep xs => simp [isDefSlot] at h
  | map kvs => simp [isDefSlot] at h
  | one t a => simp [isDefSlot] at h

theorem isDefSlot_rep_eq (s : Schema) (t : Nat) (ty : FTy) (v : Slot) (h : isDefSlot s (.rep t ty) v = true) : v = .rep .nil := by
  cases v with
  | rep xs =>
    cases xs with
    | nil => rfl
    | cons a b => simp [isDefSlot] at h
  | none => simp [isDefSlot] at h
  | req a => simp [isDefSlot] at h
  | some a => simp [isDefSlot] at h
  | map kvs => simp [isDefSlot] at h
  | one t a => simp [isDefSlot] at h

theorem isDefSlot_map_eq (s : Schema) (t : Nat) (k : Codec) (vt : FTy) (v : Slot) (h : isDefSlot s (.map t k vt) v = true) : v = .map .nil := by
  cases v with
  | map kvs =>
    cases kvs with
    | nil => rfl
    | cons a b c => simp [isDefSlot] at h
  | none => simp [isDefSlot] at h
  | req a => simp [isDefSlot] at h
  | some a => simp [isDefSlot] at h
  | rep xs => simp [isDefSlot] at h
  | one t a => simp [isDefSlot] at h

theorem isDefSlot_oneof_eq (s : Schema) (vs : List (Nat × FTy)) (v : Slot) (h : isDefSlot s (.oneof vs) v = true) : v = .none := by
  cases v with
  | none => rfl
  | req a => simp [isDefSlot] at h
  | some a => simp [isDefSlot] at h
  | rep xs => simp [isDefSlot] at h
  | map kvs => simp [isDefSlot] at h
  | one t a => simp [isDefSlot] at h

-- two canonical defaults of one type are equal.
mutual
theorem isDefE_unique (s : Schema) : ∀ (ty : FTy) (v w : EVal), isDefE s ty v = true → isDefE s ty w = true → v = w
  | .scalar c, .s x, .s y, h1, h2 => by
    simp only [isDefE, decide_eq_true_eq] at h1 h2; rw [h1, h2]
  | .msg i, .msg fs, .msg gs, h1, h2 => by
    simp only [isDefE] at h1 h2; rw [isDefSlots_unique s (decls s i) fs gs h1 h2]
  | .scalar _, .msg _, _, h, _ => by simp [isDefE] at h
  | .scalar _, .s _, .msg _, _, h => by simp [isDefE] at h
  | .msg _, .s _, _, h, _ => by simp [isDefE] at h
  | .msg _, .msg _, .s _, _, h => by simp [isDefE] at h
theorem isDefSlots_unique (s : Schema) : ∀ (ds : List FieldDecl) (vs ws : Slots), isDefSlots s ds vs = true → isDefSlots s ds ws = true → vs = ws
  | [], .nil, .nil, _, _ => rfl
  | d :: ds, .cons v r, .cons w r', h1, h2 => by
    simp only [isDefSlots, Bool.and_eq_true] at h1 h2
    rw [isDefSlots_unique s ds r r' h1.2 h2.2]
    congr 1
    cases d with
    | single t ty opt =>
      cases opt with
      | false =>
        obtain ⟨a, rfl, ha⟩ := isDefSlot_req_eq s t ty v h1.1
        obtain ⟨b, rfl, hb⟩ := isDefSlot_req_eq s t ty w h2.1
        rw [isDefE_unique s ty a b ha hb]
      | true => rw [isDefSlot_opt_eq s t ty v h1.1, isDefSlot_opt_eq s t ty w h2.1]
    | rep t ty => rw [isDefSlot_rep_eq s t ty v h1.1, isDefSlot_rep_eq s t ty w h2.1]
    | map t k vt => rw [isDefSlot_map_eq s t k vt v h1.1, isDefSlot_map_eq s t k vt w h2.1]
    | oneof vs => rw [isDefSlot_oneof_eq s vs v h1.1, isDefSlot_oneof_eq s vs w h2.1]
  | [], .cons _ _, _, h, _ => by simp [isDefSlots] at h
  | [], .nil, .cons _ _, _, h => by simp [isDefSlots] at h
  | _ :: _, .nil, _, h, _ => by simp [isDefSlots] at h
  | _ :: _, .cons _ _, .nil, _, h => by simp [isDefSlots] at h
end

theorem scalar_exact_default (c : Codec) (x : SVal) (hok : c.ok x = true) (he : x.exactDefault = true) : x = c.default := by
  cases c <;> cases x <;> simp [Codec.ok] at hok <;> simp [SVal.exactDefault] at he <;> simp [Codec.default, he]

-- a well-typed value that is bit-for-bit default is the canonical default.
mutual
theorem ok_exact_isDefE (s : Schema) (flag : Bool) : ∀ (ty : FTy) (v : EVal), okE s flag ty v = true → v.exactDefault = true → isDefE s ty v = true
  | .scalar c, .s x, h, he => by
    simp only [okE, Bool.and_eq_true] at h
    simp only [EVal.exactDefault] at he
    simp [isDefE, scalar_exact_default c x h.1 he]
  | .msg i, .msg fs, h, he => by
    simp only [okE, Bool.and_eq_true] at h
    simp only [EVal.exactDefault] at he
    simp only [isDefE]
    exact ok_exact_isDefSlots s flag (decls s i) fs h.1 he
  | .scalar _, .msg _, h, _ => by simp [okE] at h
  | .msg _, .s _, h, _ => by simp [okE] at h
theorem ok_exact_isDefSlots (s : Schema) (flag : Bool) : ∀ (ds : List FieldDecl) (vs : Slots), okSlots s flag ds vs = true →
    vs.exactDefault = true → isDefSlots s ds vs = true
  | [], .nil, _, _ => rfl
  | d :: ds, .cons v r, h, he => by
    simp only [okSlots, Bool.and_eq_true] at h
    simp only [Slots.exactDefault, Bool.and_eq_true] at he
    simp only [isDefSlots, Bool.and_eq_true]
    refine ⟨?_, ok_exact_isDefSlots s flag ds r h.2 he.2⟩
    have hv := h.1
    have hev := he.1
    cases d with
    | single t ty opt =>
      cases opt with
      | false =>
        cases v <;> simp [okSlot] at hv
        simp only [Slot.exactDefault] at hev
        simp only [isDefSlot]
        exact ok_exact_isDefE s flag ty _ hv hev
      | true =>
        cases v <;> simp [okSlot] at hv
        · rfl
        · simp [Slot.exactDefault] at hev
    | rep t ty =>
      cases v <;> simp [okSlot] at hv
      rename_i xs
      cases xs
      · rfl
      · simp [Slot.exactDefault] at hev
    | map t k vt =>
      cases v <;> simp [okSlot] at hv
      rename_i kvs
      cases kvs
      · rfl
      · simp [Slot.exactDefault] at hev
    | oneof vs =>
      cases v <;> simp [okSlot] at hv
      · rfl
      · simp [Slot.exactDefault] at hev
  | [], .cons _ _, h, _ => by simp [okSlots] at h
  | _ :: _, .nil, h, _ => by simp [okSlots] at h
end

theorem isDef_defaultMsg (s : Schema) (hs : WFSchema s = true) (i : Nat) : isDefSlots s (decls s i) (defaultMsg s i) = true := by
  by_cases hi : i < s.length
  · unfold WFSchema at hs
    simp only [Bool.and_eq_true, List.all_eq_true, List.mem_range] at hs
    exact hs.2.2 i hi
  · have hd : decls s i = [] := by
      unfold decls; rw [List.getD_eq_getElem?_getD, List.getElem?_eq_none (by omega)]; rfl
    unfold defaultMsg defaultE
    cases hl : s.length with
    | zero => simp [defaultTy, EVal.fields, hd, isDefSlots]
    | succ n => simp [defaultTy, EVal.fields, hd, defaultSlotsWith, isDefSlots]

theorem isDef_defaultE (s : Schema) (hs : WFSchema s = true) (ty : FTy) (hty : ty.wfIn s.length = true) :
    isDefE s ty (defaultE s ty) = true := by
  cases ty with
  | scalar c => simp [defaultE, defaultTy, isDefE]
  | msg i =>
    simp only [FTy.wfIn, decide_eq_true_eq] at hty
    have := isDef_defaultMsg s hs i
    unfold defaultMsg at this
    cases hd : defaultE s (.msg i) with
    | s x =>
      unfold defaultE at hd
      cases hl : s.length with
      | zero => omega
      | succ n => rw [hl] at hd; simp [defaultTy] at hd
    | msg fs => rw [hd] at this; simpa [isDefE, EVal.fields] using this

/-! ### records applied to values -/

def Out.mapOk {α β} (f : α → β) : Out α → Out β
  | .ok a => .ok (f a)
  | .err k => .err k
  | .panic e => .panic e
  | .fuel => .fuel

/-- the arm of field `d` on one record: the payload must be consumed exactly. -/
def applySlot (s : Schema) (recur : Recur) (d : FieldDecl) (m : Slot) (r : Rec) : Out Slot :=
  match mergeSlot s recur d m r.tag r.wt r.payload with
  | .ok (m', []) => .ok m'
  | .ok (_, _ :: _) => .err .invalid
  | .err k => .err k
  | .panic e => .panic e
  | .fuel => .fuel

def foldSlot (s : Schema) (recur : Recur) (d : FieldDecl) : Slot → List Rec → Out Slot
  | m, [] => .ok m
  | m, r :: rs =>
    match applySlot s recur d m r with
    | .ok m' => foldSlot s recur d m' rs
    | .err k => .err k
    | .panic e => .panic e
    | .fuel => .fuel

def applyRec (s : Schema) (recur : Recur) (ctx : Nat) (D : List FieldDecl) (M : Slots) (r : Rec) : Out Slots :=
  match mergeFieldWith s recur ctx D M r.tag r.wt r.payload with
  | .ok (M', []) => .ok M'
  | .ok (_, _ :: _) => .err .invalid
  | .err k => .err k
  | .panic e => .panic e
  | .fuel => .fuel

def foldRecs (s : Schema) (recur : Recur) (ctx : Nat) (D : List FieldDecl) : Slots → List Rec → Out Slots
  | M, [] => .ok M
  | M, r :: rs =>
    match applyRec s recur ctx D M r with
    | .ok M' => foldRecs s recur ctx D M' rs
    | .err k => .err k
    | .panic e => .panic e
    | .fuel => .fuel

theorem applyRec_hit (s : Schema) (recur : Recur) (ctx : Nat) (d : FieldDecl) (D : List FieldDecl) (m : Slot) (M : Slots) (r : Rec)
    (ht : d.tags.contains r.tag = true) :
    applyRec s recur ctx (d :: D) (.cons m M) r = Out.mapOk (fun m' => Slots.cons m' M) (applySlot s recur d m r) := by
  unfold applyRec applySlot
  rw [mergeFieldWith_hit s recur ctx r.tag r.wt r.payload d D m M ht]
  cases mergeSlot s recur d m r.tag r.wt r.payload with
  | ok p =>
    obtain ⟨a, b⟩ := p
    cases b <;> rfl
  | err k => rfl
  | panic e => rfl
  | fuel => rfl

theorem applyRec_miss (s : Schema) (recur : Recur) (ctx : Nat) (d : FieldDecl) (D : List FieldDecl) (m : Slot) (M : Slots) (r : Rec)
    (ht : d.tags.contains r.tag = false) :
    applyRec s recur ctx (d :: D) (.cons m M) r = Out.mapOk (fun M' => Slots.cons m M') (applyRec s recur ctx D M r) := by
  unfold applyRec
  have := mergeFieldWith_pre s recur ctx r.tag r.wt r.payload D M [d] (.cons m .nil) rfl
    (by intro x hx; simp only [List.mem_singleton] at hx; subst hx; exact ht)
  simp only [List.cons_append, List.nil_append, Slots.append] at this
  rw [this]
  cases mergeFieldWith s recur ctx D M r.tag r.wt r.payload with
  | ok p =>
    obtain ⟨a, b⟩ := p
    cases b <;> rfl
  | err k => rfl
  | panic e => rfl
  | fuel => rfl

/-- **fields are independent**: the records of the first field, picked out in order, act on its
slot; the others act on the rest of the struct; in whatever way the two groups interleave. -/
theorem foldRecs_split (s : Schema) (recur : Recur) (ctx : Nat) (d : FieldDecl) (D : List FieldDecl) :
    ∀ (rs : List Rec) (m : Slot) (M : Slots) (m1 : Slot) (M1 : Slots),
      foldSlot s recur d m (rs.filter (fun r => d.tags.contains r.tag)) = .ok m1 →
      foldRecs s recur ctx D M (rs.filter (fun r => !d.tags.contains r.tag)) = .ok M1 →
      foldRecs s recur ctx (d :: D) (.cons m M) rs = .ok (.cons m1 M1) := by
  intro rs
  induction rs with
  | nil =>
    intro m M m1 M1 h1 h2
    simp only [List.filter_nil, foldSlot, foldRecs, Out.ok.injEq] at h1 h2 ⊢
    rw [h1, h2]
  | cons r rs ih =>
    intro m M m1 M1 h1 h2
    by_cases ht : d.tags.contains r.tag = true
    · simp only [List.filter_cons, ht, if_true, Bool.not_true, Bool.false_eq_true, if_false] at h1 h2
      simp only [foldSlot] at h1
      simp only [foldRecs, applyRec_hit s recur ctx d D m M r ht]
      cases ha : applySlot s recur d m r with
      | ok ma =>
        rw [ha] at h1
        simp only [Out.mapOk]
        exact ih ma M m1 M1 h1 h2
      | err k => rw [ha] at h1; simp at h1
      | panic e => rw [ha] at h1; simp at h1
      | fuel => rw [ha] at h1; simp at h1
    · have ht' : d.tags.contains r.tag = false := by simpa using ht
      simp only [List.filter_cons, ht', Bool.false_eq_true, if_false, Bool.not_false, if_true] at h1 h2
      simp only [foldRecs] at h2
      simp only [foldRecs, applyRec_miss s recur ctx d D m M r ht']
      cases ha : applyRec s recur ctx D M r with
      | ok Ma =>
        rw [ha] at h2
        simp only [Out.mapOk]
        exact ih m Ma m1 M1 h1 h2
      | err k => rw [ha] at h2; simp at h2
      | panic e => rw [ha] at h2; simp at h2
      | fuel => rw [ha] at h2; simp at h2

/-- from records to bytes: a fold that succeeds is what the field loop computes on the
concatenated records, followed by anything. -/
theorem foldRecs_loop (s : Schema) (c : Nat) (D : List FieldDecl) :
    ∀ (rs : List Rec) (M M1 : Slots), (∀ r ∈ rs, tagOk r.tag = true) →
      foldRecs s (recurOf s c) c D M rs = .ok M1 →
      ∀ (rest : Bytes) (f : Nat), (flat rs ++ rest).length < f →
        mergeLoopGo (fieldStep (mergeField s c) D) f M (flat rs ++ rest) rest.length = .ok (M1, rest) := by
  intro rs
  induction rs with
  | nil =>
    intro M M1 _ h rest f hf
    simp only [foldRecs, Out.ok.injEq] at h
    subst h
    obtain ⟨f, rfl⟩ : ∃ g, f = g + 1 := ⟨f - 1, by omega⟩
    simp only [flat_nil, List.nil_append, loop_done]
  | cons r rs ih =>
    intro M M1 htag h rest f hf
    simp only [foldRecs] at h
    cases ha : applyRec s (recurOf s c) c D M r with
    | ok Ma =>
      rw [ha] at h
      unfold applyRec at ha
      cases hm : mergeFieldWith s (recurOf s c) c D M r.tag r.wt r.payload with
      | ok p =>
        obtain ⟨Mb, rem⟩ := p
        rw [hm] at ha
        cases rem with
        | nil =>
          simp only [Out.ok.injEq] at ha
          subst ha
          have ht := (tagOk_iff r.tag).mp (htag r (by simp))
          have hst := mergeFieldWith_stable s (recurOf s c) (recurOf_stable s c) c D M r.tag r.wt r.payload Mb [] (flat rs ++ rest) hm
          simp only [List.nil_append] at hst
          obtain ⟨f, rfl⟩ : ∃ g, f = g + 1 := ⟨f - 1, by omega⟩
          have hkp := keyBytes_pos r.tag r.wt
          have hb : flat (r :: rs) ++ rest = keyBytes r.tag r.wt ++ (r.payload ++ (flat rs ++ rest)) := by
            obtain ⟨t, w, p⟩ := r
            simp only [flat_cons, rec_bytes, List.append_assoc]
          rw [hb] at hf ⊢
          have hgt : (keyBytes r.tag r.wt ++ (r.payload ++ (flat rs ++ rest))).length > rest.length := by
            simp only [List.length_append]; omega
          conv => lhs; unfold mergeLoopGo
          simp only [hgt, if_true, fieldStep, decodeKey_keyBytes r.tag r.wt ht.1 ht.2, mergeField_eq, hst]
          rw [← mergeField_eq]
          exact ih Mb M1 (fun x hx => htag x (by simp [hx])) h rest f (by simp only [List.length_append] at hf ⊢; omega)
        | cons a b => simp at ha
      | err k => rw [hm] at ha; simp at ha
      | panic e => rw [hm] at ha; simp at ha
      | fuel => rw [hm] at ha; simp at ha
    | err k => rw [ha] at h; simp at h
    | panic e => rw [ha] at h; simp at h
    | fuel => rw [ha] at h; simp at h

end Pilota.Proto
