import PilotaModel.Lemmas.MemAsync
/-  The synchronous decoders leak only through lists whose elements own something. -/
namespace Pilota.TGen
open Pilota Pilota.Thrift

/-- values of declared type `e` never own heap memory or input-buffer references -/
def OwnsNothing (d : Doc) (e : STy) : Prop := ∀ f v, owned d f e v = 0

/-- a value of this type is never an empty `binary` read at the very end of the buffer, nor ends with one: scalars, strings,
uuids, and named structs / unions / enums (a struct ends with its stop byte).  Containers and `binary` itself are excluded
(they own something anyway when non-empty); typedefs are excluded for simplicity. -/
def TailFree (d : Doc) : STy → Prop
  | .binary | .list _ | .set _ | .map _ _ => False
  | .ref n => ∀ t, d.find n ≠ some (.typedef t)
  | _ => True

/-- every list inside the type has elements that own nothing -/
def ListSafe (d : Doc) : STy → Prop
  | .list e => OwnsNothing d e ∧ TailFree d e ∧ ListSafe d e
  | .set e => ListSafe d e
  | .map k v => ListSafe d k ∧ ListSafe d v
  | _ => True

/-- every declared item is list-safe -/
def DocSafe (d : Doc) : Prop :=
  (∀ n fs, d.find n = some (.struct fs) → ∀ fl ∈ fs, ListSafe d fl.ty) ∧
  (∀ n vs, d.find n = some (.union vs) → ∀ v ∈ vs, ListSafe d v.2) ∧
  (∀ n t, d.find n = some (.typedef t) → ListSafe d t)

theorem sum_zero_of_all_zero (l : List Nat) (h : ∀ x ∈ l, x = 0) : l.sum = 0 := by
  induction l with
  | nil => rfl
  | cons a as ih => simp [h a (by simp), ih (fun x hx => h x (by simp [hx]))]

variable {σ : Type} (R : Rd σ) (d : Doc)

theorem ofOut_ok_tail {α} (o : Out α) (a : α) (t : Bool) (h : OutL.ofOut o = .ok a t) : t = false := by
  cases o <;> simp [OutL.ofOut] at h; exact h.2

/-- a tail-free type never reports the "empty binary at the end of the buffer" flag -/
theorem tailFree_ok (sync : Bool) (f : Nat) (e : STy) (he : TailFree d e) (s : σ) (x : TVal × σ) (t : Bool)
    (h : decTyL R d sync f e s = .ok x t) : t = false := by
  cases f with
  | zero => simp [decTyL] at h
  | succ f =>
    cases e with
    | binary => exact absurd he (by simp [TailFree])
    | list e => exact absurd he (by simp [TailFree])
    | set e => exact absurd he (by simp [TailFree])
    | map k v => exact absurd he (by simp [TailFree])
    | ref n =>
      simp only [decTyL] at h
      split at h
      · split at h
        · split at h
          · split at h
            · cases h; rfl
            · cases h
          · cases h
        · cases h
        · cases h
        · cases h
      · split at h
        · split at h
          · split at h
            · cases h; rfl
            · split at h
              · cases h; rfl
              · cases h
          · cases h
        · cases h
        · cases h
        · cases h
      · exact ofOut_ok_tail _ _ _ h
      · rename_i t' hfind; exact absurd hfind (he t')
      · cases h
    | _ => simp only [decTyL] at h; exact ofOut_ok_tail _ _ _ h

theorem no_leak_sync_all (hd : DocSafe d) : ∀ f : Nat,
    (∀ ty s l, ListSafe d ty → decTyL R d true f ty s = .err l → l = 0) ∧
    (∀ e n acc s l, OwnsNothing d e → TailFree d e → ListSafe d e → decNL R d true f e n acc false s = .err l → l = 0) ∧
    (∀ e n acc t s l, ListSafe d e → decNS R d true f e n acc t s = .err l → l = 0) ∧
    (∀ k v n acc t s l, ListSafe d k → ListSafe d v → decPairsL R d true f k v n acc t s = .err l → l = 0) ∧
    (∀ fs slots s l, (∀ fl ∈ fs, ListSafe d fl.ty) → decFieldsL R d true f fs slots s = .err l → l = 0) ∧
    (∀ vs ret s l, (∀ v ∈ vs, ListSafe d v.2) → decUnionL R d true f vs ret s = .err l → l = 0) := by
  intro f
  induction f with
  | zero =>
    refine ⟨?_, ?_, ?_, ?_, ?_, ?_⟩ <;> intros <;> simp_all [decTyL, decNL, decNS, decPairsL, decFieldsL, decUnionL]
  | succ f ih =>
    obtain ⟨ihT, ihN, ihS, ihP, ihF, ihU⟩ := ih
    obtain ⟨hdS, hdU, hdT⟩ := hd
    refine ⟨?_, ?_, ?_, ?_, ?_, ?_⟩
    · intro ty s l hs h
      cases ty with
      | list e =>
        simp only [decTyL] at h
        split at h
        · split at h
          · cases h
          · rename_i hx; cases h; exact ihN e _ _ _ _ hs.1 hs.2.1 hs.2.2 hx
          · cases h
          · cases h
        · exact ofOut_err_zero _ _ h
      | set e =>
        simp only [decTyL] at h
        split at h
        · split at h
          · cases h
          · rename_i hx; cases h; exact ihS e _ _ _ _ _ hs hx
          · cases h
          · cases h
        · exact ofOut_err_zero _ _ h
      | map k v =>
        simp only [decTyL] at h
        split at h
        · split at h
          · cases h
          · rename_i hx; cases h; exact ihP k v _ _ _ _ _ hs.1 hs.2 hx
          · cases h
          · cases h
        · exact ofOut_err_zero _ _ h
      | ref n =>
        simp only [decTyL] at h
        split at h
        · rename_i fs hfind
          split at h
          · split at h
            · split at h
              · cases h
              · cases h; rfl
            · cases h; rfl
          · rename_i hx; cases h; exact ihF _ _ _ _ (hdS n fs hfind) hx
          · cases h
          · cases h
        · rename_i vs hfind
          split at h
          · split at h
            · split at h
              · cases h
              · split at h
                · cases h
                · cases h; rfl
            · cases h; rfl
          · rename_i hx; cases h; exact ihU _ _ _ _ (hdU n vs hfind) hx
          · cases h
          · cases h
        · exact ofOut_err_zero _ _ h
        · rename_i t hfind; exact ihT _ _ _ (hdT n t hfind) h
        · cases h
      | binary =>
        simp only [decTyL] at h
        split at h
        · cases h
        · exact ofOut_err_zero _ _ h
      | _ => simp only [decTyL] at h; exact ofOut_err_zero _ _ h
    · intro e n acc s l ho htf hs h
      cases n with
      | zero => simp only [decNL] at h; cases h
      | succ n =>
        simp only [decNL] at h
        split at h
        · rename_i v s' t' hx
          have ht : t' = false := tailFree_ok R d true f e htf _ _ _ hx
          subst ht
          exact ihN _ _ _ _ _ ho htf hs h
        · rename_i hx
          have h0 := ihT _ _ _ hs hx
          have hsum : (acc.map (owned d (d.length + 64) e)).sum = 0 :=
            sum_zero_of_all_zero _ (by intro x hx'; simp only [List.mem_map] at hx'; obtain ⟨v, _, rfl⟩ := hx'; exact ho _ v)
          simp at h; omega
        · cases h
        · cases h
    · intro e n acc t s l hs h
      cases n with
      | zero => simp only [decNS] at h; cases h
      | succ n =>
        simp only [decNS] at h
        split at h
        · exact ihS _ _ _ _ _ _ hs h
        · rename_i hx; cases h; exact ihT _ _ _ hs hx
        · cases h
        · cases h
    · intro k v n acc t s l hk hv h
      cases n with
      | zero => simp only [decPairsL] at h; cases h
      | succ n =>
        simp only [decPairsL] at h
        split at h
        · split at h
          · exact ihP _ _ _ _ _ _ _ hk hv h
          · rename_i hx; cases h; exact ihT _ _ _ hv hx
          · cases h
          · cases h
        · rename_i hx; cases h; exact ihT _ _ _ hk hx
        · cases h
        · cases h
    · intro fs slots s l hfs h
      simp only [decFieldsL] at h
      split at h
      · split at h
        · cases h
        · split at h
          · rename_i fl hfind
            have hmem : fl ∈ fs := List.mem_of_find?_eq_some hfind
            split at h
            · exact ihF _ _ _ _ hfs h
            · rename_i hx; cases h; exact ihT _ _ _ (hfs fl hmem) hx
            · cases h
            · cases h
          · split at h
            · exact ihF _ _ _ _ hfs h
            · exact ofOut_err_zero _ _ h
      · exact ofOut_err_zero _ _ h
    · intro vs ret s l hvs h
      simp only [decUnionL] at h
      split at h
      · split at h
        · cases h
        · split at h
          · rename_i pid ty hfind
            have hmem : (pid, ty) ∈ vs := List.mem_of_find?_eq_some hfind
            split at h
            · cases h; rfl
            · split at h
              · exact ihU _ _ _ _ hvs h
              · rename_i hx; cases h; exact ihT _ _ _ (hvs _ hmem) hx
              · cases h
              · cases h
          · split at h
            · exact ihU _ _ _ _ hvs h
            · exact ofOut_err_zero _ _ h
      · exact ofOut_err_zero _ _ h

theorem ownsNothing_scalar (d : Doc) (e : STy)
    (h : e = .bool ∨ e = .i8 ∨ e = .i16 ∨ e = .i32 ∨ e = .i64 ∨ e = .double ∨ e = .uuid) : OwnsNothing d e := by
  intro f v
  rcases h with rfl | rfl | rfl | rfl | rfl | rfl | rfl <;> cases f <;> cases v <;> rfl

end Pilota.TGen
