import PilotaModel.Lemmas.PbUnknown
import PilotaModel.Proto.SpecExec
/-
  Every codec module writes, for every value of its Rust type, exactly what the encoding guide
  prescribes for the declared type it implements (`Codec.wireClass`).
-/
namespace Pilota.Proto
open Pilota

/-- the declared type whose wire encoding a codec module implements. -/
def Codec.wireClass : Codec → PType
  | .bool => .bool | .int32 => .int32 | .int64 => .int64 | .uint32 => .uint32 | .uint64 => .uint64
  | .sint32 => .sint32 | .sint64 => .sint64 | .float => .float | .double => .double
  | .fixed32 => .fixed32 | .fixed64 => .fixed64 | .sfixed32 => .sfixed32 | .sfixed64 => .sfixed64
  | .string => .string | .faststr => .string | .bytes => .bytes

namespace Spec

theorem base128_eq (n : Nat) : base128 n = encVar n := by
  induction n using Nat.strongRecOn with
  | _ n ih =>
    rw [base128, encVar]
    split
    · rfl
    · rw [ih (n / 128) (by omega)]

theorem littleEndian_eq (w n : Nat) : littleEndian w n = natToLE w n := by
  induction w generalizing n with
  | zero => rfl
  | succ w ih => simp [littleEndian, natToLE, ih]

theorem twos64_eq (i : Int) : twos64 i = toU 8 i := by
  unfold twos64 toU
  rw [p8]; rfl

theorem zz_eq (i : Int) : zz i = zigzag i := rfl

end Spec

theorem natToLE_mod (w n : Nat) : natToLE w (n % 256 ^ w) = natToLE w n := by
  induction w generalizing n with
  | zero => rfl
  | succ w ih =>
    simp only [natToLE]
    have h1 : n % 256 ^ (w + 1) % 256 = n % 256 := by
      rw [Nat.pow_succ, Nat.mul_comm]; exact Nat.mod_mul_right_mod n 256 (256 ^ w)
    have h2 : n % 256 ^ (w + 1) / 256 = (n / 256) % 256 ^ w := by
      rw [Nat.pow_succ, Nat.mul_comm]; exact Nat.mod_mul_right_div_self n 256 (256 ^ w)
    rw [h1, h2, ih]

/-- **each module conforms**: wire type and payload are those of the encoding guide. -/
theorem module_conforms (c : Codec) (v : SVal) (hv : c.ok v = true) :
    c.wt = Spec.wireOf c.wireClass ∧ c.encPayload v = Spec.encScalar c.wireClass v := by
  constructor
  · cases c <;> rfl
  · cases c <;> cases v <;> simp [Codec.ok] at hv <;>
      simp only [Codec.encPayload, Codec.shape, Codec.wireClass, Spec.encScalar, Codec.toU64, Codec.toFixed, SVal.asInt, SVal.asBool,
        SVal.asBits, SVal.asBytes, encodeVarint, Spec.base128_eq, Spec.littleEndian_eq, Spec.twos64_eq, Spec.zz_eq]
    case uint32.int n =>
      congr 1
      have := toU4_nonneg n hv.1 hv.2
      omega
    case uint64.int n =>
      congr 1
      have := toU8_nonneg n hv.1 hv.2
      omega
    case sint32.int n => rw [Nat.mod_eq_of_lt (zigzag4_lt n hv)]
    case sint64.int n => rw [Nat.mod_eq_of_lt (zigzag8_lt n hv)]
    case fixed32.int n =>
      congr 1
      have := toU4_nonneg n hv.1 hv.2
      omega
    case fixed64.int n =>
      congr 1
      have := toU8_nonneg n hv.1 hv.2
      omega
    case sfixed32.int n =>
      unfold toU; rw [p4]
      have : ((2:Int) ^ 32) = ((4294967296 : Nat) : Int) := by decide
      rw [this]
    case sfixed64.int n =>
      unfold toU; rw [p8]
      have : ((2:Int) ^ 64) = ((18446744073709551616 : Nat) : Int) := by decide
      rw [this]

end Pilota.Proto
