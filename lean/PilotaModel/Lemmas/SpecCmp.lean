import PilotaModel.Lemmas.SpecBase
import PilotaModel.Lemmas.Fuel
import PilotaModel.Lemmas.CompactRT
/-  Compact protocol: pilota's writer produces a legal encoding; pilota's reader reads every legal encoding
    (long-form field headers where a delta fits, delta 15, bool element nibble 2, …). -/
namespace Pilota.Thrift.SpecCmp
open Pilota Pilota.Thrift Pilota.Thrift.Spec Pilota.Thrift.Compact

theorem cmpCode_facts (t : TType) (c : Nat) (h : cmpCode t = some c) :
    ttypeOfCompact c = some t ∧ 3 ≤ c ∧ c ≤ 13 ∧ t ≠ .bool ∧ t ≠ .stop ∧ compactOf t = some c ∧ t.isValue = true := by
  cases t <;> simp [cmpCode] at h <;> subst h <;> simp [ttypeOfCompact, compactOf, TType.isValue]

theorem elemCode_facts (t : TType) (c : Nat) (h : elemCode t c = true) :
    ttypeOfCompact c = some t ∧ 1 ≤ c ∧ c ≤ 13 ∧ t.isValue = true := by
  unfold elemCode at h
  by_cases hb : t = .bool
  · subst hb
    simp at h
    rcases h with rfl | rfl <;> simp [ttypeOfCompact, TType.isValue]
  · simp only [hb, if_false, beq_iff_eq] at h
    obtain ⟨h1, h2, h3, _, _, _, h7⟩ := cmpCode_facts t c h
    exact ⟨h1, by omega, h3, h7⟩

theorem elemNibble_ok (t : TType) (h : t.isValue = true) : elemCode t (elemNibble t) = true ∧ compactOf t = some (elemNibble t) := by
  cases t <;> simp [TType.isValue] at h <;> simp [elemCode, elemNibble, cmpCode, compactOf]

theorem cmpCode_of_value (v : TVal) (hb : ∀ b, v ≠ .bool b) : ∃ c, cmpCode v.ttype = some c := by
  cases v <;> first | (exfalso; exact hb _ rfl) | exact ⟨_, rfl⟩

/-! ### headers -/

theorem readFieldBegin_short (s : CR) (c d : Nat) (t : TType) (hc : 1 ≤ c ∧ c ≤ 13) (ht : ttypeOfCompact c = some t)
    (hd : 1 ≤ d ∧ d ≤ 15) (id : Int) (he : id = s.last + (d : Int)) (hid : inS 2 id) (r : Bytes) :
    readFieldBegin s (UInt8.ofNat (d * 16 + c) :: r) =
      .ok ((t, id), { s with last := id, pendingBool := if c = 1 then some true else if c = 2 then some false else s.pendingBool }, r) := by
  have hcases : c = 1 ∨ c = 2 ∨ c = 3 ∨ c = 4 ∨ c = 5 ∨ c = 6 ∨ c = 7 ∨ c = 8 ∨ c = 9 ∨ c = 10 ∨ c = 11 ∨ c = 12 ∨ c = 13 := by omega
  have hle : s.last + (d : Int) ≤ 32767 := by
    have := hid.2
    have e : (256 ^ 2 / 2 : Nat) = 32768 := by decide
    rw [e] at this; omega
  unfold readFieldBegin
  rw [readByte_cons (d * 16 + c) (by omega)]
  have h1 : (d * 16 + c) / 16 = d := by omega
  have h2 : (d * 16 + c) % 16 = c := by omega
  simp only [h1, h2]
  have hdne : d ≠ 0 := by omega
  rcases hcases with rfl | rfl | rfl | rfl | rfl | rfl | rfl | rfl | rfl | rfl | rfl | rfl | rfl <;>
    simp [ttypeOfCompact] at ht <;> subst ht <;> simp [ttypeOfCompact, hdne, hle, he]

theorem readFieldBegin_long (s : CR) (c : Nat) (t : TType) (hc : 1 ≤ c ∧ c ≤ 13) (ht : ttypeOfCompact c = some t)
    (id : Int) (hid : inS 2 id) (r : Bytes) :
    readFieldBegin s (UInt8.ofNat c :: (encVar (zigzag id) ++ r)) =
      .ok ((t, id), { s with last := id, pendingBool := if c = 1 then some true else if c = 2 then some false else s.pendingBool }, r) := by
  have hcases : c = 1 ∨ c = 2 ∨ c = 3 ∨ c = 4 ∨ c = 5 ∨ c = 6 ∨ c = 7 ∨ c = 8 ∨ c = 9 ∨ c = 10 ∨ c = 11 ∨ c = 12 ∨ c = 13 := by omega
  unfold readFieldBegin
  rw [readByte_cons c (by omega)]
  have h1 : c / 16 = 0 := by omega
  have h2 : c % 16 = c := by omega
  simp only [h1, h2]
  rcases hcases with rfl | rfl | rfl | rfl | rfl | rfl | rfl | rfl | rfl | rfl | rfl | rfl | rfl <;>
    simp [ttypeOfCompact] at ht <;> subst ht <;>
    simp [ttypeOfCompact, readVarS_zigzag 2 (Or.inl rfl) id hid]

theorem readFieldBegin_of_hdr (s : CR) (c : Nat) (t : TType) (hc : 1 ≤ c ∧ c ≤ 13) (ht : ttypeOfCompact c = some t)
    (id : Int) (hid : inS 2 id) (hd : Bytes) (h : Hdr s.last c id hd) (r : Bytes) :
    readFieldBegin s (hd ++ r) =
      .ok ((t, id), { s with last := id, pendingBool := if c = 1 then some true else if c = 2 then some false else s.pendingBool }, r) := by
  cases h with
  | short d h1 h2 he => exact readFieldBegin_short s c d t hc ht ⟨h1, h2⟩ id he hid r
  | long => exact readFieldBegin_long s c t hc ht id hid r

theorem readCollBegin_of_hdr (et : TType) (c n : Nat) (hc : elemCode et c = true) (hn : n < 2 ^ 31) (hd : Bytes)
    (h : CollHdr c n hd) (r : Bytes) (hr : n ≤ r.length) : readCollBegin (hd ++ r) = .ok ((et, n), r) := by
  obtain ⟨h4, c1, c2, _⟩ := elemCode_facts et c hc
  cases h with
  | short hs =>
    simp only [List.cons_append, List.nil_append]
    unfold readCollBegin
    rw [readByte_cons (n * 16 + c) (by omega)]
    have e1 : (n * 16 + c) / 16 = n := by omega
    have e2 : (n * 16 + c) % 16 = c := by omega
    have e3 : n ≠ 15 := by omega
    simp [e1, e2, h4, e3, Binary.checkSize_ok n r hr]
  | long hs =>
    simp only [List.cons_append]
    unfold readCollBegin
    rw [readByte_cons (0xF0 + c) (by omega)]
    have e1 : (0xF0 + c) / 16 = 15 := by omega
    have e2 : (0xF0 + c) % 16 = c := by omega
    have e31 : (2:Nat)^31 = 2147483648 := by decide
    have e32 : (2:Nat)^32 = 4294967296 := by decide
    simp only [e1, e2, h4]
    simp only [readVarU4_encVar n (by rw [e32]; rw [e31] at hn; omega), Binary.toS4_eq n hn, Binary.checkSize_ok n r hr]
    simp

theorem readMapBegin_of (kt vt : TType) (ck cv : Nat) (hk : elemCode kt ck = true) (hv : elemCode vt cv = true) (n : Nat)
    (hn0 : n ≠ 0) (hn : n < 2 ^ 31) (r : Bytes) (hr : n ≤ r.length) :
    readMapBegin (encVar n ++ (UInt8.ofNat (ck * 16 + cv) :: r)) = .ok ((kt, vt, n), r) := by
  obtain ⟨k4, k1, k2, _⟩ := elemCode_facts kt ck hk
  obtain ⟨v4, v1, v2, _⟩ := elemCode_facts vt cv hv
  have e31 : (2:Nat)^31 = 2147483648 := by decide
  have e32 : (2:Nat)^32 = 4294967296 := by decide
  unfold readMapBegin
  rw [readVarU4_encVar n (by rw [e32]; rw [e31] at hn; omega)]
  simp only [Binary.toS4_eq n hn]
  have hr' : n ≤ (UInt8.ofNat (ck * 16 + cv) :: r).length := by simp; omega
  simp only [Binary.checkSize_ok n _ hr', hn0, if_false]
  rw [readByte_cons (ck * 16 + cv) (by omega)]
  have e1 : (ck * 16 + cv) / 16 = ck := by omega
  have e2 : (ck * 16 + cv) % 16 = cv := by omega
  simp [e1, e2, k4, v4]

theorem readBytes_of (p r : Bytes) (h : p.length < 2 ^ 31) : Compact.readBytes (encVar p.length ++ (p ++ r)) = .ok (p, r) := by
  have e31 : (2:Nat)^31 = 2147483648 := by decide
  have e32 : (2:Nat)^32 = 4294967296 := by decide
  simp [Compact.readBytes, readVarU4_encVar p.length (by rw [e32]; rw [e31] at h; omega), Binary.splitTo]

/-! ### size facts -/

theorem hdr_pos (last : Int) (c : Nat) (id : Int) (hd : Bytes) (h : Hdr last c id hd) : 1 ≤ hd.length := by
  cases h <;> simp

theorem collHdr_pos (c n : Nat) (hd : Bytes) (h : CollHdr c n hd) : 1 ≤ hd.length := by
  cases h <;> simp

mutual
theorem enc_size (v : TVal) (bs : Bytes) (h : Enc v bs) : v.size + 1 ≤ 3 * bs.length := by
  cases h with
  | boolT => simp [TVal.size]
  | boolF => simp [TVal.size]
  | i8 n hn => simp [TVal.size, be]
  | i16 n hn => have : 1 ≤ (uleb (zz n)).length := Compact.encVar_pos _; simp only [TVal.size]; omega
  | i32 n hn => have : 1 ≤ (uleb (zz n)).length := Compact.encVar_pos _; simp only [TVal.size]; omega
  | i64 n hn => have : 1 ≤ (uleb (zz n)).length := Compact.encVar_pos _; simp only [TVal.size]; omega
  | dbl b hb => simp [TVal.size, le]
  | bin p hp => have : 1 ≤ (uleb p.length).length := Compact.encVar_pos _; simp only [TVal.size, List.length_append]; omega
  | uuid p hp => simp [TVal.size, hp]
  | struct fs bs hf => have := encFields_size 0 fs bs hf; simp [TVal.size]; omega
  | list et c xs hd b hc hl hh hx =>
    have := encVals_size et xs b hx; have := collHdr_pos _ _ _ hh; simp [TVal.size]; omega
  | set et c xs hd b hc hl hh hx =>
    have := encVals_size et xs b hx; have := collHdr_pos _ _ _ hh; simp [TVal.size]; omega
  | mapEmpty kt vt hk hv => simp [TVal.size, TPairs.size]
  | map kt vt ck cv k v rest b hk hv hl hx =>
    have := encPairs_size kt vt _ b hx
    have : 1 ≤ (uleb (TPairs.cons k v rest).length).length := Compact.encVar_pos _
    simp only [TVal.size, List.length_append, List.length_cons]; omega
theorem encVals_size (et : TType) (xs : TVals) (bs : Bytes) (h : EncVals et xs bs) :
    xs.size ≤ 3 * bs.length + 1 ∧ xs.length ≤ bs.length := by
  cases h with
  | nil => simp [TVals.size, TVals.length]
  | cons _ v vs a b ht hv hr =>
    have h1 := enc_size v a hv
    have h2 := encVals_size et vs b hr
    simp [TVals.size, TVals.length]; omega
theorem encFields_size (last : Int) (fs : TFields) (bs : Bytes) (h : EncFields last fs bs) : fs.size + 2 ≤ 3 * bs.length := by
  cases h with
  | nil => simp [TFields.size]
  | bool _ id b rest hd bs hid hh hr =>
    have h2 := encFields_size id rest bs hr
    have := hdr_pos _ _ _ _ hh
    simp [TFields.size, TVal.size]; omega
  | cons _ id v rest c hd a bs hid hc hh hv hr =>
    have h1 := enc_size v a hv
    have h2 := encFields_size id rest bs hr
    have := hdr_pos _ _ _ _ hh
    simp [TFields.size]; omega
theorem encPairs_size (kt vt : TType) (kvs : TPairs) (bs : Bytes) (h : EncPairs kt vt kvs bs) :
    kvs.size ≤ 3 * bs.length + 1 ∧ kvs.length ≤ bs.length := by
  cases h with
  | nil => simp [TPairs.size, TPairs.length]
  | cons _ _ k v rest a b c hk hv ek ev hr =>
    have h1 := enc_size k a ek
    have h2 := enc_size v b ev
    have h3 := encPairs_size kt vt rest c hr
    simp [TPairs.size, TPairs.length]; omega
end

end Pilota.Thrift.SpecCmp
