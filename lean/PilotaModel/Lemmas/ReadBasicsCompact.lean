import PilotaModel.Lemmas.ReadBasics
/-  The same facts for the varint and compact reader primitives. -/
namespace Pilota
open Pilota Pilota.Thrift

theorem gatherVar_ne_panic' (m bs) : ∀ s, gatherVar m bs ≠ .panic s := by
  induction m generalizing bs with
  | zero => cases bs <;> simp [gatherVar]
  | succ m ih => cases bs with
    | nil => simp [gatherVar]
    | cons b bs => intro s; simp only [gatherVar]; have := ih bs; osplit
@[simp] theorem gatherVar_ne_panic (m bs s) : gatherVar m bs ≠ .panic s := gatherVar_ne_panic' m bs s
@[simp] theorem gatherVar_ne_fuel (m bs) : gatherVar m bs ≠ .fuel := by
  induction m generalizing bs with
  | zero => cases bs <;> simp [gatherVar]
  | succ m ih => cases bs with
    | nil => simp [gatherVar]
    | cons b bs => simp only [gatherVar]; have := ih bs; osplit
theorem gatherVar_ok {m bs g r} (h : gatherVar m bs = .ok (g, r)) : 1 ≤ g.length ∧ bs = g ++ r := by
  induction m generalizing bs g with
  | zero => cases bs <;> simp [gatherVar] at h
  | succ m ih => cases bs with
    | nil => simp [gatherVar] at h
    | cons b bs =>
      simp only [gatherVar] at h
      split at h
      · simp at h; obtain ⟨rfl, rfl⟩ := h; simp
      · cases h1 : gatherVar m bs with
        | ok x =>
          obtain ⟨g0, r0⟩ := x
          simp [h1] at h
          obtain ⟨rfl, rfl⟩ := h
          have := ih h1
          simp [this.2]
        | err k => simp [h1] at h
        | panic s => simp [h1] at h
        | fuel => simp [h1] at h
theorem gatherVar_len {m bs g r} (h : gatherVar m bs = .ok (g, r)) : 1 + r.length ≤ bs.length := by
  obtain ⟨h1, rfl⟩ := gatherVar_ok h; simp; omega
theorem gatherVar_ext {m p g r} (q : Bytes) (h : gatherVar m p = .ok (g, r)) : gatherVar m (p ++ q) = .ok (g, r ++ q) := by
  induction m generalizing p g with
  | zero => cases p <;> simp [gatherVar] at h
  | succ m ih => cases p with
    | nil => simp [gatherVar] at h
    | cons b bs =>
      simp only [gatherVar, List.cons_append] at h ⊢
      split at h
      · rename_i hb; simp at h; obtain ⟨rfl, rfl⟩ := h; simp [hb]
      · rename_i hb
        cases h1 : gatherVar m bs with
        | ok x =>
          obtain ⟨g0, r0⟩ := x
          simp [h1] at h
          obtain ⟨rfl, rfl⟩ := h
          simp [hb, ih h1]
        | err k => simp [h1] at h
        | panic s => simp [h1] at h
        | fuel => simp [h1] at h

@[simp] theorem readVarU_ne_panic (w bs s) : readVarU w bs ≠ .panic s := by unfold readVarU; osplit
@[simp] theorem readVarU_ne_fuel (w bs) : readVarU w bs ≠ .fuel := by unfold readVarU; osplit
theorem readVarU_len {w bs n r} (h : readVarU w bs = .ok (n, r)) : 1 + r.length ≤ bs.length := by
  unfold readVarU at h; osplit_at h
  rename_i h1; have := gatherVar_len h1; simp_all
theorem readVarU_ext {w p n r} (q : Bytes) (h : readVarU w p = .ok (n, r)) : readVarU w (p ++ q) = .ok (n, r ++ q) := by
  unfold readVarU at h ⊢
  cases h1 : gatherVar (varMaxSize w) p with
  | ok x => obtain ⟨g0, r0⟩ := x; simp [h1] at h; simp [gatherVar_ext q h1, h]
  | err k => simp [h1] at h
  | panic s => simp [h1] at h
  | fuel => simp [h1] at h

@[simp] theorem readVarS_ne_panic (w bs s) : readVarS w bs ≠ .panic s := by unfold readVarS; osplit
@[simp] theorem readVarS_ne_fuel (w bs) : readVarS w bs ≠ .fuel := by unfold readVarS; osplit
theorem readVarS_len {w bs n r} (h : readVarS w bs = .ok (n, r)) : 1 + r.length ≤ bs.length := by
  unfold readVarS at h; osplit_at h
  rename_i h1; have := gatherVar_len h1; simp_all
theorem readVarS_ext {w p n r} (q : Bytes) (h : readVarS w p = .ok (n, r)) : readVarS w (p ++ q) = .ok (n, r ++ q) := by
  unfold readVarS at h ⊢
  cases h1 : gatherVar (varMaxSize w) p with
  | ok x => obtain ⟨g0, r0⟩ := x; simp [h1] at h; simp [gatherVar_ext q h1, h]
  | err k => simp [h1] at h
  | panic s => simp [h1] at h
  | fuel => simp [h1] at h

grind_pattern readVarU_ext => readVarU w (p ++ q), readVarU w p, Out.ok (n, r)
grind_pattern readVarS_ext => readVarS w (p ++ q), readVarS w p, Out.ok (n, r)
attribute [grind →] readVarU_len readVarS_len

namespace Thrift.Compact

/-- 1 while a bool value read from a field header is pending (the next `read_bool` consumes no byte). -/
def mu (s : CR) : Nat := if s.pendingBool.isSome then 1 else 0

theorem mu_le (s : CR) : mu s ≤ 1 := by unfold mu; split <;> omega

@[simp] theorem readByte_ne_panic (bs m) : readByte bs ≠ .panic m := Binary.readByte_ne_panic bs m
@[simp] theorem readByte_ne_fuel (bs) : readByte bs ≠ .fuel := Binary.readByte_ne_fuel bs
theorem readByte_len {bs b r} (h : readByte bs = .ok (b, r)) : 1 + r.length = bs.length := Binary.readByte_len h
theorem readByte_ext {p b r} (q : Bytes) (h : readByte p = .ok (b, r)) : readByte (p ++ q) = .ok (b, r ++ q) :=
  Binary.readByte_ext q h
attribute [grind →] readByte_len
grind_pattern readByte_ext => readByte (p ++ q), readByte p, Out.ok (b, r)
theorem checkSize_len {n r k} (h : Binary.checkSize n r = .ok k) : k ≤ r.length := (Binary.checkSize_inv h).1
attribute [grind →] checkSize_len
grind_pattern Binary.checkSize_ext => Binary.checkSize n (r ++ q), Binary.checkSize n r, Out.ok k

@[simp] theorem readFieldBegin_ne_panic (s bs m) : readFieldBegin s bs ≠ .panic m := by unfold readFieldBegin; osplit
@[simp] theorem readFieldBegin_ne_fuel (s bs) : readFieldBegin s bs ≠ .fuel := by unfold readFieldBegin; osplit
theorem readFieldBegin_len {s bs x s' r} (h : readFieldBegin s bs = .ok (x, s', r)) : 1 + r.length ≤ bs.length := by
  unfold readFieldBegin at h
  cases h1 : readByte bs with
  | ok y =>
    obtain ⟨b, r0⟩ := y
    have := readByte_len h1
    simp only [h1] at h
    osplit_at h <;> grind
  | err k => simp [h1] at h
  | panic m => simp [h1] at h
  | fuel => simp [h1] at h
theorem readFieldBegin_ext {s p x s' r} (q : Bytes) (h : readFieldBegin s p = .ok (x, s', r)) :
    readFieldBegin s (p ++ q) = .ok (x, s', r ++ q) := by
  unfold readFieldBegin at h ⊢
  cases h1 : readByte p with
  | ok y =>
    obtain ⟨b, r0⟩ := y
    simp only [h1] at h
    simp only [readByte_ext q h1]
    osplit_at h <;> first | (simp_all; done) | grind
  | err k => simp [h1] at h
  | panic m => simp [h1] at h
  | fuel => simp [h1] at h

@[simp] theorem readBool_ne_panic (s bs m) : readBool s bs ≠ .panic m := by unfold readBool; osplit
@[simp] theorem readBool_ne_fuel (s bs) : readBool s bs ≠ .fuel := by unfold readBool; osplit
/-- `read_bool` either consumes the pending value or one byte. -/
theorem readBool_len {s bs b s' r} (h : readBool s bs = .ok (b, s', r)) : 3 * r.length + mu s' + 1 ≤ 3 * bs.length + mu s := by
  unfold readBool at h
  cases hp : s.pendingBool with
  | some b0 => simp [hp] at h; obtain ⟨_, rfl, rfl⟩ := h; simp [mu, hp]
  | none =>
    simp only [hp] at h
    cases h1 : readByte bs with
    | ok y =>
      obtain ⟨b1, r0⟩ := y
      have := readByte_len h1
      simp only [h1] at h
      osplit_at h <;> (obtain ⟨_, rfl, rfl⟩ := h; simp [mu, hp]; omega)
    | err k => simp [h1] at h
    | panic m => simp [h1] at h
    | fuel => simp [h1] at h
theorem readBool_ext {s p b s' r} (q : Bytes) (h : readBool s p = .ok (b, s', r)) : readBool s (p ++ q) = .ok (b, s', r ++ q) := by
  unfold readBool at h ⊢
  cases hp : s.pendingBool with
  | some b0 => simp [hp] at h ⊢; simp [h]
  | none =>
    simp only [hp] at h ⊢
    cases h1 : readByte p with
    | ok y =>
      obtain ⟨b1, r0⟩ := y
      simp only [h1] at h
      simp only [readByte_ext q h1]
      osplit_at h <;> simp_all
    | err k => simp [h1] at h
    | panic m => simp [h1] at h
    | fuel => simp [h1] at h

@[simp] theorem readBytes_ne_panic (bs m) : readBytes bs ≠ .panic m := by
  unfold readBytes; osplit <;> simp_all [Binary.splitTo]
@[simp] theorem readBytes_ne_fuel (bs) : readBytes bs ≠ .fuel := by
  unfold readBytes; osplit <;> simp_all [Binary.splitTo]
theorem readBytes_ok {bs b r} (h : readBytes bs = .ok (b, r)) :
    ∃ n r0, readVarU 4 bs = .ok (n, r0) ∧ n ≤ r0.length ∧ b = r0.take n ∧ r = r0.drop n := by
  unfold readBytes at h
  cases h1 : readVarU 4 bs with
  | ok p =>
    obtain ⟨n, r0⟩ := p
    simp only [h1] at h
    by_cases hl : n ≤ r0.length
    · simp [hl, Binary.splitTo] at h
      exact ⟨n, r0, rfl, hl, h.1.symm, h.2.symm⟩
    · simp [hl] at h
  | err k => simp [h1] at h
  | panic m => simp [h1] at h
  | fuel => simp [h1] at h
theorem readBytes_len {bs b r} (h : readBytes bs = .ok (b, r)) : 1 + b.length + r.length ≤ bs.length := by
  obtain ⟨n, r0, h1, h2, rfl, rfl⟩ := readBytes_ok h
  have := readVarU_len h1
  simp; omega
theorem readBytes_ext {p b r} (q : Bytes) (h : readBytes p = .ok (b, r)) : readBytes (p ++ q) = .ok (b, r ++ q) := by
  obtain ⟨n, r0, h1, h2, rfl, rfl⟩ := readBytes_ok h
  unfold readBytes
  rw [readVarU_ext q h1]
  have : n ≤ r0.length + q.length := by omega
  simp [this, Binary.splitTo, List.take_append_of_le_length h2, List.drop_append_of_le_length h2]

@[simp] theorem readCollBegin_ne_panic (bs m) : readCollBegin bs ≠ .panic m := by unfold readCollBegin; osplit
@[simp] theorem readCollBegin_ne_fuel (bs) : readCollBegin bs ≠ .fuel := by unfold readCollBegin; osplit
theorem readCollBegin_len {bs x r} (h : readCollBegin bs = .ok (x, r)) : 1 + r.length ≤ bs.length := by
  unfold readCollBegin at h
  cases h1 : readByte bs with
  | ok y =>
    obtain ⟨b, r0⟩ := y
    have := readByte_len h1
    simp only [h1] at h
    osplit_at h <;> grind
  | err k => simp [h1] at h
  | panic m => simp [h1] at h
  | fuel => simp [h1] at h
theorem readCollBegin_ext {p x r} (q : Bytes) (h : readCollBegin p = .ok (x, r)) : readCollBegin (p ++ q) = .ok (x, r ++ q) := by
  unfold readCollBegin at h ⊢
  cases h1 : readByte p with
  | ok y =>
    obtain ⟨b, r0⟩ := y
    simp only [h1] at h
    simp only [readByte_ext q h1]
    osplit_at h <;> first | (simp_all; done) | grind
  | err k => simp [h1] at h
  | panic m => simp [h1] at h
  | fuel => simp [h1] at h

@[simp] theorem readMapBegin_ne_panic (bs m) : readMapBegin bs ≠ .panic m := by unfold readMapBegin; osplit
@[simp] theorem readMapBegin_ne_fuel (bs) : readMapBegin bs ≠ .fuel := by unfold readMapBegin; osplit
theorem readMapBegin_len {bs x r} (h : readMapBegin bs = .ok (x, r)) : 1 + r.length ≤ bs.length := by
  unfold readMapBegin at h
  cases h1 : readVarU 4 bs with
  | ok y =>
    obtain ⟨n, r0⟩ := y
    have := readVarU_len h1
    simp only [h1] at h
    osplit_at h <;> grind
  | err k => simp [h1] at h
  | panic m => simp [h1] at h
  | fuel => simp [h1] at h
theorem readMapBegin_ext {p x r} (q : Bytes) (h : readMapBegin p = .ok (x, r)) : readMapBegin (p ++ q) = .ok (x, r ++ q) := by
  unfold readMapBegin at h ⊢
  cases h1 : readVarU 4 p with
  | ok y =>
    obtain ⟨n, r0⟩ := y
    simp only [h1] at h
    simp only [readVarU_ext q h1]
    cases h2 : Binary.checkSize (toS 4 n) r0 with
    | ok cnt =>
      simp only [h2] at h
      simp only [Binary.checkSize_ext q h2]
      osplit_at h <;> first | (simp_all; done) | grind
    | err k => simp [h2] at h
    | panic m => simp [h2] at h
    | fuel => simp [h2] at h
  | err k => simp [h1] at h
  | panic m => simp [h1] at h
  | fuel => simp [h1] at h
@[simp] theorem readStructEnd_ne_panic (s m) : readStructEnd s ≠ .panic m := by unfold readStructEnd; osplit
@[simp] theorem readStructEnd_ne_fuel (s) : readStructEnd s ≠ .fuel := by unfold readStructEnd; osplit
theorem readStructEnd_mu {s s'} (h : readStructEnd s = .ok s') : mu s' = mu s := by
  unfold readStructEnd at h; osplit_at h; subst h; rfl
@[simp] theorem readStructBegin_mu (s) : mu (readStructBegin s) = mu s := rfl

grind_pattern readFieldBegin_ext => readFieldBegin s (p ++ q), readFieldBegin s p, Out.ok (x, s', r)
grind_pattern readBool_ext => readBool s (p ++ q), readBool s p, Out.ok (b, s', r)
grind_pattern readBytes_ext => readBytes (p ++ q), readBytes p, Out.ok (b, r)
grind_pattern readCollBegin_ext => readCollBegin (p ++ q), readCollBegin p, Out.ok (x, r)
grind_pattern readMapBegin_ext => readMapBegin (p ++ q), readMapBegin p, Out.ok (x, r)
attribute [grind →] readFieldBegin_len readBool_len readBytes_len readCollBegin_len readMapBegin_len readStructEnd_mu
attribute [grind =] readStructBegin_mu

end Thrift.Compact
end Pilota
