import PilotaModel.Lemmas.GenTotalInst
/-
  A successful emitted decode does not look past what it consumes: appending bytes to the input leaves the
  decoded value alone and hands the appended bytes back — generically over the reader record (`Rd.Ext`), then for
  the checked binary / LE reader.
-/
namespace Pilota.TGen
open Pilota Pilota.Thrift

/-- `X s q`: the reader state `s` with `q` appended to its input. -/
structure Rd.Ext {σ : Type} (R : Rd σ) (X : σ → Bytes → σ) : Prop where
  sb : ∀ s q, R.structBegin (X s q) = X (R.structBegin s) q
  se : ∀ s q s', R.structEnd s = .ok s' → R.structEnd (X s q) = .ok (X s' q)
  fb : ∀ s q a s', R.fieldBegin s = .ok (a, s') → R.fieldBegin (X s q) = .ok (a, X s' q)
  bool : ∀ s q a s', R.readBool s = .ok (a, s') → R.readBool (X s q) = .ok (a, X s' q)
  i8 : ∀ s q a s', R.readI8 s = .ok (a, s') → R.readI8 (X s q) = .ok (a, X s' q)
  i16 : ∀ s q a s', R.readI16 s = .ok (a, s') → R.readI16 (X s q) = .ok (a, X s' q)
  i32 : ∀ s q a s', R.readI32 s = .ok (a, s') → R.readI32 (X s q) = .ok (a, X s' q)
  i64 : ∀ s q a s', R.readI64 s = .ok (a, s') → R.readI64 (X s q) = .ok (a, X s' q)
  double : ∀ s q a s', R.readDouble s = .ok (a, s') → R.readDouble (X s q) = .ok (a, X s' q)
  bytes : ∀ s q a s', R.readBytes s = .ok (a, s') → R.readBytes (X s q) = .ok (a, X s' q)
  uuid : ∀ s q a s', R.readUuid s = .ok (a, s') → R.readUuid (X s q) = .ok (a, X s' q)
  lb : ∀ s q a s', R.listBegin s = .ok (a, s') → R.listBegin (X s q) = .ok (a, X s' q)
  mb : ∀ s q a s', R.mapBegin s = .ok (a, s') → R.mapBegin (X s q) = .ok (a, X s' q)
  skip : ∀ t s q s', R.skip t s = .ok s' → R.skip t (X s q) = .ok (X s' q)

section generic
variable {σ : Type} (R : Rd σ) (X : σ → Bytes → σ) (hX : R.Ext X) (d : Doc) (q : Bytes)

include hX in
theorem dec_ext : ∀ f,
    (∀ ty s v s', decTy R d f ty s = .ok (v, s') → decTy R d f ty (X s q) = .ok (v, X s' q)) ∧
    (∀ e n acc s xs s', decN R d f e n acc s = .ok (xs, s') → decN R d f e n acc (X s q) = .ok (xs, X s' q)) ∧
    (∀ kt vt n acc s xs s', decPairs R d f kt vt n acc s = .ok (xs, s') → decPairs R d f kt vt n acc (X s q) = .ok (xs, X s' q)) ∧
    (∀ fs slots s o s', decFields R d f fs slots s = .ok (o, s') → decFields R d f fs slots (X s q) = .ok (o, X s' q)) ∧
    (∀ vs ret s o s', decUnion R d f vs ret s = .ok (o, s') → decUnion R d f vs ret (X s q) = .ok (o, X s' q)) := by
  obtain ⟨sb, se, fb, rbool, ri8, ri16, ri32, ri64, rdbl, rbytes, ruuid, lb, mb, skp⟩ := hX
  intro f
  induction f with
  | zero => simp [decTy, decN, decPairs, decFields, decUnion]
  | succ f ih =>
    obtain ⟨ih1, ih2, ih3, ih4, ih5⟩ := ih
    refine ⟨?_, ?_, ?_, ?_, ?_⟩
    · intro ty s v s' h
      cases ty <;> simp only [decTy, mapOut_eq_ok] at h ⊢
      case bool => obtain ⟨a, ha, hh⟩ := h; cases hh; exact ⟨(a.1, X a.2 q), rbool _ _ _ _ ha, rfl⟩
      case i8 => obtain ⟨a, ha, hh⟩ := h; cases hh; exact ⟨(a.1, X a.2 q), ri8 _ _ _ _ ha, rfl⟩
      case i16 => obtain ⟨a, ha, hh⟩ := h; cases hh; exact ⟨(a.1, X a.2 q), ri16 _ _ _ _ ha, rfl⟩
      case i32 => obtain ⟨a, ha, hh⟩ := h; cases hh; exact ⟨(a.1, X a.2 q), ri32 _ _ _ _ ha, rfl⟩
      case i64 => obtain ⟨a, ha, hh⟩ := h; cases hh; exact ⟨(a.1, X a.2 q), ri64 _ _ _ _ ha, rfl⟩
      case double => obtain ⟨a, ha, hh⟩ := h; cases hh; exact ⟨(a.1, X a.2 q), rdbl _ _ _ _ ha, rfl⟩
      case string => obtain ⟨a, ha, hh⟩ := h; cases hh; exact ⟨(a.1, X a.2 q), rbytes _ _ _ _ ha, rfl⟩
      case binary => obtain ⟨a, ha, hh⟩ := h; cases hh; exact ⟨(a.1, X a.2 q), rbytes _ _ _ _ ha, rfl⟩
      case uuid => obtain ⟨a, ha, hh⟩ := h; cases hh; exact ⟨(a.1, X a.2 q), ruuid _ _ _ _ ha, rfl⟩
      case list e => osplit_at h <;> grind
      case set e => osplit_at h <;> grind
      case map kt vt => osplit_at h <;> grind
      case ref n =>
        cases hfind : d.find n with
        | none => simp [hfind] at h
        | some df =>
          simp only [hfind] at h ⊢
          cases df with
          | struct fs => simp only at h ⊢; osplit_at h <;> grind
          | union vs => simp only at h ⊢; osplit_at h <;> grind
          | enum =>
            simp only [mapOut_eq_ok] at h ⊢
            obtain ⟨a, ha, hh⟩ := h; cases hh; exact ⟨(a.1, X a.2 q), ri32 _ _ _ _ ha, rfl⟩
          | typedef t => simp only at h ⊢; exact ih1 _ _ _ _ h
      case void => simp at h
    · intro e n acc s xs s' h
      cases n <;> simp only [decN] at h ⊢ <;> osplit_at h <;> grind
    · intro kt vt n acc s xs s' h
      cases n <;> simp only [decPairs] at h ⊢ <;> osplit_at h <;> grind
    · intro fs slots s o s' h
      simp only [decFields] at h ⊢
      cases hfb : R.fieldBegin s with
      | ok a =>
        obtain ⟨⟨t, id⟩, s1⟩ := a
        rw [hfb] at h; rw [fb _ q _ _ hfb]
        simp only at h ⊢
        by_cases ht : t = .stop
        · simp only [ht, if_true] at h ⊢
          cases h; rfl
        · simp only [ht, if_false] at h ⊢
          cases hfind : fs.find? (fun fl => fl.id == id && d.ttype fl.ty == t) with
          | some fl =>
            rw [hfind] at h; simp only at h ⊢
            cases hdt : decTy R d f fl.ty s1 with
            | ok a =>
              obtain ⟨v, s2⟩ := a
              rw [hdt] at h; rw [ih1 _ _ _ _ hdt]
              exact ih4 _ _ _ _ _ h
            | err k => rw [hdt] at h; cases h
            | panic m => rw [hdt] at h; cases h
            | fuel => rw [hdt] at h; cases h
          | none =>
            rw [hfind] at h; simp only at h ⊢
            cases hsk : R.skip t s1 with
            | ok s2 =>
              rw [hsk] at h; rw [skp _ _ q _ hsk]
              exact ih4 _ _ _ _ _ h
            | err k => rw [hsk] at h; cases h
            | panic m => rw [hsk] at h; cases h
            | fuel => rw [hsk] at h; cases h
      | err k => rw [hfb] at h; cases h
      | panic m => rw [hfb] at h; cases h
      | fuel => rw [hfb] at h; cases h
    · intro vs ret s o s' h
      simp only [decUnion] at h ⊢
      cases hfb : R.fieldBegin s with
      | ok a =>
        obtain ⟨⟨t, id⟩, s1⟩ := a
        rw [hfb] at h; rw [fb _ q _ _ hfb]
        simp only at h ⊢
        by_cases ht : t = .stop
        · simp only [ht, if_true] at h ⊢
          cases h; rfl
        · simp only [ht, if_false] at h ⊢
          cases hfind : vs.find? (fun v => v.1 == id && !(v.2 == .void)) with
          | some p =>
            obtain ⟨i, ty⟩ := p
            rw [hfind] at h; simp only at h ⊢
            by_cases hr : ret.isSome = true
            · simp only [hr, if_true] at h; cases h
            · simp only [hr, if_false] at h ⊢
              cases hdt : decTy R d f ty s1 with
              | ok a =>
                obtain ⟨v, s2⟩ := a
                rw [hdt] at h; rw [ih1 _ _ _ _ hdt]
                exact ih5 _ _ _ _ _ h
              | err k => rw [hdt] at h; cases h
              | panic m => rw [hdt] at h; cases h
              | fuel => rw [hdt] at h; cases h
          | none =>
            rw [hfind] at h; simp only at h ⊢
            cases hsk : R.skip t s1 with
            | ok s2 =>
              rw [hsk] at h; rw [skp _ _ q _ hsk]
              exact ih5 _ _ _ _ _ h
            | err k => rw [hsk] at h; cases h
            | panic m => rw [hsk] at h; cases h
            | fuel => rw [hsk] at h; cases h
      | err k => rw [hfb] at h; cases h
      | panic m => rw [hfb] at h; cases h
      | fuel => rw [hfb] at h; cases h

end generic

theorem ext_mapOut_bin {α β : Type} (p : Bytes → Out (α × Bytes)) (g : α → β)
    (hp : ∀ bs q a r, p bs = .ok (a, r) → p (bs ++ q) = .ok (a, r ++ q)) :
    ∀ (s q : Bytes) (a : β) (s' : Bytes), mapOut (fun x => (g x.1, x.2)) (p s) = .ok (a, s') →
      mapOut (fun x => (g x.1, x.2)) (p (s ++ q)) = .ok (a, s' ++ q) := by
  intro s q a s' h
  rw [mapOut_eq_ok] at h ⊢
  obtain ⟨⟨a0, r⟩, h1, h2⟩ := h
  simp at h2
  obtain ⟨h2, h3⟩ := h2
  subst h2 h3
  exact ⟨(a0, r ++ q), hp _ _ _ _ h1, rfl⟩

theorem binRd_ext (e : Endian) (dpt : Nat) : (binRd e (some dpt)).Ext (fun s q => s ++ q) where
  sb _ _ := rfl
  se s q s' h := by simp [binRd] at h ⊢; subst h; rfl
  fb s q a s' h := Binary.readFieldBegin_ext q h
  bool s q a s' h := ext_mapOut_bin (Binary.readI e 1) (· != 0) (fun _ q _ _ h => Binary.readI_ext q h) s q a s' h
  i8 s q a s' h := Binary.readI_ext q h
  i16 s q a s' h := Binary.readI_ext q h
  i32 s q a s' h := Binary.readI_ext q h
  i64 s q a s' h := Binary.readI_ext q h
  double s q a s' h := Binary.readU_ext q h
  bytes s q a s' h := Binary.readBytes_ext q h
  uuid s q a s' h := Binary.takeN_ext q h
  lb s q a s' h := Binary.readListBegin_ext q h
  mb s q a s' h := Binary.readMapBegin_ext q h
  skip t s q s' h := by
    simp only [binRd, mapOut_eq_ok] at h ⊢
    obtain ⟨⟨k, r⟩, hk, hr⟩ := h
    simp at hr; subst hr
    refine ⟨(k, r ++ q), ?_, rfl⟩
    unfold Skip.skip at hk ⊢
    exact (Skip.skipVal_ext e q _).1 (dpt : Int) t s k r _ (by simp; omega) hk

end Pilota.TGen
