import PilotaModel.Lemmas.Base
namespace Pilota

theorem encVar_length (n : Nat) : (encVar n).length = varLen n := by
  induction n using Nat.strongRecOn with
  | _ n ih =>
    rw [encVar, varLen]
    split
    · rfl
    · simp [ih (n / 128) (by omega)]; omega

theorem varLen_le (k n : Nat) (hk : 0 < k) (h : n < 128 ^ k) : varLen n ≤ k := by
  induction k generalizing n with
  | zero => omega
  | succ k ih =>
    rw [varLen]
    split
    · omega
    · rename_i hn
      have hk' : 0 < k := by
        cases k with
        | zero => simp at h; omega
        | succ k => omega
      have : n / 128 < 128 ^ k := by
        rw [Nat.pow_succ] at h
        exact Nat.div_lt_of_lt_mul (by rw [Nat.mul_comm]; exact h)
      have := ih (n / 128) hk' this
      omega

theorem varLen_pos (n : Nat) : 0 < varLen n := by
  rw [varLen]; split <;> omega

theorem u8_toNat_ofNat_lt (n : Nat) (h : n < 256) : (UInt8.ofNat n).toNat = n := by
  simp [UInt8.toNat_ofNat']; exact h

theorem varValue_encVar (n : Nat) : varValue (encVar n) = n := by
  induction n using Nat.strongRecOn with
  | _ n ih =>
    rw [encVar]
    split
    · rename_i h
      simp [varValue, u8_toNat_ofNat_lt n (by omega)]; omega
    · rename_i h
      simp only [varValue, ih (n / 128) (by omega)]
      rw [u8_toNat_ofNat_lt _ (by omega)]
      omega

theorem gatherVar_encVar (m n : Nat) (r : Bytes) (h : varLen n ≤ m) :
    gatherVar m (encVar n ++ r) = .ok (encVar n, r) := by
  induction n using Nat.strongRecOn generalizing m with
  | _ n ih =>
    rw [varLen] at h
    rw [encVar]
    split
    · rename_i hn
      cases m with
      | zero => simp [hn] at h
      | succ m =>
        simp [gatherVar, u8_toNat_ofNat_lt n (by omega), hn]
    · rename_i hn
      simp only [hn, dite_false] at h
      cases m with
      | zero => omega
      | succ m =>
        have hb : ¬ (UInt8.ofNat (n % 128 + 128)).toNat < 128 := by
          rw [u8_toNat_ofNat_lt _ (by omega)]; omega
        simp only [List.cons_append, gatherVar, hb, if_false]
        rw [ih (n / 128) (by omega) m (by omega)]

theorem zigzag_lt (w : Nat) (hw : 0 < w) (i : Int) (h : inS w i) : zigzag i < 256 ^ w := by
  unfold zigzag inS at *
  have hp := pow256_pos w
  have he := pow256_even w hw
  generalize 256 ^ w = M at *
  split <;> omega

theorem unzigzag_zigzag (i : Int) : unzigzag (zigzag i) = i := by
  unfold unzigzag zigzag
  split <;> split <;> omega

theorem readVarU4_encVar (n : Nat) (h : n < 2 ^ 32) (r : Bytes) :
    readVarU 4 (encVar n ++ r) = .ok (n, r) := by
  have hl : varLen n ≤ varMaxSize 4 := by
    have : varMaxSize 4 = 5 := by decide
    rw [this]; exact varLen_le 5 n (by decide) (Nat.lt_trans h (by decide))
  simp only [readVarU, gatherVar_encVar _ n r hl, varValue_encVar]
  have e1 : (2:Nat)^32 = 4294967296 := by decide
  have e2 : (2:Nat)^64 = 18446744073709551616 := by decide
  have e3 : (256:Nat)^4 = 4294967296 := by decide
  rw [e1] at h; rw [e2, e3]
  have : n % 18446744073709551616 % 4294967296 = n := by omega
  rw [this]

theorem readVarS_zigzag (w : Nat) (hw : w = 2 ∨ w = 4 ∨ w = 8) (i : Int) (h : inS w i) (r : Bytes) :
    readVarS w (encVar (zigzag i) ++ r) = .ok (i, r) := by
  have hw0 : 0 < w := by omega
  have hz := zigzag_lt w hw0 i h
  have hl : varLen (zigzag i) ≤ varMaxSize w := by
    rcases hw with rfl | rfl | rfl
    · have : varMaxSize 2 = 3 := by decide
      rw [this]; exact varLen_le 3 _ (by decide) (Nat.lt_trans hz (by decide))
    · have : varMaxSize 4 = 5 := by decide
      rw [this]; exact varLen_le 5 _ (by decide) (Nat.lt_trans hz (by decide))
    · have : varMaxSize 8 = 10 := by decide
      rw [this]; exact varLen_le 10 _ (by decide) (Nat.lt_trans hz (by decide))
  simp only [readVarS, gatherVar_encVar _ _ r hl, varValue_encVar]
  have h64 : zigzag i % 2 ^ 64 = zigzag i := Nat.mod_eq_of_lt (by
    have : (256:Nat)^w ≤ 2^64 := by
      rcases hw with rfl | rfl | rfl <;> decide
    omega)
  rw [h64, unzigzag_zigzag, toS_toU w hw0 i h]

end Pilota
