import PilotaModel.Lemmas.IdlDouble
/-
  C15: how rendered constants start, what they need of the text after them, element steps of list
  and map literals.
-/
namespace Pilota.Idl

/-! ### what a constant needs of the text after it; how a constant starts -/

def ConstFollow : ConstValue → List Char → Prop
  | .string _, _ => True
  | .list _, _ => True
  | .map _, _ => True
  | .path _, r => hdP (fun c => !isIdentChar c) r = true ∧ PathStop r
  | _, r => Sep r

theorem constFollow_general {c : ConstValue} {r : List Char} (h1 : c.endsOpen = true → Sep r) (h2 : PathStop r) :
    ConstFollow c r := by
  cases c with
  | path p => exact ⟨(h1 rfl).noIdent, h2⟩
  | string _ => trivial
  | list _ => trivial
  | map _ => trivial
  | bool _ => exact h1 rfl
  | int _ => exact h1 rfl
  | double _ => exact h1 rfl

/-- first character of a rendered constant: a quote, a letter or `_`, a digit, `-`, `+`, `.`, `[`, `{` -/
def isConstStart (c : Char) : Bool :=
  c == '\'' || c == '"' || isIdentStart c || isDecDigit c || c == '-' || c == '[' || c == '{' || c == '+' || c == '.'

/-- a double that starts with `.` continues with a digit -/
theorem double_dot_digit {x : List Char} (h : doubleOk ('.' :: x) = true) : hdP isDecDigit x = true ∧ x ≠ [] := by
  unfold doubleOk at h
  have hcases : (hdP isDecDigit x = true ∧ x ≠ []) ∨ hdP (fun c => !isDecDigit c) x = true := by
    cases x with
    | nil => exact Or.inr rfl
    | cons c y =>
      by_cases hc : isDecDigit c = true
      · exact Or.inl ⟨hc, by simp⟩
      · exact Or.inr (by rw [hdP_cons]; simp [hc])
  rcases hcases with h1 | h1
  · exact h1
  · exfalso
    have hb : doubleBody ('.' :: x) = .err := by
      have hd : digit1 ('.' :: x) = .err := digit1_err_hd (by rw [hdP_cons]; decide)
      unfold doubleBody
      rw [alt_cons_of_err (andThen_of_err hd),
        alt_cons_of_err (by
          rw [andThen_of_ok (opt_of_err hd), andThen_of_ok (tag1 '.' x)]
          exact andThen_of_err (digit1_err_hd h1)),
        alt_cons_of_err (andThen_of_err hd)]
      rfl
    have : DoubleConstant.parse ('.' :: x) = .err :=
      double_err_of_body (opt_of_err (tag_cons_ne (by decide))) (opt_of_err (tag_cons_ne (by decide))) hb
    rw [this] at h; cases h

theorem rConst_start {c : ConstValue} (hw : c.wf = true) (hs : c.supported = true) (l : Layout) (x : List Char) :
    hdP isConstStart ((rConst c l).1 ++ x) = true ∧ (rConst c l).1 ≠ [] := by
  cases c with
  | bool b => cases b <;> exact ⟨by simp only [rConst, rLit_fst]; (show isConstStart _ = true); decide, by simp [rConst]⟩
  | path p =>
    simp only [ConstValue.wf, Bool.and_eq_true] at hw
    obtain ⟨s, rest, hs', _, e, _⟩ := rPath_cons hw.1.1 l
    obtain ⟨c0, cs, rfl, hc, _⟩ := identOk_cons hs'
    simp only [rConst, e, List.append_assoc, List.cons_append]
    exact ⟨by simp [isConstStart, hc], by simp⟩
  | string t =>
    simp only [ConstValue.wf] at hw
    simp only [rConst]
    rw [rLiteral_append]
    refine ⟨?_, by simp [rLiteral]⟩
    rcases (quoteFor_spec l.pop.1.flag hw).1 with e | e <;> rw [e] <;> (show isConstStart _ = true) <;> decide
  | int n =>
    simp only [rConst, rLit_fst, intText]
    split
    · exact ⟨by show isConstStart '-' = true; decide, by simp⟩
    · obtain ⟨c0, cs, e, hc⟩ := decDigits_head n.toNat
      rw [e]; exact ⟨by simp [isConstStart, hc], by simp⟩
  | double t =>
    simp only [ConstValue.wf] at hw
    obtain ⟨c0, x0, e, hc⟩ := double_head hw
    simp only [rConst, rLit_fst, e, List.cons_append]
    refine ⟨?_, by simp⟩
    rw [hdP_cons]
    rcases hc with h | h | h | h
    · subst h; decide
    · subst h; decide
    · subst h; decide
    · simp [isConstStart, h]
  | list xs => exact ⟨by simp only [rConst, rSeq_fst, rLit_fst, List.append_assoc]; (show isConstStart '[' = true); decide, by simp [rConst]⟩
  | map kvs => exact ⟨by simp only [rConst, rSeq_fst, rLit_fst, List.append_assoc]; (show isConstStart '{' = true); decide, by simp [rConst]⟩

theorem digit_props' {c : Char} (h : isDecDigit c = true) :
    notBlankStart c = true ∧ (!(c == ',' || c == ';')) = true := by
  have hne : ∀ x : Char, isDecDigit x = false → c ≠ x := by
    intro x hx e; subst e; rw [h] at hx; cases hx
  refine ⟨?_, ?_⟩
  · cases hb : notBlankStart c with
    | true => rfl
    | false => rcases blankStart_cases hb with e | e | e | e | e | e <;> subst e <;> revert h <;> decide
  · have h1 := hne ',' (by decide); have h2 := hne ';' (by decide)
    simp [h1, h2]

theorem constStart_props {c : Char} (h : isConstStart c = true) :
    notBlankStart c = true ∧ (!(c == ',' || c == ';')) = true := by
  by_cases hi : isIdentStart c = true
  · exact ⟨identStart_NB hi, identStart_noSep hi⟩
  by_cases hd : isDecDigit c = true
  · exact ⟨(digit_props' hd).1, (digit_props' hd).2⟩
  simp only [isConstStart, hi, hd, Bool.or_false, Bool.or_eq_true, beq_iff_eq, Bool.false_eq_true, or_false] at h
  rcases h with (((((h | h) | h) | h) | h) | h) | h <;> subst h <;> decide

/-! ### `const_rt` -/

/-- what an element of a list / map literal needs of the text after its tail: it does not start a
blank or a separator, and a name in front of it (after any blank) is not continued by it -/
def ElemFollow (R : List Char) : Prop := NB R ∧ NoSepStart R ∧ ∀ b, BT b → PathStop (b ++ R)

/-- `. digit` after a name is not a further segment -/
theorem pathStop_dot_digit {b x : List Char} {c : Char} (hb : BT b) (hc : isDecDigit c = true) :
    PathStop (b ++ '.' :: c :: x) := by
  intro n
  have hnb : NB (c :: x) := (digit_props' hc).1
  have hsep : pathSep (b ++ '.' :: c :: x) = .ok none (c :: x) := by
    unfold pathSep
    rw [andThen_optBlank hb (by rw [NB, hdP_cons]; decide), andThen_of_ok (tag1 '.' _)]
    exact opt_of_err (blank_err hnb)
  have hid : Ident.parse (c :: x) = .err :=
    ident_err_hd (by rw [hdP_cons]; cases hi : isIdentStart c with
      | false => rfl
      | true => exfalso; revert hc hi; simp only [isIdentStart, isDecDigit, Char.isAlpha, Char.isUpper, Char.isLower,
          Char.isDigit, Bool.or_eq_true, Bool.and_eq_true, decide_eq_true_eq, beq_iff_eq]
                intro h1 h2
                have a1 := UInt32.le_iff_toNat_le.mp h1.1; have a2 := UInt32.le_iff_toNat_le.mp h1.2
                rcases h2 with (⟨b1, b2⟩ | ⟨b1, b2⟩) | b1
                · have := UInt32.le_iff_toNat_le.mp b1; have := UInt32.le_iff_toNat_le.mp b2; simp at *; omega
                · have := UInt32.le_iff_toNat_le.mp b1; have := UInt32.le_iff_toNat_le.mp b2; simp at *; omega
                · subst b1; revert a2; decide) (by simp)
  simp only [sepLoopF, hsep]
  rw [if_neg (by simp; omega), hid]

theorem elemFollow_of_start {c : ConstValue} (hw : c.wf = true) (hs : c.supported = true) (l : Layout) (x : List Char) :
    ElemFollow ((rConst c l).1 ++ x) := by
  have h := (rConst_start hw hs l x).1
  refine ⟨hdP_mono (fun _ hc => (constStart_props hc).1) h, hdP_mono (fun _ hc => (constStart_props hc).2) h, ?_⟩
  intro b hb
  have hnb : NB ((rConst c l).1 ++ x) := hdP_mono (fun _ hc => (constStart_props hc).1) h
  by_cases hdot : hdP (fun c => c != '.') ((rConst c l).1 ++ x) = true
  · exact pathStop_of hb hnb hdot
  · -- the constant starts with `.`: it is a double, and a digit follows
    cases c with
    | double t =>
      simp only [ConstValue.wf] at hw
      simp only [rConst, rLit_fst] at hdot ⊢
      cases t with
      | nil => exfalso; obtain ⟨c0, x0, e, _⟩ := double_head hw; cases e
      | cons c0 t' =>
        have hc0 : c0 = '.' := by
          simp only [List.cons_append, hdP_cons, bne_iff_ne, ne_eq, Decidable.not_not] at hdot
          exact hdot
        subst hc0
        obtain ⟨hdig, hne⟩ := double_dot_digit hw
        cases t' with
        | nil => exact absurd rfl hne
        | cons c1 t'' => exact pathStop_dot_digit hb hdig
    | bool v => exfalso; apply hdot; cases v <;> simp only [rConst, rLit_fst, if_true, Bool.false_eq_true, if_false] <;> rfl
    | path p =>
      exfalso; apply hdot
      simp only [ConstValue.wf, Bool.and_eq_true] at hw
      obtain ⟨s0, rest, hs0, _, e, _⟩ := rPath_cons hw.1.1 l
      obtain ⟨c0, cs, rfl, hc, _⟩ := identOk_cons hs0
      simp only [rConst, e, List.append_assoc, List.cons_append, hdP_cons]
      exact identStart_ne hc (by decide)
    | string t =>
      exfalso; apply hdot
      simp only [ConstValue.wf] at hw
      simp only [rConst]; rw [rLiteral_append, hdP_cons]
      rcases (quoteFor_spec l.pop.1.flag hw).1 with e | e <;> rw [e] <;> decide
    | int n =>
      exfalso; apply hdot
      simp only [rConst, rLit_fst, intText]
      split
      · rfl
      · obtain ⟨c0, cs, e, hc⟩ := decDigits_head n.toNat
        rw [e, List.cons_append, hdP_cons]
        simp only [bne_iff_ne, ne_eq]; intro e'; subst e'; revert hc; decide
    | list xs => exfalso; apply hdot; simp only [rConst, rSeq_fst, rLit_fst, List.append_assoc]; rfl
    | map kvs => exfalso; apply hdot; simp only [rConst, rSeq_fst, rLit_fst, List.append_assoc]; rfl

theorem tail_pathStop2 (endsOpen last : Bool) (l : Layout) {R : List Char} (hR : ∀ b, BT b → PathStop (b ++ R)) :
    PathStop ((rTail endsOpen last l).1 ++ R) := by
  simp only [rTail, rWith_fst]
  rcases sepChar_cases (l.pop.1.sep) with h | h | h
  · simp only [h, if_true]; exact hR _ (rGap_BT _ _)
  · simp only [h, List.cons_ne_nil, if_false, rSeq_fst, rLit_fst, List.append_assoc, List.cons_append, List.nil_append]
    exact pathStop_of (rB0_BT _) (sepChar_BT_false (Or.inl rfl) _) (by rw [hdP_cons]; decide)
  · simp only [h, List.cons_ne_nil, if_false, rSeq_fst, rLit_fst, List.append_assoc, List.cons_append, List.nil_append]
    exact pathStop_of (rB0_BT _) (sepChar_BT_false (Or.inr rfl) _) (by rw [hdP_cons]; decide)

theorem constFollow_tail {x : ConstValue} (last : Bool) (l : Layout) {R : List Char} (hR : ElemFollow R)
    (hlast : last = true → Sep R) : ConstFollow x ((rTail x.endsOpen last l).1 ++ R) := by
  apply constFollow_general
  · intro ho
    apply tail_sep
    cases last with
    | true => exact Or.inr (hlast rfl)
    | false => exact Or.inl (by simp [ho])
  · exact tail_pathStop2 _ _ _ hR.2.2

/-- one element of a list literal -/
theorem constElem_step {d : Nat} {x : ConstValue} (hw : x.wf = true) (hs : x.supported = true)
    (hrt : ∀ l r, ConstFollow x r → ConstValue.parse d ((rConst x l).1 ++ r) = .ok x r)
    (last : Bool) (l : Layout) {bl R : List Char} (hbl : BT bl) (hR : ElemFollow R) (hlast : last = true → Sep R) :
    (andThen (opt blank) fun _ => andThen (ConstValue.parse d) fun e => andThen (opt blank) fun _ =>
      andThen (opt listSeparator) fun _ => ret e) (bl ++ ((rConstElem x last l).1 ++ R)) = .ok x R := by
  simp only [rConstElem, rSeq_fst, rSeq_snd, List.append_assoc]
  have hnb : NB ((rConst x l).1 ++ ((rTail x.endsOpen last (rConst x l).2).1 ++ R)) :=
    hdP_mono (fun _ hc => (constStart_props hc).1) (rConst_start hw hs l _).1
  rw [andThen_optBlank hbl hnb, andThen_of_ok (hrt _ _ (constFollow_tail last _ hR hlast)),
    tail_rt _ _ _ hR.1 hR.2.1]
  rfl

/-- one `key : value` entry of a map literal -/
theorem constPair_step {d : Nat} {kv : ConstValue × ConstValue} (hwk : kv.1.wf = true) (hsk : kv.1.supported = true)
    (hwv : kv.2.wf = true) (hsv : kv.2.supported = true)
    (hrtk : ∀ l r, ConstFollow kv.1 r → ConstValue.parse d ((rConst kv.1 l).1 ++ r) = .ok kv.1 r)
    (hrtv : ∀ l r, ConstFollow kv.2 r → ConstValue.parse d ((rConst kv.2 l).1 ++ r) = .ok kv.2 r)
    (last : Bool) (l : Layout) {bl R : List Char} (hbl : BT bl) (hR : ElemFollow R) (hlast : last = true → Sep R) :
    (andThen (opt blank) fun _ => andThen (ConstValue.parse d) fun k => andThen (opt blank) fun _ =>
      andThen (tag [':']) fun _ => andThen (opt blank) fun _ => andThen (ConstValue.parse d) fun v =>
      andThen (opt blank) fun _ => andThen (opt listSeparator) fun _ => ret (k, v))
      (bl ++ ((rConstPair kv last l).1 ++ R)) = .ok kv R := by
  simp only [rConstPair, rSeq_fst, rSeq_snd, rLit_fst, rLit_snd, List.append_assoc]
  have hnbk : ∀ y, NB ((rConst kv.1 l).1 ++ y) := fun y =>
    hdP_mono (fun _ hc => (constStart_props hc).1) (rConst_start hwk hsk l y).1
  have hnbv : ∀ l' y, NB ((rConst kv.2 l').1 ++ y) := fun l' y =>
    hdP_mono (fun _ hc => (constStart_props hc).1) (rConst_start hwv hsv l' y).1
  have hfk : ∀ y, ConstFollow kv.1 ((rB0 (rConst kv.1 l).2).1 ++ ([':'] ++ y)) := by
    intro y
    apply constFollow_general
    · intro _; exact (rB0_BT _).sep_append (Or.inr (by show isSepChar ':' = true; decide))
    · exact pathStop_of (rB0_BT _) (by show notBlankStart ':' = true; decide) (by show (':' != '.') = true; decide)
  rw [andThen_optBlank hbl (hnbk _), andThen_of_ok (hrtk _ _ (hfk _)),
    andThen_optBlank (rB0_BT _) (by show notBlankStart ':' = true; decide), andThen_of_ok (tag_append _ _),
    andThen_optBlank (rB0_BT _) (hnbv _ _), andThen_of_ok (hrtv _ _ (constFollow_tail last _ hR hlast)),
    tail_rt _ _ _ hR.1 hR.2.1]
  rfl

theorem constArms_err_bracket (c : Char) (x : List Char) (hc : c = ']' ∨ c = '}' ∨ c = '[' ∨ c = '{') :
    Literal.parse (c :: x) = .err ∧ (∀ kw v, kw = cs!"true" ∨ kw = cs!"false" → keyword (α := ConstValue) kw v (c :: x) = .err) ∧
    Path.parse (c :: x) = .err ∧ DoubleConstant.parse (c :: x) = .err ∧ IntConstant.parse (c :: x) = .err := by
  refine ⟨literal_err_hd ?_, ?_, path_err_hd ?_ (by simp), double_err_hd ?_ ?_ ?_, int_err_hd ?_ ?_⟩
  · rcases hc with h | h | h | h <;> subst h <;> rw [hdP_cons] <;> decide
  · intro kw v hk
    rcases hk with h | h <;> subst h <;> apply andThen_of_err <;> apply tag_cons_ne <;>
      (rcases hc with h | h | h | h <;> subst h <;> decide)
  all_goals rcases hc with h | h | h | h <;> subst h <;> rw [hdP_cons] <;> decide


end Pilota.Idl
