import PilotaModel.Lemmas.SpecCmp
import PilotaModel.Lemmas.SpecBinChk
/-  The executable membership test of the compact relation is sound. -/
namespace Pilota.Thrift.SpecCmp
open Pilota Pilota.Thrift Pilota.Thrift.Spec

theorem u8_split (b : UInt8) : UInt8.ofNat (b.toNat / 16 * 16 + b.toNat % 16) = b := by
  have : b.toNat / 16 * 16 + b.toNat % 16 = b.toNat := by omega
  rw [this]; exact UInt8.ofNat_toNat

theorem chkHdr_sound (last : Int) (c : Nat) (id : Int) (bs r : Bytes) (h : chkHdr last c id bs = some r) :
    ∃ hd, bs = hd ++ r ∧ Hdr last c id hd := by
  cases bs with
  | nil => simp [chkHdr] at h
  | cons b rest =>
    simp only [chkHdr] at h
    split at h
    · cases h
    · rename_i hc
      have hc' : b.toNat % 16 = c := by simpa using hc
      split at h
      · rename_i hd0
        have hb : b = UInt8.ofNat c := by
          have := u8_split b; rw [hd0, hc'] at this; simpa using this.symm
        refine ⟨UInt8.ofNat c :: uleb (zz id), ?_, Hdr.long⟩
        rw [SpecBin.stripPrefix_some _ _ _ h, hb]; simp
      · rename_i hd0
        split at h
        · rename_i hid
          simp only [Option.some.injEq] at h; subst h
          have hlt := b.toNat_lt
          refine ⟨[UInt8.ofNat (b.toNat / 16 * 16 + c)], ?_, Hdr.short (b.toNat / 16) (by omega) (by omega) hid⟩
          rw [← hc', u8_split]; simp
        · cases h

theorem chkCollHdr_sound (c n : Nat) (bs r : Bytes) (h : chkCollHdr c n bs = some r) : ∃ hd, bs = hd ++ r ∧ CollHdr c n hd := by
  cases bs with
  | nil => simp [chkCollHdr] at h
  | cons b rest =>
    simp only [chkCollHdr] at h
    split at h
    · cases h
    · rename_i hc
      have hc' : b.toNat % 16 = c := by simpa using hc
      split at h
      · rename_i h15
        split at h
        · rename_i hn
          have hb : b = UInt8.ofNat (0xF0 + c) := by
            have := u8_split b; rw [h15, hc'] at this; simpa using this.symm
          refine ⟨UInt8.ofNat (0xF0 + c) :: uleb n, ?_, CollHdr.long hn⟩
          rw [SpecBin.stripPrefix_some _ _ _ h, hb]; simp
        · cases h
      · rename_i h15
        split at h
        · rename_i hn
          simp only [Option.some.injEq] at h; subst h
          have hlt := b.toNat_lt
          refine ⟨[UInt8.ofNat (n * 16 + c)], ?_, CollHdr.short (by omega)⟩
          rw [← hn, ← hc', u8_split]; simp
        · cases h

mutual
theorem chk_sound (v : TVal) (bs r : Bytes) (h : chk v bs = some r) : ∃ a, bs = a ++ r ∧ Enc v a := by
  cases v with
  | bool b =>
    simp only [chk] at h
    cases b with
    | true => exact ⟨[1], by simpa using SpecBin.stripPrefix_some _ _ _ h, Enc.boolT⟩
    | false => exact ⟨[2], by simpa using SpecBin.stripPrefix_some _ _ _ h, Enc.boolF⟩
  | i8 n => simp only [chk] at h; split at h
            · rename_i hn; exact ⟨_, SpecBin.stripPrefix_some _ _ _ h, Enc.i8 n hn⟩
            · cases h
  | i16 n => simp only [chk] at h; split at h
             · rename_i hn; exact ⟨_, SpecBin.stripPrefix_some _ _ _ h, Enc.i16 n hn⟩
             · cases h
  | i32 n => simp only [chk] at h; split at h
             · rename_i hn; exact ⟨_, SpecBin.stripPrefix_some _ _ _ h, Enc.i32 n hn⟩
             · cases h
  | i64 n => simp only [chk] at h; split at h
             · rename_i hn; exact ⟨_, SpecBin.stripPrefix_some _ _ _ h, Enc.i64 n hn⟩
             · cases h
  | dbl b => simp only [chk] at h; split at h
             · rename_i hn; exact ⟨_, SpecBin.stripPrefix_some _ _ _ h, Enc.dbl b hn⟩
             · cases h
  | bin p => simp only [chk] at h; split at h
             · rename_i hn; exact ⟨_, SpecBin.stripPrefix_some _ _ _ h, Enc.bin p hn⟩
             · cases h
  | uuid p => simp only [chk] at h; split at h
              · rename_i hn; exact ⟨_, SpecBin.stripPrefix_some _ _ _ h, Enc.uuid p hn⟩
              · cases h
  | struct fs =>
    simp only [chk] at h
    obtain ⟨a, ha, he⟩ := chkFields_sound 0 fs bs r h
    exact ⟨a, ha, Enc.struct fs a he⟩
  | list et xs =>
    cases bs with
    | nil => simp [chk] at h
    | cons b rest =>
      simp only [chk] at h
      split at h
      · rename_i hcond
        simp only [Bool.and_eq_true, decide_eq_true_eq] at hcond
        obtain ⟨r1, h1, h2⟩ := SpecBin.bind_some _ _ _ h
        obtain ⟨hd, hhd, hh⟩ := chkCollHdr_sound _ _ _ _ h1
        obtain ⟨a, ha, he⟩ := chkVals_sound et xs r1 r h2
        exact ⟨hd ++ a, by rw [hhd, ha]; simp, Enc.list et _ xs hd a hcond.1 hcond.2 hh he⟩
      · cases h
  | set et xs =>
    cases bs with
    | nil => simp [chk] at h
    | cons b rest =>
      simp only [chk] at h
      split at h
      · rename_i hcond
        simp only [Bool.and_eq_true, decide_eq_true_eq] at hcond
        obtain ⟨r1, h1, h2⟩ := SpecBin.bind_some _ _ _ h
        obtain ⟨hd, hhd, hh⟩ := chkCollHdr_sound _ _ _ _ h1
        obtain ⟨a, ha, he⟩ := chkVals_sound et xs r1 r h2
        exact ⟨hd ++ a, by rw [hhd, ha]; simp, Enc.set et _ xs hd a hcond.1 hcond.2 hh he⟩
      · cases h
  | map kt vt kvs =>
    cases kvs with
    | nil =>
      simp only [chk] at h
      split at h
      · rename_i hcond
        simp only [Bool.and_eq_true] at hcond
        exact ⟨[0], SpecBin.stripPrefix_some _ _ _ h, Enc.mapEmpty kt vt hcond.1 hcond.2⟩
      · cases h
    | cons k v rest =>
      simp only [chk] at h
      split at h
      · rename_i hl
        cases hsp : SpecBin.stripPrefix (uleb (TPairs.cons k v rest).length) bs with
        | none => simp [hsp] at h
        | some r0 =>
          cases r0 with
          | nil => simp [hsp] at h
          | cons hb r1 =>
            simp only [hsp] at h
            split at h
            · rename_i hcond
              simp only [Bool.and_eq_true] at hcond
              obtain ⟨a, ha, he⟩ := chkPairs_sound kt vt _ r1 r h
              refine ⟨uleb (TPairs.cons k v rest).length ++ (UInt8.ofNat (hb.toNat / 16 * 16 + hb.toNat % 16) :: a), ?_,
                Enc.map kt vt _ _ k v rest a hcond.1 hcond.2 hl he⟩
              rw [SpecBin.stripPrefix_some _ _ _ hsp, u8_split, ha]; simp
            · cases h
      · cases h
theorem chkVals_sound (et : TType) (xs : TVals) (bs r : Bytes) (h : chkVals et xs bs = some r) : ∃ a, bs = a ++ r ∧ EncVals et xs a := by
  cases xs with
  | nil => simp only [chkVals, Option.some.injEq] at h; exact ⟨[], by simp [h], EncVals.nil et⟩
  | cons v vs =>
    simp only [chkVals] at h
    split at h
    · rename_i ht
      obtain ⟨r1, h1, h2⟩ := SpecBin.bind_some _ _ _ h
      obtain ⟨a, ha, he⟩ := chk_sound v bs r1 h1
      obtain ⟨b, hb, hr⟩ := chkVals_sound et vs r1 r h2
      exact ⟨a ++ b, by rw [ha, hb]; simp, EncVals.cons et v vs a b ht he hr⟩
    · cases h
theorem chkFields_sound (last : Int) (fs : TFields) (bs r : Bytes) (h : chkFields last fs bs = some r) :
    ∃ a, bs = a ++ r ∧ EncFields last fs a := by
  cases fs with
  | nil => simp only [chkFields] at h; exact ⟨[0], SpecBin.stripPrefix_some _ _ _ h, EncFields.nil last⟩
  | cons id v rest =>
    by_cases hb : ∃ b, v = .bool b
    · obtain ⟨b, rfl⟩ := hb
      simp only [chkFields] at h
      split at h
      · rename_i hid
        obtain ⟨r1, h1, h2⟩ := SpecBin.bind_some _ _ _ h
        obtain ⟨hd, hhd, hh⟩ := chkHdr_sound _ _ _ _ _ h1
        obtain ⟨a, ha, hr⟩ := chkFields_sound id rest r1 r h2
        exact ⟨hd ++ a, by rw [hhd, ha]; simp, EncFields.bool last id b rest hd a hid hh hr⟩
      · cases h
    · have hcf : chkFields last (.cons id v rest) bs = (match cmpCode v.ttype with
          | none => none
          | some c => if inS 2 id then ((chkHdr last c id bs).bind (chk v)).bind (chkFields id rest) else none) := by
        cases v <;> first | (exfalso; exact hb ⟨_, rfl⟩) | rfl
      rw [hcf] at h
      cases hc : cmpCode v.ttype with
      | none => simp [hc] at h
      | some c =>
        simp only [hc] at h
        split at h
        · rename_i hid
          obtain ⟨r2, h12, h3⟩ := SpecBin.bind_some _ _ _ h
          obtain ⟨r1, h1, h2⟩ := SpecBin.bind_some _ _ _ h12
          obtain ⟨hd, hhd, hh⟩ := chkHdr_sound _ _ _ _ _ h1
          obtain ⟨a, ha, he⟩ := chk_sound v r1 r2 h2
          obtain ⟨b, hbb, hr⟩ := chkFields_sound id rest r2 r h3
          exact ⟨hd ++ (a ++ b), by rw [hhd, ha, hbb]; simp, EncFields.cons last id v rest c hd a b hid hc hh he hr⟩
        · cases h
theorem chkPairs_sound (kt vt : TType) (kvs : TPairs) (bs r : Bytes) (h : chkPairs kt vt kvs bs = some r) :
    ∃ a, bs = a ++ r ∧ EncPairs kt vt kvs a := by
  cases kvs with
  | nil => simp only [chkPairs, Option.some.injEq] at h; exact ⟨[], by simp [h], EncPairs.nil kt vt⟩
  | cons k v rest =>
    simp only [chkPairs] at h
    split at h
    · rename_i ht
      obtain ⟨r2, h12, h3⟩ := SpecBin.bind_some _ _ _ h
      obtain ⟨r1, h1, h2⟩ := SpecBin.bind_some _ _ _ h12
      obtain ⟨a, ha, he⟩ := chk_sound k bs r1 h1
      obtain ⟨b, hb, he2⟩ := chk_sound v r1 r2 h2
      obtain ⟨c, hc, hr⟩ := chkPairs_sound kt vt rest r2 r h3
      exact ⟨a ++ (b ++ c), by rw [ha, hb, hc]; simp, EncPairs.cons kt vt k v rest a b c ht.1 ht.2 he he2 hr⟩
    · cases h
end

theorem check_sound (v : TVal) (bs : Bytes) (h : check v bs = true) : Enc v bs := by
  unfold check at h
  have h' : chk v bs = some [] := by simpa using h
  obtain ⟨a, ha, he⟩ := chk_sound v bs [] h'
  simp at ha; subst ha; exact he

end Pilota.Thrift.SpecCmp
