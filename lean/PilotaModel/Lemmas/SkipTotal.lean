import PilotaModel.Lemmas.ReadTotalCompact
import PilotaModel.Thrift.Skip
/-
  The skippers on EVERY input: never panic (for a non-negative depth budget), report exactly the
  bytes they consumed, and never exhaust the top-level budget `3 * len + 3`.
-/
namespace Pilota.Thrift.Skip
open Pilota Pilota.Thrift

/-! ### (a) the default recursive skipper -/

@[simp] theorem advance_ne_panic (w bs m) : advance w bs ≠ .panic m := by unfold advance; osplit
@[simp] theorem advance_ne_fuel (w bs) : advance w bs ≠ .fuel := by unfold advance; osplit
theorem advance_ok {w bs k r} (h : advance w bs = .ok (k, r)) : k = w ∧ w ≤ bs.length ∧ r = bs.drop w := by
  unfold advance at h; osplit_at h; obtain ⟨rfl, rfl⟩ := h; simp_all
theorem advance_len {w bs k r} (h : advance w bs = .ok (k, r)) : k = w ∧ k + r.length = bs.length := by
  obtain ⟨rfl, h1, rfl⟩ := advance_ok h; simp; omega

@[simp] theorem skipBinary_ne_panic (e bs m) : skipBinary e bs ≠ .panic m := by unfold skipBinary; osplit
@[simp] theorem skipBinary_ne_fuel (e bs) : skipBinary e bs ≠ .fuel := by unfold skipBinary; osplit
theorem skipBinary_len {e bs k r} (h : skipBinary e bs = .ok (k, r)) : 4 ≤ k ∧ k + r.length = bs.length := by
  unfold skipBinary at h
  cases h1 : Binary.readI e 4 bs with
  | ok p =>
    obtain ⟨len, r0⟩ := p
    have := Binary.readI_len h1
    simp only [h1] at h
    osplit_at h
    obtain ⟨rfl, rfl⟩ := h
    simp; omega
  | err k => simp [h1] at h
  | panic m => simp [h1] at h
  | fuel => simp [h1] at h

attribute [grind →] advance_len skipBinary_len

theorem skipVal_nopanic (e : Endian) : ∀ f,
    (∀ d t bs m, 0 ≤ d → skipVal e f d t bs ≠ .panic m) ∧ (∀ d bs m, 1 ≤ d → skipFields e f d bs ≠ .panic m) ∧
    (∀ d et n bs m, 1 ≤ d → skipN e f d et n bs ≠ .panic m) ∧ (∀ d kt vt n bs m, 1 ≤ d → skipPairs e f d kt vt n bs ≠ .panic m) := by
  intro f
  induction f with
  | zero => simp [skipVal, skipFields, skipN, skipPairs]
  | succ f ih =>
    obtain ⟨ih1, ih2, ih3, ih4⟩ := ih
    refine ⟨?_, ?_, ?_, ?_⟩
    · intro d t bs m hd h
      have hd1 : d ≠ 0 → 1 ≤ d := by omega
      cases t <;> simp only [skipVal] at h <;> osplit_at h <;> first | (simp_all; done) | grind
    · intro d bs m hd h
      have : 0 ≤ d - 1 := by omega
      simp only [skipFields] at h; osplit_at h <;> first | (simp_all; done) | grind
    · intro d et n bs m hd h
      have : 0 ≤ d - 1 := by omega
      cases n <;> simp only [skipN] at h <;> osplit_at h <;> first | (simp_all; done) | grind
    · intro d kt vt n bs m hd h
      have : 0 ≤ d - 1 := by omega
      cases n <;> simp only [skipPairs] at h <;> osplit_at h <;> first | (simp_all; done) | grind

/-- the count a successful skip reports is the number of bytes it consumed — on every input. -/
theorem skipVal_count (e : Endian) : ∀ f,
    (∀ d t bs k r, skipVal e f d t bs = .ok (k, r) → 1 ≤ k ∧ k + r.length = bs.length) ∧
    (∀ d bs k r, skipFields e f d bs = .ok (k, r) → 1 ≤ k ∧ k + r.length = bs.length) ∧
    (∀ d et n bs k r, skipN e f d et n bs = .ok (k, r) → k + r.length = bs.length) ∧
    (∀ d kt vt n bs k r, skipPairs e f d kt vt n bs = .ok (k, r) → k + r.length = bs.length) := by
  intro f
  induction f with
  | zero => simp [skipVal, skipFields, skipN, skipPairs]
  | succ f ih =>
    obtain ⟨ih1, ih2, ih3, ih4⟩ := ih
    refine ⟨?_, ?_, ?_, ?_⟩
    · intro d t bs k r h
      cases t <;> simp only [skipVal] at h <;> osplit_at h <;> grind
    · intro d bs k r h
      simp only [skipFields] at h; osplit_at h <;> grind
    · intro d et n bs k r h
      cases n <;> simp only [skipN] at h <;> osplit_at h <;> grind
    · intro d kt vt n bs k r h
      cases n <;> simp only [skipPairs] at h <;> osplit_at h <;> grind

theorem skipVal_len {e f d t bs k r} (h : skipVal e f d t bs = .ok (k, r)) : r.length + 1 ≤ bs.length := by
  have := (skipVal_count e f).1 d t bs k r h; omega
theorem skipFields_len {e f d bs k r} (h : skipFields e f d bs = .ok (k, r)) : r.length + 1 ≤ bs.length := by
  have := (skipVal_count e f).2.1 d bs k r h; omega
theorem skipN_len {e f d et n bs k r} (h : skipN e f d et n bs = .ok (k, r)) : r.length ≤ bs.length := by
  have := (skipVal_count e f).2.2.1 d et n bs k r h; omega
theorem skipPairs_len {e f d kt vt n bs k r} (h : skipPairs e f d kt vt n bs = .ok (k, r)) : r.length ≤ bs.length := by
  have := (skipVal_count e f).2.2.2 d kt vt n bs k r h; omega
attribute [grind →] skipVal_len skipFields_len skipN_len skipPairs_len

theorem skipVal_nofuel (e : Endian) : ∀ f,
    (∀ d t bs, 3 * bs.length + 2 ≤ f → skipVal e f d t bs ≠ .fuel) ∧
    (∀ d bs, 3 * bs.length + 1 ≤ f → skipFields e f d bs ≠ .fuel) ∧
    (∀ d et n bs, 3 * bs.length + 3 ≤ f → skipN e f d et n bs ≠ .fuel) ∧
    (∀ d kt vt n bs, 3 * bs.length + 3 ≤ f → skipPairs e f d kt vt n bs ≠ .fuel) := by
  intro f
  induction f with
  | zero => simp
  | succ f ih =>
    obtain ⟨ih1, ih2, ih3, ih4⟩ := ih
    refine ⟨?_, ?_, ?_, ?_⟩
    · intro d t bs hf h
      cases t <;> simp only [skipVal] at h <;> osplit_at h <;> first | (simp_all; done) | grind
    · intro d bs hf h
      simp only [skipFields] at h; osplit_at h <;> first | (simp_all; done) | grind
    · intro d et n bs hf h
      cases n <;> simp only [skipN] at h <;> osplit_at h <;> first | (simp_all; done) | grind
    · intro d kt vt n bs hf h
      cases n <;> simp only [skipPairs] at h <;> osplit_at h <;> first | (simp_all; done) | grind

/-! ### (b) read-and-discard skippers, generically over the reader primitives -/

/-- what the generic theorems need of the primitives: they never panic or run out of fuel, a leaf
read pays one unit of the measure `3 * bytes + μ state`, every header consumes a byte. -/
structure Prims.Good {σ : Type} (P : Prims σ) (μ : σ → Nat) : Prop where
  mu_le : ∀ s, μ s ≤ 1
  leaf_np : ∀ t s bs m, P.leaf t s bs ≠ .panic m
  leaf_nf : ∀ t s bs, P.leaf t s bs ≠ .fuel
  leaf_ok : ∀ t s bs s' r, P.leaf t s bs = .ok (s', r) → 3 * r.length + μ s' + 1 ≤ 3 * bs.length + μ s
  sb_mu : ∀ s, μ (P.structBegin s) = μ s
  se_np : ∀ s m, P.structEnd s ≠ .panic m
  se_nf : ∀ s, P.structEnd s ≠ .fuel
  se_mu : ∀ s s', P.structEnd s = .ok s' → μ s' = μ s
  fb_np : ∀ s bs m, P.fieldBegin s bs ≠ .panic m
  fb_nf : ∀ s bs, P.fieldBegin s bs ≠ .fuel
  fb_ok : ∀ s bs x s' r, P.fieldBegin s bs = .ok (x, s', r) → r.length + 1 ≤ bs.length
  lb_np : ∀ bs m, P.listBegin bs ≠ .panic m
  lb_nf : ∀ bs, P.listBegin bs ≠ .fuel
  lb_ok : ∀ bs x r, P.listBegin bs = .ok (x, r) → r.length + 1 ≤ bs.length
  mb_np : ∀ bs m, P.mapBegin bs ≠ .panic m
  mb_nf : ∀ bs, P.mapBegin bs ≠ .fuel
  mb_ok : ∀ bs x r, P.mapBegin bs = .ok (x, r) → r.length + 1 ≤ bs.length

section generic
variable {σ : Type} (P : Prims σ) (μ : σ → Nat) (hP : P.Good μ)
include hP

theorem rdSkip_nopanic : ∀ f,
    (∀ d t s bs m, 0 ≤ d → rdSkip P f d t s bs ≠ .panic m) ∧ (∀ d s bs m, 1 ≤ d → rdFields P f d s bs ≠ .panic m) ∧
    (∀ d et n s bs m, 1 ≤ d → rdN P f d et n s bs ≠ .panic m) ∧ (∀ d kt vt n s bs m, 1 ≤ d → rdPairs P f d kt vt n s bs ≠ .panic m) := by
  obtain ⟨mu_le, leaf_np, leaf_nf, leaf_ok, sb_mu, se_np, se_nf, se_mu, fb_np, fb_nf, fb_ok, lb_np, lb_nf, lb_ok, mb_np, mb_nf, mb_ok⟩ := hP
  intro f
  induction f with
  | zero => simp [rdSkip, rdFields, rdN, rdPairs]
  | succ f ih =>
    obtain ⟨ih1, ih2, ih3, ih4⟩ := ih
    refine ⟨?_, ?_, ?_, ?_⟩
    · intro d t s bs m hd h
      have hd1 : d ≠ 0 → 1 ≤ d := by omega
      cases t <;> simp only [rdSkip] at h <;> osplit_at h <;> grind
    · intro d s bs m hd h
      have : 0 ≤ d - 1 := by omega
      simp only [rdFields] at h; osplit_at h <;> grind
    · intro d et n s bs m hd h
      have : 0 ≤ d - 1 := by omega
      cases n <;> simp only [rdN] at h <;> osplit_at h <;> grind
    · intro d kt vt n s bs m hd h
      have : 0 ≤ d - 1 := by omega
      cases n <;> simp only [rdPairs] at h <;> osplit_at h <;> grind

theorem rdSkip_len : ∀ f,
    (∀ d t s bs s' r, rdSkip P f d t s bs = .ok (s', r) → 3 * r.length + μ s' + 1 ≤ 3 * bs.length + μ s) ∧
    (∀ d s bs s' r, rdFields P f d s bs = .ok (s', r) → 3 * r.length + μ s' + 1 ≤ 3 * bs.length + μ s) ∧
    (∀ d et n s bs s' r, rdN P f d et n s bs = .ok (s', r) → 3 * r.length + μ s' ≤ 3 * bs.length + μ s) ∧
    (∀ d kt vt n s bs s' r, rdPairs P f d kt vt n s bs = .ok (s', r) → 3 * r.length + μ s' ≤ 3 * bs.length + μ s) := by
  obtain ⟨mu_le, leaf_np, leaf_nf, leaf_ok, sb_mu, se_np, se_nf, se_mu, fb_np, fb_nf, fb_ok, lb_np, lb_nf, lb_ok, mb_np, mb_nf, mb_ok⟩ := hP
  intro f
  induction f with
  | zero => simp [rdSkip, rdFields, rdN, rdPairs]
  | succ f ih =>
    obtain ⟨ih1, ih2, ih3, ih4⟩ := ih
    refine ⟨?_, ?_, ?_, ?_⟩
    · intro d t s bs s' r h
      cases t <;> simp only [rdSkip] at h <;> osplit_at h <;> grind
    · intro d s bs s' r h
      simp only [rdFields] at h; osplit_at h <;> grind
    · intro d et n s bs s' r h
      cases n <;> simp only [rdN] at h <;> osplit_at h <;> grind
    · intro d kt vt n s bs s' r h
      cases n <;> simp only [rdPairs] at h <;> osplit_at h <;> grind

theorem rdSkip_nofuel : ∀ f,
    (∀ d t s bs, 3 * bs.length + μ s + 2 ≤ f → rdSkip P f d t s bs ≠ .fuel) ∧
    (∀ d s bs, 3 * bs.length + μ s + 1 ≤ f → rdFields P f d s bs ≠ .fuel) ∧
    (∀ d et n s bs, 3 * bs.length + μ s + 3 ≤ f → rdN P f d et n s bs ≠ .fuel) ∧
    (∀ d kt vt n s bs, 3 * bs.length + μ s + 3 ≤ f → rdPairs P f d kt vt n s bs ≠ .fuel) := by
  have hlen := rdSkip_len P μ hP
  obtain ⟨mu_le, leaf_np, leaf_nf, leaf_ok, sb_mu, se_np, se_nf, se_mu, fb_np, fb_nf, fb_ok, lb_np, lb_nf, lb_ok, mb_np, mb_nf, mb_ok⟩ := hP
  intro f
  induction f with
  | zero => simp
  | succ f ih =>
    obtain ⟨ih1, ih2, ih3, ih4⟩ := ih
    obtain ⟨l1, l2, l3, l4⟩ := hlen f
    refine ⟨?_, ?_, ?_, ?_⟩
    · intro d t s bs hf h
      cases t <;> simp only [rdSkip] at h <;> osplit_at h <;> grind
    · intro d s bs hf h
      simp only [rdFields] at h; osplit_at h <;> grind
    · intro d et n s bs hf h
      cases n <;> simp only [rdN] at h <;> osplit_at h <;> grind
    · intro d kt vt n s bs hf h
      cases n <;> simp only [rdPairs] at h <;> osplit_at h <;> grind

end generic

end Pilota.Thrift.Skip
