import PilotaModel.Lemmas.Tactics
import PilotaModel.Thrift.Binary
import PilotaModel.Thrift.Compact
/-
  Facts about the reader primitives that hold for EVERY input (not only valid encodings):
  they never take the `panic` or `fuel` branch, a successful read consumes a known number of bytes,
  and a successful read does not depend on what follows the bytes it consumed (`_ext`).
-/
namespace Pilota
open Pilota Pilota.Thrift

namespace Thrift.Binary

@[simp] theorem takeN_ne_panic (n bs m) : takeN n bs ≠ .panic m := by unfold takeN; split <;> simp
@[simp] theorem takeN_ne_fuel (n bs) : takeN n bs ≠ .fuel := by unfold takeN; split <;> simp
theorem takeN_ok {n bs a r} (h : takeN n bs = .ok (a, r)) : n ≤ bs.length ∧ a = bs.take n ∧ r = bs.drop n := by
  unfold takeN at h; split at h <;> simp_all
theorem takeN_len {n bs a r} (h : takeN n bs = .ok (a, r)) : n + r.length = bs.length := by
  have := takeN_ok h; simp_all
theorem takeN_ext {n p a r} (q : Bytes) (h : takeN n p = .ok (a, r)) : takeN n (p ++ q) = .ok (a, r ++ q) := by
  have := takeN_ok h
  obtain ⟨h1, rfl, rfl⟩ := this
  unfold takeN
  have : n ≤ p.length + q.length := by omega
  simp [this, List.take_append_of_le_length h1, List.drop_append_of_le_length h1]

@[simp] theorem readU_ne_panic (e w bs m) : readU e w bs ≠ .panic m := by unfold readU; osplit
@[simp] theorem readU_ne_fuel (e w bs) : readU e w bs ≠ .fuel := by unfold readU; osplit
theorem readU_ok {e w bs n r} (h : readU e w bs = .ok (n, r)) : w ≤ bs.length ∧ r = bs.drop w := by
  unfold readU at h; split at h <;> simp_all
  rename_i h1; have := takeN_ok h1; simp_all
theorem readU_len {e w bs n r} (h : readU e w bs = .ok (n, r)) : w + r.length = bs.length := by
  have := readU_ok h; simp_all
theorem readU_ext {e w p n r} (q : Bytes) (h : readU e w p = .ok (n, r)) : readU e w (p ++ q) = .ok (n, r ++ q) := by
  unfold readU at h ⊢
  cases h1 : takeN w p with
  | ok x => obtain ⟨a, r0⟩ := x; simp [h1] at h; simp [takeN_ext q h1, h]
  | err k => simp [h1] at h
  | panic m => simp [h1] at h
  | fuel => simp [h1] at h

@[simp] theorem readI_ne_panic (e w bs m) : readI e w bs ≠ .panic m := by unfold readI; osplit
@[simp] theorem readI_ne_fuel (e w bs) : readI e w bs ≠ .fuel := by unfold readI; osplit
theorem readI_ok {e w bs n r} (h : readI e w bs = .ok (n, r)) : w ≤ bs.length ∧ r = bs.drop w := by
  unfold readI at h; split at h <;> simp_all
  rename_i h1; have := readU_ok h1; simp_all
theorem readI_len {e w bs n r} (h : readI e w bs = .ok (n, r)) : w + r.length = bs.length := by
  have := readI_ok h; simp_all
theorem readI_ext {e w p n r} (q : Bytes) (h : readI e w p = .ok (n, r)) : readI e w (p ++ q) = .ok (n, r ++ q) := by
  unfold readI at h ⊢
  cases h1 : readU e w p with
  | ok x => obtain ⟨a, r0⟩ := x; simp [h1] at h; simp [readU_ext q h1, h]
  | err k => simp [h1] at h
  | panic m => simp [h1] at h
  | fuel => simp [h1] at h

@[simp] theorem readByte_ne_panic (bs m) : readByte bs ≠ .panic m := by unfold readByte; split <;> simp
@[simp] theorem readByte_ne_fuel (bs) : readByte bs ≠ .fuel := by unfold readByte; split <;> simp
theorem readByte_ok {bs b r} (h : readByte bs = .ok (b, r)) : 1 ≤ bs.length ∧ r = bs.drop 1 := by
  unfold readByte at h; split at h <;> simp_all
theorem readByte_len {bs b r} (h : readByte bs = .ok (b, r)) : 1 + r.length = bs.length := by
  have := readByte_ok h; simp_all
theorem readByte_ext {p b r} (q : Bytes) (h : readByte p = .ok (b, r)) : readByte (p ++ q) = .ok (b, r ++ q) := by
  unfold readByte at h ⊢
  cases p with
  | nil => simp at h
  | cons x xs => simp at h ⊢; exact h

@[simp] theorem readTType_ne_panic (bs m) : readTType bs ≠ .panic m := by unfold readTType; osplit
@[simp] theorem readTType_ne_fuel (bs) : readTType bs ≠ .fuel := by unfold readTType; osplit
theorem readTType_ok {bs t r} (h : readTType bs = .ok (t, r)) : 1 ≤ bs.length ∧ r = bs.drop 1 := by
  unfold readTType at h; split at h <;> simp_all
  rename_i h1; have := readByte_ok h1
  split at h <;> simp_all
theorem readTType_len {bs t r} (h : readTType bs = .ok (t, r)) : 1 + r.length = bs.length := by
  have := readTType_ok h; simp_all
theorem readTType_ext {p t r} (q : Bytes) (h : readTType p = .ok (t, r)) : readTType (p ++ q) = .ok (t, r ++ q) := by
  unfold readTType at h ⊢
  cases h1 : readByte p with
  | ok x => obtain ⟨a, r0⟩ := x; simp only [h1] at h; simp only [readByte_ext q h1]; split at h <;> simp_all
  | err k => simp [h1] at h
  | panic m => simp [h1] at h
  | fuel => simp [h1] at h

@[simp] theorem readBytes_ne_panic (e bs m) : readBytes e bs ≠ .panic m := by
  unfold readBytes; osplit <;> simp_all [splitTo]
@[simp] theorem readBytes_ne_fuel (e bs) : readBytes e bs ≠ .fuel := by
  unfold readBytes; osplit <;> simp_all [splitTo]
theorem readBytes_ok {e bs b r} (h : readBytes e bs = .ok (b, r)) :
    ∃ len r0, readI e 4 bs = .ok (len, r0) ∧ asUsize len ≤ r0.length ∧ b = r0.take (asUsize len) ∧ r = r0.drop (asUsize len) := by
  unfold readBytes at h
  cases h1 : readI e 4 bs with
  | ok p =>
    obtain ⟨len, r0⟩ := p
    simp only [h1] at h
    by_cases hl : asUsize len ≤ r0.length
    · simp [hl, splitTo] at h
      exact ⟨len, r0, rfl, hl, h.1.symm, h.2.symm⟩
    · simp [hl] at h
  | err k => simp [h1] at h
  | panic m => simp [h1] at h
  | fuel => simp [h1] at h
theorem readBytes_len {e bs b r} (h : readBytes e bs = .ok (b, r)) : 4 + b.length + r.length = bs.length := by
  obtain ⟨len, r0, h1, h2, rfl, rfl⟩ := readBytes_ok h
  have := readI_len h1
  simp; omega
theorem readBytes_ext {e p b r} (q : Bytes) (h : readBytes e p = .ok (b, r)) : readBytes e (p ++ q) = .ok (b, r ++ q) := by
  obtain ⟨len, r0, h1, h2, rfl, rfl⟩ := readBytes_ok h
  unfold readBytes
  rw [readI_ext q h1]
  have : asUsize len ≤ r0.length + q.length := by omega
  simp [this, splitTo, List.take_append_of_le_length h2, List.drop_append_of_le_length h2]

@[simp] theorem readFieldBegin_ne_panic (e bs m) : readFieldBegin e bs ≠ .panic m := by unfold readFieldBegin; osplit
@[simp] theorem readFieldBegin_ne_fuel (e bs) : readFieldBegin e bs ≠ .fuel := by unfold readFieldBegin; osplit
theorem readFieldBegin_ok {e bs t id r} (h : readFieldBegin e bs = .ok ((t, id), r)) :
    (t = .stop ∧ 1 ≤ bs.length ∧ r = bs.drop 1) ∨ (t ≠ .stop ∧ 3 ≤ bs.length ∧ r = bs.drop 3) := by
  unfold readFieldBegin at h
  cases h1 : readTType bs with
  | ok p =>
    obtain ⟨t0, r0⟩ := p
    have a := readTType_ok h1
    simp only [h1] at h
    by_cases hs : t0 = .stop
    · simp [hs] at h; left; simp_all
    · simp only [hs, if_false] at h
      cases h2 : readI e 2 r0 with
      | ok q =>
        obtain ⟨i0, r1⟩ := q
        have b := readI_ok h2
        simp [h2] at h
        right; obtain ⟨⟨rfl, _⟩, rfl⟩ := h
        refine ⟨hs, ?_, ?_⟩
        · have := a.2; subst this; simp at b; omega
        · rw [b.2, a.2, List.drop_drop]
      | err k => simp [h2] at h
      | panic m => simp [h2] at h
      | fuel => simp [h2] at h
  | err k => simp [h1] at h
  | panic m => simp [h1] at h
  | fuel => simp [h1] at h
theorem readFieldBegin_len {e bs x r} (h : readFieldBegin e bs = .ok (x, r)) : 1 + r.length ≤ bs.length := by
  obtain ⟨t, id⟩ := x
  rcases readFieldBegin_ok h with ⟨_, h1, rfl⟩ | ⟨_, h1, rfl⟩ <;> simp <;> omega
theorem readFieldBegin_exact {e bs t id r} (h : readFieldBegin e bs = .ok ((t, id), r)) :
    (t = .stop → 1 + r.length = bs.length) ∧ (t ≠ .stop → 3 + r.length = bs.length) := by
  rcases readFieldBegin_ok h with ⟨h0, h1, rfl⟩ | ⟨h0, h1, rfl⟩ <;> simp [h0] <;> omega
theorem readFieldBegin_ext {e p x r} (q : Bytes) (h : readFieldBegin e p = .ok (x, r)) :
    readFieldBegin e (p ++ q) = .ok (x, r ++ q) := by
  unfold readFieldBegin at h ⊢
  cases h1 : readTType p with
  | ok y =>
    obtain ⟨t0, r0⟩ := y
    simp only [h1] at h
    simp only [readTType_ext q h1]
    by_cases hs : t0 = .stop
    · simp [hs] at h ⊢; exact h
    · simp only [hs, if_false] at h ⊢
      cases h2 : readI e 2 r0 with
      | ok z => obtain ⟨i0, r1⟩ := z; simp [h2] at h; simp [readI_ext q h2, h]
      | err k => simp [h2] at h
      | panic m => simp [h2] at h
      | fuel => simp [h2] at h
  | err k => simp [h1] at h
  | panic m => simp [h1] at h
  | fuel => simp [h1] at h

@[simp] theorem checkSize_ne_panic (n r m) : checkSize n r ≠ .panic m := by unfold checkSize; osplit
@[simp] theorem checkSize_ne_fuel (n r) : checkSize n r ≠ .fuel := by unfold checkSize; osplit
theorem checkSize_inv {n r k} (h : checkSize n r = .ok k) : k ≤ r.length ∧ 0 ≤ n ∧ k = n.toNat := by
  unfold checkSize at h; osplit_at h; omega
theorem checkSize_ext {n r k} (q : Bytes) (h : checkSize n r = .ok k) : checkSize n (r ++ q) = .ok k := by
  have := checkSize_inv h
  unfold checkSize
  have h1 : ¬ n < 0 := by omega
  have h2 : n.toNat ≤ (r ++ q).length := by simp; omega
  rw [if_neg h1, if_pos h2, this.2.2]

@[simp] theorem readListBegin_ne_panic (e bs m) : readListBegin e bs ≠ .panic m := by unfold readListBegin; osplit
@[simp] theorem readListBegin_ne_fuel (e bs) : readListBegin e bs ≠ .fuel := by unfold readListBegin; osplit
theorem readListBegin_ok {e bs x r} (h : readListBegin e bs = .ok (x, r)) : 5 ≤ bs.length ∧ r = bs.drop 5 := by
  unfold readListBegin at h
  cases h1 : readTType bs with
  | ok p =>
    obtain ⟨t0, r0⟩ := p
    have a := readTType_ok h1
    simp only [h1] at h
    cases h2 : readI e 4 r0 with
    | ok q =>
      obtain ⟨i0, r1⟩ := q
      have b := readI_ok h2
      simp only [h2] at h
      cases h3 : checkSize i0 r1 with
      | ok k =>
        simp [h3] at h
        obtain ⟨_, rfl⟩ := h
        have := a.2; subst this
        refine ⟨by simp at b; omega, by rw [b.2, List.drop_drop]⟩
      | err k => simp [h3] at h
      | panic m => simp [h3] at h
      | fuel => simp [h3] at h
    | err k => simp [h2] at h
    | panic m => simp [h2] at h
    | fuel => simp [h2] at h
  | err k => simp [h1] at h
  | panic m => simp [h1] at h
  | fuel => simp [h1] at h
theorem readListBegin_len {e bs x r} (h : readListBegin e bs = .ok (x, r)) : 5 + r.length = bs.length := by
  obtain ⟨h1, rfl⟩ := readListBegin_ok h; simp; omega
theorem readListBegin_ext {e p x r} (q : Bytes) (h : readListBegin e p = .ok (x, r)) :
    readListBegin e (p ++ q) = .ok (x, r ++ q) := by
  unfold readListBegin at h ⊢
  cases h1 : readTType p with
  | ok y =>
    obtain ⟨t0, r0⟩ := y
    simp only [h1] at h
    simp only [readTType_ext q h1]
    cases h2 : readI e 4 r0 with
    | ok z =>
      obtain ⟨i0, r1⟩ := z
      simp only [h2] at h
      simp only [readI_ext q h2]
      cases h3 : checkSize i0 r1 with
      | ok k => simp [h3] at h; obtain ⟨rfl, rfl⟩ := h; simp [checkSize_ext q h3]
      | err k => simp [h3] at h
      | panic m => simp [h3] at h
      | fuel => simp [h3] at h
    | err k => simp [h2] at h
    | panic m => simp [h2] at h
    | fuel => simp [h2] at h
  | err k => simp [h1] at h
  | panic m => simp [h1] at h
  | fuel => simp [h1] at h
@[simp] theorem readMapBegin_ne_panic (e bs m) : readMapBegin e bs ≠ .panic m := by unfold readMapBegin; osplit
@[simp] theorem readMapBegin_ne_fuel (e bs) : readMapBegin e bs ≠ .fuel := by unfold readMapBegin; osplit
theorem readMapBegin_ok {e bs x r} (h : readMapBegin e bs = .ok (x, r)) : 6 ≤ bs.length ∧ r = bs.drop 6 := by
  unfold readMapBegin at h
  cases h1 : readTType bs with
  | ok p =>
    obtain ⟨t0, r0⟩ := p
    have a := readTType_ok h1
    simp only [h1] at h
    cases h2 : readTType r0 with
    | ok q =>
      obtain ⟨t1, r1⟩ := q
      have b := readTType_ok h2
      simp only [h2] at h
      cases h3 : readI e 4 r1 with
      | ok q3 =>
        obtain ⟨i0, r2⟩ := q3
        have c := readI_ok h3
        simp only [h3] at h
        cases h4 : checkSize i0 r2 with
        | ok k =>
          simp [h4] at h
          obtain ⟨_, rfl⟩ := h
          have := a.2; subst this
          have := b.2; subst this
          refine ⟨by simp at b c; omega, by rw [c.2, List.drop_drop, List.drop_drop]⟩
        | err k => simp [h4] at h
        | panic m => simp [h4] at h
        | fuel => simp [h4] at h
      | err k => simp [h3] at h
      | panic m => simp [h3] at h
      | fuel => simp [h3] at h
    | err k => simp [h2] at h
    | panic m => simp [h2] at h
    | fuel => simp [h2] at h
  | err k => simp [h1] at h
  | panic m => simp [h1] at h
  | fuel => simp [h1] at h
theorem readMapBegin_len {e bs x r} (h : readMapBegin e bs = .ok (x, r)) : 6 + r.length = bs.length := by
  obtain ⟨h1, rfl⟩ := readMapBegin_ok h; simp; omega
theorem readMapBegin_ext {e p x r} (q : Bytes) (h : readMapBegin e p = .ok (x, r)) :
    readMapBegin e (p ++ q) = .ok (x, r ++ q) := by
  unfold readMapBegin at h ⊢
  cases h1 : readTType p with
  | ok y =>
    obtain ⟨t0, r0⟩ := y
    simp only [h1] at h
    simp only [readTType_ext q h1]
    cases h2 : readTType r0 with
    | ok y2 =>
      obtain ⟨t1, r1⟩ := y2
      simp only [h2] at h
      simp only [readTType_ext q h2]
      cases h3 : readI e 4 r1 with
      | ok z =>
        obtain ⟨i0, r2⟩ := z
        simp only [h3] at h
        simp only [readI_ext q h3]
        cases h4 : checkSize i0 r2 with
        | ok k => simp [h4] at h; obtain ⟨rfl, rfl⟩ := h; simp [checkSize_ext q h4]
        | err k => simp [h4] at h
        | panic m => simp [h4] at h
        | fuel => simp [h4] at h
      | err k => simp [h3] at h
      | panic m => simp [h3] at h
      | fuel => simp [h3] at h
    | err k => simp [h2] at h
    | panic m => simp [h2] at h
    | fuel => simp [h2] at h
  | err k => simp [h1] at h
  | panic m => simp [h1] at h
  | fuel => simp [h1] at h
grind_pattern takeN_ext => takeN n (p ++ q), takeN n p, Out.ok (a, r)
grind_pattern readU_ext => readU e w (p ++ q), readU e w p, Out.ok (n, r)
grind_pattern readI_ext => readI e w (p ++ q), readI e w p, Out.ok (n, r)
grind_pattern readByte_ext => readByte (p ++ q), readByte p, Out.ok (b, r)
grind_pattern readTType_ext => readTType (p ++ q), readTType p, Out.ok (t, r)
grind_pattern readBytes_ext => readBytes e (p ++ q), readBytes e p, Out.ok (b, r)
grind_pattern readFieldBegin_ext => readFieldBegin e (p ++ q), readFieldBegin e p, Out.ok (x, r)
grind_pattern readListBegin_ext => readListBegin e (p ++ q), readListBegin e p, Out.ok (x, r)
grind_pattern readMapBegin_ext => readMapBegin e (p ++ q), readMapBegin e p, Out.ok (x, r)

attribute [grind →] readFieldBegin_exact
attribute [grind →] takeN_len readU_len readI_len readByte_len readTType_len readBytes_len readFieldBegin_len
  readListBegin_len readMapBegin_len

end Thrift.Binary
end Pilota
