import PilotaModel.Lemmas.BinaryRT
import PilotaModel.Thrift.Unsafe
/-  Whenever the checked big-endian reader accepts, the unchecked reader stays inside its buffer,
    returns the same value and accounts for the same number of consumed bytes. -/
namespace Pilota.Thrift.Unsafe
open Pilota Pilota.Thrift

/-- the index is inside the buffer. -/
def UR.valid (s : UR) : Prop := s.idx ≤ s.bs.length

/-- `s'` is `s` after consuming input down to `r`. -/
structure Good (s : UR) (r : Bytes) (s' : UR) : Prop where
  rest : s'.rest = r
  valid : s'.valid
  pos : s'.pos + r.length = s.pos + s.rest.length

theorem Good.trans {s s1 s2 : UR} {r1 r2 : Bytes} (h1 : Good s r1 s1) (h2 : Good s1 r2 s2) : Good s r2 s2 := by
  refine ⟨h2.rest, h2.valid, ?_⟩
  have a := h1.pos; have b := h2.pos; rw [h1.rest] at b; omega

theorem rest_length (s : UR) : s.rest.length = s.bs.length - s.idx := by simp [UR.rest]

theorem peek_sim (s : UR) (hv : s.valid) (n : Nat) (a r : Bytes) (h : Binary.takeN n s.rest = .ok (a, r)) :
    ∃ s', peek s n = .ok (a, s') ∧ Good s r s' := by
  unfold Binary.takeN at h
  have hl := rest_length s
  unfold UR.valid at hv
  split at h
  · rename_i hn
    simp only [Out.ok.injEq, Prod.mk.injEq] at h
    obtain ⟨rfl, rfl⟩ := h
    have hb : s.idx + n ≤ s.bs.length := by omega
    refine ⟨{ s with idx := s.idx + n }, by simp [peek, hb, UR.rest], ⟨by simp [UR.rest, List.drop_drop], by simpa [UR.valid] using hb, ?_⟩⟩
    simp only [UR.pos, UR.rest, List.length_drop]; omega
  · cases h

theorem beToNat_single (b : UInt8) : beToNat [b] = b.toNat := by simp [beToNat, leToNat]

theorem readU_sim (s : UR) (hv : s.valid) (w n : Nat) (r : Bytes) (h : Binary.readU .be w s.rest = .ok (n, r)) :
    ∃ s', readU w s = .ok (n, s') ∧ Good s r s' := by
  unfold Binary.readU at h
  cases hx : Binary.takeN w s.rest with
  | ok p =>
    obtain ⟨a, r'⟩ := p
    simp only [hx, Out.ok.injEq, Prod.mk.injEq] at h
    obtain ⟨rfl, rfl⟩ := h
    obtain ⟨s', h1, g⟩ := peek_sim s hv w a r' hx
    exact ⟨s', by simp [readU, h1, decFixed], g⟩
  | err k => simp [hx] at h
  | panic m => simp [hx] at h
  | fuel => simp [hx] at h

theorem readI_sim (s : UR) (hv : s.valid) (w : Nat) (n : Int) (r : Bytes) (h : Binary.readI .be w s.rest = .ok (n, r)) :
    ∃ s', readI w s = .ok (n, s') ∧ Good s r s' := by
  unfold Binary.readI at h
  cases hx : Binary.readU .be w s.rest with
  | ok p =>
    obtain ⟨a, r'⟩ := p
    simp only [hx, Out.ok.injEq, Prod.mk.injEq] at h
    obtain ⟨rfl, rfl⟩ := h
    obtain ⟨s', h1, g⟩ := readU_sim s hv w a r' hx
    exact ⟨s', by simp [readI, h1], g⟩
  | err k => simp [hx] at h
  | panic m => simp [hx] at h
  | fuel => simp [hx] at h

theorem readByte_as_readU (bs : Bytes) : Binary.readByte bs = Binary.readU .be 1 bs := by
  cases bs with
  | nil => simp [Binary.readByte, Binary.readU, Binary.takeN]
  | cons b r => simp [Binary.readByte, Binary.readU, Binary.takeN, decFixed, beToNat_single]

theorem readTType_sim (s : UR) (hv : s.valid) (t : TType) (r : Bytes) (h : Binary.readTType s.rest = .ok (t, r)) :
    ∃ s', readTType s = .ok (t, s') ∧ Good s r s' := by
  unfold Binary.readTType at h
  rw [readByte_as_readU] at h
  cases hx : Binary.readU .be 1 s.rest with
  | ok p =>
    obtain ⟨b, r'⟩ := p
    simp only [hx] at h
    obtain ⟨s', h1, g⟩ := readU_sim s hv 1 b r' hx
    cases ht : TType.ofByte b with
    | none => simp [ht] at h
    | some t' =>
      simp only [ht, Out.ok.injEq, Prod.mk.injEq] at h
      obtain ⟨rfl, rfl⟩ := h
      exact ⟨s', by simp [readTType, h1, ht], g⟩
  | err k => simp [hx] at h
  | panic m => simp [hx] at h
  | fuel => simp [hx] at h

theorem advance_all (s : UR) (hv : s.valid) :
    ∃ s', advance s s.idx = .ok s' ∧ s'.bs = s.rest ∧ s'.idx = 0 ∧ s'.adv = s.pos := by
  unfold UR.valid at hv
  have h1 : ¬ s.bs.length < s.idx := by omega
  exact ⟨{ bs := s.bs.drop s.idx, idx := s.idx - s.idx, adv := s.adv + s.idx }, by simp [advance, h1], rfl, by simp, rfl⟩

theorem readBytes_sim (s : UR) (hv : s.valid) (b r : Bytes) (h : Binary.readBytes .be s.rest = .ok (b, r)) :
    ∃ s', readBytes s = .ok (b, s') ∧ Good s r s' := by
  unfold Binary.readBytes at h
  cases hx : Binary.readI .be 4 s.rest with
  | ok p =>
    obtain ⟨len, r1⟩ := p
    simp only [hx] at h
    obtain ⟨s1, h1, g1⟩ := readI_sim s hv 4 len r1 hx
    obtain ⟨s2, h2, hb2, hi2, ha2⟩ := advance_all s1 g1.valid
    split at h
    · rename_i hn
      simp only [Binary.splitTo, hn, if_true, Out.ok.injEq, Prod.mk.injEq] at h
      obtain ⟨rfl, rfl⟩ := h
      have hb2' : s2.bs = r1 := hb2.trans g1.rest
      have hn2 : Binary.asUsize len ≤ s2.bs.length := by rw [hb2']; exact hn
      refine ⟨{ s2 with bs := s2.bs.drop (Binary.asUsize len), adv := s2.adv + Binary.asUsize len }, ?_, ⟨?_, ?_, ?_⟩⟩
      · simp only [readBytes, h1, h2, splitTo, hb2', hn, if_true]
      · simp only [UR.rest, hi2, hb2', List.drop_zero]
      · simp [UR.valid, hi2]
      · have := g1.pos
        simp only [UR.pos, hi2, ha2, List.length_drop, hb2'] at this ⊢
        omega
    · cases h
  | err k => simp [hx] at h
  | panic m => simp [hx] at h
  | fuel => simp [hx] at h

theorem checkSize_inv (n : Int) (r : Bytes) (m : Nat) (h : Binary.checkSize n r = .ok m) :
    0 ≤ n ∧ m = n.toNat ∧ m ≤ r.length := by
  unfold Binary.checkSize at h
  split at h
  · cases h
  · split at h
    · simp only [Out.ok.injEq] at h; subst h; exact ⟨by omega, rfl, by assumption⟩
    · cases h

theorem readI_inS (e : Endian) (w : Nat) (hw : 0 < w) (bs : Bytes) (n : Int) (r : Bytes)
    (h : Binary.readI e w bs = .ok (n, r)) : inS w n := by
  unfold Binary.readI at h
  cases hx : Binary.readU e w bs with
  | ok p =>
    simp only [hx, Out.ok.injEq, Prod.mk.injEq] at h
    rw [← h.1]; exact inS_toS w hw _
  | err k => simp [hx] at h
  | panic m => simp [hx] at h
  | fuel => simp [hx] at h

theorem asUsize_of_nonneg (n : Int) (h0 : 0 ≤ n) (h : inS 4 n) : Binary.asUsize n = n.toNat := by
  unfold Binary.asUsize toU
  unfold inS at h
  have e4 : (256:Nat) ^ 4 = 4294967296 := by decide
  have e8 : (256:Nat) ^ 8 = 18446744073709551616 := by decide
  rw [e4] at h; rw [e8]
  have : n % ((18446744073709551616 : Nat) : Int) = n := Int.emod_eq_of_lt h0 (by omega)
  rw [this]

theorem readFieldBegin_sim (s : UR) (hv : s.valid) (x : TType × Int) (r : Bytes)
    (h : Binary.readFieldBegin .be s.rest = .ok (x, r)) :
    ∃ s', readFieldBegin s = .ok (x, s') ∧ Good s r s' := by
  unfold Binary.readFieldBegin at h
  cases hx : Binary.readTType s.rest with
  | ok p =>
    obtain ⟨t, r1⟩ := p
    simp only [hx] at h
    obtain ⟨s1, h1, g1⟩ := readTType_sim s hv t r1 hx
    by_cases hs : t = .stop
    · simp only [hs, if_true, Out.ok.injEq, Prod.mk.injEq] at h
      obtain ⟨rfl, rfl⟩ := h
      exact ⟨s1, by simp [readFieldBegin, h1, hs], g1⟩
    · simp only [hs, if_false] at h
      cases hy : Binary.readI .be 2 r1 with
      | ok q =>
        obtain ⟨id, r2⟩ := q
        simp only [hy, Out.ok.injEq, Prod.mk.injEq] at h
        obtain ⟨rfl, rfl⟩ := h
        obtain ⟨s2, h2, g2⟩ := readI_sim s1 g1.valid 2 id r2 (by rw [g1.rest]; exact hy)
        exact ⟨s2, by simp [readFieldBegin, h1, hs, h2], g1.trans g2⟩
      | err k => simp [hy] at h
      | panic m => simp [hy] at h
      | fuel => simp [hy] at h
  | err k => simp [hx] at h
  | panic m => simp [hx] at h
  | fuel => simp [hx] at h

theorem readListBegin_sim (s : UR) (hv : s.valid) (x : TType × Nat) (r : Bytes)
    (h : Binary.readListBegin .be s.rest = .ok (x, r)) :
    ∃ s', readListBegin s = .ok (x, s') ∧ Good s r s' := by
  unfold Binary.readListBegin at h
  cases hx : Binary.readTType s.rest with
  | ok p =>
    obtain ⟨t, r1⟩ := p
    simp only [hx] at h
    obtain ⟨s1, h1, g1⟩ := readTType_sim s hv t r1 hx
    cases hy : Binary.readI .be 4 r1 with
    | ok q =>
      obtain ⟨n, r2⟩ := q
      simp only [hy] at h
      cases hc : Binary.checkSize n r2 with
      | ok m =>
        simp only [hc, Out.ok.injEq, Prod.mk.injEq] at h
        obtain ⟨rfl, rfl⟩ := h
        obtain ⟨h0, hm, _⟩ := checkSize_inv n r2 m hc
        have hu := asUsize_of_nonneg n h0 (readI_inS .be 4 (by decide) r1 n r2 hy)
        obtain ⟨s2, h2, g2⟩ := readI_sim s1 g1.valid 4 n r2 (by rw [g1.rest]; exact hy)
        exact ⟨s2, by simp [readListBegin, h1, h2, hu, hm], g1.trans g2⟩
      | err k => simp [hc] at h
      | panic m => simp [hc] at h
      | fuel => simp [hc] at h
    | err k => simp [hy] at h
    | panic m => simp [hy] at h
    | fuel => simp [hy] at h
  | err k => simp [hx] at h
  | panic m => simp [hx] at h
  | fuel => simp [hx] at h

theorem readMapBegin_sim (s : UR) (hv : s.valid) (x : TType × TType × Nat) (r : Bytes)
    (h : Binary.readMapBegin .be s.rest = .ok (x, r)) :
    ∃ s', readMapBegin s = .ok (x, s') ∧ Good s r s' := by
  unfold Binary.readMapBegin at h
  cases hx : Binary.readTType s.rest with
  | ok p =>
    obtain ⟨kt, r1⟩ := p
    simp only [hx] at h
    obtain ⟨s1, h1, g1⟩ := readTType_sim s hv kt r1 hx
    cases hz : Binary.readTType r1 with
    | ok p2 =>
      obtain ⟨vt, r1'⟩ := p2
      simp only [hz] at h
      obtain ⟨s1', h1', g1'⟩ := readTType_sim s1 g1.valid vt r1' (by rw [g1.rest]; exact hz)
      cases hy : Binary.readI .be 4 r1' with
      | ok q =>
        obtain ⟨n, r2⟩ := q
        simp only [hy] at h
        cases hc : Binary.checkSize n r2 with
        | ok m =>
          simp only [hc, Out.ok.injEq, Prod.mk.injEq] at h
          obtain ⟨rfl, rfl⟩ := h
          obtain ⟨h0, hm, _⟩ := checkSize_inv n r2 m hc
          have hu := asUsize_of_nonneg n h0 (readI_inS .be 4 (by decide) r1' n r2 hy)
          obtain ⟨s2, h2, g2⟩ := readI_sim s1' g1'.valid 4 n r2 (by rw [g1'.rest]; exact hy)
          exact ⟨s2, by simp [readMapBegin, h1, h1', h2, hu, hm], (g1.trans g1').trans g2⟩
        | err k => simp [hc] at h
        | panic m => simp [hc] at h
        | fuel => simp [hc] at h
      | err k => simp [hy] at h
      | panic m => simp [hy] at h
      | fuel => simp [hy] at h
    | err k => simp [hz] at h
    | panic m => simp [hz] at h
    | fuel => simp [hz] at h
  | err k => simp [hx] at h
  | panic m => simp [hx] at h
  | fuel => simp [hx] at h


mutual
theorem readVal_sim (f : Nat) (t : TType) (s : UR) (hv : s.valid) (v : TVal) (r : Bytes)
    (h : Binary.readVal .be f t s.rest = .ok (v, r)) : ∃ s', readVal f t s = .ok (v, s') ∧ Good s r s' := by
  cases f with
  | zero => simp [Binary.readVal] at h
  | succ f =>
    cases t with
    | stop => simp [Binary.readVal] at h
    | void => simp [Binary.readVal] at h
    | bool =>
      simp only [Binary.readVal] at h
      cases hx : Binary.readI .be 1 s.rest with
      | ok p =>
        obtain ⟨n, r1⟩ := p
        simp only [hx, Out.ok.injEq, Prod.mk.injEq] at h
        obtain ⟨rfl, rfl⟩ := h
        obtain ⟨s1, h1, g1⟩ := readI_sim s hv 1 n r1 hx
        exact ⟨s1, by simp [readVal, h1], g1⟩
      | err k => simp [hx] at h
      | panic m => simp [hx] at h
      | fuel => simp [hx] at h
    | i8 =>
      simp only [Binary.readVal] at h
      cases hx : Binary.readI .be 1 s.rest with
      | ok p =>
        obtain ⟨n, r1⟩ := p
        simp only [hx, Out.ok.injEq, Prod.mk.injEq] at h
        obtain ⟨rfl, rfl⟩ := h
        obtain ⟨s1, h1, g1⟩ := readI_sim s hv 1 n r1 hx
        exact ⟨s1, by simp [readVal, h1], g1⟩
      | err k => simp [hx] at h
      | panic m => simp [hx] at h
      | fuel => simp [hx] at h
    | i16 =>
      simp only [Binary.readVal] at h
      cases hx : Binary.readI .be 2 s.rest with
      | ok p =>
        obtain ⟨n, r1⟩ := p
        simp only [hx, Out.ok.injEq, Prod.mk.injEq] at h
        obtain ⟨rfl, rfl⟩ := h
        obtain ⟨s1, h1, g1⟩ := readI_sim s hv 2 n r1 hx
        exact ⟨s1, by simp [readVal, h1], g1⟩
      | err k => simp [hx] at h
      | panic m => simp [hx] at h
      | fuel => simp [hx] at h
    | i32 =>
      simp only [Binary.readVal] at h
      cases hx : Binary.readI .be 4 s.rest with
      | ok p =>
        obtain ⟨n, r1⟩ := p
        simp only [hx, Out.ok.injEq, Prod.mk.injEq] at h
        obtain ⟨rfl, rfl⟩ := h
        obtain ⟨s1, h1, g1⟩ := readI_sim s hv 4 n r1 hx
        exact ⟨s1, by simp [readVal, h1], g1⟩
      | err k => simp [hx] at h
      | panic m => simp [hx] at h
      | fuel => simp [hx] at h
    | i64 =>
      simp only [Binary.readVal] at h
      cases hx : Binary.readI .be 8 s.rest with
      | ok p =>
        obtain ⟨n, r1⟩ := p
        simp only [hx, Out.ok.injEq, Prod.mk.injEq] at h
        obtain ⟨rfl, rfl⟩ := h
        obtain ⟨s1, h1, g1⟩ := readI_sim s hv 8 n r1 hx
        exact ⟨s1, by simp [readVal, h1], g1⟩
      | err k => simp [hx] at h
      | panic m => simp [hx] at h
      | fuel => simp [hx] at h
    | double =>
      simp only [Binary.readVal] at h
      cases hx : Binary.readU .be 8 s.rest with
      | ok p =>
        obtain ⟨n, r1⟩ := p
        simp only [hx, Out.ok.injEq, Prod.mk.injEq] at h
        obtain ⟨rfl, rfl⟩ := h
        obtain ⟨s1, h1, g1⟩ := readU_sim s hv 8 n r1 hx
        exact ⟨s1, by simp [readVal, h1], g1⟩
      | err k => simp [hx] at h
      | panic m => simp [hx] at h
      | fuel => simp [hx] at h
    | binary =>
      simp only [Binary.readVal] at h
      cases hx : Binary.readBytes .be s.rest with
      | ok p =>
        obtain ⟨n, r1⟩ := p
        simp only [hx, Out.ok.injEq, Prod.mk.injEq] at h
        obtain ⟨rfl, rfl⟩ := h
        obtain ⟨s1, h1, g1⟩ := readBytes_sim s hv n r1 hx
        exact ⟨s1, by simp [readVal, h1], g1⟩
      | err k => simp [hx] at h
      | panic m => simp [hx] at h
      | fuel => simp [hx] at h
    | uuid =>
      simp only [Binary.readVal] at h
      cases hx : Binary.takeN 16 s.rest with
      | ok p =>
        obtain ⟨n, r1⟩ := p
        simp only [hx, Out.ok.injEq, Prod.mk.injEq] at h
        obtain ⟨rfl, rfl⟩ := h
        obtain ⟨s1, h1, g1⟩ := peek_sim s hv 16 n r1 hx
        exact ⟨s1, by simp [readVal, h1], g1⟩
      | err k => simp [hx] at h
      | panic m => simp [hx] at h
      | fuel => simp [hx] at h
    | struct =>
      simp only [Binary.readVal] at h
      cases hx : Binary.readFields .be f s.rest with
      | ok p =>
        obtain ⟨fs, r1⟩ := p
        simp only [hx, Out.ok.injEq, Prod.mk.injEq] at h
        obtain ⟨rfl, rfl⟩ := h
        obtain ⟨s1, h1, g1⟩ := readFields_sim f s hv fs r1 hx
        exact ⟨s1, by simp [readVal, h1], g1⟩
      | err k => simp [hx] at h
      | panic m => simp [hx] at h
      | fuel => simp [hx] at h
    | list =>
      simp only [Binary.readVal] at h
      cases hx : Binary.readListBegin .be s.rest with
      | ok p =>
        obtain ⟨⟨et, n⟩, r1⟩ := p
        simp only [hx] at h
        obtain ⟨s1, h1, g1⟩ := readListBegin_sim s hv (et, n) r1 hx
        cases hy : Binary.readN .be f et n r1 with
        | ok q =>
          obtain ⟨xs, r2⟩ := q
          simp only [hy, Out.ok.injEq, Prod.mk.injEq] at h
          obtain ⟨rfl, rfl⟩ := h
          obtain ⟨s2, h2, g2⟩ := readN_sim f et n s1 g1.valid xs r2 (by rw [g1.rest]; exact hy)
          exact ⟨s2, by simp [readVal, h1, h2], g1.trans g2⟩
        | err k => simp [hy] at h
        | panic m => simp [hy] at h
        | fuel => simp [hy] at h
      | err k => simp [hx] at h
      | panic m => simp [hx] at h
      | fuel => simp [hx] at h
    | set =>
      simp only [Binary.readVal] at h
      cases hx : Binary.readListBegin .be s.rest with
      | ok p =>
        obtain ⟨⟨et, n⟩, r1⟩ := p
        simp only [hx] at h
        obtain ⟨s1, h1, g1⟩ := readListBegin_sim s hv (et, n) r1 hx
        cases hy : Binary.readN .be f et n r1 with
        | ok q =>
          obtain ⟨xs, r2⟩ := q
          simp only [hy, Out.ok.injEq, Prod.mk.injEq] at h
          obtain ⟨rfl, rfl⟩ := h
          obtain ⟨s2, h2, g2⟩ := readN_sim f et n s1 g1.valid xs r2 (by rw [g1.rest]; exact hy)
          exact ⟨s2, by simp [readVal, h1, h2], g1.trans g2⟩
        | err k => simp [hy] at h
        | panic m => simp [hy] at h
        | fuel => simp [hy] at h
      | err k => simp [hx] at h
      | panic m => simp [hx] at h
      | fuel => simp [hx] at h
    | map =>
      simp only [Binary.readVal] at h
      cases hx : Binary.readMapBegin .be s.rest with
      | ok p =>
        obtain ⟨⟨kt, vt, n⟩, r1⟩ := p
        simp only [hx] at h
        obtain ⟨s1, h1, g1⟩ := readMapBegin_sim s hv (kt, vt, n) r1 hx
        cases hy : Binary.readPairs .be f kt vt n r1 with
        | ok q =>
          obtain ⟨xs, r2⟩ := q
          simp only [hy, Out.ok.injEq, Prod.mk.injEq] at h
          obtain ⟨rfl, rfl⟩ := h
          obtain ⟨s2, h2, g2⟩ := readPairs_sim f kt vt n s1 g1.valid xs r2 (by rw [g1.rest]; exact hy)
          exact ⟨s2, by simp [readVal, h1, h2], g1.trans g2⟩
        | err k => simp [hy] at h
        | panic m => simp [hy] at h
        | fuel => simp [hy] at h
      | err k => simp [hx] at h
      | panic m => simp [hx] at h
      | fuel => simp [hx] at h
theorem readFields_sim (f : Nat) (s : UR) (hv : s.valid) (fs : TFields) (r : Bytes)
    (h : Binary.readFields .be f s.rest = .ok (fs, r)) : ∃ s', readFields f s = .ok (fs, s') ∧ Good s r s' := by
  cases f with
  | zero => simp [Binary.readFields] at h
  | succ f =>
    simp only [Binary.readFields] at h
    cases hx : Binary.readFieldBegin .be s.rest with
    | ok p =>
      obtain ⟨⟨t, id⟩, r1⟩ := p
      simp only [hx] at h
      obtain ⟨s1, h1, g1⟩ := readFieldBegin_sim s hv (t, id) r1 hx
      by_cases hs : t = .stop
      · simp only [hs, if_true, Out.ok.injEq, Prod.mk.injEq] at h
        obtain ⟨rfl, rfl⟩ := h
        exact ⟨s1, by simp [readFields, h1, hs], g1⟩
      · simp only [hs, if_false] at h
        cases hy : Binary.readVal .be f t r1 with
        | ok q =>
          obtain ⟨v, r2⟩ := q
          simp only [hy] at h
          obtain ⟨s2, h2, g2⟩ := readVal_sim f t s1 g1.valid v r2 (by rw [g1.rest]; exact hy)
          cases hz : Binary.readFields .be f r2 with
          | ok q2 =>
            obtain ⟨rest, r3⟩ := q2
            simp only [hz, Out.ok.injEq, Prod.mk.injEq] at h
            obtain ⟨rfl, rfl⟩ := h
            obtain ⟨s3, h3, g3⟩ := readFields_sim f s2 g2.valid rest r3 (by rw [g2.rest]; exact hz)
            exact ⟨s3, by simp [readFields, h1, hs, h2, h3], (g1.trans g2).trans g3⟩
          | err k => simp [hz] at h
          | panic m => simp [hz] at h
          | fuel => simp [hz] at h
        | err k => simp [hy] at h
        | panic m => simp [hy] at h
        | fuel => simp [hy] at h
    | err k => simp [hx] at h
    | panic m => simp [hx] at h
    | fuel => simp [hx] at h
theorem readN_sim (f : Nat) (et : TType) (n : Nat) (s : UR) (hv : s.valid) (xs : TVals) (r : Bytes)
    (h : Binary.readN .be f et n s.rest = .ok (xs, r)) : ∃ s', readN f et n s = .ok (xs, s') ∧ Good s r s' := by
  cases f with
  | zero => simp [Binary.readN] at h
  | succ f =>
    cases n with
    | zero =>
      simp only [Binary.readN, Out.ok.injEq, Prod.mk.injEq] at h
      obtain ⟨rfl, rfl⟩ := h
      exact ⟨s, by simp [readN], ⟨rfl, hv, rfl⟩⟩
    | succ n =>
      simp only [Binary.readN] at h
      cases hy : Binary.readVal .be f et s.rest with
      | ok q =>
        obtain ⟨v, r2⟩ := q
        simp only [hy] at h
        obtain ⟨s2, h2, g2⟩ := readVal_sim f et s hv v r2 hy
        cases hz : Binary.readN .be f et n r2 with
        | ok q2 =>
          obtain ⟨rest, r3⟩ := q2
          simp only [hz, Out.ok.injEq, Prod.mk.injEq] at h
          obtain ⟨rfl, rfl⟩ := h
          obtain ⟨s3, h3, g3⟩ := readN_sim f et n s2 g2.valid rest r3 (by rw [g2.rest]; exact hz)
          exact ⟨s3, by simp [readN, h2, h3], g2.trans g3⟩
        | err k => simp [hz] at h
        | panic m => simp [hz] at h
        | fuel => simp [hz] at h
      | err k => simp [hy] at h
      | panic m => simp [hy] at h
      | fuel => simp [hy] at h
theorem readPairs_sim (f : Nat) (kt vt : TType) (n : Nat) (s : UR) (hv : s.valid) (xs : TPairs) (r : Bytes)
    (h : Binary.readPairs .be f kt vt n s.rest = .ok (xs, r)) : ∃ s', readPairs f kt vt n s = .ok (xs, s') ∧ Good s r s' := by
  cases f with
  | zero => simp [Binary.readPairs] at h
  | succ f =>
    cases n with
    | zero =>
      simp only [Binary.readPairs, Out.ok.injEq, Prod.mk.injEq] at h
      obtain ⟨rfl, rfl⟩ := h
      exact ⟨s, by simp [readPairs], ⟨rfl, hv, rfl⟩⟩
    | succ n =>
      simp only [Binary.readPairs] at h
      cases hy : Binary.readVal .be f kt s.rest with
      | ok q =>
        obtain ⟨k, r2⟩ := q
        simp only [hy] at h
        obtain ⟨s2, h2, g2⟩ := readVal_sim f kt s hv k r2 hy
        cases hy' : Binary.readVal .be f vt r2 with
        | ok q' =>
          obtain ⟨v, r2'⟩ := q'
          simp only [hy'] at h
          obtain ⟨s2', h2', g2'⟩ := readVal_sim f vt s2 g2.valid v r2' (by rw [g2.rest]; exact hy')
          cases hz : Binary.readPairs .be f kt vt n r2' with
          | ok q2 =>
            obtain ⟨rest, r3⟩ := q2
            simp only [hz, Out.ok.injEq, Prod.mk.injEq] at h
            obtain ⟨rfl, rfl⟩ := h
            obtain ⟨s3, h3, g3⟩ := readPairs_sim f kt vt n s2' g2'.valid rest r3 (by rw [g2'.rest]; exact hz)
            exact ⟨s3, by simp [readPairs, h2, h2', h3], (g2.trans g2').trans g3⟩
          | err k => simp [hz] at h
          | panic m => simp [hz] at h
          | fuel => simp [hz] at h
        | err k => simp [hy'] at h
        | panic m => simp [hy'] at h
        | fuel => simp [hy'] at h
      | err k => simp [hy] at h
      | panic m => simp [hy] at h
      | fuel => simp [hy] at h
end

end Pilota.Thrift.Unsafe
