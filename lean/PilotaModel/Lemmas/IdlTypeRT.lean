import PilotaModel.Lemmas.IdlType
/-
  C15: `type_rt` — types (base types, containers with `cpp_type`, paths, annotations) are read
  back from every rendering, by mutual induction over `Ty` / `TypeA`.
-/
namespace Pilota.Idl

mutual
def Ty.depth : Ty → Nat
  | .list v _ => v.depth + 1
  | .set v _ => v.depth + 1
  | .map k v _ => max k.depth v.depth + 1
  | _ => 0
def TypeA.depth : TypeA → Nat
  | .mk t _ => t.depth
end

/-- what a type needs of the text that follows it -/
def TyFollow : Ty → List Char → Prop
  | .path _, r => hdP (fun c => !isIdentChar c) r = true ∧ PathStop r
  | .list _ none, r => NoCpp r
  | .list _ (some _), _ => True
  | .set .., _ => True
  | .map .., _ => True
  | _, r => Sep r

def TypeFollow : TypeA → List Char → Prop
  | .mk t as, r => as ≠ [] ∨ (TyFollow t r ∧ AnnsStop r)

theorem tyFollow_general {t : Ty} {r : List Char} (h1 : Sep r) (h2 : PathStop r) (h3 : NoCpp r) : TyFollow t r := by
  cases t with
  | path p => exact ⟨h1.noIdent, h2⟩
  | list v c => cases c <;> simp [TyFollow, h3]
  | set v c => trivial
  | map k v c => trivial
  | _ => exact h1

theorem typeFollow_close (t : TypeA) {b r : List Char} {c : Char} (hb : BT b) (hc : c = '>' ∨ c = ',' ∨ c = ';') :
    TypeFollow t (b ++ c :: r) := by
  obtain ⟨h1, h2, h3, h4⟩ := follow_close (r := r) hb hc
  cases t with
  | mk ty as => exact Or.inr ⟨tyFollow_general h1 h3 h4, h2⟩

/-! ### a word is not read as a container keyword -/

theorem identChar_NB {c : Char} (hc : isIdentChar c = true) : notBlankStart c = true := by
  cases hb : notBlankStart c with
  | true => rfl
  | false => have := blankStart_not_identChar c hb; simp [hc] at this

theorem identChar_ne {c x : Char} (hc : isIdentChar c = true) (hx : isIdentChar x = false) : x ≠ c := by
  intro e; subst e; rw [hc] at hx; cases hx

/-- after a keyword, a parser `k` that fails on every text beginning with a word character -/
theorem wordArm_err {β} {kw : List Char} {k : P β} {s r : List Char} (hk : ∀ c ∈ kw, isIdentChar c = true)
    (hs : identOk s = true) (hr : hdP (fun c => !isIdentChar c) r = true) (hne : s ≠ kw)
    (hfail : ∀ c x, isIdentChar c = true → k (c :: x) = .err) :
    andThen (tag kw) (fun _ => k) (s ++ r) = .err := by
  rcases tag_word (kw := kw) (i := s) hk hr with h | ⟨m, e, h⟩
  · exact andThen_of_err h
  · rw [andThen_of_ok h]
    cases m with
    | nil => simp at e; exact absurd e hne
    | cons c m => exact hfail c _ (identOk_all hs c (by simp [e]))

theorem ltArm_fail {β} (k : List Char → P β) {c : Char} {x : List Char} (hc : isIdentChar c = true) :
    (andThen (opt blank) fun _ => andThen (tag ['<']) k) (c :: x) = .err := by
  have h1 : opt blank (c :: x) = .ok none (c :: x) := opt_of_err (blank_err (identChar_NB hc))
  rw [andThen_of_ok h1]
  exact andThen_of_err (tag_cons_ne (identChar_ne hc (by decide)))

theorem cppLtArm_fail {β} (k : Option CppType → List Char → P β) {c : Char} {x : List Char} (hc : isIdentChar c = true) :
    (andThen (opt (skip blank CppType.parse)) fun cpp => andThen (opt blank) fun _ => andThen (tag ['<']) (k cpp)) (c :: x) = .err := by
  have h0 : opt (skip blank CppType.parse) (c :: x) = .ok none (c :: x) :=
    opt_of_err (skip_of_err (blank_err (identChar_NB hc)))
  rw [andThen_of_ok h0]
  exact ltArm_fail _ hc

/-! ### heads of rendered types -/

theorem rPath_cons {p : Path} (hp : p.wf = true) (l : Layout) :
    ∃ s rest, identOk s = true ∧ p.head = s ∧ (rPath p l).1 = s ++ rest ∧
      ∀ r, hdP (fun c => !isIdentChar c) r = true → hdP (fun c => !isIdentChar c) (rest ++ r) = true := by
  obtain ⟨segs⟩ := p
  simp only [Path.wf, Bool.and_eq_true, Bool.not_eq_true', List.all_eq_true] at hp
  cases segs with
  | nil => simp at hp
  | cons s ss =>
    refine ⟨s, (rSlots (fun seg _ => rB0 +> rLit ['.'] +> rB0 +> rLit seg) ss l).1, hp.2 s (by simp), rfl, by simp only [rPath, rSeq_fst, rLit_fst, rLit_snd], ?_⟩
    intro r hr
    cases ss with
    | nil => simpa using hr
    | cons s2 ss2 =>
      rw [rSlots_cons]
      simp only [rSeq_fst, rLit_fst, List.append_assoc]
      exact (rB0_BT _).hdP_append blankStart_not_identChar (by show (!isIdentChar '.') = true; decide)

theorem rTy_NB {t : Ty} (hw : t.wf = true) (l : Layout) (x : List Char) : NB ((rTy t l).1 ++ x) := by
  cases t with
  | path p =>
    simp only [Ty.wf, Bool.and_eq_true] at hw
    obtain ⟨s, rest, hs, _, e, _⟩ := rPath_cons hw.1 l
    simp only [rTy, e, List.append_assoc]
    exact ident_NB hs
  | list v c => simp only [rTy, rSeq_fst, rLit_fst, List.append_assoc]; show notBlankStart 'l' = true; decide
  | set v c => simp only [rTy, rSeq_fst, rLit_fst, List.append_assoc]; show notBlankStart 's' = true; decide
  | map k v c => simp only [rTy, rSeq_fst, rLit_fst, List.append_assoc]; show notBlankStart 'm' = true; decide
  | _ => simp only [rTy, rLit_fst]; (show notBlankStart _ = true); decide

theorem rType_NB {t : TypeA} (hw : t.wf = true) (l : Layout) (x : List Char) : NB ((rType t l).1 ++ x) := by
  cases t with
  | mk ty as =>
    simp only [TypeA.wf, Bool.and_eq_true] at hw
    simp only [rType, rSeq_fst, List.append_assoc]
    exact rTy_NB hw.1 l _

theorem follow_paren {b r : List Char} (hb : BT b) :
    Sep (b ++ '(' :: r) ∧ PathStop (b ++ '(' :: r) ∧ NoCpp (b ++ '(' :: r) :=
  ⟨hb.sep_append (Or.inr (by show isSepChar '(' = true; decide)),
   pathStop_of hb (by show notBlankStart '(' = true; decide) (by show ('(' != '.') = true; decide),
   noCpp_of hb (by show notBlankStart '(' = true; decide) (cppType_err_hd (by show ('(' != 'c') = true; decide))⟩

/-- `Type` from `Ty`: the optional annotation list -/
theorem type_of_ty {tyP : P Ty} {t : Ty} {as : Annotations} (hwa : Annotations.wf as = true) (l : Layout) (r : List Char)
    (hty : ∀ r', TyFollow t r' → tyP ((rTy t l).1 ++ r') = .ok t r')
    (hf : TypeFollow (.mk t as) r) : typeParse tyP ((rType (.mk t as) l).1 ++ r) = .ok (.mk t as) r := by
  simp only [rType, rSeq_fst, List.append_assoc]
  unfold typeParse
  by_cases hne : as = []
  · subst hne
    rcases hf with h | ⟨h1, h2⟩
    · exact absurd rfl h
    · simp only [rOptAnns, List.isEmpty_nil, if_true, rLit_fst, List.nil_append]
      rw [andThen_of_ok (hty r h1), andThen_of_ok h2]; rfl
  · have he : as.isEmpty = false := by cases as; exact absurd rfl hne; rfl
    have hfol : TyFollow t ((rOptAnns as (rTy t l).2).1 ++ r) := by
      simp only [rOptAnns, he, Bool.false_eq_true, if_false, rSeq_fst, rAnns, rLit_fst, List.append_assoc]
      obtain ⟨h1, h2, h3⟩ := follow_paren (r := (rB0 (rLit ['('] (rB0 (rTy t l).2).2).2).1 ++
        ((rSlots rAnnotation as (rB0 (rLit ['('] (rB0 (rTy t l).2).2).2).2).1 ++ ([')'] ++ r))) (rB0_BT (rTy t l).2)
      exact tyFollow_general h1 h2 h3
    rw [andThen_of_ok (hty _ hfol), andThen_of_ok (typeAnns_rt hwa hne _ r)]; rfl

theorem typeWords_ne {s : List Char} (h : typeWords.contains s = false) : ∀ kw ∈ typeWords, s ≠ kw := by
  intro kw hk e; subst e
  have : typeWords.contains s = true := List.contains_iff_mem.mpr hk
  rw [h] at this; cases this

theorem kw_err_of {α} {kw s : List Char} {v : α} (h : stripPrefix kw s = none) : keyword kw v s = .err :=
  andThen_of_err (by simp [tag, h])
theorem tag_err_of {kw s : List Char} (h : stripPrefix kw s = none) : tag kw s = .err := by simp [tag, h]

mutual
theorem ty_rt : (t : Ty) → t.wf = true → (d : Nat) → t.depth < d → (l : Layout) → (r : List Char) → TyFollow t r →
    Ty.parse d ((rTy t l).1 ++ r) = .ok t r
  | .path p, hw, d + 1, _, l, r, hf => by
    simp only [Ty.wf, Bool.and_eq_true, Bool.not_eq_true'] at hw
    obtain ⟨s, rest, hs, hhead, e, hrest⟩ := rPath_cons hw.1 l
    have hr' := hrest r hf.1
    have hne := typeWords_ne (s := s) (by rw [← hhead]; exact hw.2)
    have hall := identOk_all hs
    have hpath := path_rt hw.1 l hf.1 hf.2
    simp only [rTy] at hpath ⊢
    rw [e, List.append_assoc] at hpath ⊢
    have kwe : ∀ (kw : List Char) (v : Ty), kw ∈ typeWords → (∀ c ∈ kw, isIdentChar c = true) →
        keyword kw v (s ++ (rest ++ r)) = .err :=
      fun kw v hk hc => keyword_word_err hc hall hr' (hne kw hk)
    unfold Ty.parse
    rw [alt_cons_of_err (kwe _ _ (by decide) (by decide)), alt_cons_of_err (kwe _ _ (by decide) (by decide)),
      alt_cons_of_err (kwe _ _ (by decide) (by decide)), alt_cons_of_err (kwe _ _ (by decide) (by decide)),
      alt_cons_of_err (kwe _ _ (by decide) (by decide)), alt_cons_of_err (kwe _ _ (by decide) (by decide)),
      alt_cons_of_err (kwe _ _ (by decide) (by decide)), alt_cons_of_err (kwe _ _ (by decide) (by decide)),
      alt_cons_of_err (kwe _ _ (by decide) (by decide)), alt_cons_of_err (kwe _ _ (by decide) (by decide)),
      alt_cons_of_err (kwe _ _ (by decide) (by decide))]
    rw [alt_cons_of_err (wordArm_err (by decide) hs hr' (hne _ (by decide)) (fun c x hc => ltArm_fail _ hc)),
      alt_cons_of_err (wordArm_err (by decide) hs hr' (hne _ (by decide)) (fun c x hc => cppLtArm_fail _ hc)),
      alt_cons_of_err (wordArm_err (by decide) hs hr' (hne _ (by decide)) (fun c x hc => cppLtArm_fail _ hc))]
    exact alt_cons_of_ok (pmap_of_ok hpath)
  | .list v c, hw, d + 1, hd, l, r, hf => by
    simp only [Ty.wf, Bool.and_eq_true] at hw
    simp only [Ty.depth] at hd
    simp only [rTy, rSeq_fst, rSeq_snd, rLit_fst, rLit_snd, List.append_assoc]
    have ih := fun l' r' hf' => type_rt v hw.1 d (by omega) l' r' hf'
    have hnc : c = none → NoCpp r := by intro h; subst h; exact hf
    have harm : (andThen (tag cs!"list") fun _ => andThen (opt blank) fun _ => andThen (tag ['<']) fun _ =>
        andThen (opt blank) fun _ => andThen (typeParse (Ty.parse d)) fun inner => andThen (opt blank) fun _ =>
        andThen (tag ['>']) fun _ => andThen (opt (skip blank CppType.parse)) fun cpp => ret (Ty.list inner cpp))
        (cs!"list" ++ ((rB0 l).1 ++ (['<'] ++ ((rB0 (rB0 l).2).1 ++ ((rType v (rB0 (rB0 l).2).2).1 ++
          ((rB0 (rType v (rB0 (rB0 l).2).2).2).1 ++ (['>'] ++ ((rCppOpt c (rB0 (rType v (rB0 (rB0 l).2).2).2).2).1 ++ r)))))))) =
        .ok (Ty.list v c) r := by
      rw [andThen_of_ok (tag_append _ _), andThen_optBlank (rB0_BT _) (by show notBlankStart '<' = true; decide),
        andThen_of_ok (tag_append _ _), andThen_optBlank (rB0_BT _) (rType_NB hw.1 _ _),
        andThen_of_ok (ih _ _ (show TypeFollow v (_ ++ (['>'] ++ _)) from typeFollow_close v (rB0_BT _) (Or.inl rfl))),
        andThen_optBlank (rB0_BT _) (by show notBlankStart '>' = true; decide),
        andThen_of_ok (tag_append _ _), andThen_of_ok (cppOpt_rt hw.2 _ hnc)]
      rfl
    unfold Ty.parse
    rw [alt_cons_of_err (kw_err_of (by simp [stripPrefix])), alt_cons_of_err (kw_err_of (by simp [stripPrefix])),
      alt_cons_of_err (kw_err_of (by simp [stripPrefix])), alt_cons_of_err (kw_err_of (by simp [stripPrefix])),
      alt_cons_of_err (kw_err_of (by simp [stripPrefix])), alt_cons_of_err (kw_err_of (by simp [stripPrefix])),
      alt_cons_of_err (kw_err_of (by simp [stripPrefix])), alt_cons_of_err (kw_err_of (by simp [stripPrefix])),
      alt_cons_of_err (kw_err_of (by simp [stripPrefix])), alt_cons_of_err (kw_err_of (by simp [stripPrefix])),
      alt_cons_of_err (kw_err_of (by simp [stripPrefix]))]
    exact alt_cons_of_ok harm
  | .set v c, hw, d + 1, hd, l, r, _ => by
    simp only [Ty.wf, Bool.and_eq_true] at hw
    simp only [Ty.depth] at hd
    simp only [rTy, rSeq_fst, rSeq_snd, rLit_fst, rLit_snd, List.append_assoc]
    have ih := fun l' r' hf' => type_rt v hw.1 d (by omega) l' r' hf'
    have hnc : c = none → NoCpp ((rB0 (rCppOpt c l).2).1 ++ (['<'] ++ ((rB0 (rB0 (rCppOpt c l).2).2).1 ++
        ((rType v (rB0 (rB0 (rCppOpt c l).2).2).2).1 ++ ((rB0 (rType v (rB0 (rB0 (rCppOpt c l).2).2).2).2).1 ++ (['>'] ++ r)))))) := by
      intro _
      exact noCpp_of (rB0_BT _) (by show notBlankStart '<' = true; decide) (cppType_err_hd (by show ('<' != 'c') = true; decide))
    have harm : (andThen (tag cs!"set") fun _ => andThen (opt (skip blank CppType.parse)) fun cpp =>
        andThen (opt blank) fun _ => andThen (tag ['<']) fun _ =>
        andThen (opt blank) fun _ => andThen (typeParse (Ty.parse d)) fun inner => andThen (opt blank) fun _ =>
        andThen (tag ['>']) fun _ => ret (Ty.set inner cpp))
        (cs!"set" ++ ((rCppOpt c l).1 ++ ((rB0 (rCppOpt c l).2).1 ++ (['<'] ++ ((rB0 (rB0 (rCppOpt c l).2).2).1 ++
          ((rType v (rB0 (rB0 (rCppOpt c l).2).2).2).1 ++ ((rB0 (rType v (rB0 (rB0 (rCppOpt c l).2).2).2).2).1 ++ (['>'] ++ r)))))))) =
        .ok (Ty.set v c) r := by
      rw [andThen_of_ok (tag_append _ _), andThen_of_ok (cppOpt_rt hw.2 _ hnc),
        andThen_optBlank (rB0_BT _) (by show notBlankStart '<' = true; decide),
        andThen_of_ok (tag_append _ _), andThen_optBlank (rB0_BT _) (rType_NB hw.1 _ _),
        andThen_of_ok (ih _ _ (show TypeFollow v (_ ++ (['>'] ++ _)) from typeFollow_close v (rB0_BT _) (Or.inl rfl))),
        andThen_optBlank (rB0_BT _) (by show notBlankStart '>' = true; decide),
        andThen_of_ok (tag_append _ _)]
      rfl
    unfold Ty.parse
    rw [alt_cons_of_err (kw_err_of (by simp [stripPrefix])), alt_cons_of_err (kw_err_of (by simp [stripPrefix])),
      alt_cons_of_err (kw_err_of (by simp [stripPrefix])), alt_cons_of_err (kw_err_of (by simp [stripPrefix])),
      alt_cons_of_err (kw_err_of (by simp [stripPrefix])), alt_cons_of_err (kw_err_of (by simp [stripPrefix])),
      alt_cons_of_err (kw_err_of (by simp [stripPrefix])), alt_cons_of_err (kw_err_of (by simp [stripPrefix])),
      alt_cons_of_err (kw_err_of (by simp [stripPrefix])), alt_cons_of_err (kw_err_of (by simp [stripPrefix])),
      alt_cons_of_err (kw_err_of (by simp [stripPrefix])),
      alt_cons_of_err (andThen_of_err (tag_err_of (by simp [stripPrefix])))]
    exact alt_cons_of_ok harm
  | .map k v c, hw, d + 1, hd, l, r, _ => by
    simp only [Ty.wf, Bool.and_eq_true] at hw
    simp only [Ty.depth] at hd
    simp only [rTy, rSeq_fst, rSeq_snd, rLit_fst, rLit_snd, rWith_fst, rWith_snd, List.append_assoc]
    have ihk := fun l' r' hf' => type_rt k hw.1.1 d (by omega) l' r' hf'
    have ihv := fun l' r' hf' => type_rt v hw.1.2 d (by omega) l' r' hf'
    unfold Ty.parse
    rw [alt_cons_of_err (kw_err_of (by simp [stripPrefix])), alt_cons_of_err (kw_err_of (by simp [stripPrefix])),
      alt_cons_of_err (kw_err_of (by simp [stripPrefix])), alt_cons_of_err (kw_err_of (by simp [stripPrefix])),
      alt_cons_of_err (kw_err_of (by simp [stripPrefix])), alt_cons_of_err (kw_err_of (by simp [stripPrefix])),
      alt_cons_of_err (kw_err_of (by simp [stripPrefix])), alt_cons_of_err (kw_err_of (by simp [stripPrefix])),
      alt_cons_of_err (kw_err_of (by simp [stripPrefix])), alt_cons_of_err (kw_err_of (by simp [stripPrefix])),
      alt_cons_of_err (kw_err_of (by simp [stripPrefix])),
      alt_cons_of_err (andThen_of_err (tag_err_of (by simp [stripPrefix]))),
      alt_cons_of_err (andThen_of_err (tag_err_of (by simp [stripPrefix])))]
    apply alt_cons_of_ok
    generalize hsc : (if (rB0 (rType k (rB0 (rB0 (rCppOpt c l).2).2).2).2).2.pop.1.sep % 2 = 0 then ',' else ';') = sc
    have hsc' : sc = ',' ∨ sc = ';' := by rw [← hsc]; split; exact Or.inl rfl; exact Or.inr rfl
    rw [andThen_of_ok (tag_append _ _),
      andThen_of_ok (cppOpt_rt hw.2 _ (fun _ => noCpp_of (rB0_BT _) (by show notBlankStart '<' = true; decide)
        (cppType_err_hd (by show ('<' != 'c') = true; decide)))),
      andThen_optBlank (rB0_BT _) (by show notBlankStart '<' = true; decide),
      andThen_of_ok (tag_append _ _), andThen_optBlank (rB0_BT _) (rType_NB hw.1.1 _ _),
      andThen_of_ok (ihk _ _ (show TypeFollow k (_ ++ ([sc] ++ _)) from typeFollow_close k (rB0_BT _) (Or.inr hsc'))),
      andThen_optBlank (rB0_BT _) (show NB ([sc] ++ _) from sepChar_BT_false hsc' _),
      List.singleton_append,
      andThen_of_ok (listSeparator_ok hsc' (rB0_BT _) (rType_NB hw.1.2 _ _)),
      andThen_of_ok (opt_of_err (blank_err (rType_NB hw.1.2 _ _))),
      andThen_of_ok (ihv _ _ (show TypeFollow v (_ ++ (['>'] ++ _)) from typeFollow_close v (rB0_BT _) (Or.inl rfl))),
      andThen_optBlank (rB0_BT _) (by show notBlankStart '>' = true; decide),
      andThen_of_ok (tag_append _ _)]
    rfl
  | .string, _, d + 1, _, l, r, hf => by
    have hb := boundary_ok (Sep.noAlnumU hf)
    simp [rTy, Ty.parse, alt, keyword, andThen, tag, stripPrefix, PR.bind, hb, ret]
  | .void, _, d + 1, _, l, r, hf => by
    have hb := boundary_ok (Sep.noAlnumU hf)
    simp [rTy, Ty.parse, alt, keyword, andThen, tag, stripPrefix, PR.bind, hb, ret]
  | .byte, _, d + 1, _, l, r, hf => by
    have hb := boundary_ok (Sep.noAlnumU hf)
    simp [rTy, Ty.parse, alt, keyword, andThen, tag, stripPrefix, PR.bind, hb, ret]
  | .bool, _, d + 1, _, l, r, hf => by
    have hb := boundary_ok (Sep.noAlnumU hf)
    simp [rTy, Ty.parse, alt, keyword, andThen, tag, stripPrefix, PR.bind, hb, ret]
  | .binary, _, d + 1, _, l, r, hf => by
    have hb := boundary_ok (Sep.noAlnumU hf)
    simp [rTy, Ty.parse, alt, keyword, andThen, tag, stripPrefix, PR.bind, hb, ret]
  | .i8, _, d + 1, _, l, r, hf => by
    have hb := boundary_ok (Sep.noAlnumU hf)
    simp [rTy, Ty.parse, alt, keyword, andThen, tag, stripPrefix, PR.bind, hb, ret]
  | .i16, _, d + 1, _, l, r, hf => by
    have hb := boundary_ok (Sep.noAlnumU hf)
    simp [rTy, Ty.parse, alt, keyword, andThen, tag, stripPrefix, PR.bind, hb, ret]
  | .i32, _, d + 1, _, l, r, hf => by
    have hb := boundary_ok (Sep.noAlnumU hf)
    simp [rTy, Ty.parse, alt, keyword, andThen, tag, stripPrefix, PR.bind, hb, ret]
  | .i64, _, d + 1, _, l, r, hf => by
    have hb := boundary_ok (Sep.noAlnumU hf)
    simp [rTy, Ty.parse, alt, keyword, andThen, tag, stripPrefix, PR.bind, hb, ret]
  | .double, _, d + 1, _, l, r, hf => by
    have hb := boundary_ok (Sep.noAlnumU hf)
    simp [rTy, Ty.parse, alt, keyword, andThen, tag, stripPrefix, PR.bind, hb, ret]
  | .uuid, _, d + 1, _, l, r, hf => by
    have hb := boundary_ok (Sep.noAlnumU hf)
    simp [rTy, Ty.parse, alt, keyword, andThen, tag, stripPrefix, PR.bind, hb, ret]
theorem type_rt : (t : TypeA) → t.wf = true → (d : Nat) → t.depth < d → (l : Layout) → (r : List Char) → TypeFollow t r →
    typeParse (Ty.parse d) ((rType t l).1 ++ r) = .ok t r
  | .mk t as, hw, d, hd, l, r, hf => by
    simp only [TypeA.wf, Bool.and_eq_true] at hw
    simp only [TypeA.depth] at hd
    exact type_of_ty hw.2 l r (fun r' hf' => ty_rt t hw.1 d hd l r' hf') hf
end

end Pilota.Idl
