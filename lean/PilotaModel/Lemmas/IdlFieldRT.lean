import PilotaModel.Lemmas.IdlField
/-
  C15: `field_rt`.
-/
namespace Pilota.Idl

def Field.depth (f : Field) : Nat := max f.ty.depth (match f.dflt with | none => 0 | some v => v.depth)
def Field.supported (f : Field) : Bool := match f.dflt with | none => true | some v => v.supported

/-- what a field needs of the text after its tail: the next field (a digit) or a closing bracket -/
def FieldFollow (R : List Char) : Prop :=
  NB R ∧ NoSepStart R ∧ hdP (fun c => c != '(') R = true ∧ hdP (fun c => c != '=') R = true ∧
  hdP (fun c => c != '.') R = true

/-- what `opt(Annotations::parse)` returns for a rendered annotation list -/
def annOpt (as : Annotations) : Option Annotations := if as.isEmpty then none else some as

theorem annOpt_getD (as : Annotations) : (annOpt as).getD [] = as := by
  cases as <;> rfl

/-- `opt(blank), opt(Annotations), opt(blank), opt(list_separator)` -/
theorem fieldTail_rt {α} (k : Option Annotations → P α) {as : Annotations} (hw : Annotations.wf as = true)
    (endsOpen last : Bool) (l : Layout) {R : List Char} (hR : FieldFollow R) :
      (andThen (opt blank) fun _ => andThen (opt Annotations.parse) fun anns => andThen (opt blank) fun _ =>
        andThen (opt listSeparator) fun _ => k anns)
        ((rOptAnns as l).1 ++ ((rTail endsOpen last (rOptAnns as l).2).1 ++ R)) = k (annOpt as) R := by
  by_cases has : as = []
  · subst has
    show _ = k none R
    simp only [rOptAnns, List.isEmpty_nil, if_true, rLit_fst, rLit_snd, List.nil_append]
    simp only [rTail, rWith_fst]
    rcases sepChar_cases (l.pop.1.sep) with h | h | h
    · simp only [h, if_true]
      rw [andThen_optBlank (rGap_BT _ _) hR.1, andThen_of_ok (opt_of_err (annotations_err hR.2.2.1)),
        andThen_of_ok (opt_of_err (blank_err hR.1)), andThen_of_ok (listSeparator_none hR.2.1)]
    · simp only [h, List.cons_ne_nil, if_false, rSeq_fst, rLit_fst, List.append_assoc, List.cons_append, List.nil_append]
      rw [andThen_optBlank (rB0_BT _) (sepChar_BT_false (Or.inl rfl) _),
        andThen_of_ok (opt_of_err (annotations_err (by rw [hdP_cons]; decide))),
        andThen_of_ok (opt_of_err (blank_err (sepChar_BT_false (Or.inl rfl) _))),
        andThen_of_ok (listSeparator_some (Or.inl rfl) (rB0_BT _) hR.1)]
    · simp only [h, List.cons_ne_nil, if_false, rSeq_fst, rLit_fst, List.append_assoc, List.cons_append, List.nil_append]
      rw [andThen_optBlank (rB0_BT _) (sepChar_BT_false (Or.inr rfl) _),
        andThen_of_ok (opt_of_err (annotations_err (by rw [hdP_cons]; decide))),
        andThen_of_ok (opt_of_err (blank_err (sepChar_BT_false (Or.inr rfl) _))),
        andThen_of_ok (listSeparator_some (Or.inr rfl) (rB0_BT _) hR.1)]
  · have he : as.isEmpty = false := by cases as; exact absurd rfl has; rfl
    have hao : annOpt as = some as := by simp [annOpt, he]
    rw [hao]
    have hnb : ∀ l' x, NB ((rAnns as l').1 ++ x) := by
      intro l' x
      simp only [rAnns, he, Bool.false_eq_true, if_false, rSeq_fst, rLit_fst, List.append_assoc]
      show notBlankStart '(' = true; decide
    simp only [rOptAnns, he, Bool.false_eq_true, if_false, rSeq_fst, rSeq_snd, List.append_assoc]
    rw [andThen_optBlank (rB0_BT _) (hnb _ _), andThen_of_ok (opt_of_ok (annotations_rt hw has _ _)),
      tail_rt _ _ _ hR.1 hR.2.1]

theorem fieldTail_sep {as : Annotations} (endsOpen last : Bool) (l : Layout) {R : List Char}
    (h : as = [] → ((endsOpen && !last) = true ∨ Sep R)) :
    Sep ((rOptAnns as l).1 ++ ((rTail endsOpen last (rOptAnns as l).2).1 ++ R)) := by
  by_cases has : as = []
  · subst has
    simp only [rOptAnns, List.isEmpty_nil, if_true, rLit_fst, rLit_snd, List.nil_append]
    exact tail_sep endsOpen last l (h rfl)
  · have he : as.isEmpty = false := by cases as; exact absurd rfl has; rfl
    simp only [rOptAnns, rAnns, he, Bool.false_eq_true, if_false, rSeq_fst, rLit_fst, List.append_assoc]
    exact (rB0_BT _).sep_append (Or.inr (by show isSepChar '(' = true; decide))

theorem rAttr_NB (argMode : Bool) (a : Attribute) (l : Layout) {X : List Char} (hX : NB X) : NB ((rAttr argMode a l).1 ++ X) := by
  cases a with
  | optional => simp only [rAttr, rSeq_fst, rLit_fst, List.append_assoc]; rw [NB]; rfl
  | required =>
    simp only [rAttr]
    cases argMode with
    | false => simp only [Bool.false_eq_true, if_false, rSeq_fst, rLit_fst, List.append_assoc]; rw [NB]; rfl
    | true =>
      simp only [if_true, rWith_fst]
      cases l.pop.1.flag with
      | true => simpa using hX
      | false => simp only [Bool.false_eq_true, if_false, rSeq_fst, rLit_fst, List.append_assoc]; rw [NB]; rfl
  | default => simpa [rAttr] using hX

/-! ### requiredness -/

theorem attribute_err_type {t : TypeA} (hw : t.wf = true) (h1 : t.headIs cs!"required" = false)
    (h2 : t.headIs cs!"optional" = false) (l : Layout) (x : List Char)
    (hx : t.endsOpen = true → hdP (fun c => !isIdentChar c) x = true) :
    Attribute.parse ((rType t l).1 ++ x) = .err := by
  obtain ⟨ty, as⟩ := t
  simp only [TypeA.wf, Bool.and_eq_true] at hw
  simp only [rType, rSeq_fst, List.append_assoc]
  unfold Attribute.parse
  cases ty with
  | path p =>
    simp only [Ty.wf, Bool.and_eq_true] at hw
    obtain ⟨s, rest, hs, hhead, e, hrest⟩ := rPath_cons hw.1.1 l
    have hr' : hdP (fun c => !isIdentChar c) (rest ++ ((rOptAnns as (rTy (.path p) l).2).1 ++ x)) = true := by
      apply hrest
      by_cases has : as = []
      · subst has
        simp only [rOptAnns, List.isEmpty_nil, if_true, rLit_fst, List.nil_append]
        exact hx (by simp [TypeA.endsOpen, Ty.endsOpen])
      · have he : as.isEmpty = false := by cases as; exact absurd rfl has; rfl
        simp only [rOptAnns, rAnns, he, Bool.false_eq_true, if_false, rSeq_fst, rLit_fst, List.append_assoc]
        exact ((rB0_BT _).sep_append (Or.inr (by show isSepChar '(' = true; decide))).noIdent
    simp only [TypeA.headIs, decide_eq_false_iff_not] at h1 h2
    simp only [rTy] at hr' ⊢
    rw [e, List.append_assoc]
    rw [alt_cons_of_err (keyword_word_err (by decide) (identOk_all hs) hr' (by rw [← hhead]; exact h1)),
      alt_cons_of_err (keyword_word_err (by decide) (identOk_all hs) hr' (by rw [← hhead]; exact h2))]
    rfl
  | list v c =>
    simp only [rTy, rSeq_fst, rLit_fst, List.append_assoc]
    rw [alt_cons_of_err (kw_err_of (by simp [stripPrefix])), alt_cons_of_err (kw_err_of (by simp [stripPrefix]))]; rfl
  | set v c =>
    simp only [rTy, rSeq_fst, rLit_fst, List.append_assoc]
    rw [alt_cons_of_err (kw_err_of (by simp [stripPrefix])), alt_cons_of_err (kw_err_of (by simp [stripPrefix]))]; rfl
  | map k v c =>
    simp only [rTy, rSeq_fst, rLit_fst, List.append_assoc]
    rw [alt_cons_of_err (kw_err_of (by simp [stripPrefix])), alt_cons_of_err (kw_err_of (by simp [stripPrefix]))]; rfl
  | _ =>
    simp only [rTy, rLit_fst]
    rw [alt_cons_of_err (kw_err_of (by simp [stripPrefix])), alt_cons_of_err (kw_err_of (by simp [stripPrefix]))]; rfl

/-- the attribute read back for a rendered one: `none` when nothing was printed -/
def attrOpt (argMode : Bool) (a : Attribute) (l : Layout) : Option Attribute :=
  match a with
  | .optional => some .optional
  | .required => if argMode && l.pop.1.flag then none else some .required
  | .default => none

theorem attrPart_rt {α} (K : Option Attribute → P α) (argMode : Bool) (a : Attribute) (l : Layout) {X : List Char}
    (hX : NB X) (herr : attrOpt argMode a l = none → Attribute.parse X = .err) :
    (andThen (opt Attribute.parse) fun attr => andThen (opt blank) fun _ => K attr) ((rAttr argMode a l).1 ++ X) =
      K (attrOpt argMode a l) X := by
  have hnone : attrOpt argMode a l = none →
      (andThen (opt Attribute.parse) fun attr => andThen (opt blank) fun _ => K attr) X = K none X := by
    intro h
    rw [andThen_of_ok (opt_of_err (herr h)), andThen_of_ok (opt_of_err (blank_err hX))]
  have hreq : ∀ l', (andThen (opt Attribute.parse) fun attr => andThen (opt blank) fun _ => K attr)
      (cs!"required" ++ ((rB1 l').1 ++ X)) = K (some .required) X := by
    intro l'
    have : Attribute.parse (cs!"required" ++ ((rB1 l').1 ++ X)) = .ok .required ((rB1 l').1 ++ X) := by
      unfold Attribute.parse
      exact alt_cons_of_ok (keyword_rt ((rB1_BT l').sep_append (Or.inl (rB1_ne l'))))
    rw [andThen_of_ok (opt_of_ok this), andThen_optBlank (rB1_BT l') hX]
  cases a with
  | optional =>
    simp only [rAttr, rSeq_fst, rSeq_snd, rLit_fst, rLit_snd, List.append_assoc, attrOpt]
    have : Attribute.parse (cs!"optional" ++ ((rB1 l).1 ++ X)) = .ok .optional ((rB1 l).1 ++ X) := by
      unfold Attribute.parse
      rw [alt_cons_of_err (kw_err_of (by simp [stripPrefix]))]
      exact alt_cons_of_ok (keyword_rt ((rB1_BT l).sep_append (Or.inl (rB1_ne l))))
    rw [andThen_of_ok (opt_of_ok this), andThen_optBlank (rB1_BT l) hX]
  | required =>
    simp only [rAttr, attrOpt]
    cases argMode with
    | false => simp only [Bool.false_eq_true, if_false, rSeq_fst, rSeq_snd, rLit_fst, rLit_snd, List.append_assoc, Bool.false_and]; exact hreq l
    | true =>
      simp only [if_true, rWith_fst, Bool.true_and]
      cases hf : l.pop.1.flag with
      | true => simp only [if_true, rLit_fst, List.nil_append]; exact hnone (by simp [attrOpt, hf])
      | false => simp only [Bool.false_eq_true, if_false, rSeq_fst, rSeq_snd, rLit_fst, rLit_snd, List.append_assoc]; exact hreq _
  | default => simp only [rAttr, rLit_fst, List.nil_append, attrOpt]; exact hnone rfl

/-- the field that `Field::parse` returns for a rendered field: in an argument list an omitted
`required` is read as no requiredness (function.rs turns it back into `required`) -/
def fieldRead (argMode : Bool) (f : Field) (l : Layout) : Field :=
  { f with attr := (attrOpt argMode f.attr ((rB0 (rB0 l).2).2)).getD .default }

theorem fieldId_rt {id : Int} (h0 : 0 ≤ id) (h1 : id ≤ i32Max) {b x : List Char} (hb : BT b) :
    mapRes (andThen digit1 fun id => andThen (opt blank) fun _ => andThen (tag [':']) fun _ => ret id) parseI32Dec
      (decDigits id.toNat ++ (b ++ ([':'] ++ x))) = .ok id x := by
  obtain ⟨hne, hd, _⟩ := decDigits_spec id.toNat
  have hfol : hdP (fun c => !isDecDigit c) (b ++ ([':'] ++ x)) = true :=
    (hb.sep_append (Or.inr (by show isSepChar ':' = true; decide))).noDigit
  have : (andThen digit1 fun id => andThen (opt blank) fun _ => andThen (tag [':']) fun _ => ret id)
      (decDigits id.toNat ++ (b ++ ([':'] ++ x))) = .ok (decDigits id.toNat) x := by
    rw [andThen_of_ok (digit1_rt hne hd hfol), andThen_optBlank hb (by show notBlankStart ':' = true; decide),
      andThen_of_ok (tag_append _ _)]
    rfl
  unfold mapRes
  rw [this]
  simp only [PR.bind, fieldId_digits h0 h1]

theorem fieldFollow_props {R : List Char} (h : FieldFollow R) :
    SplitNot '=' R ∧ SplitNot '.' R := ⟨splitNot_of h.1 h.2.2.2.1, splitNot_of h.1 h.2.2.2.2⟩

set_option maxHeartbeats 800000 in
/-- `field_rt` -/
theorem field_step {d : Nat} {f : Field} (hw : f.wf = true) (hsup : f.supported = true) (hd : f.depth < d)
    (argMode : Bool) (last : Bool) (l : Layout)
    (hhead : attrOpt argMode f.attr ((rB0 (rB0 l).2).2) = none →
      f.ty.headIs cs!"required" = false ∧ f.ty.headIs cs!"optional" = false)
    {bl R : List Char} (hbl : BT bl) (hR : FieldFollow R) (hlast : last = true → Sep R) :
    skip (opt blank) (Field.parse d) (bl ++ ((rField argMode f last l).1 ++ R)) = .ok (fieldRead argMode f l) R := by
  obtain ⟨id, name, attr, ty, dflt, anns⟩ := f
  simp only [Field.wf, Bool.and_eq_true, decide_eq_true_eq] at hw
  obtain ⟨⟨⟨⟨⟨⟨⟨h0, h1⟩, hname⟩, hty⟩, hdf⟩, han⟩, hcpp⟩, _⟩ := hw
  simp only [Field.depth] at hd
  simp only [Field.supported] at hsup
  simp only [rField, Field.endsOpen, rSeq_fst, rSeq_snd, rLit_fst, rLit_snd, List.append_assoc]
  have hsepTail : ∀ (o : Bool) l1, o = true → Sep ((rOptAnns anns l1).1 ++ ((rTail (anns.isEmpty && o) last (rOptAnns anns l1).2).1 ++ R)) := by
    intro o l1 ho
    apply fieldTail_sep
    intro has
    cases last with
    | true => exact Or.inr (hlast rfl)
    | false => subst has; left; simp [ho]
  have hps : ∀ (o : Bool) l1, PathStop ((rOptAnns anns l1).1 ++ ((rTail o last (rOptAnns anns l1).2).1 ++ R)) :=
    fun o l1 => pathStop_of_split (fieldTail_splitNot (by decide) _ _ _ hR.1 hR.2.2.2.2)
  have hdig : ∀ x, NB (decDigits id.toNat ++ x) := by
    intro x
    obtain ⟨c0, cs, e, hc⟩ := decDigits_head id.toNat
    rw [e]; show notBlankStart c0 = true
    cases hb : notBlankStart c0 with
    | true => rfl
    | false => rcases blankStart_cases hb with h | h | h | h | h | h <;> subst h <;> revert hc <;> decide
  have hgap : ∀ l1, (rGap ty.endsOpen l1).1 ≠ [] ∨ ty.endsOpen = false := by
    intro l1
    cases ho : ty.endsOpen with
    | true => exact Or.inl (rGap_ne rfl _)
    | false => exact Or.inr rfl
  rw [skip_of_ok (optBlank_rt hbl (hdig _))]
  unfold Field.parse Type.parse
  cases dflt with
  | none =>
    simp only [rLit_fst, rLit_snd, List.nil_append, Bool.and_true]
    have hX : ∀ l1, hdP (fun c => !isIdentChar c) ((rOptAnns anns l1).1 ++ ((rTail (anns.isEmpty) last (rOptAnns anns l1).2).1 ++ R)) = true := by
      intro l1
      have := hsepTail true l1 rfl
      simp only [Bool.and_true] at this
      exact this.noIdent
    obtain ⟨B, T0, hT, hB, hT0, hne⟩ := fieldTail_splitNot (c := '=') (as := anns) (by decide) anns.isEmpty last
      (rGap ty.endsOpen (rType ty (rAttr argMode attr (rB0 (rB0 l).2).2).2).2).2 hR.1 hR.2.2.2.1
    rw [andThen_of_ok (fieldId_rt h0 h1 (rB0_BT _)),
      andThen_optBlank (rB0_BT _) (rAttr_NB _ _ _ (rType_NB hty _ _)),
      attrPart_rt _ argMode attr _ (rType_NB hty _ _) (fun hn => attribute_err_type hty (hhead hn).1 (hhead hn).2 _ _
        (fun ho => by
          rcases hgap (rType ty (rAttr argMode attr (rB0 (rB0 l).2).2).2).2 with h | h
          · exact ((rGap_BT _ _).sep_append (Or.inl h)).noIdent
          · rw [ho] at h; cases h)),
      andThen_of_ok (type_rt ty hty d (by omega) _ _ (typeFollow_name ty (rGap_BT _ _) (hgap _) hname hcpp (hX _))),
      andThen_optBlank (rGap_BT _ _) (ident_NB hname), andThen_of_ok (ident_rt hname (hX _)),
      hT, optFail_collapse hB hT0 (andThen_of_err (tag_hd hne)), ← hT, fieldTail_rt _ han _ _ _ hR]
    simp only [ret_apply, fieldRead, annOpt_getD]
  | some v =>
    simp only [rSeq_fst, rSeq_snd, rLit_fst, rLit_snd, List.append_assoc]
    have hd : max ty.depth v.depth < d := hd
    have hnbv : ∀ l' y, NB ((rConst v l').1 ++ y) := fun l' y =>
      hdP_mono (fun _ hc => (constStart_props hc).1) (rConst_start hdf hsup l' y).1
    have hX : ∀ (b x : List Char), BT b → hdP (fun c => !isIdentChar c) (b ++ (['='] ++ x)) = true :=
      fun b x hb => (hb.sep_append (Or.inr (by show isSepChar '=' = true; decide))).noIdent
    have hcf : ∀ l1, ConstFollow v ((rOptAnns anns l1).1 ++ ((rTail (anns.isEmpty && v.endsOpen) last (rOptAnns anns l1).2).1 ++ R)) :=
      fun l1 => constFollow_general (hsepTail v.endsOpen l1) (hps _ l1)
    have hdv : ∀ (b : List Char) l1 l2, BT b →
        (andThen (tag ['=']) fun _ => andThen (opt blank) fun _ => ConstValue.parse d)
          (['='] ++ (b ++ ((rConst v l1).1 ++ ((rOptAnns anns l2).1 ++ ((rTail (anns.isEmpty && v.endsOpen) last (rOptAnns anns l2).2).1 ++ R))))) =
        .ok v ((rOptAnns anns l2).1 ++ ((rTail (anns.isEmpty && v.endsOpen) last (rOptAnns anns l2).2).1 ++ R)) := by
      intro b l1 l2 hb
      rw [andThen_of_ok (tag_append _ _), andThen_optBlank hb (hnbv _ _)]
      exact const_rt v hdf hsup d (by omega) _ _ (hcf _)
    rw [andThen_of_ok (fieldId_rt h0 h1 (rB0_BT _)),
      andThen_optBlank (rB0_BT _) (rAttr_NB _ _ _ (rType_NB hty _ _)),
      attrPart_rt _ argMode attr _ (rType_NB hty _ _) (fun hn => attribute_err_type hty (hhead hn).1 (hhead hn).2 _ _
        (fun ho => by
          rcases hgap (rType ty (rAttr argMode attr (rB0 (rB0 l).2).2).2).2 with h | h
          · exact ((rGap_BT _ _).sep_append (Or.inl h)).noIdent
          · rw [ho] at h; cases h)),
      andThen_of_ok (type_rt ty hty d (by omega) _ _ (typeFollow_name ty (rGap_BT _ _) (hgap _) hname hcpp (hX _ _ (rB0_BT _)))),
      andThen_optBlank (rGap_BT _ _) (ident_NB hname), andThen_of_ok (ident_rt hname (hX _ _ (rB0_BT _))),
      andThen_optBlank (rB0_BT _) (by show notBlankStart '=' = true; decide),
      andThen_of_ok (opt_of_ok (hdv _ _ _ (rB0_BT _))),
      fieldTail_rt _ han _ _ _ hR]
    simp only [ret_apply, fieldRead, annOpt_getD]

end Pilota.Idl
