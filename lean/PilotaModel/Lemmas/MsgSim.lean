import PilotaModel.Lemmas.UnsafeR
import PilotaModel.Lemmas.AsyncCmp
import PilotaModel.Thrift.Msg
/-  `read_message_begin`: the unchecked reader and the async readers against the in-memory readers. -/
namespace Pilota.Thrift

namespace Unsafe
open Pilota Pilota.Thrift

/-- whenever the checked `read_message_begin` accepts, the unchecked one returns the same header, stays
inside the buffer, consumes the same bytes and leaves `index = 0` (it ends with `advance(index)`). -/
theorem readMessageBegin_sim (s : UR) (hv : s.valid) (x : Bytes × Nat × Int) (r : Bytes)
    (h : Msg.readBeginBin .be s.rest = .ok (x, r)) :
    ∃ s', readMessageBegin s = .ok (x, s') ∧ Good s r s' ∧ s'.idx = 0 := by
  unfold Msg.readBeginBin at h
  cases h1 : Binary.readI .be 4 s.rest with
  | ok p =>
    obtain ⟨size, r1⟩ := p
    simp only [h1] at h
    obtain ⟨s1, e1, g1⟩ := readI_sim s hv 4 size r1 h1
    by_cases hp : size > 0
    · rw [if_pos hp] at h; cases h
    · rw [if_neg hp] at h
      by_cases ht : toU 4 size % 16 < 1 ∨ 4 < toU 4 size % 16
      · rw [if_pos ht] at h; cases h
      · rw [if_neg ht] at h
        by_cases hver : toU 4 size / 65536 * 65536 ≠ Msg.version .be
        · rw [if_pos hver] at h; cases h
        · rw [if_neg hver] at h
          cases h2 : Binary.readBytes .be r1 with
          | ok q =>
            obtain ⟨name, r2⟩ := q
            simp only [h2] at h
            obtain ⟨s2, e2, g2⟩ := readBytes_sim s1 g1.valid name r2 (by rw [g1.rest]; exact h2)
            cases h3 : Binary.readI .be 4 r2 with
            | ok q3 =>
              obtain ⟨seq, r3⟩ := q3
              simp only [h3, Out.ok.injEq, Prod.mk.injEq] at h
              obtain ⟨rfl, rfl⟩ := h
              obtain ⟨s3, e3, g3⟩ := readI_sim s2 g2.valid 4 seq r3 (by rw [g2.rest]; exact h3)
              obtain ⟨s4, e4, hb4, hi4, ha4⟩ := advance_all s3 g3.valid
              have hb4' : s4.bs = r3 := hb4.trans g3.rest
              have hver' : ¬ (toU 4 size / 65536 * 65536 ≠ 0x80010000) := hver
              refine ⟨s4, ?_, ⟨?_, ?_, ?_⟩, hi4⟩
              · simp only [readMessageBegin, e1]
                rw [if_neg hp, if_neg ht, if_neg hver']
                simp only [e2, e3, e4]
              · simp only [UR.rest, hi4, hb4', List.drop_zero]
              · simp [UR.valid, hi4]
              · have a1 := g1.pos; have a2 := g2.pos; have a3 := g3.pos
                rw [g1.rest] at a2; rw [g2.rest] at a3
                simp only [UR.pos, hi4, ha4] at a1 a2 a3 ⊢
                omega
            | err k => simp [h3] at h
            | panic m => simp [h3] at h
            | fuel => simp [h3] at h
          | err k => simp [h2] at h
          | panic m => simp [h2] at h
          | fuel => simp [h2] at h
  | err k => simp [h1] at h
  | panic m => simp [h1] at h
  | fuel => simp [h1] at h

end Unsafe

namespace Async
open Pilota Pilota.Thrift

/-- binary / little-endian binary: the async and the in-memory `read_message_begin` accept the same
inputs with the same header and rest. -/
theorem ABin.readMessageBegin_iff (e : Endian) (bs : Bytes) (hb : bs.length < 2 ^ 63) (q : (Bytes × Nat × Int) × Bytes) :
    runF (ABin.readMessageBegin e) bs = .ok q ↔ Msg.readBeginBin e bs = .ok q := by
  have hv : ABin.version e = Msg.version e := by cases e <;> rfl
  simp only [ABin.readMessageBegin, runF_bind, ABin.runF_readI, Msg.readBeginBin, bindP, hv]
  cases h1 : Binary.readI e 4 bs with
  | ok p =>
    obtain ⟨size, r1⟩ := p
    simp only
    have hr1 := ABin.readI_le e 4 bs size r1 h1
    by_cases hp : size > 0
    · simp only [if_pos hp]; simp
    · simp only [if_neg hp]
      by_cases ht : toU 4 size % 16 < 1 ∨ 4 < toU 4 size % 16
      · simp only [if_pos ht]; simp
      · simp only [if_neg ht]
        by_cases hver : toU 4 size / 65536 * 65536 ≠ Msg.version e
        · simp only [if_pos hver]; simp
        · simp only [if_neg hver, runF_bind, bindP]
          cases h2 : Binary.readBytes e r1 with
          | ok q2 =>
            obtain ⟨name, r2⟩ := q2
            rw [(ABin.readBytes_iff e r1 (by omega) (name, r2)).mpr h2]
            simp only [ABin.runF_readI]
            cases Binary.readI e 4 r2 with
            | ok q3 => simp
            | err k => simp
            | panic m => simp
            | fuel => simp
          | err k =>
            cases h2' : runF (ABin.readBytes e) r1 with
            | ok q2 => rw [(ABin.readBytes_iff e r1 (by omega) q2).mp h2'] at h2; cases h2
            | err k' => simp
            | panic m => simp
            | fuel => simp
          | panic m =>
            cases h2' : runF (ABin.readBytes e) r1 with
            | ok q2 => rw [(ABin.readBytes_iff e r1 (by omega) q2).mp h2'] at h2; cases h2
            | err k' => simp
            | panic m => simp
            | fuel => simp
          | fuel =>
            cases h2' : runF (ABin.readBytes e) r1 with
            | ok q2 => rw [(ABin.readBytes_iff e r1 (by omega) q2).mp h2'] at h2; cases h2
            | err k' => simp
            | panic m => simp
            | fuel => simp
  | err k => simp
  | panic m => simp
  | fuel => simp

/-- compact: likewise (the two readers differ only in the error KIND for a wrong protocol id / version). -/
theorem ACmp.readMessageBegin_iff (bs : Bytes) (q : (Bytes × Nat × Int) × Bytes) :
    runF ACmp.readMessageBegin bs = .ok q ↔ Msg.readBeginCmp bs = .ok q := by
  simp only [ACmp.readMessageBegin, runF_bind, ACmp.runF_readByte, Msg.readBeginCmp, bindP]
  cases h1 : Compact.readByte bs with
  | ok p =>
    obtain ⟨pid, r1⟩ := p
    simp only
    by_cases hp : pid ≠ 0x82
    · simp only [if_pos hp]; simp
    · simp only [if_neg hp, runF_bind, ACmp.runF_readByte, bindP]
      cases h2 : Compact.readByte r1 with
      | ok p2 =>
        obtain ⟨tv, r2⟩ := p2
        simp only
        by_cases hv : tv % 32 ≠ 1
        · simp only [if_pos hv]; simp
        · simp only [if_neg hv]
          by_cases ht : tv / 32 < 1 ∨ 4 < tv / 32
          · simp only [if_pos ht]; simp
          · simp only [if_neg ht, runF_bind, ACmp.runF_readVarU, ACmp.runF_readBytes, bindP]
            cases Pilota.readVarU 4 r2 with
            | ok p3 =>
              obtain ⟨sq, r3⟩ := p3
              simp only
              cases Compact.readBytes r3 with
              | ok p4 => simp
              | err k => simp
              | panic m => simp
              | fuel => simp
            | err k => simp
            | panic m => simp
            | fuel => simp
      | err k => simp
      | panic m => simp
      | fuel => simp
  | err k => simp
  | panic m => simp
  | fuel => simp

end Async
end Pilota.Thrift
