import PilotaModel.Lemmas.SpecCmp
/-  Compact protocol: canonical encoder ∈ relation = pilota's writer; pilota's reader reads every member. -/
namespace Pilota.Thrift.SpecCmp
open Pilota Pilota.Thrift Pilota.Thrift.Spec Pilota.Thrift.Compact

theorem hdr_is (m : Nat) (hm : m ≤ 15) (last : Int) (c : Nat) (id : Int) : Hdr last c id (hdr m last c id) := by
  unfold hdr
  simp only
  split
  · rename_i h
    exact Hdr.short (id - last).toNat (by omega) (by omega) (by omega)
  · exact Hdr.long

theorem collHdr_is (c n : Nat) : CollHdr c n (collHdr c n) := by
  unfold collHdr
  split
  · rename_i h; exact CollHdr.short h
  · rename_i h; exact CollHdr.long (by omega)

/-! ### the canonical encoders are in the relation -/
mutual
theorem encode_is_spec (m : Nat) (hm : m ≤ 15) (v : TVal) (hw : v.wt = true) : Enc v (encode m v) := by
  cases v with
  | bool b => cases b <;> simp only [encode] <;> first | exact Enc.boolF | exact Enc.boolT
  | i8 n => simp [TVal.wt] at hw; exact Enc.i8 n hw
  | i16 n => simp [TVal.wt] at hw; exact Enc.i16 n hw
  | i32 n => simp [TVal.wt] at hw; exact Enc.i32 n hw
  | i64 n => simp [TVal.wt] at hw; exact Enc.i64 n hw
  | dbl b => simp [TVal.wt] at hw; exact Enc.dbl b hw
  | bin bs => simp [TVal.wt] at hw; exact Enc.bin bs hw
  | uuid bs => simp [TVal.wt] at hw; exact Enc.uuid bs hw
  | struct fs => simp [TVal.wt] at hw; exact Enc.struct fs _ (encodeFields_is_spec m hm 0 fs hw)
  | list et xs =>
    simp [TVal.wt] at hw
    obtain ⟨⟨he, hl⟩, hx⟩ := hw
    exact Enc.list et _ xs _ _ (elemNibble_ok et he).1 hl (collHdr_is _ _) (encodeVals_is_spec m hm et xs hx)
  | set et xs =>
    simp [TVal.wt] at hw
    obtain ⟨⟨he, hl⟩, hx⟩ := hw
    exact Enc.set et _ xs _ _ (elemNibble_ok et he).1 hl (collHdr_is _ _) (encodeVals_is_spec m hm et xs hx)
  | map kt vt kvs =>
    simp [TVal.wt] at hw
    obtain ⟨⟨⟨hk, hv⟩, hl⟩, hx⟩ := hw
    cases kvs with
    | nil => exact Enc.mapEmpty kt vt hk hv
    | cons k v r =>
      exact Enc.map kt vt _ _ k v r _ (elemNibble_ok kt hk).1 (elemNibble_ok vt hv).1 hl (encodePairs_is_spec m hm kt vt _ hx)
theorem encodeVals_is_spec (m : Nat) (hm : m ≤ 15) (et : TType) (xs : TVals) (hw : xs.wt et = true) : EncVals et xs (encodeVals m xs) := by
  cases xs with
  | nil => exact EncVals.nil et
  | cons v vs =>
    simp [TVals.wt] at hw
    exact EncVals.cons et v vs _ _ hw.1.1 (encode_is_spec m hm v hw.1.2) (encodeVals_is_spec m hm et vs hw.2)
theorem encodeFields_is_spec (m : Nat) (hm : m ≤ 15) (last : Int) (fs : TFields) (hw : fs.wt = true) :
    EncFields last fs (encodeFields m last fs) := by
  cases fs with
  | nil => exact EncFields.nil last
  | cons id v rest =>
    simp [TFields.wt] at hw
    by_cases hb : ∃ b, v = .bool b
    · obtain ⟨b, rfl⟩ := hb
      exact EncFields.bool last id b rest _ _ hw.1.1 (hdr_is m hm _ _ _) (encodeFields_is_spec m hm id rest hw.2)
    · have hb' : ∀ b, v ≠ .bool b := fun b h => hb ⟨b, h⟩
      obtain ⟨c, hc⟩ := cmpCode_of_value v hb'
      have henc : encodeFields m last (.cons id v rest) = hdr m last c id ++ (encode m v ++ encodeFields m id rest) := by
        cases v <;> first | (exfalso; exact hb ⟨_, rfl⟩) | (simp only [encodeFields, TVal.ttype, cmpCode] at hc ⊢; simp at hc; subst hc; rfl)
      rw [henc]
      exact EncFields.cons last id v rest c _ _ _ hw.1.1 hc (hdr_is m hm _ _ _) (encode_is_spec m hm v hw.1.2)
        (encodeFields_is_spec m hm id rest hw.2)
theorem encodePairs_is_spec (m : Nat) (hm : m ≤ 15) (kt vt : TType) (kvs : TPairs) (hw : kvs.wt kt vt = true) :
    EncPairs kt vt kvs (encodePairs m kvs) := by
  cases kvs with
  | nil => exact EncPairs.nil kt vt
  | cons k v rest =>
    simp [TPairs.wt] at hw
    exact EncPairs.cons kt vt k v rest _ _ _ hw.1.1.1.1 hw.1.1.1.2 (encode_is_spec m hm k hw.1.1.2) (encode_is_spec m hm v hw.1.2)
      (encodePairs_is_spec m hm kt vt rest hw.2)
end

/-! ### pilota's compact writer = the canonical encoder with short headers up to delta 14 -/

theorem fieldHeader_eq (last : Int) (c : Nat) (id : Int) : fieldHeader last c id = hdr 14 last c id := by
  unfold fieldHeader hdr
  simp only
  split <;> split <;> first | rfl | (exfalso; omega)

theorem collHeader_eq (c n : Nat) (hn : n < 2 ^ 31) : collHeader c n = collHdr c n := by
  unfold collHeader collHdr
  have e31 : (2:Nat)^31 = 2147483648 := by decide
  have e32 : (2:Nat)^32 = 4294967296 := by decide
  have : n % 2 ^ 32 = n := by rw [e32]; rw [e31] at hn; omega
  rw [this]

theorem len_mod (n : Nat) (hn : n < 2 ^ 31) : n % 2 ^ 32 = n := by
  have e31 : (2:Nat)^31 = 2147483648 := by decide
  have e32 : (2:Nat)^32 = 4294967296 := by decide
  rw [e32]; rw [e31] at hn; omega

mutual
theorem enc_eq_encode (v : TVal) (hw : v.wt = true) : Compact.enc v = encode 14 v := by
  cases v with
  | bool b => cases b <;> rfl
  | i8 n => simp [TVal.wt] at hw; simp [Compact.enc, encode, be_twos 1 n hw]
  | i16 n => rfl
  | i32 n => rfl
  | i64 n => rfl
  | dbl b => simp [Compact.enc, encode, le_dbl]
  | bin bs => simp [TVal.wt] at hw; simp [Compact.enc, encode, len_mod _ hw]
  | uuid bs => rfl
  | struct fs => simp [TVal.wt] at hw; simp [Compact.enc, encode, encFields_eq 0 fs hw]
  | list et xs =>
    simp [TVal.wt] at hw
    simp [Compact.enc, encode, (elemNibble_ok et hw.1.1).2, collHeader_eq _ _ hw.1.2, encVals_eq et xs hw.2]
  | set et xs =>
    simp [TVal.wt] at hw
    simp [Compact.enc, encode, (elemNibble_ok et hw.1.1).2, collHeader_eq _ _ hw.1.2, encVals_eq et xs hw.2]
  | map kt vt kvs =>
    simp [TVal.wt] at hw
    cases kvs with
    | nil => simp [Compact.enc, encode, TPairs.length]
    | cons k v r =>
      have hne : (TPairs.cons k v r).length ≠ 0 := by simp [TPairs.length]
      simp [Compact.enc, encode, hne, (elemNibble_ok kt hw.1.1.1).2, (elemNibble_ok vt hw.1.1.2).2, len_mod _ hw.1.2,
        encPairs_eq kt vt _ hw.2]
theorem encVals_eq (et : TType) (xs : TVals) (hw : xs.wt et = true) : Compact.encVals xs = encodeVals 14 xs := by
  cases xs with
  | nil => rfl
  | cons v vs => simp [TVals.wt] at hw; simp [Compact.encVals, encodeVals, enc_eq_encode v hw.1.2, encVals_eq et vs hw.2]
theorem encFields_eq (last : Int) (fs : TFields) (hw : fs.wt = true) : Compact.encFields last fs = encodeFields 14 last fs := by
  cases fs with
  | nil => rfl
  | cons id v rest =>
    simp [TFields.wt] at hw
    by_cases hb : ∃ b, v = .bool b
    · obtain ⟨b, rfl⟩ := hb
      cases b <;> simp [Compact.encFields, encodeFields, fieldHeader_eq, boolByte, encFields_eq id rest hw.2]
    · have hb' : ∀ b, v ≠ .bool b := fun b h => hb ⟨b, h⟩
      obtain ⟨c, hc⟩ := cmpCode_of_value v hb'
      have hco := (cmpCode_facts v.ttype c hc).2.2.2.2.2.1
      cases v <;> first | (exfalso; exact hb ⟨_, rfl⟩) |
        simp [Compact.encFields, encodeFields, fieldHeader_eq, hc, hco, enc_eq_encode _ hw.1.2, encFields_eq id rest hw.2]
theorem encPairs_eq (kt vt : TType) (kvs : TPairs) (hw : kvs.wt kt vt = true) : Compact.encPairs kvs = encodePairs 14 kvs := by
  cases kvs with
  | nil => rfl
  | cons k v rest =>
    simp [TPairs.wt] at hw
    simp [Compact.encPairs, encodePairs, enc_eq_encode k hw.1.1.2, enc_eq_encode v hw.1.2, encPairs_eq kt vt rest hw.2]
end


/-! ### pilota's compact reader reads every legal encoding -/
mutual
theorem readVal_of_enc (v : TVal) (bs : Bytes) (h : Enc v bs) (f : Nat) (hf : v.size ≤ f) (s : CR) (hs : s.pendingBool = none)
    (r : Bytes) : Compact.readVal f v.ttype s (bs ++ r) = .ok (norm v, s, r) := by
  cases f with
  | zero => cases v <;> simp [TVal.size] at hf
  | succ f =>
    cases h with
    | boolT => simp [TVal.ttype, Compact.readVal, readBool, hs, Compact.readByte, Binary.readByte, norm]
    | boolF => simp [TVal.ttype, Compact.readVal, readBool, hs, Compact.readByte, Binary.readByte, norm]
    | i8 n hn => simp [TVal.ttype, Compact.readVal, be_twos 1 n hn, Binary.readI_i .be 1 (by decide) n hn, norm]
    | i16 n hn => simp [TVal.ttype, Compact.readVal, readVarS_zigzag 2 (Or.inl rfl) n hn, norm]
    | i32 n hn => simp [TVal.ttype, Compact.readVal, readVarS_zigzag 4 (Or.inr (Or.inl rfl)) n hn, norm]
    | i64 n hn => simp [TVal.ttype, Compact.readVal, readVarS_zigzag 8 (Or.inr (Or.inr rfl)) n hn, norm]
    | dbl b hb =>
      have : b % 256 ^ 8 = b := Nat.mod_eq_of_lt (by have : (256:Nat)^8 = 2^64 := by decide
                                                     omega)
      simp [TVal.ttype, Compact.readVal, le_dbl, Binary.readU_enc, this, norm]
    | bin p hp => simp [TVal.ttype, Compact.readVal, readBytes_of p r hp, List.append_assoc, norm]
    | uuid p hp => simp [TVal.ttype, Compact.readVal, Binary.takeN_append' 16 _ r hp, norm]
    | struct fs bs hfs =>
      simp [TVal.size] at hf
      simp only [TVal.ttype, Compact.readVal, norm]
      have h := readFields_of_enc 0 fs bs hfs f hf (readStructBegin s) rfl (by simp [readStructBegin, hs]) r
      simp only [readStructBegin] at h ⊢
      rw [h]
      cases s; simp [readStructEnd]
    | list et c xs hd b hc hl hh hx =>
      simp [TVal.size] at hf
      have hlen := (encVals_size et xs b hx).2
      simp only [TVal.ttype, Compact.readVal, List.append_assoc, norm]
      rw [readCollBegin_of_hdr et c _ hc hl hd hh _ (by simp only [List.length_append]; omega)]
      simp [readN_of_enc et xs b hx f hf s hs r]
    | set et c xs hd b hc hl hh hx =>
      simp [TVal.size] at hf
      have hlen := (encVals_size et xs b hx).2
      simp only [TVal.ttype, Compact.readVal, List.append_assoc, norm]
      rw [readCollBegin_of_hdr et c _ hc hl hd hh _ (by simp only [List.length_append]; omega)]
      simp [readN_of_enc et xs b hx f hf s hs r]
    | mapEmpty kt vt hk hv =>
      simp only [TVal.ttype, Compact.readVal, List.cons_append, List.nil_append, norm]
      rw [readMapBegin_empty]
      cases f <;> simp [readPairs, TPairs.size, TVal.size] at hf ⊢
    | map kt vt ck cv k v rest b hk hv hl hx =>
      simp [TVal.size] at hf
      have hlen := (encPairs_size kt vt _ b hx).2
      have hne : (TPairs.cons k v rest).length ≠ 0 := by simp [TPairs.length]
      simp only [TVal.ttype, Compact.readVal, List.append_assoc, List.cons_append, norm]
      rw [readMapBegin_of kt vt ck cv hk hv _ hne hl _ (by simp only [List.length_append]; omega)]
      simp [readPairs_of_enc kt vt _ b hx f hf s hs r]
theorem readFields_of_enc (last : Int) (fs : TFields) (bs : Bytes) (h : EncFields last fs bs) (f : Nat) (hf : fs.size ≤ f) (s : CR)
    (hl : s.last = last) (hs : s.pendingBool = none) (r : Bytes) :
    Compact.readFields f s (bs ++ r) = .ok (normFields fs, { s with last := lastOf s.last fs }, r) := by
  cases f with
  | zero => cases fs <;> simp [TFields.size] at hf
  | succ f =>
    cases h with
    | nil =>
      simp only [List.cons_append, List.nil_append, Compact.readFields, readFieldBegin_stop, normFields, lastOf]
      simp
    | bool _ id b rest hd bs hid hh hr =>
      simp [TFields.size] at hf
      subst hl
      simp only [List.append_assoc, Compact.readFields]
      have hct : ttypeOfCompact (if b then 1 else 2) = some .bool := by cases b <;> rfl
      rw [readFieldBegin_of_hdr s (if b then 1 else 2) .bool (by cases b <;> decide) hct id hid hd hh]
      simp only [show (TType.bool = TType.stop) = False by simp, if_false]
      cases f with
      | zero => simp [TVal.size] at hf
      | succ f =>
        have hpb : (if (if b then 1 else 2) = 1 then some true else if (if b then 1 else 2) = 2 then some false else s.pendingBool) = some b := by
          cases b <;> simp
        simp only [Compact.readVal, readBool, hpb]
        have := readFields_of_enc id rest bs hr (f+1) (by simp [TVal.size] at hf; omega)
          { s with last := id, pendingBool := none } rfl rfl r
        simp only at this
        rw [this]
        simp [normFields, norm, lastOf, hs]
    | cons _ id v rest c hd a bs hid hc hh hv hr =>
      simp [TFields.size] at hf
      subst hl
      obtain ⟨c4, c2, c3, hnb, hns, _, _⟩ := cmpCode_facts v.ttype c hc
      simp only [List.append_assoc, Compact.readFields]
      rw [readFieldBegin_of_hdr s c v.ttype ⟨by omega, c3⟩ c4 id hid hd hh]
      have n1 : c ≠ 1 := by omega
      have n2 : c ≠ 2 := by omega
      simp only [hns, if_false, n1, n2]
      rw [readVal_of_enc v a hv f (by omega) _ (by simpa using hs)]
      dsimp only
      have := readFields_of_enc id rest bs hr f (by omega) { s with last := id } rfl (by simpa using hs) r
      simp only at this
      rw [this]
      simp [normFields, lastOf]
theorem readN_of_enc (et : TType) (xs : TVals) (bs : Bytes) (h : EncVals et xs bs) (f : Nat) (hf : xs.size ≤ f) (s : CR)
    (hs : s.pendingBool = none) (r : Bytes) : Compact.readN f et xs.length s (bs ++ r) = .ok (normVals xs, s, r) := by
  cases f with
  | zero => cases xs <;> simp [TVals.size] at hf
  | succ f =>
    cases h with
    | nil => simp [Compact.readN, TVals.length, normVals]
    | cons _ v vs a b ht hv hr =>
      simp [TVals.size] at hf
      simp only [TVals.length, Compact.readN, List.append_assoc, normVals]
      rw [← ht, readVal_of_enc v a hv f (by omega) s hs]; dsimp only
      rw [ht, readN_of_enc et vs b hr f (by omega) s hs]
theorem readPairs_of_enc (kt vt : TType) (kvs : TPairs) (bs : Bytes) (h : EncPairs kt vt kvs bs) (f : Nat) (hf : kvs.size ≤ f) (s : CR)
    (hs : s.pendingBool = none) (r : Bytes) : Compact.readPairs f kt vt kvs.length s (bs ++ r) = .ok (normPairs kvs, s, r) := by
  cases f with
  | zero => cases kvs <;> simp [TPairs.size] at hf
  | succ f =>
    cases h with
    | nil => simp [Compact.readPairs, TPairs.length, normPairs]
    | cons _ _ k v rest a b c hk hv ek ev hr =>
      simp [TPairs.size] at hf
      simp only [TPairs.length, Compact.readPairs, List.append_assoc, normPairs]
      rw [← hk, readVal_of_enc k a ek f (by omega) s hs]; dsimp only
      rw [← hv, readVal_of_enc v b ev f (by omega) s hs]; dsimp only
      rw [hk, hv, readPairs_of_enc kt vt rest c hr f (by omega) s hs]
end

end Pilota.Thrift.SpecCmp
