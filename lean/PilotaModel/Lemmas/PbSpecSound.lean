import PilotaModel.Lemmas.PbReads2
/-
  The executable checker is sound: `Spec.check ps i m bs = true → Spec.Enc ps i m bs`.
-/
namespace Pilota.Proto.Spec
open Pilota Pilota.Proto

theorem readVar_lt : ∀ (k sh acc : Nat) (bs : Bytes) (v : Nat) (r : Bytes), readVar k sh acc bs = some (v, r) → v < 2 ^ 64
  | 0, _, _, _, _, _, h => by simp [readVar] at h
  | _ + 1, _, _, [], _, _, h => by simp [readVar] at h
  | k + 1, sh, acc, b :: bs, v, r, h => by
    simp only [readVar] at h
    split at h
    · split at h
      · rename_i hlt; cases h; exact hlt
      · cases h
    · exact readVar_lt k _ _ bs v r h

theorem readCanon_sound (bs : Bytes) (n : Nat) (r : Bytes) (h : readCanon bs = some (n, r)) : bs = base128 n ++ r ∧ n < 2 ^ 64 := by
  unfold readCanon at h
  cases hv : readVarint bs with
  | none => simp [hv] at h
  | some p =>
    obtain ⟨n', r'⟩ := p
    simp only [hv] at h
    split at h
    · rename_i he
      cases h
      exact ⟨he, readVar_lt 10 0 0 bs _ _ hv⟩
    · cases h

theorem takeExact_sound (n : Nat) (bs p r : Bytes) (h : takeExact n bs = some (p, r)) : bs = p ++ r ∧ p.length = n := by
  unfold takeExact at h
  split at h
  · rename_i hn
    cases h
    exact ⟨(List.take_append_drop n bs).symm, by simp [hn]⟩
  · cases h

theorem unLenC_sound (p body : Bytes) (h : unLenC p = some body) : p = lenDelim body ∧ body.length < 2 ^ 64 := by
  unfold unLenC at h
  cases hc : readCanon p with
  | none => simp [hc] at h
  | some q =>
    obtain ⟨n, r⟩ := q
    simp only [hc] at h
    split at h
    · rename_i hl
      cases h
      obtain ⟨h1, h2⟩ := readCanon_sound p n body hc
      subst hl
      exact ⟨h1, h2⟩
    · cases h

theorem parseRecC_sound (bs : Bytes) (rc : Rec) (rest : Bytes) (h : parseRecC bs = some (rc, rest)) : bs = rc.bytes ++ rest := by
  unfold parseRecC at h
  cases hc : readCanon bs with
  | none => simp [hc] at h
  | some q =>
    obtain ⟨key, r⟩ := q
    obtain ⟨hb, _⟩ := readCanon_sound bs key r hc
    simp only [hc] at h
    split at h
    · cases h
    · have hk : key / 8 * 8 + key % 8 = key := Nat.div_add_mod' key 8
      split at h
      · rename_i h0
        cases hv : readVarint r with
        | none => simp [hv] at h
        | some p =>
          obtain ⟨x, r'⟩ := p
          simp only [hv] at h
          split at h
          · rename_i he
            cases h
            simp only [Rec.bytes, WireType.code, List.append_assoc]
            rw [← he, hb]
            congr 2; omega
          · cases h
      · rename_i h1
        cases ht : takeExact 8 r with
        | none => simp [ht] at h
        | some p =>
          obtain ⟨pl, r'⟩ := p
          simp only [ht, Option.map_some, Option.some.injEq, Prod.mk.injEq] at h
          obtain ⟨rfl, rfl⟩ := h
          simp only [Rec.bytes, WireType.code, List.append_assoc]
          rw [← (takeExact_sound 8 r pl _ ht).1, hb]
          congr 2; omega
      · rename_i h5
        cases ht : takeExact 4 r with
        | none => simp [ht] at h
        | some p =>
          obtain ⟨pl, r'⟩ := p
          simp only [ht, Option.map_some, Option.some.injEq, Prod.mk.injEq] at h
          obtain ⟨rfl, rfl⟩ := h
          simp only [Rec.bytes, WireType.code, List.append_assoc]
          rw [← (takeExact_sound 4 r pl _ ht).1, hb]
          congr 2; omega
      · rename_i h2
        cases hv : readVarint r with
        | none => simp [hv] at h
        | some p =>
          obtain ⟨n, r'⟩ := p
          simp only [hv] at h
          cases ht : takeExact n r' with
          | none => simp [ht] at h
          | some q =>
            obtain ⟨pl, r''⟩ := q
            simp only [ht] at h
            split at h
            · rename_i he
              cases h
              simp only [Rec.bytes, WireType.code, List.append_assoc]
              rw [← he, hb]
              congr 2; omega
            · cases h
      · cases h

theorem parseRecsC_sound : ∀ (f : Nat) (bs : Bytes) (rs : List Rec), parseRecsC f bs = some rs → bs = flat rs
  | 0, _, _, h => by simp [parseRecsC] at h
  | f + 1, bs, rs, h => by
    simp only [parseRecsC] at h
    split at h
    · rename_i he
      cases h
      cases bs with
      | nil => rfl
      | cons a b => simp at he
    · cases hp : parseRecC bs with
      | none => simp [hp] at h
      | some q =>
        obtain ⟨rc, rest⟩ := q
        simp only [hp] at h
        cases hr : parseRecsC f rest with
        | none => simp [hr] at h
        | some rs' =>
          simp only [hr, Option.map_some, Option.some.injEq] at h
          subst h
          rw [parseRecC_sound bs rc rest hp, parseRecsC_sound f rest rs' hr, flat_cons]

theorem isPrefixOf_split : ∀ (e b : Bytes), e.isPrefixOf b = true → b = e ++ b.drop e.length
  | [], b, _ => by simp
  | x :: e, [], h => by simp [List.isPrefixOf] at h
  | x :: e, y :: b, h => by
    simp only [List.isPrefixOf, Bool.and_eq_true, beq_iff_eq] at h
    obtain ⟨rfl, h2⟩ := h
    simp only [List.length_cons, List.drop_succ_cons, List.cons_append]
    rw [← isPrefixOf_split e b h2]

theorem eatRun_sound (pt : PType) : ∀ (f : Nat) (b : Bytes) (vs rest : List SVal), eatRun pt f b vs = some rest →
    ∃ chunk, vs = chunk ++ rest ∧ b = chunk.flatMap (encScalar pt) ∧ (b ≠ [] → chunk ≠ [])
  | 0, _, _, _, h => by simp [eatRun] at h
  | f + 1, b, vs, rest, h => by
    simp only [eatRun] at h
    split at h
    · rename_i he
      cases h
      refine ⟨[], rfl, ?_, ?_⟩
      · cases b with
        | nil => rfl
        | cons x y => simp at he
      · intro hb; cases b with
        | nil => exact absurd rfl hb
        | cons x y => simp at he
    · cases vs with
      | nil => simp at h
      | cons v vs' =>
        simp only at h
        split at h
        · rename_i hp
          simp only [Bool.and_eq_true] at hp
          obtain ⟨chunk, h1, h2, _⟩ := eatRun_sound pt f _ vs' rest h
          refine ⟨v :: chunk, by simp [h1], ?_, by simp⟩
          rw [List.flatMap_cons, ← h2]
          exact isPrefixOf_split _ _ hp.1
        · cases h

theorem checkPacked_sound (t : Nat) (ty : PFTy) : ∀ (rs : List Rec) (vs : List SVal), checkPacked t ty rs vs = true → EncPacked t ty rs vs
  | [], vs, h => by
    simp only [checkPacked, List.isEmpty_iff] at h
    simp [EncPacked, h]
  | r :: rs, vs, h => by
    simp only [checkPacked, Bool.and_eq_true, beq_iff_eq] at h
    obtain ⟨htag, h⟩ := h
    simp only [EncPacked]
    refine ⟨htag, ?_⟩
    split at h
    · rename_i hw
      try simp only [Bool.and_eq_true, beq_iff_eq] at hw
      left
      cases vs with
      | nil => simp at h
      | cons v vs' =>
        simp only [Bool.and_eq_true, beqBytes, decide_eq_true_eq] at h
        exact ⟨hw.1, v, vs', rfl, h.1, checkPacked_sound t ty rs vs' h.2⟩
    · split at h
      · rename_i hl
        try simp only [beq_iff_eq] at hl
        right
        cases hu : unLenC r.payload with
        | none => simp [hu] at h
        | some body =>
          simp only [hu] at h
          obtain ⟨hpay, hlen⟩ := unLenC_sound _ _ hu
          split at h
          · cases h
          · rename_i hne
            cases he : eatRun (scalarTy ty) (body.length + 1) body vs with
            | none => simp [he] at h
            | some rest =>
              simp only [he] at h
              obtain ⟨chunk, h1, h2, h3⟩ := eatRun_sound _ _ _ _ _ he
              have hb : body ≠ [] := by intro e; subst e; simp at hne
              refine ⟨hl, chunk, rest, h1, h3 hb, by rw [← h2]; exact hpay, by rw [← h2]; exact hlen, checkPacked_sound t ty rs rest h⟩
      · cases h

theorem isZero_sound (ty : PFTy) (v : EVal) (h : isZero ty v = true) : zeroOf ty v := by
  cases ty <;> cases v <;> simp [isZero] at h <;> simpa [zeroOf] using h

mutual
theorem checkE_sound (ps : PSchema) (ty : PFTy) (v : EVal) (r : Rec) (h : checkE ps ty v r = true) : EncE ps ty v r := by
  cases v with
  | s x =>
    cases ty with
    | scalar t =>
      simp only [checkE, Bool.and_eq_true, beq_iff_eq, beqBytes, decide_eq_true_eq] at h
      simp only [EncE]; exact h
    | enum =>
      simp only [checkE, Bool.and_eq_true, beq_iff_eq, beqBytes, decide_eq_true_eq] at h
      simp only [EncE]; exact h
    | msg i => simp [checkE] at h
  | msg fs =>
    cases ty with
    | scalar t => simp [checkE] at h
    | enum => simp [checkE] at h
    | msg i =>
      simp only [checkE, Bool.and_eq_true, beq_iff_eq] at h
      obtain ⟨hw, h⟩ := h
      cases hu : unLenC r.payload with
      | none => simp [hu] at h
      | some body =>
        simp only [hu] at h
        obtain ⟨hpay, hlen⟩ := unLenC_sound _ _ hu
        cases hp : parseRecsC (body.length + 1) body with
        | none => simp [hp] at h
        | some rs =>
          simp only [hp] at h
          have hb := parseRecsC_sound _ _ _ hp
          simp only [EncE]
          exact ⟨hw, rs, by rw [← hb]; exact hpay, by rw [← hb]; exact hlen, checkSlots_sound ps (pdecls ps i) fs rs h⟩
termination_by structural v
theorem checkSlot_sound (ps : PSchema) (d : PDecl) (v : Slot) (rs : List Rec) (h : checkSlot ps d v rs = true) : EncSlot ps d v rs := by
  cases v with
  | req x =>
    cases d with
    | single t ty opt =>
      cases opt with
      | false =>
        simp only [checkSlot] at h
        rw [EncSlot]
        cases rs with
        | nil => right; exact ⟨rfl, isZero_sound ty x h⟩
        | cons r rs' =>
          cases rs' with
          | nil =>
            simp only [Bool.and_eq_true, beq_iff_eq] at h
            left; exact ⟨r, rfl, h.1, checkE_sound ps ty x r h.2⟩
          | cons a b => simp at h
      | true => simp [checkSlot] at h
    | _ => simp [checkSlot] at h
  | none =>
    cases d with
    | single t ty opt =>
      cases opt with
      | true => simp only [checkSlot, List.isEmpty_iff] at h; simp [EncSlot, h]
      | false => simp [checkSlot] at h
    | oneof vs => simp only [checkSlot, List.isEmpty_iff] at h; simp [EncSlot, h]
    | _ => simp [checkSlot] at h
  | some x =>
    cases d with
    | single t ty opt =>
      cases opt with
      | true =>
        simp only [checkSlot] at h
        rw [EncSlot]
        cases rs with
        | nil => simp at h
        | cons r rs' =>
          cases rs' with
          | nil =>
            simp only [Bool.and_eq_true, beq_iff_eq] at h
            exact ⟨r, rfl, h.1, checkE_sound ps ty x r h.2⟩
          | cons a b => simp at h
      | false => simp [checkSlot] at h
    | _ => simp [checkSlot] at h
  | rep xs =>
    cases d with
    | rep t ty =>
      simp only [checkSlot] at h
      rw [EncSlot]
      split
      · rename_i hp
        simp only [hp, if_true] at h
        cases hs : svalsOf xs with
        | none => simp [hs] at h
        | some vs => simp only [hs] at h; exact ⟨vs, rfl, checkPacked_sound t ty rs vs h⟩
      · rename_i hp
        simp only [hp] at h
        exact checkRep_sound ps t ty xs rs h
    | single t ty opt => cases opt <;> simp [checkSlot] at h
    | _ => simp [checkSlot] at h
  | map kvs =>
    cases d with
    | map t k vty => simp only [checkSlot] at h; rw [EncSlot]; exact checkMap_sound ps t k vty kvs rs h
    | single t ty opt => cases opt <;> simp [checkSlot] at h
    | _ => simp [checkSlot] at h
  | one t x =>
    cases d with
    | oneof vs =>
      simp only [checkSlot] at h
      rw [EncSlot]
      cases hl : lookupP vs t with
      | none => simp [hl] at h
      | some ty =>
        simp only [hl] at h
        cases rs with
        | nil => simp at h
        | cons r rs' =>
          cases rs' with
          | nil =>
            simp only [Bool.and_eq_true, beq_iff_eq] at h
            exact ⟨ty, r, rfl, rfl, h.1, checkE_sound ps ty x r h.2⟩
          | cons a b => simp at h
    | single t ty opt => cases opt <;> simp [checkSlot] at h
    | _ => simp [checkSlot] at h
termination_by structural v
theorem checkSlots_sound (ps : PSchema) (ds : List PDecl) (fs : Slots) (rs : List Rec) (h : checkSlots ps ds fs rs = true) :
    EncSlots ps ds fs rs := by
  cases fs with
  | nil =>
    cases ds with
    | nil => simp only [checkSlots, List.isEmpty_iff] at h; simp [EncSlots, h]
    | cons d ds => simp [checkSlots] at h
  | cons v rest =>
    cases ds with
    | nil => simp [checkSlots] at h
    | cons d ds =>
      simp only [checkSlots, Bool.and_eq_true] at h
      simp only [EncSlots]
      exact ⟨checkSlot_sound ps d v _ h.1, checkSlots_sound ps ds rest _ h.2⟩
termination_by structural fs
theorem checkRep_sound (ps : PSchema) (t : Nat) (ty : PFTy) (xs : EVals) (rs : List Rec) (h : checkRep ps t ty xs rs = true) :
    EncRep ps t ty xs rs := by
  cases xs with
  | nil => simp only [checkRep, List.isEmpty_iff] at h; simp [EncRep, h]
  | cons x rest =>
    cases rs with
    | nil => simp [checkRep] at h
    | cons r rs' =>
      simp only [checkRep, Bool.and_eq_true, beq_iff_eq] at h
      simp only [EncRep]
      exact ⟨r, rs', rfl, h.1.1, checkE_sound ps ty x r h.1.2, checkRep_sound ps t ty rest rs' h.2⟩
termination_by structural xs
theorem checkMap_sound (ps : PSchema) (t : Nat) (k : PType) (vty : PFTy) (kvs : Pairs) (rs : List Rec)
    (h : checkMap ps t k vty kvs rs = true) : EncMap ps t k vty kvs rs := by
  cases kvs with
  | nil => simp only [checkMap, List.isEmpty_iff] at h; simp [EncMap, h]
  | cons kk v rest =>
    cases rs with
    | nil => simp [checkMap] at h
    | cons e rs' =>
      simp only [checkMap, Bool.and_eq_true, beq_iff_eq] at h
      obtain ⟨⟨⟨htag, hwt⟩, hent⟩, hrest⟩ := h
      cases hu : unLenC e.payload with
      | none => simp [hu] at hent
      | some body =>
        simp only [hu] at hent
        obtain ⟨hpay, hlen⟩ := unLenC_sound _ _ hu
        cases hp : parseRecsC (body.length + 1) body with
        | none => simp [hp] at hent
        | some es =>
          simp only [hp, Bool.and_eq_true, List.all_eq_true, Bool.or_eq_true, beq_iff_eq] at hent
          obtain ⟨⟨hall, hk⟩, hv⟩ := hent
          have hb := parseRecsC_sound _ _ _ hp
          simp only [EncMap]
          refine ⟨e, rs', rfl, htag, hwt, ⟨es, by rw [← hb]; exact hpay, by rw [← hb]; exact hlen, hall, ?_, ?_⟩,
            checkMap_sound ps t k vty rest rs' hrest⟩
          · cases hf : es.filter (fun x => x.tag == 1) with
            | nil => right; simp only [hf] at hk; exact ⟨rfl, hk⟩
            | cons kr tl =>
              cases tl with
              | nil =>
                left
                simp only [hf, Bool.and_eq_true, beq_iff_eq, beqBytes, decide_eq_true_eq] at hk
                exact ⟨kr, rfl, hk.1, hk.2⟩
              | cons a b => simp [hf] at hk
          · cases hf : es.filter (fun x => x.tag == 2) with
            | nil => right; simp only [hf] at hv; exact ⟨rfl, isZero_sound vty v hv⟩
            | cons vr tl =>
              cases tl with
              | nil => left; simp only [hf] at hv; exact ⟨vr, rfl, checkE_sound ps vty v vr hv⟩
              | cons a b => simp [hf] at hv
termination_by structural kvs
end

/-- **the executable checker is sound** for the specification relation. -/
theorem check_sound (ps : PSchema) (i : Nat) (m : Slots) (bs : Bytes) (h : check ps i m bs = true) : Enc ps i m bs := by
  unfold check at h
  cases hp : parseRecsC (bs.length + 1) bs with
  | none => simp [hp] at h
  | some rs =>
    simp only [hp] at h
    exact ⟨rs, parseRecsC_sound _ _ _ hp, checkSlots_sound ps _ m rs h⟩

end Pilota.Proto.Spec
