import PilotaModel.Lemmas.PbEval
/-
  Unknown fields: a record whose field number the struct does not declare is skipped and
  leaves the value unchanged, wherever it stands between two records.
-/
namespace Pilota.Proto
open Pilota

theorem mergeSlots_len (s : Schema) (recur : Recur) (tag : Nat) (wt : WireType) (bs : Bytes) :
    ∀ (ds : List FieldDecl) (m m' : Slots) (r : Bytes), mergeSlots s recur tag wt bs ds m = some (.ok (m', r)) → m'.length = m.length := by
  intro ds
  induction ds with
  | nil => intro m m' r h; simp [mergeSlots] at h
  | cons d ds ih =>
    intro m m' r h
    cases m with
    | nil => simp [mergeSlots] at h
    | cons v rest =>
      unfold mergeSlots at h
      by_cases ht : d.tags.contains tag = true
      · simp only [ht, if_true] at h
        cases hm : mergeSlot s recur d v tag wt bs with
        | ok q =>
          obtain ⟨v', r0⟩ := q
          rw [hm] at h
          simp only [Option.some.injEq, Out.ok.injEq, Prod.mk.injEq] at h
          obtain ⟨rfl, _⟩ := h
          simp [Slots.length]
        | err e => simp [hm] at h
        | panic e => simp [hm] at h
        | fuel => simp [hm] at h
      · simp only [ht, if_false] at h
        cases hm : mergeSlots s recur tag wt bs ds rest with
        | none => simp [hm] at h
        | some o =>
          rw [hm] at h
          cases o with
          | ok q =>
            obtain ⟨r', b'⟩ := q
            have hr := ih rest r' b' hm
            simp only [Option.some.injEq, Out.ok.injEq, Prod.mk.injEq] at h
            obtain ⟨rfl, _⟩ := h
            simp [Slots.length, hr]
          | err e => simp at h
          | panic e => simp at h
          | fuel => simp at h

theorem mergeSlots_undeclared (s : Schema) (recur : Recur) (tag : Nat) (wt : WireType) (bs : Bytes) :
    ∀ (ds : List FieldDecl) (m : Slots), (∀ d ∈ ds, d.tags.contains tag = false) → m.length = ds.length →
      mergeSlots s recur tag wt bs ds m = none := by
  intro ds
  induction ds with
  | nil => intro m _ _; simp [mergeSlots]
  | cons d ds ih =>
    intro m hd hl
    cases m with
    | nil => simp [Slots.length] at hl
    | cons v rest =>
      unfold mergeSlots
      have : d.tags.contains tag = false := hd d (by simp)
      simp only [this, Bool.false_eq_true, if_false]
      rw [ih rest (fun x hx => hd x (by simp [hx])) (by simp [Slots.length] at hl; exact hl)]

theorem mergeField_len (s : Schema) (ctx : Nat) (ds : List FieldDecl) (m m' : Slots) (tag : Nat) (wt : WireType) (bs r : Bytes)
    (h : mergeField s ctx ds m tag wt bs = .ok (m', r)) : m'.length = m.length := by
  rw [mergeField_eq] at h
  unfold mergeFieldWith at h
  cases hm : mergeSlots s (recurOf s ctx) tag wt bs ds m with
  | some o =>
    rw [hm] at h
    simp only at h
    subst h
    exact mergeSlots_len s _ tag wt bs ds m m' r hm
  | none =>
    rw [hm] at h
    simp only at h
    cases hsk : skipField ctx wt tag bs with
    | ok r0 => rw [hsk] at h; cases h; rfl
    | err e => simp [hsk] at h
    | panic e => simp [hsk] at h
    | fuel => simp [hsk] at h

theorem loop_len (s : Schema) (ctx : Nat) (ds : List FieldDecl) (limit : Nat) :
    ∀ (f : Nat) (m : Slots) (bs : Bytes) (m' : Slots) (r : Bytes),
      mergeLoopGo (fieldStep (mergeField s ctx) ds) f m bs limit = .ok (m', r) → m'.length = m.length := by
  intro f
  induction f with
  | zero => intro m bs m' r h; simp [mergeLoopGo] at h
  | succ f ih =>
    intro m bs m' r h
    unfold mergeLoopGo at h
    split at h
    · cases hs : fieldStep (mergeField s ctx) ds m bs with
      | ok q =>
        obtain ⟨m1, r1⟩ := q
        rw [hs] at h
        have h1 := ih m1 r1 m' r h
        unfold fieldStep at hs
        cases hk : decodeKey bs with
        | ok p =>
          obtain ⟨⟨t, w⟩, r0⟩ := p
          rw [hk] at hs
          rw [h1, mergeField_len s ctx ds m m1 t w r0 r1 hs]
        | err e => simp [hk] at hs
        | panic e => simp [hk] at hs
        | fuel => simp [hk] at hs
      | err e => simp [hs] at h
      | panic e => simp [hs] at h
      | fuel => simp [hs] at h
    · split at h
      · cases h
      · cases h; rfl

/-- an unknown record is consumed and the value is unchanged. -/
theorem unknown_step (s : Schema) (ctx : Nat) (ds : List FieldDecl) (m : Slots) (tag : Nat) (wt : WireType) (payload b : Bytes)
    (hal : m.length = ds.length) (hund : ∀ d ∈ ds, d.tags.contains tag = false) (h1 : minTag ≤ tag) (h2 : tag ≤ maxTag)
    (hsk : skipField ctx wt tag payload = .ok []) :
    fieldStep (mergeField s ctx) ds m (keyBytes tag wt ++ (payload ++ b)) = .ok (m, b) := by
  unfold fieldStep
  rw [decodeKey_keyBytes tag wt h1 h2, mergeField_eq]
  unfold mergeFieldWith
  simp only [mergeSlots_undeclared s _ tag wt _ ds m hund hal]
  have := skipField_append ctx wt tag payload [] b hsk
  simp only [List.nil_append] at this
  simp only [this]

/-- a loop over `a ++ x` where `a` alone parses as whole records continues on `x` with the value
`a` produced. -/
theorem loop_concat {σ : Type} (step : σ → Bytes → Out (σ × Bytes)) (hstep : StepOK step) (hstab : StableStep step)
    (m m' : σ) (a x : Bytes) (fa : Nat) (ha : mergeLoopGo step fa m a 0 = .ok (m', [])) (limit : Nat) (hl : limit ≤ x.length)
    (f : Nat) (hf : (a ++ x).length < f) :
    mergeLoopGo step f m (a ++ x) limit = mergeLoopGo step f m' x limit := by
  have h1 := mergeLoopGo_append step hstab 0 x fa m a m' [] ha
  simp only [Nat.zero_add, List.nil_append] at h1
  have h2 := mergeLoopGo_fuel_mono step _ _ m (a ++ x) _ h1 f
  have h3 := mergeLoopGo_split step hstep x.length limit hl (fa + f) m (a ++ x) m' x (by omega) h2
  rw [mergeLoopGo_fuel_indep step hstep limit f (fa + f) m (a ++ x) hf (by omega), h3]
  exact mergeLoopGo_fuel_indep step hstep limit _ _ m' x (by simp at hf; omega) (by simp at hf; omega)

/-- loop level (top level: `limit = 0`; inside a nested message: `limit` = what follows it). -/
theorem unknown_ignored_loop (s : Schema) (ctx : Nat) (ds : List FieldDecl) (m m' : Slots) (a b : Bytes) (tag : Nat)
    (wt : WireType) (payload : Bytes) (hal : m.length = ds.length) (hund : ∀ d ∈ ds, d.tags.contains tag = false)
    (h1 : minTag ≤ tag) (h2 : tag ≤ maxTag) (hsk : skipField ctx wt tag payload = .ok [])
    (fa : Nat) (ha : mergeLoopGo (fieldStep (mergeField s ctx) ds) fa m a 0 = .ok (m', []))
    (limit : Nat) (hl : limit ≤ b.length) (f : Nat) (hf : (a ++ (keyBytes tag wt ++ (payload ++ b))).length < f) :
    mergeLoopGo (fieldStep (mergeField s ctx) ds) f m (a ++ (keyBytes tag wt ++ (payload ++ b))) limit
      = mergeLoopGo (fieldStep (mergeField s ctx) ds) f m (a ++ b) limit := by
  have hstep : StepOK (fieldStep (mergeField s ctx) ds) := fieldStep_ok _ (mergeField_ok s ctx) _
  have hstab : StableStep (fieldStep (mergeField s ctx) ds) := fieldStep_stable _ (mergeField_stable s ctx) _
  have hkp := keyBytes_pos tag wt
  rw [loop_concat _ hstep hstab m m' a _ fa ha limit (by simp only [List.length_append]; omega) f hf]
  rw [loop_concat _ hstep hstab m m' a b fa ha limit hl f (by simp only [List.length_append] at hf ⊢; omega)]
  have hal' : m'.length = ds.length := by rw [loop_len s ctx ds 0 fa m a m' [] ha, hal]
  obtain ⟨f, rfl⟩ : ∃ g, f = g + 1 := ⟨f - 1, by omega⟩
  conv => lhs; unfold mergeLoopGo
  have hgt : (keyBytes tag wt ++ (payload ++ b)).length > limit := by simp only [List.length_append]; omega
  simp only [hgt, if_true, unknown_step s ctx ds m' tag wt payload b hal' hund h1 h2 hsk]
  exact mergeLoopGo_fuel_indep _ hstep limit f (f + 1) m' b (by simp only [List.length_append] at hf; omega)
    (by simp only [List.length_append] at hf; omega)

end Pilota.Proto
