import PilotaModel.Lemmas.IdlStruct
/-
  C15: enums.
-/
namespace Pilota.Idl

def EnumFollow (R : List Char) : Prop :=
  NB R ∧ NoSepStart R ∧ hdP (fun c => c != '(') R = true ∧ hdP (fun c => c != '=') R = true

theorem enumFollow_of_ident {R : List Char} (h : hdP isIdentStart R = true) : EnumFollow R :=
  ⟨hdP_mono (fun _ hc => identStart_NB hc) h, hdP_mono (fun _ hc => identStart_noSep hc) h,
   hdP_mono (fun _ hc => identStart_ne hc (by decide)) h, hdP_mono (fun _ hc => identStart_ne hc (by decide)) h⟩

theorem enumFollow_close (R : List Char) : EnumFollow ('}' :: R) ∧ Sep ('}' :: R) :=
  ⟨⟨by rw [NB, hdP_cons]; decide, by rw [NoSepStart, hdP_cons]; decide, by rw [hdP_cons]; decide, by rw [hdP_cons]; decide⟩,
   by rw [Sep, hdP_cons]; decide⟩

theorem intText_NB (n : Int) (x : List Char) : NB (intText n ++ x) := by
  unfold intText; split
  · rw [NB]; rfl
  · obtain ⟨c0, cs, e, hc⟩ := decDigits_head n.toNat
    rw [e]; exact (digit_props hc).1

theorem enumValue_step {v : EnumValue} (hw : v.wf = true) (last : Bool) (l : Layout)
    {R : List Char} (hR : EnumFollow R) (hlast : last = true → Sep R) :
    EnumValue.parse ((rEnumValue v last l).1 ++ R) = .ok v R := by
  obtain ⟨name, value, anns⟩ := v
  simp only [EnumValue.wf, Bool.and_eq_true] at hw
  obtain ⟨⟨hname, hval⟩, han⟩ := hw
  simp only [rEnumValue, rSeq_fst, rSeq_snd, rLit_fst, rLit_snd, List.append_assoc]
  have hsepT : ∀ l1, Sep ((rOptAnns anns l1).1 ++ ((rDefTail anns true last (rOptAnns anns l1).2).1 ++ R)) := by
    intro l1
    apply defTail_sep
    cases last with
    | true => exact Or.inr (hlast rfl)
    | false => exact Or.inl rfl
  unfold EnumValue.parse
  cases value with
  | none =>
    simp only [rLit_fst, rLit_snd, List.nil_append]
    obtain ⟨g, ann, hg, hann, htail⟩ := defTail_rt
      (fun anns' => andThen (opt blank) fun _ => ret ({ name := name, value := none, annotations := anns'.getD [] } : EnumValue))
      han true last l hR.1 hR.2.1 hR.2.2.1
    obtain ⟨B, T0, hT, hB, hT0, hne⟩ := defTail_splitNot (c := '=') (as := anns) (by decide) true last l hR.1 hR.2.2.2
    rw [andThen_of_ok (ident_rt hname (hsepT _).noIdent), hT,
      optFail_collapse hB hT0 (andThen_of_err (tag_hd hne)), ← hT, htail, andThen_optBlank hg hR.1, hann]
    rfl
  | some n =>
    simp only [rSeq_fst, rSeq_snd, rLit_fst, rLit_snd, List.append_assoc]
    obtain ⟨g, ann, hg, hann, htail⟩ := defTail_rt
      (fun anns' => andThen (opt blank) fun _ => ret ({ name := name, value := some n, annotations := anns'.getD [] } : EnumValue))
      han true last (rB0 (rB0 l).2).2 hR.1 hR.2.1 hR.2.2.1
    have hv : (andThen (tag ['=']) fun _ => andThen (opt blank) fun _ => IntConstant.parse)
        (['='] ++ ((rB0 (rB0 l).2).1 ++ (intText n ++ ((rOptAnns anns (rB0 (rB0 l).2).2).1 ++
          ((rDefTail anns true last (rOptAnns anns (rB0 (rB0 l).2).2).2).1 ++ R))))) =
        .ok n ((rOptAnns anns (rB0 (rB0 l).2).2).1 ++ ((rDefTail anns true last (rOptAnns anns (rB0 (rB0 l).2).2).2).1 ++ R)) := by
      rw [andThen_of_ok (tag_append _ _), andThen_optBlank (rB0_BT _) (intText_NB n _)]
      exact intConstant_rt hval (hsepT _)
    rw [andThen_of_ok (ident_rt hname ((rB0_BT _).sep_append (Or.inr (by rw [Sep]; rfl))).noIdent),
      andThen_optBlank (rB0_BT _) (by rw [NB]; rfl), andThen_of_ok (opt_of_ok hv), htail, andThen_optBlank hg hR.1, hann]
    rfl

theorem rEnumValue_start {v : EnumValue} (hw : v.wf = true) (last : Bool) (l : Layout) (x : List Char) :
    hdP isIdentStart ((rEnumValue v last l).1 ++ x) = true ∧ (rEnumValue v last l).1 ≠ [] := by
  simp only [EnumValue.wf, Bool.and_eq_true] at hw
  obtain ⟨c0, cs, e, hc, _⟩ := identOk_cons hw.1.1
  simp only [rEnumValue, rSeq_fst, rLit_fst, List.append_assoc, e, List.cons_append]
  exact ⟨hc, by simp⟩


/-- an `enum` definition followed by the blank `b` of its item slot -/
theorem enum_rt {e : Enum} (hw : e.wf = true) (l : Layout) {b R : List Char} (hb : BT b)
    (hR : ItemStart R) : ∃ g, BT g ∧ Enum.parse ((rEnum e l).1 ++ (b ++ R)) = .ok e (g ++ R) := by
  obtain ⟨name, values, anns⟩ := e
  simp only [Enum.wf, Bool.and_eq_true, List.all_eq_true] at hw
  obtain ⟨⟨hname, hvs⟩, han⟩ := hw
  simp only [rEnum, rSeq_fst, rSeq_snd, rLit_fst, rLit_snd, List.append_assoc]
  have hloop := many0F_slots EnumValue.parse rEnumValue Eq (fun v => v.wf = true) (fun bl => bl = [])
    (fun R => hdP isIdentStart R = true) '}'
    (by
      intro x last l bl R hx hL hlast hmid
      subst hL
      have hR : EnumFollow R ∧ (last = true → Sep R) := by
        cases last with
        | true => obtain ⟨R'', rfl⟩ := hlast rfl; exact ⟨(enumFollow_close R'').1, fun _ => (enumFollow_close R'').2⟩
        | false => exact ⟨enumFollow_of_ident (hmid rfl), fun h => by cases h⟩
      refine ⟨x, [], rfl, rfl, ?_, ?_⟩
      · have : 0 < (rEnumValue x last l).1.length := List.length_pos_iff.mpr (rEnumValue_start hx last l []).2
        simp only [List.nil_append, List.length_nil]; omega
      · simpa using enumValue_step hx last l hR.1 hR.2)
    (by intro y last l R hy; exact (rEnumValue_start hy last l R).1)
    (by
      intro bl R hL; subst hL
      unfold EnumValue.parse
      rw [List.nil_append]
      exact andThen_of_err (ident_err_hd (by rw [hdP_cons]; decide) (by simp)))
  obtain ⟨ys, bl', hys, hbl', hm⟩ := hloop values (rB0 (rB0 (rB1 l).2).2).2 [] _
    ((rOptAnns anns (rSlots rEnumValue values (rB0 (rB0 (rB1 l).2).2).2).2).1 ++ (b ++ R)) hvs rfl (Nat.lt_succ_self _)
  have hys' := forall2_eq' hys
  subst hys' hbl'
  simp only [List.nil_append] at hm
  have hm' : many0 EnumValue.parse ((rSlots rEnumValue values (rB0 (rB0 (rB1 l).2).2).2).1 ++
      (['}'] ++ ((rOptAnns anns (rSlots rEnumValue values (rB0 (rB0 (rB1 l).2).2).2).2).1 ++ (b ++ R)))) =
      .ok values (['}'] ++ ((rOptAnns anns (rSlots rEnumValue values (rB0 (rB0 (rB1 l).2).2).2).2).1 ++ (b ++ R))) := hm
  have hnbv : NB ((rSlots rEnumValue values (rB0 (rB0 (rB1 l).2).2).2).1 ++
      (['}'] ++ ((rOptAnns anns (rSlots rEnumValue values (rB0 (rB0 (rB1 l).2).2).2).2).1 ++ (b ++ R)))) := by
    cases values with
    | nil => rw [rSlots_nil, List.nil_append, NB]; rfl
    | cons v vs =>
      rw [rSlots_cons, List.append_assoc]
      exact hdP_mono (fun _ hc => identStart_NB hc) (rEnumValue_start (hvs v (by simp)) _ _ _).1
  have hpre : ∀ {α} (K : Ident → List EnumValue → P α),
      (andThen (tag cs!"enum") fun _ => andThen blank fun _ => andThen Ident.parse fun name =>
        andThen (opt blank) fun _ => andThen (tag ['{']) fun _ => andThen (opt blank) fun _ =>
        andThen (many0 EnumValue.parse) fun values => andThen (opt blank) fun _ => andThen (tag ['}']) fun _ => K name values)
        (cs!"enum" ++ ((rB1 l).1 ++ (name ++ ((rB0 (rB1 l).2).1 ++ (['{'] ++ ((rB0 (rB0 (rB1 l).2).2).1 ++
          ((rSlots rEnumValue values (rB0 (rB0 (rB1 l).2).2).2).1 ++ (['}'] ++
            ((rOptAnns anns (rSlots rEnumValue values (rB0 (rB0 (rB1 l).2).2).2).2).1 ++ (b ++ R))))))))))
      = K name values ((rOptAnns anns (rSlots rEnumValue values (rB0 (rB0 (rB1 l).2).2).2).2).1 ++ (b ++ R)) := by
    intro α K
    rw [andThen_of_ok (tag_append _ _), andThen_blank (rB1_BT _) (rB1_ne _) (ident_NB hname),
      andThen_of_ok (ident_rt hname ((rB0_BT _).sep_append (Or.inr (by rw [Sep]; rfl))).noIdent),
      andThen_optBlank (rB0_BT _) (by rw [NB]; rfl), andThen_of_ok (tag_append _ _),
      andThen_optBlank (rB0_BT _) hnbv, andThen_of_ok hm',
      andThen_of_ok (opt_of_err (blank_err (by rw [NB]; rfl))), andThen_of_ok (tag_append _ _)]
  unfold Enum.parse
  by_cases has : anns = []
  · subst has
    refine ⟨[], BT.nil, ?_⟩
    rw [hpre (fun name values => andThen (opt blank) fun _ => andThen (opt Annotations.parse) fun anns =>
      ret ({ name := name, values := values, annotations := anns.getD [] } : Enum))]
    simp only [rOptAnns, List.isEmpty_nil, if_true, rLit_fst, List.nil_append]
    rw [andThen_optBlank hb hR.nb, andThen_of_ok (opt_of_err (annotations_err (hR.ne '(' (by decide))))]
    rfl
  · refine ⟨b, hb, ?_⟩
    rw [hpre (fun name values => andThen (opt blank) fun _ => andThen (opt Annotations.parse) fun anns =>
      ret ({ name := name, values := values, annotations := anns.getD [] } : Enum))]
    have he : anns.isEmpty = false := by cases anns; exact absurd rfl has; rfl
    have hnb : ∀ l' x, NB ((rAnns anns l').1 ++ x) := by
      intro l' x
      simp only [rAnns, he, Bool.false_eq_true, if_false, rSeq_fst, rLit_fst, List.append_assoc]
      show notBlankStart '(' = true; decide
    simp only [rOptAnns, he, Bool.false_eq_true, if_false, rSeq_fst, List.append_assoc]
    rw [andThen_optBlank (rB0_BT _) (hnb _ _), andThen_of_ok (opt_of_ok (annotations_rt han has _ _))]
    rfl

end Pilota.Idl
