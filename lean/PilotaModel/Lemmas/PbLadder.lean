import PilotaModel.Lemmas.PbUnknown
/-
  The recursion limit on messages: `message Rec { optional Rec inner = 1; }` nested `n` deep
  decodes with a budget of at least `n` and is refused with the recursion-limit error otherwise.
-/
namespace Pilota.Proto
open Pilota

def selfRec : Schema := [[.single 1 (.msg 0) true]]

def nestV : Nat → Slots
  | 0 => .cons .none .nil
  | n + 1 => .cons (.some (.msg (nestV n))) .nil

theorem selfRec_wf : WFSchema selfRec = true := by decide
theorem selfRec_default : defaultE selfRec (.msg 0) = .msg (nestV 0) := by decide
theorem selfRec_decls : decls selfRec 0 = [.single 1 (.msg 0) true] := rfl
theorem selfRec_defaultMsg : defaultMsg selfRec 0 = nestV 0 := by decide

theorem nestV_need : ∀ n, needSlots (nestV n) = n
  | 0 => rfl
  | n + 1 => by simp [nestV, needSlots, needSlot, needE, nestV_need n]

def selfD : List FieldDecl := [.single 1 (.msg 0) true]

theorem selfRec_decls' : decls selfRec 0 = selfD := rfl

/-- deeper than the budget: the field loop fails with the recursion-limit error. -/
theorem nest_too_deep (flag : Bool) : ∀ (ctx n : Nat), ctx < n → okSlots selfRec flag selfD (nestV n) = true →
    ∀ (rest : Bytes) (f : Nat), (encSlots selfRec flag selfD (nestV n) ++ rest).length < f →
      mergeLoopGo (fieldStep (mergeField selfRec ctx) selfD) f (nestV 0)
        (encSlots selfRec flag selfD (nestV n) ++ rest) rest.length = .err .depth := by
  intro ctx
  induction ctx with
  | zero =>
    intro n hn hy rest f hf
    obtain ⟨n, rfl⟩ : ∃ k, n = k + 1 := ⟨n - 1, by omega⟩
    obtain ⟨f, rfl⟩ : ∃ g, f = g + 1 := ⟨f - 1, by omega⟩
    have hkp := keyBytes_pos 1 .len
    have hb : encSlots selfRec flag selfD (nestV (n + 1)) ++ rest = keyBytes 1 .len ++
        (encodeVarint (lenSlots selfRec flag selfD (nestV n)) ++ (encSlots selfRec flag selfD (nestV n) ++ rest)) := by
      simp [selfD, nestV, encSlots, encSlot, encE, selfRec_decls, List.append_assoc]
    rw [hb] at hf ⊢
    have hgt : (keyBytes 1 .len ++ (encodeVarint (lenSlots selfRec flag selfD (nestV n)) ++
        (encSlots selfRec flag selfD (nestV n) ++ rest))).length > rest.length := by
      simp only [List.length_append]; omega
    unfold mergeLoopGo
    simp only [hgt, if_true, fieldStep, decodeKey_keyBytes 1 .len (by decide) (by decide)]
    simp [selfD, nestV, mergeField, mergeFieldWith, mergeSlots, FieldDecl.tags, mergeSlot, mergeE, checkWireType]
  | succ c ih =>
    intro n hn hy rest f hf
    obtain ⟨n, rfl⟩ : ∃ k, n = k + 1 := ⟨n - 1, by omega⟩
    obtain ⟨f, rfl⟩ : ∃ g, f = g + 1 := ⟨f - 1, by omega⟩
    have hkp := keyBytes_pos 1 .len
    have hy' : okSlots selfRec flag selfD (nestV n) = true ∧ lenSlots selfRec flag selfD (nestV n) < 2 ^ 64 := by
      have h0 := hy
      simp only [selfD, nestV, okSlots, okSlot, okE, selfRec_decls, Bool.and_eq_true, Bool.and_true] at h0
      exact ⟨h0.1, of_decide_eq_true h0.2⟩
    have hlen := lenSlots_eq selfRec flag selfRec_wf selfD (by decide) (nestV n) hy'.1
    have hb : encSlots selfRec flag selfD (nestV (n + 1)) ++ rest = keyBytes 1 .len ++
        (encodeVarint (lenSlots selfRec flag selfD (nestV n)) ++ (encSlots selfRec flag selfD (nestV n) ++ rest)) := by
      simp [selfD, nestV, encSlots, encSlot, encE, selfRec_decls, List.append_assoc]
    rw [hb] at hf ⊢
    have hgt : (keyBytes 1 .len ++ (encodeVarint (lenSlots selfRec flag selfD (nestV n)) ++
        (encSlots selfRec flag selfD (nestV n) ++ rest))).length > rest.length := by
      simp only [List.length_append]; omega
    have hinner := ih n (by omega) hy'.1 rest ((encSlots selfRec flag selfD (nestV n) ++ rest).length + 1) (by omega)
    have hle : ¬ lenSlots selfRec flag selfD (nestV n) > (encSlots selfRec flag selfD (nestV n) ++ rest).length := by
      simp only [List.length_append]; omega
    have hlim : (encSlots selfRec flag selfD (nestV n) ++ rest).length - lenSlots selfRec flag selfD (nestV n) = rest.length := by
      simp only [List.length_append]; omega
    -- what `message::merge` does with the record
    have hE : mergeE selfRec (some (mergeField selfRec c)) (.msg 0) (.msg (nestV 0)) .len
        (encodeVarint (lenSlots selfRec flag selfD (nestV n)) ++ (encSlots selfRec flag selfD (nestV n) ++ rest)) = .err .depth := by
      simp only [mergeE, checkWireType, if_true, mergeLoop, EVal.fields, decodeVarint_encode _ hy'.2, hle, if_false, hlim,
        selfRec_decls', hinner]
    unfold mergeLoopGo
    simp only [hgt, if_true, fieldStep, decodeKey_keyBytes 1 .len (by decide) (by decide)]
    have hm : mergeField selfRec (c + 1) selfD (nestV 0) 1 .len
        (encodeVarint (lenSlots selfRec flag selfD (nestV n)) ++ (encSlots selfRec flag selfD (nestV n) ++ rest)) = .err .depth := by
      simp only [mergeField, mergeFieldWith, selfD, nestV, mergeSlots, FieldDecl.tags, List.contains_cons, List.contains_nil,
        Bool.or_false, BEq.rfl, if_true, mergeSlot, optCur, selfRec_default]
      have hE' := hE
      simp only [selfD, nestV] at hE'
      rw [hE']
    rw [hm]

/-- the limit is exact: nesting `n` is decoded with budget `ctx` iff `n ≤ ctx`. -/
theorem nest_limit (flag : Bool) (n ctx : Nat) (hy : okSlots selfRec flag (decls selfRec 0) (nestV n) = true) :
    decodeIntoCtx selfRec ctx 0 (nestV 0) (encode selfRec flag 0 (nestV n)) = if n ≤ ctx then .ok (nestV n) else .err .depth := by
  split
  · rename_i h
    have := decodeIntoCtx_encode selfRec flag selfRec_wf ctx 0 (nestV 0) (nestV n) hy (by rw [nestV_need]; exact h) (by decide)
    rw [this, ← selfRec_defaultMsg, mergeVal_default selfRec flag selfRec_wf 0 (nestV n) hy]
  · rename_i h
    unfold decodeIntoCtx encode
    rw [selfRec_decls'] at hy ⊢
    have := nest_too_deep flag ctx n (by omega) hy [] ((encSlots selfRec flag selfD (nestV n)).length + 1) (by simp)
    simp only [List.append_nil, List.length_nil] at this
    rw [this]

end Pilota.Proto
