import PilotaModel.Thrift.Skip
import PilotaModel.Lemmas.AsyncBin
import PilotaModel.Lemmas.AsyncFlat
/-
  The asynchronous skipper accepts whatever the in-memory skipper of the binary family accepts, and stops at the
  same place — on ARBITRARY bytes (not only on encodings), for every fuel at least as large.
-/
namespace Pilota.Thrift.Async.ABin
open Pilota Pilota.Thrift Pilota.Thrift.Skip

theorem need_of_advance (w : Nat) (bs : Bytes) (k : Nat) (r : Bytes) (h : advance w bs = .ok (k, r)) {α} (c : Bytes → Prog α) :
    runF (.need w c) bs = runF (c (bs.take w)) r := by
  unfold advance at h
  split at h
  · cases h
    simp [runF, Binary.takeN, *]
  · cases h

theorem skipLeaf_of_advance (e : Endian) (w : Nat) (bs : Bytes) (k : Nat) (r : Bytes) (h : advance w bs = .ok (k, r)) :
    runF ((readI e w).bind fun _ => Prog.ret ()) bs = .ok ((), r) ∧ runF ((readU e w).bind fun _ => Prog.ret ()) bs = .ok ((), r) := by
  constructor <;> simp [readI, readU, Prog.bind, need_of_advance w bs k r h, runF]

theorem skipBytes_of_skipBinary (e : Endian) (bs : Bytes) (hb : bs.length < 2 ^ 63) (k : Nat) (r : Bytes)
    (h : skipBinary e bs = .ok (k, r)) : runF ((readBytes e).bind fun _ => Prog.ret ()) bs = .ok ((), r) := by
  unfold skipBinary at h
  cases hx : Binary.readI e 4 bs with
  | ok p =>
    obtain ⟨len, r0⟩ := p
    rw [hx] at h
    simp only at h
    split at h
    · rename_i hle
      cases h
      have hb' : Binary.readBytes e bs = .ok (r0.take (Binary.asUsize len), r0.drop (Binary.asUsize len)) := by
        simp [Binary.readBytes, hx, hle, Binary.splitTo]
      have := (readBytes_iff e bs hb _).mpr hb'
      simp [runF_bind, this, bindP, runF]
    · cases h
  | err k => rw [hx] at h; cases h
  | panic m => rw [hx] at h; cases h
  | fuel => rw [hx] at h; cases h

theorem fieldBegin_le (e : Endian) (bs : Bytes) (x : TType × Int) (r : Bytes) (h : Binary.readFieldBegin e bs = .ok (x, r)) :
    r.length ≤ bs.length := runF_le (readFieldBegin e) bs x r (by rw [runF_readFieldBegin]; exact h)

theorem askip_sim (e : Endian) : ∀ f : Nat,
    (∀ f' (d : Nat) t bs k r, f ≤ f' → bs.length < 2 ^ 63 → Skip.skipVal e f (d : Int) t bs = .ok (k, r) →
      runF (skip e f' d t) bs = .ok ((), r)) ∧
    (∀ f' (d : Nat) bs k r, f ≤ f' → bs.length < 2 ^ 63 → Skip.skipFields e f ((d + 1 : Nat) : Int) bs = .ok (k, r) →
      runF (skipFields e f' d) bs = .ok ((), r)) ∧
    (∀ f' (d : Nat) et n bs k r, f ≤ f' → bs.length < 2 ^ 63 → Skip.skipN e f ((d + 1 : Nat) : Int) et n bs = .ok (k, r) →
      runF (skipN e f' d et n) bs = .ok ((), r)) ∧
    (∀ f' (d : Nat) kt vt n bs k r, f ≤ f' → bs.length < 2 ^ 63 → Skip.skipPairs e f ((d + 1 : Nat) : Int) kt vt n bs = .ok (k, r) →
      runF (skipPairs e f' d kt vt n) bs = .ok ((), r)) := by
  intro f
  induction f with
  | zero =>
    refine ⟨?_, ?_, ?_, ?_⟩ <;> intros <;> simp_all [Skip.skipVal, Skip.skipFields, Skip.skipN, Skip.skipPairs]
  | succ f ih =>
    obtain ⟨ihV, ihF, ihN, ihP⟩ := ih
    have cast1 : ∀ d : Nat, ((d + 1 : Nat) : Int) - 1 = (d : Int) := by intro d; omega
    have ne128 : ∀ d : Nat, ¬ (((d + 1 : Nat) : Int) = -128) := by intro d; omega
    refine ⟨?_, ?_, ?_, ?_⟩
    · intro f' d t bs k r hf hb h
      obtain ⟨f'', rfl⟩ : ∃ f'', f' = f'' + 1 := ⟨f' - 1, by omega⟩
      have hf2 : f ≤ f'' := by omega
      simp only [Skip.skipVal] at h
      cases d with
      | zero => simp at h
      | succ d =>
        have hd0 : ¬ (((d + 1 : Nat) : Int) = 0) := by omega
        simp only [hd0, if_false] at h
        cases t with
        | stop => cases h
        | void => cases h
        | bool => simp only [skip]; exact (skipLeaf_of_advance e 1 bs k r h).1
        | i8 => simp only [skip]; exact (skipLeaf_of_advance e 1 bs k r h).1
        | i16 => simp only [skip]; exact (skipLeaf_of_advance e 2 bs k r h).1
        | i32 => simp only [skip]; exact (skipLeaf_of_advance e 4 bs k r h).1
        | i64 => simp only [skip]; exact (skipLeaf_of_advance e 8 bs k r h).1
        | double => simp only [skip]; exact (skipLeaf_of_advance e 8 bs k r h).2
        | binary => simp only [skip]; exact skipBytes_of_skipBinary e bs hb k r h
        | uuid => simp only [skip]; rw [need_of_advance 16 bs k r h]; rfl
        | struct => simp only [skip]; exact ihF f'' d bs k r hf2 hb h
        | list =>
          simp only [skip]
          cases hx : Binary.readListBegin e bs with
          | ok p =>
            obtain ⟨⟨et, n⟩, r0⟩ := p
            rw [hx] at h
            simp only at h
            have ha := readListBegin_of_sync e bs _ hx
            have hle := runF_le _ bs _ r0 ha
            cases hy : Skip.skipN e f ((d + 1 : Nat) : Int) et n r0 with
            | ok q =>
              obtain ⟨k2, r2⟩ := q
              rw [hy] at h; cases h
              rw [runF_bind, ha]
              exact ihN f'' d et n r0 k2 _ hf2 (by omega) hy
            | err x => rw [hy] at h; cases h
            | panic m => rw [hy] at h; cases h
            | fuel => rw [hy] at h; cases h
          | err x => rw [hx] at h; cases h
          | panic m => rw [hx] at h; cases h
          | fuel => rw [hx] at h; cases h
        | set =>
          simp only [skip]
          cases hx : Binary.readListBegin e bs with
          | ok p =>
            obtain ⟨⟨et, n⟩, r0⟩ := p
            rw [hx] at h
            simp only at h
            have ha := readListBegin_of_sync e bs _ hx
            have hle := runF_le _ bs _ r0 ha
            cases hy : Skip.skipN e f ((d + 1 : Nat) : Int) et n r0 with
            | ok q =>
              obtain ⟨k2, r2⟩ := q
              rw [hy] at h; cases h
              rw [runF_bind, ha]
              exact ihN f'' d et n r0 k2 _ hf2 (by omega) hy
            | err x => rw [hy] at h; cases h
            | panic m => rw [hy] at h; cases h
            | fuel => rw [hy] at h; cases h
          | err x => rw [hx] at h; cases h
          | panic m => rw [hx] at h; cases h
          | fuel => rw [hx] at h; cases h
        | map =>
          simp only [skip]
          cases hx : Binary.readMapBegin e bs with
          | ok p =>
            obtain ⟨⟨kt, vt, n⟩, r0⟩ := p
            rw [hx] at h
            simp only at h
            have ha := readMapBegin_of_sync e bs _ hx
            have hle := runF_le _ bs _ r0 ha
            cases hy : Skip.skipPairs e f ((d + 1 : Nat) : Int) kt vt n r0 with
            | ok q =>
              obtain ⟨k2, r2⟩ := q
              rw [hy] at h; cases h
              rw [runF_bind, ha]
              exact ihP f'' d kt vt n r0 k2 _ hf2 (by omega) hy
            | err x => rw [hy] at h; cases h
            | panic m => rw [hy] at h; cases h
            | fuel => rw [hy] at h; cases h
          | err x => rw [hx] at h; cases h
          | panic m => rw [hx] at h; cases h
          | fuel => rw [hx] at h; cases h
    · intro f' d bs k r hf hb h
      obtain ⟨f'', rfl⟩ : ∃ f'', f' = f'' + 1 := ⟨f' - 1, by omega⟩
      have hf2 : f ≤ f'' := by omega
      simp only [Skip.skipFields] at h
      simp only [skipFields, runF_bind, runF_readFieldBegin]
      cases hx : Binary.readFieldBegin e bs with
      | ok p =>
        obtain ⟨⟨t, id⟩, r0⟩ := p
        rw [hx] at h
        simp only at h
        have hle := fieldBegin_le e bs _ r0 hx
        simp only [bindP]
        by_cases hs : t = .stop
        · simp only [hs, if_true] at h ⊢; cases h; rfl
        · simp only [hs, if_false, ne128 d, cast1 d] at h ⊢
          cases hy : Skip.skipVal e f (d : Int) t r0 with
          | ok q =>
            obtain ⟨k1, r1⟩ := q
            rw [hy] at h
            simp only at h
            have h1 := ihV f'' d t r0 k1 r1 hf2 (by omega) hy
            have hle1 := runF_le _ r0 _ r1 h1
            cases hz : Skip.skipFields e f ((d + 1 : Nat) : Int) r1 with
            | ok q2 =>
              obtain ⟨k2, r2⟩ := q2
              rw [hz] at h; cases h
              rw [runF_bind, h1]
              exact ihF f'' d r1 k2 _ hf2 (by omega) hz
            | err x => rw [hz] at h; cases h
            | panic m => rw [hz] at h; cases h
            | fuel => rw [hz] at h; cases h
          | err x => rw [hy] at h; cases h
          | panic m => rw [hy] at h; cases h
          | fuel => rw [hy] at h; cases h
      | err x => rw [hx] at h; cases h
      | panic m => rw [hx] at h; cases h
      | fuel => rw [hx] at h; cases h
    · intro f' d et n bs k r hf hb h
      obtain ⟨f'', rfl⟩ : ∃ f'', f' = f'' + 1 := ⟨f' - 1, by omega⟩
      have hf2 : f ≤ f'' := by omega
      cases n with
      | zero => simp only [Skip.skipN] at h; cases h; simp [skipN]
      | succ n =>
        simp only [Skip.skipN, ne128 d, if_false, cast1 d] at h
        simp only [skipN]
        cases hy : Skip.skipVal e f (d : Int) et bs with
        | ok q =>
          obtain ⟨k1, r1⟩ := q
          rw [hy] at h
          simp only at h
          have h1 := ihV f'' d et bs k1 r1 hf2 hb hy
          have hle1 := runF_le _ bs _ r1 h1
          cases hz : Skip.skipN e f ((d + 1 : Nat) : Int) et n r1 with
          | ok q2 =>
            obtain ⟨k2, r2⟩ := q2
            rw [hz] at h; cases h
            rw [runF_bind, h1]
            exact ihN f'' d et n r1 k2 _ hf2 (by omega) hz
          | err x => rw [hz] at h; cases h
          | panic m => rw [hz] at h; cases h
          | fuel => rw [hz] at h; cases h
        | err x => rw [hy] at h; cases h
        | panic m => rw [hy] at h; cases h
        | fuel => rw [hy] at h; cases h
    · intro f' d kt vt n bs k r hf hb h
      obtain ⟨f'', rfl⟩ : ∃ f'', f' = f'' + 1 := ⟨f' - 1, by omega⟩
      have hf2 : f ≤ f'' := by omega
      cases n with
      | zero => simp only [Skip.skipPairs] at h; cases h; simp [skipPairs]
      | succ n =>
        simp only [Skip.skipPairs, ne128 d, if_false, cast1 d] at h
        simp only [skipPairs]
        cases hy : Skip.skipVal e f (d : Int) kt bs with
        | ok q =>
          obtain ⟨k1, r1⟩ := q
          rw [hy] at h
          simp only at h
          have h1 := ihV f'' d kt bs k1 r1 hf2 hb hy
          have hle1 := runF_le _ bs _ r1 h1
          cases hy2 : Skip.skipVal e f (d : Int) vt r1 with
          | ok q1 =>
            obtain ⟨k1b, r1b⟩ := q1
            rw [hy2] at h
            simp only at h
            have h2 := ihV f'' d vt r1 k1b r1b hf2 (by omega) hy2
            have hle2 := runF_le _ r1 _ r1b h2
            cases hz : Skip.skipPairs e f ((d + 1 : Nat) : Int) kt vt n r1b with
            | ok q2 =>
              obtain ⟨k2, r2⟩ := q2
              rw [hz] at h; cases h
              rw [runF_bind, h1]
              simp only [bindP]
              rw [runF_bind, h2]
              exact ihP f'' d kt vt n r1b k2 _ hf2 (by omega) hz
            | err x => rw [hz] at h; cases h
            | panic m => rw [hz] at h; cases h
            | fuel => rw [hz] at h; cases h
          | err x => rw [hy2] at h; cases h
          | panic m => rw [hy2] at h; cases h
          | fuel => rw [hy2] at h; cases h
        | err x => rw [hy] at h; cases h
        | panic m => rw [hy] at h; cases h
        | fuel => rw [hy] at h; cases h

end Pilota.Thrift.Async.ABin
