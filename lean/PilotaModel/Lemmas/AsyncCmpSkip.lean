import PilotaModel.Lemmas.AsyncCmpRV
/-  The async skipper over the compact protocol consumes exactly what the reading interpreter consumes. -/
namespace Pilota.Thrift.Async
open Pilota Pilota.Thrift Pilota.Thrift.Compact

namespace ACmp
open ABin (runF_ret runF_fail)

mutual
theorem skip_of_sync (f : Nat) (t : TType) (s : CR) (bs : Bytes) (v : TVal) (s' : CR) (r : Bytes)
    (h : Compact.readVal f t s bs = .ok (v, s', r)) (d : Nat) (hd : v.need ≤ d) : runF (skip f d t s) bs = .ok (s', r) := by
  cases f with
  | zero => simp [Compact.readVal] at h
  | succ f =>
    cases t with
    | stop => simp [Compact.readVal] at h
    | void => simp [Compact.readVal] at h
    | bool =>
      simp only [Compact.readVal] at h
      cases hx : Compact.readBool s bs with
      | ok p =>
        obtain ⟨b, s1, r1⟩ := p
        simp only [hx, Out.ok.injEq, Prod.mk.injEq] at h
        obtain ⟨rfl, rfl, rfl⟩ := h
        cases d with
        | zero => simp [TVal.need] at hd
        | succ d => simp [skip, runF_bind, runF_readBool, hx, pack, bindP]
      | err k => simp [hx] at h
      | panic m => simp [hx] at h
      | fuel => simp [hx] at h
    | i8 =>
      simp only [Compact.readVal] at h
      cases hx : Binary.readI .be 1 bs with
      | ok p =>
        obtain ⟨n, r1⟩ := p
        simp only [hx, Out.ok.injEq, Prod.mk.injEq] at h
        obtain ⟨rfl, rfl, rfl⟩ := h
        cases d with
        | zero => simp [TVal.need] at hd
        | succ d => simp [skip, runF_bind, ABin.runF_readI, hx, bindP]
      | err k => simp [hx] at h
      | panic m => simp [hx] at h
      | fuel => simp [hx] at h
    | i16 =>
      simp only [Compact.readVal] at h
      cases hx : Pilota.readVarS 2 bs with
      | ok p =>
        obtain ⟨n, r1⟩ := p
        simp only [hx, Out.ok.injEq, Prod.mk.injEq] at h
        obtain ⟨rfl, rfl, rfl⟩ := h
        cases d with
        | zero => simp [TVal.need] at hd
        | succ d => simp [skip, runF_bind, runF_readVarS, hx, bindP]
      | err k => simp [hx] at h
      | panic m => simp [hx] at h
      | fuel => simp [hx] at h
    | i32 =>
      simp only [Compact.readVal] at h
      cases hx : Pilota.readVarS 4 bs with
      | ok p =>
        obtain ⟨n, r1⟩ := p
        simp only [hx, Out.ok.injEq, Prod.mk.injEq] at h
        obtain ⟨rfl, rfl, rfl⟩ := h
        cases d with
        | zero => simp [TVal.need] at hd
        | succ d => simp [skip, runF_bind, runF_readVarS, hx, bindP]
      | err k => simp [hx] at h
      | panic m => simp [hx] at h
      | fuel => simp [hx] at h
    | i64 =>
      simp only [Compact.readVal] at h
      cases hx : Pilota.readVarS 8 bs with
      | ok p =>
        obtain ⟨n, r1⟩ := p
        simp only [hx, Out.ok.injEq, Prod.mk.injEq] at h
        obtain ⟨rfl, rfl, rfl⟩ := h
        cases d with
        | zero => simp [TVal.need] at hd
        | succ d => simp [skip, runF_bind, runF_readVarS, hx, bindP]
      | err k => simp [hx] at h
      | panic m => simp [hx] at h
      | fuel => simp [hx] at h
    | double =>
      simp only [Compact.readVal] at h
      cases hx : Binary.readU .le 8 bs with
      | ok p =>
        obtain ⟨n, r1⟩ := p
        simp only [hx, Out.ok.injEq, Prod.mk.injEq] at h
        obtain ⟨rfl, rfl, rfl⟩ := h
        cases d with
        | zero => simp [TVal.need] at hd
        | succ d => simp [skip, runF_bind, ABin.runF_readU, hx, bindP]
      | err k => simp [hx] at h
      | panic m => simp [hx] at h
      | fuel => simp [hx] at h
    | binary =>
      simp only [Compact.readVal] at h
      cases hx : Compact.readBytes bs with
      | ok p =>
        obtain ⟨n, r1⟩ := p
        simp only [hx, Out.ok.injEq, Prod.mk.injEq] at h
        obtain ⟨rfl, rfl, rfl⟩ := h
        cases d with
        | zero => simp [TVal.need] at hd
        | succ d => simp [skip, runF_bind, runF_readBytes, hx, bindP]
      | err k => simp [hx] at h
      | panic m => simp [hx] at h
      | fuel => simp [hx] at h
    | uuid =>
      simp only [Compact.readVal] at h
      cases hx : Binary.takeN 16 bs with
      | ok p =>
        obtain ⟨b, r1⟩ := p
        simp only [hx, Out.ok.injEq, Prod.mk.injEq] at h
        obtain ⟨rfl, rfl, rfl⟩ := h
        cases d with
        | zero => simp [TVal.need] at hd
        | succ d => simp [skip, runF, hx]
      | err k => simp [hx] at h
      | panic m => simp [hx] at h
      | fuel => simp [hx] at h
    | struct =>
      simp only [Compact.readVal] at h
      cases hx : Compact.readFields f (readStructBegin s) bs with
      | ok p =>
        obtain ⟨fs, s1, r1⟩ := p
        simp only [hx] at h
        cases hy : Compact.readStructEnd s1 with
        | ok s2 =>
          simp only [hy, Out.ok.injEq, Prod.mk.injEq] at h
          obtain ⟨rfl, rfl, rfl⟩ := h
          cases d with
          | zero => simp [TVal.need] at hd
          | succ d =>
            simp only [TVal.need] at hd
            simp [skip, runF_bind, skipFields_of_sync f _ bs fs s1 r1 hx d (by omega), bindP, runF_readStructEnd, hy]
        | err k => simp [hy] at h
        | panic m => simp [hy] at h
        | fuel => simp [hy] at h
      | err k => simp [hx] at h
      | panic m => simp [hx] at h
      | fuel => simp [hx] at h
    | list =>
      simp only [Compact.readVal] at h
      cases hx : Compact.readCollBegin bs with
      | ok p =>
        obtain ⟨⟨et, n⟩, r1⟩ := p
        simp only [hx] at h
        cases hy : Compact.readN f et n s r1 with
        | ok q =>
          obtain ⟨xs, s2, r2⟩ := q
          simp only [hy, Out.ok.injEq, Prod.mk.injEq] at h
          obtain ⟨rfl, rfl, rfl⟩ := h
          cases d with
          | zero => simp [TVal.need] at hd
          | succ d =>
            simp only [TVal.need] at hd
            simp [skip, runF_bind, readCollBegin_of_sync bs _ hx, bindP, skipN_of_sync f et n s r1 xs s2 r2 hy d (by omega)]
        | err k => simp [hy] at h
        | panic m => simp [hy] at h
        | fuel => simp [hy] at h
      | err k => simp [hx] at h
      | panic m => simp [hx] at h
      | fuel => simp [hx] at h
    | set =>
      simp only [Compact.readVal] at h
      cases hx : Compact.readCollBegin bs with
      | ok p =>
        obtain ⟨⟨et, n⟩, r1⟩ := p
        simp only [hx] at h
        cases hy : Compact.readN f et n s r1 with
        | ok q =>
          obtain ⟨xs, s2, r2⟩ := q
          simp only [hy, Out.ok.injEq, Prod.mk.injEq] at h
          obtain ⟨rfl, rfl, rfl⟩ := h
          cases d with
          | zero => simp [TVal.need] at hd
          | succ d =>
            simp only [TVal.need] at hd
            simp [skip, runF_bind, readCollBegin_of_sync bs _ hx, bindP, skipN_of_sync f et n s r1 xs s2 r2 hy d (by omega)]
        | err k => simp [hy] at h
        | panic m => simp [hy] at h
        | fuel => simp [hy] at h
      | err k => simp [hx] at h
      | panic m => simp [hx] at h
      | fuel => simp [hx] at h
    | map =>
      simp only [Compact.readVal] at h
      cases hx : Compact.readMapBegin bs with
      | ok p =>
        obtain ⟨⟨kt, vt, n⟩, r1⟩ := p
        simp only [hx] at h
        cases hy : Compact.readPairs f kt vt n s r1 with
        | ok q =>
          obtain ⟨xs, s2, r2⟩ := q
          simp only [hy, Out.ok.injEq, Prod.mk.injEq] at h
          obtain ⟨rfl, rfl, rfl⟩ := h
          cases d with
          | zero => simp [TVal.need] at hd
          | succ d =>
            simp only [TVal.need] at hd
            simp [skip, runF_bind, readMapBegin_of_sync bs _ hx, bindP, skipPairs_of_sync f kt vt n s r1 xs s2 r2 hy d (by omega)]
        | err k => simp [hy] at h
        | panic m => simp [hy] at h
        | fuel => simp [hy] at h
      | err k => simp [hx] at h
      | panic m => simp [hx] at h
      | fuel => simp [hx] at h
theorem skipFields_of_sync (f : Nat) (s : CR) (bs : Bytes) (fs : TFields) (s' : CR) (r : Bytes)
    (h : Compact.readFields f s bs = .ok (fs, s', r)) (d : Nat) (hd : fs.need ≤ d) : runF (skipFields f d s) bs = .ok (s', r) := by
  cases f with
  | zero => simp [Compact.readFields] at h
  | succ f =>
    simp only [Compact.readFields] at h
    simp only [skipFields, runF_bind, runF_readFieldBegin]
    cases hx : Compact.readFieldBegin s bs with
    | ok p =>
      obtain ⟨⟨t, id⟩, s1, r1⟩ := p
      simp only [hx] at h
      by_cases hs : t = .stop
      · simp only [hs, if_true, Out.ok.injEq, Prod.mk.injEq] at h
        obtain ⟨rfl, rfl, rfl⟩ := h
        simp [pack, bindP, hs]
      · simp only [hs, if_false] at h
        cases hy : Compact.readVal f t s1 r1 with
        | ok q =>
          obtain ⟨v, s2, r2⟩ := q
          simp only [hy] at h
          cases hz : Compact.readFields f s2 r2 with
          | ok q2 =>
            obtain ⟨rest, s3, r3⟩ := q2
            simp only [hz, Out.ok.injEq, Prod.mk.injEq] at h
            obtain ⟨rfl, rfl, rfl⟩ := h
            simp only [TFields.need] at hd
            simp [pack, bindP, hs, runF_bind, skip_of_sync f t s1 r1 v s2 r2 hy d (by omega),
              skipFields_of_sync f s2 r2 rest s3 r3 hz d (by omega)]
          | err k => simp [hz] at h
          | panic m => simp [hz] at h
          | fuel => simp [hz] at h
        | err k => simp [hy] at h
        | panic m => simp [hy] at h
        | fuel => simp [hy] at h
    | err k => simp [hx] at h
    | panic m => simp [hx] at h
    | fuel => simp [hx] at h
theorem skipN_of_sync (f : Nat) (et : TType) (n : Nat) (s : CR) (bs : Bytes) (xs : TVals) (s' : CR) (r : Bytes)
    (h : Compact.readN f et n s bs = .ok (xs, s', r)) (d : Nat) (hd : xs.need ≤ d) : runF (skipN f d et n s) bs = .ok (s', r) := by
  cases f with
  | zero => simp [Compact.readN] at h
  | succ f =>
    cases n with
    | zero =>
      simp only [Compact.readN, Out.ok.injEq, Prod.mk.injEq] at h
      obtain ⟨rfl, rfl, rfl⟩ := h
      simp [skipN]
    | succ n =>
      simp only [Compact.readN] at h
      simp only [skipN, runF_bind]
      cases hy : Compact.readVal f et s bs with
      | ok q =>
        obtain ⟨v, s2, r2⟩ := q
        simp only [hy] at h
        cases hz : Compact.readN f et n s2 r2 with
        | ok q2 =>
          obtain ⟨rest, s3, r3⟩ := q2
          simp only [hz, Out.ok.injEq, Prod.mk.injEq] at h
          obtain ⟨rfl, rfl, rfl⟩ := h
          simp only [TVals.need] at hd
          simp [bindP, skip_of_sync f et s bs v s2 r2 hy d (by omega), skipN_of_sync f et n s2 r2 rest s3 r3 hz d (by omega)]
        | err k => simp [hz] at h
        | panic m => simp [hz] at h
        | fuel => simp [hz] at h
      | err k => simp [hy] at h
      | panic m => simp [hy] at h
      | fuel => simp [hy] at h
theorem skipPairs_of_sync (f : Nat) (kt vt : TType) (n : Nat) (s : CR) (bs : Bytes) (xs : TPairs) (s' : CR) (r : Bytes)
    (h : Compact.readPairs f kt vt n s bs = .ok (xs, s', r)) (d : Nat) (hd : xs.need ≤ d) :
    runF (skipPairs f d kt vt n s) bs = .ok (s', r) := by
  cases f with
  | zero => simp [Compact.readPairs] at h
  | succ f =>
    cases n with
    | zero =>
      simp only [Compact.readPairs, Out.ok.injEq, Prod.mk.injEq] at h
      obtain ⟨rfl, rfl, rfl⟩ := h
      simp [skipPairs]
    | succ n =>
      simp only [Compact.readPairs] at h
      simp only [skipPairs, runF_bind]
      cases hy : Compact.readVal f kt s bs with
      | ok q =>
        obtain ⟨k, s2, r2⟩ := q
        simp only [hy] at h
        cases hy' : Compact.readVal f vt s2 r2 with
        | ok q' =>
          obtain ⟨v, s2', r2'⟩ := q'
          simp only [hy'] at h
          cases hz : Compact.readPairs f kt vt n s2' r2' with
          | ok q2 =>
            obtain ⟨rest, s3, r3⟩ := q2
            simp only [hz, Out.ok.injEq, Prod.mk.injEq] at h
            obtain ⟨rfl, rfl, rfl⟩ := h
            simp only [TPairs.need] at hd
            simp [bindP, skip_of_sync f kt s bs k s2 r2 hy d (by omega), skip_of_sync f vt s2 r2 v s2' r2' hy' d (by omega),
              skipPairs_of_sync f kt vt n s2' r2' rest s3 r3 hz d (by omega)]
          | err k => simp [hz] at h
          | panic m => simp [hz] at h
          | fuel => simp [hz] at h
        | err k => simp [hy'] at h
        | panic m => simp [hy'] at h
        | fuel => simp [hy'] at h
      | err k => simp [hy] at h
      | panic m => simp [hy] at h
      | fuel => simp [hy] at h
end

end ACmp
end Pilota.Thrift.Async
